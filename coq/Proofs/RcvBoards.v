(* Per-board facts about Model/RcvModel.v (every command of every board type), the system invariant,
   re-addressing and the agreement of the abbreviated and extended forms. *)
From DS Require Import Base.Prelude Gen.RcvTables Model.RcvModel Proofs.RcvAssoc Proofs.RcvProofs.

Ltac brk :=
  repeat match goal with
  | |- context [match ?x with _ => _ end] =>
      match type of x with
      | bool => destruct x eqn:?
      | option _ => destruct x eqn:?
      | list _ => destruct x
      | kind => is_var x; destruct x
      | prod _ _ => destruct x
      end
  end.

Lemma cmdk_eq_dec_local (k : cmdk) : {k = KSetAddr} + {k <> KSetAddr}.
Proof. destruct k; (left; reflexivity) || (right; discriminate). Qed.

Definition addr_of (b : board) : Z := c_addr (b_com b).

(* registers of a board except the command code of the inquiry record *)
Definition mask_cmd (b : board) : board :=
  let c := b_com b in
  mkBoard (mkCommon (c_addr c) (c_ports c) (c_frame c) (c_offset c) (c_date c) 0 (c_cid c) (c_ans c)) (b_kind b).
Definition regs_eq (b1 b2 : board) : Prop := mask_cmd b1 = mask_cmd b2.

Section B.
  Variable clk : nat -> Z.
  Variable mkdate : list Z -> option Z.
  Variable render : Z -> option (list Z).

  Notation exec := (exec clk mkdate render).
  Notation exec_req := (exec_req clk mkdate render).
  Notation run_targets := (run_targets clk mkdate render).
  Notation handle := (handle clk mkdate render).
  Notation parse := (parse clk mkdate render).
  Notation run := (run clk mkdate render).

  Ltac unf := unfold RcvModel.exec, gen_get, get_data, set_data, fin, store, dio_value, get_extra.
  Ltac go := repeat (progress (unf; cbn [b_com b_kind e_board e_ans e_tick]; brk)).

  (* ---- the address of a board changes only through an acknowledged set_address ---- *)
  Lemma exec_addr_other keys b t k ext cid p :
    k <> KSetAddr -> addr_of (e_board (exec keys b t k ext cid p)) = addr_of b.
  Proof.
    intros Hk. destruct b as [c kd]. unfold addr_of.
    destruct k; try contradiction; go; reflexivity.
  Qed.

  Inductive setaddr_result (keys : list Z) (b : board) (t : nat) (ext : bool) (cid : Z) (p : list Z)
    : eres -> Prop :=
  | SA_ack a : p = [a] -> mem a SLAVE_ADDR_ACCEPTED = true -> mem a keys = false ->
      setaddr_result keys b t ext cid p
        (mkRes (mkBoard (set_last (set_addr (b_com b) a) (code_of KSetAddr ext) cid CMD_ACK (clk t)) (b_kind b))
               (S t) (Some (CMD_ACK, [])))
  | SA_data a : p = [a] -> mem a SLAVE_ADDR_ACCEPTED = false \/ mem a keys = true ->
      setaddr_result keys b t ext cid p
        (mkRes (mkBoard (set_last (b_com b) (code_of KSetAddr ext) cid CMD_ERR_DATA (clk t)) (b_kind b))
               (S t) (Some (CMD_ERR_DATA, [])))
  | SA_form : length p <> 1%nat ->
      setaddr_result keys b t ext cid p
        (mkRes (mkBoard (set_last (b_com b) (code_of KSetAddr ext) cid CMD_ERR_FORM (clk t)) (b_kind b))
               (S t) (Some (CMD_ERR_FORM, []))).

  Lemma exec_setaddr keys b t ext cid p :
    setaddr_result keys b t ext cid p (exec keys b t KSetAddr ext cid p).
  Proof.
    unfold RcvModel.exec, fin. destruct p as [|a [|a2 p]].
    - apply SA_form. cbn. lia.
    - destruct (mem a SLAVE_ADDR_ACCEPTED) eqn:E1; cbn [negb orb].
      + destruct (mem a keys) eqn:E2.
        * eapply SA_data; eauto.
        * eapply SA_ack; eauto.
      + eapply SA_data; eauto.
    - apply SA_form. cbn. lia.
  Qed.

  (* what exec_req reports about the address *)
  Lemma exec_req_addr q keys b t :
    let r := exec_req q keys b t in
    match r_moved r with
    | None => addr_of (r_board r) = addr_of b
    | Some (Some a') => addr_of (r_board r) = a' /\ ~ In a' keys /\ mem a' SLAVE_ADDR_ACCEPTED = true
                        /\ r_tail r = Some [CMD_ACK]
    | Some None => False
    end.
  Proof.
    unfold RcvModel.exec_req.
    destruct (negb (mem (q_cmd q) ACCEPTED_COMMANDS)); [reflexivity|].
    destruct (q_chk q); [reflexivity|].
    destruct (classify (q_cmd q)) as [k|]; [|reflexivity].
    destruct (cmdk_eq_dec_local k) as [->|Hk].
    - destruct (exec_setaddr keys b t (q_ext q) (q_cid q) (q_params q)) as [a Hp Ha Hn|a Hp Hor|Hl];
        cbn [e_ans e_board e_tick r_moved r_board r_tail].
      + rewrite Z.eqb_refl. rewrite Hp. cbn. repeat split; auto.
        intros Hin. apply (mem_in a keys) in Hin. congruence.
      + change (CMD_ERR_DATA =? CMD_ACK) with false. cbn. reflexivity.
      + change (CMD_ERR_FORM =? CMD_ACK) with false. cbn. reflexivity.
    - pose proof (exec_addr_other keys b t k (q_ext q) (q_cid q) (q_params q) Hk) as Ha.
      destruct (e_ans (exec keys b t k (q_ext q) (q_cid q) (q_params q))) as [[code extra]|];
        cbn [r_moved r_board]; destruct k; try contradiction; exact Ha.
  Qed.

  Lemma exec_req_exc q keys b t : r_tail (exec_req q keys b t) = None -> r_moved (exec_req q keys b t) = None.
  Proof.
    unfold RcvModel.exec_req.
    destruct (negb (mem (q_cmd q) ACCEPTED_COMMANDS)); [discriminate|].
    destruct (q_chk q); [discriminate|].
    destruct (classify (q_cmd q)) as [k|]; [|discriminate].
    destruct (e_ans _) as [[code extra]|]; [discriminate|reflexivity].
  Qed.

  (* ---- the system invariant: keys are distinct and each board knows its own key ---- *)
  Definition sys_inv (sl : slaves) : Prop :=
    NoDup (keys_of sl) /\ Forall (fun kb => addr_of (snd kb) = fst kb) sl.

  Lemma run_targets_inv q : forall targets sl t acc sl' t' res,
    sys_inv sl -> run_targets q targets sl t acc = (sl', t', res) -> sys_inv sl'.
  Proof.
    induction targets as [|a rest IH]; intros sl t acc sl' t' res [Hnd Hf] Hr; cbn in Hr.
    - injection Hr as <- <- <-. split; assumption.
    - destruct (aget Z.eqb sl a) as [b|] eqn:Hb; [|eapply IH; eauto; split; assumption].
      assert (Hab : addr_of b = a).
      { apply aget_some_In in Hb. rewrite Forall_forall in Hf. apply (Hf _ Hb). }
      pose proof (exec_req_addr q (keys_of sl) b t) as Ha. cbv zeta in Ha.
      pose proof (exec_req_exc q (keys_of sl) b t) as He.
      set (r := exec_req q (keys_of sl) b t) in *.
      assert (Hinv1 : r_moved r = None -> sys_inv (aset Z.eqb sl a (r_board r))).
      { intros Hm. rewrite Hm in Ha. split.
        - apply nodup_aset. assumption.
        - apply forall_aset; [assumption|]. cbn. congruence. }
      destruct (r_tail r) as [tail|] eqn:Et.
      + destruct (r_moved r) as [[a'|]|] eqn:Em.
        * destruct Ha as (Ha1 & Ha2 & _). eapply IH; [|exact Hr]. split.
          -- apply nodup_aset. apply nodup_adel. apply nodup_aset. assumption.
          -- apply forall_aset; [|exact Ha1]. rewrite adel_aset_same. apply forall_adel. assumption.
        * contradiction.
        * eapply IH; [|exact Hr]. auto.
      + injection Hr as <- <- <-. auto.
  Qed.

  Lemma handle_inv sl t m sl' t' o : sys_inv sl -> handle sl t m = (sl', t', o) -> sys_inv sl'.
  Proof.
    intros Hi. unfold RcvModel.handle. destruct (decode m) as [[sa q]|]; [|intros H; injection H as <- <- <-; assumption].
    destruct (run_targets q (targets_of sa sl) sl t []) as [[sl2 t2] res] eqn:Er.
    apply run_targets_inv in Er; [|assumption].
    destruct res; intros H; injection H as <- <- <-; assumption.
  Qed.

  Lemma parse_inv s b s' o : sys_inv (s_slaves s) -> parse s b = (s', o) -> sys_inv (s_slaves s').
  Proof.
    intros Hi. unfold RcvModel.parse. destruct (frame_step (s_msg s) b).
    - intros H; injection H as <- <-; assumption.
    - intros H; injection H as <- <-; assumption.
    - destruct (handle (s_slaves s) (s_tick s) m) as [[sl t] o'] eqn:Eh. apply handle_inv in Eh; [|assumption].
      intros H; injection H as <- <-; assumption.
  Qed.

  Lemma run_inv : forall bs s s' os, sys_inv (s_slaves s) -> run s bs = (s', os) -> sys_inv (s_slaves s').
  Proof.
    induction bs as [|b r IH]; intros s s' os Hi; cbn.
    - intros H; injection H as <- <-; assumption.
    - destruct (parse s b) as [s1 o] eqn:Ep. apply parse_inv in Ep; [|assumption].
      destruct (run s1 r) as [s2 os2] eqn:Er. apply IH in Er; [|assumption].
      intros H; injection H as <- <-; assumption.
  Qed.

  Lemma init_inv tag feeds addrs : NoDup addrs -> sys_inv (s_slaves (init_sys tag feeds addrs)).
  Proof.
    intros H. unfold init_sys, sys_inv, keys_of. cbn [s_slaves]. rewrite map_map. cbn. rewrite map_id.
    split; [assumption|]. apply Forall_forall. intros x Hx. apply in_map_iff in Hx as (a & <- & _). reflexivity.
  Qed.

  (* ---- re-addressing (unicast) ---- *)
  Lemma exec_req_setaddr q keys b t :
    mem (q_cmd q) ACCEPTED_COMMANDS = true -> q_chk q = false -> classify (q_cmd q) = Some KSetAddr ->
    let r := exec keys b t KSetAddr (q_ext q) (q_cid q) (q_params q) in
    exists code, e_ans r = Some (code, []) /\
    exec_req q keys b t =
      mkB (e_board r) (S t) (Some [code]) (q_ext q)
          (if code =? CMD_ACK then Some (match q_params q with [a] => Some a | _ => None end) else None).
  Proof.
    intros Ha Hc Hk. unfold RcvModel.exec_req. rewrite Ha, Hc, Hk. cbn [negb].
    destruct (exec_setaddr keys b t (q_ext q) (q_cid q) (q_params q)); cbn [e_ans e_board e_tick];
      eexists; split; reflexivity.
  Qed.

  Lemma readdress_accepted sl t m sa q b a' :
    sys_inv sl -> decode m = Some (sa, q) -> is_broadcast sa = false -> aget Z.eqb sl sa = Some b ->
    mem (q_cmd q) ACCEPTED_COMMANDS = true -> q_chk q = false -> classify (q_cmd q) = Some KSetAddr ->
    q_params q = [a'] -> mem a' SLAVE_ADDR_ACCEPTED = true -> ~ In a' (keys_of sl) ->
    let b' := mkBoard (set_last (set_addr (b_com b) a') (code_of KSetAddr (q_ext q)) (q_cid q) CMD_ACK (clk t))
                      (b_kind b) in
    let sl' := aset Z.eqb (adel Z.eqb sl sa) a' b' in
    handle sl t m = (sl', S t, OReply (frame q sa [CMD_ACK] (q_ext q))) /\
    keys_of sl' = remove Z.eq_dec sa (keys_of sl) ++ [a'] /\
    aget Z.eqb sl' sa = None /\ aget Z.eqb sl' a' = Some b' /\ addr_of b' = a' /\ is_broadcast a' = false.
  Proof.
    intros [Hnd Hf] Hd Hb Hg Hacc Hchk Hk Hp Ha' Hni b' sl'.
    pose proof (unicast_once clk mkdate render sl t m sa q b Hd Hb Hg) as Hu. cbv zeta in Hu.
    destruct (exec_req_setaddr q (keys_of sl) b t Hacc Hchk Hk) as (code & He & Hr). cbv zeta in He.
    assert (Hres : exec (keys_of sl) b t KSetAddr (q_ext q) (q_cid q) (q_params q) =
                   mkRes b' (S t) (Some (CMD_ACK, []))).
    { destruct (exec_setaddr (keys_of sl) b t (q_ext q) (q_cid q) (q_params q)) as [a Hpa Haa Hna|a Hpa Hor|Hl].
      - rewrite Hp in Hpa. injection Hpa as <-. reflexivity.
      - rewrite Hp in Hpa. injection Hpa as <-. destruct Hor as [H|H]; [congruence|].
        apply mem_in in H. contradiction.
      - rewrite Hp in Hl. cbn in Hl. lia. }
    rewrite Hres in He, Hr. cbn [e_ans e_board] in He, Hr. injection He as <-.
    rewrite Hr in Hu. unfold sl_after, one_outcome in Hu. cbn [r_tail r_moved r_board r_tick r_trailer] in Hu.
    rewrite Z.eqb_refl, Hp in Hu. rewrite adel_aset_same in Hu.
    assert (Hsa : In sa (keys_of sl)) by (eapply aget_some_in; eauto).
    assert (Hne : a' <> sa) by (intros ->; contradiction).
    assert (Hni2 : ~ In a' (zkeys (adel Z.eqb sl sa))) by (intros H; apply in_keys_adel_inv in H; contradiction).
    split; [exact Hu|]. split; [|split; [|split; [|split]]].
    - unfold keys_of. fold (zkeys sl'). unfold sl'. rewrite keys_aset_absent by assumption.
      rewrite keys_adel by assumption. reflexivity.
    - unfold sl'. rewrite aget_aset_other by congruence. apply aget_none. apply notin_keys_adel. assumption.
    - apply aget_aset_eq.
    - reflexivity.
    - unfold is_broadcast. rewrite addr_accepted_spec in Ha'. destruct broadcast_addrs as (-> & -> & ->).
      cbn. destruct (Z.eqb_spec a' 0); [lia|]. destruct (Z.eqb_spec a' 127); [lia|]. reflexivity.
  Qed.

  Lemma readdress_refused sl t m sa q b :
    decode m = Some (sa, q) -> is_broadcast sa = false -> aget Z.eqb sl sa = Some b ->
    mem (q_cmd q) ACCEPTED_COMMANDS = true -> q_chk q = false -> classify (q_cmd q) = Some KSetAddr ->
    (length (q_params q) <> 1%nat \/
     exists a', q_params q = [a'] /\ (mem a' SLAVE_ADDR_ACCEPTED = false \/ In a' (keys_of sl))) ->
    exists code, (code = CMD_ERR_FORM \/ code = CMD_ERR_DATA) /\
      let b' := mkBoard (set_last (b_com b) (code_of KSetAddr (q_ext q)) (q_cid q) code (clk t)) (b_kind b) in
      handle sl t m = (aset Z.eqb sl sa b', S t, OReply (frame q sa [code] (q_ext q))) /\
      keys_of (aset Z.eqb sl sa b') = keys_of sl /\ addr_of b' = addr_of b.
  Proof.
    intros Hd Hb Hg Hacc Hchk Hk Hbad.
    pose proof (unicast_once clk mkdate render sl t m sa q b Hd Hb Hg) as Hu. cbv zeta in Hu.
    destruct (exec_req_setaddr q (keys_of sl) b t Hacc Hchk Hk) as (code & He & Hr). cbv zeta in He.
    assert (Hsa : In sa (keys_of sl)) by (eapply aget_some_in; eauto).
    destruct (exec_setaddr (keys_of sl) b t (q_ext q) (q_cid q) (q_params q)) as [a Hpa Haa Hna|a Hpa Hor|Hl].
    - exfalso. destruct Hbad as [Hl|(a2 & Hp2 & Hor)].
      + rewrite Hpa in Hl. cbn in Hl. lia.
      + rewrite Hpa in Hp2. injection Hp2 as <-. destruct Hor as [H|H]; [congruence|].
        apply mem_in in H. congruence.
    - cbn [e_ans e_board] in He, Hr. injection He as <-. exists CMD_ERR_DATA. split; [auto|]. cbv zeta.
      rewrite Hr in Hu. unfold sl_after, one_outcome in Hu. cbn [r_tail r_moved r_board r_tick r_trailer] in Hu.
      change (CMD_ERR_DATA =? CMD_ACK) with false in Hu. cbn iota in Hu.
      split; [exact Hu|]. split; [|reflexivity]. apply keys_aset_present. assumption.
    - cbn [e_ans e_board] in He, Hr. injection He as <-. exists CMD_ERR_FORM. split; [auto|]. cbv zeta.
      rewrite Hr in Hu. unfold sl_after, one_outcome in Hu. cbn [r_tail r_moved r_board r_tick r_trailer] in Hu.
      change (CMD_ERR_FORM =? CMD_ACK) with false in Hu. cbn iota in Hu.
      split; [exact Hu|]. split; [|reflexivity]. apply keys_aset_present. assumption.
  Qed.

  (* get_address reports the address field *)
  Lemma exec_getaddr keys b t ext cid p :
    e_ans (exec keys b t KGetAddr ext cid p) = Some (CMD_ACK, [1; addr_of b]).
  Proof. reflexivity. Qed.

  (* ---- abbreviated and extended form ---- *)
  Lemma exec_forms keys b t k cid p :
    let re := exec keys b t k true cid p in
    let ra := exec keys b t k false cid p in
    e_ans ra = e_ans re /\ e_tick ra = e_tick re /\ regs_eq (e_board ra) (e_board re).
  Proof.
    destruct b as [c kd]. cbv zeta. unfold regs_eq.
    destruct k; go; repeat split; reflexivity.
  Qed.

  Lemma exec_short keys b t k ext cid p :
    has_params k = true -> (length p = 0%nat \/ length p = 2%nat) ->
    exec keys b t k ext cid p = fin clk (b_com b) (b_kind b) t k ext cid CMD_ERR_FORM [].
  Proof.
    intros Hk Hl. destruct b as [c kd].
    destruct p as [|x [|y [|z p]]]; cbn in Hl; try lia;
      destruct k; try discriminate; unfold RcvModel.exec, gen_get, get_data, set_data; cbn; try reflexivity;
      destruct kd; reflexivity.
  Qed.

  Definition params_agree (k : cmdk) (pa pe : list Z) : Prop :=
    pa = pe \/ (has_params k = true /\ length pa = 2%nat /\ pe = []).

  Lemma exec_req_forms ma cid k pa pe keys b t :
    params_agree k pa pe ->
    let ra := exec_req (mkReq ma (abbr_code k) cid false false pa) keys b t in
    let re := exec_req (mkReq ma (ext_code k) cid true false pe) keys b t in
    r_tail ra = r_tail re /\ r_tick ra = r_tick re /\ r_moved ra = r_moved re /\
    regs_eq (r_board ra) (r_board re) /\ r_trailer ra = false /\ r_trailer re = true.
  Proof.
    intros Hp. destruct (kinds_ok k) as (Hce & Hca & _ & _ & Hae & Haa & _).
    unfold RcvModel.exec_req. cbn [q_cmd q_chk q_ext q_cid q_params]. rewrite Hae, Haa, Hce, Hca. cbn [negb].
    destruct Hp as [->|(Hk & Hl & ->)].
    - destruct (exec_forms keys b t k cid pe) as (H1 & H2 & H3). cbv zeta in H1, H2, H3.
      destruct (e_ans (exec keys b t k true cid pe)) as [[code extra]|] eqn:Ee;
        rewrite H1; cbn [r_tail r_tick r_moved r_board r_trailer]; repeat split; auto.
    - rewrite (exec_short keys b t k false cid pa Hk (or_intror Hl)).
      rewrite (exec_short keys b t k true cid [] Hk (or_introl eq_refl)).
      unfold fin. cbn [e_ans e_board e_tick r_tail r_tick r_moved r_board r_trailer].
      repeat split; try reflexivity; destruct k; try discriminate; reflexivity.
  Qed.

  Definition sl_rel : slaves -> slaves -> Prop := map_rel regs_eq.

  Lemma regs_eq_refl b : regs_eq b b.
  Proof. reflexivity. Qed.

  Lemma forms_agree_unicast sl t ma_ mb_ sa ma cid k pa pe b :
    decode ma_ = Some (sa, mkReq ma (abbr_code k) cid false false pa) ->
    decode mb_ = Some (sa, mkReq ma (ext_code k) cid true false pe) ->
    params_agree k pa pe -> is_broadcast sa = false -> aget Z.eqb sl sa = Some b ->
    let '(sla, ta, oa) := handle sl t ma_ in
    let '(sle, te, oe) := handle sl t mb_ in
    ta = te /\ sl_rel sla sle /\
    ((oa = OExc /\ oe = OExc) \/
     exists tail, oa = OReply (frame (mkReq ma (abbr_code k) cid false false pa) sa tail false) /\
                  oe = OReply (frame (mkReq ma (ext_code k) cid true false pe) sa tail true)).
  Proof.
    intros Hda Hde Hp Hb Hg.
    rewrite (unicast_once clk mkdate render sl t ma_ sa _ b Hda Hb Hg).
    rewrite (unicast_once clk mkdate render sl t mb_ sa _ b Hde Hb Hg).
    destruct (exec_req_forms ma cid k pa pe (keys_of sl) b t Hp) as (H1 & H2 & H3 & H4 & H5 & H6).
    cbv zeta in H1, H2, H3, H4, H5, H6.
    set (qa := mkReq ma (abbr_code k) cid false false pa) in *.
    set (qe := mkReq ma (ext_code k) cid true false pe) in *.
    set (ra := exec_req qa (keys_of sl) b t) in *. set (re := exec_req qe (keys_of sl) b t) in *.
    split; [assumption|]. split.
    - unfold sl_after. rewrite H1, H3. assert (H0 : sl_rel (aset Z.eqb sl sa (r_board ra)) (aset Z.eqb sl sa (r_board re))).
      { apply map_rel_aset; [apply map_rel_refl; intros; reflexivity|assumption]. }
      destruct (r_tail re); [|assumption]. destruct (r_moved re) as [[a'|]|]; try assumption.
      apply map_rel_aset; [|assumption]. apply map_rel_adel. assumption.
    - unfold one_outcome. rewrite H1, H3, H5, H6.
      destruct (r_tail re) as [tail|]; [|left; auto].
      destruct (r_moved re) as [[a'|]|]; [right; eauto|left; auto|right; eauto].
  Qed.
End B.
