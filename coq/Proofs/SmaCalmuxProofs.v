(* calmux: device invariant, handler specifications, and the byte-level C02/C03/C04/C05
   statements derived from them. *)
From DS Require Import Base.Prelude Model.SmaCommon Model.SmaCalmux Proofs.SmaBase Proofs.SmaFramer.

Definition bit01 (v : Z) : Prop := v = 0 \/ v = 1.

Definition cm_inv (d : cdev) : Prop :=
  length (pol d) = 17%nat /\ length (calon d) = 17%nat /\ 0 <= cur d < 17 /\
  Forall bit01 (pol d) /\ Forall bit01 (calon d).

Lemma Forall_repeat {A} (P : A -> Prop) x n : P x -> Forall P (repeat x n).
Proof. intros H. induction n; cbn; constructor; auto. Qed.

Lemma cm_inv0 : cm_inv cm_dev0.
Proof.
  unfold cm_inv, cm_dev0. cbn [pol calon cur]. rewrite !repeat_length.
  repeat split; try reflexivity; try (unfold cm_slow_channel; lia);
    apply Forall_repeat; left; reflexivity.
Qed.

(* the shape of every reply calmux can produce *)
Definition cm_wf_reply (r : list Z) : Prop :=
  r = cm_ack \/ r = cm_nak \/ r = cm_freq_reply \/
  exists c p k, 0 <= c < 17 /\ bit01 p /\ bit01 k /\ r = cm_status_reply c p k.

(* which command a complete line addresses (the first token after strip) *)
Definition cm_cmd_of (m : list Z) : option cm_cmd :=
  match cm_tokens m with a0 :: _ => cm_lookup a0 | [] => None end.
Definition cm_params_of (m : list Z) : option (list Z) :=
  match cm_tokens m with _ :: rest => map_opt parse_int rest | [] => None end.

Definition is_cmd (c : cm_cmd) (oc : option cm_cmd) : Prop := oc = Some c.

(* the full specification of one executed line *)
Definition cm_post (oc : option cm_cmd) (d d' : cdev) (o : outcome) : Prop :=
  cm_inv d' /\
  (o <> OReply cm_ack -> d' = d) /\
  (o = OReply cm_ack ->
     (oc = Some CmI /\ calon d' = calon d) \/
     (oc = Some CmC /\ cur d' = cur d /\ pol d' = pol d)) /\
  (forall r, o = OReply r -> cm_wf_reply r) /\
  (o = OFalse -> False) /\ (o = OTrue -> False).

Lemma cm_post_same oc d o :
  cm_inv d -> o <> OReply cm_ack -> (forall r, o = OReply r -> cm_wf_reply r) ->
  o <> OFalse -> o <> OTrue -> cm_post oc d d o.
Proof.
  intros Hi Ho Hw H1 H2. unfold cm_post.
  split; [exact Hi|]. split; [reflexivity|]. split; [intros; contradiction|].
  split; [exact Hw|]. split; assumption.
Qed.

Lemma cm_nak_post oc d : cm_inv d -> cm_post oc d d (OReply cm_nak).
Proof.
  intros Hi. apply cm_post_same; auto; try discriminate.
  intros r Hr. injection Hr as <-. right. left. reflexivity.
Qed.

Lemma in01_bit v : in01 v = true -> bit01 v.
Proof. unfold in01, bit01. lia. Qed.

Lemma cm_set_input_post d ps d' o :
  cm_inv d -> cm_set_input d ps = (d', o) -> cm_post (Some CmI) d d' o.
Proof.
  intros Hi H. unfold cm_set_input in H.
  destruct ps as [|ch [|p [|x r]]]; try (injection H as <- <-; apply cm_nak_post; exact Hi).
  destruct (in_range cm_max_channels ch) eqn:Er; cbn [negb] in H;
    [|injection H as <- <-; apply cm_nak_post; exact Hi].
  destruct (in01 p) eqn:Ep; cbn [negb] in H;
    [|injection H as <- <-; apply cm_nak_post; exact Hi].
  destruct Hi as (Hl1 & Hl2 & Hc & Hp & Hk).
  unfold in_range, cm_max_channels in Er.
  destruct (set_nth_some (Z.to_nat ch) p (pol d)) as [l' Hl']; [lia|].
  rewrite Hl' in H. injection H as <- <-.
  unfold cm_post, cm_inv. cbn [cur pol calon].
  repeat split; auto; try lia; try discriminate; try congruence.
  - rewrite (set_nth_length _ _ _ _ Hl'). exact Hl1.
  - eapply set_nth_Forall; eauto. apply in01_bit. exact Ep.
  - intros r Hr. injection Hr as <-. left. reflexivity.
Qed.

Lemma cm_set_calibration_post d ps d' o :
  cm_inv d -> cm_set_calibration d ps = (d', o) -> cm_post (Some CmC) d d' o.
Proof.
  intros Hi H. unfold cm_set_calibration in H.
  destruct ps as [|v [|x r]]; try (injection H as <- <-; apply cm_nak_post; exact Hi).
  destruct (in01 v) eqn:Ep; cbn [negb] in H;
    [|injection H as <- <-; apply cm_nak_post; exact Hi].
  destruct Hi as (Hl1 & Hl2 & Hc & Hp & Hk).
  destruct (set_nth_some (Z.to_nat cm_slow_channel) v (calon d)) as [l' Hl'];
    [unfold cm_slow_channel; lia|].
  rewrite Hl' in H. injection H as <- <-.
  unfold cm_post, cm_inv. cbn [cur pol calon].
  repeat split; auto; try lia; try discriminate; try congruence.
  - rewrite (set_nth_length _ _ _ _ Hl'). exact Hl2.
  - eapply set_nth_Forall; eauto. apply in01_bit. exact Ep.
  - intros r Hr. injection Hr as <-. left. reflexivity.
Qed.

Lemma py_nth_inv l i : length l = 17%nat -> 0 <= i < 17 -> Forall bit01 l ->
  exists v, py_nth l i = Some v /\ bit01 v.
Proof.
  intros Hl Hi Hf. unfold py_nth. replace (0 <=? i) with true by lia.
  destruct (nth_error l (Z.to_nat i)) as [v|] eqn:E.
  - exists v. split; [reflexivity|]. rewrite Forall_forall in Hf. apply Hf.
    eapply nth_error_In; eauto.
  - apply nth_error_None in E. lia.
Qed.

Lemma cm_get_status_post d ps d' o :
  cm_inv d -> cm_get_status d ps = (d', o) -> cm_post (Some CmQ) d d' o.
Proof.
  intros Hi H. unfold cm_get_status in H.
  destruct ps as [|x r]; [|injection H as <- <-; apply cm_nak_post; exact Hi].
  pose proof Hi as (Hl1 & Hl2 & Hc & Hp & Hk).
  destruct (py_nth_inv _ _ Hl1 Hc Hp) as (p & Ep & Bp).
  destruct (py_nth_inv _ _ Hl2 Hc Hk) as (k & Ek & Bk).
  rewrite Ep, Ek in H. injection H as <- <-.
  apply cm_post_same; auto; try discriminate.
  - intros Habs. injection Habs as Habs. unfold cm_status_reply, cm_ack in Habs.
    apply (f_equal (@length Z)) in Habs. rewrite !app_length in Habs. cbn [length] in Habs.
    assert (Hp1 : length (render_int p) = 1%nat) by (destruct Bp; subst; reflexivity).
    assert (Hk1 : length (render_int k) = 1%nat) by (destruct Bk; subst; reflexivity).
    pose proof (render_int_nonempty (cur d)) as Hc1.
    lia.
  - intros r Hr. injection Hr as <-. right. right. right. exists (cur d), p, k. auto.
Qed.

Lemma cm_get_frequency_post d ps d' o :
  cm_inv d -> cm_get_frequency d ps = (d', o) -> cm_post (Some CmF) d d' o.
Proof.
  intros Hi H. unfold cm_get_frequency in H.
  destruct ps as [|v [|x r]]; try (injection H as <- <-; apply cm_nak_post; exact Hi).
  destruct ((v <? 0) || (cm_max_period <? v)); injection H as <- <-.
  - apply cm_nak_post; exact Hi.
  - apply cm_post_same; auto; try discriminate.
    intros r Hr. injection Hr as <-. right. right. left. reflexivity.
Qed.

Lemma cm_handle_post c d ps d' o :
  cm_inv d -> cm_handle c d ps = (d', o) -> cm_post (Some c) d d' o.
Proof.
  intros Hi H. destruct c; cbn [cm_handle] in H.
  - eapply cm_set_input_post; eauto.
  - eapply cm_set_calibration_post; eauto.
  - eapply cm_get_status_post; eauto.
  - eapply cm_get_frequency_post; eauto.
Qed.

Lemma cm_exec_post d m d' o :
  cm_inv d -> cm_exec d m = (d', o) -> cm_post (cm_cmd_of m) d d' o.
Proof.
  intros Hi H. unfold cm_exec in H. unfold cm_cmd_of.
  destruct (cm_tokens m) as [|a0 rest].
  - injection H as <- <-. apply cm_post_same; auto; discriminate.
  - destruct (cm_lookup a0) as [c|].
    + destruct (map_opt parse_int rest) as [ps|].
      * eapply cm_handle_post; eauto.
      * injection H as <- <-. apply cm_nak_post; exact Hi.
    + injection H as <- <-. apply cm_post_same; auto; discriminate.
Qed.

Lemma cm_exec_handle d m c ps :
  cm_cmd_of m = Some c -> cm_params_of m = Some ps -> cm_exec d m = cm_handle c d ps.
Proof.
  unfold cm_cmd_of, cm_params_of, cm_exec. destruct (cm_tokens m) as [|a0 rest]; [discriminate|].
  intros -> ->. reflexivity.
Qed.

(* ---- framer instance ---- *)
Lemma cm_fcfg_max : 2 <= maxlen cm_fcfg.
Proof. cbn. lia. Qed.

Lemma cm_tail_not_hdr b : is_tail cm_fcfg b = true -> is_hdr cm_fcfg b = false.
Proof. cbn. unfold cm_is_tail, cm_is_hdr. lia. Qed.

Definition cm_sinv (s : cm_state) : Prop := sbounded cm_fcfg s /\ cm_inv (dev s).

Lemma cm_init_sinv : cm_sinv cm_init.
Proof. split; [unfold sbounded, fbounded; cbn; lia|exact cm_inv0]. Qed.

(* every step: invariant kept; specification of an executed line applies *)
Lemma cm_step_spec s b s' o :
  cm_sinv s -> cm_step s b = (s', o) ->
  cm_sinv s' /\
  (o <> OReply cm_ack -> dev s' = dev s) /\
  (forall r, o = OReply r -> cm_wf_reply r).
Proof.
  intros [Hb Hi] H.
  pose proof (sstep_bounded cm_fcfg cm_fcfg_max cm_tail_not_hdr cm_exec s b Hb) as Hb'.
  unfold cm_step in H. rewrite H in Hb'. cbn [fst] in Hb'.
  unfold sstep in H. destruct (fstep cm_fcfg (buf s) b) as [bf [o1|m]] eqn:Ef.
  - injection H as <- <-. cbn [dev]. split; [split; assumption|]. split; [reflexivity|].
    intros r Hr. subst o1. exfalso.
    unfold fstep in Ef.
    repeat match type of Ef with (if ?c then _ else _) = _ => destruct c end;
      try discriminate.
  - destruct (cm_exec (dev s) m) as [d1 o1] eqn:Ee. injection H as <- <-. cbn [dev].
    destruct (cm_exec_post _ _ _ _ Hi Ee) as (Hi' & Hr & _ & Hw & _).
    split; [split; assumption|]. split; assumption.
Qed.

Lemma cm_step_sinv s b : cm_sinv s -> cm_sinv (fst (cm_step s b)).
Proof.
  intros H. destruct (cm_step s b) as [s' o] eqn:E. cbn [fst].
  exact (proj1 (cm_step_spec _ _ _ _ H E)).
Qed.

Lemma cm_run_sinv bs : forall s, cm_sinv s -> cm_sinv (fst (cm_run s bs)).
Proof.
  induction bs as [|b r IH]; intros s H; cbn.
  - exact H.
  - unfold cm_run. cbn [srun]. pose proof (cm_step_sinv s b H) as H1. unfold cm_step in H1.
    destruct (sstep (fstep cm_fcfg) cm_exec s b) as [s1 o]. cbn [fst] in H1.
    specialize (IH s1 H1). unfold cm_run in IH.
    destruct (srun (fstep cm_fcfg) cm_exec s1 r) as [s2 os]. exact IH.
Qed.

Definition cm_reachable (s : cm_state) : Prop := exists bs, s = fst (cm_run cm_init bs).

Lemma cm_reachable_sinv s : cm_reachable s -> cm_sinv s.
Proof. intros [bs ->]. apply cm_run_sinv. exact cm_init_sinv. Qed.

(* ---- C05 ---- *)

(* a step whose outcome is not `ack` leaves every register unchanged *)
Lemma cm_refused_unchanged s b s' o :
  cm_reachable s -> cm_step s b = (s', o) -> o <> OReply cm_ack -> dev s' = dev s.
Proof.
  intros Hr H Ho. apply cm_reachable_sinv in Hr.
  exact (proj1 (proj2 (cm_step_spec _ _ _ _ Hr H)) Ho).
Qed.

(* what one step executes, if anything *)
Definition cm_executed (s : cm_state) (b : Z) : option (list Z) :=
  match snd (fstep cm_fcfg (buf s) b) with EExec m => Some m | EOut _ => None end.

(* the step is an acknowledged write by command c *)
Definition cm_acked_write (c : cm_cmd) (s : cm_state) (b : Z) : Prop :=
  snd (cm_step s b) = OReply cm_ack /\
  exists m, cm_executed s b = Some m /\ cm_cmd_of m = Some c.

Fixpoint cm_quiet (c : cm_cmd) (s : cm_state) (h : list Z) : Prop :=
  match h with
  | [] => True
  | b :: r => ~ cm_acked_write c s b /\ cm_quiet c (fst (cm_step s b)) r
  end.

Lemma cm_step_frame s b :
  cm_sinv s ->
  (~ cm_acked_write CmI s b ->
     cur (dev (fst (cm_step s b))) = cur (dev s) /\ pol (dev (fst (cm_step s b))) = pol (dev s)) /\
  (~ cm_acked_write CmC s b -> calon (dev (fst (cm_step s b))) = calon (dev s)).
Proof.
  intros [Hb Hi]. unfold cm_acked_write, cm_executed, cm_step, sstep.
  destruct (fstep cm_fcfg (buf s) b) as [bf [o1|m]]; cbn [fst snd dev].
  - auto.
  - destruct (cm_exec (dev s) m) as [d1 o1] eqn:Ee. cbn [fst snd dev].
    destruct (cm_exec_post _ _ _ _ Hi Ee) as (_ & Hr & Ha & _).
    assert (Hdec : o1 = OReply cm_ack \/ o1 <> OReply cm_ack).
    { destruct (outcome_eqb o1 (OReply cm_ack)) eqn:E.
      - left. destruct o1; try discriminate. cbn in E. apply zlist_eqb_eq in E. congruence.
      - right. intros ->. vm_compute in E. discriminate. }
    destruct Hdec as [Hack|Hn].
    + destruct (Ha Hack) as [(Hc & Hcal)|(Hc & Hcur & Hpol)]; split; intros Hq; auto.
      * exfalso. apply Hq. split; auto. exists m. auto.
      * exfalso. apply Hq. split; auto. exists m. auto.
    + rewrite (Hr Hn). auto.
Qed.

Lemma cm_quiet_input h : forall s, cm_sinv s -> cm_quiet CmI s h ->
  cur (dev (fst (cm_run s h))) = cur (dev s) /\ pol (dev (fst (cm_run s h))) = pol (dev s).
Proof.
  induction h as [|b r IH]; intros s Hs Hq; cbn.
  - auto.
  - destruct Hq as [Hq1 Hq2].
    destruct (proj1 (cm_step_frame s b Hs) Hq1) as [E1 E2].
    pose proof (cm_step_sinv s b Hs) as Hs1.
    unfold cm_run. cbn [srun]. unfold cm_step in *.
    destruct (sstep (fstep cm_fcfg) cm_exec s b) as [s1 o]. cbn [fst] in *.
    destruct (IH s1 Hs1 Hq2) as [F1 F2]. unfold cm_run in F1, F2.
    destruct (srun (fstep cm_fcfg) cm_exec s1 r) as [s2 os]. cbn [fst] in *. split; congruence.
Qed.

Lemma cm_quiet_cal h : forall s, cm_sinv s -> cm_quiet CmC s h ->
  calon (dev (fst (cm_run s h))) = calon (dev s).
Proof.
  induction h as [|b r IH]; intros s Hs Hq; cbn.
  - auto.
  - destruct Hq as [Hq1 Hq2].
    pose proof (proj2 (cm_step_frame s b Hs) Hq1) as E1.
    pose proof (cm_step_sinv s b Hs) as Hs1.
    unfold cm_run. cbn [srun]. unfold cm_step in *.
    destruct (sstep (fstep cm_fcfg) cm_exec s b) as [s1 o]. cbn [fst] in *.
    pose proof (IH s1 Hs1 Hq2) as F1. unfold cm_run in F1.
    destruct (srun (fstep cm_fcfg) cm_exec s1 r) as [s2 os]. cbn [fst] in *. congruence.
Qed.

(* canonical command lines (without terminator) *)
Definition cm_line_input (ch p : Z) : list Z := [73; 32] ++ render_int ch ++ [32] ++ render_int p.
Definition cm_line_cal (v : Z) : list Z := [67; 32] ++ render_int v.
Definition cm_line_status : list Z := [63].
Definition cm_line_freq (p : Z) : list Z := [70; 32] ++ render_int p.

Definition cm_line_okb (l : list Z) : bool :=
  match l with
  | [] => false
  | h :: r => cm_is_hdr h && forallb (fun b => negb (cm_is_tail b)) r && (Z.of_nat (length l) <? 7)
  end.

Lemma cm_line_okb_ok l : cm_line_okb l = true -> line_ok cm_fcfg l.
Proof.
  destruct l as [|h r]; cbn; [discriminate|]. intros H.
  apply andb_true_iff in H as [H H3]. apply andb_true_iff in H as [H1 H2].
  repeat split; auto.
  - apply Forall_forall. intros x Hx. rewrite forallb_forall in H2. specialize (H2 x Hx).
    destruct (cm_is_tail x); [discriminate|reflexivity].
  - lia.
Qed.

Definition opt_cmd_eqb (a : option cm_cmd) (c : cm_cmd) : bool :=
  match a, c with
  | Some CmI, CmI | Some CmC, CmC | Some CmQ, CmQ | Some CmF, CmF => true
  | _, _ => false
  end.
Lemma opt_cmd_eqb_eq a c : opt_cmd_eqb a c = true -> a = Some c.
Proof. destruct a as [[]|], c; cbn; congruence. Qed.

Definition opt_params_eqb (a : option (list Z)) (ps : list Z) : bool :=
  match a with Some l => zlist_eqb l ps | None => false end.
Lemma opt_params_eqb_eq a ps : opt_params_eqb a ps = true -> a = Some ps.
Proof. destruct a; cbn; [|discriminate]. intros H. apply zlist_eqb_eq in H. congruence. Qed.

(* a line (with terminator t appended, then stripped again by body) parses to command c, params ps *)
Definition cm_parses_to (l : list Z) (c : cm_cmd) (ps : list Z) : bool :=
  cm_line_okb l && opt_cmd_eqb (cm_cmd_of l) c && opt_params_eqb (cm_params_of l) ps.

Lemma cm_body_line l t : body cm_fcfg (l ++ [t]) = l.
Proof. cbn. apply removelast_last. Qed.

(* running a canonical line from an idle state *)
Lemma cm_run_line s l t c ps :
  sidle s = true -> cm_parses_to l c ps = true -> cm_is_tail t = true ->
  cm_run s (l ++ [t]) =
  let (d', o) := cm_handle c (dev s) ps in
  ({| buf := []; dev := d' |}, repeat OTrue (length l) ++ [o]).
Proof.
  intros Hi Hp Ht. unfold cm_parses_to in Hp.
  apply andb_true_iff in Hp as [Hp H3]. apply andb_true_iff in Hp as [H1 H2].
  apply cm_line_okb_ok in H1. apply opt_cmd_eqb_eq in H2. apply opt_params_eqb_eq in H3.
  unfold cm_run.
  rewrite (line_from_idle cm_fcfg cm_fcfg_max cm_tail_not_hdr cm_exec s l t Hi H1 Ht).
  rewrite cm_body_line. rewrite (cm_exec_handle _ _ _ _ H2 H3). reflexivity.
Qed.

Lemma cm_input_lines_parse ch p :
  0 <= ch < 17 -> 0 <= p < 2 -> cm_parses_to (cm_line_input ch p) CmI [ch; p] = true.
Proof.
  intros Hc Hp.
  apply (range_sweep2 (fun ch p => cm_parses_to (cm_line_input ch p) CmI [ch; p]) 17 2);
    [vm_compute; reflexivity|lia|lia].
Qed.

Lemma cm_cal_lines_parse v : 0 <= v < 2 -> cm_parses_to (cm_line_cal v) CmC [v] = true.
Proof.
  intros Hv. apply (range_sweep (fun v => cm_parses_to (cm_line_cal v) CmC [v]) 2);
    [vm_compute; reflexivity|lia].
Qed.

Lemma cm_status_line_parses : cm_parses_to cm_line_status CmQ [] = true.
Proof. vm_compute. reflexivity. Qed.

Lemma cm_freq_lines_parse p : 0 <= p <= 5000 -> cm_parses_to (cm_line_freq p) CmF [p] = true.
Proof.
  intros Hp. apply (range_sweep (fun p => cm_parses_to (cm_line_freq p) CmF [p]) (Z.to_nat 5001));
    [vm_compute; reflexivity|lia].
Qed.

(* status query from an idle state *)
Lemma cm_status_from_idle s t :
  cm_sinv s -> sidle s = true -> cm_is_tail t = true ->
  exists p k, py_nth (pol (dev s)) (cur (dev s)) = Some p /\
              py_nth (calon (dev s)) (cur (dev s)) = Some k /\
              cm_run s (cm_line_status ++ [t]) =
              (Build_sstate [] (dev s), [OTrue; OReply (cm_status_reply (cur (dev s)) p k)]).
Proof.
  intros [Hb Hi] Hidle Ht.
  pose proof Hi as (Hl1 & Hl2 & Hc & Hp & Hk).
  destruct (py_nth_inv _ _ Hl1 Hc Hp) as (p & Ep & Bp).
  destruct (py_nth_inv _ _ Hl2 Hc Hk) as (k & Ek & Bk).
  exists p, k. repeat split; auto.
  rewrite (cm_run_line s _ t CmQ [] Hidle cm_status_line_parses Ht).
  cbn [cm_handle cm_get_status]. rewrite Ep, Ek. reflexivity.
Qed.

Lemma py_nth_set l l' ch v : 0 <= ch -> set_nth (Z.to_nat ch) v l = Some l' -> py_nth l' ch = Some v.
Proof.
  intros Hc H. unfold py_nth. replace (0 <=? ch) with true by lia. eapply set_nth_eq; eauto.
Qed.

(* C05 (input selection): an in-domain `I ch p` from idle is acknowledged, and the status query
   then reads back `ch p` until the next acknowledged `I` *)
Theorem cm_input_readback s ch p t :
  cm_reachable s -> sidle s = true -> 0 <= ch < 17 -> 0 <= p < 2 -> cm_is_tail t = true ->
  let s1 := fst (cm_run s (cm_line_input ch p ++ [t])) in
  snd (cm_run s (cm_line_input ch p ++ [t])) =
    repeat OTrue (length (cm_line_input ch p)) ++ [OReply cm_ack] /\
  forall h t', cm_quiet CmI s1 h -> sidle (fst (cm_run s1 h)) = true -> cm_is_tail t' = true ->
    exists k, snd (cm_run (fst (cm_run s1 h)) (cm_line_status ++ [t'])) =
              [OTrue; OReply (cm_status_reply ch p k)].
Proof.
  intros Hr Hidle Hc Hp Ht. apply cm_reachable_sinv in Hr.
  pose proof (cm_run_sinv (cm_line_input ch p ++ [t]) s Hr) as Hs1.
  rewrite (cm_run_line s _ t CmI [ch; p] Hidle (cm_input_lines_parse ch p Hc Hp) Ht) in *.
  cbn [cm_handle cm_set_input] in *.
  replace (in_range cm_max_channels ch) with true in * by (unfold in_range, cm_max_channels; lia).
  replace (in01 p) with true in * by (unfold in01; lia).
  cbn [negb] in *.
  destruct Hr as [Hb (Hl1 & Hl2 & Hcur & Hpol & Hcal)].
  destruct (set_nth_some (Z.to_nat ch) p (pol (dev s))) as [l' Hl']; [lia|].
  rewrite Hl' in *. cbn [fst snd] in *. split; [reflexivity|].
  intros h t' Hq Hi' Ht'.
  destruct (cm_quiet_input h _ Hs1 Hq) as [E1 E2]. cbn [dev cur pol] in E1, E2.
  pose proof (cm_run_sinv h _ Hs1) as Hs2.
  destruct (cm_status_from_idle _ t' Hs2 Hi' Ht') as (p' & k & Ep & Ek & Erun).
  rewrite Erun. cbn [snd]. exists k. rewrite E1, E2 in *.
  rewrite (py_nth_set _ _ _ _ (proj1 Hc) Hl') in Ep. injection Ep as <-. reflexivity.
Qed.

(* C05 (calibration mark): an in-domain `C v` from idle is acknowledged; whenever the slow
   channel (16) is the selected one, the status query reads back v, until the next acknowledged C *)
Theorem cm_cal_readback s v t :
  cm_reachable s -> sidle s = true -> 0 <= v < 2 -> cm_is_tail t = true ->
  let s1 := fst (cm_run s (cm_line_cal v ++ [t])) in
  snd (cm_run s (cm_line_cal v ++ [t])) = repeat OTrue (length (cm_line_cal v)) ++ [OReply cm_ack] /\
  forall h t', cm_quiet CmC s1 h -> sidle (fst (cm_run s1 h)) = true -> cm_is_tail t' = true ->
    cur (dev (fst (cm_run s1 h))) = 16 ->
    exists p, snd (cm_run (fst (cm_run s1 h)) (cm_line_status ++ [t'])) =
              [OTrue; OReply (cm_status_reply 16 p v)].
Proof.
  intros Hr Hidle Hv Ht. apply cm_reachable_sinv in Hr.
  pose proof (cm_run_sinv (cm_line_cal v ++ [t]) s Hr) as Hs1.
  rewrite (cm_run_line s _ t CmC [v] Hidle (cm_cal_lines_parse v Hv) Ht) in *.
  cbn [cm_handle cm_set_calibration] in *.
  replace (in01 v) with true in * by (unfold in01; lia).
  cbn [negb] in *.
  destruct Hr as [Hb (Hl1 & Hl2 & Hcur & Hpol & Hcal)].
  destruct (set_nth_some (Z.to_nat cm_slow_channel) v (calon (dev s))) as [l' Hl'];
    [unfold cm_slow_channel; lia|].
  rewrite Hl' in *. cbn [fst snd] in *. split; [reflexivity|].
  intros h t' Hq Hi' Ht' Hc16.
  pose proof (cm_quiet_cal h _ Hs1 Hq) as E1. cbn [dev calon] in E1.
  pose proof (cm_run_sinv h _ Hs1) as Hs2.
  destruct (cm_status_from_idle _ t' Hs2 Hi' Ht') as (p' & k & Ep & Ek & Erun).
  rewrite Erun. cbn [snd]. exists p'. rewrite E1, Hc16 in *.
  assert (H16 : py_nth l' 16 = Some v).
  { apply py_nth_set with (l := calon (dev s)); [lia|exact Hl']. }
  rewrite H16 in Ek. injection Ek as <-. reflexivity.
Qed.

(* ---- C02 ---- *)
Inductive cm_query : list Z -> Prop :=
| cq_status : cm_query cm_line_status
| cq_freq p : 0 <= p <= 5000 -> cm_query (cm_line_freq p).

Theorem cm_queries_answered s q t :
  cm_reachable s -> sidle s = true -> cm_query q -> cm_is_tail t = true ->
  exists r, snd (cm_run s (q ++ [t])) = repeat OTrue (length q) ++ [OReply r] /\ cm_wf_reply r /\
            dev (fst (cm_run s (q ++ [t]))) = dev s /\ sidle (fst (cm_run s (q ++ [t]))) = true.
Proof.
  intros Hr Hidle Hq Ht. apply cm_reachable_sinv in Hr. destruct Hq as [|p Hp].
  - destruct (cm_status_from_idle s t Hr Hidle Ht) as (p & k & Ep & Ek & Erun).
    rewrite Erun. cbn [fst snd dev]. eexists. split; [reflexivity|]. split; [|split; reflexivity].
    destruct Hr as [_ (Hl1 & Hl2 & Hc & Hp & Hk)].
    destruct (py_nth_inv _ _ Hl1 Hc Hp) as (p2 & Ep2 & Bp).
    destruct (py_nth_inv _ _ Hl2 Hc Hk) as (k2 & Ek2 & Bk).
    right. right. right. exists (cur (dev s)), p, k. repeat split; try lia; congruence.
  - rewrite (cm_run_line s _ t CmF [p] Hidle (cm_freq_lines_parse p Hp) Ht).
    cbn [cm_handle cm_get_frequency].
    replace ((p <? 0) || (cm_max_period <? p)) with false by (unfold cm_max_period; lia).
    cbn [fst snd dev]. eexists. split; [reflexivity|]. split; [|split; reflexivity].
    right. right. left. reflexivity.
Qed.

(* ---- C04 ---- *)
Theorem cm_replies_wf s b s' r :
  cm_reachable s -> cm_step s b = (s', OReply r) -> cm_wf_reply r.
Proof.
  intros Hr H. apply cm_reachable_sinv in Hr.
  exact (proj2 (proj2 (cm_step_spec _ _ _ _ Hr H)) r eq_refl).
Qed.

(* shape: ASCII digits, space, letters of ack/nak; terminated by \n except the literal '0 0 0'
   reply of the frequency query (the simulator's own convention) *)
Definition cm_shape_okb (r : list Z) : bool :=
  forallb (fun c => (c =? 10) || (c =? 32) || is_digit c || mem c [97; 99; 107; 110]) r &&
  (zlist_eqb r cm_freq_reply || (last r 0 =? 10)) &&
  (Z.of_nat (length (filter (Z.eqb 10) r)) <=? 1).

Lemma cm_status_shapes c p k :
  0 <= c < 17 -> 0 <= p < 2 -> 0 <= k < 2 -> cm_shape_okb (cm_status_reply c p k) = true.
Proof.
  intros Hc Hp Hk.
  pose proof (range_sweep (fun c => forallb (fun p => forallb (fun k =>
                cm_shape_okb (cm_status_reply c p k)) (zrange 2)) (zrange 2)) 17) as H.
  cbv beta in H. specialize (H ltac:(vm_compute; reflexivity) c ltac:(lia)).
  pose proof (range_sweep _ _ H p ltac:(lia)) as H2. cbv beta in H2.
  exact (range_sweep _ _ H2 k ltac:(lia)).
Qed.

Theorem cm_wf_reply_shape r : cm_wf_reply r -> cm_shape_okb r = true.
Proof.
  intros [->|[->|[->|(c & p & k & Hc & Hp & Hk & ->)]]]; try (vm_compute; reflexivity).
  apply cm_status_shapes; auto; unfold bit01 in *; lia.
Qed.

(* hypotheses are satisfiable: a non-trivial reachable idle state *)
Example cm_reachable_example :
  let s := fst (cm_run cm_init [73; 32; 51; 32; 49; 10; 67; 32; 49; 13]) in
  cm_reachable s /\ sidle s = true /\ cur (dev s) = 3.
Proof. cbv zeta. split; [eexists; reflexivity|]. vm_compute. auto. Qed.
