(* C08 -- the structural invariant of the publisher/clients system and its preservation by every
   step of the interleaving relation (Model/PubModel.v, fixed loop). *)
From DS Require Import Base.Prelude Model.PubModel.

(* ------------------------------------------------------------------------------------------ *)
(* lists *)

Lemma upd_same {A} (f : cid -> A) c v : upd f c v c = v.
Proof. unfold upd. rewrite Z.eqb_refl. reflexivity. Qed.

Lemma upd_other {A} (f : cid -> A) c v x : x <> c -> upd f c v x = f x.
Proof. intros H. unfold upd. destruct (x =? c) eqn:E; [apply Z.eqb_eq in E; contradiction|reflexivity]. Qed.

Lemma remove1_spec x l : In x l -> NoDup l ->
  exists l', remove1 x l = Some l' /\ NoDup l' /\ (forall y, In y l' <-> In y l /\ y <> x) /\
             length l = S (length l').
Proof.
  induction l as [|y r IH]; intros Hin Hnd; [destruct Hin|].
  inversion Hnd as [|y0 r0 Hy Hr]; subst. cbn [remove1].
  destruct (x =? y) eqn:E.
  - apply Z.eqb_eq in E; subst y. exists r.
    split; [reflexivity|]. split; [exact Hr|]. split; [|reflexivity].
    intros z. split.
    + intros Hi. split; [right; exact Hi|]. intros ->. contradiction.
    + intros [[->|Hi] Hne]; [contradiction|exact Hi].
  - apply Z.eqb_neq in E. destruct Hin as [->|Hin]; [contradiction|].
    destruct (IH Hin Hr) as (l' & -> & Hnd' & Hiff & Hlen).
    exists (y :: l').
    split; [reflexivity|]. split; [|split].
    + constructor; [|exact Hnd']. intros Hi. apply Hiff in Hi. tauto.
    + intros z. split.
      * intros [->|Hi]; [split; [left; reflexivity|congruence]|].
        apply Hiff in Hi. split; [right|]; tauto.
      * intros [[->|Hi] Hne]; [left; reflexivity|right; apply Hiff; tauto].
    + cbn. congruence.
Qed.

Lemma remove_all_spec xs : forall l, NoDup xs -> NoDup l -> incl xs l ->
  exists l', remove_all xs l = Some l' /\ NoDup l' /\
             (forall y, In y l' <-> In y l /\ ~ In y xs) /\ (length l' <= length l)%nat.
Proof.
  induction xs as [|x r IH]; intros l Hxs Hl Hincl.
  - exists l. cbn. split; [reflexivity|]. split; [exact Hl|]. split; [|lia]. intros y. tauto.
  - inversion Hxs as [|x0 r0 Hx Hr]; subst. cbn [remove_all].
    destruct (remove1_spec x l (Hincl x (or_introl eq_refl)) Hl) as (l1 & -> & Hnd1 & Hiff1 & Hlen1).
    assert (Hincl1 : incl r l1).
    { intros y Hy. apply Hiff1. split; [apply Hincl; right; exact Hy|]. intros ->. contradiction. }
    destruct (IH l1 Hr Hnd1 Hincl1) as (l' & -> & Hnd' & Hiff' & Hlen').
    exists l'. split; [reflexivity|]. split; [exact Hnd'|]. split; [|lia].
    intros y. split.
    + intros Hi. apply Hiff' in Hi. destruct Hi as [H1 H2]. apply Hiff1 in H1.
      split; [tauto|]. intros [<-|Hy]; tauto.
    + intros [H1 H2]. apply Hiff'. split; [apply Hiff1; split; [exact H1|]|].
      * intros ->. apply H2. left; reflexivity.
      * intros Hy. apply H2. right; exact Hy.
Qed.

Lemma NoDup_app_l {A} (l1 l2 : list A) : NoDup (l1 ++ l2) -> NoDup l1.
Proof.
  induction l1 as [|a l1 IH]; cbn; intros H; [constructor|].
  inversion H; subst. constructor; [rewrite in_app_iff in *; tauto|auto].
Qed.

Lemma NoDup_app_r {A} (l1 l2 : list A) : NoDup (l1 ++ l2) -> NoDup l2.
Proof. induction l1 as [|a l1 IH]; cbn; intros H; [exact H|]. inversion H; auto. Qed.

Lemma NoDup_app_disj {A} (l1 l2 : list A) x : NoDup (l1 ++ l2) -> In x l1 -> In x l2 -> False.
Proof.
  induction l1 as [|a l1 IH]; cbn; intros H H1 H2; [destruct H1|].
  inversion H; subst. destruct H1 as [->|H1]; [|eauto].
  rewrite in_app_iff in *. tauto.
Qed.

Lemma NoDup_app_intro {A} (l1 l2 : list A) :
  NoDup l1 -> NoDup l2 -> (forall x, In x l1 -> In x l2 -> False) -> NoDup (l1 ++ l2).
Proof.
  induction l1 as [|a l1 IH]; cbn; intros H1 H2 H; [exact H2|].
  inversion H1; subst. constructor.
  - rewrite in_app_iff. intros [Ha|Ha]; [contradiction|]. eapply H; [left; reflexivity|exact Ha].
  - apply IH; auto. intros x Hx. apply H. right; exact Hx.
Qed.

(* moving the head of the second list to the end of the first one (queue -> local list) *)
Lemma NoDup_move {A} (l1 l2 : list A) x : NoDup ((x :: l1) ++ l2) -> NoDup (l1 ++ (l2 ++ [x])).
Proof.
  intros H. cbn in H. inversion H as [|? ? Hx Hr]; subst.
  rewrite app_assoc. apply NoDup_app_intro; [exact Hr|constructor; [intros []|constructor]|].
  intros y Hy [<-|[]]. contradiction.
Qed.

Lemma NoDup_snoc {A} (l1 l2 : list A) x : NoDup (l1 ++ l2) -> ~ In x (l1 ++ l2) ->
  NoDup ((l1 ++ [x]) ++ l2).
Proof.
  intros H Hx. rewrite <- app_assoc. cbn.
  apply NoDup_app_intro.
  - eapply NoDup_app_l; exact H.
  - constructor; [rewrite in_app_iff in Hx; tauto|eapply NoDup_app_r; exact H].
  - intros y H1 [<-|H2]; [apply Hx; rewrite in_app_iff; tauto|].
    eapply NoDup_app_disj; eauto.
Qed.

(* ------------------------------------------------------------------------------------------ *)
(* the invariant *)

Definition pubphase (p : ppc) : bool := match p with PClear | PPut => true | _ => false end.
Definition drainphase (p : ppc) : bool := match p with PDrainU | PDrainS => true | _ => false end.

Record Inv (s : state) : Prop := {
  i_stat : stat s = Running;
  i_nd_sub : NoDup (subq s ++ subs s);
  i_nd_uns : NoDup (unsubq s ++ pend s);
  i_init : forall c, phase_of s c = CInit -> ~ In c (subq s ++ subs s) /\ mbox s c = [];
  i_uns : forall c, In c (unsubq s ++ pend s) -> phase_of s c = CDone /\ In c (subq s ++ subs s);
  i_run : forall c, phase_of s c = CRun -> In c (subq s ++ subs s);
  i_done : forall c, phase_of s c = CDone -> In c (subq s ++ subs s) -> In c (unsubq s ++ pend s);
  i_pend : drainphase (pc s) = false -> pend s = [];
  i_todo : pubphase (pc s) = true -> todo s <> [] /\ exists pre, subs s = pre ++ todo s;
  i_todo0 : pubphase (pc s) = false -> todo s = [];
  i_put : pc s = PPut -> forall c r, todo s = c :: r -> mbox s c = [];
  i_len : forall c, (length (mbox s c) <= 1)%nat
}.

Lemma inv_init : Inv init.
Proof.
  constructor; cbn; auto; try (intros; discriminate); try constructor; try tauto.
Qed.

Lemma in_todo_subs s c : Inv s -> In c (todo s) -> In c (subs s).
Proof.
  intros I Hin. destruct (pubphase (pc s)) eqn:E.
  - destruct (i_todo s I E) as [_ [pre ->]]. apply in_or_app. right; exact Hin.
  - rewrite (i_todo0 s I E) in Hin. destruct Hin.
Qed.

Lemma phase_of_subs s c : Inv s -> In c (subq s ++ subs s) -> phase_of s c <> CInit.
Proof. intros I Hin H. apply (i_init s I) in H. tauto. Qed.

(* ------------------------------------------------------------------------------------------ *)
(* client steps *)

Lemma inv_sub s c s' e : Inv s -> client_step s (LSub c) = Some (s', e) -> Inv s'.
Proof.
  intros I H. cbn in H. destruct (phase_of s c) eqn:Hp; try discriminate.
  injection H as <- <-.
  destruct (i_init s I c Hp) as [Hnot Hmb].
  assert (Hnu : ~ In c (unsubq s ++ pend s)).
  { intros Hu. apply (i_uns s I) in Hu. destruct Hu as [Hu _]. congruence. }
  constructor; cbn.
  - apply (i_stat s I).
  - apply NoDup_snoc; [apply (i_nd_sub s I)|exact Hnot].
  - apply (i_nd_uns s I).
  - intros x Hx. destruct (Z.eq_dec x c) as [->|Hne]; [rewrite upd_same in Hx; discriminate|].
    rewrite upd_other in Hx by exact Hne. destruct (i_init s I x Hx) as [H1 H2]. split; [|exact H2].
    rewrite <- app_assoc, in_app_iff. cbn. rewrite in_app_iff in H1. intros [H|[H|H]]; try tauto. congruence.
  - intros x Hx. destruct (Z.eq_dec x c) as [->|Hne]; [contradiction|].
    rewrite upd_other by exact Hne. destruct (i_uns s I x Hx) as [H1 H2]. split; [exact H1|].
    rewrite <- app_assoc, in_app_iff. cbn. rewrite in_app_iff in H2. tauto.
  - intros x Hx. rewrite <- app_assoc, in_app_iff. cbn.
    destruct (Z.eq_dec x c) as [->|Hne]; [tauto|].
    rewrite upd_other in Hx by exact Hne. pose proof (i_run s I x Hx) as H. rewrite in_app_iff in H. tauto.
  - intros x Hx Hin. destruct (Z.eq_dec x c) as [->|Hne]; [rewrite upd_same in Hx; discriminate|].
    rewrite upd_other in Hx by exact Hne. apply (i_done s I x Hx).
    rewrite <- app_assoc, in_app_iff in Hin. cbn in Hin. rewrite in_app_iff.
    destruct Hin as [H|[H|H]]; try tauto. congruence.
  - apply (i_pend s I).
  - apply (i_todo s I).
  - apply (i_todo0 s I).
  - apply (i_put s I).
  - apply (i_len s I).
Qed.

Lemma inv_get s c s' e : Inv s -> client_step s (LGet c) = Some (s', e) -> Inv s'.
Proof.
  intros I H. cbn in H. destruct (phase_of s c) eqn:Hp; try discriminate.
  destruct (mbox s c) as [|f m] eqn:Hm; injection H as <- <-; [exact I|].
  constructor; cbn; try apply I.
  - intros x Hx. destruct (i_init s I x Hx) as [H1 H2]. split; [exact H1|].
    destruct (Z.eq_dec x c) as [->|Hne]; [congruence|]. rewrite upd_other by exact Hne. exact H2.
  - intros Hpc x r Ht. destruct (Z.eq_dec x c) as [->|Hne].
    + rewrite (i_put s I Hpc c r Ht) in Hm. discriminate.
    + rewrite upd_other by exact Hne. apply (i_put s I Hpc x r Ht).
  - intros x. destruct (Z.eq_dec x c) as [->|Hne].
    + rewrite upd_same. pose proof (i_len s I c) as H. rewrite Hm in H. cbn in H. lia.
    + rewrite upd_other by exact Hne. apply (i_len s I).
Qed.

Lemma inv_unsub s c s' e : Inv s -> client_step s (LUnsub c) = Some (s', e) -> Inv s'.
Proof.
  intros I H. cbn in H. destruct (phase_of s c) eqn:Hp; try discriminate.
  injection H as <- <-.
  assert (Hnu : ~ In c (unsubq s ++ pend s)).
  { intros Hu. apply (i_uns s I) in Hu. destruct Hu as [Hu _]. congruence. }
  constructor; cbn; try apply I.
  - apply NoDup_snoc; [apply (i_nd_uns s I)|exact Hnu].
  - intros x Hx. destruct (Z.eq_dec x c) as [->|Hne]; [rewrite upd_same in Hx; discriminate|].
    rewrite upd_other in Hx by exact Hne. apply (i_init s I x Hx).
  - intros x Hx. rewrite <- app_assoc, in_app_iff in Hx. cbn in Hx.
    destruct (Z.eq_dec x c) as [->|Hne].
    + rewrite upd_same. split; [reflexivity|apply (i_run s I c Hp)].
    + rewrite upd_other by exact Hne. apply (i_uns s I). rewrite in_app_iff.
      destruct Hx as [H|[H|H]]; try tauto. congruence.
  - intros x Hx. destruct (Z.eq_dec x c) as [->|Hne]; [rewrite upd_same in Hx; discriminate|].
    rewrite upd_other in Hx by exact Hne. apply (i_run s I x Hx).
  - intros x Hx Hin. rewrite <- app_assoc, in_app_iff. cbn.
    destruct (Z.eq_dec x c) as [->|Hne]; [tauto|].
    rewrite upd_other in Hx by exact Hne. pose proof (i_done s I x Hx Hin) as H.
    rewrite in_app_iff in H. tauto.
Qed.

(* ------------------------------------------------------------------------------------------ *)
(* publisher steps *)

Lemma inv_end_iter_gen s pc0 todo0 cnt0 cur0 n : Inv s -> pend s = [] ->
  Inv (end_iter (St (subq s) (unsubq s) (subs s) (pend s) todo0 (mbox s) (phase_of s) pc0 cnt0 cur0
                    (stat s) (iter s) (subtick s) (got s)) n).
Proof.
  intros I Hp. constructor; cbn; try apply I; try (intros; discriminate); auto.
  - rewrite <- Hp. apply (i_nd_uns s I).
  - intros c Hc. apply (i_uns s I). rewrite Hp. exact Hc.
  - intros c Hc Hin. pose proof (i_done s I c Hc Hin) as H. rewrite Hp in H. exact H.
Qed.

Lemma inv_end_iter s n : Inv s -> pend s = [] -> Inv (end_iter s n).
Proof. intros I Hp. exact (inv_end_iter_gen s (pc s) (todo s) (counter s) (cur s) n I Hp). Qed.

(* the removal of the drained unsubscriptions succeeds, and the state after it (and after the
   decision whether to publish) satisfies the invariant *)
Lemma inv_after_update cf s : Inv s -> pc s = PDrainS -> subq s = [] -> period cf <> 0 ->
  exists subs', remove_all (pend s) (subs s) = Some subs' /\ Inv (after_update cf s subs').
Proof.
  intros I Hpc Hq Hper.
  pose proof (i_nd_sub s I) as Hnd. rewrite Hq in Hnd. cbn in Hnd.
  pose proof (i_nd_uns s I) as Hndu.
  assert (Hincl : incl (pend s) (subs s)).
  { intros x Hx. destruct (i_uns s I x) as [_ H]; [apply in_or_app; right; exact Hx|].
    rewrite Hq in H. exact H. }
  destruct (remove_all_spec (pend s) (subs s) (NoDup_app_r _ _ Hndu) Hnd Hincl)
    as (subs' & Hrem & Hnd' & Hiff & Hlen).
  exists subs'. split; [exact Hrem|].
  (* the state with the new subscriber list and no pending removals *)
  set (s0 := St (subq s) (unsubq s) subs' [] [] (mbox s) (phase_of s) (pc s) (counter s) (cur s)
                (stat s) (iter s) (subtick s) (got s)).
  assert (I0 : Inv s0).
  { constructor; cbn.
    - apply (i_stat s I).
    - rewrite Hq. cbn. exact Hnd'.
    - rewrite app_nil_r. eapply NoDup_app_l; exact Hndu.
    - intros c Hc. destruct (i_init s I c Hc) as [H1 H2]. split; [|exact H2].
      rewrite Hq in *. cbn in *. intros H. apply Hiff in H. tauto.
    - intros c Hc. rewrite app_nil_r in Hc.
      destruct (i_uns s I c) as [H1 H2]; [apply in_or_app; left; exact Hc|]. split; [exact H1|].
      rewrite Hq in *. cbn in *. apply Hiff. split; [exact H2|].
      intros Hp. eapply NoDup_app_disj; eauto.
    - intros c Hc. pose proof (i_run s I c Hc) as H. rewrite Hq in *. cbn in *.
      apply Hiff. split; [exact H|]. intros Hp.
      destruct (i_uns s I c) as [H1 _]; [apply in_or_app; right; exact Hp|]. congruence.
    - intros c Hc Hin. rewrite Hq in Hin. cbn in Hin. apply Hiff in Hin. destruct Hin as [Hin Hnp].
      assert (Hin' : In c (subq s ++ subs s)) by (rewrite Hq; exact Hin).
      pose proof (i_done s I c Hc Hin') as H. rewrite in_app_iff in *. tauto.
    - reflexivity.
    - rewrite Hpc. cbn. discriminate.
    - reflexivity.
    - rewrite Hpc. discriminate.
    - apply (i_len s I). }
  unfold after_update.
  destruct (period cf =? 0) eqn:E0; [apply Z.eqb_eq in E0; contradiction|].
  destruct (counter s mod period cf =? 0) eqn:Ec.
  - destruct subs' as [|c1 r1] eqn:Es.
    + exact (inv_end_iter_gen s0 PClear [] 0 (cur s + 1) 0 I0 eq_refl).
    + constructor; cbn; try apply I0; try (intros; discriminate); auto.
      intros _. split; [discriminate|]. exists []. reflexivity.
  - fold s0. apply inv_end_iter; [exact I0|reflexivity].
Qed.

Lemma inv_pub cf s : Inv s -> period cf <> 0 -> Inv (fst (pub_step cf s)).
Proof.
  intros I Hper. unfold pub_step. rewrite (i_stat s I).
  destruct (pc s) eqn:Hpc.
  - (* PTop *)
    cbn. pose proof (i_pend s I) as Hp. rewrite Hpc in Hp. specialize (Hp eq_refl).
    constructor; cbn; try apply I; try (intros; discriminate); auto.
    + rewrite <- Hp. apply (i_nd_uns s I).
    + intros c Hc. apply (i_uns s I). rewrite Hp. exact Hc.
    + intros c Hc Hin. pose proof (i_done s I c Hc Hin) as H. rewrite Hp in H. exact H.
  - (* PDrainU *)
    pose proof (i_todo0 s I) as Ht. rewrite Hpc in Ht. specialize (Ht eq_refl).
    destruct (unsubq s) as [|x r] eqn:Hu; cbn.
    + constructor; cbn; try apply I; try (intros; discriminate); auto.
      * pose proof (i_nd_uns s I) as H. rewrite Hu in H. exact H.
      * intros c Hc. apply (i_uns s I). rewrite Hu. exact Hc.
      * intros c Hc Hin. pose proof (i_done s I c Hc Hin) as H. rewrite Hu in H. exact H.
    + constructor; cbn; try apply I; try (intros; discriminate); auto.
      * pose proof (i_nd_uns s I) as H. rewrite Hu in H. apply NoDup_move. exact H.
      * intros c Hc. apply (i_uns s I). rewrite Hu. rewrite in_app_iff in *. cbn in *.
        rewrite in_app_iff in Hc. cbn in Hc. tauto.
      * intros c Hc Hin. pose proof (i_done s I c Hc Hin) as H. rewrite Hu in H.
        rewrite in_app_iff in *. cbn in *. rewrite in_app_iff. cbn. tauto.
  - (* PDrainS *)
    pose proof (i_todo0 s I) as Ht. rewrite Hpc in Ht. specialize (Ht eq_refl).
    destruct (subq s) as [|x r] eqn:Hq.
    + destruct (inv_after_update cf s I Hpc Hq Hper) as (subs' & -> & I'). exact I'.
    + cbn. constructor; cbn; try apply I; try (intros; discriminate); auto.
      * pose proof (i_nd_sub s I) as H. rewrite Hq in H. apply NoDup_move. exact H.
      * intros c Hc. destruct (i_init s I c Hc) as [H1 H2]. split; [|exact H2].
        rewrite Hq in H1. rewrite in_app_iff in *. cbn in *. rewrite in_app_iff. cbn. tauto.
      * intros c Hc. destruct (i_uns s I c Hc) as [H1 H2]. split; [exact H1|].
        rewrite Hq in H2. rewrite in_app_iff in *. cbn in *. rewrite in_app_iff. cbn. tauto.
      * intros c Hc. pose proof (i_run s I c Hc) as H. rewrite Hq in H.
        rewrite in_app_iff in *. cbn in *. rewrite in_app_iff. cbn. tauto.
      * intros c Hc Hin. apply (i_done s I c Hc). rewrite Hq.
        rewrite in_app_iff in *. cbn in *. rewrite in_app_iff in Hin. cbn in Hin. tauto.
  - (* PClear *)
    destruct (i_todo s I) as [Hne [pre Hpre]]; [rewrite Hpc; reflexivity|].
    pose proof (i_pend s I) as Hp. rewrite Hpc in Hp. specialize (Hp eq_refl).
    unfold pub_publish. destruct (todo s) as [|c rest] eqn:Ht; [congruence|]. rewrite Hpc.
    destruct (mbox s c) as [|f m] eqn:Hm; cbn.
    + constructor; cbn; try apply I; try (intros; discriminate); auto.
      * intros _. split; [discriminate|]. exists pre. exact Hpre.
      * intros _ x r Hx. injection Hx as <- <-. exact Hm.
    + assert (Hcs : In c (subq s ++ subs s)).
      { apply in_or_app. right. rewrite Hpre. apply in_or_app. right. left. reflexivity. }
      constructor; cbn; try apply I; try (intros; discriminate); auto.
      * intros x Hx. destruct (i_init s I x Hx) as [H1 H2]. split; [exact H1|].
        destruct (Z.eq_dec x c) as [->|Hn]; [contradiction|]. rewrite upd_other by exact Hn. exact H2.
      * intros _. split; [discriminate|]. exists pre. exact Hpre.
      * intros x. destruct (Z.eq_dec x c) as [->|Hn].
        -- rewrite upd_same. pose proof (i_len s I c) as H. rewrite Hm in H. cbn in H. lia.
        -- rewrite upd_other by exact Hn. apply (i_len s I).
  - (* PPut *)
    destruct (i_todo s I) as [Hne [pre Hpre]]; [rewrite Hpc; reflexivity|].
    pose proof (i_pend s I) as Hp. rewrite Hpc in Hp. specialize (Hp eq_refl).
    unfold pub_publish. destruct (todo s) as [|c rest] eqn:Ht; [congruence|]. rewrite Hpc.
    pose proof (i_put s I Hpc c rest Ht) as Hm. rewrite Hm.
    replace (is_full cf []) with false
      by (unfold is_full; cbn; destruct (0 <? cap cf) eqn:E; cbn; [symmetry; apply Z.leb_gt; lia|reflexivity]).
    assert (Hcs : In c (subq s ++ subs s)).
    { apply in_or_app. right. rewrite Hpre. apply in_or_app. right. left. reflexivity. }
    set (s1 := St (subq s) (unsubq s) (subs s) (pend s) rest (upd (mbox s) c ([] ++ [cur s]))
                  (phase_of s) PClear (counter s) (cur s) (stat s) (iter s) (subtick s) (got s)).
    assert (Hlen1 : forall x, (length (mbox s1 x) <= 1)%nat).
    { intros x. cbn. destruct (Z.eq_dec x c) as [->|Hn]; [rewrite upd_same; cbn; lia|].
      rewrite upd_other by exact Hn. apply (i_len s I). }
    assert (Hinit1 : forall x, phase_of s1 x = CInit ->
                               ~ In x (subq s1 ++ subs s1) /\ mbox s1 x = []).
    { intros x Hx. cbn in *. destruct (i_init s I x Hx) as [H1 H2]. split; [exact H1|].
      destruct (Z.eq_dec x c) as [->|Hn]; [contradiction|]. rewrite upd_other by exact Hn. exact H2. }
    cbn [fst]. destruct rest as [|c2 r2] eqn:Hrest.
    + set (s2 := St (subq s) (unsubq s) (subs s) (pend s) [] (upd (mbox s) c ([] ++ [cur s]))
                    (phase_of s) PTop (counter s) (cur s) (stat s) (iter s) (subtick s) (got s)).
      assert (I2 : Inv s2).
      { constructor; try exact Hinit1; try exact Hlen1; cbn; try apply I;
          try (intros; discriminate); auto. }
      exact (inv_end_iter_gen s2 PClear [] (counter s) (cur s) 0 I2 Hp).
    + constructor; try exact Hinit1; try exact Hlen1; cbn; try apply I; try (intros; discriminate); auto.
      intros _. split; [discriminate|]. exists (pre ++ [c]). rewrite <- app_assoc. exact Hpre.
Qed.

Lemma inv_step cf s l s' : period cf <> 0 -> Inv s -> step cf s l = Some s' -> Inv s'.
Proof.
  intros Hper I H. unfold step in H.
  destruct (step_ev cf s l) as [[s1 e]|] eqn:E; [|discriminate]. injection H as <-.
  destruct l; cbn [step_ev] in E.
  - eapply inv_sub; eauto.
  - eapply inv_get; eauto.
  - eapply inv_unsub; eauto.
  - injection E as E. pose proof (inv_pub cf s I Hper) as H. rewrite E in H. exact H.
Qed.

Lemma inv_reachable cf s : period cf <> 0 -> reachable cf s -> Inv s.
Proof.
  intros Hper H. induction H as [|s l s' _ IH Hs]; [exact inv_init|].
  eapply inv_step; eauto.
Qed.

Lemma inv_run cf : period cf <> 0 -> forall ls s s', Inv s -> run cf s ls = Some s' -> Inv s'.
Proof.
  intros Hper ls. induction ls as [|l r IH]; intros s s' I H; cbn in H.
  - injection H as <-. exact I.
  - destruct (step cf s l) as [s1|] eqn:E; [|discriminate].
    eapply IH; [eapply inv_step; eauto|exact H].
Qed.

Lemma reachable_run cf : forall ls s s', reachable cf s -> run cf s ls = Some s' -> reachable cf s'.
Proof.
  intros ls. induction ls as [|l r IH]; intros s s' R H; cbn in H.
  - injection H as <-. exact R.
  - destruct (step cf s l) as [s1|] eqn:E; [|discriminate].
    eapply IH; [eapply reach_step; eauto|exact H].
Qed.
