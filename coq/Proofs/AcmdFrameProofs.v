(* Lemmas about Model/AcmdFrame.v (agent Acmd; C14, C03 part acu, C10 part acu): case analysis
   of `parse`, the framing invariant of every reachable state, well-formed messages are executed
   and only they are, return to idle after the declared number of bytes. *)
From DS Require Import Base.Prelude Base.Bits Gen.AcmdTables Model.AcmdFrame.

(* ------------------------------------------------------------------ lists *)

Lemma snoc_nonempty {A} (p : list A) b : p ++ [b] <> [].
Proof. destruct p; discriminate. Qed.

Lemma slice_length a b (l : list Z) : (a <= b)%nat -> (b <= length l)%nat ->
  length (slice a b l) = (b - a)%nat.
Proof. intros H1 H2. unfold slice. rewrite firstn_length, skipn_length. lia. Qed.

Lemma slice_app_l a b (l q : list Z) : (b <= length l)%nat -> slice a b (l ++ q) = slice a b l.
Proof.
  intros H. unfold slice.
  destruct (Nat.le_gt_cases a (length l)) as [Ha|Ha].
  - rewrite skipn_app. replace (a - length l)%nat with 0%nat by lia. cbn [skipn].
    rewrite firstn_app. rewrite skipn_length.
    replace (b - a - (length l - a))%nat with 0%nat by lia. cbn [firstn]. apply app_nil_r.
  - replace (b - a)%nat with 0%nat by lia. reflexivity.
Qed.

Lemma firstn_app_l {A} k (l q : list A) : (k <= length l)%nat -> firstn k (l ++ q) = firstn k l.
Proof.
  intros H. rewrite firstn_app. replace (k - length l)%nat with 0%nat by lia.
  cbn [firstn]. apply app_nil_r.
Qed.

Lemma lastn_as_slice k (l : list Z) : (k <= length l)%nat ->
  lastn k l = slice (length l - k) (length l) l.
Proof.
  intros H. unfold lastn, slice.
  rewrite firstn_all2; [reflexivity|]. rewrite skipn_length. lia.
Qed.

Lemma lastn_nonempty (l : list Z) : l <> [] -> lastn 4 l <> [].
Proof.
  intros Hl E. assert (H : length (lastn 4 l) = 0%nat) by (rewrite E; reflexivity).
  unfold lastn in H. rewrite skipn_length in H. destruct l; [congruence|]. cbn [length] in H. lia.
Qed.

Lemma uint_le_some (l : list Z) : l <> [] -> uint_le l = Some (le_dec l).
Proof. destruct l; [congruence|reflexivity]. Qed.

Lemma uint_le_slice a b (l : list Z) : (a < b)%nat -> (b <= length l)%nat ->
  uint_le (slice a b l) = Some (le_dec (slice a b l)).
Proof.
  intros H1 H2. apply uint_le_some. intros E.
  pose proof (slice_length a b l) as H. rewrite E in H. cbn in H. lia.
Qed.

Lemma len_snoc (p : list Z) b : Z.of_nat (length (p ++ [b])) = Z.of_nat (length p) + 1.
Proof. rewrite app_length. cbn [length]. lia. Qed.

(* ------------------------------------------------------------------ constants of the table *)

Lemma consts :
  hdr_flag_len = 4 /\ hdr_at_len = 8 /\ hdr_at_cnt = 12 /\ hdr_at_num = 16 /\
  min_msg_length = 20 /\ cmd_len = 26 /\ pt_head = 42 /\ pt_entry = 20 /\ length start_flag = 4%nat
  /\ length end_flag = 4%nat.
Proof. repeat split; reflexivity. Qed.

Ltac consts := unfold hdr_flag_len, hdr_at_len, hdr_at_cnt, hdr_at_num, min_msg_length,
                      cmd_len, pt_head, pt_entry in *.

(* ------------------------------------------------------------------ parse, case by case *)

(* what the completion branch does with the complete message m *)
Definition completion (m : list Z) : outcome * option (list dispatch) :=
  if zlist_eqb (lastn 4 m) end_flag then
    match parse_commands m with
    | COk ds => (OTrue, Some ds)
    | CErr _ => (OValueError, None)
    | CFuel => (OModelError, None)
    end
  else (OValueError, None).

Definition keep (st : fstate) (m : list Z) : fstate := mkF m (f_len st) (f_cnt st) (f_num st).

Lemma parse_cases st b :
  let m := f_msg st ++ [b] in
  let n := Z.of_nat (length m) in
  (n <= 4 /\ m <> firstn (length m) start_flag /\ parse st b = (keep st [], OFalse, None)) \/
  (n <= 4 /\ m = firstn (length m) start_flag /\ parse st b = (keep st m, OTrue, None)) \/
  (4 < n /\ n <> 8 /\ n <> 12 /\ n <> 16 /\ ~ (16 < n /\ n = f_len st) /\
     parse st b = (keep st m, OTrue, None)) \/
  (n = 8 /\ le_dec (lastn 4 m) < min_msg_length /\ parse st b = (set_default st, OValueError, None)) \/
  (n = 8 /\ min_msg_length <= le_dec (lastn 4 m) /\
     parse st b = (mkF m (le_dec (lastn 4 m)) (f_cnt st) (f_num st), OTrue, None)) \/
  (n = 12 /\ Some (le_dec (lastn 4 m)) = f_cnt st /\ parse st b = (set_default st, OValueError, None)) \/
  (n = 12 /\ Some (le_dec (lastn 4 m)) <> f_cnt st /\
     parse st b = (mkF m (f_len st) (Some (le_dec (lastn 4 m))) (f_num st), OTrue, None)) \/
  (n = 16 /\ parse st b = (mkF m (f_len st) (f_cnt st) (int_le (lastn 4 m)), OTrue, None)) \/
  (16 < n /\ n = f_len st /\
     parse st b = (set_default st, fst (completion m), snd (completion m))).
Proof.
  cbv zeta. set (m := f_msg st ++ [b]). set (n := Z.of_nat (length m)).
  assert (Hne : m <> []) by apply snoc_nonempty.
  unfold parse. fold m. fold n. consts.
  destruct (Z.leb_spec n 4) as [Hn|Hn].
  - destruct (zlist_eqb m (firstn (length m) start_flag)) eqn:He.
    + apply zlist_eqb_eq in He. right. left. split; [exact Hn|]. split; [exact He|].
      destruct m as [|x l] eqn:Em; [congruence|].
      destruct (Z.eqb_spec n 8); [lia|]. destruct (Z.eqb_spec n 12); [lia|].
      destruct (Z.eqb_spec n 16); [lia|].
      destruct (Z.ltb_spec 16 n); [lia|]. cbn [andb]. reflexivity.
    + left. split; [exact Hn|]. split; [|reflexivity].
      intros E. apply zlist_eqb_eq in E. congruence.
  - destruct m as [|x l] eqn:Em; [congruence|]. rewrite <- Em in *.
    rewrite (uint_le_some (lastn 4 m)) by (apply lastn_nonempty; exact Hne).
    destruct (Z.eqb_spec n 8) as [H8|H8].
    { destruct (Z.ltb_spec (le_dec (lastn 4 m)) 20).
      - right. right. right. left. auto.
      - right. right. right. right. left. auto. }
    destruct (Z.eqb_spec n 12) as [H12|H12].
    { destruct (f_cnt st) as [c|] eqn:Ec; cbn [option_eqb].
      - destruct (Z.eqb_spec (le_dec (lastn 4 m)) c) as [E|E].
        + do 5 right. left. subst c. auto.
        + do 6 right. left. repeat split; try assumption. congruence.
      - do 6 right. left. repeat split; try assumption. discriminate. }
    destruct (Z.eqb_spec n 16) as [H16|H16].
    { do 7 right. left. auto. }
    destruct (Z.ltb_spec 16 n) as [Hgt|Hle]; cbn [andb].
    + destruct (Z.eqb_spec n (f_len st)) as [Hl|Hl].
      * do 8 right. split; [exact Hgt|]. split; [exact Hl|].
        unfold completion. destruct (zlist_eqb (lastn 4 m) end_flag); [|reflexivity].
        destruct (parse_commands m); reflexivity.
      * right. right. left. repeat split; try assumption; try lia.
    + right. right. left. repeat split; try assumption; try lia.
Qed.

(* parse either empties the buffer or appends the byte *)
Lemma parse_buffer st b :
  f_msg (fst (fst (parse st b))) = [] \/ f_msg (fst (fst (parse st b))) = f_msg st ++ [b].
Proof.
  destruct (parse_cases st b) as [H|[H|[H|[H|[H|[H|[H|[H|H]]]]]]]];
    repeat match type of H with _ /\ _ => destruct H as [? H] end; rewrite H; cbn; auto.
Qed.

(* ------------------------------------------------------------------ the framing invariant *)

Definition decl (m : list Z) : Z := le_dec (slice 4 8 m).     (* declared total length *)
Definition mcnt (m : list Z) : Z := le_dec (slice 8 12 m).    (* message counter *)
Definition blen (st : fstate) : Z := Z.of_nat (length (f_msg st)).

(* holds in every state reachable from f_init (finv_init, finv_step) *)
Record finv (st : fstate) : Prop := {
  inv_flag : firstn 4 (f_msg st) = firstn (length (f_msg st)) start_flag;
  inv_len : 8 <= blen st ->
            f_len st = decl (f_msg st) /\ blen st < f_len st /\ min_msg_length <= f_len st;
  inv_cnt : 12 <= blen st -> f_cnt st = Some (mcnt (f_msg st))
}.

Lemma finv_idle st : f_msg st = [] -> finv st.
Proof.
  intros E. split; unfold blen; rewrite E; cbn; try lia. reflexivity.
Qed.

Lemma finv_init : finv f_init.
Proof. apply finv_idle. reflexivity. Qed.

Lemma lastn4_decl (m : list Z) : length m = 8%nat -> lastn 4 m = slice 4 8 m.
Proof. intros H. rewrite lastn_as_slice by lia. rewrite H. reflexivity. Qed.

Lemma lastn4_mcnt (m : list Z) : length m = 12%nat -> lastn 4 m = slice 8 12 m.
Proof. intros H. rewrite lastn_as_slice by lia. rewrite H. reflexivity. Qed.

Lemma lastn4_num (m : list Z) : length m = 16%nat -> lastn 4 m = slice 12 16 m.
Proof. intros H. rewrite lastn_as_slice by lia. rewrite H. reflexivity. Qed.

Lemma flag_snoc (p : list Z) b : (4 <= length p)%nat ->
  firstn 4 p = firstn (length p) start_flag ->
  firstn 4 (p ++ [b]) = firstn (length (p ++ [b])) start_flag.
Proof.
  intros H4 H. rewrite firstn_app_l by lia. rewrite H.
  assert (Hs : length start_flag = 4%nat) by reflexivity.
  rewrite (firstn_all2 start_flag) by lia.
  rewrite (firstn_all2 start_flag) by (rewrite app_length; cbn [length]; lia). reflexivity.
Qed.

Lemma finv_step st b : finv st -> finv (fst (fst (parse st b))).
Proof.
  intros [Hf Hl Hc].
  pose proof (len_snoc (f_msg st) b) as Hn.
  destruct (parse_cases st b) as [H|[H|[H|[H|[H|[H|[H|[H|H]]]]]]]]; cbv zeta in H;
    repeat match type of H with _ /\ _ => destruct H as [? H] end; rewrite H; cbn [fst];
    try (apply finv_idle; reflexivity).
  - (* flag byte accepted *)
    split; unfold blen; cbn [keep f_msg f_len f_cnt]; try lia.
    rewrite firstn_all2 by lia. assumption.
  - (* ordinary byte *)
    assert (Hp4 : (4 <= length (f_msg st))%nat) by lia.
    split; unfold blen in *; cbn [keep f_msg f_len f_cnt].
    + apply flag_snoc; assumption.
    + intros H8. assert (Hp8 : 8 <= Z.of_nat (length (f_msg st))) by lia.
      destruct (Hl Hp8) as (E1 & E2 & E3). split; [|split; [|exact E3]].
      * unfold decl. rewrite slice_app_l by lia. exact E1.
      * consts. lia.
    + intros H12. assert (Hp12 : 12 <= Z.of_nat (length (f_msg st))) by lia.
      unfold mcnt. rewrite slice_app_l by lia. apply Hc. exact Hp12.
  - (* declared length accepted at byte 8 *)
    assert (Hp4 : (4 <= length (f_msg st))%nat) by lia.
    split; unfold blen in *; cbn [f_msg f_len f_cnt].
    + apply flag_snoc; assumption.
    + intros _. rewrite lastn4_decl in * by lia. split; [reflexivity|]. consts. unfold decl in *. lia.
    + lia.
  - (* counter accepted at byte 12 *)
    assert (Hp4 : (4 <= length (f_msg st))%nat) by lia.
    split; unfold blen in *; cbn [f_msg f_len f_cnt].
    + apply flag_snoc; assumption.
    + intros _. assert (Hp8 : 8 <= Z.of_nat (length (f_msg st))) by lia.
      destruct (Hl Hp8) as (E1 & E2 & E3). split; [|split; [|exact E3]].
      * unfold decl. rewrite slice_app_l by lia. exact E1.
      * consts. lia.
    + intros _. rewrite lastn4_mcnt by lia. reflexivity.
  - (* command count at byte 16 *)
    assert (Hp4 : (4 <= length (f_msg st))%nat) by lia.
    split; unfold blen in *; cbn [f_msg f_len f_cnt].
    + apply flag_snoc; assumption.
    + intros _. assert (Hp8 : 8 <= Z.of_nat (length (f_msg st))) by lia.
      destruct (Hl Hp8) as (E1 & E2 & E3). split; [|split; [|exact E3]].
      * unfold decl. rewrite slice_app_l by lia. exact E1.
      * consts. lia.
    + intros _. assert (Hp12 : 12 <= Z.of_nat (length (f_msg st))) by lia.
      unfold mcnt. rewrite slice_app_l by lia. apply Hc. exact Hp12.
Qed.

(* ------------------------------------------------------------------ runs *)

Lemma frun_app st bs1 bs2 :
  frun st (bs1 ++ bs2) =
  (fst (frun (fst (frun st bs1)) bs2), snd (frun st bs1) ++ snd (frun (fst (frun st bs1)) bs2)).
Proof.
  revert st. induction bs1 as [|b bs1 IH]; intros st.
  - cbn. destruct (frun st bs2); reflexivity.
  - cbn [app frun]. destruct (parse st b) as [[st1 o] d]. rewrite IH.
    destruct (frun st1 bs1) as [st2 r]. cbn [fst snd].
    destruct (frun st2 bs2) as [st3 r']. reflexivity.
Qed.

Lemma fstate_of_cons st b bs : fstate_of st (b :: bs) = fstate_of (fst (fst (parse st b))) bs.
Proof.
  unfold fstate_of. cbn [frun]. destruct (parse st b) as [[st1 o] d]. cbn [fst].
  destruct (frun st1 bs); reflexivity.
Qed.

Lemma fstate_of_app st bs1 bs2 : fstate_of st (bs1 ++ bs2) = fstate_of (fstate_of st bs1) bs2.
Proof. unfold fstate_of. rewrite frun_app. reflexivity. Qed.

Lemma finv_run st bs : finv st -> finv (fstate_of st bs).
Proof.
  revert st. induction bs as [|b bs IH]; intros st H; [exact H|].
  rewrite fstate_of_cons. apply IH, finv_step, H.
Qed.

(* every state reachable from the initial one satisfies the invariant *)
Theorem finv_reachable bs : finv (fstate_of f_init bs).
Proof. apply finv_run, finv_init. Qed.

(* ------------------------------------------------------------------ C03: return to idle *)

(* Once at least the declared number of bytes has arrived (counted from the start of the frame
   being buffered) the parser has been idle: it never waits beyond the declared length. *)
Theorem resync st bs : finv st ->
  let m := f_msg st ++ bs in
  8 <= Z.of_nat (length m) -> decl m <= Z.of_nat (length m) ->
  exists k, (k <= length bs)%nat /\ fidle (fstate_of st (firstn k bs)).
Proof.
  cbv zeta. revert st. induction bs as [|b bs IH]; intros st Hinv H8 Hd.
  - rewrite app_nil_r in *. destruct (inv_len st Hinv H8) as (E1 & E2 & _).
    unfold blen in E2. lia.
  - destruct (parse_buffer st b) as [Hb|Hb].
    + exists 1%nat. split; [cbn; lia|]. cbn [firstn]. rewrite fstate_of_cons. exact Hb.
    + pose proof (finv_step st b Hinv) as Hinv'.
      destruct (IH (fst (fst (parse st b))) Hinv') as (k & Hk & Hidle).
      * rewrite Hb, <- app_assoc. exact H8.
      * rewrite Hb, <- app_assoc. exact Hd.
      * exists (S k). split; [cbn; lia|]. cbn [firstn]. rewrite fstate_of_cons. exact Hidle.
Qed.

(* a header declaring a length no frame can have is rejected at byte 8, parser idle *)
Theorem bad_length_rejected st b :
  Z.of_nat (length (f_msg st)) = 7 -> finv st ->
  decl (f_msg st ++ [b]) < min_msg_length ->
  parse st b = (set_default st, OValueError, None) /\ fidle (set_default st).
Proof.
  intros H7 Hinv Hd. pose proof (len_snoc (f_msg st) b) as Hn.
  split; [|reflexivity].
  destruct (parse_cases st b) as [H|[H|[H|[H|[H|[H|[H|[H|H]]]]]]]]; cbv zeta in H;
    repeat match type of H with _ /\ _ => destruct H as [? H] end; try lia; try exact H.
  exfalso. unfold decl in Hd. rewrite <- lastn4_decl in Hd by lia. lia.
Qed.

(* idle: a byte that cannot start a message is discarded without any effect *)
Theorem idle_discards st b : fidle st -> b <> nth 0 start_flag 0 ->
  parse st b = (st, OFalse, None).
Proof.
  unfold fidle. intros Hi Hb. destruct st as [msg l c n]. cbn in Hi. subst msg.
  destruct (parse_cases (mkF [] l c n) b) as [H|[H|H]]; cbv zeta in H; cbn [f_msg app length] in H.
  - destruct H as (_ & _ & H). exact H.
  - destruct H as (_ & E & _). exfalso. apply Hb. vm_compute in E. injection E as ->. reflexivity.
  - repeat match type of H with _ \/ _ => destruct H as [H|H] end;
      repeat match type of H with _ /\ _ => destruct H as [? H] end; cbn in *; lia.
Qed.

(* two framing states that differ only in dead fields behave identically *)
Definition fsim (s1 s2 : fstate) : Prop :=
  f_msg s1 = f_msg s2 /\ f_cnt s1 = f_cnt s2 /\ (8 <= blen s1 -> f_len s1 = f_len s2).

Lemma fsim_step s1 s2 b : fsim s1 s2 ->
  snd (fst (parse s1 b)) = snd (fst (parse s2 b)) /\ snd (parse s1 b) = snd (parse s2 b) /\
  fsim (fst (fst (parse s1 b))) (fst (fst (parse s2 b))).
Proof.
  intros (Hm & Hc & Hl). unfold blen in Hl.
  pose proof (len_snoc (f_msg s1) b) as Hn.
  destruct (parse_cases s1 b) as [H|[H|[H|[H|[H|[H|[H|[H|H]]]]]]]]; cbv zeta in H;
    repeat match type of H with _ /\ _ => destruct H as [? H] end;
  destruct (parse_cases s2 b) as [G|[G|[G|[G|[G|[G|[G|[G|G]]]]]]]]; cbv zeta in G;
    repeat match type of G with _ /\ _ => destruct G as [? G] end;
  rewrite <- ?Hm, <- ?Hc in *; try lia; try congruence;
  rewrite H, G; cbn [fst snd]; unfold fsim, blen, keep, set_default; cbn [f_msg f_cnt f_len];
  rewrite <- ?Hm, <- ?Hc; repeat split; try reflexivity; try (intros; lia); try (intros; apply Hl; lia);
  try (cbn [length]; intros; lia).
Qed.

Lemma fsim_run s1 s2 bs : fsim s1 s2 ->
  snd (frun s1 bs) = snd (frun s2 bs) /\ fsim (fst (frun s1 bs)) (fst (frun s2 bs)).
Proof.
  revert s1 s2. induction bs as [|b bs IH]; intros s1 s2 H; [cbn; auto|].
  destruct (fsim_step s1 s2 b H) as (E1 & E2 & E3).
  cbn [frun]. destruct (parse s1 b) as [[t1 o1] d1]. destruct (parse s2 b) as [[t2 o2] d2].
  cbn [fst snd] in *. subst o2 d2. destruct (IH t1 t2 E3) as [R1 R2].
  destruct (frun t1 bs) as [u1 r1]. destruct (frun t2 bs) as [u2 r2]. cbn [fst snd] in *.
  subst r2. auto.
Qed.

(* after idle the parser behaves like a fresh one that remembers only the last message counter *)
Theorem fresh_after_idle st bs : fidle st ->
  snd (frun st bs) = snd (frun (f_idle (f_cnt st)) bs) /\
  fsim (fst (frun st bs)) (fst (frun (f_idle (f_cnt st)) bs)).
Proof.
  intros Hi. apply fsim_run. unfold fsim, blen. rewrite Hi. cbn. repeat split; lia.
Qed.
