(* Lemmas about Model/AcmdFrame.v (agent Acmd; C14, C03 part acu, C10 part acu): case analysis
   of `parse`, the framing invariant of every reachable state, well-formed messages are executed
   and only they are, return to idle after the declared number of bytes. *)
From DS Require Import Base.Prelude Base.Bits Gen.AcmdTables Model.AcmdFrame.

(* ------------------------------------------------------------------ lists *)

Lemma snoc_nonempty {A} (p : list A) b : p ++ [b] <> [].
Proof. destruct p; discriminate. Qed.

Lemma slice_length a b (l : list Z) : (a <= b)%nat -> (b <= length l)%nat ->
  length (slice a b l) = (b - a)%nat.
Proof. intros H1 H2. unfold slice. rewrite firstn_length, skipn_length. lia. Qed.

Lemma slice_app_l a b (l q : list Z) : (b <= length l)%nat -> slice a b (l ++ q) = slice a b l.
Proof.
  intros H. unfold slice.
  destruct (Nat.le_gt_cases a (length l)) as [Ha|Ha].
  - rewrite skipn_app. replace (a - length l)%nat with 0%nat by lia. cbn [skipn].
    rewrite firstn_app. rewrite skipn_length.
    replace (b - a - (length l - a))%nat with 0%nat by lia. cbn [firstn]. apply app_nil_r.
  - replace (b - a)%nat with 0%nat by lia. reflexivity.
Qed.

Lemma firstn_app_l {A} k (l q : list A) : (k <= length l)%nat -> firstn k (l ++ q) = firstn k l.
Proof.
  intros H. rewrite firstn_app. replace (k - length l)%nat with 0%nat by lia.
  cbn [firstn]. apply app_nil_r.
Qed.

Lemma lastn_as_slice k (l : list Z) : (k <= length l)%nat ->
  lastn k l = slice (length l - k) (length l) l.
Proof.
  intros H. unfold lastn, slice.
  rewrite firstn_all2; [reflexivity|]. rewrite skipn_length. lia.
Qed.

Lemma lastn_nonempty (l : list Z) : l <> [] -> lastn 4 l <> [].
Proof.
  intros Hl E. assert (H : length (lastn 4 l) = 0%nat) by (rewrite E; reflexivity).
  unfold lastn in H. rewrite skipn_length in H. destruct l; [congruence|]. cbn [length] in H. lia.
Qed.

Lemma uint_le_some (l : list Z) : l <> [] -> uint_le l = Some (le_dec l).
Proof. destruct l; [congruence|reflexivity]. Qed.

Lemma uint_le_slice a b (l : list Z) : (a < b)%nat -> (b <= length l)%nat ->
  uint_le (slice a b l) = Some (le_dec (slice a b l)).
Proof.
  intros H1 H2. apply uint_le_some. intros E.
  pose proof (slice_length a b l) as H. rewrite E in H. cbn in H. lia.
Qed.

Lemma len_snoc (p : list Z) b : Z.of_nat (length (p ++ [b])) = Z.of_nat (length p) + 1.
Proof. rewrite app_length. cbn [length]. lia. Qed.

(* ------------------------------------------------------------------ constants of the table *)

Lemma consts :
  hdr_flag_len = 4 /\ hdr_at_len = 8 /\ hdr_at_cnt = 12 /\ hdr_at_num = 16 /\
  min_msg_length = 20 /\ cmd_len = 26 /\ pt_head = 42 /\ pt_entry = 20 /\ length start_flag = 4%nat
  /\ length end_flag = 4%nat.
Proof. repeat split; reflexivity. Qed.

Ltac consts := unfold hdr_flag_len, hdr_at_len, hdr_at_cnt, hdr_at_num, min_msg_length,
                      cmd_len, pt_head, pt_entry in *.

(* ------------------------------------------------------------------ parse, case by case *)

(* what the completion branch does with the complete message m *)
Definition completion (m : list Z) : outcome * option (list dispatch) :=
  if zlist_eqb (lastn 4 m) end_flag then
    match parse_commands m with
    | COk ds => (OTrue, Some ds)
    | CErr _ => (OValueError, None)
    | CFuel => (OModelError, None)
    end
  else (OValueError, None).

Definition keep (st : fstate) (m : list Z) : fstate := mkF m (f_len st) (f_cnt st) (f_num st).

Lemma parse_cases st b :
  let m := f_msg st ++ [b] in
  let n := Z.of_nat (length m) in
  (n <= 4 /\ m <> firstn (length m) start_flag /\ parse st b = (keep st [], OFalse, None)) \/
  (n <= 4 /\ m = firstn (length m) start_flag /\ parse st b = (keep st m, OTrue, None)) \/
  (4 < n /\ n <> 8 /\ n <> 12 /\ n <> 16 /\ ~ (16 < n /\ n = f_len st) /\
     parse st b = (keep st m, OTrue, None)) \/
  (n = 8 /\ le_dec (lastn 4 m) < min_msg_length /\ parse st b = (set_default st, OValueError, None)) \/
  (n = 8 /\ min_msg_length <= le_dec (lastn 4 m) /\
     parse st b = (mkF m (le_dec (lastn 4 m)) (f_cnt st) (f_num st), OTrue, None)) \/
  (n = 12 /\ Some (le_dec (lastn 4 m)) = f_cnt st /\ parse st b = (set_default st, OValueError, None)) \/
  (n = 12 /\ Some (le_dec (lastn 4 m)) <> f_cnt st /\
     parse st b = (mkF m (f_len st) (Some (le_dec (lastn 4 m))) (f_num st), OTrue, None)) \/
  (n = 16 /\ parse st b = (mkF m (f_len st) (f_cnt st) (int_le (lastn 4 m)), OTrue, None)) \/
  (16 < n /\ n = f_len st /\
     parse st b = (set_default st, fst (completion m), snd (completion m))).
Proof.
  cbv zeta. set (m := f_msg st ++ [b]). set (n := Z.of_nat (length m)).
  assert (Hne : m <> []) by apply snoc_nonempty.
  unfold parse. fold m. fold n. consts.
  destruct (Z.leb_spec n 4) as [Hn|Hn].
  - destruct (zlist_eqb m (firstn (length m) start_flag)) eqn:He.
    + apply zlist_eqb_eq in He. right. left. split; [exact Hn|]. split; [exact He|].
      destruct m as [|x l] eqn:Em; [congruence|].
      destruct (Z.eqb_spec n 8); [lia|]. destruct (Z.eqb_spec n 12); [lia|].
      destruct (Z.eqb_spec n 16); [lia|].
      destruct (Z.ltb_spec 16 n); [lia|]. cbn [andb]. reflexivity.
    + left. split; [exact Hn|]. split; [|reflexivity].
      intros E. apply zlist_eqb_eq in E. congruence.
  - destruct m as [|x l] eqn:Em; [congruence|]. rewrite <- Em in *.
    rewrite (uint_le_some (lastn 4 m)) by (apply lastn_nonempty; exact Hne).
    destruct (Z.eqb_spec n 8) as [H8|H8].
    { destruct (Z.ltb_spec (le_dec (lastn 4 m)) 20).
      - right. right. right. left. auto.
      - right. right. right. right. left. auto. }
    destruct (Z.eqb_spec n 12) as [H12|H12].
    { destruct (f_cnt st) as [c|] eqn:Ec; cbn [option_eqb].
      - destruct (Z.eqb_spec (le_dec (lastn 4 m)) c) as [E|E].
        + do 5 right. left. subst c. auto.
        + do 6 right. left. repeat split; try assumption. congruence.
      - do 6 right. left. repeat split; try assumption. discriminate. }
    destruct (Z.eqb_spec n 16) as [H16|H16].
    { do 7 right. left. auto. }
    destruct (Z.ltb_spec 16 n) as [Hgt|Hle]; cbn [andb].
    + destruct (Z.eqb_spec n (f_len st)) as [Hl|Hl].
      * do 8 right. split; [exact Hgt|]. split; [exact Hl|].
        unfold completion. destruct (zlist_eqb (lastn 4 m) end_flag); [|reflexivity].
        destruct (parse_commands m); reflexivity.
      * right. right. left. repeat split; try assumption; try lia.
    + right. right. left. repeat split; try assumption; try lia.
Qed.

(* parse either empties the buffer or appends the byte *)
Lemma parse_buffer st b :
  f_msg (fst (fst (parse st b))) = [] \/ f_msg (fst (fst (parse st b))) = f_msg st ++ [b].
Proof.
  destruct (parse_cases st b) as [H|[H|[H|[H|[H|[H|[H|[H|H]]]]]]]];
    repeat match type of H with _ /\ _ => destruct H as [? H] end; rewrite H; cbn; auto.
Qed.

(* ------------------------------------------------------------------ the framing invariant *)

Definition decl (m : list Z) : Z := le_dec (slice 4 8 m).     (* declared total length *)
Definition mcnt (m : list Z) : Z := le_dec (slice 8 12 m).    (* message counter *)
Definition blen (st : fstate) : Z := Z.of_nat (length (f_msg st)).

(* holds in every state reachable from f_init (finv_init, finv_step) *)
Record finv (st : fstate) : Prop := {
  inv_flag : firstn 4 (f_msg st) = firstn (length (f_msg st)) start_flag;
  inv_len : 8 <= blen st ->
            f_len st = decl (f_msg st) /\ blen st < f_len st /\ min_msg_length <= f_len st;
  inv_cnt : 12 <= blen st -> f_cnt st = Some (mcnt (f_msg st))
}.

Lemma finv_idle st : f_msg st = [] -> finv st.
Proof.
  intros E. split; unfold blen; rewrite E; cbn; try lia. reflexivity.
Qed.

Lemma finv_init : finv f_init.
Proof. apply finv_idle. reflexivity. Qed.

Lemma lastn4_decl (m : list Z) : length m = 8%nat -> lastn 4 m = slice 4 8 m.
Proof. intros H. rewrite lastn_as_slice by lia. rewrite H. reflexivity. Qed.

Lemma lastn4_mcnt (m : list Z) : length m = 12%nat -> lastn 4 m = slice 8 12 m.
Proof. intros H. rewrite lastn_as_slice by lia. rewrite H. reflexivity. Qed.

Lemma lastn4_num (m : list Z) : length m = 16%nat -> lastn 4 m = slice 12 16 m.
Proof. intros H. rewrite lastn_as_slice by lia. rewrite H. reflexivity. Qed.

Lemma flag_snoc (p : list Z) b : (4 <= length p)%nat ->
  firstn 4 p = firstn (length p) start_flag ->
  firstn 4 (p ++ [b]) = firstn (length (p ++ [b])) start_flag.
Proof.
  intros H4 H. rewrite firstn_app_l by lia. rewrite H.
  assert (Hs : length start_flag = 4%nat) by reflexivity.
  rewrite (firstn_all2 start_flag) by lia.
  rewrite (firstn_all2 start_flag) by (rewrite app_length; cbn [length]; lia). reflexivity.
Qed.

Lemma finv_step st b : finv st -> finv (fst (fst (parse st b))).
Proof.
  intros [Hf Hl Hc].
  pose proof (len_snoc (f_msg st) b) as Hn.
  destruct (parse_cases st b) as [H|[H|[H|[H|[H|[H|[H|[H|H]]]]]]]]; cbv zeta in H;
    repeat match type of H with _ /\ _ => destruct H as [? H] end; rewrite H; cbn [fst];
    try (apply finv_idle; reflexivity).
  - (* flag byte accepted *)
    split; unfold blen; cbn [keep f_msg f_len f_cnt]; try lia.
    rewrite firstn_all2 by lia. assumption.
  - (* ordinary byte *)
    assert (Hp4 : (4 <= length (f_msg st))%nat) by lia.
    split; unfold blen in *; cbn [keep f_msg f_len f_cnt].
    + apply flag_snoc; assumption.
    + intros H8. assert (Hp8 : 8 <= Z.of_nat (length (f_msg st))) by lia.
      destruct (Hl Hp8) as (E1 & E2 & E3). split; [|split; [|exact E3]].
      * unfold decl. rewrite slice_app_l by lia. exact E1.
      * consts. lia.
    + intros H12. assert (Hp12 : 12 <= Z.of_nat (length (f_msg st))) by lia.
      unfold mcnt. rewrite slice_app_l by lia. apply Hc. exact Hp12.
  - (* declared length accepted at byte 8 *)
    assert (Hp4 : (4 <= length (f_msg st))%nat) by lia.
    split; unfold blen in *; cbn [f_msg f_len f_cnt].
    + apply flag_snoc; assumption.
    + intros _. rewrite lastn4_decl in * by lia. split; [reflexivity|]. consts. unfold decl in *. lia.
    + lia.
  - (* counter accepted at byte 12 *)
    assert (Hp4 : (4 <= length (f_msg st))%nat) by lia.
    split; unfold blen in *; cbn [f_msg f_len f_cnt].
    + apply flag_snoc; assumption.
    + intros _. assert (Hp8 : 8 <= Z.of_nat (length (f_msg st))) by lia.
      destruct (Hl Hp8) as (E1 & E2 & E3). split; [|split; [|exact E3]].
      * unfold decl. rewrite slice_app_l by lia. exact E1.
      * consts. lia.
    + intros _. rewrite lastn4_mcnt by lia. reflexivity.
  - (* command count at byte 16 *)
    assert (Hp4 : (4 <= length (f_msg st))%nat) by lia.
    split; unfold blen in *; cbn [f_msg f_len f_cnt].
    + apply flag_snoc; assumption.
    + intros _. assert (Hp8 : 8 <= Z.of_nat (length (f_msg st))) by lia.
      destruct (Hl Hp8) as (E1 & E2 & E3). split; [|split; [|exact E3]].
      * unfold decl. rewrite slice_app_l by lia. exact E1.
      * consts. lia.
    + intros _. assert (Hp12 : 12 <= Z.of_nat (length (f_msg st))) by lia.
      unfold mcnt. rewrite slice_app_l by lia. apply Hc. exact Hp12.
Qed.

(* ------------------------------------------------------------------ runs *)

Lemma frun_app st bs1 bs2 :
  frun st (bs1 ++ bs2) =
  (fst (frun (fst (frun st bs1)) bs2), snd (frun st bs1) ++ snd (frun (fst (frun st bs1)) bs2)).
Proof.
  revert st. induction bs1 as [|b bs1 IH]; intros st.
  - cbn. destruct (frun st bs2); reflexivity.
  - cbn [app frun]. destruct (parse st b) as [[st1 o] d]. rewrite IH.
    destruct (frun st1 bs1) as [st2 r]. cbn [fst snd].
    destruct (frun st2 bs2) as [st3 r']. reflexivity.
Qed.

Lemma fstate_of_cons st b bs : fstate_of st (b :: bs) = fstate_of (fst (fst (parse st b))) bs.
Proof.
  unfold fstate_of. cbn [frun]. destruct (parse st b) as [[st1 o] d]. cbn [fst].
  destruct (frun st1 bs); reflexivity.
Qed.

Lemma fstate_of_app st bs1 bs2 : fstate_of st (bs1 ++ bs2) = fstate_of (fstate_of st bs1) bs2.
Proof. unfold fstate_of. rewrite frun_app. reflexivity. Qed.

Lemma finv_run st bs : finv st -> finv (fstate_of st bs).
Proof.
  revert st. induction bs as [|b bs IH]; intros st H; [exact H|].
  rewrite fstate_of_cons. apply IH, finv_step, H.
Qed.

(* every state reachable from the initial one satisfies the invariant *)
Theorem finv_reachable bs : finv (fstate_of f_init bs).
Proof. apply finv_run, finv_init. Qed.

(* ------------------------------------------------------------------ C03: return to idle *)

(* Once at least the declared number of bytes has arrived (counted from the start of the frame
   being buffered) the parser has been idle: it never waits beyond the declared length. *)
Theorem resync st bs : finv st ->
  let m := f_msg st ++ bs in
  8 <= Z.of_nat (length m) -> decl m <= Z.of_nat (length m) ->
  exists k, (k <= length bs)%nat /\ fidle (fstate_of st (firstn k bs)).
Proof.
  cbv zeta. revert st. induction bs as [|b bs IH]; intros st Hinv H8 Hd.
  - rewrite app_nil_r in *. destruct (inv_len st Hinv H8) as (E1 & E2 & _).
    unfold blen in E2. lia.
  - destruct (parse_buffer st b) as [Hb|Hb].
    + exists 1%nat. split; [cbn; lia|]. cbn [firstn]. rewrite fstate_of_cons. exact Hb.
    + pose proof (finv_step st b Hinv) as Hinv'.
      destruct (IH (fst (fst (parse st b))) Hinv') as (k & Hk & Hidle).
      * rewrite Hb, <- app_assoc. exact H8.
      * rewrite Hb, <- app_assoc. exact Hd.
      * exists (S k). split; [cbn; lia|]. cbn [firstn]. rewrite fstate_of_cons. exact Hidle.
Qed.

(* a header declaring a length no frame can have is rejected at byte 8, parser idle *)
Theorem bad_length_rejected st b :
  Z.of_nat (length (f_msg st)) = 7 -> finv st ->
  decl (f_msg st ++ [b]) < min_msg_length ->
  parse st b = (set_default st, OValueError, None) /\ fidle (set_default st).
Proof.
  intros H7 Hinv Hd. pose proof (len_snoc (f_msg st) b) as Hn.
  split; [|reflexivity].
  destruct (parse_cases st b) as [H|[H|[H|[H|[H|[H|[H|[H|H]]]]]]]]; cbv zeta in H;
    repeat match type of H with _ /\ _ => destruct H as [? H] end; try lia; try exact H.
  exfalso. unfold decl in Hd. rewrite <- lastn4_decl in Hd by lia. lia.
Qed.

(* idle: a byte that cannot start a message is discarded without any effect *)
Theorem idle_discards st b : fidle st -> b <> nth 0 start_flag 0 ->
  parse st b = (st, OFalse, None).
Proof.
  unfold fidle. intros Hi Hb. destruct st as [msg l c n]. cbn in Hi. subst msg.
  destruct (parse_cases (mkF [] l c n) b) as [H|[H|H]]; cbv zeta in H; cbn [f_msg app length] in H.
  - destruct H as (_ & _ & H). exact H.
  - destruct H as (_ & E & _). exfalso. apply Hb. vm_compute in E. injection E as ->. reflexivity.
  - repeat match type of H with _ \/ _ => destruct H as [H|H] end;
      repeat match type of H with _ /\ _ => destruct H as [? H] end; cbn in *; lia.
Qed.

(* two framing states that differ only in dead fields behave identically *)
Definition fsim (s1 s2 : fstate) : Prop :=
  f_msg s1 = f_msg s2 /\ f_cnt s1 = f_cnt s2 /\ (8 <= blen s1 -> f_len s1 = f_len s2).

Lemma fsim_step s1 s2 b : fsim s1 s2 ->
  snd (fst (parse s1 b)) = snd (fst (parse s2 b)) /\ snd (parse s1 b) = snd (parse s2 b) /\
  fsim (fst (fst (parse s1 b))) (fst (fst (parse s2 b))).
Proof.
  intros (Hm & Hc & Hl). unfold blen in Hl.
  pose proof (len_snoc (f_msg s1) b) as Hn.
  destruct (parse_cases s1 b) as [H|[H|[H|[H|[H|[H|[H|[H|H]]]]]]]]; cbv zeta in H;
    repeat match type of H with _ /\ _ => destruct H as [? H] end;
  destruct (parse_cases s2 b) as [G|[G|[G|[G|[G|[G|[G|[G|G]]]]]]]]; cbv zeta in G;
    repeat match type of G with _ /\ _ => destruct G as [? G] end;
  rewrite <- ?Hm, <- ?Hc in *; try lia; try congruence;
  rewrite H, G; cbn [fst snd]; unfold fsim, blen, keep, set_default; cbn [f_msg f_cnt f_len];
  rewrite <- ?Hm, <- ?Hc; repeat split; try reflexivity; try (intros; lia); try (intros; apply Hl; lia);
  try (cbn [length]; intros; lia).
Qed.

Lemma fsim_run s1 s2 bs : fsim s1 s2 ->
  snd (frun s1 bs) = snd (frun s2 bs) /\ fsim (fst (frun s1 bs)) (fst (frun s2 bs)).
Proof.
  revert s1 s2. induction bs as [|b bs IH]; intros s1 s2 H; [cbn; auto|].
  destruct (fsim_step s1 s2 b H) as (E1 & E2 & E3).
  cbn [frun]. destruct (parse s1 b) as [[t1 o1] d1]. destruct (parse s2 b) as [[t2 o2] d2].
  cbn [fst snd] in *. subst o2 d2. destruct (IH t1 t2 E3) as [R1 R2].
  destruct (frun t1 bs) as [u1 r1]. destruct (frun t2 bs) as [u2 r2]. cbn [fst snd] in *.
  subst r2. auto.
Qed.

(* after idle the parser behaves like a fresh one that remembers only the last message counter *)
Theorem fresh_after_idle st bs : fidle st ->
  snd (frun st bs) = snd (frun (f_idle (f_cnt st)) bs) /\
  fsim (fst (frun st bs)) (fst (frun (f_idle (f_cnt st)) bs)).
Proof.
  intros Hi. apply fsim_run. unfold fsim, blen. rewrite Hi. cbn. repeat split; lia.
Qed.

(* ------------------------------------------------------------------ _parse_commands *)

Definition nnl (l : list Z) : Prop := Forall (fun b => 0 <= b) l.

Lemma nnl_firstn k l : nnl l -> nnl (firstn k l).
Proof.
  unfold nnl. revert l. induction k as [|k IH]; intros [|x l] H; cbn; try constructor.
  - inversion H; assumption.
  - apply IH. inversion H; assumption.
Qed.

Lemma nnl_skipn k l : nnl l -> nnl (skipn k l).
Proof.
  unfold nnl. revert l. induction k as [|k IH]; intros [|x l] H; cbn; try assumption.
  apply IH. inversion H; assumption.
Qed.

Lemma nnl_slice a b l : nnl l -> nnl (slice a b l).
Proof. intros H. unfold slice. apply nnl_firstn, nnl_skipn, H. Qed.

Lemma nnl_app l1 l2 : nnl (l1 ++ l2) <-> nnl l1 /\ nnl l2.
Proof. unfold nnl. apply Forall_app. Qed.

Lemma le_dec_nnl l : nnl l -> 0 <= le_dec l.
Proof. induction 1 as [|x l Hx _ IH]; cbn [le_dec]; lia. Qed.

Definition cmd_id (c : list Z) : option Z := uint_le (firstn 2 c).
Definition csub (c : list Z) : Z := le_dec (slice 2 4 c).

(* a command with a known id and the length that id prescribes *)
Definition wf_cmd (c : list Z) : Prop :=
  exists cid, cmd_id c = Some cid /\
    (((cid = 1 \/ cid = 2) /\ Z.of_nat (length c) = cmd_len) \/
     (cid = 4 /\ exists sl, uint_le (slice 16 18 c) = Some sl /\ 0 <= sl /\
                            Z.of_nat (length c) = pt_head + sl * pt_entry)).

(* at most one command per subsystem (given the subsystems [subs] already seen) *)
Fixpoint fresh_subs (subs : list Z) (cmds : list (list Z)) : Prop :=
  match cmds with
  | [] => True
  | c :: cs => ~ In (csub c) subs /\ fresh_subs (subs ++ [csub c]) cs
  end.

Lemma zmem_In x l : zmem x l = true <-> In x l.
Proof.
  unfold zmem. rewrite existsb_exists. split.
  - intros (y & Hy & E). apply Z.eqb_eq in E. subst. exact Hy.
  - intros H. exists x. split; [exact H|apply Z.eqb_refl].
Qed.

Lemma wf_cmd_len c : wf_cmd c -> 26 <= Z.of_nat (length c).
Proof.
  intros (cid & _ & [[_ H]|(_ & sl & _ & Hs & H)]); consts; lia.
Qed.

Lemma firstn_app_exact {A} (c rest : list A) : firstn (length c) (c ++ rest) = c.
Proof. rewrite firstn_app, Nat.sub_diag, firstn_all. cbn. apply app_nil_r. Qed.

Lemma skipn_app_exact {A} (c rest : list A) : skipn (length c) (c ++ rest) = rest.
Proof. rewrite skipn_app, Nat.sub_diag, skipn_all. reflexivity. Qed.

Lemma split_complete cmds : forall fuel subs acc,
  Forall wf_cmd cmds -> fresh_subs subs cmds -> (length (concat cmds) <= fuel)%nat ->
  split fuel (concat cmds) subs acc = SOk (rev acc ++ cmds).
Proof.
  induction cmds as [|c cmds IH]; intros fuel subs acc Hwf Hfr Hfuel.
  - cbn. rewrite app_nil_r. destruct fuel; reflexivity.
  - inversion Hwf as [|? ? Hc Hwf']; subst. destruct Hfr as [Hnew Hfr'].
    pose proof (wf_cmd_len c Hc) as Hlen.
    cbn [concat] in *. rewrite app_length in Hfuel.
    destruct (c ++ concat cmds) as [|x l] eqn:Ecs.
    { apply app_eq_nil in Ecs. destruct Ecs as [-> _]. cbn in Hlen. lia. }
    rewrite <- Ecs. destruct fuel as [|fuel]; [lia|].
    assert (Hlen_cs : Z.of_nat (length (c ++ concat cmds)) = Z.of_nat (length c) + Z.of_nat (length (concat cmds)))
      by (rewrite app_length; lia).
    assert (Htake : forall k, k = Z.of_nat (length c) ->
              firstn (Z.to_nat k) (c ++ concat cmds) = c /\ skipn (Z.to_nat k) (c ++ concat cmds) = concat cmds).
    { intros k ->. rewrite Nat2Z.id. split; [apply firstn_app_exact|apply skipn_app_exact]. }
    assert (Hsub : uint_le (slice 2 4 c) = Some (csub c)).
    { apply uint_le_slice; lia. }
    assert (Hrec : split fuel (concat cmds) (subs ++ [csub c]) (c :: acc) = SOk (rev acc ++ c :: cmds)).
    { rewrite IH by (try assumption; lia). cbn [rev]. rewrite <- app_assoc. reflexivity. }
    assert (Hz : zmem (csub c) subs = false).
    { destruct (zmem (csub c) subs) eqn:E; [|reflexivity]. apply zmem_In in E. contradiction. }
    destruct Hc as (cid & Hid & Hkind). unfold cmd_id in Hid.
    rewrite Ecs. cbn [split]. rewrite <- Ecs.
    rewrite (firstn_app_l 2 c (concat cmds)) by lia. rewrite Hid.
    destruct Hkind as [[Hk Hl]|(Hk & sl & Hsl & Hsl0 & Hl)].
    + assert (E12 : (cid =? 1) || (cid =? 2) = true) by lia. rewrite E12.
      destruct (Z.ltb_spec (Z.of_nat (length (c ++ concat cmds))) cmd_len); [lia|].
      destruct (Htake cmd_len (eq_sym Hl)) as [-> ->]. rewrite Hsub, Hz. exact Hrec.
    + subst cid. cbn [Z.eqb orb].
      assert (H42 : (42 <= length c)%nat) by (consts; lia).
      replace (Z.to_nat pt_head) with 42%nat by reflexivity.
      rewrite (firstn_app_l 42 c (concat cmds)) by lia.
      assert (Es : slice 16 18 (firstn 42 c) = slice 16 18 c).
      { rewrite <- (firstn_skipn 42 c) at 2. rewrite slice_app_l; [reflexivity|].
        rewrite firstn_length. lia. }
      rewrite Es, Hsl.
      destruct (Z.ltb_spec (Z.of_nat (length (c ++ concat cmds))) (pt_head + sl * pt_entry)); [lia|].
      destruct (Htake (pt_head + sl * pt_entry) (eq_sym Hl)) as [-> ->]. rewrite Hsub, Hz. exact Hrec.
Qed.

Lemma split_sound fuel : forall cs subs acc out,
  nnl cs -> split fuel cs subs acc = SOk out ->
  exists cmds, out = rev acc ++ cmds /\ cs = concat cmds /\ Forall wf_cmd cmds /\ fresh_subs subs cmds.
Proof.
  induction fuel as [|fuel IH]; intros cs subs acc out Hnn H.
  - destruct cs; [|discriminate]. injection H as <-. exists []. rewrite app_nil_r. cbn. auto.
  - destruct cs as [|x l] eqn:Ecs.
    { injection H as <-. exists []. rewrite app_nil_r. cbn. auto. }
    rewrite <- Ecs in *. assert (Hne : cs <> []) by (rewrite Ecs; discriminate).
    assert (Hstep : forall k cid, cmd_id cs = Some cid -> Z.of_nat (length cs) >= k ->
       (forall c, c = firstn (Z.to_nat k) cs -> c <> [] -> Z.of_nat (length c) = k -> wf_cmd c) ->
       match uint_le (slice 2 4 (firstn (Z.to_nat k) cs)) with
       | None => SErr ESubField
       | Some sub => if zmem sub subs then SErr EDuplicate
                     else split fuel (skipn (Z.to_nat k) cs) (subs ++ [sub]) (firstn (Z.to_nat k) cs :: acc)
       end = SOk out ->
       exists cmds, out = rev acc ++ cmds /\ cs = concat cmds /\ Forall wf_cmd cmds /\ fresh_subs subs cmds).
    { intros k cid Hid Hk Hwf Hres.
      set (c := firstn (Z.to_nat k) cs) in *.
      destruct (uint_le (slice 2 4 c)) as [sub|] eqn:Esub; [|discriminate].
      assert (Hc_ne : c <> []).
      { intros E. rewrite E in Esub. discriminate. }
      assert (Hsub : sub = csub c).
      { assert (Hs : uint_le (slice 2 4 c) = Some (le_dec (slice 2 4 c))).
        { apply uint_le_some. intros E. rewrite E in Esub. discriminate. }
        unfold csub. congruence. }
      destruct (zmem sub subs) eqn:Ez; [discriminate|].
      apply IH in Hres; [|apply nnl_skipn, Hnn].
      destruct Hres as (cmds & E1 & E2 & E3 & E4).
      exists (c :: cmds). cbn [rev] in E1. rewrite <- app_assoc in E1. cbn [app] in E1.
      split; [|split; [|split]].
      - exact E1.
      - cbn [concat]. rewrite <- E2. unfold c. symmetry. apply firstn_skipn.
      - constructor; [|exact E3]. apply Hwf; [reflexivity|exact Hc_ne|].
        unfold c. rewrite firstn_length.
        assert (0 < k).
        { destruct (Z.ltb_spec 0 k); [assumption|]. exfalso. apply Hc_ne. unfold c.
          replace (Z.to_nat k) with 0%nat by lia. reflexivity. }
        lia.
      - cbn [fresh_subs]. subst sub. split; [|exact E4].
        intros Hin. apply zmem_In in Hin. congruence. }
    cbn [split] in H. rewrite Ecs in H. rewrite <- Ecs in H.
    destruct (uint_le (firstn 2 cs)) as [cid|] eqn:Eid; [|discriminate].
    destruct ((cid =? 1) || (cid =? 2)) eqn:E12.
    + destruct (Z.ltb_spec (Z.of_nat (length cs)) cmd_len); [discriminate|].
      apply (Hstep cmd_len cid); try assumption; try lia.
      intros c Ec Hcne Hl. exists cid. split.
      * unfold cmd_id. subst c. rewrite firstn_firstn. consts.
        replace (Init.Nat.min 2 (Z.to_nat 26)) with 2%nat by reflexivity. exact Eid.
      * left. split; [lia|exact Hl].
    + destruct (Z.eqb_spec cid 4) as [->|N4]; [|discriminate].
      destruct (uint_le (slice 16 18 (firstn (Z.to_nat pt_head) cs))) as [sl|] eqn:Esl; [|discriminate].
      destruct (Z.ltb_spec (Z.of_nat (length cs)) (pt_head + sl * pt_entry)); [discriminate|].
      assert (Hsl0 : 0 <= sl).
      { assert (Hs : uint_le (slice 16 18 (firstn (Z.to_nat pt_head) cs)) =
                     Some (le_dec (slice 16 18 (firstn (Z.to_nat pt_head) cs)))).
        { apply uint_le_some. intros E. rewrite E in Esl. discriminate. }
        rewrite Hs in Esl. assert (Hq : le_dec (slice 16 18 (firstn (Z.to_nat pt_head) cs)) = sl) by congruence.
        rewrite <- Hq. apply le_dec_nnl, nnl_slice, nnl_firstn, Hnn. }
      apply (Hstep (pt_head + sl * pt_entry) 4); try assumption; try lia.
      intros c Ec Hcne Hl. exists 4. consts.
      assert (H42 : (42 <= Z.to_nat (42 + sl * 20))%nat) by lia.
      split.
      * unfold cmd_id. subst c. rewrite firstn_firstn.
        replace (Init.Nat.min 2 (Z.to_nat (42 + sl * 20))) with 2%nat by lia. exact Eid.
      * right. split; [reflexivity|]. exists sl. split; [|split; [exact Hsl0|exact Hl]].
        rewrite <- Esl. f_equal. replace (Z.to_nat 42) with 42%nat by reflexivity.
        assert (E : firstn 42 cs = firstn 42 c).
        { subst c. rewrite firstn_firstn. f_equal. lia. }
        rewrite E. rewrite <- (firstn_skipn 42 c) at 1. rewrite slice_app_l; [reflexivity|].
        rewrite firstn_length. subst c. rewrite firstn_length. lia.
Qed.

(* ------------------------------------------------------------------ well-formed messages *)

(* The seven conditions of C14, read off the bytes m of one message; [prev] is the counter of the
   previous message (None before the first), [cmds] the commands the message carries. *)
Record wf_msg (prev : option Z) (m : list Z) (cmds : list (list Z)) : Prop := {
  wf_start : firstn 4 m = start_flag;                       (* start flag *)
  wf_minlen : 20 <= Z.of_nat (length m);                    (* header + end flag fit *)
  wf_length : decl m = Z.of_nat (length m);                 (* declared length = actual length *)
  wf_end : lastn 4 m = end_flag;                            (* end flag *)
  wf_count : int_le (slice 12 16 m) = Z.of_nat (length cmds);   (* command count matches *)
  wf_body : commands_string m = concat cmds;                (* the commands, back to back *)
  wf_cmds : Forall wf_cmd cmds;                             (* known ids, prescribed lengths *)
  wf_distinct : fresh_subs [] cmds;                         (* at most one per subsystem *)
  wf_methods : resolve cmds <> None;                        (* each addressed handler exists *)
  wf_counter : Some (mcnt m) <> prev                        (* counter differs from the previous *)
}.

Lemma parse_commands_sound m ds : nnl m -> parse_commands m = COk ds ->
  exists cmds, int_le (slice 12 16 m) = Z.of_nat (length cmds) /\ commands_string m = concat cmds /\
               Forall wf_cmd cmds /\ fresh_subs [] cmds /\ resolve cmds = Some ds.
Proof.
  intros Hnn H. unfold parse_commands in H.
  destruct (split (length (commands_string m)) (commands_string m) [] []) as [cmds|e|] eqn:Es;
    try discriminate.
  apply split_sound in Es; [|apply nnl_slice, Hnn].
  destruct Es as (cmds' & E1 & E2 & E3 & E4). cbn [rev app] in E1. subst cmds'.
  destruct (Z.eqb_spec (Z.of_nat (length cmds)) (int_le (slice 12 16 m))) as [Ec|Ec]; [|discriminate].
  destruct (resolve cmds) as [ds'|] eqn:Er; [|discriminate].
  injection H as <-. exists cmds. auto.
Qed.

Lemma parse_commands_complete m cmds ds :
  int_le (slice 12 16 m) = Z.of_nat (length cmds) -> commands_string m = concat cmds ->
  Forall wf_cmd cmds -> fresh_subs [] cmds -> resolve cmds = Some ds ->
  parse_commands m = COk ds.
Proof.
  intros Hc Hb Hw Hf Hr. unfold parse_commands. rewrite Hb.
  rewrite split_complete by (try assumption; lia). cbn [rev app].
  rewrite Hc, Z.eqb_refl, Hr. reflexivity.
Qed.

(* ---- completeness: a well-formed message arriving at an idle parser is executed *)

Lemma firstn_S_snoc (l : list Z) k : (k < length l)%nat -> firstn (S k) l = firstn k l ++ [nth k l 0].
Proof.
  revert l. induction k as [|k IH]; intros [|x l] H; cbn [length] in H; try lia.
  - reflexivity.
  - change (x :: firstn (S k) l = (x :: firstn k l) ++ [nth k l 0]).
    rewrite IH by lia. reflexivity.
Qed.

Lemma slice_firstn a b k (l : list Z) : (b <= k)%nat -> slice a b (firstn k l) = slice a b l.
Proof.
  intros H. destruct (Nat.le_gt_cases k (length l)) as [Hk|Hk].
  - rewrite <- (firstn_skipn k l) at 2. rewrite slice_app_l; [reflexivity|].
    rewrite firstn_length. lia.
  - rewrite firstn_all2 by lia. reflexivity.
Qed.

Section Completeness.
  Variables (st : fstate) (m : list Z) (cmds : list (list Z)) (ds : list dispatch).
  Hypothesis Hidle : fidle st.
  Hypothesis Hwf : wf_msg (f_cnt st) m cmds.
  Hypothesis Hres : resolve cmds = Some ds.

  Definition stk (k : nat) : fstate :=
    mkF (firstn k m)
        (if 8 <=? Z.of_nat k then decl m else f_len st)
        (if 12 <=? Z.of_nat k then Some (mcnt m) else f_cnt st)
        (if 16 <=? Z.of_nat k then int_le (slice 12 16 m) else f_num st).

  Lemma stk_0 : stk 0 = st.
  Proof. unfold stk. cbn. destruct st as [a b c d]. unfold fidle in Hidle. cbn in *. subst a. reflexivity. Qed.

  Lemma stk_buf k : (k < length m)%nat -> f_msg (stk k) ++ [nth k m 0] = firstn (S k) m.
  Proof. intros H. cbn [stk f_msg]. symmetry. apply firstn_S_snoc, H. Qed.

  Lemma stk_step k : (S k < length m)%nat ->
    parse (stk k) (nth k m 0) = (stk (S k), OTrue, None).
  Proof.
    intros Hk. destruct Hwf as [W1 W2 W3 W4 W5 W6 W7 W8 W9 W10].
    pose proof (stk_buf k ltac:(lia)) as Hb.
    assert (Hlen : Z.of_nat (length (firstn (S k) m)) = Z.of_nat k + 1) by (rewrite firstn_length; lia).
    destruct (parse_cases (stk k) (nth k m 0)) as [H|[H|[H|[H|[H|[H|[H|[H|H]]]]]]]]; cbv zeta in H;
      rewrite Hb in H; rewrite ?Hlen in H;
      repeat match type of H with _ /\ _ => destruct H as [? H] end; rewrite H; clear H.
    - exfalso. match goal with X : _ <> _ |- _ => apply X end.
      rewrite firstn_length. replace (Init.Nat.min (S k) (length m)) with (S k) by lia.
      rewrite <- W1. rewrite firstn_firstn. f_equal. lia.
    - unfold keep, stk. cbn [f_len f_cnt f_num]. f_equal. f_equal.
      repeat match goal with |- context [?a <=? ?b] => destruct (Z.leb_spec a b); try lia end; reflexivity.
    - unfold keep, stk. cbn [f_len f_cnt f_num]. f_equal. f_equal.
      repeat match goal with |- context [?a <=? ?b] => destruct (Z.leb_spec a b); try lia end; reflexivity.
    - exfalso. rewrite lastn4_decl in * by (rewrite firstn_length; lia).
      rewrite slice_firstn in * by lia. fold (decl m) in *. consts. lia.
    - rewrite lastn4_decl by (rewrite firstn_length; lia). rewrite slice_firstn by lia. fold (decl m).
      unfold stk. cbn [f_len f_cnt f_num]. f_equal. f_equal.
      repeat match goal with |- context [?a <=? ?b] => destruct (Z.leb_spec a b); try lia end; reflexivity.
    - exfalso. rewrite lastn4_mcnt in * by (rewrite firstn_length; lia).
      rewrite slice_firstn in * by lia. fold (mcnt m) in *.
      unfold stk in *. cbn [f_cnt] in *.
      destruct (Z.leb_spec 12 (Z.of_nat k)); [lia|]. congruence.
    - rewrite lastn4_mcnt by (rewrite firstn_length; lia). rewrite slice_firstn by lia. fold (mcnt m).
      unfold stk. cbn [f_len f_cnt f_num]. f_equal. f_equal.
      repeat match goal with |- context [?a <=? ?b] => destruct (Z.leb_spec a b); try lia end; reflexivity.
    - rewrite lastn4_num by (rewrite firstn_length; lia). rewrite slice_firstn by lia.
      unfold stk. cbn [f_len f_cnt f_num]. f_equal. f_equal.
      repeat match goal with |- context [?a <=? ?b] => destruct (Z.leb_spec a b); try lia end; reflexivity.
    - exfalso. unfold stk in *. cbn [f_len] in *.
      destruct (Z.leb_spec 8 (Z.of_nat k)); lia.
  Qed.

  Lemma prefix_run k : (k < length m)%nat ->
    frun st (firstn k m) = (stk k, repeat (OTrue, None) k).
  Proof.
    induction k as [|k IH]; intros Hk.
    - cbn. rewrite stk_0. reflexivity.
    - rewrite firstn_S_snoc by lia. rewrite frun_app. rewrite IH by lia. cbn [fst snd frun].
      rewrite stk_step by lia. cbn [fst snd].
      f_equal. rewrite <- repeat_cons. reflexivity.
  Qed.

  Lemma last_step : forall k, S k = length m ->
    parse (stk k) (nth k m 0) = (mkF [] 0 (Some (mcnt m)) 0, OTrue, Some ds).
  Proof.
    intros k Hk. destruct Hwf as [W1 W2 W3 W4 W5 W6 W7 W8 W9 W10].
    pose proof (stk_buf k ltac:(lia)) as Hb.
    assert (Hm : firstn (S k) m = m) by (apply firstn_all2; lia).
    rewrite Hm in Hb.
    destruct (parse_cases (stk k) (nth k m 0)) as [H|[H|[H|[H|[H|[H|[H|[H|H]]]]]]]]; cbv zeta in H;
      rewrite Hb in H;
      repeat match type of H with _ /\ _ => destruct H as [? H] end; try lia.
    - exfalso. unfold stk in *. cbn [f_len] in *. destruct (Z.leb_spec 8 (Z.of_nat k)); [|lia].
      match goal with X : ~ _ |- _ => apply X end. lia.
    - rewrite H. unfold completion. rewrite W4.
      assert (Ef : zlist_eqb end_flag end_flag = true) by (apply zlist_eqb_eq; reflexivity).
      rewrite Ef. rewrite (parse_commands_complete m cmds ds) by assumption.
      cbn [fst snd]. unfold set_default, stk. cbn [f_cnt].
      destruct (Z.leb_spec 12 (Z.of_nat k)); [reflexivity|lia].
  Qed.

  (* every byte answers True, nothing is started before the last byte, the last byte starts
     exactly the commands of the message (in order), and the parser is idle again *)
  Theorem wf_executed :
    frun st m = (mkF [] 0 (Some (mcnt m)) 0,
                 repeat (OTrue, None) (length m - 1) ++ [(OTrue, Some ds)]).
  Proof.
    pose proof (wf_minlen _ _ _ Hwf) as Hlen.
    destruct (length m) as [|k] eqn:El; [lia|].
    assert (Hsplit : m = firstn k m ++ [nth k m 0]).
    { rewrite <- firstn_S_snoc by lia. symmetry. apply firstn_all2. lia. }
    rewrite Hsplit at 1. rewrite frun_app. rewrite prefix_run by lia. cbn [fst snd frun].
    rewrite last_step by lia. cbn [fst snd]. replace (S k - 1)%nat with k by lia. reflexivity.
  Qed.
End Completeness.

(* ---- soundness: only well-formed messages are executed (every byte history) *)

(* ghost: [prev] = the message counter the parser remembered when it was last idle *)
Record ginv (prev : option Z) (st : fstate) : Prop := {
  g_inv : finv st;
  g_nn : nnl (f_msg st);
  g_before : blen st < 12 -> f_cnt st = prev;
  g_after : 12 <= blen st -> Some (mcnt (f_msg st)) <> prev
}.

Definition gnext (prev : option Z) (st' : fstate) : option Z :=
  if fidleb st' then f_cnt st' else prev.

Lemma ginv_idle st : f_msg st = [] -> ginv (f_cnt st) st.
Proof.
  intros E. split; [apply finv_idle, E|rewrite E; constructor| |]; unfold blen; rewrite E; cbn; try lia.
  reflexivity.
Qed.

Lemma ginv_step prev st b : ginv prev st -> 0 <= b ->
  ginv (gnext prev (fst (fst (parse st b)))) (fst (fst (parse st b))).
Proof.
  intros [Hinv Hnn Hb Ha] Hb0.
  pose proof (finv_step st b Hinv) as Hinv'.
  pose proof (len_snoc (f_msg st) b) as Hn.
  assert (Hnn' : nnl (f_msg st ++ [b])).
  { apply nnl_app. split; [exact Hnn|]. constructor; [exact Hb0|constructor]. }
  assert (Hidle : forall st', f_msg st' = [] -> ginv (gnext prev st') st').
  { intros st' E. unfold gnext, fidleb. rewrite E. apply ginv_idle, E. }
  unfold blen in *.
  destruct (parse_cases st b) as [H|[H|[H|[H|[H|[H|[H|[H|H]]]]]]]]; cbv zeta in H;
    repeat match type of H with _ /\ _ => destruct H as [? H] end; rewrite H in *; cbn [fst] in *;
    try (apply Hidle; reflexivity);
    (assert (Eg : forall l c n0, gnext prev (mkF (f_msg st ++ [b]) l c n0) = prev);
     [intros; unfold gnext, fidleb; cbn [f_msg]; destruct (f_msg st ++ [b]) eqn:E;
        [exfalso; exact (snoc_nonempty _ _ E)|reflexivity]|]).
  - unfold keep. rewrite Eg. split; try assumption; unfold blen; cbn [keep f_msg f_cnt]; intros; try lia.
    apply Hb. lia.
  - unfold keep. rewrite Eg. split; try assumption; unfold blen; cbn [keep f_msg f_cnt]; intros.
    + apply Hb. lia.
    + unfold mcnt. rewrite slice_app_l by lia. apply Ha. lia.
  - rewrite Eg. split; try assumption; unfold blen; cbn [f_msg f_cnt]; intros; try lia.
    apply Hb. lia.
  - rewrite Eg. split; try assumption; unfold blen; cbn [f_msg f_cnt]; intros; try lia.
    rewrite lastn4_mcnt in * by lia. fold (mcnt (f_msg st ++ [b])) in *.
    rewrite <- Hb by lia. assumption.
  - rewrite Eg. split; try assumption; unfold blen; cbn [f_msg f_cnt]; intros; try lia.
    unfold mcnt. rewrite slice_app_l by lia. apply Ha. lia.
Qed.

Fixpoint grun (prev : option Z) (st : fstate) (bs : list Z) : option Z * fstate :=
  match bs with
  | [] => (prev, st)
  | b :: bs' => let st' := fst (fst (parse st b)) in grun (gnext prev st') st' bs'
  end.

Lemma grun_state prev st bs : snd (grun prev st bs) = fstate_of st bs.
Proof.
  revert prev st. induction bs as [|b bs IH]; intros prev st; [reflexivity|].
  cbn [grun]. rewrite IH, fstate_of_cons. reflexivity.
Qed.

Lemma ginv_run prev st bs : ginv prev st -> nnl bs ->
  ginv (fst (grun prev st bs)) (snd (grun prev st bs)).
Proof.
  revert prev st. induction bs as [|b bs IH]; intros prev st H Hnn; [exact H|].
  inversion Hnn; subst. cbn [grun]. apply IH; [|assumption]. apply ginv_step; assumption.
Qed.

(* one step from a state satisfying the ghost invariant: what is executed is well-formed *)
Theorem executed_wf_step prev st b ds : ginv prev st -> 0 <= b ->
  snd (parse st b) = Some ds ->
  exists cmds, wf_msg prev (f_msg st ++ [b]) cmds /\ resolve cmds = Some ds.
Proof.
  intros [Hinv Hnn Hb Ha] Hb0 Hd.
  pose proof (len_snoc (f_msg st) b) as Hn.
  assert (Hnn' : nnl (f_msg st ++ [b])).
  { apply nnl_app. split; [exact Hnn|]. constructor; [exact Hb0|constructor]. }
  unfold blen in *.
  destruct (parse_cases st b) as [H|[H|[H|[H|[H|[H|[H|[H|H]]]]]]]]; cbv zeta in H;
    repeat match type of H with _ /\ _ => destruct H as [? H] end; rewrite H in Hd; cbn [snd] in Hd;
    try discriminate.
  set (m := f_msg st ++ [b]) in *.
  unfold completion in Hd.
  destruct (zlist_eqb (lastn 4 m) end_flag) eqn:Ee; [|discriminate].
  apply zlist_eqb_eq in Ee.
  destruct (parse_commands m) as [ds'| |] eqn:Ep; try discriminate. cbn [snd] in Hd.
  injection Hd as ->.
  destruct (parse_commands_sound m ds Hnn' Ep) as (cmds & C1 & C2 & C3 & C4 & C5).
  destruct (inv_len st Hinv) as (L1 & L2 & L3); [unfold blen; lia|].
  exists cmds. split; [|exact C5]. split; try assumption.
  - unfold m. rewrite firstn_app_l by lia. rewrite (inv_flag st Hinv).
    apply firstn_all2. change (length start_flag) with 4%nat. lia.
  - consts. lia.
  - unfold decl, m. rewrite slice_app_l by lia. fold (decl (f_msg st)). fold m. lia.
  - rewrite C5. discriminate.
  - unfold mcnt, m. rewrite slice_app_l by lia. apply Ha. lia.
Qed.

(* every byte history: whenever commands are started, the bytes buffered since the parser was
   last idle form a well-formed message (w.r.t. the counter remembered at that time) *)
Theorem executed_wf bs b ds : nnl bs -> 0 <= b ->
  let prev := fst (grun None f_init bs) in
  let st := fstate_of f_init bs in
  snd (parse st b) = Some ds ->
  exists cmds, wf_msg prev (f_msg st ++ [b]) cmds /\ resolve cmds = Some ds.
Proof.
  intros Hnn Hb0. cbv zeta. rewrite <- (grun_state None f_init bs).
  apply executed_wf_step; [|exact Hb0].
  apply ginv_run; [|exact Hnn]. apply (ginv_idle f_init). reflexivity.
Qed.

(* the ghost is what it claims to be: the buffer holds exactly the bytes received since the
   parser was last idle, and [prev] is the counter it remembered then *)
Theorem grun_meaning bs : exists pre,
  bs = pre ++ f_msg (fstate_of f_init bs) /\
  fidle (fstate_of f_init pre) /\
  fst (grun None f_init bs) = f_cnt (fstate_of f_init pre).
Proof.
  assert (G : forall bs hist prev st,
             (exists pre, hist = pre ++ f_msg st /\ fidle (fstate_of f_init pre) /\
                          prev = f_cnt (fstate_of f_init pre)) ->
             st = fstate_of f_init hist ->
             exists pre, hist ++ bs = pre ++ f_msg (snd (grun prev st bs)) /\
                         fidle (fstate_of f_init pre) /\
                         fst (grun prev st bs) = f_cnt (fstate_of f_init pre)).
  { induction bs0 as [|b bs0 IH]; intros hist prev st (pre & E1 & E2 & E3) Est.
    - exists pre. rewrite app_nil_r. cbn. auto.
    - cbn [grun]. replace (hist ++ b :: bs0) with ((hist ++ [b]) ++ bs0) by (rewrite <- app_assoc; reflexivity).
      apply IH.
      + destruct (parse_buffer st b) as [Hb|Hb].
        * exists (hist ++ [b]). rewrite Hb, app_nil_r.
          assert (Es : fstate_of f_init (hist ++ [b]) = fst (fst (parse st b))).
          { rewrite fstate_of_app, <- Est. rewrite fstate_of_cons. reflexivity. }
          rewrite Es. unfold gnext, fidleb, fidle. rewrite Hb. auto.
        * exists pre. rewrite Hb. unfold gnext, fidleb. rewrite Hb.
          destruct (f_msg st ++ [b]) eqn:E; [exfalso; exact (snoc_nonempty _ _ E)|]. rewrite <- E.
          rewrite E1, <- app_assoc. auto.
      + rewrite fstate_of_app, <- Est. rewrite fstate_of_cons. reflexivity. }
  destruct (G bs [] None f_init) as (pre & E1 & E2 & E3).
  - exists []. repeat split; reflexivity.
  - reflexivity.
  - exists pre. rewrite <- (grun_state None f_init bs). auto.
Qed.
