(* Backend tables: the generated tables (Gen/BckTables.v, rewritten from the source on every run) equal the
   Golden tables, and the tables / constants the model is written with are the generated ones.  Kept apart from
   Proofs/BckProofs.v so that only this small file is rebuilt when the source changes. *)
From DS Require Import Base.Prelude Model.BckModel Model.BckGolden.
From DS Require Gen.BckTables.
From Coq Require Import String.

(* ------------------------------------------------------------------------------------------ *)
(* generated tables = Golden; the model's own tables = generated tables *)

Lemma tables_pinned :
  BckTables.type_re = BckGolden.type_re /\ BckTables.name_re = BckGolden.name_re /\
  BckTables.code_re = BckGolden.code_re /\ BckTables.arguments_re = BckGolden.arguments_re /\
  BckTables.linefeed_re = BckGolden.linefeed_re /\ BckTables.request_re = BckGolden.request_re /\
  BckTables.reply_re = BckGolden.reply_re /\
  BckTables.k_REQUEST = BckGolden.k_REQUEST /\ BckTables.k_REPLY = BckGolden.k_REPLY /\
  BckTables.k_TAIL = BckGolden.k_TAIL /\ BckTables.k_SEPARATOR = BckGolden.k_SEPARATOR /\
  BckTables.k_OK = BckGolden.k_OK /\ BckTables.k_FAIL = BckGolden.k_FAIL /\
  BckTables.k_INVALID = BckGolden.k_INVALID /\
  BckTables.commands_generic = BckGolden.commands_generic /\
  BckTables.commands_sardara = BckGolden.commands_sardara /\
  BckTables.commands_mistral = BckGolden.commands_mistral /\
  BckTables.protocol_version = BckGolden.protocol_version /\
  BckTables.setup_time = BckGolden.setup_time /\ BckTables.sweep_time = BckGolden.sweep_time /\
  BckTables.acs_to_unix_time = BckGolden.acs_to_unix_time /\
  BckTables.valid_conf_generic = BckGolden.valid_conf_generic /\
  BckTables.valid_conf_sardara = BckGolden.valid_conf_sardara /\
  BckTables.valid_conf_mistral = BckGolden.valid_conf_mistral /\
  (BckTables.max_sections_generic, BckTables.max_sections_sardara, BckTables.max_sections_mistral)
    = (BckGolden.max_sections_generic, BckGolden.max_sections_sardara, BckGolden.max_sections_mistral) /\
  (BckTables.max_bandwidth_generic, BckTables.max_bandwidth_sardara, BckTables.max_bandwidth_mistral)
    = (BckGolden.max_bandwidth_generic, BckGolden.max_bandwidth_sardara, BckGolden.max_bandwidth_mistral) /\
  (BckTables.initial_configuration_generic, BckTables.initial_configuration_sardara,
   BckTables.initial_configuration_mistral, BckTables.initial_filename_generic,
   BckTables.initial_filename_sardara, BckTables.initial_filename_mistral)
    = (BckGolden.initial_configuration_generic, BckGolden.initial_configuration_sardara,
       BckGolden.initial_configuration_mistral, BckGolden.initial_filename_generic,
       BckGolden.initial_filename_sardara, BckGolden.initial_filename_mistral) /\
  (BckTables.initial_integration_generic, BckTables.initial_integration_sardara,
   BckTables.initial_integration_mistral)
    = (BckGolden.initial_integration_generic, BckGolden.initial_integration_sardara,
       BckGolden.initial_integration_mistral) /\
  (BckTables.status_string_generic, BckTables.status_string_sardara, BckTables.status_string_mistral)
    = (BckGolden.status_string_generic, BckGolden.status_string_sardara, BckGolden.status_string_mistral) /\
  BckTables.servers = BckGolden.servers /\
  BckTables.timer_creation_sites = BckGolden.timer_creation_sites /\
  BckTables.timer_cancel_sites = BckGolden.timer_cancel_sites /\
  BckTables.timer_join_sites = BckGolden.timer_join_sites.
Proof. repeat split; vm_compute; reflexivity. Qed.

Definition named (t : list (list Z * cmd)) : list (list Z * list Z) :=
  map (fun p => (fst p, handler_name (snd p))) t.

(* the dispatch tables, constants and literals the model is written with are those of the source *)
Lemma model_tables :
  named BckModel.commands_generic = BckTables.commands_generic /\
  named BckModel.commands_generic = BckTables.commands_sardara /\
  named BckModel.commands_mistral = BckTables.commands_mistral /\
  BckModel.protocol_version = BckTables.protocol_version /\
  BckModel.setup_time_s = BckTables.setup_time /\ BckModel.sweep_time_s = BckTables.sweep_time /\
  BckModel.max_sections = BckTables.max_sections_generic /\
  BckModel.max_bandwidth = BckTables.max_bandwidth_generic /\
  BckModel.unconfigured = BckTables.initial_configuration_generic /\
  [33] = BckTables.k_REPLY /\ [63] = BckTables.k_REQUEST /\ [13; 10] = BckTables.k_TAIL /\
  [44] = BckTables.k_SEPARATOR /\
  c_ok = BckTables.k_OK /\ c_fail = BckTables.k_FAIL /\ c_invalid = BckTables.k_INVALID /\
  codes = [BckTables.k_OK; BckTables.k_FAIL; BckTables.k_INVALID].
Proof. repeat split; vm_compute; reflexivity. Qed.


Lemma golden_selected :
  BckTables.commands_generic = BckGolden.commands_generic /\
  BckTables.commands_mistral = BckGolden.commands_mistral /\
  BckTables.timer_creation_sites = BckGolden.timer_creation_sites /\
  BckTables.timer_cancel_sites = BckGolden.timer_cancel_sites.
Proof. repeat split; vm_compute; reflexivity. Qed.
