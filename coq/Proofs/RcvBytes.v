(* Byte-ness invariant of the receiver boards: every register that can appear in an answer is a code
   point 0..255, stored port/data strings are at most 252 bytes, hence every answer is made of bytes
   and its length field fits one byte (C04, "transmittable as single bytes"). *)
From DS Require Import Base.Prelude Gen.RcvTables Model.RcvModel Proofs.RcvAssoc Proofs.RcvProofs Proofs.RcvBoards Proofs.RcvFraming.

#[local] Arguments mem : simpl never.

Definition val_ok (v : list Z) : Prop := bytes v /\ zlen v <= 252.
Definition common_ok (c : common) : Prop :=
  byte (c_addr c) /\ byte (c_frame c) /\ byte (c_cmd c) /\ byte (c_cid c) /\ byte (c_ans c) /\
  Forall (fun kv => val_ok (snd kv)) (c_ports c).
Definition dio_ok (d : dio_st) : Prop :=
  byte (d_lo d) /\ byte (d_vs d) /\ byte (d_vp d) /\ byte (d_vpf d) /\ byte (d_vv d) /\ byte (d_ch d) /\
  byte (d_cal d) /\ byte (d_sd d) /\ byte (d_vlbi d) /\ byte (d_remote d) /\ byte (d_is_sd d) /\ byte (d_is_vlbi d).
Definition sw_ok (w : sw_st) : Prop :=
  byte (w_out1 w) /\ byte (w_out2 w) /\ byte (w_a w) /\ byte (w_b w) /\ byte (w_c w) /\ byte (w_d w).
Definition kind_ok (k : kind) : Prop :=
  match k with
  | KSlave => True
  | KDewar d => dio_ok d
  | KSwitch d w => dio_ok d /\ sw_ok w
  | KLna _ => True
  end.
Definition board_ok (b : board) : Prop := common_ok (b_com b) /\ kind_ok (b_kind b).
(* what is assumed of Slave._datetime_to_time: when it returns, it returns code points < 256, at
   most 252 of them (it returns eight) *)
Definition render_ok (render : Z -> option (list Z)) : Prop := forall z r, render z = Some r -> val_ok r.

Ltac bt := first [ unfold byte; split; [apply Z.leb_le|apply Z.ltb_lt]; vm_compute; reflexivity
                 | apply Z.leb_le; vm_compute; reflexivity | apply Z.ltb_lt; vm_compute; reflexivity ].

Lemma b0 : byte 0. Proof. bt. Qed.
Lemma b1 : byte 1. Proof. bt. Qed.
Lemma b2 : byte 2. Proof. bt. Qed.
Lemma code_byte k ext : byte (code_of k ext).
Proof. destruct k, ext; bt. Qed.
Lemma consts_byte : byte CMD_ACK /\ byte CMD_ERR_CMD /\ byte CMD_ERR_CHKS /\ byte CMD_ERR_FORM /\ byte CMD_ERR_DATA /\
  byte CMD_ERR_FRAME_SIZE /\ byte CMD_STX /\ byte CMD_EOT.
Proof. repeat split; bt. Qed.

Lemma check_key_byte dt pt pn e : check_key dt pt pn = Some e -> byte e.
Proof.
  unfold check_key. destruct (negb _); [intros H; injection H as <-; bt|].
  destruct (negb _); [intros H; injection H as <-; bt|].
  destruct (negb _); [intros H; injection H as <-; bt|discriminate].
Qed.

Section GenAssoc.
  Context {K V : Type} (keq : K -> K -> bool) (P : V -> Prop).
  Lemma forall_snd_aset l k v :
    Forall (fun kv : K * V => P (snd kv)) l -> P v -> Forall (fun kv : K * V => P (snd kv)) (aset keq l k v).
  Proof.
    intros Hl Hv. induction l as [|[k' v'] r IH]; cbn.
    - constructor; [assumption|constructor].
    - inversion Hl; subst. destruct (keq k k'); constructor; auto.
  Qed.
  Lemma forall_snd_aget l k v :
    Forall (fun kv : K * V => P (snd kv)) l -> aget keq l k = Some v -> P v.
  Proof.
    intros Hl. induction l as [|[k' v'] r IH]; cbn; [discriminate|].
    inversion Hl; subst. destruct (keq k k'); [intros H; injection H as <-; assumption|auto].
  Qed.
End GenAssoc.

Lemma val_ok_0 : val_ok [0].
Proof. split; [constructor; [bt|constructor]|unfold zlen; cbn; lia]. Qed.

Lemma ports_get_ok c k : common_ok c -> val_ok (ports_get c k).
Proof.
  intros (_ & _ & _ & _ & _ & Hp). unfold ports_get.
  destruct (aget key_eqb (c_ports c) k) eqn:E; [|apply val_ok_0].
  eapply forall_snd_aget in E; eauto.
Qed.

Lemma set_last_ok c code cid ans now : common_ok c -> byte code -> byte cid -> byte ans ->
  common_ok (set_last c code cid ans now).
Proof. unfold common_ok, set_last. cbn. tauto. Qed.

Lemma store_ok c dt pt pn v : common_ok c -> val_ok v -> common_ok (store c dt pt pn v).
Proof.
  intros (H1 & H2 & H3 & H4 & H5 & H6) Hv. unfold common_ok, store, set_ports. cbn.
  repeat (split; [assumption|]). apply forall_snd_aset; assumption.
Qed.

Lemma zeros_bytes n : bytes (zeros n).
Proof. unfold zeros. apply Forall_forall. intros x Hx. apply repeat_spec in Hx. subst. bt. Qed.

Lemma with_data_bytes d : bytes d -> zlen d <= 255 -> bytes (with_data d).
Proof. intros Hd Hl. constructor; [|assumption]. pose proof (zlen_nonneg d). unfold byte. lia. Qed.

Lemma dewar_get_byte d pn : dio_ok d -> byte (dewar_get d pn).
Proof.
  intros (H1 & H2 & H3 & H4 & H5 & H6 & H7 & H8 & H9 & H10 & H11 & H12). unfold dewar_get.
  repeat match goal with |- byte (if ?c then _ else _) => destruct c end; try assumption; bt.
Qed.

Lemma sw_pos_byte o s : byte (sw_pos o s).
Proof. unfold sw_pos. repeat match goal with |- byte (if ?c then _ else _) => destruct c end; bt. Qed.

Lemma switch_get_byte d w pn : dio_ok d -> sw_ok w -> byte (switch_get d w pn).
Proof.
  intros (H1 & H2 & H3 & H4 & H5 & H6 & H7 & H8 & H9 & H10 & H11 & H12) (W1 & W2 & W3 & W4 & W5 & W6).
  unfold switch_get.
  repeat match goal with |- byte (if ?c then _ else _) => destruct c end; try assumption; try apply sw_pos_byte; bt.
Qed.

Lemma dio_set_shared_ok d pn v d' : dio_ok d -> byte v -> dio_set_shared d pn v = Some d' -> dio_ok d'.
Proof.
  intros (H1 & H2 & H3 & H4 & H5 & H6 & H7 & H8 & H9 & H10 & H11 & H12) Hv. unfold dio_set_shared.
  repeat match goal with |- (if ?c then _ else _) = _ -> _ => destruct c end;
    try discriminate; intros H; injection H as <-;
    unfold dio_ok, dio_with_vs, dio_with_vp, dio_with_vv, dio_with_ch, dio_with_cal, dio_with_sd, dio_with_vlbi;
    cbn [d_lo d_vs d_vp d_vpf d_vv d_ch d_cal d_sd d_vlbi d_remote d_is_sd d_is_vlbi];
    unfold byte in *; repeat split; try lia; destruct (v =? 0); lia.
Qed.

Lemma dewar_set_ok d pn v : dio_ok d -> byte v -> dio_ok (dewar_set d pn v).
Proof.
  intros Hd Hv. unfold dewar_set. destruct (pn =? PORT_NUMBER_00).
  - unfold dio_ok, dio_with_lo in *. cbn. tauto.
  - destruct (dio_set_shared d pn v) eqn:E; [eapply dio_set_shared_ok; eauto|assumption].
Qed.

Lemma switch_set_ok d w pn v d' w' : dio_ok d -> sw_ok w -> byte v -> switch_set d w pn v = (d', w') ->
  dio_ok d' /\ sw_ok w'.
Proof.
  intros Hd Hw Hv. pose proof Hw as (W1 & W2 & W3 & W4 & W5 & W6). unfold switch_set.
  destruct (pn =? PORT_NUMBER_00).
  { intros H; injection H as <- <-. split; [|assumption]. unfold dio_ok, dio_with_lo in *. cbn. tauto. }
  destruct (pn =? PORT_NUMBER_01).
  { intros H; injection H as <- <-. split; [assumption|].
    unfold sw_ok, byte in *. destruct (v =? 1); [destruct (d_lo d =? 1)|]; cbn; lia. }
  destruct (pn =? PORT_NUMBER_02).
  { intros H; injection H as <- <-. split; [assumption|]. unfold sw_ok in *. cbn. tauto. }
  destruct (dio_set_shared d pn v) eqn:E; intros H; injection H as <- <-; split; try assumption.
  eapply (dio_set_shared_ok d pn v); eauto.
Qed.

Lemma dio_value_byte v x : dio_value v = Some x -> byte x.
Proof.
  unfold dio_value. destruct v as [|y [|? ?]]; try discriminate.
  destruct ((y =? 0) || (y =? 1)) eqn:E; [|discriminate]. intros H; injection H as <-.
  apply orb_true_iff in E as [E|E]; apply Z.eqb_eq in E; subst; bt.
Qed.

Lemma firstn_In_local {A} (x : A) : forall n l, In x (firstn n l) -> In x l.
Proof.
  induction n as [|n IH]; intros [|y l]; cbn; try tauto. intros [H|H]; [auto|right; apply IH; assumption].
Qed.

Lemma get_extra_bytes ans p data : bytes p -> val_ok data -> bytes (get_extra ans p data).
Proof.
  intros Hp [Hd Hl]. unfold get_extra. destruct (ans =? CMD_ACK); [|constructor].
  apply with_data_bytes.
  - apply Forall_app. split; [|assumption]. apply Forall_forall. intros x Hx. apply firstn_In_local in Hx.
    unfold bytes in Hp. rewrite Forall_forall in Hp. auto.
  - rewrite zlen_app. assert (zlen (firstn 3 p) <= 3); [|lia]. unfold zlen. pose proof (firstn_le_length 3 p). lia.
Qed.

Lemma val_ok_nil : val_ok [].
Proof. split; [constructor|unfold zlen; cbn; lia]. Qed.

Lemma val_ok_one v : byte v -> val_ok [v].
Proof. intros H. split; [constructor; [assumption|constructor]|unfold zlen; cbn; lia]. Qed.

Lemma val_ok_zeros32 : val_ok (zeros 32).
Proof. split; [apply zeros_bytes|unfold zlen; cbn; lia]. Qed.

Lemma lna_f32_ok l : val_ok (lna_f32 l).
Proof.
  assert (H : forall i, lna_chunk l i = zeros 8).
  { intros i. unfold lna_chunk. destruct (_ && _); reflexivity. }
  unfold lna_f32. rewrite !H. split; [|unfold zlen; cbn; lia].
  repeat (apply Forall_app; split); apply zeros_bytes.
Qed.

Section E.
  Variable clk : nat -> Z.
  Variable mkdate : list Z -> option Z.
  Variable render : Z -> option (list Z).
  Hypothesis Hrender : render_ok render.
  Notation exec := (exec clk mkdate render).

  Definition res_ok (r : eres) : Prop :=
    board_ok (e_board r) /\ forall code ex, e_ans r = Some (code, ex) -> bytes (code :: ex).

  Lemma fin_ok c kd t k ext cid ans extra :
    common_ok c -> kind_ok kd -> byte cid -> byte ans -> bytes extra ->
    res_ok (fin clk c kd t k ext cid ans extra).
  Proof.
    intros Hc Hk Hcid Hans Hex. unfold res_ok, fin. cbn [e_board e_ans]. split.
    - split; [|exact Hk]. cbn [b_com]. apply set_last_ok; auto using code_byte.
    - intros code ex H. injection H as <- <-. constructor; assumption.
  Qed.

  Lemma common_ok_set_addr c a : common_ok c -> byte a -> common_ok (set_addr c a).
  Proof. unfold common_ok, set_addr. cbn. tauto. Qed.
  Lemma common_ok_set_frame c a : common_ok c -> byte a -> common_ok (set_frame c a).
  Proof. unfold common_ok, set_frame. cbn. tauto. Qed.
  Lemma common_ok_set_offset c o : common_ok c -> common_ok (set_offset c o).
  Proof. unfold common_ok, set_offset. cbn. tauto. Qed.
  Lemma common_ok_reset c : common_ok c -> common_ok (reset_last c).
  Proof. unfold common_ok, reset_last. cbn. intros (H1 & H2 & _ & _ & _ & H6). repeat (split; [assumption || apply b0|]). assumption. Qed.

  Ltac unf' := unfold RcvModel.exec, gen_get, get_data, set_data.
  Ltac go' := repeat (progress (unf'; cbn [b_com b_kind]; brk)).
  Ltac inv_bytes :=
    repeat match goal with
    | H : bytes (_ :: _) |- _ => inversion H; subst; clear H
    | H : Forall byte (_ :: _) |- _ => inversion H; subst; clear H
    end.

  Lemma tail3 (a b c : Z) (v : list Z) : zlen (a :: b :: c :: v) <= 255 -> zlen v <= 252.
  Proof. rewrite !zlen_cons. lia. Qed.

  Lemma exec_ok keys b t k ext cid p :
    board_ok b -> bytes p -> zlen p <= 255 -> byte cid -> res_ok (exec keys b t k ext cid p).
  Proof.
    destruct b as [c kd]. intros [Hc Hk] Hp Hl Hcid. cbn [b_com b_kind] in Hc, Hk.
    pose proof consts_byte as (A1 & A2 & A3 & A4 & A5 & A6 & _).
    assert (Hv := tail3).
    destruct k.
    - (* inquiry *)
      unfold RcvModel.exec. cbn [b_com b_kind]. pose proof Hc as Hc0. destruct Hc as (H1 & H2 & H3 & H4 & H5 & H6).
      assert (Hhead : forall r, val_ok r -> bytes (CMD_ACK :: with_data ([c_cmd c; c_cid c; c_ans c] ++ r))).
      { intros r [Hr Hrl]. constructor; [assumption|]. apply with_data_bytes.
        - repeat (constructor; [assumption|]). assumption.
        - rewrite zlen_app. unfold zlen at 1. cbn [length]. lia. }
      destruct (c_date c).
      + destruct (render _) eqn:Er.
        * split; [split; [exact Hc0|exact Hk]|]. cbn [e_ans]. intros code ex H. injection H as <- <-.
          apply Hhead. eapply Hrender; eauto.
        * split; [split; [exact Hc0|exact Hk]|]. cbn [e_ans]. discriminate.
      + split; [split; [exact Hc0|exact Hk]|]. cbn [e_ans]. intros code ex H. injection H as <- <-.
        apply Hhead. split; [apply zeros_bytes|unfold zlen; cbn; lia].
    - (* reset *)
      unfold RcvModel.exec. cbn [b_com b_kind]. split.
      + split; [apply common_ok_reset; assumption|assumption].
      + cbn [e_ans]. intros code ex H. injection H as <- <-. constructor; [assumption|constructor].
    - (* version *)
      unfold RcvModel.exec. apply fin_ok; auto. apply with_data_bytes; [apply bytesb_spec; reflexivity|unfold zlen; cbn; lia].
    - unfold RcvModel.exec. apply fin_ok; auto. constructor.
    - unfold RcvModel.exec. apply fin_ok; auto. constructor.
    - (* get address *)
      unfold RcvModel.exec. apply fin_ok; auto. cbn [b_com]. apply with_data_bytes; [|unfold zlen; cbn; lia].
      destruct Hc as (H1 & _). constructor; [assumption|constructor].
    - (* set address *)
      go'; inv_bytes; apply fin_ok; auto using common_ok_set_addr; constructor.
    - (* get time *)
      unfold RcvModel.exec. cbn [b_com b_kind].
      assert (Hb1 : board_ok (mkBoard (set_last c (code_of KGetTime ext) cid CMD_ACK (clk t)) kd)).
      { split; [apply set_last_ok; auto using code_byte|assumption]. }
      destruct (render _) eqn:Er; (split; [exact Hb1|]); cbn [e_ans]; [|discriminate].
      intros code ex H. injection H as <- <-. destruct (Hrender _ _ Er) as [Hr Hrl].
      constructor; [assumption|]. apply with_data_bytes; [assumption|lia].
    - (* set time *)
      go'; inv_bytes; apply fin_ok; auto using common_ok_set_offset; constructor.
    - (* get frame *)
      unfold RcvModel.exec. apply fin_ok; auto. cbn [b_com]. apply with_data_bytes; [|unfold zlen; cbn; lia].
      destruct Hc as (_ & H2 & _). constructor; [assumption|constructor].
    - (* set frame *)
      go'; inv_bytes; apply fin_ok; auto using common_ok_set_frame; constructor.
    - (* get port *)
      go'; apply fin_ok; eauto using check_key_byte, get_extra_bytes, ports_get_ok, val_ok_nil.
    - (* set port *)
      go'; inv_bytes; apply fin_ok; eauto using check_key_byte, store_ok, val_ok_one; constructor.
    - (* get data *)
      go'; apply fin_ok; eauto using check_key_byte, get_extra_bytes, ports_get_ok, val_ok_nil, val_ok_zeros32,
        lna_f32_ok, val_ok_one, dewar_get_byte; try (destruct Hk; eauto using get_extra_bytes, val_ok_one, switch_get_byte).
    - (* set data *)
      unfold RcvModel.exec, set_data; cbn [b_com b_kind].
      repeat match goal with
      | |- context [match ?x with _ => _ end] =>
          match type of x with
          | bool => destruct x eqn:?
          | option _ => destruct x eqn:?
          | list _ => destruct x
          | kind => destruct x
          | prod _ _ => destruct x eqn:?
          end
      end; inv_bytes;
      try match goal with H : zlen (_ :: _ :: _ :: ?v) <= 255 |- _ => pose proof (Hv _ _ _ _ H) end;
      try (apply fin_ok; eauto using check_key_byte; try constructor;
           try (apply store_ok; [assumption|split; [repeat constructor; assumption|assumption]]); fail).
      + apply fin_ok; auto; try apply Forall_nil. apply dewar_set_ok; [exact Hk|eapply dio_value_byte; eauto].
      + apply fin_ok; auto; try apply Forall_nil. destruct Hk as [Hd Hw].
        eapply switch_set_ok; [exact Hd|exact Hw| |eassumption]. eapply dio_value_byte; eauto.
      + apply fin_ok; auto; try apply Forall_nil. apply store_ok; [assumption|apply val_ok_one; assumption].
      + split; [split; assumption|]. cbn [e_ans]. discriminate.
  Qed.
End E.
