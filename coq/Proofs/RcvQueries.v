(* C02, receiver part: every well-formed query addressed to an existing board is answered exactly once,
   in every state, by one well-formed frame carrying ACK and the data. *)
From DS Require Import Base.Prelude Gen.RcvTables Model.RcvModel Proofs.RcvAssoc Proofs.RcvProofs Proofs.RcvBoards Proofs.RcvFraming Proofs.RcvDecode.

#[local] Arguments mem : simpl never.

(* the query catalogue: the commands that return data *)
Definition is_query (k : cmdk) : bool := data_kind k.

(* in-domain arguments: get_port / get_data take a data type, a port type and a port number from the
   tables; the other queries take no parameter *)
Definition query_params_ok (k : cmdk) (p : list Z) : Prop :=
  match k with
  | KGetPort | KGetData => exists dt pt pn, p = [dt; pt; pn] /\ check_key dt pt pn = None
  | _ => p = []
  end.

Section Q.
  Variable clk : nat -> Z.
  Variable mkdate : list Z -> option Z.
  Variable render : Z -> option (list Z).
  (* the rendering oracle is defined on every instant it is asked for (with fixes/25b the implementation
     renders every datetime; the subtraction overflows only beyond year 9999) *)
  Hypothesis render_total : forall z, render z <> None.
  Notation exec := (exec clk mkdate render).
  Notation exec_req := (exec_req clk mkdate render).
  Notation handle := (handle clk mkdate render).
  Notation run := (run clk mkdate render).

  Ltac unf := unfold RcvModel.exec, gen_get, get_data, set_data, fin, store, dio_value, get_extra.
  Ltac go := repeat (progress (unf; cbn [b_com b_kind e_board e_ans e_tick]; brk)).

  Lemma exec_query keys b t k ext cid p :
    is_query k = true -> query_params_ok k p ->
    exists d, e_ans (exec keys b t k ext cid p) = Some (CMD_ACK, with_data d).
  Proof.
    intros Hk Hp. destruct b as [c kd]. destruct k; try discriminate; cbn [query_params_ok] in Hp.
    - (* inquiry *) unfold RcvModel.exec. cbn [b_com]. destruct (c_date c).
      + destruct (render _) eqn:Er; [eexists; reflexivity|exfalso; eapply render_total; eauto].
      + eexists; reflexivity.
    - eexists; reflexivity.
    - eexists; reflexivity.
    - unfold RcvModel.exec. destruct (render _) eqn:Er; [eexists; reflexivity|exfalso; eapply render_total; eauto].
    - eexists; reflexivity.
    - destruct Hp as (dt & pt & pn & -> & Hc). unfold RcvModel.exec, gen_get, fin. rewrite Hc.
      cbn [e_ans]. unfold get_extra. change (CMD_ACK =? CMD_ACK) with true. eexists; reflexivity.
    - destruct Hp as (dt & pt & pn & -> & Hc). unfold RcvModel.exec, get_data, gen_get, fin. rewrite Hc.
      destruct kd; brk; cbn [e_ans]; unfold get_extra; change (CMD_ACK =? CMD_ACK) with true; eexists; reflexivity.
  Qed.

  (* one board, one query: answered with ACK + data, nobody re-keyed *)
  Lemma exec_req_query ma cid k ext p keys b t :
    is_query k = true -> query_params_ok k p ->
    exists d, let r := exec_req (mkReq ma (code_of k ext) cid ext false p) keys b t in
      r_tail r = Some (CMD_ACK :: with_data d) /\ r_moved r = None /\ r_trailer r = ext.
  Proof.
    intros Hk Hp. destruct (kinds_ok k) as (Hce & Hca & _ & _ & Hae & Haa & _).
    destruct (exec_query keys b t k ext cid p Hk Hp) as (d & Hd). exists d.
    unfold RcvModel.exec_req. cbn [q_cmd q_chk q_ext q_cid q_params].
    destruct ext; cbn [code_of]; [rewrite Hae, Hce|rewrite Haa, Hca]; cbn [negb]; rewrite Hd;
      cbn [r_tail r_moved r_trailer]; repeat split; destruct k; try discriminate; reflexivity.
  Qed.

  (* the message level: any state of the address map *)
  Lemma query_answered_once sl t m sa ma cid k ext p b :
    decode m = Some (sa, mkReq ma (code_of k ext) cid ext false p) ->
    is_broadcast sa = false -> aget Z.eqb sl sa = Some b -> is_query k = true -> query_params_ok k p ->
    exists d sl' t',
      handle sl t m = (sl', t', OReply (frame (mkReq ma (code_of k ext) cid ext false p) sa
                                             (CMD_ACK :: with_data d) ext)) /\
      keys_of sl' = keys_of sl.
  Proof.
    intros Hd Hb Hg Hk Hp.
    rewrite (unicast_once clk mkdate render sl t m sa _ b Hd Hb Hg).
    destruct (exec_req_query ma cid k ext p (keys_of sl) b t Hk Hp) as (d & Ht & Hm & Htr). cbv zeta in Ht, Hm, Htr.
    exists d. eexists. eexists. unfold sl_after, one_outcome. rewrite Ht, Hm, Htr. split; [reflexivity|].
    apply keys_aset_present. eapply aget_some_in; eauto.
  Qed.

  (* the byte level, abbreviated form: from any idle state, the query is buffered byte by byte and its
     last byte produces exactly one reply *)
  Theorem query_abbr s k sa ma cid p b :
    s_msg s = [] -> is_query k = true -> query_params_ok k p -> bytes (abbr_frame k sa ma cid p [0; 0]) ->
    is_broadcast sa = false -> aget Z.eqb (s_slaves s) sa = Some b ->
    exists d s',
      run s (abbr_frame k sa ma cid p [0; 0]) =
      (s', repeat OTrue (length (abbr_frame k sa ma cid p [0; 0]) - 1) ++
           [OReply (frame (mkReq ma (abbr_code k) cid false false p) sa (CMD_ACK :: with_data d) false)]) /\
      s_msg s' = [] /\ keys_of (s_slaves s') = keys_of (s_slaves s).
  Proof.
    intros Hm Hk Hp Hby Hb Hg.
    assert (Hpl : zlen p <= 255).
    { destruct k; try discriminate; cbn in Hp; try (subst p; rewrite zlen_nil; lia);
        destruct Hp as (dt & pt & pn & -> & _); unfold zlen; cbn; lia. }
    rewrite (run_abbr_frame clk mkdate render s k sa ma cid p [0; 0] Hm Hby Hpl eq_refl).
    pose proof (decode_abbr k sa ma cid p [0; 0]) as Hd.
    assert (Hap : abbr_params k p [0; 0] = p).
    { unfold abbr_params. destruct k; try discriminate; cbn in Hp |- *; try (symmetry; exact Hp);
        destruct Hp as (dt & pt & pn & -> & _); reflexivity. }
    rewrite Hap in Hd.
    destruct (query_answered_once (s_slaves s) (s_tick s) _ sa ma cid k false p b Hd Hb Hg Hk Hp)
      as (d & sl' & t' & Hh & Hkeys).
    exists d. unfold frame_result. rewrite Hh. eexists. split; [reflexivity|]. split; [reflexivity|exact Hkeys].
  Qed.

  (* extended form with the right checksum *)
  Theorem query_ext s k sa ma cid p eot b :
    s_msg s = [] -> is_query k = true -> query_params_ok k p ->
    let ck := xor_sum (ext_body k sa ma cid p) in
    bytes (ext_frame k sa ma cid p ck eot) ->
    is_broadcast sa = false -> aget Z.eqb (s_slaves s) sa = Some b ->
    exists d s',
      run s (ext_frame k sa ma cid p ck eot) =
      (s', repeat OTrue (length (ext_frame k sa ma cid p ck eot) - 1) ++
           [OReply (frame (mkReq ma (ext_code k) cid true false p) sa (CMD_ACK :: with_data d) true)]) /\
      s_msg s' = [] /\ keys_of (s_slaves s') = keys_of (s_slaves s).
  Proof.
    intros Hm Hk Hp ck Hby Hb Hg.
    rewrite (run_ext_frame clk mkdate render s k sa ma cid p ck eot Hm Hby).
    pose proof (decode_ext k sa ma cid p ck eot) as Hd. unfold ck in Hd at 2. rewrite Z.eqb_refl in Hd. cbn [negb] in Hd.
    assert (Hap : (if has_params k then p else []) = p).
    { destruct k; try discriminate; cbn in Hp |- *; try (symmetry; exact Hp); reflexivity. }
    rewrite Hap in Hd.
    destruct (query_answered_once (s_slaves s) (s_tick s) _ sa ma cid k true p b Hd Hb Hg Hk Hp)
      as (d & sl' & t' & Hh & Hkeys).
    exists d. unfold frame_result. rewrite Hh. eexists. split; [reflexivity|]. split; [reflexivity|exact Hkeys].
  Qed.
End Q.
