(* Concrete device for the non-vacuity examples and for the refutation witnesses of the code
   before the proposed repairs (C01 F01/F02) and of the sending handler's chunk-wise command
   recognition (C07). *)
From DS Require Import Base.Prelude Model.SrvHandler Spec.SrvRelaySpec Proofs.SrvLists Proofs.SrvProofs Proofs.SrvTheorems.

(* parse: 'a' is answered "ok", 'w' is answered with the code point 256, 'v' raises
   ValueError, 'k' raises another exception, anything else is inside a frame *)
Definition ex_sparse (e : unit) (b : Z) : outcome * unit :=
  (if b =? 97 then ORet (VStr [111; 107])
   else if b =? 119 then ORet (VStr [256])
   else if b =? 118 then OValueError
   else if b =? 107 then OException
   else ORet (VBool true), tt).

(* custom operations: system_stop -> the acknowledgement, "f" -> "x", nothing else exists *)
Definition ex_scall (e : unit) (name : list Z) (params : list (list Z)) : sysres * unit :=
  (if zlist_eqb name stop_name then
     match params with [] => RStr shutdown_ack | _ => RExc end
   else if zlist_eqb name [102] then RStr [120]
   else RAttrErr, tt).

Definition all_ok (k : nat) : bool := true.

Definition ex_tcp (fx : variant) (segs : list (list Z)) :=
  handle_tcp fx unit ex_sparse ex_scall all_ok (init unit tt) (map Some segs).

(* "za" ++ "$system_stop%%%%%" ++ "vk", cut inside the command and inside the tail *)
Definition ex_stream : list Z := [122; 97] ++ stop_command ++ [118; 107].
Definition ex_segs : list (list Z) :=
  [[122; 97; 36; 115; 121; 115]; [116; 101; 109; 95; 115; 116; 111; 112; 37; 37]; [37; 37; 37; 118];
   [107]].

Lemma ex_segs_stream : concat ex_segs = ex_stream /\ Forall nonempty ex_segs.
Proof. split; [reflexivity | repeat constructor; discriminate]. Qed.

Lemma ex_trace :
  actions_of (ex_tcp fixed ex_segs) =
    map Parse [122; 97] ++ [Send [111; 107]] ++ map Parse stop_command
      ++ [Call stop_name []; Send shutdown_ack; Stop] ++ map Parse [118; 107].
Proof. vm_compute. reflexivity. Qed.

Lemma ex_stop_answers : stop_answers unit ex_scall shutdown_ack.
Proof. intros []. reflexivity. Qed.

(* F01: before fixes/01, a body with two ':' kills the handler *)
Definition two_colons : list Z := [36; 102; 58; 97; 58; 98; 37; 37; 37; 37; 37].   (* $f:a:b%%%%% *)
Lemma pristine_two_colons_dies :
  flow_of (ex_tcp pristine [two_colons ++ [122]]) = Died /\
  flow_of (ex_tcp fixed [two_colons ++ [122]]) = Continue /\
  parses (actions_of (ex_tcp fixed [two_colons ++ [122]])) = two_colons ++ [122].
Proof. vm_compute. auto. Qed.

(* F02: before fixes/02, a reply with a code point >= 256 kills the handler *)
Lemma pristine_wide_reply_dies :
  flow_of (ex_tcp pristine [[119; 122]]) = Died /\
  actions_of (ex_tcp fixed [[119; 122]]) = [Parse 119; Parse 122].
Proof. vm_compute. auto. Qed.

(* the stale `response`: "a" answered, then the parser raises twice: one Send only *)
Lemma ex_no_resend :
  actions_of (ex_tcp fixed [[97; 118; 107]]) = [Parse 97; Send [111; 107]; Parse 118; Parse 107].
Proof. vm_compute. reflexivity. Qed.

(* C07, sending handler: the command split over two chunks, or embedded in a chunk, is not
   recognised *)
Definition ex_send (rs : list recv_ev) :=
  send_handle fixed unit ex_scall all_ok None tt rs [].

Lemma send_whole_chunk_stops :
  actions_of (ex_send [RChunk stop_command]) =
    [Subscribe; Call stop_name []; Send shutdown_ack; Stop; Unsubscribe].
Proof. vm_compute. reflexivity. Qed.

Lemma send_split_chunk_ignored :
  exists c1 c2, c1 ++ c2 = stop_command /\ c1 <> [] /\ c2 <> [] /\
    calls (actions_of (ex_send [RChunk c1; RChunk c2])) = [].
Proof.
  exists (firstn 7 stop_command), (skipn 7 stop_command).
  repeat split; try discriminate. 
Qed.

Lemma send_embedded_chunk_ignored :
  calls (actions_of (ex_send [RChunk (122 :: stop_command)])) = [].
Proof. vm_compute. reflexivity. Qed.

Lemma stop_block_ack : stop_block shutdown_ack = [Call stop_name []; Send shutdown_ack; Stop].
Proof. reflexivity. Qed.
