(* dbesm, second part: the GETDBE* queries (C02), the frame lemma "until the next write of that
   register" for ATT / AMP / EQ / BPF (C05). *)
From DS Require Import Base.Prelude Model.SmcBase Model.SmcDbesm Proofs.SmcBaseProofs Proofs.SmcDbesmProofs.

(* ---------------- tables ---------------- *)
Definition reg_bound (r : reg) : nat := match r with RAtt => 17 | RBpf => 11 | _ => 10 end%nat.

Lemma reg_list_length r b : board_ok b -> length (reg_list r b) = reg_bound r.
Proof. intros (H1 & H2 & H3 & H4). destruct r; cbn; try assumption. rewrite map_length. exact H1. Qed.

Lemma targets_sub r name t : In t (targets r name) -> In t (combine out_boards (out_tbl r)).
Proof.
  unfold targets. intros H. apply in_concat in H as (l & Hl & Ht).
  apply in_map_iff in Hl as (p & <- & Hp). destruct (zlist_eqb (fst p) name); [|destruct Ht].
  destruct Ht as [<-|[]]. destruct p as [nm q]. apply in_combine_r in Hp. exact Hp.
Qed.

Definition target_ok (r : reg) (t : nat * Z) : bool :=
  (fst t <? 4)%nat && (0 <=? snd t) && (Z.to_nat (snd t) <? reg_bound r)%nat.

Lemma table_ok r : forallb (target_ok r) (combine out_boards (out_tbl r)) = true.
Proof. destruct r; vm_compute; reflexivity. Qed.

Lemma targets_ok r name t : In t (targets r name) ->
  (fst t < 4)%nat /\ 0 <= snd t /\ (Z.to_nat (snd t) < reg_bound r)%nat.
Proof.
  intros H. apply targets_sub in H. pose proof (table_ok r) as T. rewrite forallb_forall in T.
  specialize (T t H). unfold target_ok in T. lia.
Qed.

Lemma In_nth_opt {A} (l : list A) n x : nth_opt n l = Some x -> In x l.
Proof.
  revert n. induction l as [|y l IH]; intros [|n] H; cbn in *; try discriminate.
  - injection H as ->. left. reflexivity.
  - right. eapply IH. exact H.
Qed.

(* ---------------- C02: GETDBEATT / GETDBEAMP / GETDBEEQ / GETDBEBPF ---------------- *)
Lemma get_dbe_line_some r name d t : Inv d -> In t (targets r name) -> get_dbe_line r name d t <> None.
Proof.
  intros [Hl Hb] Ht. destruct (targets_ok r name t Ht) as (H1 & H2 & H3). destruct t as [i a]. cbn [fst snd] in *.
  unfold get_dbe_line. destruct (nth_opt_lt (boards d) i ltac:(lia)) as [b Hbd]. rewrite Hbd.
  destruct (b_status b =? 1); [discriminate|].
  assert (Hok : board_ok b). { rewrite Forall_forall in Hb. apply Hb. eapply In_nth_opt. exact Hbd. }
  destruct (nth_opt_lt (reg_list r b) (Z.to_nat a)) as [v Hv]; [rewrite reg_list_length by exact Hok; exact H3|].
  rewrite Hv. discriminate.
Qed.

Lemma all_some_map {A B} (f : A -> option B) l : (forall x, In x l -> f x <> None) -> all_some (map f l) <> None.
Proof.
  induction l as [|x l IH]; intros H; cbn; [discriminate|].
  pose proof (H x (or_introl eq_refl)) as Hx. destruct (f x); [|congruence].
  assert (IH' : all_some (map f l) <> None) by (apply IH; intros y Hy; apply H; right; exact Hy).
  destruct (all_some (map f l)); [discriminate|congruence].
Qed.

(* every GETDBE* query, for every output name (existing or not), every device state with the four
   boards and their register lengths, any board status: exactly a reply, state untouched *)
Lemma db_getdbe_answered d r name : Inv d -> exists s, h_get_dbe d r [name] = (d, OReply s).
Proof.
  intros Hi. unfold h_get_dbe. destruct (targets r name) as [|t ts] eqn:E; [eexists; reflexivity|].
  pose proof (all_some_map (get_dbe_line r name d) (t :: ts)) as H.
  assert (Hall : forall x, In x (t :: ts) -> get_dbe_line r name d x <> None).
  { intros x Hx. apply get_dbe_line_some; [exact Hi|]. rewrite E. exact Hx. }
  specialize (H Hall). destruct (all_some (map (get_dbe_line r name d) (t :: ts))); [|congruence].
  eexists. reflexivity.
Qed.

(* the invariant is kept by every command *)
Lemma board_ok_set_status v b : board_ok b -> board_ok (set_status v b). Proof. auto. Qed.
Lemma board_ok_set_cfg v b : board_ok b -> board_ok (set_cfg v b). Proof. auto. Qed.

Lemma Forall_set_nth {A} (P : A -> Prop) l n v : Forall P l -> P v -> Forall P (set_nth n v l).
Proof.
  intros H Hv. revert n. induction H as [|x l Hx Hl IH]; intros [|n]; cbn [set_nth].
  - constructor.
  - constructor.
  - constructor; assumption.
  - constructor; [assumption|apply IH].
Qed.

Lemma Inv_upd_board i f d : Inv d -> (forall b, board_ok b -> board_ok (f b)) -> Inv (upd_board i f d).
Proof.
  intros [Hl Hb] Hf. unfold upd_board. destruct (nth_opt i (boards d)) as [b|] eqn:E; [|split; assumption].
  unfold with_boards. split; cbn [boards].
  - rewrite set_nth_length. exact Hl.
  - apply Forall_set_nth; [exact Hb|]. apply Hf. rewrite Forall_forall in Hb. apply Hb. eapply In_nth_opt. exact E.
Qed.

(* ---------------- C05: the view of one register family ---------------- *)
Definition view (r : reg) (d : dev) : list (list cval) := map (reg_list r) (boards d).
Definition reg_eqb (a b : reg) : bool :=
  match a, b with RAtt, RAtt | RAmp, RAmp | REq, REq | RBpf, RBpf => true | _, _ => false end.
Definition writes_reg (r : reg) (c : cmd) : bool :=
  match c with KSetReg r' _ | KSetDbe r' _ => reg_eqb r r' | _ => false end.

Lemma map_set_nth_same {A B} (g : A -> B) l n v x : nth_opt n l = Some x -> g v = g x -> map g (set_nth n v l) = map g l.
Proof.
  revert n. induction l as [|y l IH]; intros [|n] H Hg; cbn in *; try discriminate.
  - injection H as ->. rewrite Hg. reflexivity.
  - f_equal. apply IH; assumption.
Qed.

Lemma view_upd_board r i f d : (forall b, reg_list r (f b) = reg_list r b) -> view r (upd_board i f d) = view r d.
Proof.
  intros Hf. unfold upd_board, view. destruct (nth_opt i (boards d)) as [b|] eqn:E; [|reflexivity].
  cbn [with_boards boards]. eapply map_set_nth_same; [exact E|apply Hf].
Qed.

Lemma view_with_boards r bs d : map (reg_list r) bs = map (reg_list r) (boards d) -> view r (with_boards bs d) = view r d.
Proof. intros H. exact H. Qed.

Lemma enum_snd {A} (l : list A) : map snd (enum l) = l.
Proof.
  unfold enum. generalize 0%nat. induction l as [|x l IH]; intros k; cbn; [reflexivity|]. f_equal. apply IH.
Qed.

Lemma allmode_view r m bs : map (reg_list r) (map fst (map (set_allmode_line m) (enum bs))) = map (reg_list r) bs.
Proof.
  rewrite <- (enum_snd bs) at 2. rewrite !map_map. apply map_ext. intros [i b]. cbn.
  destruct (b_status b =? 1); cbn; destruct r; reflexivity.
Qed.

Lemma fold_lines_view r one : (forall d t d' l, one d t = Some (d', l) -> view r d' = view r d) ->
  forall ts d d' l, fold_lines one d ts = Some (d', l) -> view r d' = view r d.
Proof.
  intros Hone. induction ts as [|t ts IH]; intros d d' l H; cbn in H.
  - injection H as <- <-. reflexivity.
  - destruct (one d t) as [[d1 l1]|] eqn:E1; [|discriminate].
    destruct (fold_lines one d1 ts) as [[d2 l2]|] eqn:E2; [|discriminate]. injection H as <- <-.
    rewrite (IH _ _ _ E2). apply (Hone _ _ _ _ E1).
Qed.

Ltac case_all :=
  repeat match goal with
         | |- context [match ?x with _ => _ end] => destruct x eqn:?
         | |- context [if ?x then _ else _] => destruct x eqn:?
         end.

Lemma set_dbeatt_one_view r name vtok f d t d' l : r <> RAtt ->
  set_dbeatt_one name vtok f d t = Some (d', l) -> view r d' = view r d.
Proof.
  intros Hr. unfold set_dbeatt_one. destruct t as [i a]. case_all; intros H; try discriminate H;
    injection H as <- <-; try reflexivity; apply view_upd_board; intros b0; destruct r; try reflexivity; congruence.
Qed.

Lemma set_dbe01_one_view r r' name f d t d' l : reg_eqb r r' = false ->
  set_dbe01_one r' name f d t = Some (d', l) -> view r d' = view r d.
Proof.
  intros Hr. unfold set_dbe01_one. destruct t as [i a]. case_all; intros H; try discriminate H;
    injection H as <- <-; try reflexivity; apply view_upd_board; intros b0; destruct r, r'; try reflexivity; discriminate Hr.
Qed.

(* a command that is not a write of register family r leaves every register of that family, on every
   board, unchanged - whatever its outcome *)
Lemma db_frame fx e d r c : writes_reg r c = false -> view r (fst (exec fx e d c)) = view r d.
Proof.
  intros Hw. destruct c; cbn [writes_reg] in Hw; unfold exec.
  - reflexivity.
  - reflexivity.
  - unfold h_set_allmode. case_all; cbn [fst]; try reflexivity. apply view_with_boards. apply allmode_view.
  - unfold h_set_mode. case_all; cbn [fst]; try reflexivity. apply view_upd_board. intros; destruct r; reflexivity.
  - unfold h_store_allmode. case_all; cbn [fst]; reflexivity.
  - unfold h_delete_file. case_all; cbn [fst]; reflexivity.
  - unfold h_get_status, with_board. case_all; cbn [fst]; reflexivity.
  - unfold h_set_reg. case_all; cbn [fst]; try reflexivity; apply view_upd_board; intros b0;
      destruct r; try reflexivity; discriminate Hw.
  - unfold h_all_diag. case_all; cbn [fst]; reflexivity.
  - unfold h_diag. case_all; cbn [fst]; reflexivity.
  - unfold h_set_status. case_all; cbn [fst]; try reflexivity. apply view_upd_board. intros; destruct r; reflexivity.
  - unfold h_get_comp, with_board. case_all; cbn [fst]; reflexivity.
  - unfold h_get_cfg. case_all; cbn [fst]; reflexivity.
  - unfold h_get_firm, with_board. case_all; cbn [fst]; reflexivity.
  - unfold h_set_dbe. case_all; cbn [fst]; try reflexivity.
    all: match goal with H : fold_lines _ _ _ = Some (_, _) |- _ => eapply fold_lines_view; [|exact H] end.
    all: intros ? ? ? ? H1.
    all: match type of H1 with context [match ?r0 with _ => _ end] => destruct r0 end.
    all: first [ eapply set_dbeatt_one_view; [|exact H1]; intros ->; cbn in Hw; discriminate Hw
               | eapply set_dbe01_one_view; [|exact H1]; exact Hw ].
  - unfold h_get_dbe. case_all; cbn [fst]; reflexivity.
Qed.

Fixpoint exec_all (fx : bool) (e : env) (d : dev) (cs : list cmd) : dev :=
  match cs with [] => d | c :: r => exec_all fx e (fst (exec fx e d c)) r end.

Lemma db_view_stable fx e r : forall cs d,
  Forall (fun c => writes_reg r c = false) cs -> view r (exec_all fx e d cs) = view r d.
Proof.
  induction cs as [|c cs IH]; intros d H; cbn [exec_all]; [reflexivity|].
  inversion H as [|? ? Hc Hcs]; subst. rewrite IH by exact Hcs. apply db_frame. exact Hc.
Qed.

(* one register cell: family r, board i, index k *)
Definition cell (r : reg) (i k : nat) (d : dev) : option cval :=
  match nth_opt i (view r d) with Some l => nth_opt k l | None => None end.

Lemma nth_opt_map {A B} (g : A -> B) l n : nth_opt n (map g l) = option_map g (nth_opt n l).
Proof. revert n. induction l as [|x l IH]; intros [|n]; cbn; auto. Qed.

Lemma cell_stable fx e r i k cs d :
  Forall (fun c => writes_reg r c = false) cs -> cell r i k (exec_all fx e d cs) = cell r i k d.
Proof. intros H. unfold cell. rewrite db_view_stable by exact H. reflexivity. Qed.

(* SETATT acknowledged, then ANY commands that are not attenuator writes (SETATT / SETDBEATT) -
   queries, writes of other registers, status and mode changes, refused and unknown lines: the cell
   still holds the written value *)
Lemma db_setatt_until fx e d ctok btok vtok cs :
  Inv d ->
  acked (snd (exec fx e d (KSetReg RAtt [ctok; $"BOARD"; btok; $"VALUE"; vtok]))) = true ->
  Forall (fun c => writes_reg RAtt c = false) cs ->
  exists n c h, py_int e btok = CvOk n /\ py_int e ctok = CvOk c /\ py_float e vtok = CvOk (FHalf h) /\
    cell RAtt (Z.to_nat (n - 1)) (Z.to_nat c)
         (exec_all fx e (fst (exec fx e d (KSetReg RAtt [ctok; $"BOARD"; btok; $"VALUE"; vtok]))) cs) = Some (CFlt h).
Proof.
  intros Hi Ha Hcs.
  destruct (db_setatt_readback fx e d ctok btok vtok Hi Ha) as (n & c & h & b & b' & H1 & H2 & H3 & _ & _ & _ & _ & _ & H9 & H10).
  exists n, c, h. repeat split; try assumption. rewrite cell_stable by exact Hcs.
  unfold cell, view. rewrite nth_opt_map, H9. cbn [option_map reg_list]. rewrite nth_opt_map, H10. reflexivity.
Qed.

(* what GETDBEATT prints is the cell: the value line of output t is rendered from it *)
Lemma get_dbe_line_cell r name d i a :
  get_dbe_line r name d (i, a) =
  match nth_opt i (boards d) with
  | None => None
  | Some b => if b_status b =? 1 then Some (dbe_err name i $"unreachable")
              else match cell r i (Z.to_nat a) d with
                   | None => None
                   | Some v => Some ($"ACK " ++ name ++ $" BOARD " ++ bnum i ++ [SP] ++ reg_name r ++ [SP] ++ zstr a
                                     ++ $" VALUE " ++ cstr v ++ [LF])
                   end
  end.
Proof.
  unfold get_dbe_line, cell, view. rewrite nth_opt_map. destruct (nth_opt i (boards d)); reflexivity.
Qed.
