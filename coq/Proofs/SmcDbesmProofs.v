(* Proofs about Model/SmcDbesm.v: framing (C03), queries (C02), reply shape (C04), register
   read-back and refusals (C05).  [fx] is the fix24 switch of the model. *)
From DS Require Import Base.Prelude Model.SmcBase Model.SmcDbesm Proofs.SmcBaseProofs.

(* ---------------- framing ---------------- *)
Lemma db_eta s : s = {| msg := msg s; dv := dv s |}.
Proof. destruct s; reflexivity. Qed.

Lemma db_buffering fx e s b : b <> LF ->
  step fx e s b = ({| msg := msg s ++ [b]; dv := dv s |}, OTrue).
Proof. intros H. unfold step. destruct (b =? LF) eqn:E; [lia|reflexivity]. Qed.

Lemma db_tail_step fx e s :
  step fx e s LF = ({| msg := []; dv := fst (exec fx e (dv s) (decode (drop_last (msg s)))) |},
                    snd (exec fx e (dv s) (decode (drop_last (msg s))))).
Proof. unfold step. cbn. destruct (exec fx e (dv s) (decode (drop_last (msg s)))); reflexivity. Qed.

Lemma db_resync fx e s bs : idle (fst (run (step fx e) s (bs ++ [LF]))) = true.
Proof. rewrite run_snoc. rewrite db_tail_step. reflexivity. Qed.

Lemma db_fresh s : idle s = true -> s = {| msg := []; dv := dv s |}.
Proof. destruct s as [m d]; cbn. destruct m; [reflexivity|discriminate]. Qed.

(* an empty line at idle is an unknown command: answered with NAK, no effect on any state *)
Lemma db_idle_tail fx e s : idle s = true -> step fx e s LF = (s, OReply nak_reply).
Proof.
  intros Hi. rewrite db_tail_step. rewrite (db_fresh s Hi) at 3. destruct s as [m d]. cbn in Hi.
  destruct m; [|discriminate]. reflexivity.
Qed.

Lemma db_run_buffer fx e line : Forall (fun b => b <> LF) line -> forall s,
  run (step fx e) s line = ({| msg := msg s ++ line; dv := dv s |}, repeat OTrue (length line)).
Proof.
  induction 1 as [|b line Hb _ IH]; intros s; cbn [run].
  - rewrite app_nil_r. rewrite <- db_eta. reflexivity.
  - rewrite db_buffering by exact Hb. rewrite IH. cbn [msg dv length repeat].
    rewrite <- app_assoc. reflexivity.
Qed.

(* one complete line from an idle parser: the handler applied to the line without its last
   character (the simulator assumes it is the '\r' of '\r\n' and drops it unconditionally) *)
Lemma db_run_line fx e s line :
  idle s = true -> Forall (fun b => b <> LF) line ->
  run (step fx e) s (line ++ [LF]) =
  ({| msg := []; dv := fst (exec fx e (dv s) (decode (drop_last line))) |},
   repeat OTrue (length line) ++ [snd (exec fx e (dv s) (decode (drop_last line)))]).
Proof.
  intros Hi Hl. rewrite run_app. rewrite (db_run_buffer fx e line Hl s). cbn [fst snd run].
  rewrite db_tail_step. cbn [msg dv fst snd].
  rewrite (db_fresh s Hi). reflexivity.
Qed.

Lemma drop_last_snoc (l : list Z) x : drop_last (l ++ [x]) = l.
Proof. unfold drop_last. apply removelast_last. Qed.

(* ---------------- C04: every reply ends with \r\n ---------------- *)
Lemma ends_crlf_app a b : ends_with crlf b = true -> ends_with crlf (a ++ b) = true.
Proof.
  unfold ends_with. rewrite rev_app_distr. change (rev crlf) with [LF; CR].
  destruct (rev b) as [|x [|y r]]; intros H.
  - discriminate H.
  - cbn [starts_with] in H. rewrite andb_false_r in H. discriminate H.
  - exact H.
Qed.
Lemma ends_crlf_self : ends_with crlf crlf = true. Proof. reflexivity. Qed.

Lemma ends_crlf_cons x l : ends_with crlf l = true -> ends_with crlf (x :: l) = true.
Proof. exact (ends_crlf_app [x] l). Qed.
Ltac crlf_end := repeat first [ apply ends_crlf_self | apply ends_crlf_cons | apply ends_crlf_app ].

Lemma R_shape d s d' r : R d (s ++ crlf) = (d', OReply r) -> ends_with crlf r = true.
Proof. unfold R. intros H. injection H as <- <-. crlf_end. Qed.

Ltac reply_cases H :=
  repeat match type of H with
         | context [match ?x with _ => _ end] => destruct x eqn:?
         | context [if ?x then _ else _] => destruct x eqn:?
         end.

Lemma db_reply_crlf fx e d c d' r : exec fx e d c = (d', OReply r) -> ends_with crlf r = true.
Proof.
  intros H. destruct c; unfold exec in H;
    unfold h_set_allmode, h_set_mode, h_store_allmode, h_delete_file, h_get_status, h_set_reg, h_all_diag,
           h_diag, h_set_status, h_get_comp, h_get_cfg, h_get_firm, h_set_dbe, h_get_dbe, with_board in H;
    reply_cases H; unfold R in H; try discriminate H; injection H as <- <-;
    unfold nak_reply, ack_reply, err_1003, err_1005, err_1007, err_1008, err_1010, err_1011, err_1012, err_1013,
           err_1014, err_1015, err_plain;
    repeat rewrite <- app_assoc; crlf_end.
Qed.

(* ---------------- device invariant ---------------- *)
Definition board_ok (b : board) : Prop :=
  length (b_att b) = 17%nat /\ length (b_amp b) = 10%nat /\ length (b_eq b) = 10%nat /\ length (b_bpf b) = 11%nat.
Definition Inv (d : dev) : Prop := length (boards d) = 4%nat /\ Forall board_ok (boards d).

(* ---------------- C02: queries ---------------- *)
Lemma select_in_range e d tok n :
  length (boards d) = 4%nat -> py_int e tok = CvOk n -> 1 <= n <= 4 ->
  select e d tok = SelIdx (Z.to_nat (n - 1)) /\ exists b, nth_opt (Z.to_nat (n - 1)) (boards d) = Some b.
Proof.
  intros Hl Hi Hn. unfold select. destruct (boards d) as [|b0 l] eqn:E; [discriminate Hl|]. rewrite Hi.
  rewrite Hl. destruct ((1 <=? n) && (n <=? Z.of_nat 4)) eqn:E2; [|lia].
  split; [reflexivity|]. apply nth_opt_lt. rewrite Hl. lia.
Qed.

(* the four per-board queries: exactly a reply, state untouched, whatever the board's status *)
Lemma db_board_query_answered e d tok n (k : nat -> board -> dev * outcome) :
  length (boards d) = 4%nat -> py_int e tok = CvOk n -> 1 <= n <= 4 ->
  (forall i b, exists r, k i b = (d, OReply r)) ->
  exists r, with_board e d [$"BOARD"; tok] k = (d, OReply r).
Proof.
  intros Hl Hi Hn Hk. unfold with_board. cbn [zlist_eqb list_eqb]. rewrite zlist_eqb_refl. cbn [negb].
  destruct (select_in_range e d tok n Hl Hi Hn) as [-> [b ->]].
  destruct (b_status b =? 1); [eexists; reflexivity|]. apply Hk.
Qed.

Lemma db_getstatus_answered e d tok n :
  length (boards d) = 4%nat -> py_int e tok = CvOk n -> 1 <= n <= 4 ->
  exists r, h_get_status e d [$"BOARD"; tok] = (d, OReply r).
Proof. intros; eapply db_board_query_answered; eauto. intros; eexists; reflexivity. Qed.

Lemma db_getcomp_answered e d tok n :
  length (boards d) = 4%nat -> py_int e tok = CvOk n -> 1 <= n <= 4 ->
  exists r, h_get_comp e d [$"BOARD"; tok] = (d, OReply r).
Proof. intros; eapply db_board_query_answered; eauto. intros; eexists; reflexivity. Qed.

Lemma db_getfirm_answered e d tok n :
  length (boards d) = 4%nat -> py_int e tok = CvOk n -> 1 <= n <= 4 ->
  exists r, h_get_firm e d [$"BOARD"; tok] = (d, OReply r).
Proof. intros; eapply db_board_query_answered; eauto. intros; eexists; reflexivity. Qed.

(* ReadDIAG: with fixes/24 every status is answered *)
Lemma db_diag_answered e d tok n :
  length (boards d) = 4%nat -> py_int e tok = CvOk n -> 1 <= n <= 4 ->
  exists r, h_diag true e d [$"BOARD"; tok] = (d, OReply r).
Proof.
  intros Hl Hi Hn. unfold h_diag. rewrite zlist_eqb_refl. cbn [negb].
  destruct (select_in_range e d tok n Hl Hi Hn) as [-> [b ->]].
  destruct ((b_status b =? 1) || (true && (b_status b <? 0))) eqn:E1; [eexists; reflexivity|].
  destruct (b_status b =? 0) eqn:E2; [eexists; reflexivity|].
  destruct (1 <? b_status b) eqn:E3; [eexists; reflexivity|]. lia.
Qed.

Lemma db_getcfg_answered d : exists r, h_get_cfg d [] = (d, OReply r).
Proof. eexists; reflexivity. Qed.
Lemma db_alldiag_answered fx d : exists r, h_all_diag fx d [] = (d, OReply r).
Proof. eexists; reflexivity. Qed.

(* F24: without the fix a negative status silences ReadDIAG *)
Definition b0 (st : Z) : board :=
  {| b_status := st; b_cfg := $"default"; b_reg := repeat 0 10; b_att := repeat (HV 0) 17;
     b_amp := repeat (CInt 1) 10; b_eq := repeat (CInt 1) 10; b_bpf := repeat (CInt 1) 11;
     b_v5 := $"1.11"; b_v3 := $"0.11"; b_t0 := $"5.1"; b_firm := $"0.116_NEW_win" |}.
Definition e_std : env :=
  {| py_int := fun t => if zlist_eqb t $"1" then CvOk 1 else if zlist_eqb t $"-1" then CvOk (-1)
                        else if zlist_eqb t $"4" then CvOk 4 else CvErr;
     py_float := fun t => if zlist_eqb t $"1" then CvOk (FHalf (HV 2)) else CvErr |}.
Definition f24_bytes : list Z :=
  $"DBE SETSTATUS BOARD 1 VALUE -1" ++ [CR; LF] ++ $"DBE ReadDIAG BOARD 1" ++ [CR; LF].

Lemma db_f24_refuted :
  last (snd (run (step false e_std) (init (repeat (b0 0) 4) obs_mode0) f24_bytes)) OFalse = OException.
Proof. vm_compute. reflexivity. Qed.
Lemma db_f24_fixed :
  is_reply (last (snd (run (step true e_std) (init (repeat (b0 0) 4) obs_mode0) f24_bytes)) OFalse) = true.
Proof. vm_compute. reflexivity. Qed.

(* ---------------- C05 ---------------- *)
Definition acked (o : outcome) : bool := match o with OReply r => zlist_eqb r ack_reply | _ => false end.

(* the single-register writes: SETATT SETAMP SETEQ SETBPF SETSTATUS MODE STOREALLMODE DELETEFILE *)
Definition single_write (c : cmd) : bool :=
  match c with
  | KSetReg _ _ | KSetStatus _ | KSetMode _ | KStoreAllMode _ | KDeleteFile _ | KNak | KNakDev => true
  | _ => false
  end.

Lemma upd_board_not_acked : forall (d : dev) (s : list Z), acked (OReply (s ++ crlf)) = false ->
  True.
Proof. trivial. Qed.

(* any answer other than 'ACK\r\n' (NAK, ERR ..., an exception) means nothing at all was stored *)
Lemma db_refused_unchanged fx e d c :
  single_write c = true -> acked (snd (exec fx e d c)) = false -> fst (exec fx e d c) = d.
Proof.
  intros Hw Ha. destruct c; try discriminate Hw; unfold exec in *;
    unfold h_set_mode, h_store_allmode, h_delete_file, h_set_reg, h_set_status, R in *;
    repeat match goal with
           | |- context [match ?x with _ => _ end] => destruct x eqn:?
           | |- context [if ?x then _ else _] => destruct x eqn:?
           end; cbn [fst snd] in *; try reflexivity;
    exfalso; unfold acked in Ha; rewrite zlist_eqb_refl in Ha; discriminate Ha.
Qed.

(* SETATT acknowledged: the attenuator reads back the written value *)
Lemma db_setatt_readback fx e d ctok btok vtok :
  Inv d ->
  acked (snd (exec fx e d (KSetReg RAtt [ctok; $"BOARD"; btok; $"VALUE"; vtok]))) = true ->
  exists n c h b b',
    py_int e btok = CvOk n /\ py_int e ctok = CvOk c /\ py_float e vtok = CvOk (FHalf h) /\
    1 <= n <= 4 /\ 0 <= c <= 16 /\ on_att_grid (FHalf h) = true /\
    nth_opt (Z.to_nat (n - 1)) (boards d) = Some b /\ b_status b <> 1 /\
    nth_opt (Z.to_nat (n - 1)) (boards (fst (exec fx e d (KSetReg RAtt [ctok; $"BOARD"; btok; $"VALUE"; vtok])))) = Some b' /\
    nth_opt (Z.to_nat c) (b_att b') = Some h.
Proof.
  intros [Hl Hb] Ha. unfold exec, h_set_reg in *. rewrite !zlist_eqb_refl in *. cbn [negb orb] in *.
  unfold select in *. destruct (boards d) as [|bd0 bds] eqn:Eb; [discriminate Hl|]. rewrite <- Eb in *.
  destruct (py_int e btok) as [n| |] eqn:E1; try discriminate Ha.
  destruct ((1 <=? n) && (n <=? Z.of_nat (length (boards d)))) eqn:E2; [|discriminate Ha].
  destruct (nth_opt (Z.to_nat (n - 1)) (boards d)) as [b|] eqn:E3; [|discriminate Ha].
  destruct (py_int e ctok) as [c| |] eqn:E4; try discriminate Ha.
  destruct ((0 <=? c) && (c <=? 16)) eqn:E5; cbn [negb] in *; [|discriminate Ha].
  destruct (py_float e vtok) as [f| |] eqn:E6; try discriminate Ha.
  destruct (on_att_grid f) eqn:E7; cbn [negb] in *; [|discriminate Ha].
  destruct (b_status b =? 1) eqn:E8; [discriminate Ha|].
  destruct f as [h|]; [|discriminate E7].
  cbn [fst snd] in *. unfold upd_board. rewrite E3. unfold with_boards. cbn [boards].
  assert (Hlt : (Z.to_nat (n - 1) < length (boards d))%nat) by (eapply nth_opt_Some_lt; exact E3).
  assert (Hin : In b (boards d)).
  { clear - E3. revert E3. generalize (Z.to_nat (n - 1)). induction (boards d) as [|x l IH]; intros [|k] H; cbn in *;
      try discriminate; [injection H as ->; left; reflexivity|right; eapply IH; exact H]. }
  rewrite Forall_forall in Hb. destruct (Hb b Hin) as (H17 & _).
  exists n, c, h, b, (set_att (set_nth (Z.to_nat c) h (b_att b)) b).
  rewrite Hl in E2.
  repeat split; try reflexivity; try lia; try assumption.
  - apply nth_opt_set_nth_same. exact Hlt.
  - cbn [b_att set_att]. apply nth_opt_set_nth_same. lia.
Qed.

(* the two write paths of the same amplifier register store different encodings (known finding):
   SETAMP keeps the token, SETDBEAMP stores a float *)
Definition amp_bytes_a : list Z :=
  $"DBE SETAMP 4 BOARD 1 VALUE 1" ++ [CR; LF] ++ $"DBE GETDBEAMP 1_DBBC2" ++ [CR; LF].
Definition amp_bytes_b : list Z :=
  $"DBE SETDBEAMP 1_DBBC2 1" ++ [CR; LF] ++ $"DBE GETDBEAMP 1_DBBC2" ++ [CR; LF].
Lemma db_amp_encoding_refuted :
  last (snd (run (step true e_std) (init (repeat (b0 0) 4) obs_mode0) amp_bytes_a)) OFalse
    = OReply ($"ACK 1_DBBC2 BOARD 1 AMP 3 VALUE 1" ++ crlf) /\
  last (snd (run (step true e_std) (init (repeat (b0 0) 4) obs_mode0) amp_bytes_b)) OFalse
    = OReply ($"ACK 1_DBBC2 BOARD 1 AMP 3 VALUE 1.0" ++ crlf).
Proof. vm_compute. split; reflexivity. Qed.
