(* C06 — proofs about the heap model of Model/ShrHeap.v: if the table satisfies the decidable side
   condition [closedb T O] then events of one device never change what another device can
   observe, never change the shared store, and a late instance equals the first one. *)
From DS Require Import Base.Prelude Model.ShrHeap.
From Coq Require Import String.
Open Scope string_scope.
Open Scope list_scope.

(* ------------------------------------------------------------------------- *)
(* list-of-strings helpers *)

Lemma mem_In a l : mem a l = true <-> In a l.
Proof.
  induction l as [|x xs IH]; cbn; [split; [discriminate | tauto]|].
  rewrite orb_true_iff, IH, String.eqb_eq. split; intros [H|H]; auto.
Qed.

Lemma mem2_In a b l : mem2 a b l = true <-> In (a, b) l.
Proof.
  induction l as [|[x y] xs IH]; cbn; [split; [discriminate | tauto]|].
  rewrite orb_true_iff, IH, andb_true_iff, !String.eqb_eq. split.
  - intros [[-> ->]|H]; auto.
  - intros [H|H]; auto. injection H as -> ->. auto.
Qed.

Lemma subset_spec l1 l2 : subset l1 l2 = true -> forall a, mem a l1 = true -> mem a l2 = true.
Proof.
  induction l1 as [|x xs IH]; cbn; intros H a Ha; [discriminate|].
  apply andb_true_iff in H as [H1 H2]. apply orb_true_iff in Ha as [Ha|Ha].
  - apply String.eqb_eq in Ha. subst. exact H1.
  - auto.
Qed.

Lemma mem_remove a b X : mem a (remove_str b X) = mem a X && negb (String.eqb a b).
Proof.
  induction X as [|x xs IH]; cbn; [reflexivity|].
  destruct (String.eqb b x) eqn:Hbx.
  - apply String.eqb_eq in Hbx. subst x. rewrite IH.
    destruct (String.eqb a b); cbn; [rewrite andb_false_r; reflexivity | reflexivity].
  - cbn. rewrite IH. destruct (String.eqb a x) eqn:Hax; cbn; [|reflexivity].
    apply String.eqb_eq in Hax. subst x.
    destruct (String.eqb a b) eqn:Hab; cbn; [|reflexivity].
    apply String.eqb_eq in Hab. subst. rewrite String.eqb_refl in Hbx. discriminate.
Qed.

Lemma find_class_In T k ci : find_class T k = Some ci -> In ci T /\ c_name ci = k.
Proof.
  induction T as [|c T IH]; cbn; [discriminate|].
  destruct (String.eqb k (c_name c)) eqn:E.
  - intros H. injection H as ->. apply String.eqb_eq in E. auto.
  - intros H. destruct (IH H). auto.
Qed.

Lemma assoc_In a l key : assoc a l = Some key -> In (a, key) l.
Proof.
  induction l as [|[x y] xs IH]; cbn; [discriminate|].
  destruct (String.eqb a x) eqn:E.
  - intros H. injection H as ->. apply String.eqb_eq in E. subst. auto.
  - auto.
Qed.

(* ------------------------------------------------------------------------- *)
(* value classes *)

Definition local_val (r : region) (v : val) : Prop :=
  match v with VImm _ => True | VRef l => fst l = r end.
Definition near_val (r : region) (v : val) : Prop :=
  match v with VImm _ => True | VRef l => fst l = r \/ fst l = 0%nat end.

Lemma local_near r v : local_val r v -> near_val r v.
Proof. destruct v; cbn; auto. Qed.

Lemma near0_near r v : near_val 0%nat v -> near_val r v.
Proof. destruct v; cbn; tauto. Qed.

Lemma loc_eqb_eq l1 l2 : loc_eqb l1 l2 = true <-> l1 = l2.
Proof.
  destruct l1, l2. unfold loc_eqb. cbn. rewrite andb_true_iff, !Nat.eqb_eq.
  split; [intros [-> ->]; reflexivity | intros H; injection H; auto].
Qed.

Lemma loc_eqb_region l1 l2 : fst l1 <> fst l2 -> loc_eqb l1 l2 = false.
Proof.
  intros H. destruct (loc_eqb l1 l2) eqn:E; [|reflexivity].
  apply loc_eqb_eq in E. subst. contradiction.
Qed.

(* ------------------------------------------------------------------------- *)
Section Closed.

Variable T : table.
Variable O : cid -> list attr.
Variable Wd : list attr.
Hypothesis Hclosed : closedb T O Wd = true.

Record cfacts (k : cid) (ci : class_info) : Prop := {
  cf_mut : forall a, mem a (c_mutated ci) = true -> mem a (O k) = true;
  cf_alias : forall a b, mem2 a b (c_alias ci) = true -> mem a (O k) = true -> mem b (O k) = true;
  cf_other : forall a b, mem2 a b (c_alias_other ci) = true -> mem a (O k) = true ->
             forall k' cj, find_class T k' = Some cj -> mem b (O k') = true;
  cf_shared : forall a key, mem2 a key (c_alias_shared ci) = true -> mem a (O k) = false;
  cf_del : forall a, mem a (c_deleted ci) = true -> mem a (O k) = false;
  cf_shadow : forall a key, assoc a (c_cattrs ci) = Some key -> mem a (O k) = true ->
              mem a (c_shadowed ci) = true;
  cf_smut : c_smut ci = [];
  cf_srebind : c_srebind ci = []
}.

Lemma closed_facts k ci : find_class T k = Some ci -> cfacts k ci.
Proof.
  intros Hf. destruct (find_class_In _ _ _ Hf) as [Hin Hname].
  pose proof Hclosed as Hc.
  unfold closedb in Hc. apply andb_true_iff in Hc as [_ Hall].
  rewrite forallb_forall in Hall. pose proof (Hall ci Hin) as Hci.
  unfold class_closed in Hci. rewrite Hname in Hci.
  repeat (apply andb_true_iff in Hci as [Hci ?]).
  rename H into Hsr, H0 into Hsm, H1 into Hsh, H2 into Hdel, H3 into Hshared, H4 into Hoth, H5 into Hal,
         H6 into HW.
  split.
  - intros a Ha. apply (subset_spec _ _ Hci). exact Ha.
  - intros a b Hab Ha. rewrite forallb_forall in Hal. apply mem2_In in Hab.
    specialize (Hal _ Hab). cbn in Hal. rewrite Ha in Hal. exact Hal.
  - intros a b Hab Ha k' cj Hcj. rewrite forallb_forall in Hoth. apply mem2_In in Hab.
    specialize (Hoth _ Hab). cbn in Hoth. rewrite Ha in Hoth. cbn in Hoth.
    destruct (find_class_In _ _ _ Hcj) as [Hin' Hn'].
    pose proof (Hall cj Hin') as Hcj'. unfold class_closed in Hcj'. rewrite Hn' in Hcj'.
    repeat (apply andb_true_iff in Hcj' as [Hcj' ?]).
    apply (subset_spec _ _ H6). exact Hoth.
  - intros a key Hab. rewrite forallb_forall in Hshared. apply mem2_In in Hab.
    specialize (Hshared _ Hab). cbn in Hshared. destruct (mem a (O k)); [discriminate|reflexivity].
  - intros a Ha. rewrite forallb_forall in Hdel. apply mem_In in Ha.
    specialize (Hdel _ Ha). destruct (mem a (O k)); [discriminate|reflexivity].
  - intros a key Has Ha. rewrite forallb_forall in Hsh. apply assoc_In in Has.
    specialize (Hsh _ Has). cbn in Hsh. rewrite Ha in Hsh. exact Hsh.
  - destruct (c_smut ci); [reflexivity|discriminate].
  - destruct (c_srebind ci); [reflexivity|discriminate].
Qed.

(* ------------------------------------------------------------------------- *)
(* the invariant; [p] names the instance under construction and the attributes it has not
   rebound yet *)

Definition exempt (p : option (iid * list attr)) (i : iid) (a : attr) : bool :=
  match p with None => false | Some (i0, X) => Nat.eqb i i0 && mem a X end.

Record InvP (p : option (iid * list attr)) (h : heap) : Prop := {
  inv_shared : forall k v, sstore h k = Some v -> near_val 0%nat v;
  inv_near : forall i k r a v, imeta h i = Some (k, r) -> istore h i a = Some v -> near_val r v;
  inv_reg : forall i k r, imeta h i = Some (k, r) -> r <> 0%nat /\ exists ci, find_class T k = Some ci;
  inv_live : forall i k r, imeta h i = Some (k, r) -> (i < icount h)%nat;
  inv_dead : forall i a, imeta h i = None -> istore h i a = None;
  inv_owned : forall i k r a v, imeta h i = Some (k, r) -> mem a (O k) = true ->
              exempt p i a = false -> getattr T h i a = Some v -> local_val r v
}.

Definition Inv := InvP None.

Lemma getattr_near p h i k r a v :
  InvP p h -> imeta h i = Some (k, r) -> getattr T h i a = Some v -> near_val r v.
Proof.
  intros HI Hm Hg. unfold getattr in Hg. destruct (istore h i a) eqn:Hs.
  - injection Hg as <-. eapply inv_near; eauto.
  - rewrite Hm in Hg. unfold class_lookup in Hg.
    destruct (find_class T k) as [ci|]; [|discriminate].
    destruct (assoc a (c_cattrs ci)); [|discriminate].
    apply near0_near. eapply inv_shared; eauto.
Qed.

(* ------------------------------------------------------------------------- *)
(* frame: what an operation through an instance of region r leaves untouched *)

Record frame (r : region) (h h' : heap) : Prop := {
  fr_shared : forall k, sstore h' k = sstore h k;
  fr_obj : forall l, fst l <> r -> obj h' l = obj h l;
  fr_ctr : forall r', r' <> r -> ctr h' r' = ctr h r';
  fr_meta : forall j, imeta h' j = imeta h j;
  fr_count : icount h' = icount h
}.

Lemma frame_refl r h : frame r h h.
Proof. split; auto. Qed.

Lemma alloc_frame h r c h' l : alloc h r c = (h', l) ->
  frame r h h' /\ (forall j a, istore h' j a = istore h j a) /\ fst l = r.
Proof.
  unfold alloc. intros H. injection H as <- <-. split; [split|]; cbn; auto.
  - intros l Hl. rewrite loc_eqb_region; auto.
  - intros r' Hr. apply Nat.eqb_neq in Hr. rewrite Hr. reflexivity.
Qed.

Lemma mutate_frame h l c : frame (fst l) h (mutate_at h l c) /\
  (forall j a, istore (mutate_at h l c) j a = istore h j a).
Proof.
  unfold mutate_at. destruct (obj h l); [|split; [apply frame_refl|auto]].
  split; [split|]; cbn; auto.
  intros l' Hl. rewrite loc_eqb_region; auto.
Qed.

Opaque alloc mutate_at.

(* evaluation of a right-hand side: frame, and the class of the value *)
Lemma eval_src_frame p h i k r ci s h' v :
  InvP p h -> imeta h i = Some (k, r) -> find_class T k = Some ci ->
  eval_src T h i r s = Some (h', v) ->
  frame r h h' /\ (forall j a, istore h' j a = istore h j a) /\ near_val r v.
Proof.
  intros HI Hm Hf He. destruct s as [z|c|b|b|key|j b]; cbn in He.
  - injection He as <- <-. split; [apply frame_refl|]. split; cbn; auto.
  - destruct (alloc h r c) as [h1 l] eqn:Ha. injection He as <- <-.
    destruct (alloc_frame _ _ _ _ _ Ha) as (F & S & L). split; [exact F|]. split; [exact S|].
    cbn. auto.
  - destruct (getattr T h i b) as [[z|l]|] eqn:Hg; [| |discriminate].
    + injection He as <- <-. split; [apply frame_refl|]. split; cbn; auto.
    + destruct (obj h l); [|discriminate].
      destruct (alloc h r z) as [h1 l1] eqn:Ha. injection He as <- <-.
      destruct (alloc_frame _ _ _ _ _ Ha) as (F & S & L). split; [exact F|]. split; [exact S|].
      cbn. auto.
  - destruct (getattr T h i b) eqn:Hg; [|discriminate]. injection He as <- <-.
    split; [apply frame_refl|]. split; [auto|]. eapply getattr_near; eauto.
  - destruct (sstore h key) eqn:Hs; [|discriminate]. injection He as <- <-.
    split; [apply frame_refl|]. split; [auto|]. apply near0_near. eapply inv_shared; eauto.
  - destruct (Nat.eqb j i); [discriminate|].
    destruct (imeta h j) as [[kj rj]|] eqn:Hj; [|discriminate].
    destruct (Nat.eqb rj r) eqn:Hr; [|discriminate]. apply Nat.eqb_eq in Hr. subst rj.
    destruct (getattr T h j b) eqn:Hg; [|discriminate]. injection He as <- <-.
    split; [apply frame_refl|]. split; [auto|]. eapply getattr_near; eauto.
Qed.

(* when the target attribute is owned, the value is local *)
Lemma eval_src_local p h i k r ci a s h' v :
  InvP p h -> imeta h i = Some (k, r) -> find_class T k = Some ci ->
  src_allowed ci a s = true -> mem a (O k) = true ->
  (forall b, s = SSelf b -> exempt p i b = false) ->
  (forall j b, s = SOther j b -> forall a', exempt p j a' = false) ->
  eval_src T h i r s = Some (h', v) -> local_val r v.
Proof.
  intros HI Hm Hf Hal Ha Hself Hoth He.
  pose proof (closed_facts _ _ Hf) as CF.
  destruct s as [z|c|b|b|key|j b]; cbn in He, Hal.
  - injection He as <- <-. exact I.
  - destruct (alloc h r c) as [h1 l] eqn:Hall. injection He as <- <-.
    apply alloc_frame in Hall. cbn. tauto.
  - destruct (getattr T h i b) as [[z|l]|] eqn:Hg; [| |discriminate].
    + injection He as <- <-. exact I.
    + destruct (obj h l); [|discriminate].
      destruct (alloc h r z) as [h1 l1] eqn:Hall. injection He as <- <-.
      apply alloc_frame in Hall. cbn. tauto.
  - destruct (getattr T h i b) eqn:Hg; [|discriminate]. injection He as <- <-.
    apply (inv_owned _ _ HI i k r b v0 Hm);
      [eapply cf_alias; eauto | apply Hself; reflexivity | exact Hg].
  - rewrite (cf_shared _ _ CF _ _ Hal) in Ha. discriminate.
  - destruct (Nat.eqb j i); [discriminate|].
    destruct (imeta h j) as [[kj rj]|] eqn:Hj; [|discriminate].
    destruct (Nat.eqb rj r) eqn:Hr; [|discriminate]. apply Nat.eqb_eq in Hr. subst rj.
    destruct (getattr T h j b) eqn:Hg; [|discriminate]. injection He as <- <-.
    destruct (inv_reg _ _ HI _ _ _ Hj) as [_ [cj Hcj]].
    apply (inv_owned _ _ HI j kj r b v0 Hj);
      [eapply cf_other; eauto | eapply Hoth; reflexivity | exact Hg].
Qed.

(* getattr after updates *)
Lemma getattr_frame h h' j a :
  (forall k, sstore h' k = sstore h k) -> (forall a', istore h' j a' = istore h j a') ->
  imeta h' j = imeta h j -> getattr T h' j a = getattr T h j a.
Proof.
  intros Hs Hi Hm. unfold getattr, class_lookup. rewrite Hi, Hm.
  destruct (istore h j a); [reflexivity|]. destruct (imeta h j) as [[k ?]|]; [|reflexivity].
  destruct (find_class T k); [|reflexivity]. destruct (assoc a (c_cattrs c)); [|reflexivity].
  apply Hs.
Qed.

(* which operations of a script may use a not-yet-rebound attribute *)
Definition op_uses_ok (X : list attr) (o : op) : bool :=
  match o with
  | ORebind _ s => src_uses_ok X s
  | OMutate a _ => negb (mem a X)
  | _ => true
  end.

Definition next_X (X : list attr) (o : op) : list attr :=
  match o with
  | ORebind a s => if src_local s then remove_str a X else X
  | _ => X
  end.

(* the pending set after an operation through instance i *)
Definition next_p (p : option (iid * list attr)) (i : iid) (o : op) : option (iid * list attr) :=
  match p with
  | Some (i0, X) => if Nat.eqb i i0 then Some (i0, next_X X o) else p
  | None => None
  end.

(* side condition on an operation through i given the pending state *)
Definition op_ok_for (p : option (iid * list attr)) (i : iid) (o : op) : Prop :=
  match p with
  | Some (i0, X) => if Nat.eqb i i0 then op_uses_ok X o = true
                    else match o with ORebind _ (SOther j _) => j <> i0 | _ => True end
  | None => True
  end.

Lemma exempt_next p i o j a : exempt (next_p p i o) j a = true -> exempt p j a = true.
Proof.
  destruct p as [[i0 X]|]; cbn; [|auto].
  destruct (Nat.eqb i i0) eqn:E; cbn; [|auto].
  intros H. apply andb_true_iff in H as [H1 H2]. rewrite H1. cbn.
  destruct o as [a0 s| | | |]; cbn in H2; auto.
  destruct (src_local s); auto. rewrite mem_remove in H2. apply andb_true_iff in H2. tauto.
Qed.

Lemma set_iattr_getattr h i a v j b :
  getattr T (set_iattr h i a v) j b =
  if Nat.eqb j i && String.eqb b a
  then match v with Some x => Some x
       | None => match imeta h j with Some (k, _) => class_lookup T h k b | None => None end end
  else getattr T h j b.
Proof.
  unfold getattr. cbn. destruct (Nat.eqb j i && String.eqb b a); [|reflexivity].
  destruct v; reflexivity.
Qed.

Lemma step_op_inv p h i k r ci o h' :
  InvP p h -> imeta h i = Some (k, r) -> find_class T k = Some ci ->
  op_allowed ci o = true -> op_ok_for p i o ->
  step_op_opt T h i o = Some h' ->
  InvP (next_p p i o) h' /\ frame r h h' /\
  (forall j a, j <> i -> istore h' j a = istore h j a).
Proof.
  intros HI Hm Hf Hal Hok Hstep.
  pose proof (closed_facts _ _ Hf) as CF.
  destruct (inv_reg _ _ HI _ _ _ Hm) as [Hr0 _].
  unfold step_op_opt in Hstep. rewrite Hm in Hstep.
  destruct o as [a s|a c|a|key c|key s]; cbn in Hal.
  - (* ORebind *)
    destruct (eval_src T h i r s) as [[h1 v]|] eqn:He; [|discriminate].
    injection Hstep as <-.
    destruct (eval_src_frame _ _ _ _ _ _ _ _ _ HI Hm Hf He) as (F & S & Hnear).
    split; [|split].
    + split; cbn.
      * intros k0 v0. rewrite (fr_shared _ _ _ F). apply HI.
      * intros j kj rj b w. rewrite (fr_meta _ _ _ F). intros Hj.
        destruct (Nat.eqb j i && String.eqb b a) eqn:E.
        -- intros Hw. injection Hw as <-. apply andb_true_iff in E as [E _].
           apply Nat.eqb_eq in E. subst j. rewrite Hm in Hj. injection Hj as <- <-. exact Hnear.
        -- rewrite S. eapply inv_near; eauto.
      * intros j kj rj. rewrite (fr_meta _ _ _ F). apply HI.
      * intros j kj rj. rewrite (fr_meta _ _ _ F), (fr_count _ _ _ F). apply HI.
      * intros j b. rewrite (fr_meta _ _ _ F). intros Hj.
        destruct (Nat.eqb j i && String.eqb b a) eqn:E.
        -- apply andb_true_iff in E as [E _]. apply Nat.eqb_eq in E. subst j. congruence.
        -- rewrite S. eapply inv_dead; eauto.
      * intros j kj rj b w. cbn. intros Hj Hb Hex.
        assert (Hj' : imeta h j = Some (kj, rj)) by (rewrite <- (fr_meta _ _ _ F); exact Hj).
        rewrite set_iattr_getattr.
        destruct (Nat.eqb j i && String.eqb b a) eqn:E.
        -- intros Hw. injection Hw as <-. apply andb_true_iff in E as [E1 E2].
           apply Nat.eqb_eq in E1. apply String.eqb_eq in E2. subst j b.
           rewrite Hm in Hj'. injection Hj' as <- <-.
           eapply (eval_src_local p h i k r ci a s); eauto.
           ++ intros b ->. destruct p as [[i0 X]|]; cbn; [|reflexivity].
              cbn in Hok. destruct (Nat.eqb i i0) eqn:Ei; [|reflexivity]. cbn in Hok. cbn.
              destruct (mem b X); [discriminate|reflexivity].
           ++ intros j b -> a'. destruct p as [[i0 X]|]; cbn; [|reflexivity].
              cbn in Hok. destruct (Nat.eqb i i0) eqn:Ei; [cbn in Hok; discriminate|].
              apply Nat.eqb_neq in Hok. rewrite Hok. reflexivity.
        -- rewrite (getattr_frame h h1 j b (fr_shared _ _ _ F) (fun a' => S j a') (fr_meta _ _ _ F j)).
           intros Hw. apply (inv_owned _ _ HI j kj rj b w Hj' Hb); [|exact Hw].
           destruct (exempt p j b) eqn:Ex; [|reflexivity].
           (* exempt before but not after: j = i0 = i and b = a was just removed: contradiction with E *)
           destruct p as [[i0 X]|]; cbn in Ex; [|discriminate].
           apply andb_true_iff in Ex as [Ex1 Ex2]. apply Nat.eqb_eq in Ex1. subst i0.
           cbn in Hex. destruct (Nat.eqb i j) eqn:Eij.
           ++ cbn in Hex. rewrite Nat.eqb_refl in Hex. cbn in Hex.
              destruct (src_local s); [|congruence].
              rewrite mem_remove, Ex2 in Hex. cbn in Hex.
              apply negb_false_iff in Hex. apply Nat.eqb_eq in Eij. subst j.
              rewrite Nat.eqb_refl, Hex in E. discriminate.
           ++ cbn in Hex. rewrite Nat.eqb_refl, Ex2 in Hex. discriminate.
    + split; cbn; try apply F.
    + intros j b Hj. cbn. apply Nat.eqb_neq in Hj. rewrite Hj. cbn. apply S.
  - (* OMutate *)
    assert (Hex : exempt p i a = false).
    { destruct p as [[i0 X]|]; cbn; [|reflexivity]. cbn in Hok.
      destruct (Nat.eqb i i0); [|reflexivity]. cbn in Hok. cbn.
      destruct (mem a X); [discriminate|reflexivity]. }
    assert (Hp : next_p p i (OMutate a c) = p).
    { destruct p as [[i0 X]|]; cbn; [|reflexivity]. destruct (Nat.eqb i i0); reflexivity. }
    rewrite Hp.
    destruct (getattr T h i a) as [[z|l]|] eqn:Hg; try discriminate.
    injection Hstep as <-.
    assert (Hl : fst l = r).
    { apply (inv_owned _ _ HI i k r a (VRef l)); auto. eapply cf_mut; eauto. }
    destruct (mutate_frame h l c) as [F S]. rewrite Hl in F.
    split; [|split; [exact F|intros; apply S]].
    split.
    + intros k0 v0. rewrite (fr_shared _ _ _ F). apply HI.
    + intros j kj rj b w. rewrite (fr_meta _ _ _ F), S. apply HI.
    + intros j kj rj. rewrite (fr_meta _ _ _ F). apply HI.
    + intros j kj rj. rewrite (fr_meta _ _ _ F), (fr_count _ _ _ F). apply HI.
    + intros j b. rewrite (fr_meta _ _ _ F), S. apply HI.
    + intros j kj rj b w. rewrite (fr_meta _ _ _ F).
      rewrite (getattr_frame h _ j b (fr_shared _ _ _ F) (fun a' => S j a') (fr_meta _ _ _ F j)).
      apply HI.
  - (* ODel *)
    assert (Hp : next_p p i (ODel a) = p).
    { destruct p as [[i0 X]|]; cbn; [|reflexivity]. destruct (Nat.eqb i i0); reflexivity. }
    rewrite Hp.
    destruct (istore h i a) eqn:Hia; [|discriminate]. injection Hstep as <-.
    split; [|split].
    + split; cbn; try apply HI.
      * intros j kj rj b w Hj. destruct (Nat.eqb j i && String.eqb b a); [discriminate|].
        eapply inv_near; eauto.
      * intros j b Hj. destruct (Nat.eqb j i && String.eqb b a); [reflexivity|].
        eapply inv_dead; eauto.
      * intros j kj rj b w Hj Hb Hex. rewrite set_iattr_getattr.
        destruct (Nat.eqb j i && String.eqb b a) eqn:E.
        -- apply andb_true_iff in E as [E1 E2].
           apply Nat.eqb_eq in E1. apply String.eqb_eq in E2. subst j b.
           cbn in Hj. rewrite Hm in Hj. injection Hj as <- <-.
           rewrite (cf_del _ _ CF _ Hal) in Hb. discriminate.
        -- apply (inv_owned _ _ HI j kj rj b w Hj Hb Hex).
    + split; auto.
    + intros j b Hj. cbn. apply Nat.eqb_neq in Hj. rewrite Hj. reflexivity.
  - rewrite (cf_smut _ _ CF) in Hal. discriminate.
  - rewrite (cf_srebind _ _ CF) in Hal. discriminate.
Qed.

Lemma frame_trans r h1 h2 h3 : frame r h1 h2 -> frame r h2 h3 -> frame r h1 h3.
Proof.
  intros A B. split.
  - intros k. rewrite (fr_shared _ _ _ B). apply A.
  - intros l Hl. rewrite (fr_obj _ _ _ B l Hl). apply A; auto.
  - intros r' Hr. rewrite (fr_ctr _ _ _ B r' Hr). apply A; auto.
  - intros j. rewrite (fr_meta _ _ _ B). apply A.
  - rewrite (fr_count _ _ _ B). apply A.
Qed.

Lemma InvP_done i0 h : InvP (Some (i0, [])) h -> InvP None h.
Proof.
  intros HI. split; try apply HI.
  intros i k r a v Hm Ha _. apply (inv_owned _ _ HI i k r a v Hm Ha).
  cbn. apply andb_false_r.
Qed.

Lemma script_conf_step ci X o rest :
  script_conf ci X (o :: rest) = true ->
  op_allowed ci o = true /\ op_uses_ok X o = true /\ script_conf ci (next_X X o) rest = true.
Proof.
  cbn [script_conf]. intros H. apply andb_true_iff in H as [H1 H2]. split; [exact H1|].
  destruct o as [a s|a c|a|key c|key s]; cbn.
  - apply andb_true_iff in H2. exact H2.
  - apply andb_true_iff in H2. exact H2.
  - apply andb_true_iff in H2 as [_ H2]. auto.
  - auto.
  - auto.
Qed.

Lemma run_script_inv ci k r i0 : forall script X h h',
  InvP (Some (i0, X)) h -> imeta h i0 = Some (k, r) -> find_class T k = Some ci ->
  script_conf ci X script = true -> run_script T h i0 script = Some h' ->
  InvP None h' /\ frame r h h' /\ (forall j a, j <> i0 -> istore h' j a = istore h j a).
Proof.
  induction script as [|o rest IH]; intros X h h' HI Hm Hf Hc Hrun.
  - cbn in Hrun. injection Hrun as <-. cbn in Hc. destruct X; [|discriminate].
    split; [eapply InvP_done; eauto|]. split; [apply frame_refl|auto].
  - cbn in Hrun. destruct (step_op_opt T h i0 o) as [h1|] eqn:Hs; [|discriminate].
    destruct (script_conf_step _ _ _ _ Hc) as (Hal & Huse & Hrest).
    assert (Hok : op_ok_for (Some (i0, X)) i0 o) by (cbn; rewrite Nat.eqb_refl; exact Huse).
    destruct (step_op_inv _ _ _ _ _ _ _ _ HI Hm Hf Hal Hok Hs) as (HI1 & F1 & S1).
    cbn in HI1. rewrite Nat.eqb_refl in HI1.
    assert (Hm1 : imeta h1 i0 = Some (k, r)) by (rewrite (fr_meta _ _ _ F1); exact Hm).
    destruct (IH _ _ _ HI1 Hm1 Hf Hrest Hrun) as (HI2 & F2 & S2).
    split; [exact HI2|]. split; [eapply frame_trans; eauto|].
    intros j a Hj. rewrite S2, S1; auto.
Qed.

(* ------------------------------------------------------------------------- *)
(* what an observer in region rB keeps *)

Record same_on (rB : region) (h h' : heap) : Prop := {
  so_shared : forall k, sstore h' k = sstore h k;
  so_obj0 : forall n, obj h' (0%nat, n) = obj h (0%nat, n);
  so_obj : forall n, obj h' (rB, n) = obj h (rB, n);
  so_ctr : ctr h' rB = ctr h rB;
  so_meta : forall j k, imeta h' j = Some (k, rB) <-> imeta h j = Some (k, rB);
  so_store : forall j k a, imeta h j = Some (k, rB) -> istore h' j a = istore h j a
}.

Lemma same_on_refl rB h : same_on rB h h.
Proof. split; auto. tauto. Qed.

Lemma same_on_trans rB h1 h2 h3 : same_on rB h1 h2 -> same_on rB h2 h3 -> same_on rB h1 h3.
Proof.
  intros A B. split.
  - intros k. rewrite (so_shared _ _ _ B). apply A.
  - intros n. rewrite (so_obj0 _ _ _ B). apply A.
  - intros n. rewrite (so_obj _ _ _ B). apply A.
  - rewrite (so_ctr _ _ _ B). apply A.
  - intros j k. rewrite (so_meta _ _ _ B). apply A.
  - intros j k a Hj. rewrite (so_store _ _ _ B j k a); [apply (so_store _ _ _ A j k a Hj)|].
    apply (so_meta _ _ _ A). exact Hj.
Qed.

Definition ev_region (h : heap) (e : event) : option region :=
  match e with
  | ENew _ r _ => Some r
  | EOp i _ => match imeta h i with Some (_, r) => Some r | None => None end
  end.

Lemma frame_same_on r rB h h' i :
  r <> rB -> r <> 0%nat -> frame r h h' ->
  (forall k, imeta h i <> Some (k, rB)) ->
  (forall j a, j <> i -> istore h' j a = istore h j a) -> same_on rB h h'.
Proof.
  intros Hr H0 F Hi S. split.
  - apply F.
  - intros n. apply (fr_obj _ _ _ F). cbn. auto.
  - intros n. apply (fr_obj _ _ _ F). cbn. auto.
  - apply (fr_ctr _ _ _ F). auto.
  - intros j k. rewrite (fr_meta _ _ _ F). tauto.
  - intros j k a Hj. apply S. intros ->. exact (Hi _ Hj).
Qed.

Lemma imeta_next_none h : Inv h -> imeta h (icount h) = None.
Proof.
  intros HI. destruct (imeta h (icount h)) as [[k r]|] eqn:E; [|reflexivity].
  pose proof (inv_live _ _ HI _ _ _ E). lia.
Qed.

Lemma new_inst_inv h k r ci :
  Inv h -> r <> 0%nat -> find_class T k = Some ci ->
  InvP (Some (icount h, c_shadowed ci)) (new_inst h k r).
Proof.
  intros HI Hr Hf. pose proof (imeta_next_none _ HI) as Hnone.
  pose proof (closed_facts _ _ Hf) as CF.
  split; cbn.
  - apply HI.
  - intros i k0 r0 a v. destruct (Nat.eqb i (icount h)) eqn:E.
    + apply Nat.eqb_eq in E. subst i. rewrite (inv_dead _ _ HI _ a Hnone). discriminate.
    + apply HI.
  - intros i k0 r0. destruct (Nat.eqb i (icount h)) eqn:E.
    + intros H. injection H as <- <-. split; [exact Hr|eauto].
    + apply HI.
  - intros i k0 r0. destruct (Nat.eqb i (icount h)) eqn:E.
    + apply Nat.eqb_eq in E. subst i. lia.
    + intros H. pose proof (inv_live _ _ HI _ _ _ H). lia.
  - intros i a. destruct (Nat.eqb i (icount h)) eqn:E; [discriminate|]. apply HI.
  - intros i k0 r0 a v. unfold getattr. cbn. destruct (Nat.eqb i (icount h)) eqn:E.
    + apply Nat.eqb_eq in E. subst i. intros H. injection H as <- <-.
      intros Ha Hex.
      rewrite (inv_dead _ _ HI _ a Hnone). unfold class_lookup. cbn. rewrite Hf.
      destruct (assoc a (c_cattrs ci)) eqn:Has; [|discriminate].
      rewrite (cf_shadow _ _ CF _ _ Has Ha) in Hex. discriminate.
    + intros Hm Ha _ Hg. apply (inv_owned _ _ HI i k0 r0 a v Hm Ha eq_refl).
      unfold getattr. rewrite Hm. rewrite Hm in Hg. exact Hg.
Qed.

Lemma allowed_region h e : Inv h -> allowedb T h e = true ->
  exists r, ev_region h e = Some r /\ r <> 0%nat.
Proof.
  intros HI Hal. destruct e as [k r script|i o]; cbn in *.
  - destruct (find_class T k); [|discriminate]. apply andb_true_iff in Hal as [Hr _].
    exists r. split; [reflexivity|]. apply negb_true_iff, Nat.eqb_neq in Hr. exact Hr.
  - destruct (imeta h i) as [[k r]|] eqn:Hm; [|discriminate].
    exists r. split; [reflexivity|]. eapply inv_reg; eauto.
Qed.

Lemma step_inv h e rB :
  Inv h -> allowedb T h e = true -> ev_region h e <> Some rB ->
  Inv (step T h e) /\ same_on rB h (step T h e).
Proof.
  intros HI Hal Hreg. destruct e as [k r script|i o]; cbn in *.
  - destruct (find_class T k) as [ci|] eqn:Hf; [|discriminate].
    apply andb_true_iff in Hal as [Hr Hconf]. apply negb_true_iff, Nat.eqb_neq in Hr.
    destruct r as [|r']; [contradiction|]. set (r := S r') in *.
    destruct (run_script T (new_inst h k r) (icount h) script) as [h'|] eqn:Hrun;
      [|split; [exact HI|apply same_on_refl]].
    pose proof (new_inst_inv h k r ci HI Hr Hf) as HI0.
    assert (Hm0 : imeta (new_inst h k r) (icount h) = Some (k, r)) by (cbn; rewrite Nat.eqb_refl; reflexivity).
    destruct (run_script_inv ci k r _ _ _ _ _ HI0 Hm0 Hf Hconf Hrun) as (HI1 & F & S).
    split; [exact HI1|].
    assert (Hne : r <> rB) by congruence.
    pose proof (imeta_next_none _ HI) as Hnone.
    split.
    + intros key. rewrite (fr_shared _ _ _ F). reflexivity.
    + intros n. rewrite (fr_obj _ _ _ F); [reflexivity|cbn; auto].
    + intros n. rewrite (fr_obj _ _ _ F); [reflexivity|cbn; auto].
    + rewrite (fr_ctr _ _ _ F); [reflexivity|auto].
    + intros j k0. rewrite (fr_meta _ _ _ F). cbn. destruct (Nat.eqb j (icount h)) eqn:E.
      * apply Nat.eqb_eq in E. subst j. rewrite Hnone. split; [|discriminate].
        intros H. injection H as <- <-. contradiction.
      * tauto.
    + intros j k0 a Hj. rewrite S; [reflexivity|]. intros ->. congruence.
  - unfold step_op. destruct (imeta h i) as [[k r]|] eqn:Hm; [|discriminate].
    destruct (find_class T k) as [ci|] eqn:Hf; [|discriminate].
    destruct (step_op_opt T h i o) as [h'|] eqn:Hs; [|split; [exact HI|apply same_on_refl]].
    destruct (step_op_inv None _ _ _ _ _ _ _ HI Hm Hf Hal I Hs) as (HI1 & F & S).
    split; [exact HI1|].
    destruct (inv_reg _ _ HI _ _ _ Hm) as [Hr0 _].
    eapply (frame_same_on r rB h h' i); eauto; try congruence.
Qed.

(* a run of permitted events none of which belongs to region rB *)
Fixpoint all_ok (rB : region) (h : heap) (evs : list event) : Prop :=
  match evs with
  | [] => True
  | e :: es => allowedb T h e = true /\ ev_region h e <> Some rB /\ all_ok rB (step T h e) es
  end.

Lemma run_inv rB : forall evs h, Inv h -> all_ok rB h evs ->
  Inv (run T h evs) /\ same_on rB h (run T h evs).
Proof.
  induction evs as [|e es IH]; intros h HI Hok; cbn in *.
  - split; [exact HI|apply same_on_refl].
  - destruct Hok as (Hal & Hreg & Hrest).
    destruct (step_inv h e rB HI Hal Hreg) as [HI1 S1].
    destruct (IH _ HI1 Hrest) as [HI2 S2].
    split; [exact HI2|eapply same_on_trans; eauto].
Qed.

Lemma same_on_getattr rB h h' B kB a :
  same_on rB h h' -> imeta h B = Some (kB, rB) -> getattr T h' B a = getattr T h B a.
Proof.
  intros S Hm. apply getattr_frame.
  - apply S.
  - intros a'. eapply so_store; eauto.
  - rewrite Hm. apply (so_meta _ _ _ S). exact Hm.
Qed.

Lemma same_on_deep rB h h' v : same_on rB h h' -> near_val rB v -> deep h' (Some v) = deep h (Some v).
Proof.
  intros S Hn. destruct v as [z|[r n]]; cbn; [reflexivity|]. cbn in Hn. f_equal.
  destruct Hn as [->| ->]; apply S.
Qed.

Lemma same_on_view rB h h' B kB a :
  Inv h -> same_on rB h h' -> imeta h B = Some (kB, rB) -> view T h' B a = view T h B a.
Proof.
  intros HI S Hm. unfold view. rewrite (same_on_getattr _ _ _ _ _ a S Hm).
  destruct (getattr T h B a) eqn:Hg; [|reflexivity].
  eapply same_on_deep; eauto. eapply getattr_near; eauto.
Qed.

Lemma same_on_sview rB h h' key : Inv h -> same_on rB h h' -> sview h' key = sview h key.
Proof.
  intros HI S. unfold sview. rewrite (so_shared _ _ _ S).
  destruct (sstore h key) as [[z|[r n]]|] eqn:Hs; cbn; try reflexivity.
  pose proof (inv_shared _ _ HI _ _ Hs) as Hn. cbn in Hn. f_equal.
  destruct Hn as [->| ->]; apply S.
Qed.

(* THE theorem: events of other devices change nothing an instance B can observe, nor the
   shared store *)
Theorem noninterference_inv rB h evs B kB :
  Inv h -> imeta h B = Some (kB, rB) -> all_ok rB h evs ->
  (forall a, view T (run T h evs) B a = view T h B a) /\
  (forall key, sview (run T h evs) key = sview h key) /\
  (forall key, sstore (run T h evs) key = sstore h key) /\
  imeta (run T h evs) B = Some (kB, rB).
Proof.
  intros HI Hm Hok. destruct (run_inv rB evs h HI Hok) as [_ S].
  split; [|split; [|split]].
  - intros a. eapply same_on_view; eauto.
  - intros key. eapply same_on_sview; eauto.
  - apply S.
  - apply (so_meta _ _ _ S). exact Hm.
Qed.

(* ------------------------------------------------------------------------- *)
(* a late instance equals the first one *)

Transparent alloc mutate_at.

Record twin (k : cid) (r : region) (i1 i2 : iid) (h1 h2 : heap) : Prop := {
  tw_shared : forall key, sstore h1 key = sstore h2 key;
  tw_obj0 : forall n, obj h1 (0%nat, n) = obj h2 (0%nat, n);
  tw_obj : forall n, obj h1 (r, n) = obj h2 (r, n);
  tw_ctr : ctr h1 r = ctr h2 r;
  tw_store : forall a, istore h1 i1 a = istore h2 i2 a;
  tw_meta1 : imeta h1 i1 = Some (k, r);
  tw_meta2 : imeta h2 i2 = Some (k, r)
}.

Lemma twin_getattr k r i1 i2 h1 h2 a : twin k r i1 i2 h1 h2 ->
  getattr T h1 i1 a = getattr T h2 i2 a.
Proof.
  intros W. unfold getattr, class_lookup. rewrite (tw_store _ _ _ _ _ _ W), (tw_meta1 _ _ _ _ _ _ W),
    (tw_meta2 _ _ _ _ _ _ W).
  destruct (istore h2 i2 a); [reflexivity|]. destruct (find_class T k); [|reflexivity].
  destruct (assoc a (c_cattrs c)); [|reflexivity]. apply W.
Qed.

Lemma twin_obj_near k r i1 i2 h1 h2 l : twin k r i1 i2 h1 h2 ->
  (fst l = r \/ fst l = 0%nat) -> obj h1 l = obj h2 l.
Proof. intros W. destruct l as [r' n]. cbn. intros [->| ->]; apply W. Qed.

Lemma twin_alloc k r i1 i2 h1 h2 c : twin k r i1 i2 h1 h2 -> r <> 0%nat ->
  twin k r i1 i2 (fst (alloc h1 r c)) (fst (alloc h2 r c)) /\ snd (alloc h1 r c) = snd (alloc h2 r c).
Proof.
  intros W Hr. unfold alloc. cbn. rewrite (tw_ctr _ _ _ _ _ _ W). split; [|reflexivity].
  split; cbn; try apply W.
  - intros n. rewrite (tw_obj0 _ _ _ _ _ _ W). reflexivity.
  - intros n. rewrite (tw_obj _ _ _ _ _ _ W). reflexivity.
  - rewrite Nat.eqb_refl. reflexivity.
Qed.

Lemma twin_set_iattr k r i1 i2 h1 h2 a v : twin k r i1 i2 h1 h2 ->
  twin k r i1 i2 (set_iattr h1 i1 a v) (set_iattr h2 i2 a v).
Proof.
  intros W. split; cbn; try apply W.
  intros a'. rewrite !Nat.eqb_refl. cbn. destruct (String.eqb a' a); [reflexivity|apply W].
Qed.

Lemma twin_mutate k r i1 i2 h1 h2 l c : twin k r i1 i2 h1 h2 ->
  (fst l = r \/ fst l = 0%nat) ->
  twin k r i1 i2 (mutate_at h1 l c) (mutate_at h2 l c).
Proof.
  intros W Hl. unfold mutate_at. rewrite (twin_obj_near _ _ _ _ _ _ _ W Hl).
  destruct (obj h2 l); [|exact W].
  split; cbn; try apply W.
  - intros n. rewrite (tw_obj0 _ _ _ _ _ _ W). reflexivity.
  - intros n. rewrite (tw_obj _ _ _ _ _ _ W). reflexivity.
Qed.

Definition no_other (s : src) : bool := match s with SOther _ _ => false | _ => true end.

Lemma twin_eval k r i1 i2 h1 h2 p1 p2 s :
  twin k r i1 i2 h1 h2 -> InvP p1 h1 -> InvP p2 h2 -> r <> 0%nat -> no_other s = true ->
  match eval_src T h1 i1 r s, eval_src T h2 i2 r s with
  | Some (h1', v1), Some (h2', v2) => twin k r i1 i2 h1' h2' /\ v1 = v2
  | None, None => True
  | _, _ => False
  end.
Proof.
  intros W HI1 HI2 Hr Hno. destruct s as [z|c|b|b|key|j b]; cbn [eval_src]; try discriminate.
  - auto.
  - destruct (twin_alloc _ _ _ _ _ _ c W Hr) as [W' L].
    destruct (alloc h1 r c) as [a1 l1], (alloc h2 r c) as [a2 l2]. cbn in *. subst. auto.
  - rewrite <- (twin_getattr _ _ _ _ _ _ b W).
    destruct (getattr T h1 i1 b) as [[z|l]|] eqn:Hg; auto.
    assert (Hn : fst l = r \/ fst l = 0%nat).
    { apply (getattr_near _ _ _ _ _ _ _ HI1 (tw_meta1 _ _ _ _ _ _ W) Hg). }
    rewrite <- (twin_obj_near _ _ _ _ _ _ _ W Hn). destruct (obj h1 l) as [c|]; auto.
    destruct (twin_alloc _ _ _ _ _ _ c W Hr) as [W' L].
    destruct (alloc h1 r c) as [a1 l1], (alloc h2 r c) as [a2 l2]. cbn in *. subst. auto.
  - rewrite <- (twin_getattr _ _ _ _ _ _ b W). destruct (getattr T h1 i1 b); auto.
  - rewrite <- (tw_shared _ _ _ _ _ _ W). destruct (sstore h1 key); auto.
Qed.

Definition op_no_other (o : op) : bool :=
  match o with ORebind _ s => no_other s | _ => true end.

Lemma twin_step k r ci i1 i2 h1 h2 p1 p2 o :
  twin k r i1 i2 h1 h2 -> InvP p1 h1 -> InvP p2 h2 -> find_class T k = Some ci ->
  op_allowed ci o = true -> op_no_other o = true ->
  match step_op_opt T h1 i1 o, step_op_opt T h2 i2 o with
  | Some h1', Some h2' => twin k r i1 i2 h1' h2'
  | None, None => True
  | _, _ => False
  end.
Proof.
  intros W HI1 HI2 Hf Hal Hno.
  pose proof (closed_facts _ _ Hf) as CF.
  destruct (inv_reg _ _ HI1 _ _ _ (tw_meta1 _ _ _ _ _ _ W)) as [Hr _].
  unfold step_op_opt. rewrite (tw_meta1 _ _ _ _ _ _ W), (tw_meta2 _ _ _ _ _ _ W).
  destruct o as [a s|a c|a|key c|key s]; cbn in Hal, Hno.
  - pose proof (twin_eval _ _ _ _ _ _ _ _ s W HI1 HI2 Hr Hno) as E.
    destruct (eval_src T h1 i1 r s) as [[h1' v1]|], (eval_src T h2 i2 r s) as [[h2' v2]|]; auto.
    destruct E as [W' ->]. apply twin_set_iattr. exact W'.
  - rewrite <- (twin_getattr _ _ _ _ _ _ a W).
    destruct (getattr T h1 i1 a) as [[z|l]|] eqn:Hg; auto.
    apply twin_mutate; [exact W|].
    apply (getattr_near _ _ _ _ _ _ _ HI1 (tw_meta1 _ _ _ _ _ _ W) Hg).
  - rewrite <- (tw_store _ _ _ _ _ _ W). destruct (istore h1 i1 a); auto.
    apply twin_set_iattr. exact W.
  - rewrite (cf_smut _ _ CF) in Hal. discriminate.
  - rewrite (cf_srebind _ _ CF) in Hal. discriminate.
Qed.

Lemma script_no_other ci X o rest : script_conf ci X (o :: rest) = true -> op_no_other o = true.
Proof.
  intros H. destruct (script_conf_step _ _ _ _ H) as (_ & Hu & _).
  destruct o as [a s| | | |]; cbn in *; auto. destruct s; cbn in *; auto.
Qed.

Lemma twin_script k r ci i1 i2 : forall script X h1 h2,
  twin k r i1 i2 h1 h2 -> InvP (Some (i1, X)) h1 -> InvP (Some (i2, X)) h2 ->
  find_class T k = Some ci -> script_conf ci X script = true ->
  match run_script T h1 i1 script, run_script T h2 i2 script with
  | Some h1', Some h2' => twin k r i1 i2 h1' h2'
  | None, None => True
  | _, _ => False
  end.
Proof.
  induction script as [|o rest IH]; intros X h1 h2 W HI1 HI2 Hf Hc; cbn [run_script].
  - exact W.
  - destruct (script_conf_step _ _ _ _ Hc) as (Hal & Huse & Hrest).
    pose proof (script_no_other _ _ _ _ Hc) as Hno.
    pose proof (twin_step _ _ _ _ _ _ _ _ _ o W HI1 HI2 Hf Hal Hno) as E.
    destruct (step_op_opt T h1 i1 o) as [h1'|] eqn:Hs1, (step_op_opt T h2 i2 o) as [h2'|] eqn:Hs2;
      try contradiction; auto.
    assert (Hok1 : op_ok_for (Some (i1, X)) i1 o) by (cbn; rewrite Nat.eqb_refl; exact Huse).
    assert (Hok2 : op_ok_for (Some (i2, X)) i2 o) by (cbn; rewrite Nat.eqb_refl; exact Huse).
    destruct (step_op_inv _ _ _ _ _ _ _ _ HI1 (tw_meta1 _ _ _ _ _ _ W) Hf Hal Hok1 Hs1) as (HI1' & _ & _).
    destruct (step_op_inv _ _ _ _ _ _ _ _ HI2 (tw_meta2 _ _ _ _ _ _ W) Hf Hal Hok2 Hs2) as (HI2' & _ & _).
    cbn in HI1', HI2'. rewrite Nat.eqb_refl in HI1', HI2'.
    exact (IH (next_X X o) h1' h2' E HI1' HI2' Hf Hrest).
Qed.

Definition fresh_region (h : heap) (r : region) : Prop :=
  ctr h r = 0%nat /\ (forall n, obj h (r, n) = None) /\ (forall j k, imeta h j <> Some (k, r)).

Lemma same_on_fresh r h h' : same_on r h h' -> fresh_region h r -> fresh_region h' r.
Proof.
  intros S (C & Ob & M). split; [|split].
  - rewrite (so_ctr _ _ _ S). exact C.
  - intros n. rewrite (so_obj _ _ _ S). apply Ob.
  - intros j k Hj. apply (so_meta _ _ _ S) in Hj. exact (M _ _ Hj).
Qed.

(* two heaps with the same shared part, in both of which region r is unused: constructing an
   instance of class k there gives the same result (same success/failure, same view) *)
Theorem fresh_equal_inv h1 h2 k r script :
  Inv h1 -> Inv h2 ->
  (forall key, sstore h1 key = sstore h2 key) -> (forall n, obj h1 (0%nat, n) = obj h2 (0%nat, n)) ->
  fresh_region h1 r -> fresh_region h2 r ->
  allowedb T h1 (ENew k r script) = true ->
  let h1' := step T h1 (ENew k r script) in
  let h2' := step T h2 (ENew k r script) in
  (imeta h1' (icount h1) = Some (k, r) <-> imeta h2' (icount h2) = Some (k, r)) /\
  (forall a, view T h1' (icount h1) a = view T h2' (icount h2) a).
Proof.
  intros HI1 HI2 Hsh Ho0 (C1 & Ob1 & M1) (C2 & Ob2 & M2) Hal. cbn in Hal.
  destruct (find_class T k) as [ci|] eqn:Hf; [|discriminate].
  apply andb_true_iff in Hal as [Hr Hconf]. apply negb_true_iff, Nat.eqb_neq in Hr.
  cbn [step]. destruct r as [|r']; [contradiction|]. set (r := S r') in *.
  pose proof (imeta_next_none _ HI1) as N1. pose proof (imeta_next_none _ HI2) as N2.
  assert (W : twin k r (icount h1) (icount h2) (new_inst h1 k r) (new_inst h2 k r)).
  { split; cbn; auto.
    - intros n. rewrite Ob1, Ob2. reflexivity.
    - congruence.
    - intros a. rewrite (inv_dead _ _ HI1 _ a N1), (inv_dead _ _ HI2 _ a N2). reflexivity.
    - rewrite Nat.eqb_refl. reflexivity.
    - rewrite Nat.eqb_refl. reflexivity. }
  pose proof (new_inst_inv h1 k r ci HI1 Hr Hf) as P1.
  pose proof (new_inst_inv h2 k r ci HI2 Hr Hf) as P2.
  pose proof (twin_script k r ci _ _ script _ _ _ W P1 P2 Hf Hconf) as E.
  destruct (run_script T (new_inst h1 k r) (icount h1) script) as [h1'|] eqn:R1,
           (run_script T (new_inst h2 k r) (icount h2) script) as [h2'|] eqn:R2; try contradiction.
  - split.
    + rewrite (tw_meta1 _ _ _ _ _ _ E), (tw_meta2 _ _ _ _ _ _ E). tauto.
    + intros a. unfold view. rewrite (twin_getattr _ _ _ _ _ _ a E).
      destruct (getattr T h2' (icount h2) a) as [[z|l]|] eqn:Hg; cbn; try reflexivity.
      f_equal. eapply twin_obj_near; eauto.
      assert (Hm2 : imeta (new_inst h2 k r) (icount h2) = Some (k, r)) by apply W.
      destruct (run_script_inv ci k r _ _ _ _ _ P2 Hm2 Hf Hconf R2) as (HI2' & _ & _).
      apply (getattr_near _ _ _ _ _ _ _ HI2' (tw_meta2 _ _ _ _ _ _ E) Hg).
  - split.
    + rewrite N1, N2. split; discriminate.
    + intros a. unfold view, getattr. rewrite N1, N2, (inv_dead _ _ HI1 _ a N1), (inv_dead _ _ HI2 _ a N2).
      reflexivity.
Qed.

(* ------------------------------------------------------------------------- *)
(* reachable heaps *)

Definition wf0 (h : heap) : Prop :=
  (forall i, imeta h i = None) /\ (forall i a, istore h i a = None) /\
  (forall key v, sstore h key = Some v -> near_val 0%nat v).

Lemma wf0_inv h : wf0 h -> Inv h.
Proof.
  intros (M & S & Sh). split.
  - exact Sh.
  - intros i k r a v Hm. rewrite M in Hm. discriminate.
  - intros i k r Hm. rewrite M in Hm. discriminate.
  - intros i k r Hm. rewrite M in Hm. discriminate.
  - intros i a _. apply S.
  - intros i k r a v Hm. rewrite M in Hm. discriminate.
Qed.

Inductive reachable (h0 : heap) : heap -> Prop :=
| reach_boot : reachable h0 h0
| reach_step h e : reachable h0 h -> allowedb T h e = true -> reachable h0 (step T h e).

Lemma allowed_step_inv h e : Inv h -> allowedb T h e = true -> Inv (step T h e).
Proof.
  intros HI Hal. destruct (allowed_region h e HI Hal) as (r & Hr & Hr0).
  apply (step_inv h e 0%nat HI Hal). rewrite Hr. congruence.
Qed.

Lemma reachable_inv h0 h : wf0 h0 -> reachable h0 h -> Inv h.
Proof.
  intros H0 R. induction R.
  - apply wf0_inv. exact H0.
  - apply allowed_step_inv; auto.
Qed.

Theorem noninterference h0 h rB evs B kB :
  wf0 h0 -> reachable h0 h -> imeta h B = Some (kB, rB) -> all_ok rB h evs ->
  (forall a, view T (run T h evs) B a = view T h B a) /\
  (forall key, sview (run T h evs) key = sview h key) /\
  (forall key, sstore (run T h evs) key = sstore h key) /\
  imeta (run T h evs) B = Some (kB, rB).
Proof.
  intros H0 R. apply noninterference_inv. eapply reachable_inv; eauto.
Qed.

(* the whole portion of the heap that belongs to region rB (objects, allocation counter, set of
   instances, their stores) and the whole shared portion are left untouched, exactly: whatever the
   instances of rB do next, interleaved with the others or not, they do it on the same data *)
Theorem foreign_frame h0 h rB evs :
  wf0 h0 -> reachable h0 h -> all_ok rB h evs -> same_on rB h (run T h evs).
Proof.
  intros H0 R Hok. pose proof (reachable_inv _ _ H0 R) as HI.
  exact (proj2 (run_inv rB evs h HI Hok)).
Qed.

(* the shared store never changes at all, whatever the devices do *)
Theorem shared_store_frozen h0 h :
  wf0 h0 -> reachable h0 h ->
  (forall key, sstore h key = sstore h0 key) /\ (forall key, sview h key = sview h0 key).
Proof.
  intros H0 R. induction R.
  - auto.
  - destruct IHR as [A B]. pose proof (reachable_inv _ _ H0 R) as HI.
    destruct (allowed_region h e HI H) as (r & Hr & Hr0).
    destruct (step_inv h e 0%nat HI H) as [_ S]; [rewrite Hr; congruence|].
    split; intros key.
    + rewrite (so_shared _ _ _ S). apply A.
    + rewrite (same_on_sview _ _ _ key HI S). apply B.
Qed.

Theorem fresh_equals_first h0 r evs k script :
  wf0 h0 -> fresh_region h0 r -> all_ok r h0 evs ->
  allowedb T (run T h0 evs) (ENew k r script) = true ->
  let h := run T h0 evs in
  let late := step T h (ENew k r script) in
  let first := step T h0 (ENew k r script) in
  (imeta late (icount h) = Some (k, r) <-> imeta first (icount h0) = Some (k, r)) /\
  (forall a, view T late (icount h) a = view T first (icount h0) a).
Proof.
  intros H0 Hfr Hok Hal. pose proof (wf0_inv _ H0) as HI0.
  destruct (run_inv r evs h0 HI0 Hok) as [HI S].
  apply fresh_equal_inv; auto.
  - apply S.
  - apply S.
  - eapply same_on_fresh; eauto.
Qed.

End Closed.

(* ------------------------------------------------------------------------- *)
(* the theorems in terms of the decidable side condition *)

Theorem noninterference_ok T : sharing_ok T = true ->
  forall h0 h rB evs B kB,
  wf0 h0 -> reachable T h0 h -> imeta h B = Some (kB, rB) -> all_ok T rB h evs ->
  (forall a, view T (run T h evs) B a = view T h B a) /\
  (forall key, sview (run T h evs) key = sview h key) /\
  (forall key, sstore (run T h evs) key = sstore h key) /\
  imeta (run T h evs) B = Some (kB, rB).
Proof. intros H. exact (noninterference T _ _ H). Qed.

Theorem foreign_frame_ok T : sharing_ok T = true ->
  forall h0 h rB evs, wf0 h0 -> reachable T h0 h -> all_ok T rB h evs -> same_on rB h (run T h evs).
Proof. intros H. exact (foreign_frame T _ _ H). Qed.

Theorem shared_store_frozen_ok T : sharing_ok T = true ->
  forall h0 h, wf0 h0 -> reachable T h0 h ->
  (forall key, sstore h key = sstore h0 key) /\ (forall key, sview h key = sview h0 key).
Proof. intros H. exact (shared_store_frozen T _ _ H). Qed.

Theorem fresh_equals_first_ok T : sharing_ok T = true ->
  forall h0 r evs k script,
  wf0 h0 -> fresh_region h0 r -> all_ok T r h0 evs ->
  allowedb T (run T h0 evs) (ENew k r script) = true ->
  let h := run T h0 evs in
  let late := step T h (ENew k r script) in
  let first := step T h0 (ENew k r script) in
  (imeta late (icount h) = Some (k, r) <-> imeta first (icount h0) = Some (k, r)) /\
  (forall a, view T late (icount h) a = view T first (icount h0) a).
Proof. intros H. exact (fresh_equals_first T _ _ H). Qed.

(* the import-time heap built from the table satisfies the hypotheses *)
Lemma boot_wf0 T : wf0 (boot T).
Proof.
  split; [|split]; cbn; auto.
  intros key v. destruct (index_of key (all_keys T) 0); [|discriminate].
  intros H. injection H as <-. cbn. auto.
Qed.

Lemma boot_fresh T r : r <> 0%nat -> fresh_region (boot T) r.
Proof.
  intros Hr. apply Nat.eqb_neq in Hr. split; [|split]; cbn.
  - rewrite Hr. reflexivity.
  - intros n. rewrite Hr. reflexivity.
  - intros j k. discriminate.
Qed.

(* ------------------------------------------------------------------------- *)
(* Examples: the hypotheses are satisfiable by a non-trivial table and run, and the side
   condition is necessary: the two shapes of the known findings interfere in the model. *)

Definition ex_good : table :=
  [ {| c_name := "K";
       c_cattrs := [("commands", "C:K.commands"); ("channels", "C:K.channels")];
       c_mutated := ["channels"; "boards"];
       c_alias := [("current", "boards")];
       c_alias_other := [];
       c_alias_shared := [("table", "C:K.commands")];
       c_deleted := ["tmp"];
       c_shadowed := ["channels"];
       c_smut := []; c_srebind := [] |} ].

Definition ex_script : list op :=
  [ORebind "msg" (SImm 0); ORebind "channels" (SCopy "channels"); ORebind "boards" (SFresh 7);
   ORebind "table" (SShared "C:K.commands"); OMutate "channels" 5].

Definition ex_events : list event :=
  [ENew "K" 1%nat ex_script; ENew "K" 2%nat ex_script;
   EOp 0%nat (OMutate "channels" 11); EOp 0%nat (ORebind "current" (SSelf "boards"));
   EOp 0%nat (OMutate "boards" 12); EOp 0%nat (ORebind "tmp" (SImm 1)); EOp 0%nat (ODel "tmp")].

Example ex_good_ok : sharing_ok ex_good = true.
Proof. vm_compute. reflexivity. Qed.

Fixpoint all_allowedb (T : table) (h : heap) (evs : list event) : bool :=
  match evs with [] => true | e :: es => allowedb T h e && all_allowedb T (step T h e) es end.

(* every event is permitted, both instances exist, A's state really changed, B's did not *)
Example ex_good_run :
  let h := run ex_good (boot ex_good) ex_events in
  all_allowedb ex_good (boot ex_good) ex_events = true /\
  imeta h 0%nat = Some ("K", 1%nat) /\ imeta h 1%nat = Some ("K", 2%nat) /\
  view ex_good h 0%nat "channels" = DObj (Some 11) /\
  view ex_good h 1%nat "channels" = DObj (Some 5) /\
  view ex_good h 0%nat "boards" = DObj (Some 12) /\
  view ex_good h 1%nat "boards" = DObj (Some 7) /\
  sview h "C:K.channels" = DObj (Some 0).
Proof. vm_compute. repeat split; reflexivity. Qed.

(* F21 shape (dbesm obs_mode on the pinned tree): class-level list mutated through self, never
   rebound by __init__ *)
Definition ex_f21 : table :=
  [ {| c_name := "dbesm.System";
       c_cattrs := [("obs_mode", "C:dbesm.System.obs_mode")];
       c_mutated := ["obs_mode"; "boards"];
       c_alias := []; c_alias_other := []; c_alias_shared := [];
       c_deleted := []; c_shadowed := []; c_smut := []; c_srebind := [] |} ].

Definition ex_f21_init : list op := [ORebind "boards" (SFresh 0)].

Example f21_side_condition_fails : sharing_ok ex_f21 = false.
Proof. vm_compute. reflexivity. Qed.

Example f21_refuted :
  exists evsA : list event,
    let h := run ex_f21 (boot ex_f21) [ENew "dbesm.System" 1%nat ex_f21_init; ENew "dbesm.System" 2%nat ex_f21_init] in
    all_allowedb ex_f21 (boot ex_f21)
      ([ENew "dbesm.System" 1%nat ex_f21_init; ENew "dbesm.System" 2%nat ex_f21_init] ++ evsA) = true /\
    Forall (fun e => ev_region h e = Some 1%nat) evsA /\
    view ex_f21 (run ex_f21 h evsA) 1%nat "obs_mode" <> view ex_f21 h 1%nat "obs_mode" /\
    (* and a late third instance does not start like the first one did *)
    view ex_f21 (step ex_f21 (run ex_f21 h evsA) (ENew "dbesm.System" 3%nat ex_f21_init)) 2%nat "obs_mode"
      <> view ex_f21 (step ex_f21 (boot ex_f21) (ENew "dbesm.System" 3%nat ex_f21_init)) 0%nat "obs_mode".
Proof.
  exists [EOp 0%nat (OMutate "obs_mode" 1)]. vm_compute.
  split; [reflexivity|]. split; [repeat constructor|]. split; discriminate.
Qed.

(* F20 shape (minor_servos configurations on the pinned tree): __init__ itself refills the
   class-level table in place (setup_import), and SETUP stores into it through an alias *)
Definition ex_f20 : table :=
  [ {| c_name := "minor_servos.System";
       c_cattrs := [("configurations", "C:minor_servos.System.configurations")];
       c_mutated := ["configurations"; "servos"];
       c_alias := [("servos", "configurations")];
       c_alias_other := []; c_alias_shared := [];
       c_deleted := []; c_shadowed := []; c_smut := []; c_srebind := [] |} ].

Definition ex_f20_init : list op := [ORebind "servos" (SFresh 0); OMutate "configurations" 0].

Example f20_side_condition_fails : sharing_ok ex_f20 = false.
Proof. vm_compute. reflexivity. Qed.

Example f20_refuted :
  let boot2 := run ex_f20 (boot ex_f20)
                 [ENew "minor_servos.System" 1%nat ex_f20_init; ENew "minor_servos.System" 2%nat ex_f20_init] in
  let evsA := [EOp 0%nat (OMutate "configurations" 50)] in
  all_allowedb ex_f20 (boot ex_f20)
    ([ENew "minor_servos.System" 1%nat ex_f20_init; ENew "minor_servos.System" 2%nat ex_f20_init] ++ evsA) = true /\
  view ex_f20 (run ex_f20 boot2 evsA) 1%nat "configurations" <> view ex_f20 boot2 1%nat "configurations" /\
  (* constructing a third instance changes what the first two see *)
  view ex_f20 (step ex_f20 (run ex_f20 boot2 evsA) (ENew "minor_servos.System" 3%nat ex_f20_init)) 0%nat "configurations"
    <> view ex_f20 (run ex_f20 boot2 evsA) 0%nat "configurations".
Proof. vm_compute. split; [reflexivity|]. split; discriminate. Qed.
