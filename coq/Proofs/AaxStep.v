(* Aax — per-event lemmas about the axis model: what one command / iteration / update does. *)
From DS Require Import Base.Prelude Model.AaxModel Proofs.AaxArith.

Ltac axs :=
  cbn [p v psoll vsoll pbahn poff ast traj stowed brakes cur ecnt ecmd eans pta nextp ptst
       stow_ok pre_dn fin_dn pre_up fin_up rate_lim
       set_p set_v set_psoll set_vsoll set_pbahn set_poff set_ast set_traj set_stowed set_brakes
       set_cur set_ecnt set_ecmd set_eans set_pta set_nextp set_ptst
       set_stow_ok set_pre_dn set_fin_dn set_pre_up set_fin_up set_rate_lim
       exec_set start_move fst snd axs movers nid] in *.

Definition wf_cfg (c : cfg) : Prop :=
  lo c <= hi c /\ 0 <= vmax c /\ Forall (fun z => lo c <= z <= hi c) (stows c).

Definition in_range (c : cfg) (z : Z) : Prop := lo c <= z <= hi c.

(* ---- ledger helpers ---- *)
Fixpoint find_mover (id : Z) (ms : list mover) : option mover :=
  match ms with
  | [] => None
  | m :: r => if mover_id m =? id then Some m else find_mover id r
  end.
Fixpoint remove_mover (id : Z) (ms : list mover) : list mover :=
  match ms with
  | [] => []
  | m :: r => if mover_id m =? id then r else m :: remove_mover id r
  end.
Fixpoint replace_mover (id : Z) (m' : mover) (ms : list mover) : list mover :=
  match ms with
  | [] => []
  | m :: r => if mover_id m =? id then m' :: r else m :: replace_mover id m' r
  end.

Lemma tick_movers_spec c s id k ms :
  tick_movers c s id k ms =
  match find_mover id ms with
  | None => (s, ms)
  | Some (MMove i cnt kd tgt rate) =>
      let '(s', ended) := move_tick c s cnt kd tgt rate (disp rate k) in
      (s', if ended then remove_mover id ms else ms)
  | Some (MTrack i cnt rate fin) =>
      match track_tick c s cnt rate fin k with
      | (s', Some (cnt', fin')) => (s', replace_mover id (MTrack i cnt' rate fin') ms)
      | (s', None) => (s', remove_mover id ms)
      end
  end.
Proof.
  induction ms as [|m r IH]; cbn [tick_movers find_mover remove_mover replace_mover]; [reflexivity|].
  destruct (mover_id m =? id) eqn:E.
  - destruct m as [i cnt kd tgt rate|i cnt rate fin].
    + destruct (move_tick c s cnt kd tgt rate (disp rate k)) as [s' [|]]; reflexivity.
    + destruct (track_tick c s cnt rate fin k) as [s' [[cnt' fin']|]]; reflexivity.
  - rewrite IH. destruct (find_mover id r) as [[i cnt kd tgt rate|i cnt rate fin]|].
    + destruct (move_tick c s cnt kd tgt rate (disp rate k)) as [s' [|]]; reflexivity.
    + destruct (track_tick c s cnt rate fin k) as [s' [[cnt' fin']|]]; reflexivity.
    + reflexivity.
Qed.

Lemma find_mover_in id ms m : find_mover id ms = Some m -> In m ms /\ mover_id m = id.
Proof.
  induction ms as [|x r IH]; cbn; [discriminate|].
  destruct (mover_id x =? id) eqn:E.
  - intros [= <-]. split; [now left|lia].
  - intros H. destruct (IH H). split; [now right|assumption].
Qed.

Lemma in_find_mover ms m : NoDup (map mover_id ms) -> In m ms -> find_mover (mover_id m) ms = Some m.
Proof.
  induction ms as [|x r IH]; cbn; [tauto|].
  intros Hnd [->|Hin].
  - now rewrite Z.eqb_refl.
  - inversion Hnd as [|? ? Hnotin Hnd']; subst.
    destruct (mover_id x =? mover_id m) eqn:E.
    + exfalso. apply Hnotin. apply Z.eqb_eq in E. rewrite E. now apply in_map.
    + now apply IH.
Qed.

Lemma remove_mover_incl id ms m : In m (remove_mover id ms) -> In m ms.
Proof.
  induction ms as [|x r IH]; cbn; [tauto|].
  destruct (mover_id x =? id); cbn; intuition.
Qed.

Lemma remove_mover_ids id ms : NoDup (map mover_id ms) ->
  ~ In id (map mover_id (remove_mover id ms)) /\ NoDup (map mover_id (remove_mover id ms)) /\
  (forall j, In j (map mover_id (remove_mover id ms)) -> In j (map mover_id ms)).
Proof.
  induction ms as [|x r IH]; cbn; [intros; repeat split; auto|].
  intros Hnd. inversion Hnd as [|? ? Hnotin Hnd']; subst.
  destruct (mover_id x =? id) eqn:E.
  - apply Z.eqb_eq in E. subst. repeat split; auto.
  - destruct (IH Hnd') as (H1 & H2 & H3). cbn. repeat split.
    + intros [H|H]; [lia|auto].
    + constructor; auto.
    + intros j [H|H]; auto.
Qed.

Lemma replace_mover_ids id m' ms : mover_id m' = id ->
  map mover_id (replace_mover id m' ms) = map mover_id ms.
Proof.
  intros Hid. induction ms as [|x r IH]; cbn; [reflexivity|].
  destruct (mover_id x =? id) eqn:E; cbn.
  - apply Z.eqb_eq in E. congruence.
  - now rewrite IH.
Qed.

Lemma replace_mover_in id m' ms m : In m (replace_mover id m' ms) -> m = m' \/ In m ms.
Proof.
  induction ms as [|x r IH]; cbn; [tauto|].
  destruct (mover_id x =? id); cbn; intuition.
Qed.

(* ---- _move iteration ---- *)
Definition moving (s : ax) : bool := (ast s =? 3) && negb (stowed s).

Lemma move_tick_p c s cnt kd tgt rate d :
  p (fst (move_tick c s cnt kd tgt rate d)) =
  if opt_is (cur s) cnt && moving s then clampS c (calc c (p s) tgt d) else p s.
Proof.
  unfold move_tick, moving, finish.
  destruct (opt_is (cur s) cnt); cbn [andb]; [|reflexivity].
  destruct ((ast s =? 3) && negb (stowed s)); axs.
  - destruct (clampS c (calc c (p s) tgt d) =? tgt); destruct kd; reflexivity.
  - destruct (p s =? tgt); destruct kd; reflexivity.
Qed.

(* a mover whose counter is no longer the current one: ends, position untouched, velocity 0 *)
Lemma move_tick_stale c s cnt kd tgt rate d : opt_is (cur s) cnt = false ->
  move_tick c s cnt kd tgt rate d = (set_v 0 s, true).
Proof. intros H. unfold move_tick. now rewrite H. Qed.

(* exact arrival: target reached, velocity 0, answer "executed", thread ended *)
Lemma move_tick_arrives c s cnt kd tgt rate d :
  lo c <= hi c -> in_range c (p s) -> in_range c tgt -> 0 <= d ->
  opt_is (cur s) cnt = true -> moving s = true -> Z.abs (tgt - p s) <= d ->
  let r := move_tick c s cnt kd tgt rate d in
  snd r = true /\ p (fst r) = tgt /\ v (fst r) = 0 /\
  ecnt (fst r) = cnt /\ ecmd (fst r) = kind_code kd /\ eans (fst r) = 1 /\
  (kd = KStow -> stowed (fst r) = true).
Proof.
  intros Hc Hp Ht Hd Hcur Hmov Hdist. unfold move_tick, moving in *. rewrite Hcur, Hmov. axs.
  rewrite (calc_arrives c (p s) tgt d Hd Hp Ht Hdist), (clampS_id c tgt Ht), Z.eqb_refl.
  destruct kd; cbn; repeat split; try reflexivity; discriminate.
Qed.

(* not yet there: keeps going, with the commanded rate as velocity *)
Lemma move_tick_continues c s cnt kd tgt rate d :
  lo c <= hi c -> in_range c (p s) -> in_range c tgt -> 0 <= d ->
  opt_is (cur s) cnt = true -> moving s = true -> d < Z.abs (tgt - p s) ->
  let r := move_tick c s cnt kd tgt rate d in
  snd r = false /\ v (fst r) = rate /\ Z.abs (tgt - p (fst r)) = Z.abs (tgt - p s) - d /\
  cur (fst r) = cur s /\ ast (fst r) = ast s /\ stowed (fst r) = stowed s.
Proof.
  intros Hc Hp Ht Hd Hcur Hmov Hdist. unfold move_tick, moving in *. rewrite Hcur, Hmov. axs.
  pose proof (calc_toward c (p s) tgt d Hd Hp Ht) as (H1 & _).
  pose proof (calc_range c (p s) tgt d Hc) as Hr.
  rewrite (clampS_id c _ Hr).
  destruct (calc c (p s) tgt d =? tgt) eqn:E; [lia|]. axs. repeat split; try reflexivity. lia.
Qed.

(* the axis is not active or is stowed: position untouched, velocity 0 *)
Lemma move_tick_gated c s cnt kd tgt rate d : moving s = false ->
  p (fst (move_tick c s cnt kd tgt rate d)) = p s /\ v (fst (move_tick c s cnt kd tgt rate d)) = 0.
Proof.
  intros Hm. split; [rewrite move_tick_p, Hm, andb_false_r; reflexivity|].
  unfold move_tick, moving in *. rewrite Hm.
  destruct (opt_is (cur s) cnt); axs; [|reflexivity].
  destruct (p s =? tgt); [|reflexivity]. destruct kd; reflexivity.
Qed.

Lemma move_tick_v c s cnt kd tgt rate d :
  v (fst (move_tick c s cnt kd tgt rate d)) = 0 \/ v (fst (move_tick c s cnt kd tgt rate d)) = rate.
Proof.
  unfold move_tick, finish.
  destruct (opt_is (cur s) cnt); axs; [|now left].
  destruct ((ast s =? 3) && negb (stowed s)); axs.
  - destruct (clampS c (calc c (p s) tgt d) =? tgt); [left; destruct kd; reflexivity|now right].
  - destruct (p s =? tgt); left; [destruct kd|]; reflexivity.
Qed.
