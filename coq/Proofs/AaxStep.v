(* Aax — per-event lemmas about the axis model: what one command / iteration / update does. *)
From DS Require Import Base.Prelude Model.AaxModel Proofs.AaxArith.

Ltac axs :=
  cbn [p v psoll vsoll pbahn poff ast traj stowed brakes cur ecnt ecmd eans pta nextp ptst
       stow_ok pre_dn fin_dn pre_up fin_up rate_lim
       set_p set_v set_psoll set_vsoll set_pbahn set_poff set_ast set_traj set_stowed set_brakes
       set_cur set_ecnt set_ecmd set_eans set_pta set_nextp set_ptst
       set_stow_ok set_pre_dn set_fin_dn set_pre_up set_fin_up set_rate_lim
       exec_set start_move fst snd axs movers nid] in *.

Definition wf_cfg (c : cfg) : Prop :=
  lo c <= hi c /\ 0 <= vmax c /\ Forall (fun z => lo c <= z <= hi c) (stows c).

Definition in_range (c : cfg) (z : Z) : Prop := lo c <= z <= hi c.

(* ---- ledger helpers ---- *)
Fixpoint find_mover (id : Z) (ms : list mover) : option mover :=
  match ms with
  | [] => None
  | m :: r => if mover_id m =? id then Some m else find_mover id r
  end.
Fixpoint remove_mover (id : Z) (ms : list mover) : list mover :=
  match ms with
  | [] => []
  | m :: r => if mover_id m =? id then r else m :: remove_mover id r
  end.
Fixpoint replace_mover (id : Z) (m' : mover) (ms : list mover) : list mover :=
  match ms with
  | [] => []
  | m :: r => if mover_id m =? id then m' :: r else m :: replace_mover id m' r
  end.

Lemma tick_movers_spec c s id k ms :
  tick_movers c s id k ms =
  match find_mover id ms with
  | None => (s, ms)
  | Some (MMove i cnt kd tgt rate) =>
      let '(s', ended) := move_tick c s cnt kd tgt rate (disp rate k) in
      (s', if ended then remove_mover id ms else ms)
  | Some (MTrack i cnt rate fin) =>
      match track_tick c s cnt rate fin k with
      | (s', Some (cnt', fin')) => (s', replace_mover id (MTrack i cnt' rate fin') ms)
      | (s', None) => (s', remove_mover id ms)
      end
  end.
Proof.
  induction ms as [|m r IH]; cbn [tick_movers find_mover remove_mover replace_mover]; [reflexivity|].
  destruct (mover_id m =? id) eqn:E.
  - destruct m as [i cnt kd tgt rate|i cnt rate fin].
    + destruct (move_tick c s cnt kd tgt rate (disp rate k)) as [s' [|]]; reflexivity.
    + destruct (track_tick c s cnt rate fin k) as [s' [[cnt' fin']|]]; reflexivity.
  - rewrite IH. destruct (find_mover id r) as [[i cnt kd tgt rate|i cnt rate fin]|].
    + destruct (move_tick c s cnt kd tgt rate (disp rate k)) as [s' [|]]; reflexivity.
    + destruct (track_tick c s cnt rate fin k) as [s' [[cnt' fin']|]]; reflexivity.
    + reflexivity.
Qed.

Lemma find_mover_in id ms m : find_mover id ms = Some m -> In m ms /\ mover_id m = id.
Proof.
  induction ms as [|x r IH]; cbn; [discriminate|].
  destruct (mover_id x =? id) eqn:E.
  - intros [= <-]. split; [now left|lia].
  - intros H. destruct (IH H). split; [now right|assumption].
Qed.

Lemma in_find_mover ms m : NoDup (map mover_id ms) -> In m ms -> find_mover (mover_id m) ms = Some m.
Proof.
  induction ms as [|x r IH]; cbn; [tauto|].
  intros Hnd [->|Hin].
  - now rewrite Z.eqb_refl.
  - inversion Hnd as [|? ? Hnotin Hnd']; subst.
    destruct (mover_id x =? mover_id m) eqn:E.
    + exfalso. apply Hnotin. apply Z.eqb_eq in E. rewrite E. now apply in_map.
    + now apply IH.
Qed.

Lemma remove_mover_incl id ms m : In m (remove_mover id ms) -> In m ms.
Proof.
  induction ms as [|x r IH]; cbn; [tauto|].
  destruct (mover_id x =? id); cbn; intuition.
Qed.

Lemma remove_mover_ids id ms : NoDup (map mover_id ms) ->
  ~ In id (map mover_id (remove_mover id ms)) /\ NoDup (map mover_id (remove_mover id ms)) /\
  (forall j, In j (map mover_id (remove_mover id ms)) -> In j (map mover_id ms)).
Proof.
  induction ms as [|x r IH]; cbn; [intros; repeat split; auto|].
  intros Hnd. inversion Hnd as [|? ? Hnotin Hnd']; subst.
  destruct (mover_id x =? id) eqn:E.
  - apply Z.eqb_eq in E. subst. repeat split; auto.
  - destruct (IH Hnd') as (H1 & H2 & H3). cbn. repeat split.
    + intros [H|H]; [lia|auto].
    + constructor; auto.
    + intros j [H|H]; auto.
Qed.

Lemma replace_mover_ids id m' ms : mover_id m' = id ->
  map mover_id (replace_mover id m' ms) = map mover_id ms.
Proof.
  intros Hid. induction ms as [|x r IH]; cbn; [reflexivity|].
  destruct (mover_id x =? id) eqn:E; cbn.
  - apply Z.eqb_eq in E. congruence.
  - now rewrite IH.
Qed.

Lemma replace_mover_in id m' ms m : In m (replace_mover id m' ms) -> m = m' \/ In m ms.
Proof.
  induction ms as [|x r IH]; cbn; [tauto|].
  destruct (mover_id x =? id); cbn; intuition.
Qed.

(* ---- _move iteration ---- *)
Definition moving (s : ax) : bool := (ast s =? 3) && negb (stowed s).

Lemma move_tick_p c s cnt kd tgt rate d :
  p (fst (move_tick c s cnt kd tgt rate d)) =
  if opt_is (cur s) cnt && moving s then clampS c (calc c (p s) tgt d) else p s.
Proof.
  unfold move_tick, moving, finish.
  destruct (opt_is (cur s) cnt); cbn [andb]; [|reflexivity].
  destruct ((ast s =? 3) && negb (stowed s)); axs.
  - destruct (clampS c (calc c (p s) tgt d) =? tgt); destruct kd; reflexivity.
  - destruct (p s =? tgt); destruct kd; reflexivity.
Qed.

(* a mover whose counter is no longer the current one: ends, position untouched, velocity 0 *)
Lemma move_tick_stale c s cnt kd tgt rate d : opt_is (cur s) cnt = false ->
  move_tick c s cnt kd tgt rate d = (set_v 0 s, true).
Proof. intros H. unfold move_tick. now rewrite H. Qed.

(* exact arrival: target reached, velocity 0, answer "executed", thread ended *)
Lemma move_tick_arrives c s cnt kd tgt rate d :
  lo c <= hi c -> in_range c (p s) -> in_range c tgt -> 0 <= d ->
  opt_is (cur s) cnt = true -> moving s = true -> Z.abs (tgt - p s) <= d ->
  let r := move_tick c s cnt kd tgt rate d in
  snd r = true /\ p (fst r) = tgt /\ v (fst r) = 0 /\
  ecnt (fst r) = cnt /\ ecmd (fst r) = kind_code kd /\ eans (fst r) = 1 /\
  (kd = KStow -> stowed (fst r) = true).
Proof.
  intros Hc Hp Ht Hd Hcur Hmov Hdist. unfold move_tick, moving in *. rewrite Hcur, Hmov. axs.
  rewrite (calc_arrives c (p s) tgt d Hd Hp Ht Hdist), (clampS_id c tgt Ht), Z.eqb_refl.
  destruct kd; cbn; repeat split; try reflexivity; discriminate.
Qed.

(* not yet there: keeps going, with the commanded rate as velocity *)
Lemma move_tick_continues c s cnt kd tgt rate d :
  lo c <= hi c -> in_range c (p s) -> in_range c tgt -> 0 <= d ->
  opt_is (cur s) cnt = true -> moving s = true -> d < Z.abs (tgt - p s) ->
  let r := move_tick c s cnt kd tgt rate d in
  snd r = false /\ v (fst r) = rate /\ Z.abs (tgt - p (fst r)) = Z.abs (tgt - p s) - d /\
  cur (fst r) = cur s /\ ast (fst r) = ast s /\ stowed (fst r) = stowed s.
Proof.
  intros Hc Hp Ht Hd Hcur Hmov Hdist. unfold move_tick, moving in *. rewrite Hcur, Hmov. axs.
  pose proof (calc_toward c (p s) tgt d Hd Hp Ht) as (H1 & _).
  pose proof (calc_range c (p s) tgt d Hc) as Hr.
  rewrite (clampS_id c _ Hr).
  destruct (calc c (p s) tgt d =? tgt) eqn:E; [lia|]. axs. repeat split; try reflexivity. lia.
Qed.

(* the axis is not active or is stowed: position untouched, velocity 0 *)
Lemma move_tick_gated c s cnt kd tgt rate d : moving s = false ->
  p (fst (move_tick c s cnt kd tgt rate d)) = p s /\ v (fst (move_tick c s cnt kd tgt rate d)) = 0.
Proof.
  intros Hm. split; [rewrite move_tick_p, Hm, andb_false_r; reflexivity|].
  unfold move_tick, moving in *. rewrite Hm.
  destruct (opt_is (cur s) cnt); axs; [|reflexivity].
  destruct (p s =? tgt); [|reflexivity]. destruct kd; reflexivity.
Qed.

Lemma move_tick_v c s cnt kd tgt rate d :
  v (fst (move_tick c s cnt kd tgt rate d)) = 0 \/ v (fst (move_tick c s cnt kd tgt rate d)) = rate.
Proof.
  unfold move_tick, finish.
  destruct (opt_is (cur s) cnt); axs; [|now left].
  destruct ((ast s =? 3) && negb (stowed s)); axs.
  - destruct (clampS c (calc c (p s) tgt d) =? tgt); [left; destruct kd; reflexivity|now right].
  - destruct (p s =? tgt); left; [destruct kd|]; reflexivity.
Qed.

(* ---- _program_track iteration ---- *)
(* fields no tracking stage writes *)
Definition frame (s s' : ax) : Prop :=
  ast s' = ast s /\ stowed s' = stowed s /\ cur s' = cur s /\ ecnt s' = ecnt s /\ ecmd s' = ecmd s /\
  eans s' = eans s /\ brakes s' = brakes s /\ poff s' = poff s /\ pbahn s' = pbahn s /\
  nextp s' = nextp s /\ ptst s' = ptst s.

Lemma frame_refl s : frame s s.
Proof. unfold frame. tauto. Qed.

Lemma frame_trans s1 s2 s3 : frame s1 s2 -> frame s2 s3 -> frame s1 s3.
Proof. unfold frame. intuition congruence. Qed.

Ltac frame_tac := unfold frame; axs; repeat split; reflexivity.

Lemma tr_pt2_spec c s rate n k : lo c <= hi c -> in_range c (p s) -> 0 <= k ->
  match tr_pt2 c s rate n k with
  | (s', p_, v_) =>
      p s' = p s /\ frame s s' /\ in_range c p_ /\
      Z.abs (p_ - p s) <= disp rate k /\ (ptst s <> 2 -> p_ = p s)
  end.
Proof.
  intros Hc Hp Hk. unfold tr_pt2, in_range in *.
  pose proof (disp_nonneg rate k Hk) as Hd.
  destruct (ptst s =? 2) eqn:E; axs.
  - destruct (p s =? clampS c (n + poff s)) eqn:E2.
    + repeat split; try lia; frame_tac.
    + pose proof (calc_range c (p s) (clampS c (n + poff s)) (disp rate k) Hc).
      pose proof (calc_bound c (p s) (clampS c (n + poff s)) (disp rate k) Hd Hp).
      repeat split; try lia; frame_tac.
  - repeat split; try lia; frame_tac.
Qed.

Lemma tr_pt4_spec c s n p_ :
  match tr_pt4 c s n p_ with
  | (s', q, _) => p s' = p s /\ frame s s' /\ (q = p_ \/ q = p s)
  end.
Proof.
  unfold tr_pt4. destruct (ptst s =? 4); axs.
  - destruct (p s =? clampS c (n + poff s)); repeat split; auto; frame_tac.
  - repeat split; auto; frame_tac.
Qed.

Lemma tr_pt3_spec c s p_ v_ go k : lo c <= hi c -> in_range c (p s) -> 0 <= k ->
  match tr_pt3 c s p_ v_ go k with
  | (s', q, _) => p s' = p s /\ frame s s' /\
                  (q = p_ \/ (in_range c q /\ Z.abs (q - p s) <= disp (vmax c) k /\
                              (ptst s = 3 \/ go = true)))
  end.
Proof.
  intros Hc Hp Hk. unfold tr_pt3, in_range in *.
  pose proof (disp_nonneg (vmax c) k Hk) as Hd.
  destruct ((ptst s =? 3) || go) eqn:E; axs.
  - pose proof (calc_range c (p s) (clampS c (pbahn s + poff s)) (disp (vmax c) k) Hc).
    pose proof (calc_bound c (p s) (clampS c (pbahn s + poff s)) (disp (vmax c) k) Hd Hp).
    repeat split; try frame_tac. right. repeat split; try lia.
    destruct (ptst s =? 3) eqn:E3; [left; lia|right; destruct go; [reflexivity|discriminate]].
  - repeat split; auto; frame_tac.
Qed.

Lemma tr_pt4_go c s n p_ : snd (tr_pt4 c s n p_) = true -> ptst s = 4.
Proof.
  unfold tr_pt4. destruct (ptst s =? 4) eqn:E; [lia|]. cbn. discriminate.
Qed.

Lemma tr_body_spec c s rate nx k :
  lo c <= hi c -> in_range c (p s) -> 0 <= k -> Z.abs rate <= vmax c ->
  match tr_body c s rate nx k with
  | (s', p_, _) =>
      p s' = p s /\ frame s s' /\ in_range c p_ /\
      (p_ <> p s -> moving s = true) /\
      Z.abs (p_ - p s) <= disp (vmax c) k /\
      (ptst s = 2 -> Z.abs (p_ - p s) <= disp rate k)
  end.
Proof.
  intros Hc Hp Hk Hr. unfold tr_body.
  pose proof (disp_nonneg (vmax c) k Hk) as Hd1.
  pose proof (disp_mono rate (vmax c) k Hk ltac:(lia)) as Hd3.
  pose proof (disp_nonneg rate k Hk) as Hd2.
  fold (moving s).
  destruct (truthy nx && moving s) eqn:E.
  2:{ unfold in_range in *. repeat split; try apply frame_refl; try lia; intros; try congruence; lia. }
  apply andb_true_iff in E as [_ Hm].
  pose proof (tr_pt2_spec c s rate (oval nx) k Hc Hp Hk) as H2.
  destruct (tr_pt2 c s rate (oval nx) k) as [[s2 p2] v2].
  destruct H2 as (H2p & H2f & H2r & H2b & H2n).
  pose proof (tr_pt4_spec c s2 (oval nx) p2) as H4.
  pose proof (tr_pt4_go c s2 (oval nx) p2) as H4g.
  destruct (tr_pt4 c s2 (oval nx) p2) as [[s4 p4] go]. cbn [snd] in H4g.
  destruct H4 as (H4p & H4f & H4q).
  assert (Hp4 : in_range c (p s4)) by (rewrite H4p, H2p; assumption).
  pose proof (tr_pt3_spec c s4 p4 v2 go k Hc Hp4 Hk) as H3.
  destruct (tr_pt3 c s4 p4 v2 go k) as [[s3 p3] v3].
  destruct H3 as (H3p & H3f & H3q).
  assert (Hpt4 : ptst s4 = ptst s) by (destruct H4f as (_&_&_&_&_&_&_&_&_&_&->); apply H2f).
  unfold in_range in *.
  refine (conj _ (conj _ (conj _ (conj _ (conj _ _))))).
  - congruence.
  - eapply frame_trans; [eapply frame_trans|]; eassumption.
  - destruct H3q as [->|(H&_)]; [|lia]. destruct H4q as [->| ->]; lia.
  - intros _. exact Hm.
  - destruct H3q as [->|(_&H&_)]; [|rewrite H4p, H2p in H; lia]. destruct H4q as [->| ->]; lia.
  - intros Hpt. destruct H3q as [->|(_&_&[H|H])].
    + destruct H4q as [->| ->]; lia.
    + lia.
    + specialize (H4g H). destruct H2f as (_&_&_&_&_&_&_&_&_&_&H2pt). lia.
Qed.

Definition stale_track (s : ax) (cnt : option Z) : bool :=
  negb (oeqb cnt (cur s)) && negb (traj s =? 7).

Lemma track_tick_stale c s cnt rate fin k : stale_track s cnt = true ->
  track_tick c s cnt rate fin k = (set_pta false (set_v 0 s), None).
Proof. unfold stale_track, track_tick. intros ->. reflexivity. Qed.

Lemma track_tick_spec c s cnt rate fin k :
  lo c <= hi c -> 0 <= vmax c -> in_range c (p s) -> 0 <= k -> Z.abs rate <= vmax c ->
  let s' := fst (track_tick c s cnt rate fin k) in
  in_range c (p s') /\ (p s' <> p s -> moving s = true) /\
  Z.abs (p s' - p s) <= disp (vmax c) k /\
  (ptst s = 2 -> Z.abs (p s' - p s) <= disp rate k) /\
  Z.abs (v s') <= vmax c /\
  ast s' = ast s /\ stowed s' = stowed s /\ cur s' = cur s /\
  ecnt s' = ecnt s /\ ecmd s' = ecmd s /\ eans s' = eans s.
Proof.
  intros Hc Hv Hp Hk Hr.
  pose proof (disp_nonneg (vmax c) k Hk) as Hd1.
  pose proof (disp_nonneg rate k Hk) as Hd2.
  unfold track_tick. fold (stale_track s cnt).
  destruct (stale_track s cnt).
  { axs. unfold in_range in *. repeat split; try lia; intros; try congruence; lia. }
  destruct (tr_select (set_traj 7 s) fin) as [nx fin'].
  pose proof (tr_body_spec c (set_traj 7 s) rate nx k Hc Hp Hk Hr) as H.
  destruct (tr_body c (set_traj 7 s) rate nx k) as [[s1 p1] v1].
  destruct H as (H1 & Hf & Hr1 & Hm & Hb & Hb2). axs.
  destruct Hf as (F1&F2&F3&F4&F5&F6&_). axs.
  unfold in_range in *. rewrite (clampS_id c p1 Hr1).
  refine (conj _ (conj _ (conj _ (conj _ (conj _ _))))); try assumption.
  - lia.
  - repeat split; assumption.
Qed.

(* ---- handlers (preludes) ---- *)
Lemma cmd_step_p c s id cnt cm : p (fst (cmd_step c s id cnt cm)) = p s.
Proof.
  unfold cmd_step. destruct cm; axs; try reflexivity.
  - destruct (pta _); reflexivity.
  - destruct (has_stow c); reflexivity.
  - destruct (has_stow c); reflexivity.
  - destruct (has_stow c); [|reflexivity]. destruct (nthZ (stows c) idx); reflexivity.
Qed.

Definition supersedes (c : cfg) (cm : cmd) : bool :=
  match cm with
  | CAbs _ _ | CRel _ _ | CSlew _ | CStop | CTrack _ => true
  | CStow | CUnstow | CDriveStow _ _ => has_stow c
  | _ => false
  end.

Lemma cmd_step_cur c s id cnt cm :
  cur (fst (cmd_step c s id cnt cm)) = if supersedes c cm then Some cnt else cur s.
Proof.
  unfold cmd_step, supersedes. destruct cm; axs; try reflexivity.
  - destruct (pta _); reflexivity.
  - destruct (has_stow c); reflexivity.
  - destruct (has_stow c); reflexivity.
  - destruct (has_stow c); [|reflexivity]. destruct (nthZ (stows c) idx); reflexivity.
Qed.

(* a stop or a new motion command leaves the trajectory state different from "tracking" *)
Definition ends_tracking (c : cfg) (cm : cmd) : bool :=
  match cm with
  | CAbs _ _ | CRel _ _ | CSlew _ | CStop => true
  | _ => false
  end.

Lemma cmd_step_traj c s id cnt cm : ends_tracking c cm = true ->
  traj (fst (cmd_step c s id cnt cm)) <> 7.
Proof. unfold cmd_step. destruct cm; cbn [ends_tracking]; try discriminate; axs; lia. Qed.

Lemma cmd_step_v c s id cnt cm :
  v (fst (cmd_step c s id cnt cm)) = v s \/ v (fst (cmd_step c s id cnt cm)) = 0.
Proof.
  unfold cmd_step. destruct cm; axs; auto.
  - destruct (pta _); auto.
  - destruct (has_stow c); auto.
  - destruct (has_stow c); auto.
  - destruct (has_stow c); auto. destruct (nthZ (stows c) idx); auto.
Qed.

Lemma nthZ_in l i z : nthZ l i = Some z -> In z l.
Proof. unfold nthZ. destruct (i <? 0); [discriminate|]. apply nth_error_In. Qed.

(* ---- update_status ---- *)
Lemma update_status_frame c s :
  p (update_status c s) = p s /\ v (update_status c s) = v s /\ cur (update_status c s) = cur s /\
  ast (update_status c s) = ast s /\ stowed (update_status c s) = stowed s /\
  ecnt (update_status c s) = ecnt s /\ ecmd (update_status c s) = ecmd s /\
  eans (update_status c s) = eans s /\ traj (update_status c s) = traj s.
Proof.
  unfold update_status.
  destruct (has_stow c); axs;
    repeat match goal with |- context [if ?b then _ else _] => destruct b end; axs; repeat split.
Qed.

Lemma update_status_bits c s : in_range c (p s) -> Z.abs (v s) <= vmax c ->
  let s' := update_status c s in
  pre_dn s' = (p s =? lo c) /\ fin_dn s' = false /\
  pre_up s' = (p s =? hi c) /\ fin_up s' = false /\ rate_lim s' = false /\
  (has_stow c = true -> stow_ok s' = existsb (Z.eqb (p s)) (stows c)).
Proof.
  intros Hp Hv. unfold in_range in *. unfold update_status.
  destruct (has_stow c); axs.
  all: destruct (p s =? lo c) eqn:E1; axs; [|destruct (p s <? lo c) eqn:E2; [lia|]; axs].
  all: destruct (p s =? hi c) eqn:E3; axs; [|destruct (hi c <? p s) eqn:E4; [lia|]; axs].
  all: repeat split; try reflexivity; try lia; try discriminate.
Qed.

(* the bits as the code derives them, without assuming the range invariant *)
Lemma update_status_bits_general c s :
  let s' := update_status c s in
  pre_dn s' = (p s <=? lo c) /\ fin_dn s' = (p s <? lo c) /\
  pre_up s' = (hi c <=? p s) /\ fin_up s' = (hi c <? p s) /\
  rate_lim s' = (vmax c <? Z.abs (v s)).
Proof.
  unfold update_status.
  destruct (has_stow c); axs.
  all: destruct (p s =? lo c) eqn:E1; axs; [|destruct (p s <? lo c) eqn:E2; axs].
  all: destruct (p s =? hi c) eqn:E3; axs; [|destruct (hi c <? p s) eqn:E4; axs].
  all: repeat split; try reflexivity; lia.
Qed.

(* ---- fields no loop iteration writes (no side conditions) ---- *)
Lemma tr_body_frame c s rate nx k : frame s (fst (fst (tr_body c s rate nx k))).
Proof.
  unfold tr_body. destruct (truthy nx && _); [|apply frame_refl].
  assert (H2 : frame s (fst (fst (tr_pt2 c s rate (oval nx) k)))).
  { unfold tr_pt2. destruct (ptst s =? 2); axs; [|apply frame_refl].
    destruct (p s =? _); frame_tac. }
  destruct (tr_pt2 c s rate (oval nx) k) as [[s2 p2] v2]. cbn [fst] in H2.
  assert (H4 : frame s2 (fst (fst (tr_pt4 c s2 (oval nx) p2)))).
  { unfold tr_pt4. destruct (ptst s2 =? 4); axs; [|apply frame_refl].
    destruct (p s2 =? _); frame_tac. }
  destruct (tr_pt4 c s2 (oval nx) p2) as [[s4 p4] go]. cbn [fst] in H4.
  assert (H3 : frame s4 (fst (fst (tr_pt3 c s4 p4 v2 go k)))).
  { unfold tr_pt3. destruct (_ || _); axs; [frame_tac|apply frame_refl]. }
  eapply frame_trans; [eapply frame_trans|]; eassumption.
Qed.

Lemma track_tick_cur c s cnt rate fin k : cur (fst (track_tick c s cnt rate fin k)) = cur s.
Proof.
  unfold track_tick. destruct (_ && _); [reflexivity|].
  destruct (tr_select (set_traj 7 s) fin) as [nx fin'].
  pose proof (tr_body_frame c (set_traj 7 s) rate nx k) as H.
  destruct (tr_body c (set_traj 7 s) rate nx k) as [[s1 p1] v1]. cbn [fst] in *. axs.
  destruct H as (_ & _ & H & _). exact H.
Qed.

Lemma move_tick_cur c s cnt kd tgt rate d : cur (fst (move_tick c s cnt kd tgt rate d)) = cur s.
Proof.
  unfold move_tick, finish. destruct (opt_is (cur s) cnt); [|reflexivity].
  destruct (_ && _); axs.
  - destruct (_ =? tgt); [destruct kd|]; reflexivity.
  - destruct (_ =? tgt); [destruct kd|]; reflexivity.
Qed.

Lemma remove_mover_keeps id ms m : In m ms -> mover_id m <> id -> In m (remove_mover id ms).
Proof.
  induction ms as [|x r IH]; cbn; [tauto|].
  intros [->|Hin] Hne.
  - destruct (mover_id m =? id) eqn:E; [lia|now left].
  - destruct (mover_id x =? id); [assumption|right; auto].
Qed.

Lemma replace_mover_keeps id m' ms m : In m ms -> mover_id m <> id -> In m (replace_mover id m' ms).
Proof.
  induction ms as [|x r IH]; cbn; [tauto|].
  intros [->|Hin] Hne.
  - destruct (mover_id m =? id) eqn:E; [lia|now left].
  - destruct (mover_id x =? id); right; auto.
Qed.
