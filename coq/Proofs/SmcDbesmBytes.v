(* dbesm, C04 charset: every reply is a string of single-byte code points, provided the request was
   (the server decodes latin-1 bytes) and the board constants are; kept as an invariant of the
   device state because replies embed stored request tokens (SETAMP / MODE ...). *)
From DS Require Import Base.Prelude Model.SmcBase Model.SmcDbesm Proofs.SmcBaseProofs Proofs.SmcDbesmProofs
  Proofs.SmcDbesmMore.
From DS Require Proofs.SmcTotalpowerProofs.

Definition bs (l : list Z) : Prop := Forall byte l.
Definition cval_ok (c : cval) : Prop := match c with CStr s => bs s | _ => True end.
Definition board_bytes (b : board) : Prop :=
  bs (b_cfg b) /\ Forall cval_ok (b_amp b) /\ Forall cval_ok (b_eq b) /\ Forall cval_ok (b_bpf b) /\
  bs (b_v5 b) /\ bs (b_v3 b) /\ bs (b_t0 b) /\ bs (b_firm b).
Definition dev_bytes (d : dev) : Prop := Forall board_bytes (boards d).
Definition cmd_toks (c : cmd) : list (list Z) :=
  match c with
  | KNak | KNakDev => []
  | KSetAllMode ps | KSetMode ps | KStoreAllMode ps | KDeleteFile ps | KGetStatus ps | KSetReg _ ps
  | KAllDiag ps | KDiag ps | KSetStatus ps | KGetComp ps | KGetCfg ps | KGetFirm ps | KSetDbe _ ps
  | KGetDbe _ ps => ps
  end.
Definition cmd_bytes (c : cmd) : Prop := Forall bs (cmd_toks c).

(* ---------------- small facts ---------------- *)
Lemma bs_app a b : bs a -> bs b -> bs (a ++ b).
Proof. intros; apply Forall_app; split; assumption. Qed.

Lemma bs_check (l : list Z) : forallb byteb l = true -> bs l.
Proof. intros H. apply bytesb_spec. exact H. Qed.
Ltac lit_bytes := apply bs_check; vm_compute; reflexivity.

Lemma zstr_bs z : bs (zstr z).
Proof.
  pose proof (SmcTotalpowerProofs.zstr_ascii z) as H. unfold bs. rewrite Forall_forall in *.
  intros x Hx. specialize (H x Hx). unfold SmcTotalpowerProofs.ascii in H. unfold byte. lia.
Qed.
Lemma bnum_bs i : bs (bnum i). Proof. apply zstr_bs. Qed.
Lemma hstr_bs h : bs (hstr h).
Proof.
  destruct h as [k|]; [|lit_bytes]. unfold hstr. repeat apply bs_app.
  - destruct (k <? 0); [lit_bytes|constructor].
  - apply zstr_bs.
  - destruct (Z.abs k mod 2 =? 0); lit_bytes.
Qed.
Lemma cstr_bs c : cval_ok c -> bs (cstr c).
Proof. destruct c; cbn; intros H; [apply zstr_bs|exact H|apply hstr_bs]. Qed.

Lemma join_bs sep ls : bs sep -> Forall bs ls -> bs (join sep ls).
Proof.
  intros Hs. induction 1 as [|x r Hx _ IH]; cbn [join]; [constructor|].
  destruct r; [exact Hx|]. repeat apply bs_app; assumption.
Qed.
Lemma concat_map_bs {A} (f : A -> list Z) l : (forall x, In x l -> bs (f x)) -> bs (concat (map f l)).
Proof.
  induction l as [|x l IH]; intros H; cbn; [constructor|].
  apply bs_app; [apply H; left; reflexivity|apply IH; intros y Hy; apply H; right; exact Hy].
Qed.
Lemma Forall_map_bs {A} (f : A -> list Z) l : (forall x, In x l -> bs (f x)) -> Forall bs (map f l).
Proof. intros H. rewrite Forall_forall. intros y Hy. apply in_map_iff in Hy as (x & <- & Hx). auto. Qed.
Lemma drop_last_bs l : bs l -> bs (drop_last l).
Proof.
  unfold drop_last. induction 1 as [|x l Hx Hl IH]; cbn; [constructor|].
  destruct l; [constructor|]. constructor; assumption.
Qed.
Lemma enum_In {A} (l : list A) i b : In (i, b) (enum l) -> In b l.
Proof. unfold enum. apply in_combine_r. Qed.
Lemma cvals_bs l : Forall cval_ok l -> Forall bs (map cstr l).
Proof.
  intros H. apply Forall_map_bs. rewrite Forall_forall in H. intros x Hx. apply cstr_bs. auto.
Qed.
Lemma reg_list_ok r b : board_bytes b -> Forall cval_ok (reg_list r b).
Proof.
  intros (H1 & H2 & H3 & H4 & _). destruct r; cbn; try assumption.
  rewrite Forall_forall. intros x Hx. apply in_map_iff in Hx as (h & <- & _). exact I.
Qed.
Lemma nth_opt_Forall {A} (P : A -> Prop) l n x : Forall P l -> nth_opt n l = Some x -> P x.
Proof. intros H Hn. rewrite Forall_forall in H. apply H. eapply In_nth_opt. exact Hn. Qed.

Lemma crlf_bs : bs crlf. Proof. lit_bytes. Qed.

(* decompose a goal [bs (a ++ b :: c ...)] *)
Ltac sb :=
  repeat first
    [ apply Forall_nil | assumption | apply crlf_bs | lit_bytes | apply zstr_bs | apply bnum_bs | apply hstr_bs
    | apply drop_last_bs
    | (apply join_bs; [lit_bytes|])
    | (apply Forall_map_bs; intros)
    | (apply Forall_cons; [unfold byte, LF, CR, SP; lia|])
    | apply bs_app ].

Ltac split_toks :=
  repeat match goal with
         | H : Forall bs (_ :: _) |- _ => inversion H; clear H; subst
         | H : Forall bs [] |- _ => clear H
         end.

(* ---------------- the lines of the multi-board answers ---------------- *)
Lemma volts_bs b : board_bytes b -> bs (volts b).
Proof. intros (_ & _ & _ & _ & H5 & H3 & _). unfold volts. sb. Qed.

Lemma dbe_err_bs name i text : bs name -> bs text -> bs (dbe_err name i text).
Proof. intros; unfold dbe_err; sb. Qed.
Lemma dbe_line_bs name i text : bs name -> bs text -> bs (dbe_line name i text).
Proof. intros; unfold dbe_line; sb. Qed.

Lemma board_bytes_upd (f : board -> board) i d :
  dev_bytes d -> (forall b, board_bytes b -> board_bytes (f b)) -> dev_bytes (upd_board i f d).
Proof.
  intros Hd Hf. unfold upd_board, dev_bytes in *. destruct (nth_opt i (boards d)) as [b|] eqn:E; [|exact Hd].
  cbn [with_boards boards]. apply Forall_set_nth; [exact Hd|]. apply Hf. eapply nth_opt_Forall; eassumption.
Qed.

Lemma cval_set_nth l n v : Forall cval_ok l -> cval_ok v -> Forall cval_ok (set_nth n v l).
Proof. intros; apply Forall_set_nth; assumption. Qed.

Ltac bb := unfold board_bytes in *; cbn [b_cfg b_amp b_eq b_bpf b_v5 b_v3 b_t0 b_firm set_status set_cfg set_att set_amp set_eq set_bpf];
           intuition (try (apply cval_set_nth; [assumption|cbn; auto])).

(* one board of SETDBE*: the line is bytes and the device stays bytes *)
Lemma set_dbeatt_one_bs name vtok f d t d' l : bs name -> dev_bytes d ->
  set_dbeatt_one name vtok f d t = Some (d', l) -> bs l /\ dev_bytes d'.
Proof.
  intros Hn Hd. unfold set_dbeatt_one. destruct t as [i a]. case_all; intros H; try discriminate H;
    injection H as <- <-; (split; [first [apply dbe_err_bs|apply dbe_line_bs]; [assumption|lit_bytes]|]);
    try assumption; apply board_bytes_upd; try assumption; intros b0 Hb0; bb.
Qed.

Lemma set_dbe01_one_bs r name f d t d' l : bs name -> dev_bytes d ->
  set_dbe01_one r name f d t = Some (d', l) -> bs l /\ dev_bytes d'.
Proof.
  intros Hn Hd. unfold set_dbe01_one. destruct t as [i a]. case_all; intros H; try discriminate H;
    injection H as <- <-; (split; [first [apply dbe_err_bs|apply dbe_line_bs]; [assumption|lit_bytes]|]);
    try assumption; apply board_bytes_upd; try assumption; intros b0 Hb0.
  all: match goal with Hn : nth_opt _ (boards _) = Some ?b1 |- _ =>
         let Hb1 := fresh "Hb1" in
         assert (Hb1 : board_bytes b1) by (eapply nth_opt_Forall; eassumption);
         match goal with |- context [set_reg_list ?r0 _ _] => pose proof (reg_list_ok r0 _ Hb1) end end.
  all: destruct r; cbn [set_reg_list reg_list] in *; try exact Hb0.
  all: unfold board_bytes in *; cbn [b_cfg b_amp b_eq b_bpf b_v5 b_v3 b_t0 b_firm set_amp set_eq set_bpf];
       intuition (try (apply cval_set_nth; [assumption|exact I])).
Qed.

Lemma fold_lines_bs one : (forall d t d' l, dev_bytes d -> one d t = Some (d', l) -> bs l /\ dev_bytes d') ->
  forall ts d d' l, dev_bytes d -> fold_lines one d ts = Some (d', l) -> bs l /\ dev_bytes d'.
Proof.
  intros Hone. induction ts as [|t ts IH]; intros d d' l Hd H; cbn in H.
  - injection H as <- <-. split; [constructor|exact Hd].
  - destruct (one d t) as [[d1 l1]|] eqn:E1; [|discriminate].
    destruct (fold_lines one d1 ts) as [[d2 l2]|] eqn:E2; [|discriminate]. injection H as <- <-.
    destruct (Hone _ _ _ _ Hd E1) as [Hl1 Hd1]. destruct (IH _ _ _ Hd1 E2) as [Hl2 Hd2].
    split; [apply bs_app; assumption|exact Hd2].
Qed.

Lemma get_dbe_line_bs r name d t l : bs name -> dev_bytes d -> get_dbe_line r name d t = Some l -> bs l.
Proof.
  intros Hn Hd. unfold get_dbe_line. destruct t as [i a]. case_all; intros H; try discriminate H; injection H as <-.
  - apply dbe_err_bs; [assumption|lit_bytes].
  - assert (Hb : board_bytes b) by (eapply nth_opt_Forall; eassumption).
    assert (Hc : cval_ok c) by (eapply nth_opt_Forall; [apply reg_list_ok; exact Hb|eassumption]).
    pose proof (cstr_bs c Hc). assert (bs (reg_name r)) by (destruct r; lit_bytes). sb.
Qed.

Lemma all_some_bs (f : nat * Z -> option (list Z)) ts ls :
  (forall t l, f t = Some l -> bs l) -> all_some (map f ts) = Some ls -> bs (concat ls).
Proof.
  intros Hf. revert ls. induction ts as [|t ts IH]; intros ls H; cbn in H.
  - injection H as <-. constructor.
  - destruct (f t) as [l|] eqn:E; [|discriminate]. destruct (all_some (map f ts)) as [xs|]; [|discriminate].
    injection H as <-. cbn. apply bs_app; [eapply Hf; exact E|apply IH; reflexivity].
Qed.

Lemma OReply_inj a b : OReply a = OReply b -> a = b.
Proof. congruence. Qed.

(* ---------------- the theorem ---------------- *)
Lemma db_exec_bytes fx e d c :
  dev_bytes d -> cmd_bytes c ->
  dev_bytes (fst (exec fx e d c)) /\ forall r, snd (exec fx e d c) = OReply r -> bs r.
Proof.
  intros Hd Hc. unfold cmd_bytes in Hc.
  assert (Hbd : forall i b, In (i, b) (enum (boards d)) -> board_bytes b).
  { intros i b H. apply enum_In in H. unfold dev_bytes in Hd. rewrite Forall_forall in Hd. auto. }
  destruct c; cbn [cmd_toks] in Hc; unfold exec.
  - split; [exact Hd|]. intros r H. injection H as <-. lit_bytes.
  - split; [exact Hd|]. intros r H. injection H as <-. lit_bytes.
  - (* SETALLMODE *)
    unfold h_set_allmode. case_all; split_toks; cbn [fst snd R]; (split; [|intros r Hr; apply OReply_inj in Hr; subst]);
      try assumption; try exact Hd; try lit_bytes.
    + unfold dev_bytes, with_boards. cbn [boards]. rewrite Forall_forall. intros b Hb.
      apply in_map_iff in Hb as ([b1 l1] & <- & Hb). apply in_map_iff in Hb as ([i b0] & Hb & Hin).
      unfold set_allmode_line in Hb. specialize (Hbd i b0 Hin).
      destruct (b_status b0 =? 1); injection Hb as <- <-; cbn [fst]; [exact Hbd|bb].
    + apply bs_app; [apply drop_last_bs|apply crlf_bs]. rewrite map_map. apply concat_map_bs.
      intros [i b0] Hin. unfold set_allmode_line. destruct (b_status b0 =? 1); cbn [snd]; sb.
  - (* MODE *)
    unfold h_set_mode. case_all; split_toks; cbn [fst snd R]; (split; [|intros r Hr; try discriminate Hr; apply OReply_inj in Hr; subst]);
      try assumption; try exact Hd; try lit_bytes; try (unfold err_1005, err_1007; sb).
    apply board_bytes_upd; [assumption|]. intros b0 Hb0. bb.
  - (* STOREALLMODE *)
    unfold h_store_allmode. case_all; split_toks; cbn [fst snd R]; (split; [|intros r Hr; try discriminate Hr; apply OReply_inj in Hr; subst]);
      try assumption; try exact Hd; try lit_bytes.
    unfold err_1005.
    assert (Hu : Forall bs (unreachable_list d)).
    { unfold unreachable_list. rewrite Forall_forall. intros x Hx. apply in_concat in Hx as (l0 & Hl0 & Hx).
      apply in_map_iff in Hl0 as ([i b0] & <- & _). cbn [fst snd] in Hx.
      destruct (b_status b0 =? 1); [|destruct Hx]. destruct Hx as [<-|[]]. apply bnum_bs. }
    match goal with H : unreachable_list _ = ?x |- _ =>
      rewrite H in Hu; assert (Hj : bs (join [SP] x)) by (apply join_bs; [lit_bytes|exact Hu]) end.
    apply bs_app; [lit_bytes|]. apply bs_app; [exact Hj|]. sb.
  - (* DELETEFILE *)
    unfold h_delete_file. case_all; split_toks; cbn [fst snd R]; (split; [|intros r Hr; try discriminate Hr; apply OReply_inj in Hr; subst]);
      try assumption; try exact Hd; try lit_bytes.
  - (* GETSTATUS *)
    unfold h_get_status, with_board. case_all; split_toks; cbn [fst snd R];
      (split; [|intros r Hr; try discriminate Hr; apply OReply_inj in Hr; subst]); try assumption; try exact Hd; try lit_bytes;
      try (unfold err_1005, err_1007; sb).
  - (* SETATT SETAMP SETEQ SETBPF *)
    unfold h_set_reg. case_all; split_toks; cbn [fst snd R];
      (split; [|intros r0 Hr; try discriminate Hr; apply OReply_inj in Hr; subst]); try assumption; try exact Hd; try lit_bytes;
      try (unfold err_1005, err_1007, err_1010, err_1012, err_1013, err_1014; sb);
      try (apply board_bytes_upd; try assumption; try exact Hd; intros b0 Hb0; bb).
    all: match goal with Hn : nth_opt _ (boards _) = Some ?b1 |- _ =>
           let Hb1 := fresh "Hb1" in
           assert (Hb1 : board_bytes b1) by (eapply nth_opt_Forall; eassumption);
           destruct Hb1 as (_ & ? & ? & ? & _) end.
    all: apply cval_set_nth; [assumption|cbn; assumption].
  - (* ReadALLDIAG *)
    unfold h_all_diag. case_all; split_toks; cbn [fst snd R]; (split; [|intros r Hr; apply OReply_inj in Hr; subst]);
      try assumption; try exact Hd; try lit_bytes.
    apply bs_app; [do 2 apply drop_last_bs|apply crlf_bs]. apply concat_map_bs. intros [i b0] Hin.
    specialize (Hbd i b0 Hin). pose proof (volts_bs b0 Hbd). destruct Hbd as (_ & _ & _ & _ & _ & _ & Ht0 & _).
    unfold all_diag_part. case_all; sb.
  - (* ReadDIAG *)
    unfold h_diag. case_all; split_toks; cbn [fst snd R];
      (split; [|intros r Hr; try discriminate Hr; apply OReply_inj in Hr; subst]); try assumption; try exact Hd; try lit_bytes;
      try (unfold err_1005, err_1007; sb);
      match goal with Hn : nth_opt _ (boards d) = Some ?b0 |- _ =>
        assert (Hb0 : board_bytes b0) by (eapply nth_opt_Forall; eassumption);
        pose proof (volts_bs b0 Hb0); destruct Hb0 as (_ & _ & _ & _ & ? & ? & ? & _) end; sb.
  - (* SETSTATUS *)
    unfold h_set_status. case_all; split_toks; cbn [fst snd R];
      (split; [|intros r Hr; try discriminate Hr; apply OReply_inj in Hr; subst]); try assumption; try exact Hd; try lit_bytes;
      try (unfold err_1007; sb).
    apply board_bytes_upd; [assumption|]. intros b0 Hb0. bb.
  - (* GETCOMP *)
    unfold h_get_comp, with_board. case_all; split_toks; cbn [fst snd R];
      (split; [|intros r Hr; try discriminate Hr; apply OReply_inj in Hr; subst]); try assumption; try exact Hd; try lit_bytes;
      try (unfold err_1005, err_1007; sb).
    all: match goal with Hn : nth_opt _ (boards _) = Some ?b0 |- _ =>
           let Hb0 := fresh "Hb0" in
           assert (Hb0 : board_bytes b0) by (eapply nth_opt_Forall; eassumption);
           destruct Hb0 as (_ & ? & ? & ? & _) end.
    all: sb.
    all: apply cstr_bs; repeat match goal with Hf : Forall cval_ok _ |- _ => rewrite Forall_forall in Hf end; auto.
  - (* GETCFG *)
    unfold h_get_cfg. case_all; split_toks; cbn [fst snd R]; (split; [|intros r Hr; apply OReply_inj in Hr; subst]);
      try assumption; try exact Hd; try lit_bytes.
    apply bs_app; [do 2 apply drop_last_bs|apply crlf_bs]. apply bs_app; [lit_bytes|]. apply bs_app; [lit_bytes|].
    apply concat_map_bs. intros [i b0] Hin. specialize (Hbd i b0 Hin). destruct Hbd as (Hcfg & _). unfold cfg_part. case_all; sb.
  - (* GETFIRM *)
    unfold h_get_firm, with_board. case_all; split_toks; cbn [fst snd R];
      (split; [|intros r Hr; try discriminate Hr; apply OReply_inj in Hr; subst]); try assumption; try exact Hd; try lit_bytes;
      try (unfold err_1005, err_1007; sb).
    match goal with Hn : nth_opt _ (boards d) = Some ?b0 |- _ =>
      assert (Hb0 : board_bytes b0) by (eapply nth_opt_Forall; eassumption);
      destruct Hb0 as (_ & _ & _ & _ & _ & _ & _ & Hf) end. sb.
  - (* SETDBE* *)
    destruct r; unfold h_set_dbe; case_all; split_toks; cbn [fst snd R];
      (split; [|intros r0 Hr; try discriminate Hr; apply OReply_inj in Hr; subst]); try assumption; try exact Hd; try lit_bytes.
    all: match goal with
         | Hd0 : dev_bytes ?d0, H : fold_lines ?one ?d0 _ = Some (_, _) |- _ =>
             let HH := fresh "HH" in
             assert (HH : forall d1 t1 d2 l2, dev_bytes d1 -> one d1 t1 = Some (d2, l2) -> bs l2 /\ dev_bytes d2);
             [ intros ? ? ? ? ? ?;
               match goal with
               | Hq : set_dbeatt_one ?n ?v ?f ?dd ?tt = Some _ |- _ =>
                   apply (set_dbeatt_one_bs n v f dd tt _ _); assumption
               | Hq : set_dbe01_one ?rr ?n ?f ?dd ?tt = Some _ |- _ =>
                   apply (set_dbe01_one_bs rr n f dd tt _ _); assumption
               end
             | let Hl := fresh "Hl" in let Hd' := fresh "Hd'" in
               destruct (fold_lines_bs one HH _ _ _ _ Hd0 H) as [Hl Hd'] ]
         end; try assumption; sb.
  - (* GETDBE* *)
    unfold h_get_dbe. case_all; split_toks; cbn [fst snd R]; (split; [|intros r0 Hr; try discriminate Hr; apply OReply_inj in Hr; subst]);
      try assumption; try exact Hd; try lit_bytes.
    apply bs_app; [apply drop_last_bs|apply crlf_bs].
    match goal with H : all_some _ = Some _ |- _ => eapply all_some_bs; [|exact H] end.
    intros t0 l0 H0. eapply get_dbe_line_bs; eassumption.
Qed.

(* the tokens of a line of bytes are bytes *)
Lemma lstrip_bs l : bs l -> bs (lstrip l).
Proof. induction 1 as [|x l Hx Hl IH]; cbn; [constructor|]. destruct (py_ws x); [exact IH|constructor; assumption]. Qed.
Lemma rev_bs l : bs l -> bs (rev l).
Proof. intros H. unfold bs in *. rewrite Forall_forall in *. intros x Hx. apply H. apply in_rev. exact Hx. Qed.
Lemma strip_bs l : bs l -> bs (strip l).
Proof. intros H. unfold strip, rstrip. apply rev_bs, lstrip_bs, rev_bs, lstrip_bs. exact H. Qed.
Lemma split_bs sep l : bs l -> Forall bs (split_on sep l).
Proof.
  induction 1 as [|x l Hx Hl IH]; cbn; [constructor; constructor|].
  destruct (x =? sep); [constructor; [constructor|exact IH]|].
  destruct (split_on sep l) as [|h t]; [constructor; [constructor; [exact Hx|constructor]|constructor]|].
  inversion IH; subst. constructor; [constructor; assumption|assumption].
Qed.

Lemma decode_bytes m : bs m -> cmd_bytes (decode m).
Proof.
  intros H. unfold cmd_bytes, decode.
  assert (Ha : Forall bs (map strip (split_on SP m))).
  { pose proof (split_bs SP m H) as Hs. rewrite Forall_forall in *. intros x Hx.
    apply in_map_iff in Hx as (y & <- & Hy). apply strip_bs. auto. }
  destruct (map strip (split_on SP m)) as [|a0 rest]; [constructor|].
  inversion Ha as [|? ? _ Hrest]; subst.
  case_all; cbn [cmd_toks]; try constructor;
    match goal with Hr : Forall bs (_ :: ?ps) |- Forall bs ?ps => inversion Hr; assumption end.
Qed.

(* every state reached from byte boards by byte histories: the device stays bytes and every reply is
   a string of bytes (latin-1 encodable) *)
Lemma db_step_bytes fx e s b : byte b -> bs (msg s) -> dev_bytes (dv s) ->
  bs (msg (fst (step fx e s b))) /\ dev_bytes (dv (fst (step fx e s b))) /\
  forall r, snd (step fx e s b) = OReply r -> bs r.
Proof.
  intros Hb Hm Hd. unfold step. destruct (b =? LF).
  - pose proof (db_exec_bytes fx e (dv s) (decode (drop_last (msg s))) Hd
                  (decode_bytes _ (drop_last_bs _ Hm))) as [H1 H2].
    destruct (exec fx e (dv s) (decode (drop_last (msg s)))) as [d' o]. cbn [fst snd msg dv] in *.
    split; [constructor|]. split; assumption.
  - cbn [fst snd msg dv]. split; [apply bs_app; [exact Hm|constructor; [exact Hb|constructor]]|].
    split; [exact Hd|]. intros r H. discriminate H.
Qed.

Inductive reachable_b (fx : bool) (e : env) (bs0 : list board) (modes : list (list Z)) : st -> Prop :=
| rb_init : reachable_b fx e bs0 modes (init bs0 modes)
| rb_step s b : reachable_b fx e bs0 modes s -> byte b -> reachable_b fx e bs0 modes (fst (step fx e s b)).

Lemma reachable_b_bytes fx e bs0 modes s :
  Forall board_bytes bs0 -> reachable_b fx e bs0 modes s -> bs (msg s) /\ dev_bytes (dv s).
Proof.
  intros H0 Hr. induction Hr as [|s0 b0 Hr0 IH Hb0]; [split; [constructor|exact H0]|].
  destruct IH as [Hm Hd]. destruct (db_step_bytes fx e s0 b0 Hb0 Hm Hd) as (H1 & H2 & _). split; assumption.
Qed.

Theorem db_reply_charset fx e bs0 modes s b r :
  Forall board_bytes bs0 -> reachable_b fx e bs0 modes s -> byte b ->
  snd (step fx e s b) = OReply r -> bs r /\ ends_with crlf r = true.
Proof.
  intros H0 Hr Hb Hrep.
  destruct (reachable_b_bytes fx e bs0 modes s H0 Hr) as [Hm Hd].
  destruct (db_step_bytes fx e s b Hb Hm Hd) as (_ & _ & H3). split; [apply H3; exact Hrep|].
  unfold step in Hrep. destruct (b =? LF); [|discriminate Hrep].
  destruct (exec fx e (dv s) (decode (drop_last (msg s)))) as [d' o] eqn:E. cbn [snd] in Hrep. subst o.
  eapply db_reply_crlf. exact E.
Qed.
