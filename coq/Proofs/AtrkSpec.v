(* C17 — specification vocabulary for the program-track loads (no model code here except what the
   statements mention) and the list lemmas about equally spaced sequences. *)
From DS Require Import Base.Prelude Model.AtrkModel.
From Coq Require Import QArith_base.
#[local] Close Scope Q_scope.
#[local] Open Scope Z_scope.

Definition times (tb : list point) : list Z := map p_t tb.
Definition etimes (es : list entry) : list Z := map e_t es.

(* consecutive differences *)
Fixpoint steps (l : list Z) : list Z :=
  match l with
  | a :: (b :: _) as r => (b - a) :: steps r
  | _ => []
  end.

Definition ap (d : Z) (l : list Z) : Prop := Forall (fun x => x = d) (steps l).

(* "equally spaced, strictly increasing": an arithmetic progression with a positive step
   (vacuous for fewer than two elements) *)
Definition equally_spaced (l : list Z) : Prop := exists d, 0 < d /\ ap d l.

Definition representable (e : entry) : Prop := c_ud (e_az e) <> None /\ c_ud (e_el e) <> None.

(* the table the received entries are added to *)
Definition base (st : pstate) (h : header) : list point :=
  if h_mode h =? 1 then [] else tbl st.

(* The acceptance rule of the statement: spline, azimuth/elevation, at most 50 points, equally
   spaced strictly increasing times, and either a new table of at least 5 points starting at 0
   or an append to a non-empty table with the same start time. *)
Definition acceptable (st : pstate) (h : header) (es : list entry) : Prop :=
  h_interp h = 4 /\ h_track h = 1 /\ (length es <= 50)%nat /\
  ((h_mode h = 1 /\ (5 <= length es)%nat /\ hd_error (etimes es) = Some 0
    /\ equally_spaced (etimes es))
   \/
   (h_mode h = 2 /\ tbl st <> [] /\ (exists s, h_start h = Some s /\ start st = Some s)
    /\ equally_spaced (times (tbl st) ++ etimes es))).

(* what the repaired code additionally needs to be able to honour a load: a start time that is a
   date, coordinates that are INT32 microdegrees, at least 4 points for the cubic spline, and an end
   of the track (start + last relative time) that is still a representable date.  The classes of
   known/C17.txt are the negations of these conjuncts (the first and the last are one class). *)
Definition feasible (st : pstate) (h : header) (es : list entry) : Prop :=
  h_start h <> None /\ Forall representable es /\ (4 <= length (base st h) + length es)%nat /\
  (forall lt, last_opt (times (base st h) ++ etimes es) = Some lt -> lt * 1000 <= h_room h).

(* everything of the tracking state except the three answer fields *)
Definition same_track (a b : pstate) : Prop :=
  tbl a = tbl b /\ tck a = tck b /\ start a = start b /\ lastc a = lastc b /\
  pt_state a = pt_state b /\ pt_len a = pt_len b /\ pt_act a = pt_act b /\ pt_end a = pt_end b /\
  interp a = interp b /\ pt_id a = pt_id b /\ az_bahn a = az_bahn b /\ el_bahn a = el_bahn b /\
  az_next a = az_next b /\ el_next a = el_next b.

(* the invariant of reachable states *)
Definition inv (st : pstate) : Prop :=
  pt_len st = Z.of_nat (length (tbl st)) /\
  equally_spaced (times (tbl st)) /\
  (pt_state st = 0 \/ pt_state st = 2 \/ pt_state st = 3 \/ pt_state st = 4) /\
  ((pt_state st = 2 \/ pt_state st = 3) <-> tbl st <> []) /\
  (pt_state st <> 0 -> start st <> None /\ lastc st <> None) /\
  (tbl st <> [] ->
     exists pre lp, tck st = Some (pre ++ tbl st) /\ equally_spaced (times (pre ++ tbl st)) /\
       Forall (fun p => 0 <= p_t p) (pre ++ tbl st) /\
       last_opt (tbl st) = Some lp /\ lastc st = Some (p_az lp, p_el lp) /\
       (4 <= length (pre ++ tbl st))%nat).

(* ------------------------------------------------------------------ lists *)

Lemma last_opt_app {A} (l : list A) x : last_opt (l ++ [x]) = Some x.
Proof.
  induction l as [|a l IH]; [reflexivity|].
  cbn [app]. destruct (l ++ [x]) eqn:E.
  - destruct l; discriminate.
  - cbn [last_opt]. cbn [last_opt] in IH. exact IH.
Qed.

Lemma last_opt_cons {A} (a : A) l : l <> [] -> last_opt (a :: l) = last_opt l.
Proof. destruct l; [congruence|reflexivity]. Qed.

Lemma last_opt_none {A} (l : list A) : last_opt l = None <-> l = [].
Proof.
  induction l as [|a l IH]; [tauto|].
  split; [|discriminate]. destruct l; [discriminate|]. intros H. cbn [last_opt] in H.
  apply IH in H. discriminate.
Qed.

Lemma last_opt_app_ne {A} (l1 l2 : list A) : l2 <> [] -> last_opt (l1 ++ l2) = last_opt l2.
Proof.
  intros H. induction l1 as [|a l1 IH]; [reflexivity|].
  cbn [app]. rewrite last_opt_cons; [exact IH|]. destruct l1; cbn; [exact H|discriminate].
Qed.

Lemma last_opt_map {A B} (f : A -> B) l : last_opt (map f l) = option_map f (last_opt l).
Proof.
  induction l as [|a l IH]; [reflexivity|].
  destruct l; [reflexivity|]. cbn [map last_opt] in *. exact IH.
Qed.

Lemma last_opt_split {A} (l : list A) x : last_opt l = Some x -> exists l', l = l' ++ [x].
Proof.
  revert x; induction l as [|a l IH]; intros x H; [discriminate|].
  destruct l as [|b l].
  - injection H as <-. exists []. reflexivity.
  - cbn [last_opt] in H. destruct (IH _ H) as [l' E]. exists (a :: l'). rewrite E. reflexivity.
Qed.

Lemma ap_nil d : ap d []. Proof. constructor. Qed.
Lemma ap_one d a : ap d [a]. Proof. constructor. Qed.

Lemma ap_cons d a b l : ap d (a :: b :: l) <-> b - a = d /\ ap d (b :: l).
Proof.
  unfold ap. cbn [steps]. split.
  - intros H. inversion H; subst. split; [reflexivity|assumption].
  - intros [H1 H2]. constructor; assumption.
Qed.

Lemma ap_tail d a l : ap d (a :: l) -> ap d l.
Proof. destruct l; [intros; apply ap_nil|]. intros H. apply ap_cons in H. tauto. Qed.

(* splitting an arithmetic progression at an element *)
Lemma ap_app d l1 x l2 : ap d (l1 ++ x :: l2) <-> ap d (l1 ++ [x]) /\ ap d (x :: l2).
Proof.
  induction l1 as [|a l1 IH]; cbn [app].
  - split; [intros H; split; [apply ap_one|exact H]|tauto].
  - destruct l1 as [|b l1]; cbn [app] in *.
    + rewrite !ap_cons. split; [intros [H1 H2]; repeat split; auto using ap_one|tauto].
    + rewrite !ap_cons. rewrite IH. tauto.
Qed.

Lemma ap_skipn d n l : ap d l -> ap d (skipn n l).
Proof.
  revert l; induction n as [|n IH]; intros l H; [exact H|].
  destruct l; [exact H|]. cbn [skipn]. apply IH. eapply ap_tail; eauto.
Qed.

Lemma equally_spaced_skipn n l : equally_spaced l -> equally_spaced (skipn n l).
Proof. intros [d [Hd H]]. exists d. split; [exact Hd|apply ap_skipn; exact H]. Qed.

Lemma equally_spaced_app_r l1 l2 : equally_spaced (l1 ++ l2) -> equally_spaced l2.
Proof.
  intros H. replace l2 with (skipn (length l1) (l1 ++ l2)).
  - apply equally_spaced_skipn; exact H.
  - rewrite skipn_app, skipn_all, Nat.sub_diag. reflexivity.
Qed.

(* sortedness consequences *)
Lemma ap_lower d a l : 0 < d -> ap d (a :: l) -> Forall (fun x => a <= x) (a :: l).
Proof.
  intros Hd. revert a; induction l as [|b l IH]; intros a H.
  - constructor; [lia|constructor].
  - apply ap_cons in H as [H1 H2]. constructor; [lia|].
    specialize (IH _ H2). eapply Forall_impl; [|exact IH]. cbn. intros; lia.
Qed.

Lemma ap_strict d a l : 0 < d -> ap d (a :: l) -> Forall (fun x => a < x) l.
Proof.
  intros Hd H. destruct l as [|b l]; [constructor|].
  apply ap_cons in H as [H1 H2]. pose proof (ap_lower _ _ _ Hd H2) as HF.
  eapply Forall_impl; [|exact HF]. cbn. intros; lia.
Qed.

Lemma ap_upper d l x : 0 < d -> ap d (l ++ [x]) -> Forall (fun y => y <= x) (l ++ [x]).
Proof.
  intros Hd. induction l as [|a l IH]; intros H; cbn [app] in *.
  - constructor; [lia|constructor].
  - pose proof (ap_lower _ _ _ Hd H) as HL.
    constructor.
    + rewrite Forall_forall in HL. apply HL. right. apply in_or_app. right. left. reflexivity.
    + apply IH. eapply ap_tail; eauto.
Qed.
