(* General lemmas about [run] and the list helpers of Model/SmcBase.v. *)
From DS Require Import Base.Prelude Model.SmcBase.

Section Run.
  Context {S I O : Type} (step : S -> I -> S * O).

  Lemma run_app s l1 l2 :
    run step s (l1 ++ l2) =
    (fst (run step (fst (run step s l1)) l2), snd (run step s l1) ++ snd (run step (fst (run step s l1)) l2)).
  Proof.
    revert s. induction l1 as [|i l1 IH]; intros s; cbn [run app].
    - cbn. destruct (run step s l2); reflexivity.
    - destruct (step s i) as [s1 o] eqn:E. rewrite IH.
      destruct (run step s1 l1) as [s2 os] eqn:E2. cbn [fst snd].
      destruct (run step s2 l2); reflexivity.
  Qed.

  Lemma run_snoc s l i :
    fst (run step s (l ++ [i])) = fst (step (fst (run step s l)) i).
  Proof.
    rewrite run_app. cbn [fst]. cbn [run]. destruct (step (fst (run step s l)) i). reflexivity.
  Qed.

  Lemma run_length s l : length (snd (run step s l)) = length l.
  Proof.
    revert s. induction l as [|i l IH]; intros s; cbn [run]; [reflexivity|].
    destruct (step s i) as [s1 o]. specialize (IH s1). destruct (run step s1 l). cbn in *. congruence.
  Qed.

  (* an invariant of every step is an invariant of every run *)
  Lemma run_inv (P : S -> Prop) :
    (forall s i, P s -> P (fst (step s i))) -> forall l s, P s -> P (fst (run step s l)).
  Proof.
    intros H l. induction l as [|i l IH]; intros s Hs; cbn [run]; [exact Hs|].
    specialize (H s i Hs). destruct (step s i) as [s1 o]. cbn [fst] in H.
    specialize (IH s1 H). destruct (run step s1 l). exact IH.
  Qed.
End Run.

Lemma starts_with_app p l : starts_with p (p ++ l) = true.
Proof. induction p as [|a p IH]; cbn; [reflexivity|]. rewrite Z.eqb_refl, IH. reflexivity. Qed.

Lemma ends_with_app p l : ends_with p (l ++ p) = true.
Proof. unfold ends_with. rewrite rev_app_distr. apply starts_with_app. Qed.

Lemma zlist_eqb_refl l : zlist_eqb l l = true.
Proof. apply zlist_eqb_eq. reflexivity. Qed.

Lemma nth_opt_set_nth_same {A} (l : list A) n v :
  (n < length l)%nat -> nth_opt n (set_nth n v l) = Some v.
Proof.
  revert n. induction l as [|x l IH]; intros [|n] H; cbn in *; try lia; [reflexivity|].
  apply IH. lia.
Qed.

Lemma nth_opt_set_nth_other {A} (l : list A) n m v :
  n <> m -> nth_opt m (set_nth n v l) = nth_opt m l.
Proof.
  revert n m. induction l as [|x l IH]; intros [|n] [|m] H; cbn; try reflexivity; try congruence.
  apply IH. congruence.
Qed.

Lemma set_nth_length {A} (l : list A) n v : length (set_nth n v l) = length l.
Proof. revert n. induction l as [|x l IH]; intros [|n]; cbn; auto. Qed.

Lemma nth_opt_Some_lt {A} (l : list A) n x : nth_opt n l = Some x -> (n < length l)%nat.
Proof.
  revert n. induction l as [|y l IH]; intros [|n] H; cbn in *; try discriminate; try lia.
  apply IH in H. lia.
Qed.

Lemma nth_opt_lt {A} (l : list A) n : (n < length l)%nat -> exists x, nth_opt n l = Some x.
Proof.
  revert n. induction l as [|y l IH]; intros [|n] H; cbn in *; try lia.
  - eexists; reflexivity.
  - apply IH. lia.
Qed.
