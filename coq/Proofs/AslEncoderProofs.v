(* Lemmas about Model/AslEncoder.v (command_library.py) against the line model: every message an
   encoder builds is the frame of the intended request, and the simulator's handlers decode its
   parameter bytes to the encoder's arguments (part c10_as). *)
From DS Require Import Base.Prelude Base.Bits Model.Utils Model.AslLine Model.AslEncoder.
From DS Require Import Proofs.UtilsProofs Proofs.AslFrameProofs Proofs.AslLineProofs.

(* ---------- boolean equality on decode results, for finite sweeps ---------- *)

Definition arg_eqb (a b : arg) : bool :=
  match a, b with
  | AInt x, AInt y => x =? y
  | ANone, ANone => true
  | AList x, AList y => zlist_eqb x y
  | _, _ => false
  end.
Lemma arg_eqb_eq a b : arg_eqb a b = true -> a = b.
Proof.
  destruct a, b; cbn; try discriminate; intros H; try reflexivity.
  - apply Z.eqb_eq in H. congruence.
  - apply zlist_eqb_eq in H. congruence.
Qed.
Lemma args_eqb_eq l1 : forall l2, list_eqb arg_eqb l1 l2 = true -> l1 = l2.
Proof.
  induction l1 as [|x l1 IH]; intros [|y l2]; cbn; try discriminate; [reflexivity|].
  intros H. apply andb_true_iff in H as [H1 H2]. apply arg_eqb_eq in H1. apply IH in H2. congruence.
Qed.
Definition rkind_eqb (a b : rkind) : bool :=
  match a, b with
  | KAck, KAck | KBool, KBool | KVersion, KVersion | KPosition, KPosition
  | KStatus, KStatus | KType, KType => true
  | _, _ => false
  end.
Definition dres_eqb (a b : dres) : bool :=
  match a, b with
  | DNak, DNak | DExc, DExc => true
  | DCall c k, DCall c' k' =>
      (c_code c =? c_code c') && list_eqb arg_eqb (c_args c) (c_args c') && rkind_eqb k k'
  | _, _ => false
  end.
Lemma dres_eqb_eq a b : dres_eqb a b = true -> a = b.
Proof.
  destruct a as [| |[c l] k], b as [| |[c' l'] k']; cbn; try discriminate; try reflexivity.
  intros H. apply andb_true_iff in H as [H H3]. apply andb_true_iff in H as [H1 H2].
  apply Z.eqb_eq in H1. apply args_eqb_eq in H2. subst.
  destruct k, k'; cbn in H3; try discriminate; reflexivity.
Qed.

(* ---------- one-byte codecs ---------- *)

Lemma int1_enc m le ps : int_to_bytes m 1 le = Some ps -> ps = [m mod 256] /\ -128 <= m < 128.
Proof.
  intros H. apply int_to_bytes_some in H; [|lia]. destruct H as [Hr ->].
  change (8 * Z.of_nat 1) with 8 in *. change (2 ^ (8 - 1)) with 128 in Hr.
  split; [|lia]. unfold of_signed. change (2 ^ 8) with 256.
  destruct le; unfold be_enc; cbn [le_enc rev app]; f_equal; lia.
Qed.

Lemma uint1_bytes_sweep z : byte z -> binary_to_bytes (zfill 8 (bin z)) true = [z].
Proof.
  intros Hz. apply zlist_eqb_eq.
  apply (byte_sweep (fun z => zlist_eqb (binary_to_bytes (zfill 8 (bin z)) true) [z]));
    [vm_compute; reflexivity|exact Hz].
Qed.

Lemma uint1_enc z ps : uint_to_bytes z 1 true = Some ps -> ps = [z] /\ byte z.
Proof.
  unfold uint_to_bytes. change (2 ^ Z.of_nat (8 * 1) - 1) with 255.
  destruct ((z <? 0) || (255 <? z)) eqn:Hc; [discriminate|]. intros [= <-].
  assert (Hz : byte z) by (unfold byte; lia). split; [|exact Hz].
  change (8 * 1)%nat with 8%nat. now apply uint1_bytes_sweep.
Qed.

Lemma uint1_total z : byte z -> uint_to_bytes z 1 true = Some [z].
Proof.
  intros Hz. unfold uint_to_bytes. change (2 ^ Z.of_nat (8 * 1) - 1) with 255.
  replace ((z <? 0) || (255 <? z)) with false by (unfold byte in Hz; lia).
  change (8 * 1)%nat with 8%nat. now rewrite uint1_bytes_sweep.
Qed.

Lemma int_to_bytes_total v n le : (0 < n)%nat ->
  - 2 ^ (8 * Z.of_nat n - 1) <= v < 2 ^ (8 * Z.of_nat n - 1) -> exists l, int_to_bytes v n le = Some l.
Proof.
  intros Hn Hv. unfold int_to_bytes. destruct n as [|n']; [lia|].
  replace ((- 2 ^ (8 * Z.of_nat (S n') - 1) <=? v) && (v <? 2 ^ (8 * Z.of_nat (S n') - 1))) with true by lia.
  eauto.
Qed.

Lemma int1_total v le : -128 <= v < 128 -> int_to_bytes v 1 le = Some [v mod 256].
Proof.
  intros H. destruct (int_to_bytes_total v 1 le) as [l Hl]; [lia| |].
  - change (8 * Z.of_nat 1 - 1) with 7. change (2 ^ 7) with 128. lia.
  - rewrite Hl. apply int1_enc in Hl. destruct Hl as [-> _]. reflexivity.
Qed.

(* ---------- the address byte built by _compose ---------- *)

Definition hdr_check (n i : Z) : bool :=
  match twos_to_int (zfill 3 (bin n) ++ zfill 5 (bin i)) with
  | Some v => v =? to_signed 8 (n * 32 + i)
  | None => false
  end.

Lemma small_in lo len z : Z.of_nat lo <= z < Z.of_nat (lo + len) -> In z (map Z.of_nat (seq lo len)).
Proof.
  intros H. apply in_map_iff. exists (Z.to_nat z). split; [lia|]. apply in_seq. lia.
Qed.

Lemma hdr_sweep n i : 1 <= n <= 7 -> 0 <= i <= 31 ->
  twos_to_int (zfill 3 (bin n) ++ zfill 5 (bin i)) = Some (to_signed 8 (n * 32 + i)).
Proof.
  intros Hn Hi.
  assert (A : forallb (fun n => forallb (hdr_check n) (map Z.of_nat (seq 0 32)))
                      (map Z.of_nat (seq 1 7)) = true) by (vm_compute; reflexivity).
  rewrite forallb_forall in A. specialize (A n (small_in 1 7 n ltac:(lia))).
  rewrite forallb_forall in A. specialize (A i (small_in 0 32 i ltac:(lia))).
  unfold hdr_check in A. destruct (twos_to_int _) as [v|]; [|discriminate].
  apply Z.eqb_eq in A. congruence.
Qed.

(* ---------- _compose builds the frame of the request ---------- *)

Lemma start_header aor : is_header (start_of aor) = true.
Proof. destruct aor; reflexivity. Qed.

Lemma compose_spec aor idx code ps bs : (length ps <= 6)%nat ->
  compose aor idx code ps = Some bs ->
  bs = frame_of (target_req aor idx code ps) /\ wf_req (target_req aor idx code ps).
Proof.
  intros Hl. unfold compose. destruct idx as [i|]; cbn [target_req frame_of wf_req].
  - destruct ((0 <=? i) && (i <? 32)) eqn:Hi; [|discriminate].
    cbn [length]. rewrite hdr_sweep by lia.
    destruct (int_to_bytes _ 1 true) as [hb|] eqn:Eh; [|discriminate]. intros [= <-].
    apply int1_enc in Eh. destruct Eh as [-> _].
    assert (Hu : 0 <= Z.of_nat (S (length ps)) * 32 + i < 2 ^ 8) by (change (2 ^ 8) with 256; lia).
    pose proof (of_to_signed 8 _ ltac:(lia) Hu) as Hs. unfold of_signed in Hs.
    change (2 ^ 8) with 256 in Hs. rewrite Hs.
    replace (Z.of_nat (S (length ps))) with (Z.of_nat (length ps) + 1) by lia.
    split; [reflexivity|]. split; [apply start_header|]. split; [lia|exact Hl].
  - destruct (int_to_bytes _ 1 true) as [lb|] eqn:Eh; [|discriminate]. intros [= <-].
    apply int1_enc in Eh. destruct Eh as [-> _]. cbn [length].
    replace (Z.of_nat (S (length ps)) mod 256) with (Z.of_nat (length ps) + 1) by lia.
    split; [reflexivity|]. split; [apply start_header|exact Hl].
Qed.

Lemma compose_total aor idx code ps : (length ps <= 6)%nat ->
  match idx with None => True | Some i => 0 <= i <= 31 end ->
  compose aor idx code ps = Some (frame_of (target_req aor idx code ps)).
Proof.
  intros Hl Hi. unfold compose. destruct idx as [i|]; cbn [target_req frame_of].
  - replace ((0 <=? i) && (i <? 32)) with true by lia.
    cbn [length]. rewrite hdr_sweep by lia.
    set (x := Z.of_nat (S (length ps)) * 32 + i).
    assert (Hu : 0 <= x < 2 ^ 8) by (unfold x; change (2 ^ 8) with 256; lia).
    pose proof (to_signed_range 8 x ltac:(lia) Hu) as Hr. change (2 ^ (8 - 1)) with 128 in Hr.
    rewrite int1_total by lia.
    pose proof (of_to_signed 8 x ltac:(lia) Hu) as Hs. unfold of_signed in Hs.
    change (2 ^ 8) with 256 in Hs. rewrite Hs.
    unfold x. replace (Z.of_nat (S (length ps))) with (Z.of_nat (length ps) + 1) by lia. reflexivity.
  - cbn [length]. rewrite int1_total by lia.
    replace (Z.of_nat (S (length ps)) mod 256) with (Z.of_nat (length ps) + 1) by lia.
    reflexivity.
Qed.

(* ---------- the handlers decode the parameter bytes to the encoder's arguments ---------- *)

Lemma be_param v n ps : (0 < n)%nat -> int_to_bytes v n false = Some ps ->
  be_signed ps = v /\ length ps = n /\ bytes ps.
Proof. intros Hn H. unfold be_signed. now apply int_bytes_roundtrip. Qed.

Lemma twos_byte_sweep b : byte b -> twos_to_int (zfill 8 (bin b)) = Some (to_signed 8 b).
Proof.
  intros Hb.
  assert (H : match twos_to_int (zfill 8 (bin b)) with Some v => v =? to_signed 8 b | None => false end = true).
  { apply (byte_sweep (fun b => match twos_to_int (zfill 8 (bin b)) with
                                | Some v => v =? to_signed 8 b | None => false end));
      [vm_compute; reflexivity|exact Hb]. }
  destruct (twos_to_int _) as [v|]; [|discriminate]. apply Z.eqb_eq in H. congruence.
Qed.

Lemma resolution_sweep z : byte z ->
  decode 38 [z] = DCall (mkcall 38 [if z <? 8 then AInt z else ANone]) KAck.
Proof.
  intros Hz. apply dres_eqb_eq.
  apply (byte_sweep (fun z => dres_eqb (decode 38 [z])
                                (DCall (mkcall 38 [if z <? 8 then AInt z else ANone]) KAck)));
    [vm_compute; reflexivity|exact Hz].
Qed.

Lemma reduction_sweep z : byte z ->
  decode 39 [z] = DCall (mkcall 39 [AInt (z / 64); AInt (z mod 64)]) KAck.
Proof.
  intros Hz. apply dres_eqb_eq.
  apply (byte_sweep (fun z => dres_eqb (decode 39 [z])
                                (DCall (mkcall 39 [AInt (z / 64); AInt (z mod 64)]) KAck)));
    [vm_compute; reflexivity|exact Hz].
Qed.

(* the one-character str arguments are latin-1 characters *)
Definition chr_ok (e : ecmd) : Prop :=
  match e with
  | ESetIoPins (BChr c) | ESetResolution (BChr c) | EReduceCurrent (BChr c)
  | EToggleDelayedExecution (BChr c) | ESetStopIo (BChr c) | ESetPositioningIo (BChr c)
  | ESetHomeIo (BChr c) | ESetWorkingMode (BChr c) => byte c
  | _ => True
  end.

Lemma byte_param_spec b ps : match b with BChr c => byte c | _ => True end ->
  byte_param b = Some ps -> ps = [bval b] /\ byte (bval b).
Proof.
  destruct b as [z|c]; cbn [byte_param bval]; intros Hc H.
  - now apply uint1_enc.
  - injection H as <-. auto.
Qed.

Lemma bytes1 z : byte z -> bytes [z].
Proof. intros H. constructor; [exact H|constructor]. Qed.

Lemma params_spec e ps : chr_ok e -> params_of e = Some ps ->
  bytes ps /\ (length ps <= 4)%nat /\ decode (code_of e) ps = expected e.
Proof.
  intros Hc H.
  destruct e; cbn [params_of code_of expected chr_ok] in *;
    try (injection H as <-; split; [constructor|split; [cbn; lia|reflexivity]]);
    try (apply byte_param_spec in H; [|exact Hc]; destruct H as [-> Hb];
         split; [now apply bytes1|split; [cbn; lia|]]).
  - (* min frequency *)
    apply be_param in H; [|lia]. destruct H as (Hv & Hl & Hb). split; [exact Hb|split; [lia|]].
    unfold decode. rewrite Hl, Hv. reflexivity.
  - apply be_param in H; [|lia]. destruct H as (Hv & Hl & Hb). split; [exact Hb|split; [lia|]].
    unfold decode. rewrite Hl, Hv. reflexivity.
  - (* slope multiplier *)
    apply int1_enc in H. destruct H as [-> Hr]. split; [apply bytes1; unfold byte; lia|split; [cbn; lia|]].
    reflexivity.
  - (* reference position *)
    unfold pos_param in H. destruct ((p <? -2147483648) || (2147483647 <? p)); [discriminate|].
    apply be_param in H; [|lia]. destruct H as (Hv & Hl & Hb). split; [exact Hb|split; [lia|]].
    unfold decode. rewrite Hl, Hv. reflexivity.
  - (* io pins *) reflexivity.
  - (* resolution *) now apply resolution_sweep.
  - (* current reduction *) now apply reduction_sweep.
  - (* response delay *)
    apply uint1_enc in H. destruct H as [-> Hb]. split; [now apply bytes1|split; [cbn; lia|reflexivity]].
  - (* delayed execution *) reflexivity.
  - (* absolute position *)
    unfold pos_param in H. destruct ((p <? -2147483648) || (2147483647 <? p)); [discriminate|].
    apply be_param in H; [|lia]. destruct H as (Hv & Hl & Hb). split; [exact Hb|split; [lia|]].
    unfold decode. rewrite Hl, Hv. reflexivity.
  - (* relative position *)
    unfold pos_param in H. destruct ((p <? -2147483648) || (2147483647 <? p)); [discriminate|].
    apply be_param in H; [|lia]. destruct H as (Hv & Hl & Hb). split; [exact Hb|split; [lia|]].
    unfold decode. rewrite Hl, Hv. reflexivity.
  - (* rotate *)
    apply int1_enc in H. destruct H as [-> Hr].
    assert (Hy : byte (d mod 256)) by (unfold byte; lia).
    split; [now apply bytes1|split; [cbn; lia|]].
    unfold decode. rewrite (twos_byte_sweep _ Hy).
    pose proof (to_of_signed 8 d ltac:(lia)) as Hs. unfold of_signed in Hs.
    change (2 ^ 8) with 256 in Hs. change (2 ^ (8 - 1)) with 128 in Hs. rewrite Hs by lia. reflexivity.
  - (* velocity *)
    apply be_param in H; [|lia]. destruct H as (Hv & Hl & Hb). split; [exact Hb|split; [lia|]].
    unfold decode. rewrite Hl, Hv. cbn [Nat.eqb]. reflexivity.
  - (* stop io *) reflexivity.
  - (* positioning io *) reflexivity.
  - (* home io *) reflexivity.
  - (* working mode *)
    destruct (byte_param b) as [l|] eqn:Eb; [|discriminate]. injection H as <-.
    apply byte_param_spec in Eb; [|exact Hc]. destruct Eb as [-> Hb].
    split; [constructor; [exact Hb|apply bytes1; unfold byte; lia]|split; [cbn; lia|reflexivity]].
Qed.

Lemma code_byte e : byte (code_of e).
Proof. destruct e; cbn; unfold byte; lia. Qed.

Lemma code_known e : known (code_of e) = true.
Proof. destruct e; reflexivity. Qed.

Lemma start_byte aor : byte (start_of aor).
Proof. destruct aor; cbn; unfold byte; lia. Qed.

(* every message an encoder returns is the frame of the intended request, whose parameter bytes
   the simulator decodes to [expected e] *)
Theorem enc_spec e idx aor bs : chr_ok e -> enc e idx aor = Some bs ->
  exists ps, let q := target_req aor idx (code_of e) ps in
    bs = frame_of q /\ wf_req q /\ bytes_req q /\ decode (code_of e) ps = expected e.
Proof.
  intros Hc H. unfold enc in H. destruct (params_of e) as [ps|] eqn:Ep; [|discriminate].
  destruct (params_spec e ps Hc Ep) as (Hb & Hl & Hd).
  destruct (compose_spec aor idx (code_of e) ps bs ltac:(lia) H) as (-> & Hw).
  exists ps. cbn zeta. split; [reflexivity|]. split; [exact Hw|]. split; [|exact Hd].
  destruct idx; cbn [target_req bytes_req]; (split; [apply start_byte|split; [apply code_byte|exact Hb]]).
Qed.

(* in-domain arguments: the encoders do not fail *)
Definition in_domain (e : ecmd) : Prop :=
  let b_ok b := match b with BInt z => byte z | BChr c => True end in
  match e with
  | ESetMinFrequency f | ESetMaxFrequency f => -32768 <= f < 32768
  | ESetSlopeMultiplier m => -128 <= m < 128
  | ESetReferencePosition p | ESetAbsolutePosition p | ESetRelativePosition p =>
      -2147483648 <= p <= 2147483647
  | ESetIoPins b | ESetResolution b | EReduceCurrent b | EToggleDelayedExecution b
  | ESetStopIo b | ESetPositioningIo b | ESetHomeIo b | ESetWorkingMode b => b_ok b
  | ESetResponseDelay d => byte d
  | ERotate d => -128 <= d < 128
  | ESetVelocity v => -8388608 <= v < 8388608
  | _ => True
  end.

Lemma params_total e : in_domain e -> exists ps, params_of e = Some ps.
Proof.
  intros H.
  assert (B : forall b, match b with BInt z => byte z | BChr c => True end ->
                        exists l, byte_param b = Some l).
  { intros [z|c] Hb; cbn [byte_param]; [rewrite uint1_total by exact Hb|]; eauto. }
  destruct e; cbn [params_of in_domain] in *; eauto;
    try (apply int_to_bytes_total; [lia|]; cbn; lia);
    try (unfold pos_param; replace ((p <? -2147483648) || (2147483647 <? p)) with false by lia;
         apply int_to_bytes_total; [lia|]; cbn; lia).
  - rewrite uint1_total by exact H. eauto.
  - destruct (B b H) as [l ->]. eauto.
Qed.

Theorem enc_total e idx aor : in_domain e -> chr_ok e ->
  match idx with None => True | Some i => 0 <= i <= 31 end ->
  exists bs, enc e idx aor = Some bs.
Proof.
  intros Hd Hc Hi. destruct (params_total e Hd) as [ps Ep].
  destruct (params_spec e ps Hc Ep) as (_ & Hl & _).
  unfold enc. rewrite Ep. rewrite compose_total by (try lia; exact Hi). eauto.
Qed.

(* ------------------------------------------------------------------------------------------ *)
(* Through the simulator                                                                        *)

Section Through.
  Context {U : Type}.
  Variable sem : U -> ucall -> U * uret.
  Variable delay : U -> Z.

  (* main statement of c10_as: from the idle state the message is consumed with True for every
     byte but the last; the last byte has the outcome / effect of the request
     (target, command code, parameter bytes) the encoder was asked for; the handler decodes the
     parameter bytes to the encoder's arguments ([expected e]); the parser is idle afterwards *)
  Theorem enc_through e idx aor bs min drv : chr_ok e -> enc e idx aor = Some bs ->
    exists ps, let q := target_req aor idx (code_of e) ps in
      lrun sem delay (mkL min drv finit) bs =
        (mkL min (fst (exec sem delay true true min drv q)) finit,
         repeat OTrue (length bs - 1) ++ [snd (exec sem delay true true min drv q)]) /\
      decode (code_of e) ps = expected e /\ known (code_of e) = true.
  Proof.
    intros Hc H. destruct (enc_spec e idx aor bs Hc H) as (ps & -> & Hw & Hb & Hd).
    exists ps. cbn zeta. split; [|split; [exact Hd|apply code_known]].
    apply lrun_frame; assumption.
  Qed.

  (* unicast to a unit on the line: exactly that unit receives exactly the expected call *)
  Theorem enc_unicast_call e i aor bs min drv c k : chr_ok e ->
    enc e (Some i) aor = Some bs -> expected e = DCall c k -> on_line min drv i ->
    exists u os, nth_error drv (Z.to_nat (i - min)) = Some u /\
      lrun sem delay (mkL min drv finit) bs =
        (mkL min (upd drv (Z.to_nat (i - min)) (fst (sem u c))) finit, os).
  Proof.
    intros Hc H He Hon. destruct (enc_through e (Some i) aor bs min drv Hc H) as (ps & Hr & Hd & Hk).
    cbn [target_req] in Hr.
    destruct (unicast_only_addressed sem delay min drv (start_of aor) i (code_of e) ps Hon)
      as (u & Hu & Hx).
    rewrite Hx in Hr. cbn [fst snd] in Hr.
    assert (Hf : fst (unit_exec sem delay (start_of aor) i (code_of e) ps u) = fst (sem u c)).
    { unfold unit_exec. rewrite Hk, Hd, He. cbn [negb].
      destruct (sem u c) as [u' r]. destruct (build k (start_of aor) i r); reflexivity. }
    rewrite Hf in Hr. exists u. eexists. split; [exact Hu|exact Hr].
  Qed.

  (* broadcast of a command that is not a getter: every unit receives the expected call once;
     never a reply *)
  Theorem enc_broadcast_call e aor bs min drv c k : chr_ok e ->
    enc e None aor = Some bs -> expected e = DCall c k -> is_getter k = false ->
    lrun sem delay (mkL min drv finit) bs =
      (mkL min (map (fun u => fst (sem u c)) drv) finit, repeat OTrue (length bs)).
  Proof.
    intros Hc H He Hg. destruct (enc_through e None aor bs min drv Hc H) as (ps & Hr & Hd & Hk).
    cbn [target_req] in Hr. rewrite Hr. rewrite exec_broadcast. cbn [fst snd]. rewrite Hk.
    assert (Hl : (1 <= length bs)%nat).
    { destruct (enc_spec e None aor bs Hc H) as (ps' & -> & _). cbn [target_req frame_of].
      unfold close. rewrite app_length. cbn. lia. }
    replace (repeat OTrue (length bs)) with (repeat OTrue (length bs - 1) ++ [OTrue]).
    2:{ replace (length bs) with (length bs - 1 + 1)%nat at 2 by lia. rewrite repeat_app. reflexivity. }
    f_equal. f_equal. apply map_ext. intros u. unfold bcast_effect. rewrite Hk, Hd, He, Hg. reflexivity.
  Qed.
End Through.
