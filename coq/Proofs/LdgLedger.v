(* C07 — generic ledger theory: if the table passes [ledger_ok] then, after any history the table
   permits, every live activity that would block process exit is referenced by an attribute on which
   `system_stop` does the right thing; hence nothing blocking is alive after `system_stop`. *)
From Coq Require Import String.
From DS Require Import Base.Prelude Model.LdgLedger.

(* ---- decidable equalities are equalities ---- *)
Lemma kind_eqb_eq a b : kind_eqb a b = true -> a = b.
Proof. destruct a, b; cbn; congruence. Qed.
Lemma guard_eqb_eq a b : guard_eqb a b = true -> a = b.
Proof. destruct a, b; cbn; congruence. Qed.
Lemma ostr_eqb_eq a b : ostr_eqb a b = true -> a = b.
Proof.
  destruct a as [x|], b as [y|]; cbn; try congruence.
  intros H. apply String.eqb_eq in H. congruence.
Qed.
Lemma site_eqb_eq a b : site_eqb a b = true -> a = b.
Proof.
  unfold site_eqb. intros H.
  repeat (apply andb_true_iff in H as [H ?]).
  destruct a, b; cbn in *.
  apply String.eqb_eq in H. apply kind_eqb_eq in H5. apply ostr_eqb_eq in H4.
  apply Bool.eqb_prop in H3. apply Bool.eqb_prop in H2. apply Bool.eqb_prop in H1.
  apply guard_eqb_eq in H0. congruence.
Qed.
Lemma in_sites s l : existsb (site_eqb s) l = true -> In s l.
Proof.
  intros H. apply existsb_exists in H as (y & Hy & He). apply site_eqb_eq in He. congruence.
Qed.
Lemma zmem_In x l : zmem x l = true <-> In x l.
Proof.
  unfold zmem. rewrite existsb_exists. split.
  - intros (y & Hy & He). apply Z.eqb_eq in He. congruence.
  - intros H. exists x. split; [assumption | apply Z.eqb_refl].
Qed.
Lemma key_eqb_eq a b : key_eqb a b = true <-> a = b.
Proof.
  unfold key_eqb. destruct a as [o1 a1], b as [o2 a2]; cbn. rewrite andb_true_iff, Z.eqb_eq, String.eqb_eq.
  split; [intros [-> ->]; reflexivity | intros H; injection H; auto].
Qed.
Lemma key_eqb_refl k : key_eqb k k = true.
Proof. apply key_eqb_eq. reflexivity. Qed.

(* ---- occupants ---- *)
Lemma occupants_cons_same k id sl : occupants ((k, id) :: sl) k = id :: occupants sl k.
Proof. unfold occupants. cbn. rewrite key_eqb_refl. reflexivity. Qed.
Lemma occupants_cons_incl k k' id sl x : In x (occupants sl k') -> In x (occupants ((k, id) :: sl) k').
Proof. unfold occupants. cbn. destruct (key_eqb k k'); cbn; auto. Qed.
Lemma occupants_remove_other k k' sl : key_eqb k k' = false -> occupants (remove_key k sl) k' = occupants sl k'.
Proof.
  intros Hne. unfold occupants, remove_key. induction sl as [|e sl IH]; cbn; [reflexivity|].
  destruct (key_eqb (fst e) k) eqn:E1; cbn.
  - apply key_eqb_eq in E1. rewrite E1, Hne. exact IH.
  - destruct (key_eqb (fst e) k'); cbn; rewrite IH; reflexivity.
Qed.
Lemma in_kill_ids x ids live : In x (kill_ids ids live) <-> In x live /\ ~ In (a_id x) ids.
Proof.
  unfold kill_ids. rewrite filter_In. rewrite negb_true_iff.
  split; intros [H1 H2]; split; auto.
  - intros Hi. apply zmem_In in Hi. congruence.
  - destruct (zmem (a_id x) ids) eqn:E; [|reflexivity]. apply zmem_In in E. contradiction.
Qed.

(* ---- the invariant ---- *)
Definition tracked (T : table) (sl : list (key * Z)) (x : act) : Prop :=
  In (a_site x) (t_sites T) /\
  exists a, s_attr (a_site x) = Some a /\ In (a_id x) (occupants sl (a_owner x, a)).

Definition not_firing (firing : option act) (x : act) : Prop :=
  match firing with Some f => a_id x <> a_id f | None => True end.

Definition inv (T : table) (firing : option act) (l : ledger) : Prop :=
  forall x, In x (l_live l) -> blocks (a_site x) = true -> not_firing firing x -> tracked T (l_slots l) x.

Lemma inv_empty T firing : inv T firing empty_ledger.
Proof. intros x []. Qed.

Lemma ledger_ok_parts T : ledger_ok T = true ->
  (forall s, In s (t_sites T) -> site_ok T s = true) /\
  (forall s, In s (t_sites T) -> store_ok T s = true) /\
  (forall c, In c (t_clears T) -> clear_ok T c = true).
Proof.
  unfold ledger_ok. intros H.
  apply andb_true_iff in H as [H H3]. apply andb_true_iff in H as [H1 H2].
  rewrite forallb_forall in H1, H2, H3. auto.
Qed.

Lemma nd_attr_of T x a : In (a_site x) (t_sites T) -> blocks (a_site x) = true ->
  s_attr (a_site x) = Some a -> nd_attr T a = true.
Proof.
  intros Hin Hb Ha. unfold nd_attr. apply existsb_exists. exists (a_site x). split; [assumption|].
  rewrite Hb. unfold attr_is. rewrite Ha. cbn. apply String.eqb_refl.
Qed.

Lemma inv_kill T firing o a l : inv T firing l -> inv T firing (do_kill o a l).
Proof.
  intros Hinv x Hx Hb Hne. cbn in *. apply in_kill_ids in Hx as [Hx _]. exact (Hinv x Hx Hb Hne).
Qed.

Lemma do_create_slots s o c l :
  l_slots (do_create s o c l) =
  match s_attr s with
  | Some a => if s_multi s then ((o, a), l_next l) :: l_slots l
              else ((o, a), l_next l) :: remove_key (o, a) (l_slots l)
  | None => l_slots l
  end.
Proof. unfold do_create. cbn. destruct (s_attr s); [destruct c|]; reflexivity. Qed.

Lemma do_create_live s o c l x : In x (l_live (do_create s o c l)) ->
  (s_started s = true /\ x = mkAct (l_next l) s o) \/
  (In x (l_live l) /\
   (c = true -> forall a, s_attr s = Some a -> ~ In (a_id x) (occupants (l_slots l) (o, a)))).
Proof.
  unfold do_create. cbn [l_live]. intros H.
  assert (Hold : In x (l_live (match s_attr s with
                               | Some a => if c then do_kill o a l else l
                               | None => l end)) ->
                 In x (l_live l) /\
                 (c = true -> forall a, s_attr s = Some a -> ~ In (a_id x) (occupants (l_slots l) (o, a)))).
  { intros H1. destruct (s_attr s) as [a|].
    - destruct c.
      + cbn in H1. apply in_kill_ids in H1 as [H1 H2]. split; [exact H1|].
        intros _ a' Ha'. injection Ha' as <-. exact H2.
      + split; [exact H1 | discriminate].
    - split; [exact H1 | intros _ a' Ha'; discriminate]. }
  destruct (s_started s).
  - destruct H as [<- | H]; [left; split; reflexivity | right; apply Hold; exact H].
  - right. apply Hold. exact H.
Qed.

Lemma exec_sop_inv T bt firing l p l' :
  ledger_ok T = true -> inv T firing l -> exec_sop T bt firing l p = Some l' -> inv T firing l'.
Proof.
  intros Hok Hinv Hex. destruct (ledger_ok_parts T Hok) as (Hsite & Hstore & Hclear).
  destruct p as [s o c | o a | cl o c]; cbn in Hex.
  - (* SCreate *)
    destruct (existsb (site_eqb s) (t_sites T)) eqn:Hin; [|discriminate].
    destruct (guard_permits bt firing l s o c) eqn:Hperm; [|discriminate]. cbn in Hex.
    injection Hex as <-. apply in_sites in Hin.
    intros x Hx Hb Hne. rewrite do_create_slots.
    apply do_create_live in Hx as [[Hst ->] | [Hxl Hkilled]].
    + (* the new activity *)
      cbn in Hb. split; [exact Hin|]. cbn [a_site a_id a_owner].
      specialize (Hsite s Hin). unfold site_ok in Hsite. rewrite Hb in Hsite.
      destruct (s_attr s) as [a|] eqn:Ha; [|discriminate].
      exists a. split; [reflexivity|].
      destruct (s_multi s); rewrite occupants_cons_same; left; reflexivity.
    + (* an older activity *)
      destruct (Hinv x Hxl Hb Hne) as (Hsx & ax & Hax & Hocc).
      split; [exact Hsx|]. exists ax. split; [exact Hax|].
      destruct (s_attr s) as [a|] eqn:Ha.
      2:{ exact Hocc. }
      destruct (s_multi s) eqn:Hm.
      { apply occupants_cons_incl. exact Hocc. }
      destruct (key_eqb (o, a) (a_owner x, ax)) eqn:Hk.
      2:{ apply occupants_cons_incl. rewrite occupants_remove_other by exact Hk. exact Hocc. }
      exfalso. apply key_eqb_eq in Hk. injection Hk as Ho Haa. subst o ax.
      pose proof (nd_attr_of T x a Hsx Hb Hax) as Hnd.
      specialize (Hstore s Hin). unfold store_ok in Hstore. rewrite Ha, Hnd, Hm in Hstore. cbn in Hstore.
      unfold guard_permits in Hperm.
      destruct (s_guard s) eqn:Hg; try discriminate.
      * (* GCancel *) subst c. exact (Hkilled eq_refl a eq_refl Hocc).
      * (* GInit *)
        apply andb_true_iff in Hperm as [_ Hperm]. rewrite Ha, Hm in Hperm. cbn in Hperm.
        destruct (occupants (l_slots l) (a_owner x, a)); [contradiction | discriminate].
      * (* GChain *)
        apply andb_true_iff in Hperm as [Hc Hperm].
        destruct firing as [f|]; [|discriminate]. rewrite Ha in Hperm.
        apply andb_true_iff in Hperm as [_ Hall]. rewrite forallb_forall in Hall.
        specialize (Hall x Hxl). rewrite Hb in Hall. cbn in Hall.
        apply zmem_In in Hocc. rewrite Hocc in Hall. cbn in Hall. apply Z.eqb_eq in Hall.
        cbn in Hne. contradiction.
  - (* SKill *)
    injection Hex as <-. apply inv_kill. exact Hinv.
  - (* SClear *)
    destruct (existsb (clear_eqb cl) (t_clears T)) eqn:Hin; [|discriminate].
    destruct (clear_permits cl c) eqn:Hperm; [|discriminate]. cbn in Hex. injection Hex as <-.
    assert (Hcl : In cl (t_clears T)).
    { apply existsb_exists in Hin as (y & Hy & He). unfold clear_eqb in He.
      repeat (apply andb_true_iff in He as [He ?]).
      apply String.eqb_eq in He. apply String.eqb_eq in H0. apply guard_eqb_eq in H.
      destruct cl, y; cbn in *; congruence. }
    intros x Hx Hb Hne. unfold do_clear in Hx |- *. cbn [l_live l_slots] in *.
    assert (Hxl : In x (l_live l)).
    { destruct c; [|exact Hx]. cbn in Hx. apply in_kill_ids in Hx. tauto. }
    destruct (Hinv x Hxl Hb Hne) as (Hsx & ax & Hax & Hocc).
    split; [exact Hsx|]. exists ax. split; [exact Hax|].
    assert (Hsl : l_slots (if c then do_kill o (c_attr cl) l else l) = l_slots l) by (destruct c; reflexivity).
    rewrite Hsl.
    destruct (key_eqb (o, c_attr cl) (a_owner x, ax)) eqn:Hk.
    2:{ rewrite occupants_remove_other by exact Hk. exact Hocc. }
    exfalso. apply key_eqb_eq in Hk. injection Hk as Ho Haa. subst o ax.
    pose proof (nd_attr_of T x _ Hsx Hb Hax) as Hnd.
    specialize (Hclear cl Hcl). unfold clear_ok in Hclear. rewrite Hnd in Hclear.
    apply guard_eqb_eq in Hclear. unfold clear_permits in Hperm. rewrite Hclear in Hperm. subst c.
    cbn in Hx. apply in_kill_ids in Hx as [_ Hnot]. contradiction.
Qed.

Lemma exec_body_inv T bt firing body : forall l l',
  ledger_ok T = true -> inv T firing l -> exec_body T bt firing l body = Some l' -> inv T firing l'.
Proof.
  induction body as [|p ps IH]; intros l l' Hok Hinv Hex; cbn in Hex.
  - injection Hex as <-. exact Hinv.
  - destruct (exec_sop T bt firing l p) as [l1|] eqn:E; [|discriminate].
    eapply IH; [exact Hok | | exact Hex]. eapply exec_sop_inv; eassumption.
Qed.

Lemma inv_weaken T f l : inv T None l -> inv T (Some f) l.
Proof. intros H x Hx Hb _. apply H; cbn; auto. Qed.

Lemma inv_stop T l : inv T None l -> inv T None (stop T l).
Proof.
  intros Hinv x Hx Hb Hne. cbn in *. apply filter_In in Hx as [Hx _]. exact (Hinv x Hx Hb Hne).
Qed.

Lemma exec_op_inv T l o l' :
  ledger_ok T = true -> inv T None l -> exec_op T l o = Some l' -> inv T None l'.
Proof.
  intros Hok Hinv Hex. destruct o as [body | id body |]; cbn in Hex.
  - eapply exec_body_inv; eassumption.
  - destruct (find (fun a => a_id a =? id) (l_live l)) as [f|] eqn:Hf; [|discriminate].
    destruct (exec_body T false (Some f) l body) as [l1|] eqn:E; [|discriminate].
    injection Hex as <-.
    apply find_some in Hf as [_ Hid]. apply Z.eqb_eq in Hid.
    pose proof (exec_body_inv T false (Some f) body l l1 Hok (inv_weaken T f l Hinv) E) as H1.
    intros x Hx Hb _. cbn in Hx. apply filter_In in Hx as [Hx Hnid].
    apply negb_true_iff in Hnid. apply Z.eqb_neq in Hnid.
    cbn. apply (H1 x Hx Hb). cbn. congruence.
  - injection Hex as <-. apply inv_stop. exact Hinv.
Qed.

Lemma run_inv T ops : forall l l',
  ledger_ok T = true -> inv T None l -> run T l ops = Some l' -> inv T None l'.
Proof.
  induction ops as [|o os IH]; intros l l' Hok Hinv Hrun; cbn in Hrun.
  - injection Hrun as <-. exact Hinv.
  - destruct (exec_op T l o) as [l1|] eqn:E; [|discriminate].
    eapply IH; [exact Hok | | exact Hrun]. eapply exec_op_inv; eassumption.
Qed.

Definition reachable (T : table) (l : ledger) : Prop :=
  exists init ops l0, boot T init = Some l0 /\ run T l0 ops = Some l.

Lemma reachable_inv T l : ledger_ok T = true -> reachable T l -> inv T None l.
Proof.
  intros Hok (init & ops & l0 & Hb & Hr).
  eapply run_inv; [exact Hok | | exact Hr].
  eapply exec_body_inv; [exact Hok | apply inv_empty | exact Hb].
Qed.

(* Every live activity that would keep the process from exiting is killed by system_stop. *)
Theorem tracked_stopped T l x : ledger_ok T = true -> inv T None l ->
  In x (l_live l) -> blocks (a_site x) = true -> stopped_by T (l_slots l) x = true.
Proof.
  intros Hok Hinv Hx Hb. destruct (ledger_ok_parts T Hok) as (Hsite & _ & _).
  destruct (Hinv x Hx Hb I) as (Hsx & a & Ha & Hocc).
  unfold stopped_by. rewrite Ha. apply zmem_In in Hocc. rewrite Hocc. cbn.
  specialize (Hsite _ Hsx). unfold site_ok in Hsite. rewrite Hb, Ha in Hsite. exact Hsite.
Qed.

Theorem clean_after_stop T l : ledger_ok T = true -> reachable T l -> blocking_alive (stop T l) = [].
Proof.
  intros Hok Hr. pose proof (reachable_inv T l Hok Hr) as Hinv.
  unfold blocking_alive. cbn.
  destruct (filter (fun x => blocks (a_site x))
              (filter (fun x => negb (stopped_by T (l_slots l) x)) (l_live l))) as [|x rest] eqn:E; [reflexivity|].
  exfalso.
  assert (Hin : In x (x :: rest)) by (left; reflexivity). rewrite <- E in Hin.
  apply filter_In in Hin as [Hin Hb]. apply filter_In in Hin as [Hin Hns].
  rewrite (tracked_stopped T l x Hok Hinv Hin Hb) in Hns. discriminate.
Qed.

(* the state after system_stop is reachable again (a second system_stop, e.g. from __del__, or
   further commands): cleanliness holds at every later stop, too *)
Lemma reachable_step T l o l' : reachable T l -> exec_op T l o = Some l' -> reachable T l'.
Proof.
  intros (init & ops & l0 & Hb & Hr) He. exists init, (ops ++ [o]), l0. split; [exact Hb|].
  clear Hb. revert l0 Hr. induction ops as [|o1 os IH]; intros l0 Hr; cbn in *.
  - injection Hr as ->. rewrite He. reflexivity.
  - destruct (exec_op T l0 o1) as [l1|]; [|discriminate]. apply IH. exact Hr.
Qed.

(* whatever the table: nothing that system_stop handles adequately and that is still referenced
   by its attribute survives system_stop (daemon or not) *)
Theorem stop_kills_referenced T l x :
  In x (l_live (stop T l)) -> stopped_by T (l_slots l) x = false.
Proof.
  cbn. intros H. apply filter_In in H as [_ H]. apply negb_true_iff in H. exact H.
Qed.

(* system_stop never revives or creates anything *)
Theorem stop_subset T l x : In x (l_live (stop T l)) -> In x (l_live l).
Proof. cbn. intros H. apply filter_In in H. tauto. Qed.

(* a class that has no creation site never has a live activity *)
Lemma exec_body_nothing T bt firing body : forall l l',
  t_sites T = [] -> l_live l = [] -> exec_body T bt firing l body = Some l' -> l_live l' = [].
Proof.
  induction body as [|p ps IH]; intros l l' Hs Hl Hex; cbn in Hex.
  - injection Hex as <-. exact Hl.
  - destruct p as [s o c | o a | cl o c]; cbn in Hex.
    + rewrite Hs in Hex. cbn in Hex. discriminate.
    + eapply IH; [exact Hs | | exact Hex]. cbn. rewrite Hl. reflexivity.
    + destruct (existsb (clear_eqb cl) (t_clears T) && clear_permits cl c); [|discriminate].
      eapply IH; [exact Hs | | exact Hex]. unfold do_clear. cbn. destruct c; cbn; rewrite Hl; reflexivity.
Qed.

Theorem nothing_started T l : starts_nothing T = true -> reachable T l -> l_live l = [].
Proof.
  intros Hn (init & ops & l0 & Hb & Hr).
  assert (Hs : t_sites T = []) by (unfold starts_nothing in Hn; destruct (t_sites T); [reflexivity | discriminate]).
  assert (H0 : l_live l0 = []) by (apply (exec_body_nothing T true None init empty_ledger l0 Hs eq_refl Hb)).
  clear Hb. revert l0 H0 Hr. induction ops as [|o os IH]; intros l0 H0 Hr; cbn in Hr.
  - injection Hr as <-. exact H0.
  - destruct (exec_op T l0 o) as [l1|] eqn:E; [|discriminate].
    apply (IH l1); [|exact Hr].
    destruct o as [body | id body |]; cbn in E.
    + eapply exec_body_nothing; [exact Hs | exact H0 | exact E].
    + rewrite H0 in E. cbn in E. discriminate.
    + injection E as <-. cbn. rewrite H0. reflexivity.
Qed.
