(* MJD calendar part (C09): for every day from 1900-01-01 to 2199-12-31 the day number computed by
   mjd() is mapped back to the same civil date (at midnight) by mjd_to_date().  Finite domain
   (109 573 days) swept inside the kernel on primitive floats, then lifted to a quantified
   statement.  The fractional-day arithmetic is not covered by a theorem (see DESIGN C09). *)
From Coq Require Import ZArith List Lia Bool Uint63 PrimFloat.
From DS Require Import Model.UtilsMjd.
Import ListNotations.
Open Scope Z_scope.

Lemma zrange_in lo n z : Z.of_nat lo <= z < Z.of_nat lo + Z.of_nat n -> In z (zrange lo n).
Proof.
  intros H. unfold zrange. apply in_map_iff. exists (Z.to_nat z). split; [lia|].
  apply in_seq. lia.
Qed.

Lemma mdays_bound y m : 28 <= mdays y m <= 31.
Proof. unfold mdays. destruct (m =? 2); [destruct (leap y); lia|]. destruct (_ || _); lia. Qed.

Lemma days_complete y m d : 1900 <= y < 2200 -> valid_date (y, m, d) = true ->
  In (y, m, d) (days_of_years 1900 300).
Proof.
  intros Hy Hv. unfold valid_date in Hv.
  apply andb_true_iff in Hv as [Hv Hd2]. apply andb_true_iff in Hv as [Hv Hd1].
  apply andb_true_iff in Hv as [Hm1 Hm2].
  unfold days_of_years. apply in_flat_map. exists y. split; [apply zrange_in; lia|].
  unfold days_of_year. apply in_flat_map. exists m. split; [apply zrange_in; lia|].
  apply in_map_iff. exists d. split; [reflexivity|].
  apply zrange_in. pose proof (mdays_bound y m). lia.
Qed.

Lemma sweep_1900_2200 : forallb day_roundtrips (days_of_years 1900 300) = true.
Proof. vm_compute. reflexivity. Qed.

Theorem mjd_day_roundtrip y m d : 1900 <= y < 2200 -> valid_date (y, m, d) = true ->
  civil_of (mjd_day y m d) 0%float = (y, m, d, 0, 0, 0, 0).
Proof.
  intros Hy Hv. pose proof sweep_1900_2200 as S. rewrite forallb_forall in S.
  specialize (S _ (days_complete y m d Hy Hv)). unfold day_roundtrips in S.
  destruct (civil_of (mjd_day y m d) 0%float) as [[[[[[y' m'] d'] h] mi] s] us].
  repeat (apply andb_true_iff in S as [S ?]).
  repeat match goal with H : (_ =? _) = true |- _ => apply Z.eqb_eq in H end.
  subst. reflexivity.
Qed.

Example mjd_example : mjd_day 2018 1 20 = 58138 /\ valid_date (2018, 1, 20) = true.
Proof. split; vm_compute; reflexivity. Qed.
