(* C16 (tag Alay) — the representable-single round trip of the real32 fields.
   The accessors convert with the integer model of the C casts of Model/UtilsF32.v (C09);
   Proofs/UtilsF32Proofs.v proves narrow64 (widen32 p) = Some p for every 32-bit pattern that is not
   a signalling NaN.  Here: the same statement through [set] / [get] of any well-formed real32
   field of any table, for every block. *)
From Coq Require Import String.
From DS Require Import Base.Prelude Base.Bits Model.Utils Proofs.UtilsProofs.
From DS Require Import Model.UtilsF32 Proofs.UtilsF32Proofs.
From DS Require Import Model.AlayModel Model.AlayWf Proofs.AlayLists Proofs.AlayProofs Proofs.AlayFrame.

(* the widened single is a 64-bit pattern *)
Lemma widen32_range p : 0 <= p < 2 ^ 32 -> 0 <= widen32 p < 2 ^ 64.
Proof.
  intros Hp. destruct (fields32 p Hp) as [Ep [Hs [He Hm]]]. unfold widen32.
  set (s := p / 2 ^ 31) in *. set (e := (p / 2 ^ 23) mod 256) in *. set (m := p mod 2 ^ 23) in *.
  destruct (Z.eqb_spec e 255) as [E255|N255].
  - destruct (Z.eqb_spec m 0) as [M0|MN0]; [norm_pows; lia|].
    destruct (Z.ltb_spec m (2 ^ 22)); norm_pows; lia.
  - destruct (Z.eqb_spec e 0) as [E0|EN0]; [|norm_pows; lia].
    destruct (Z.eqb_spec m 0) as [M0|MN0]; [norm_pows; lia|].
    assert (Hm0 : 0 < m) by lia.
    destruct (Z.log2_spec m Hm0) as [Hk1 Hk2]. set (k := Z.log2 m) in *.
    assert (Hk : 0 <= k <= 22).
    { split; [apply Z.log2_nonneg|].
      destruct (Z.le_gt_cases k 22) as [|Hgt]; [assumption|exfalso].
      assert (2 ^ 23 <= 2 ^ k) by (apply Z.pow_le_mono_r; lia). lia. }
    assert (Hsplit : 2 ^ k * 2 ^ (52 - k) = 2 ^ 52) by (rewrite <- Z.pow_add_r by lia; f_equal; lia).
    assert (Hpk : 0 < 2 ^ (52 - k)) by (apply Z.pow_pos_nonneg; lia).
    assert (Hpk' : 0 < 2 ^ k) by (apply Z.pow_pos_nonneg; lia).
    rewrite Z.pow_succ_r in Hk2 by lia.
    set (m' := (m - 2 ^ k) * 2 ^ (52 - k)).
    assert (Hm' : 0 <= m' < 2 ^ 52) by (unfold m'; nia).
    revert Hm'. norm_pows. lia.
Qed.

(* the model's two conversions compose to the identity off the signalling NaNs *)
Lemma f32_f64_roundtrip p : 0 <= p < 2 ^ 32 -> is_snan32 p = false ->
  f32_of_f64 (f64_of_f32 p) = Some p.
Proof.
  intros Hp Hq. unfold f32_of_f64, f64_of_f32. rewrite (real32_roundtrip p Hp Hq).
  unfold fits. destruct (Z.leb_spec 0 p); [|lia]. destruct (Z.ltb_spec p (2 ^ 32)); [|lia]. reflexivity.
Qed.

Lemma as_f64_widen p : 0 <= p < 2 ^ 32 -> as_f64 (VReal (f64_of_f32 p)) = Some (f64_of_f32 p).
Proof.
  intros Hp. cbn [as_f64]. unfold f64_of_f32, fits. pose proof (widen32_range p Hp) as [A B].
  destruct (Z.leb_spec 0 (widen32 p)); [|lia]. destruct (Z.ltb_spec (widen32 p) (2 ^ 64)); [|lia]. reflexivity.
Qed.

(* for every well-formed real32 field, block of the right size and 32-bit pattern p that is not a
   signalling NaN: assigning the double widen32 p is accepted and the getter then returns exactly
   that double *)
Theorem real32_field_roundtrip : forall size f, field_ok size f = true -> fkind f = KReal32 ->
  forall e b p, length b = size -> bytes b -> 0 <= p < 2 ^ 32 -> is_snan32 p = false ->
  exists b', set e f (VReal (widen32 p)) b = Some b' /\ get f b' = Some (VReal (widen32 p)).
Proof.
  intros size f Hok Hkind e b p Hlen Hb Hp Hq.
  assert (Hex : exists b', set e f (VReal (widen32 p)) b = Some b').
  { unfold field_ok in Hok. rewrite Hkind in Hok. apply andb_true_iff in Hok as [Hin H4].
    apply Nat.leb_le in Hin. apply Nat.eqb_eq in H4.
    unfold set. rewrite Hkind. change (widen32 p) with (f64_of_f32 p).
    rewrite (as_f64_widen p Hp), (f32_f64_roundtrip p Hp Hq), H4. cbn [Nat.eqb].
    apply splice_defined. rewrite le_enc_length. lia. }
  destruct Hex as [b' Hset]. exists b'. split; [exact Hset|].
  destruct (get_set_same size f Hok e b Hlen Hb _ b' Hset) as (w & Hst & Hget).
  rewrite Hget. f_equal. unfold stored in Hst. rewrite Hkind in Hst.
  change (widen32 p) with (f64_of_f32 p) in Hst.
  rewrite (as_f64_widen p Hp), (f32_f64_roundtrip p Hp Hq) in Hst. cbn [option_map] in Hst.
  injection Hst as <-. reflexivity.
Qed.

(* the statement is about real fields: the generated motor table has them *)
