(* C06 — the side condition on the table generated from the current source tree.
   [known_exceptions]: classes of the known findings (known/C06.txt); the theorems of
   Properties/C06.v are stated for populations without instances of these classes.  A class that
   is repaired simply stops mattering here (its entry passes the check anyway). *)
From DS Require Import Base.Prelude Model.ShrHeap Proofs.ShrHeapProofs Gen.ShrSharing.
From Coq Require Import String.
Open Scope string_scope.
Open Scope list_scope.

(* F20: minor_servos.System.configurations is refilled in place by every construction
   (setup_import) and overwritten through the alias SETUP hands to set_coords *)
Definition known_exceptions : list cid := ["simulators.minor_servos.System"].

(* the whole generated table when it passes (the exceptions are then vacuous: this is the case
   once fix 20 is in the tree), else the table without the classes of the known findings *)
Definition checked_table : table :=
  if sharing_ok ShrSharing.gen_table then ShrSharing.gen_table
  else restrict known_exceptions ShrSharing.gen_table.

(* which of the two it is on this run (printed into the build log / evidence) *)
Definition exceptions_in_force : list cid :=
  if sharing_ok ShrSharing.gen_table then [] else known_exceptions.
Eval vm_compute in exceptions_in_force.

(* re-checked on every run against the regenerated table: a new class-level mutable that is
   mutated through an instance, an __init__ that stops rebinding one, a module-level object that
   gets mutated, an alias of a shared object stored in a mutated attribute ... make this fail *)
Lemma table_ok : sharing_ok checked_table = true.
Proof. vm_compute. reflexivity. Qed.

(* every class the translator found is in the checked table or a listed exception *)
Lemma table_complete :
  forallb (fun ci => mem (c_name ci) known_exceptions || mem (c_name ci) (map c_name checked_table))
          ShrSharing.gen_table = true.
Proof. vm_compute. reflexivity. Qed.
