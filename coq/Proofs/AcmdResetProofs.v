(* Proofs about MasterAxisStatus._reset on the extended axis state (agent Acmd; C14). *)
From DS Require Import Base.Prelude Base.Bits Model.Utils Gen.AcmdTables.
From DS Require Import Model.AcmdFrame Model.AcmdAxis Model.AcmdReset.
From DS Require Import Proofs.AcmdAxisProofs.

(* ------------------------------------------------------------------ clearing bits *)

Lemma clear_bits_testbit ks : forall w k, 0 <= k ->
  Z.testbit (clear_bits w ks) k = Z.testbit w k && negb (zmem k ks).
Proof.
  unfold clear_bits. induction ks as [|a ks IH]; intros w k Hk.
  - cbn. rewrite andb_true_r. reflexivity.
  - cbn [fold_left zmem existsb]. rewrite IH by exact Hk. fold (zmem k ks).
    destruct (Z.eqb_spec k a) as [->|Hne].
    + rewrite Z.clearbit_eq by exact Hk. cbn [orb negb]. rewrite andb_false_r. reflexivity.
    + rewrite Z.clearbit_neq by congruence. cbn [orb]. reflexivity.
Qed.

Lemma zmem_In k l : zmem k l = true <-> In k l.
Proof.
  unfold zmem. rewrite existsb_exists. split.
  - intros [y [Hy He]]. apply Z.eqb_eq in He. subst y. exact Hy.
  - intros H. exists k. split; [exact H|apply Z.eqb_refl].
Qed.

(* every named flag of the error word is in the list `_reset` clears (generated tables) *)
Lemma reset_clears_all_named : forall k, zmem k error_flags = true -> zmem k reset_clears = true.
Proof.
  assert (H : forallb (fun k => zmem k reset_clears) error_flags = true) by (vm_compute; reflexivity).
  rewrite forallb_forall in H. intros k Hk. apply H. apply zmem_In. exact Hk.
Qed.

(* and `_reset` clears nothing but named flags *)
Lemma reset_clears_only_named : forall k, zmem k reset_clears = true -> zmem k error_flags = true.
Proof.
  assert (H : forallb (fun k => zmem k error_flags) reset_clears = true) by (vm_compute; reflexivity).
  rewrite forallb_forall in H. intros k Hk. apply H. apply zmem_In. exact Hk.
Qed.

(* ------------------------------------------------------------------ when does _reset run *)

Lemma reset_table : zlookup reset_mode mode_commands = Some H_reset.
Proof. vm_compute. reflexivity. Qed.

Lemma reset_runs_unfold cfg ax cmd : length cmd = 26%nat ->
  reset_runs cfg ax cmd =
  match zlookup (mc_mode cmd) mode_commands with
  | Some H_reset => validate cfg (mo ax) (mc_mode cmd) (mc_p1 cmd) (mc_p2 cmd) =? 9
  | _ => false
  end.
Proof.
  intros Hl. unfold reset_runs.
  rewrite (uint_le_slice 4 8) by lia.
  rewrite (real_le_slice 10), (real_le_slice 18) by lia.
  reflexivity.
Qed.

Lemma validate_reset cfg m p1 p2 :
  validate cfg m reset_mode p1 p2 = if zmem (axis_state m) [0; 1] then 9 else 4.
Proof. unfold validate, params_ok, state_permits. reflexivity. Qed.

(* the reset handler runs exactly for a mode-15 command on an axis that is inactive or
   deactivating *)
Theorem reset_runs_iff cfg ax cmd : length cmd = 26%nat ->
  (reset_runs cfg ax cmd = true <->
   mc_mode cmd = reset_mode /\ zmem (axis_state (mo ax)) [0; 1] = true).
Proof.
  intros Hl. rewrite reset_runs_unfold by exact Hl. split.
  - destruct (zlookup (mc_mode cmd) mode_commands) as [h|] eqn:Hh; [|discriminate].
    pose proof (mode_table_literals _ _ Hh) as Hm.
    destruct h; try discriminate. cbn [hmode] in Hm. intros Hv.
    assert (Em : mc_mode cmd = reset_mode) by (symmetry; exact Hm).
    split; [exact Em|]. rewrite Em, validate_reset in Hv.
    destruct (zmem (axis_state (mo ax)) [0; 1]); [reflexivity|discriminate Hv].
  - intros [Em Hs]. rewrite Em, reset_table, validate_reset, Hs. reflexivity.
Qed.

(* ------------------------------------------------------------------ the effect *)

Definition flags_kept (x x' : xaxis) : Prop :=
  xa_gen x' = xa_gen x /\ xa_warn x' = xa_warn x /\ xa_err x' = xa_err x /\ xa_aux x' = xa_aux x.

(* an accepted reset, as an equation *)
Lemma xmode_command_reset cfg x cmd : length cmd = 26%nat -> mc_mode cmd = reset_mode ->
  zmem (axis_state (mo (xa_ax x))) [0; 1] = true ->
  xmode_command cfg x cmd =
  (mkXa (set_ex (set_rx (xa_ax x) (mc_counter cmd) reset_mode 9) (mc_counter cmd) reset_mode reset_answer)
        (xa_gen x) (xa_warn x) (clear_bits (xa_err x) reset_clears) (xa_aux x), TDone).
Proof.
  intros Hl Em Hs. unfold xmode_command.
  assert (Hr : reset_runs cfg (xa_ax x) cmd = true) by (apply reset_runs_iff; auto).
  rewrite Hr. rewrite mode_command_unfold by exact Hl.
  rewrite Em, reset_table. cbv zeta. rewrite validate_reset, Hs.
  destruct (xa_ax x) as [m a b c d e f g h i]. reflexivity.
Qed.

(* a reset on an axis that is neither inactive nor deactivating, as an equation *)
Lemma xmode_command_reset_refused cfg x cmd : length cmd = 26%nat -> mc_mode cmd = reset_mode ->
  zmem (axis_state (mo (xa_ax x))) [0; 1] = false ->
  xmode_command cfg x cmd = (with_ax x (set_rx (xa_ax x) (mc_counter cmd) reset_mode 4), TDone).
Proof.
  intros Hl Em Hs. unfold xmode_command.
  assert (Hr : reset_runs cfg (xa_ax x) cmd = false).
  { destruct (reset_runs cfg (xa_ax x) cmd) eqn:E; [|reflexivity].
    apply reset_runs_iff in E; [|exact Hl]. destruct E as [_ E]. congruence. }
  rewrite Hr. rewrite mode_command_unfold by exact Hl.
  rewrite Em, reset_table. cbv zeta. rewrite validate_reset, Hs. reflexivity.
Qed.

Theorem reset_effect cfg x cmd : length cmd = 26%nat -> mc_mode cmd = reset_mode ->
  zmem (axis_state (mo (xa_ax x))) [0; 1] = true ->
  let r := xmode_command cfg x cmd in
  let x' := fst r in
  (forall k, 0 <= k ->
     Z.testbit (xa_err x') k = Z.testbit (xa_err x) k && negb (zmem k reset_clears)) /\
  (forall k, zmem k error_flags = true -> 0 <= k -> Z.testbit (xa_err x') k = false) /\
  xa_gen x' = xa_gen x /\ xa_warn x' = xa_warn x /\ xa_aux x' = xa_aux x /\
  mo (xa_ax x') = mo (xa_ax x) /\ par_kept (xa_ax x) (xa_ax x') /\
  rx_counter (xa_ax x') = mc_counter cmd /\ rx_mode (xa_ax x') = reset_mode /\
  rx_answer (xa_ax x') = 9 /\
  ex_counter (xa_ax x') = mc_counter cmd /\ ex_mode (xa_ax x') = reset_mode /\
  ex_answer (xa_ax x') = reset_answer /\ snd r = TDone.
Proof.
  intros Hl Em Hs. cbv zeta. rewrite xmode_command_reset by assumption.
  cbn [fst snd xa_ax xa_gen xa_warn xa_err xa_aux].
  split; [intros k Hk; apply clear_bits_testbit; exact Hk|].
  split.
  { intros k Hn Hk. rewrite clear_bits_testbit by exact Hk.
    rewrite (reset_clears_all_named k Hn). apply andb_false_r. }
  unfold par_kept. destruct (xa_ax x). cbn. repeat split; reflexivity.
Qed.

Theorem reset_refused_unchanged cfg x cmd : length cmd = 26%nat -> mc_mode cmd = reset_mode ->
  zmem (axis_state (mo (xa_ax x))) [0; 1] = false ->
  let r := xmode_command cfg x cmd in
  let x' := fst r in
  flags_kept x x' /\ mo (xa_ax x') = mo (xa_ax x) /\
  ex_kept (xa_ax x) (xa_ax x') /\ par_kept (xa_ax x) (xa_ax x') /\
  rx_counter (xa_ax x') = mc_counter cmd /\ rx_mode (xa_ax x') = reset_mode /\
  rx_answer (xa_ax x') = 4 /\ snd r = TDone.
Proof.
  intros Hl Em Hs. cbv zeta. rewrite xmode_command_reset_refused by assumption.
  unfold flags_kept, ex_kept, par_kept, with_ax. destruct x as [ax g w e a]. destruct ax.
  cbn. repeat split; reflexivity.
Qed.

(* no other command touches the flags: whenever `_reset` does not run (any command bytes, any
   length, any mode, any state), a mode command leaves the status flags alone; a parameter
   command always does *)
Theorem flags_only_by_reset cfg x cmd :
  reset_runs cfg (xa_ax x) cmd = false -> flags_kept x (fst (xmode_command cfg x cmd)).
Proof.
  intros Hr. unfold xmode_command. rewrite Hr. unfold flags_kept, with_ax. cbn.
  repeat split; reflexivity.
Qed.

Theorem parameter_command_keeps_flags x cmd : flags_kept x (fst (xparameter_command x cmd)).
Proof. unfold xparameter_command, flags_kept, with_ax. cbn. repeat split; reflexivity. Qed.

(* the extension is conservative: the [axis] part of the extended step is the step of
   Model/AcmdAxis.v, for every command *)
Theorem xmode_command_axis cfg x cmd :
  xa_ax (fst (xmode_command cfg x cmd)) = fst (mode_command cfg (xa_ax x) cmd) /\
  snd (xmode_command cfg x cmd) = snd (mode_command cfg (xa_ax x) cmd).
Proof.
  unfold xmode_command. destruct (reset_runs cfg (xa_ax x) cmd); cbn; split; reflexivity.
Qed.
