(* Proofs about Model/SmcMscu.v: framing (C03), queries (C02), reply shape (C04), positions written
   by setpos and read back by getpos (C05).  [fx] is the fix22 switch of the model. *)
From DS Require Import Base.Prelude Model.SmcBase Model.SmcFloat Model.SmcMscu Proofs.SmcBaseProofs.

(* ---------------- framing ---------------- *)
Lemma ms_fresh s : idle s = true -> s = {| msg := []; dv := dv s |}.
Proof. destruct s as [m d]; cbn. destruct m; [reflexivity|discriminate]. Qed.

(* idle: a byte that is not one of the four headers is discarded, parse returns False *)
Lemma ms_idle_discards fx e s b :
  idle s = true -> is_header b = false -> step_byte fx e s b = (s, OFalse).
Proof.
  intros Hi Hb. rewrite (ms_fresh s Hi). unfold step_byte. cbn [msg dv]. rewrite Hb. cbn. rewrite Hb. reflexivity.
Qed.

(* a header byte always starts a new frame: whatever was buffered is forgotten *)
Lemma ms_header_restarts fx e s b :
  is_header b = true -> step_byte fx e s b = ({| msg := [b]; dv := dv s |}, OTrue).
Proof.
  intros Hb. unfold step_byte. rewrite Hb. rewrite Hb.
  assert (closed [b] = false) as ->; [|reflexivity].
  unfold closed, ends_with. cbn.
  unfold is_header in Hb. destruct (b =? LF) eqn:E1; destruct (b =? CR) eqn:E2; cbn; try reflexivity;
    unfold LF, CR in *; lia.
Qed.

Lemma closed_snoc2 m a b : (a = CR /\ b = LF) \/ (a = LF /\ b = CR) -> closed ((m ++ [a]) ++ [b]) = true.
Proof.
  intros H. unfold closed. rewrite <- app_assoc. cbn [app].
  destruct H as [[-> ->]|[-> ->]].
  - rewrite (ends_with_app [CR; LF] m). reflexivity.
  - rewrite (ends_with_app [LF; CR] m). apply orb_true_r.
Qed.

(* after any history, from any state: the closer pair leaves the framer idle *)
Lemma ms_two_bytes_idle fx e s a b :
  is_header a = false -> is_header b = false ->
  (a = CR /\ b = LF) \/ (a = LF /\ b = CR) ->
  idle (fst (step_byte fx e (fst (step_byte fx e s a)) b)) = true.
Proof.
  intros Ha Hb Hab. unfold step_byte at 2. rewrite Ha.
  destruct (msg s ++ [a]) as [|h r] eqn:Em.
  - destruct (msg s); discriminate Em.
  - destruct (is_header h) eqn:Eh.
    + destruct (closed (h :: r)) eqn:Ec.
      * destruct (exec fx e (dv s) (decode e (h :: r))) as [d' o]. cbn [fst].
        unfold step_byte. cbn [msg]. rewrite Hb. cbn [app]. rewrite Hb. reflexivity.
      * cbn [fst]. unfold step_byte. cbn [msg dv]. rewrite Hb.
        assert (closed ((h :: r) ++ [b]) = true) as Hc.
        { rewrite <- Em. apply closed_snoc2. exact Hab. }
        cbn [app] in *. rewrite Eh. rewrite Hc.
        destruct (exec fx e (dv s) (decode e (h :: r ++ [b]))). reflexivity.
    + cbn [fst]. unfold step_byte. cbn [msg]. rewrite Hb. cbn [app]. rewrite Hb. reflexivity.
Qed.

Lemma not_header_CR : is_header CR = false. Proof. reflexivity. Qed.
Lemma not_header_LF : is_header LF = false. Proof. reflexivity. Qed.

Lemma ms_resync fx e s evs a b :
  (a = CR /\ b = LF) \/ (a = LF /\ b = CR) ->
  idle (fst (run (step fx e) s (evs ++ [EByte a; EByte b]))) = true.
Proof.
  intros Hab. replace (evs ++ [EByte a; EByte b]) with ((evs ++ [EByte a]) ++ [EByte b])
    by (rewrite <- app_assoc; reflexivity).
  rewrite run_snoc. rewrite run_snoc. cbn [step].
  apply ms_two_bytes_idle; try exact Hab; destruct Hab as [[-> ->]|[-> ->]]; reflexivity.
Qed.

(* clock changes and the setpos_NAK switch never touch the framer *)
Lemma ms_tick_msg fx e s t : msg (fst (step fx e s (ETick t))) = msg s.
Proof. reflexivity. Qed.
Lemma ms_nak_msg fx e s v : msg (fst (step fx e s (ENak v))) = msg s.
Proof. reflexivity. Qed.

(* ---------------- C04: every reply ends with \r\n and names its request ---------------- *)
Lemma ends_crlf_app a b : ends_with crlf b = true -> ends_with crlf (a ++ b) = true.
Proof.
  unfold ends_with. rewrite rev_app_distr. change (rev crlf) with [LF; CR].
  destruct (rev b) as [|x [|y r]]; intros H.
  - discriminate H.
  - cbn [starts_with] in H. rewrite andb_false_r in H. discriminate H.
  - exact H.
Qed.
Lemma ends_crlf_self : ends_with crlf crlf = true. Proof. reflexivity. Qed.
Lemma ends_crlf_cons x l : ends_with crlf l = true -> ends_with crlf (x :: l) = true.
Proof. exact (ends_crlf_app [x] l). Qed.
Ltac crlf_end := repeat first [ apply ends_crlf_self | apply ends_crlf_cons | apply ends_crlf_app ].

Lemma ms_servo_reply_crlf fx e d a s name num ps d' r :
  exec_servo fx e d a s name num ps = (d', OReply r) -> ends_with crlf r = true.
Proof.
  unfold exec_servo, echo2. intros H.
  repeat match type of H with
         | context [match ?x with _ => _ end] => destruct x eqn:?
         | context [if ?x then _ else _] => destruct x eqn:?
         end; try discriminate H; injection H as <- <-;
    repeat match goal with
           | Hq : match ?x with _ => _ end = Some _ |- _ =>
               destruct x eqn:?; try discriminate Hq; injection Hq as <-
           end;
    repeat rewrite <- app_assoc; crlf_end.
Qed.

Lemma ms_reply_crlf fx e d c d' r : exec fx e d c = (d', OReply r) -> ends_with crlf r = true.
Proof.
  unfold exec. intros H.
  repeat match type of H with
         | context [match ?x with _ => _ end] => destruct x eqn:?
         | context [if ?x then _ else _] => destruct x eqn:?
         end; try discriminate H.
  eapply ms_servo_reply_crlf; exact H.
Qed.

(* identity echo: a single-line answer is  ?name:num=address...  *)
Lemma ms_getappstatus_reply fx e d a s num :
  exec_servo fx e d a s $"getappstatus" num [] =
  (d, OReply (head_line 63 $"getappstatus" num a ++ $"> 0000030D" ++ crlf)).
Proof. reflexivity. Qed.

(* ---------------- C02 ---------------- *)
(* getappstatus and getspar are answered by every servo in every state *)
Lemma ms_getspar_answered fx e d a s num ps :
  exists r, exec_servo fx e d a s $"getspar" num ps = (d, OReply r).
Proof. unfold exec_servo. cbn. eexists. reflexivity. Qed.

(* getpos / getstatus are answered whenever History.get succeeds and the values render *)
Lemma ms_getpos_answered fx e d a s num vs t :
  positions (hist s) (now d) = Some vs -> render_list e vs = Some t ->
  exec_servo fx e d a s $"getpos" num [] =
  (d, OReply (head_line 63 $"getpos" num a ++ $"> " ++ zstr (now d) ++ t ++ crlf)).
Proof. intros Hp Hr. unfold exec_servo. cbn [zlist_eqb list_eqb]. cbn. rewrite Hp, Hr. reflexivity. Qed.

(* History.get returns the newest entry unchanged when nothing is dated later than now *)
Lemma get_back_head t x r nxt : fst x <= t ->
  get_back t (x :: r) nxt = Some (match nxt with None => GDirect x | Some n => GInterp x n end).
Proof. intros H. cbn. destruct (fst x <=? t) eqn:E; [reflexivity|lia]. Qed.

Lemma ms_positions_newest h x t : fst x <= t -> positions (h ++ [x]) t = Some (snd x).
Proof.
  intros H. unfold positions, positions_r, h_get. rewrite rev_app_distr. cbn [rev app].
  rewrite get_back_head by exact H. reflexivity.
Qed.

(* F22: on the original code two 'clean' empty a fresh history and getpos dies with IndexError;
   with fixes/22 the same history is answered *)
Definition e_std : env :=
  {| py_int := fun t => if zlist_eqb t $"0" then CvOk 0 else if zlist_eqb t $"1" then CvOk 1 else CvErr;
     py_int16 := fun _ => CvErr; py_float := fun _ => CvErr;
     py_repr := fun _ => None |}.
Definition f22_events : list ev :=
  map EByte ($"#clean:0=1" ++ [CR; LF] ++ $"#clean:0=1" ++ [CR; LF] ++ $"#getpos:0=1" ++ [CR; LF]).

Lemma ms_f22_refuted : last (snd (run (step false e_std) (init 1000) f22_events)) OFalse = OException.
Proof. vm_compute. reflexivity. Qed.
Lemma ms_f22_fixed :
  last (snd (run (step true e_std) (init 1000) f22_events)) OFalse
  = OReply ($"?getpos:0=1> 1000,-125,-125,-125,0,0,0" ++ crlf).
Proof. vm_compute. reflexivity. Qed.

(* ---------------- C05 ---------------- *)
(* a refused setpos (NAK switch on, or a wrong number of parameters) stores nothing *)
Lemma ms_setpos_refused fx e d a s num ps :
  nak d = true \/ length ps <> (axes_of a + 3)%nat ->
  fst (exec_servo fx e d a s $"setpos" num ps) = d /\
  exists r, snd (exec_servo fx e d a s $"setpos" num ps) = OReply r /\ starts_with ([33] ++ $"NAK_setpos:") r = true.
Proof.
  intros H. unfold exec_servo. cbn [zlist_eqb list_eqb]. cbn -[axes_of Nat.eqb].
  assert ((nak d || negb (length ps =? axes_of a + 3)%nat) = true) as ->.
  { destruct H as [->|H]; [reflexivity|]. apply Nat.eqb_neq in H. rewrite H. apply orb_true_r. }
  split; [reflexivity|]. eexists. split; reflexivity.
Qed.

(* requests that are not understood or are refused with an exception never touch the device *)
Lemma ms_bad_unchanged fx e d : exec fx e d KBad = (d, OValueError).
Proof. reflexivity. Qed.

(* written now, read back now: the newest entry is returned as written (concrete history) *)
Definition e_rb : env :=
  {| py_int := fun t => if zlist_eqb t $"0" then CvOk 0 else if zlist_eqb t $"2" then CvOk 2
                        else if zlist_eqb t $"17" then CvOk 17 else CvErr;
     py_int16 := fun _ => CvErr;
     py_float := fun t => if zlist_eqb t $"1.5" then CvOk 4609434218613702656 else CvErr;
     py_repr := fun b => if b =? 4609434218613702656 then Some $"1.5" else None |}.
Lemma ms_setpos_readback_example :
  last (snd (run (step true e_rb) (init 1000)
        (map EByte ($"#setpos:0=2,0,0,0,1.5" ++ [CR; LF]) ++ [ETick 2000] ++
         map EByte ($"#getstatus:17=2" ++ [CR; LF] ++ $"#getpos:0=2" ++ [CR; LF])))) OFalse
  = OReply ($"?getpos:0=2> 2000,1.5" ++ crlf).
Proof. vm_compute. reflexivity. Qed.
