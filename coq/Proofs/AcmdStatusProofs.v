(* Proofs about update_status (limit / rate warning bits) and the slave axis (agent Acmd; C14). *)
From DS Require Import Base.Prelude Base.Bits Model.Utils Gen.AcmdTables.
From DS Require Import Model.AcmdFrame Model.AcmdAxis Model.AcmdReset Model.AcmdStatus.

Lemma set_bit_testbit w k b j : 0 <= k -> 0 <= j ->
  Z.testbit (set_bit w k b) j = if j =? k then b else Z.testbit w j.
Proof.
  intros Hk Hj. unfold set_bit. destruct b.
  - rewrite Z.setbit_eqb by exact Hk. rewrite (Z.eqb_sym k j).
    destruct (j =? k); reflexivity.
  - destruct (Z.eqb_spec j k) as [->|Hne].
    + rewrite Z.clearbit_eq by exact Hk. reflexivity.
    + apply Z.clearbit_neq. congruence.
Qed.

Definition update_bits : list Z :=
  [bit_Pre_Limit_Dn; bit_Fin_Limit_Dn; bit_Pre_Limit_Up; bit_Fin_Limit_Up; bit_Rate_Limit].

Lemma five_bits w b1 b2 b3 b4 b5 :
  let w' := set_bit (set_bit (set_bit (set_bit (set_bit w bit_Pre_Limit_Dn b1) bit_Fin_Limit_Dn b2)
                                      bit_Pre_Limit_Up b3) bit_Fin_Limit_Up b4) bit_Rate_Limit b5 in
  Z.testbit w' bit_Pre_Limit_Dn = b1 /\ Z.testbit w' bit_Fin_Limit_Dn = b2 /\
  Z.testbit w' bit_Pre_Limit_Up = b3 /\ Z.testbit w' bit_Fin_Limit_Up = b4 /\
  Z.testbit w' bit_Rate_Limit = b5 /\
  (forall k, 0 <= k -> ~ In k update_bits -> Z.testbit w' k = Z.testbit w k).
Proof.
  cbv zeta. unfold update_bits, bit_Pre_Limit_Dn, bit_Fin_Limit_Dn, bit_Pre_Limit_Up, bit_Fin_Limit_Up,
    bit_Rate_Limit.
  repeat split; try (rewrite !set_bit_testbit by lia; reflexivity).
  intros k Hk Hn. rewrite !set_bit_testbit by lia.
  repeat match goal with
         | |- context [k =? ?c] => destruct (Z.eqb_spec k c) as [->|?]; [exfalso; apply Hn; cbn; tauto|]
         end.
  reflexivity.
Qed.

Lemma tick_motion cfg ax :
  p_Ist (mo (tick cfg ax)) = p_Ist (mo ax) /\ v_Ist (mo (tick cfg ax)) = v_Ist (mo ax) /\
  set_stowPosOk (mo (tick cfg ax)) false = set_stowPosOk (mo ax) false /\
  rx_counter (tick cfg ax) = rx_counter ax /\ rx_mode (tick cfg ax) = rx_mode ax /\
  rx_answer (tick cfg ax) = rx_answer ax /\
  ex_counter (tick cfg ax) = ex_counter ax /\ ex_mode (tick cfg ax) = ex_mode ax /\
  ex_answer (tick cfg ax) = ex_answer ax /\
  par_counter (tick cfg ax) = par_counter ax /\ par_id (tick cfg ax) = par_id ax /\
  par_answer (tick cfg ax) = par_answer ax.
Proof.
  unfold tick. destruct (has_stow cfg); destruct ax as [m a b c d e f g h i]; destruct m; cbn;
    repeat split; reflexivity.
Qed.

(* update_status: the five warning bits say where the position is w.r.t. the operating range and
   whether the rate exceeds the maximum; every other warning bit, the error word, the general
   flags, the auxiliary fields, the command fields and all of motion except stowPosOk are kept *)
Theorem update_status_spec cfg x x' : xtick cfg x = Some x' ->
  exists vmax, rate_limit_udeg cfg = Some vmax /\
  let p := p_Ist (mo (xa_ax x)) in
  let v := v_Ist (mo (xa_ax x)) in
  Z.testbit (xa_warn x') bit_Pre_Limit_Dn = (p <=? lo_udeg cfg) /\
  Z.testbit (xa_warn x') bit_Fin_Limit_Dn = (p <? lo_udeg cfg) /\
  Z.testbit (xa_warn x') bit_Pre_Limit_Up = (hi_udeg cfg <=? p) /\
  Z.testbit (xa_warn x') bit_Fin_Limit_Up = (hi_udeg cfg <? p) /\
  Z.testbit (xa_warn x') bit_Rate_Limit = (vmax <? Z.abs v) /\
  (forall k, 0 <= k -> ~ In k update_bits -> Z.testbit (xa_warn x') k = Z.testbit (xa_warn x) k) /\
  xa_err x' = xa_err x /\ xa_gen x' = xa_gen x /\ xa_aux x' = xa_aux x /\
  xa_ax x' = tick cfg (xa_ax x).
Proof.
  unfold xtick. destruct (rate_limit_udeg cfg) as [vmax|]; [|discriminate].
  intros [= <-]. exists vmax. split; [reflexivity|]. cbv zeta.
  cbn [xa_ax xa_gen xa_warn xa_err xa_aux].
  destruct (tick_motion cfg (xa_ax x)) as (Hp & Hv & _). rewrite Hp, Hv.
  unfold limit_bits.
  pose proof (five_bits (xa_warn x) (p_Ist (mo (xa_ax x)) <=? lo_udeg cfg)
                (p_Ist (mo (xa_ax x)) <? lo_udeg cfg) (hi_udeg cfg <=? p_Ist (mo (xa_ax x)))
                (hi_udeg cfg <? p_Ist (mo (xa_ax x))) (vmax <? Z.abs (v_Ist (mo (xa_ax x))))) as H.
  cbv zeta in H. destruct H as (H1 & H2 & H3 & H4 & H5 & H6).
  repeat split; assumption || reflexivity.
Qed.

Lemma shipped_rate_limits : rate_limit_udeg cfg_AZ <> None /\ rate_limit_udeg cfg_EL <> None.
Proof. vm_compute. split; discriminate. Qed.

(* the cable wrap's brakes are open exactly when its master is active *)
Theorem cw_brakes_spec st :
  (st = CW_master_active -> cw_brakes st = mask CW_n_motors) /\
  (st <> CW_master_active -> cw_brakes st = 0) /\ mask CW_n_motors <> 0.
Proof.
  unfold cw_brakes. repeat split.
  - intros ->. rewrite Z.eqb_refl. reflexivity.
  - intros H. destruct (Z.eqb_spec st CW_master_active); [contradiction|reflexivity].
  - vm_compute. discriminate.
Qed.

(* no subsystem id addresses anything but AZ, EL, PS: the slave axis receives no command *)
Theorem slave_not_addressable sub k : zlookup sub subsystems = Some k -> k = 0 \/ k = 1 \/ k = 2.
Proof.
  unfold subsystems. cbn [zlookup].
  repeat (match goal with |- context [sub =? ?c] => destruct (Z.eqb_spec sub c) as [->|?] end;
          [intros [= <-]; lia|]).
  intros H; discriminate H.
Qed.
