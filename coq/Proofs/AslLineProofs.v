(* Lemmas about _parse / the handlers of the active-surface line (Model/AslLine.v): addressing
   (C11), lifted from the message level to the byte level through the framing lemmas. *)
From DS Require Import Base.Prelude Base.Bits Model.Utils Model.AslLine Proofs.UtilsProofs.
From DS Require Import Proofs.AslFrameProofs.

(* ---------- list helpers ---------- *)

Lemma upd_length {A} (l : list A) k x : length (upd l k x) = length l.
Proof. revert k; induction l as [|h t IH]; intros [|k]; cbn; auto. Qed.

Lemma upd_same {A} (l : list A) k x : nth_error l k = Some x -> upd l k x = l.
Proof.
  revert k; induction l as [|h t IH]; intros [|k] H; cbn in *; try discriminate.
  - congruence.
  - f_equal. apply IH, H.
Qed.

Lemma upd_other {A} (l : list A) k x j : j <> k -> nth_error (upd l k x) j = nth_error l j.
Proof.
  revert k j; induction l as [|h t IH]; intros [|k] [|j] H; cbn; try reflexivity; try congruence.
  apply IH. congruence.
Qed.

Lemma upd_this {A} (l : list A) k x : (k < length l)%nat -> nth_error (upd l k x) k = Some x.
Proof.
  revert k; induction l as [|h t IH]; intros [|k] H; cbn in *; try lia; [reflexivity|].
  apply IH. lia.
Qed.

Lemma py_pos_in_range {A} (l : list A) d : 0 <= d < Z.of_nat (length l) ->
  py_pos l d = Some (Z.to_nat d).
Proof.
  intros H. unfold py_pos. replace (0 <=? d) with true by lia.
  replace (d <? Z.of_nat (length l)) with true by lia. reflexivity.
Qed.

(* ---------- _parse on a well-formed frame ---------- *)

Definition bytes_req (q : request) : Prop :=
  match q with
  | QBcast start code ps => byte start /\ byte code /\ bytes ps
  | QUni start idx code ps => byte start /\ byte code /\ bytes ps
  end.

Lemma bytes_nonneg l : bytes l -> Forall (fun b => 0 <= b) l.
Proof. unfold bytes, byte. apply Forall_impl. intros a H. lia. Qed.

Lemma is_header_byte b : is_header b = true -> byte b.
Proof. unfold is_header, byte. lia. Qed.

Lemma py_slice_mid {A} (pre l post : list A) lo hi :
  lo = Z.of_nat (length pre) -> hi = lo + Z.of_nat (length l) ->
  py_slice lo hi (pre ++ l ++ post) = l.
Proof.
  intros -> ->. unfold py_slice. rewrite Nat2Z.id.
  replace (Z.to_nat (Z.of_nat (length pre) + Z.of_nat (length l) - Z.of_nat (length pre)))
    with (length l) by lia.
  rewrite skipn_app, skipn_all, Nat.sub_diag. cbn [skipn app].
  rewrite firstn_app, firstn_all, Nat.sub_diag. cbn [firstn]. apply app_nil_r.
Qed.

Lemma parse_msg_frame q : wf_req q -> bytes_req q -> parse_msg (frame_of q) = PReq q.
Proof.
  destruct q as [start code ps|start idx code ps]; cbn [wf_req bytes_req frame_of]; unfold close.
  - intros (Hs & Hl) (Hb & Hc & Hp).
    set (body := [start; 0; Z.of_nat (length ps) + 1; code] ++ ps).
    unfold parse_msg. rewrite rev_unit, removelast_last, Z.eqb_refl. cbn [negb].
    assert (E : body ++ [checksum body] =
                start :: 0 :: Z.of_nat (length ps) + 1 :: code :: (ps ++ [checksum body]))
      by reflexivity.
    rewrite E at 1. cbn [Z.eqb]. f_equal. f_equal.
    change (body ++ [checksum body])
      with ([start; 0; Z.of_nat (length ps) + 1; code] ++ ps ++ [checksum body]).
    apply py_slice_mid; cbn [length]; lia.
  - intros (Hs & Hi & Hl) (Hb & Hc & Hp).
    set (h := (Z.of_nat (length ps) + 1) * 32 + idx).
    set (body := [start; h; code] ++ ps).
    destruct (hdr_compose (Z.of_nat (length ps) + 1) idx) as (Hn & Hx & Hnz & _); [lia|lia|].
    fold h in Hn, Hx, Hnz.
    unfold parse_msg. rewrite rev_unit, removelast_last, Z.eqb_refl. cbn [negb].
    assert (E : body ++ [checksum body] = start :: h :: code :: (ps ++ [checksum body]))
      by reflexivity.
    rewrite E at 1.
    destruct (ps ++ [checksum body]) as [|x t] eqn:Ex; [destruct ps; discriminate|].
    destruct (Z.eqb_spec h 0) as [E0|_]; [congruence|].
    rewrite Hn, Hx. f_equal. f_equal.
    change (body ++ [checksum body]) with ([start; h; code] ++ ps ++ [checksum body]).
    apply py_slice_mid; cbn [length]; lia.
Qed.

(* ---------- the handlers never raise while decoding ---------- *)

Lemma zfill8_nonempty l : zfill 8 l <> [].
Proof.
  intros E. pose proof (zfill_length 8 l) as H. rewrite E in H. cbn [length] in H. lia.
Qed.

Lemma decode_no_exc code ps : decode code ps <> DExc.
Proof.
  unfold decode.
  repeat match goal with
  | |- context [match ?c with _ => _ end] =>
      match c with
      | twos_to_int _ => fail 1
      | _ => destruct c
      end
  end; try discriminate.
  all: unfold twos_to_int; destruct (zfill 8 (bin z)) eqn:E;
    [exfalso; eapply zfill8_nonempty; exact E|discriminate].
Qed.

(* ------------------------------------------------------------------------------------------ *)
Section LineProofs.
  Context {U : Type}.
  Variable sem : U -> ucall -> U * uret.
  Variable delay : U -> Z.

  Notation exec := (exec sem delay).
  Notation dispatch := (dispatch sem delay).
  Notation lstep := (lstep sem delay).
  Notation lrun := (lrun sem delay).

  (* what one unit does with a command addressed to it, and what it answers: a function of that
     unit alone *)
  Definition unit_exec (start idx code : Z) (ps : list Z) (u : U) : U * outcome :=
    if negb (known code) then (u, OValueError)
    else match decode code ps with
    | DExc => (u, OException)
    | DNak => (u, if delay u =? 255 then OTrue else OReply [21])
    | DCall c k =>
        let (u', r) := sem u c in
        match build k start idx r with
        | BReply rep => (u', if delay u' =? 255 then OTrue else OReply rep)
        | BValueError => (u', OValueError)
        | BException => (u', OException)
        end
    end.

  (* the state change of one unit caused by a broadcast *)
  Definition bcast_effect (code : Z) (ps : list Z) (u : U) : U :=
    if negb (known code) then u
    else match decode code ps with
    | DCall c k => if is_getter k then u else fst (sem u c)
    | _ => u
    end.

  Definition on_line (min : Z) (drv : list U) (idx : Z) : Prop :=
    0 <= idx - min < Z.of_nat (length drv).

  (* --- unicast to a unit that is on the line --- *)
  Lemma exec_unicast min drv start idx code ps u :
    on_line min drv idx -> nth_error drv (Z.to_nat (idx - min)) = Some u ->
    exec true true min drv (QUni start idx code ps) =
      (upd drv (Z.to_nat (idx - min)) (fst (unit_exec start idx code ps u)),
       snd (unit_exec start idx code ps u)).
  Proof.
    unfold on_line. intros Hd Hu. unfold exec, unit_exec.
    destruct (known code); cbn [negb]; [|cbn [fst snd]; rewrite (upd_same _ _ _ Hu); reflexivity].
    replace ((0 <=? idx - min) && (idx - min <? Z.of_nat (length drv))) with true by lia.
    cbn [negb andb].
    destruct (decode code ps) as [| |c k].
    - unfold py_nth. rewrite py_pos_in_range by exact Hd. rewrite Hu.
      cbn [fst snd]. rewrite (upd_same _ _ _ Hu). reflexivity.
    - cbn [fst snd]. rewrite (upd_same _ _ _ Hu). reflexivity.
    - rewrite py_pos_in_range by exact Hd. rewrite Hu.
      destruct (sem u c) as [u' r]. destruct (build k start idx r); reflexivity.
  Qed.

  Lemma on_line_nth min drv idx : on_line min drv idx ->
    exists u, nth_error drv (Z.to_nat (idx - min)) = Some u.
  Proof.
    unfold on_line. intros H. destruct (nth_error drv (Z.to_nat (idx - min))) eqn:E; [eauto|].
    apply nth_error_None in E. lia.
  Qed.

  (* --- an address with no unit on the line --- *)
  Lemma exec_absent min drv start idx code ps :
    ~ on_line min drv idx ->
    exec true true min drv (QUni start idx code ps) =
      (drv, if known code then OTrue else OValueError).
  Proof.
    unfold on_line. intros Hd. unfold exec.
    destruct (known code); cbn [negb]; [|reflexivity].
    replace ((0 <=? idx - min) && (idx - min <? Z.of_nat (length drv))) with false by lia.
    reflexivity.
  Qed.

  (* --- broadcast --- *)
  Lemma map_id_ext {A} (f : A -> A) l : (forall x, f x = x) -> map f l = l.
  Proof. intros H. induction l as [|x l IH]; cbn; [reflexivity|]. now rewrite H, IH. Qed.

  Lemma exec_broadcast min drv start code ps :
    exec true true min drv (QBcast start code ps) =
      (map (bcast_effect code ps) drv, if known code then OTrue else OValueError).
  Proof.
    unfold exec.
    destruct (known code) eqn:Hk; cbn [negb].
    - pose proof (decode_no_exc code ps) as Hne.
      destruct (decode code ps) as [| |c k] eqn:Ed; [|congruence|].
      + f_equal. symmetry. apply map_id_ext. intros x. unfold bcast_effect. rewrite Hk, Ed. reflexivity.
      + destruct (is_getter k) eqn:Hg.
        * f_equal. symmetry. apply map_id_ext. intros x. unfold bcast_effect.
          rewrite Hk, Ed, Hg. reflexivity.
        * cbn [orb]. f_equal. unfold invoke_all. apply map_ext. intros x.
          unfold bcast_effect. rewrite Hk, Ed, Hg. reflexivity.
    - f_equal. symmetry. apply map_id_ext. intros x. unfold bcast_effect. rewrite Hk. reflexivity.
  Qed.

  (* for every command that is not one of the four getters, the effect of a broadcast on a unit
     is the effect of the same command addressed to it *)
  Lemma bcast_effect_unicast start idx code ps u :
    (forall c k, decode code ps = DCall c k -> is_getter k = true -> fst (sem u c) = u) ->
    bcast_effect code ps u = fst (unit_exec start idx code ps u).
  Proof.
    intros Hpure. unfold bcast_effect, unit_exec.
    destruct (known code); cbn [negb]; [|reflexivity].
    destruct (decode code ps) as [| |c k] eqn:Ed; try reflexivity.
    destruct (is_getter k) eqn:Hg.
    - specialize (Hpure c k eq_refl Hg). destruct (sem u c) as [u' r]. cbn [fst] in *.
      destruct (build k start idx r); cbn [fst]; congruence.
    - destruct (sem u c) as [u' r]. destruct (build k start idx r); reflexivity.
  Qed.

  (* ---------- from messages to bytes ---------- *)

  Fixpoint play (min : Z) (drv : list U) (evs : list fevent) : list U * list outcome :=
    match evs with
    | [] => (drv, [])
    | e :: evs' =>
        let (drv1, o) := match e with
                         | FFalse => (drv, OFalse)
                         | FTrue => (drv, OTrue)
                         | FBadLength _ => (drv, OValueError)
                         | FFrame m => dispatch true true min drv m
                         end in
        let (drv2, os) := play min drv1 evs' in (drv2, o :: os)
    end.

  Lemma lrun_play bs : forall l,
    lrun l bs =
    let (f', evs) := frun (l_f l) bs in
    let (drv', os) := play (l_min l) (l_drv l) evs in (mkL (l_min l) drv' f', os).
  Proof.
    induction bs as [|b bs IH]; intros [min drv f]; cbn [lrun frun l_f l_min l_drv play].
    - reflexivity.
    - unfold AslLine.lstep, lstep_gen. cbn [l_f l_min l_drv].
      destruct (fstep f b) as [f1 e]. destruct e as [| |g|m].
      + rewrite IH. cbn [l_f l_min l_drv]. destruct (frun f1 bs) as [f2 evs].
        cbn [play]. destruct (play min drv evs). reflexivity.
      + rewrite IH. cbn [l_f l_min l_drv]. destruct (frun f1 bs) as [f2 evs].
        cbn [play]. destruct (play min drv evs). reflexivity.
      + rewrite IH. cbn [l_f l_min l_drv]. destruct (frun f1 bs) as [f2 evs].
        cbn [play]. destruct (play min drv evs). reflexivity.
      + destruct (AslLine.dispatch sem delay true true min drv m) as [drv1 o] eqn:Ed.
        rewrite IH. cbn [l_f l_min l_drv]. destruct (frun f1 bs) as [f2 evs].
        cbn [play]. rewrite Ed. destruct (play min drv1 evs). reflexivity.
  Qed.

  Lemma play_true_then n min drv m :
    play min drv (repeat FTrue n ++ [FFrame m]) =
    (fst (dispatch true true min drv m), repeat OTrue n ++ [snd (dispatch true true min drv m)]).
  Proof.
    induction n as [|n IH]; cbn [repeat app play].
    - destruct (dispatch true true min drv m). reflexivity.
    - rewrite IH. reflexivity.
  Qed.

  (* a well-formed frame fed byte by byte to an idle line: True for every byte but the last,
     whose outcome and effect are those of [exec] on the request; idle afterwards *)
  Lemma lrun_frame min drv q : wf_req q -> bytes_req q ->
    lrun (mkL min drv finit) (frame_of q) =
    (mkL min (fst (exec true true min drv q)) finit,
     repeat OTrue (length (frame_of q) - 1) ++ [snd (exec true true min drv q)]).
  Proof.
    intros Hw Hb. rewrite lrun_play. cbn [l_f l_min l_drv].
    rewrite (frun_frame q Hw). rewrite play_true_then.
    unfold AslLine.dispatch. rewrite (parse_msg_frame q Hw Hb). reflexivity.
  Qed.

  (* ---------- the C11 statements ---------- *)

  Definition silent (o : outcome) : Prop := o = OTrue \/ o = OValueError.

  Theorem unicast_only_addressed min drv start idx code ps :
    on_line min drv idx ->
    exists u, nth_error drv (Z.to_nat (idx - min)) = Some u /\
      exec true true min drv (QUni start idx code ps) =
        (upd drv (Z.to_nat (idx - min)) (fst (unit_exec start idx code ps u)),
         snd (unit_exec start idx code ps u)).
  Proof.
    intros H. destruct (on_line_nth min drv idx H) as [u Hu]. exists u. split; [exact Hu|].
    now apply exec_unicast.
  Qed.

  Theorem unicast_isolates min drv start idx code ps :
    on_line min drv idx ->
    let drv' := fst (exec true true min drv (QUni start idx code ps)) in
    length drv' = length drv /\
    forall j, j <> Z.to_nat (idx - min) -> nth_error drv' j = nth_error drv j.
  Proof.
    intros H. destruct (unicast_only_addressed min drv start idx code ps H) as (u & Hu & ->).
    cbn [fst]. split; [apply upd_length|]. intros j Hj. now apply upd_other.
  Qed.

  (* the outcome (reply or silence) is the same on any other line that has the same unit at the
     addressed position: nobody else contributes to the answer *)
  Theorem unicast_answer_local min drv drv2 start idx code ps :
    on_line min drv idx -> length drv2 = length drv ->
    nth_error drv2 (Z.to_nat (idx - min)) = nth_error drv (Z.to_nat (idx - min)) ->
    snd (exec true true min drv2 (QUni start idx code ps)) =
    snd (exec true true min drv (QUni start idx code ps)).
  Proof.
    intros H Hl Hn.
    destruct (unicast_only_addressed min drv start idx code ps H) as (u & Hu & ->).
    assert (H2 : on_line min drv2 idx) by (unfold on_line in *; rewrite Hl; exact H).
    rewrite Hu in Hn. rewrite (exec_unicast min drv2 start idx code ps u H2 Hn). reflexivity.
  Qed.

  Theorem absent_silent_unchanged min drv start idx code ps :
    ~ on_line min drv idx ->
    fst (exec true true min drv (QUni start idx code ps)) = drv /\
    silent (snd (exec true true min drv (QUni start idx code ps))).
  Proof.
    intros H. rewrite (exec_absent min drv start idx code ps H). cbn [fst snd].
    split; [reflexivity|]. unfold silent. destruct (known code); auto.
  Qed.

  Theorem broadcast_fans_out min drv start code ps :
    fst (exec true true min drv (QBcast start code ps)) = map (bcast_effect code ps) drv /\
    silent (snd (exec true true min drv (QBcast start code ps))).
  Proof.
    rewrite exec_broadcast. cbn [fst snd]. split; [reflexivity|].
    unfold silent. destruct (known code); auto.
  Qed.

  (* getters leave the unit unchanged (a fact about usd.py, C13): hypothesis of the comparison *)
  Definition getters_pure (drv : list U) : Prop :=
    forall u c, In u drv -> In (c_code c) [16; 18; 19; 20] -> fst (sem u c) = u.

  Lemma decode_getter_code code ps c k :
    decode code ps = DCall c k -> is_getter k = true -> In (c_code c) [16; 18; 19; 20].
  Proof.
    unfold decode. intros Hd Hg.
    repeat match type of Hd with
    | context [match ?x with _ => _ end] => destruct x
    end; try discriminate; injection Hd as <- <-; cbn in Hg; try discriminate; cbn; auto.
  Qed.

  Theorem broadcast_as_unicast min drv start start' code ps idx :
    getters_pure drv -> on_line min drv idx ->
    nth_error (fst (exec true true min drv (QBcast start code ps))) (Z.to_nat (idx - min)) =
    nth_error (fst (exec true true min drv (QUni start' idx code ps))) (Z.to_nat (idx - min)).
  Proof.
    intros Hp H. destruct (unicast_only_addressed min drv start' idx code ps H) as (u & Hu & ->).
    rewrite exec_broadcast. cbn [fst].
    rewrite upd_this by (unfold on_line in H; lia).
    rewrite nth_error_map, Hu. cbn [option_map]. f_equal.
    apply bcast_effect_unicast. intros c k Hd Hg. apply Hp.
    - eapply nth_error_In; exact Hu.
    - eapply decode_getter_code; eassumption.
  Qed.

  (* and the units the broadcast does not mention do not exist: the result has the same length *)
  Lemma broadcast_length min drv start code ps :
    length (fst (exec true true min drv (QBcast start code ps))) = length drv.
  Proof. rewrite exec_broadcast. cbn [fst]. apply map_length. Qed.

  (* reachable idle line states: any drivers, framing state idle and reachable *)
  Theorem idle_is_fresh min drv f bs :
    fwf f -> fidle f -> lrun (mkL min drv f) bs = lrun (mkL min drv finit) bs.
  Proof. intros H Hi. rewrite (fwf_idle_init f H Hi). reflexivity. Qed.

  Lemma bcast_effect_unfold code ps (u : U) :
    bcast_effect code ps u =
      if negb (known code) then u
      else match decode code ps with
           | DCall c k => if is_getter k then u else fst (sem u c)
           | _ => u
           end.
  Proof. reflexivity. Qed.

  Lemma idle_states min drv f bs :
    freach f -> fidle f -> lrun (mkL min drv f) bs = lrun (mkL min drv finit) bs.
  Proof. intros H. apply idle_is_fresh. now apply freach_fwf. Qed.

  (* ---------- line-level statements of part c03_as ---------- *)

  Lemma lrun_app bs1 : forall l bs2,
    lrun l (bs1 ++ bs2) =
    let (l1, o1) := lrun l bs1 in let (l2, o2) := lrun l1 bs2 in (l2, o1 ++ o2).
  Proof.
    induction bs1 as [|b bs1 IH]; intros l bs2; cbn [AslLine.lrun app].
    - destruct (lrun l bs2). reflexivity.
    - destruct (lstep l b) as [l1 o]. rewrite IH. destruct (lrun l1 bs1) as [l2 o2].
      destruct (lrun l2 bs2). reflexivity.
  Qed.

  Lemma lrun_shape l bs :
    l_min (fst (lrun l bs)) = l_min l /\ l_f (fst (lrun l bs)) = fst (frun (l_f l) bs).
  Proof.
    rewrite lrun_play. destruct (frun (l_f l) bs) as [f' evs].
    destruct (play (l_min l) (l_drv l) evs). cbn. auto.
  Qed.

  Theorem resync_then_command l bs q :
    freach (l_f l) -> Forall non_header bs -> (10 <= length bs)%nat -> wf_req q -> bytes_req q ->
    exists drv1 os,
      lrun l bs = (mkL (l_min l) drv1 finit, os) /\
      lrun l (bs ++ frame_of q) =
        (mkL (l_min l) (fst (exec true true (l_min l) drv1 q)) finit,
         os ++ repeat OTrue (length (frame_of q) - 1) ++ [snd (exec true true (l_min l) drv1 q)]).
  Proof.
    intros Hr Hn Hl Hw Hb.
    pose proof (resync_nonheader_10 _ bs Hr Hn Hl) as Hidle.
    pose proof (freach_run _ bs Hr) as Hr2.
    pose proof (fresh_after_idle _ Hr2 Hidle) as Hf.
    destruct (lrun_shape l bs) as [Hm Hs]. rewrite Hf in Hs.
    destruct (lrun l bs) as [[m1 drv1 f1] os] eqn:E. cbn [fst l_min l_f] in Hm, Hs. subst m1 f1.
    exists drv1, os. split; [reflexivity|].
    rewrite lrun_app, E. rewrite (lrun_frame (l_min l) drv1 q Hw Hb). reflexivity.
  Qed.

  Theorem zero_nibble_outcome l b : length (f_msg (l_f l)) = 1%nat -> 1 <= b <= 31 ->
    lstep l b = (mkL (l_min l) (l_drv l) finit, OValueError).
  Proof.
    intros Hl Hb. unfold AslLine.lstep, lstep_gen. rewrite (zero_nibble_rejected _ b Hl Hb). reflexivity.
  Qed.

  Theorem bad_bcast_length_outcome l b : length (f_msg (l_f l)) = 2%nat -> f_all (l_f l) = true ->
    (b < 1 \/ 7 < b) -> lstep l b = (mkL (l_min l) (l_drv l) finit, OValueError).
  Proof.
    intros Hl Ha Hb. unfold AslLine.lstep, lstep_gen.
    rewrite (bad_bcast_length_rejected _ b Hl Ha Hb). reflexivity.
  Qed.

  Theorem discarded_outcome l b : freach (l_f l) -> fidle (l_f l) -> non_header b ->
    lstep l b = (l, OFalse).
  Proof.
    intros Hr Hi Hb. unfold AslLine.lstep, lstep_gen. rewrite (idle_discards_reach _ b Hr Hi Hb).
    destruct l; reflexivity.
  Qed.
End LineProofs.

(* ------------------------------------------------------------------------------------------ *)
(* The pinned code (before fixes 04 / 05) violates the property: witnesses.                    *)
(* Units are call counters: sem increments, getters return a value of the right shape.         *)

Definition csem (u : Z) (c : ucall) : Z * uret :=
  (u + 1, match c_code c with 18 => RInt 0 | _ => RNone end).
Definition cdelay (u : Z) : Z := 5.

(* F04: line (1..3), bytes FC 20 12 chk (address 0): the LAST unit is invoked and answers *)
Lemma pinned_below_min_refuted :
  dispatch csem cdelay false true 1 [0; 0; 0] [252; 32; 18; 209] =
    ([0; 0; 1], OReply [6; 252; 128; 0; 0; 0; 0; 125]).
Proof. vm_compute. reflexivity. Qed.

Lemma fixed_below_min :
  dispatch csem cdelay true true 1 [0; 0; 0] [252; 32; 18; 209] = ([0; 0; 0], OTrue).
Proof. vm_compute. reflexivity. Qed.

(* F05: broadcast slope delayer reaches the first unit only *)
Lemma pinned_broadcast_slope_refuted :
  dispatch csem cdelay true false 1 [0; 0; 0] [252; 0; 2; 34; 7; 216] = ([1; 0; 0], OTrue).
Proof. vm_compute. reflexivity. Qed.

Lemma fixed_broadcast_slope :
  dispatch csem cdelay true true 1 [0; 0; 0] [252; 0; 2; 34; 7; 216] = ([1; 1; 1], OTrue).
Proof. vm_compute. reflexivity. Qed.
