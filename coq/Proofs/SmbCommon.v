(* Lemmas shared by the Smb simulators: the '\n' line framer (for every `exec`), and the Python
   string helpers. *)
From DS Require Import Base.Prelude Model.SmbCommon.

(* ------------------------------------------------------------------ small list facts *)
Lemma nonempty_app_r {A} (l : list A) x : nonempty (l ++ [x]) = true.
Proof. destruct l; reflexivity. Qed.

Lemma removelast_app_single {A} (l : list A) x : removelast (l ++ [x]) = l.
Proof. rewrite removelast_app by discriminate. cbn. apply app_nil_r. Qed.

Lemma zlist_eqb_refl l : zlist_eqb l l = true.
Proof. apply zlist_eqb_eq. reflexivity. Qed.

Lemma zlist_eqb_neq l1 l2 : zlist_eqb l1 l2 = false <-> l1 <> l2.
Proof.
  split.
  - intros H E. apply zlist_eqb_eq in E. congruence.
  - intros H. destruct (zlist_eqb l1 l2) eqn:E; [apply zlist_eqb_eq in E; contradiction | reflexivity].
Qed.

(* ------------------------------------------------------------------ the line framer *)
Section LineFacts.
  Context {dev : Type}.
  Variable exec : dev -> list Z -> dev * outcome.

  Notation step := (lstep exec).
  Notation run := (lrun exec).

  Definition no_lf (l : list Z) : Prop := ~ In LF l.

  Lemma lrun_app s a b :
    run s (a ++ b) = (fst (run (fst (run s a)) b), snd (run s a) ++ snd (run (fst (run s a)) b)).
  Proof.
    revert s; induction a as [|x a IH]; intros s; cbn [app lrun fst snd].
    - destruct (run s b); reflexivity.
    - rewrite IH. reflexivity.
  Qed.

  (* bytes other than the terminator are buffered: no reply, no effect on the device *)
  Lemma lstep_buffer s b : b <> LF -> step s b = (mkL (lmsg s ++ [b]) (ldev s), OTrue).
  Proof. intros H. unfold lstep. destruct (b =? LF) eqn:E; [lia | reflexivity]. Qed.

  Lemma lstep_term s : step s LF = (mkL [] (fst (exec (ldev s) (lmsg s))), snd (exec (ldev s) (lmsg s))).
  Proof. reflexivity. Qed.

  Lemma lrun_noterm l : no_lf l -> forall s,
    run s l = (mkL (lmsg s ++ l) (ldev s), repeat OTrue (length l)).
  Proof.
    unfold no_lf. induction l as [|x l IH]; intros H s; cbn [lrun].
    - rewrite app_nil_r. destruct s; reflexivity.
    - rewrite lstep_buffer by (intros ->; apply H; left; reflexivity).
      cbn [fst snd]. rewrite IH by (intros Hin; apply H; right; exact Hin).
      cbn [lmsg ldev fst snd length repeat]. rewrite <- app_assoc. reflexivity.
  Qed.

  Definition line_outs (l : list Z) (o : outcome) : list outcome := repeat OTrue (length l) ++ [o].

  (* a complete line: the buffered text plus the line is handed to exec, the buffer is empty after *)
  Lemma lrun_line l s : no_lf l ->
    run s (l ++ [LF]) =
      (mkL [] (fst (exec (ldev s) (lmsg s ++ l))), line_outs l (snd (exec (ldev s) (lmsg s ++ l)))).
  Proof.
    intros H. rewrite lrun_app, (lrun_noterm l H). cbn [fst snd lrun]. rewrite lstep_term.
    reflexivity.
  Qed.

  (* C03: whatever came before, the terminator leaves the framer idle *)
  Lemma lresync s bs : lidle (fst (run s (bs ++ [LF]))) = true.
  Proof. rewrite lrun_app. cbn [lrun fst snd]. rewrite lstep_term. reflexivity. Qed.

  Lemma lidle_msg (s : @lstate dev) : lidle s = true -> s = mkL [] (ldev s).
  Proof. destruct s as [m d]. unfold lidle. cbn. destruct m; [reflexivity | discriminate]. Qed.

  (* from an idle state a line is executed on the device state alone *)
  Lemma lrun_line_idle l s : lidle s = true -> no_lf l ->
    run s (l ++ [LF]) = (mkL [] (fst (exec (ldev s) l)), line_outs l (snd (exec (ldev s) l))).
  Proof.
    intros Hi Hl. rewrite (lidle_msg s Hi) at 1. rewrite lrun_line by exact Hl. reflexivity.
  Qed.

  Definition lines_outs (ls : list (list Z)) (os : list outcome) : list outcome :=
    concat (map (fun p => line_outs (fst p) (snd p)) (combine ls os)).

  Lemma exec_lines_length d ls : length (snd (exec_lines exec d ls)) = length ls.
  Proof. revert d; induction ls as [|l ls IH]; intros d; cbn; [reflexivity | rewrite IH; reflexivity]. Qed.

  (* a history of complete lines from an idle state = the line-level execution *)
  Lemma lrun_lines ls : Forall no_lf ls -> forall d,
    run (mkL [] d) (lines_bytes ls) =
      (mkL [] (fst (exec_lines exec d ls)), lines_outs ls (snd (exec_lines exec d ls))).
  Proof.
    induction 1 as [|l ls Hl _ IH]; intros d.
    - reflexivity.
    - unfold lines_bytes. cbn [map concat]. fold (lines_bytes ls).
      rewrite lrun_app. unfold line_bytes. rewrite lrun_line_idle by (auto; reflexivity).
      cbn [fst snd ldev]. rewrite IH. cbn [exec_lines fst snd]. reflexivity.
  Qed.

  (* every byte history is a sequence of complete lines followed by an unterminated rest *)
  Lemma history_lines bs : exists ls rest,
    bs = lines_bytes ls ++ rest /\ Forall no_lf ls /\ no_lf rest.
  Proof.
    induction bs as [|b bs (ls & rest & E & Hls & Hr)].
    - exists [], []. repeat split; [constructor | intros []].
    - destruct (Z.eq_dec b LF) as [->|Hb].
      + exists ([] :: ls), rest. subst bs. repeat split; auto.
        constructor; [intros [] | exact Hls].
      + destruct ls as [|l ls].
        * exists [], (b :: rest). subst bs. repeat split; auto.
          intros [E|Hin]; [congruence | exact (Hr Hin)].
        * exists ((b :: l) :: ls), rest. subst bs. repeat split; auto.
          inversion Hls as [|? ? Hl Hls']; subst. constructor; auto.
          intros [E|Hin]; [congruence | exact (Hl Hin)].
  Qed.

  (* device invariants *)
  Variable P : dev -> Prop.
  Hypothesis exec_P : forall d l, P d -> P (fst (exec d l)).

  Lemma lstep_inv s b : P (ldev s) -> P (ldev (fst (step s b))).
  Proof. intros H. unfold lstep. destruct (b =? LF); cbn; auto. Qed.

  Lemma lrun_inv bs : forall s, P (ldev s) -> P (ldev (fst (run s bs))).
  Proof. induction bs as [|b bs IH]; intros s H; cbn; auto using lstep_inv. Qed.

  Lemma exec_lines_inv ls : forall d, P d -> P (fst (exec_lines exec d ls)).
  Proof. induction ls as [|l ls IH]; intros d H; cbn; auto. Qed.
End LineFacts.

(* states reachable from a start state by any byte history *)
Definition lreach {dev} (exec : dev -> list Z -> dev * outcome) (s0 s : @lstate dev) : Prop :=
  exists bs, s = fst (lrun exec s0 bs).

Lemma lreach_inv {dev} (exec : dev -> list Z -> dev * outcome) (P : dev -> Prop) s0 s :
  (forall d l, P d -> P (fst (exec d l))) -> P (ldev s0) -> lreach exec s0 s -> P (ldev s).
Proof. intros HP H0 [bs ->]. apply lrun_inv; auto. Qed.

Lemma lreach_step {dev} (exec : dev -> list Z -> dev * outcome) s0 s b :
  lreach exec s0 s -> lreach exec s0 (fst (lstep exec s b)).
Proof.
  intros [bs ->]. exists (bs ++ [b]). rewrite lrun_app. cbn. reflexivity.
Qed.

(* ------------------------------------------------------------------ split_by *)
Lemma split_by_nonnil p s : split_by p s <> [].
Proof. destruct s as [|x s]; cbn; [discriminate|]. destruct (p x); [discriminate|]. destruct (split_by p s); discriminate. Qed.

Lemma split_by_nosep p s : (forall x, In x s -> p x = false) -> split_by p s = [s].
Proof.
  induction s as [|x s IH]; intros H; cbn; [reflexivity|].
  rewrite (H x (or_introl eq_refl)). rewrite IH by (intros y Hy; apply H; right; exact Hy). reflexivity.
Qed.

Lemma split_by_app_sep p a c b : (forall x, In x a -> p x = false) -> p c = true ->
  split_by p (a ++ c :: b) = a :: split_by p b.
Proof.
  induction a as [|x a IH]; intros Ha Hc; cbn.
  - rewrite Hc. reflexivity.
  - rewrite (Ha x (or_introl eq_refl)). rewrite IH; auto. intros y Hy; apply Ha; right; exact Hy.
Qed.

(* joining items with ';' and splitting again *)
Lemma semi_all_split items rest : Forall (fun i => ~ In SEMI i) items ->
  split_on SEMI (semi_all items ++ rest) = items ++ split_on SEMI rest.
Proof.
  induction 1 as [|i items Hi _ IH]; [reflexivity|].
  unfold semi_all. cbn [map concat]. fold (semi_all items). rewrite <- !app_assoc. cbn [app].
  unfold split_on at 1. rewrite split_by_app_sep.
  - fold (split_on SEMI (semi_all items ++ rest)). rewrite IH. reflexivity.
  - intros x Hx. destruct (SEMI =? x) eqn:E; [|reflexivity]. apply Z.eqb_eq in E. subst x. contradiction.
  - reflexivity.
Qed.

Lemma join_semi_snoc items i : join_semi (items ++ [i]) = semi_all items ++ i.
Proof.
  unfold join_semi, semi_all. rewrite map_app, concat_app. cbn [map concat]. rewrite app_nil_r.
  rewrite app_assoc. apply removelast_app_single.
Qed.

Lemma split_join_semi items : items <> [] -> Forall (fun i => ~ In SEMI i) items ->
  split_on SEMI (join_semi items) = items.
Proof.
  intros Hne H. destruct (exists_last Hne) as (front & lst & ->).
  rewrite join_semi_snoc. apply Forall_app in H as [Hf Hl]. inversion Hl as [|? ? Hl' _]; subst.
  rewrite semi_all_split by exact Hf. unfold split_on. rewrite split_by_nosep; [reflexivity|].
  intros x Hx. destruct (SEMI =? x) eqn:E; [|reflexivity]. apply Z.eqb_eq in E. subst x. contradiction.
Qed.

(* ------------------------------------------------------------------ composed byte-level facts *)
Section LineFacts2.
  Context {dev : Type}.
  Variable exec : dev -> list Z -> dev * outcome.

  (* C03 "answered as on a fresh parser": after ANY history closed by the terminator, a line is
     framed and executed exactly as by a parser whose buffer is empty *)
  Lemma lfresh s0 h l : no_lf l ->
    let s := fst (lrun exec s0 (h ++ [LF])) in
    lrun exec s (l ++ [LF]) =
      (mkL [] (fst (exec (ldev s) l)), line_outs l (snd (exec (ldev s) l))).
  Proof. intros Hl s. apply lrun_line_idle; [apply lresync | exact Hl]. Qed.

  (* a history of complete lines followed by one more line *)
  Lemma lrun_history_then_line s ls q : lidle s = true -> Forall no_lf ls -> no_lf q ->
    let r := exec_lines exec (ldev s) ls in
    lrun exec s (lines_bytes ls ++ q ++ [LF]) =
      (mkL [] (fst (exec (fst r) q)), lines_outs ls (snd r) ++ line_outs q (snd (exec (fst r) q))).
  Proof.
    intros Hi Hls Hq r. subst r. rewrite (lidle_msg s Hi). cbn [ldev]. generalize (ldev s) as d. intros d.
    rewrite lrun_app.
    rewrite lrun_lines by exact Hls. cbn [fst snd]. rewrite lrun_line_idle by (auto; reflexivity).
    cbn [fst snd ldev]. reflexivity.
  Qed.
End LineFacts2.

(* ------------------------------------------------------------------ more on split_by / join *)
Lemma split_by_single p s : forall l, split_by p s = [l] -> l = s.
Proof.
  induction s as [|y s IH]; intros l E; cbn in E; [congruence|].
  destruct (p y).
  { destruct (split_by p s) eqn:Es; [exfalso; exact (split_by_nonnil p s Es) | discriminate]. }
  destruct (split_by p s) as [|h [|h2 t]] eqn:Es; try discriminate.
  - exfalso. exact (split_by_nonnil p s Es).
  - injection E as <-. rewrite (IH h eq_refl). reflexivity.
Qed.

Lemma split_by_last_suffix p s : exists pre lst, split_by p s = pre ++ [lst] /\
  exists front, s = front ++ lst.
Proof.
  induction s as [|x s (pre & lst & E & front & Ef)]; cbn.
  - exists [], []. split; [reflexivity | exists []; reflexivity].
  - destruct (p x).
    + exists ([] :: pre), lst. rewrite E. split; [reflexivity|]. exists (x :: front). rewrite Ef. reflexivity.
    + rewrite E. destruct pre as [|h t]; cbn.
      * exists [], (x :: lst). split; [reflexivity|]. exists []. cbn.
        rewrite (split_by_single p s lst E). reflexivity.
      * exists ((x :: h) :: t), lst. split; [reflexivity|]. exists (x :: front). rewrite Ef. reflexivity.
Qed.

Lemma split_by_bytes_inv p s : (forall x, p x = true -> byte x) -> Forall bytes (split_by p s) -> bytes s.
Proof.
  intros Hp. induction s as [|x s IH]; cbn; intros H; [constructor|].
  destruct (p x) eqn:E.
  - inversion H; subst. constructor; [apply Hp; exact E | apply IH; assumption].
  - destruct (split_by p s) as [|h t] eqn:Es.
    + exfalso. exact (split_by_nonnil p s Es).
    + inversion H as [|? ? Hh Ht]; subst. inversion Hh; subst.
      constructor; [assumption|]. apply IH. constructor; assumption.
Qed.

Lemma join_semi_single i : join_semi [i] = i.
Proof. change [i] with ([] ++ [i]). rewrite join_semi_snoc. reflexivity. Qed.

Lemma nosemi_split l : ~ In SEMI l -> split_on SEMI l = [l].
Proof.
  intros H. unfold split_on. apply split_by_nosep. intros x Hx.
  destruct (SEMI =? x) eqn:E; [|reflexivity]. apply Z.eqb_eq in E. subst x. contradiction.
Qed.


(* ------------------------------------------------------------------ whole byte histories *)
Section LineFacts3.
  Context {dev : Type}.
  Variable exec : dev -> list Z -> dev * outcome.

  (* every byte history acts on the device exactly as its complete lines; the unterminated rest
     stays in the buffer and has produced only `True` *)
  Lemma lrun_history bs d : exists ls rest,
    bs = lines_bytes ls ++ rest /\ Forall no_lf ls /\ no_lf rest /\
    lrun exec (mkL [] d) bs =
      (mkL rest (fst (exec_lines exec d ls)),
       lines_outs ls (snd (exec_lines exec d ls)) ++ repeat OTrue (length rest)).
  Proof.
    destruct (history_lines bs) as (ls & rest & E & Hls & Hr).
    exists ls, rest. repeat split; auto. subst bs.
    rewrite lrun_app, lrun_lines by exact Hls. cbn [fst snd].
    rewrite lrun_noterm by exact Hr. reflexivity.
  Qed.

  (* a line that exec discards (no effect, `True`) is discarded by the framer too *)
  Lemma lrun_discarded s l : lidle s = true -> no_lf l -> exec (ldev s) l = (ldev s, OTrue) ->
    lrun exec s (l ++ [LF]) = (s, line_outs l OTrue).
  Proof.
    intros Hi Hl He. rewrite lrun_line_idle by assumption. rewrite He. cbn [fst snd].
    rewrite <- (lidle_msg s Hi). reflexivity.
  Qed.
End LineFacts3.
