(* C17 — lemmas about [advance] (the tracking part of PointingStatus.update_status), the
   invariant over histories, and the trajectory theorem under the spline hypothesis. *)
From DS Require Import Base.Prelude Model.AtrkModel Proofs.AtrkSpec Proofs.AtrkLoad.
From Coq Require Import QArith_base.
#[local] Close Scope Q_scope.
#[local] Open Scope Z_scope.

(* ------------------------------------------------------------------ bisect_left *)

Definition before (x : Q) (p : point) : bool := zltq (p_t p) x.

Lemma zltq_mono a b x : a <= b -> zltq b x = true -> zltq a x = true.
Proof. unfold zltq. intros H1 H2. pose proof (Pos2Z.is_pos (Qden x)). nia. Qed.

Lemma bisect_le tb x : (bisect_left tb x <= length tb)%nat.
Proof. induction tb as [|p r IH]; cbn; [lia|]. destruct (zltq (p_t p) x); cbn; lia. Qed.

Lemma bisect_all tb x : bisect_left tb x = length tb <-> Forall (fun p => before x p = true) tb.
Proof.
  induction tb as [|p r IH]; cbn [bisect_left length].
  - split; [constructor|reflexivity].
  - unfold before at 1. destruct (zltq (p_t p) x) eqn:E.
    + split.
      * intros H. injection H as H. constructor; [exact E|apply IH; exact H].
      * intros H. inversion H; subst. f_equal. apply IH. assumption.
    + split; [discriminate|]. intros H. inversion H; subst. unfold before in *. congruence.
Qed.

(* on a sorted table: everything is before x iff the last point is *)
Lemma bisect_last tb lp x : equally_spaced (times tb) -> last_opt tb = Some lp ->
  (bisect_left tb x = length tb <-> zltq (p_t lp) x = true).
Proof.
  intros [d [Hd Hap]] Hl. rewrite bisect_all.
  destruct (last_opt_split _ _ Hl) as [l' E]. subst tb. split.
  - intros H. apply Forall_app in H as [_ H]. inversion H; subst. assumption.
  - intros H. unfold times in Hap. rewrite map_app in Hap. cbn [map] in Hap.
    pose proof (ap_upper _ _ _ Hd Hap) as HU. change [p_t lp] with (map p_t [lp]) in HU. rewrite <- map_app in HU.
    rewrite Forall_map in HU. eapply Forall_impl; [|exact HU].
    cbn. intros p Hp. unfold before. eapply zltq_mono; eauto.
Qed.

Lemma filter_all {A} (f : A -> bool) l : (forall x, In x l -> f x = true) -> filter f l = l.
Proof.
  induction l as [|a l IH]; intros H; [reflexivity|]. cbn [filter].
  rewrite (H a (or_introl eq_refl)). f_equal. apply IH. intros y Hy. apply H. right. exact Hy.
Qed.

(* on a sorted table the consumed prefix is exactly the set of points before x *)
Lemma skipn_bisect tb x : equally_spaced (times tb) ->
  skipn (bisect_left tb x) tb = filter (fun p => negb (before x p)) tb.
Proof.
  intros [d [Hd Hap]]. induction tb as [|p r IH]; [reflexivity|].
  cbn [bisect_left filter]. unfold before at 1. destruct (zltq (p_t p) x) eqn:E; cbn [negb skipn].
  - apply IH. eapply ap_tail; eauto.
  - f_equal. symmetry. apply filter_all. intros q Hq. unfold before.
    destruct (zltq (p_t q) x) eqn:Eq; [|reflexivity]. exfalso.
    cbn [times map] in Hap. pose proof (ap_lower _ _ _ Hd Hap) as HL.
    rewrite Forall_forall in HL. specialize (HL (p_t q) (or_intror (in_map p_t _ _ Hq))).
    rewrite (zltq_mono _ _ _ HL Eq) in E. discriminate.
Qed.

Lemma skipn_lt_nonempty {A} n (l : list A) : (n < length l)%nat -> skipn n l <> [].
Proof.
  intros H E. apply (f_equal (@length A)) in E. rewrite skipn_length in E. cbn in E. lia.
Qed.

Lemma skipn_suffix {A} n (l : list A) : exists pre, l = pre ++ skipn n l.
Proof. exists (firstn n l). symmetry. apply firstn_skipn. Qed.

(* ------------------------------------------------------------------ one refresh *)

(* the three things a refresh can do to a live track *)
Definition completed_state (lim : limits) (st : pstate) (a e : Z) : pstate :=
  let b := bahn_of lim a e in
  {| tbl := []; tck := tck st; start := start st; lastc := lastc st;
     pt_state := 4; pt_len := 0; pt_act := 0; pt_end := 0;
     interp := interp st; cnt := cnt st; cmd := cmd st; ans := ans st; pt_id := pt_id st;
     az_bahn := fst b; el_bahn := snd b; az_next := az_next st; el_next := el_next st |}.

Definition running_state (lim : limits) (st : pstate) (sv : sval) (x : Q) : pstate :=
  let tb := skipn (bisect_left (tbl st) x) (tbl st) in
  let b := bahn_of lim (s_az sv) (s_el sv) in
  {| tbl := tb; tck := tck st; start := start st; lastc := lastc st;
     pt_state := 3; pt_len := Z.of_nat (length tb);
     pt_act := Z.of_nat (bisect_left (tbl st) x);
     pt_end := Z.max (Z.of_nat (length tb) - 1) 0;
     interp := interp st; cnt := cnt st; cmd := cmd st; ans := ans st; pt_id := pt_id st;
     az_bahn := fst b; el_bahn := snd b;
     az_next := option_map p_az (hd_error tb); el_next := option_map p_el (hd_error tb) |}.

Definition waiting_state (lim : limits) (st : pstate) (sv : sval) : pstate :=
  let b := bahn_of lim (s_az sv) (s_el sv) in
  {| tbl := tbl st; tck := tck st; start := start st; lastc := lastc st;
     pt_state := 2; pt_len := pt_len st; pt_act := pt_act st; pt_end := pt_end st;
     interp := interp st; cnt := cnt st; cmd := cmd st; ans := ans st; pt_id := pt_id st;
     az_bahn := fst b; el_bahn := snd b;
     az_next := option_map p_az (hd_error (tbl st));
     el_next := option_map p_el (hd_error (tbl st)) |}.

Definition live (st : pstate) : Prop := pt_state st = 2 \/ pt_state st = 3.

(* a live state under the invariant, unpacked *)
Lemma live_inv st : inv st -> live st ->
  exists s pre lp,
    start st = Some s /\ tbl st <> [] /\ tck st = Some (pre ++ tbl st) /\
    equally_spaced (times (pre ++ tbl st)) /\ Forall (fun p => 0 <= p_t p) (pre ++ tbl st) /\
    last_opt (tbl st) = Some lp /\ lastc st = Some (p_az lp, p_el lp) /\
    equally_spaced (times (tbl st)) /\ (4 <= length (pre ++ tbl st))%nat.
Proof.
  intros [I1 [I2 [I3 [I4 [I5 I6]]]]] HL.
  assert (Hne : tbl st <> []) by (apply I4; exact HL).
  destruct (I6 Hne) as [pre [lp [H1 [H2 [H3 [H4 [H5 H6]]]]]]].
  assert (H0 : pt_state st <> 0) by (unfold live in HL; lia).
  destruct (I5 H0) as [Hs _]. destruct (start st) as [s|] eqn:Es; [|congruence].
  exists s, pre, lp. repeat split; auto.
Qed.

(* exact description of a refresh on a live state *)
Lemma advance_live lim sv0 sve st x : inv st -> live st ->
  forall lp, last_opt (tbl st) = Some lp ->
  advance lim sv0 sve st x =
    if (pt_state st =? 2) && qneg x then Some (waiting_state lim st sv0)
    else if zltq (p_t lp) x then Some (completed_state lim st (p_az lp) (p_el lp))
    else if s_fits sve then Some (running_state lim st sve x) else None.
Proof.
  intros Hinv HL lp Hlp.
  destruct (live_inv _ Hinv HL) as [s [pre [lp' [Hs [Hne [Htck [_ [_ [Hlp' [Hlc [Hsp _]]]]]]]]]]].
  assert (lp' = lp) by congruence. subst lp'.
  pose proof (bisect_last _ _ x Hsp Hlp) as HB.
  unfold advance. replace (pt_state st =? 0) with false by (unfold live in HL; lia).
  rewrite Hs.
  assert (Hrun : forall st1, tbl st1 = tbl st -> tck st1 = tck st -> lastc st1 = lastc st ->
            pt_state st1 = 3 ->
            start st1 = start st -> interp st1 = interp st -> cnt st1 = cnt st -> cmd st1 = cmd st ->
            ans st1 = ans st -> pt_id st1 = pt_id st -> az_next st1 = az_next st ->
            el_next st1 = el_next st ->
            (if pt_state st1 =? 3
             then
               let i := bisect_left (tbl st1) x in
               if (i =? length (tbl st1))%nat
               then match lastc st1 with
                    | None => None
                    | Some (a, e) =>
                        let b := bahn_of lim a e in
                        Some {| tbl := []; tck := tck st1; start := start st1; lastc := lastc st1;
                                pt_state := 4; pt_len := 0; pt_act := 0; pt_end := 0;
                                interp := interp st1; cnt := cnt st1; cmd := cmd st1;
                                ans := ans st1; pt_id := pt_id st1; az_bahn := fst b;
                                el_bahn := snd b; az_next := az_next st1; el_next := el_next st1 |}
                    end
               else match use_spline lim st1 sve with
                    | None => None
                    | Some st2 =>
                        let tb := skipn i (tbl st2) in
                        let n := Z.of_nat (length tb) in
                        Some (set_next
                          {| tbl := tb; tck := tck st2; start := start st2; lastc := lastc st2;
                             pt_state := 3; pt_len := n; pt_act := Z.of_nat i;
                             pt_end := Z.max (n - 1) 0; interp := interp st2; cnt := cnt st2;
                             cmd := cmd st2; ans := ans st2; pt_id := pt_id st2;
                             az_bahn := az_bahn st2; el_bahn := el_bahn st2;
                             az_next := az_next st2; el_next := el_next st2 |})
                    end
             else Some (set_next st1)) =
            (if zltq (p_t lp) x then Some (completed_state lim st (p_az lp) (p_el lp))
             else if s_fits sve then Some (running_state lim st sve x) else None)).
  { intros st1 E1 E2 E3 E4 E5 E6 E7 E8 E9 E10 E11 E12. rewrite E4. cbn [Z.eqb Pos.eqb].
    cbv zeta. rewrite E1.
    destruct (zltq (p_t lp) x) eqn:Ez.
    - rewrite (proj2 HB eq_refl), Nat.eqb_refl, E3, Hlc.
      unfold completed_state. cbv zeta. rewrite E2, E5, E6, E7, E8, E9, E10, E11, E12, ?Hlc. reflexivity.
    - destruct (bisect_left (tbl st) x =? length (tbl st))%nat eqn:Eb.
      + apply Nat.eqb_eq in Eb. apply HB in Eb. congruence.
      + unfold use_spline. rewrite E2, Htck. destruct (s_fits sve); [|reflexivity].
        unfold running_state, set_next, set_track. cbn. rewrite E1, E2, E3, E5, E6, E7, E8, E9, E10.
        reflexivity. }
  destruct HL as [H2|H3].
  - rewrite H2. cbn [Z.eqb Pos.eqb andb]. destruct (qneg x) eqn:En.
    + unfold use_spline0. rewrite Htck. unfold set_track, set_next, waiting_state. cbn.
      rewrite H2. reflexivity.
    + apply Hrun; reflexivity.
  - replace (pt_state st =? 2) with false by lia. cbn [andb]. apply Hrun; auto.
Qed.

Lemma advance_off lim sv0 sve st x : pt_state st = 0 -> advance lim sv0 sve st x = Some st.
Proof. intros H. unfold advance. rewrite H. reflexivity. Qed.

Lemma advance_done lim sv0 sve st x : inv st -> pt_state st = 4 ->
  advance lim sv0 sve st x = Some (set_next st) /\ tbl st = [].
Proof.
  intros [I1 [I2 [I3 [I4 [I5 I6]]]]] H.
  assert (Hs : start st <> None) by (apply I5; lia).
  assert (Ht : tbl st = []).
  { destruct (tbl st) eqn:E; [reflexivity|]. exfalso.
    assert (pt_state st = 2 \/ pt_state st = 3) by (apply I4; congruence). lia. }
  split; [|exact Ht]. unfold advance. rewrite H. cbn [Z.eqb Pos.eqb].
  destruct (start st); [|congruence]. rewrite H. reflexivity.
Qed.

(* a refresh raises only through the unclamped velocity/acceleration fields *)
Theorem advance_total lim sv0 sve st x : inv st -> s_fits sve = true ->
  exists st', advance lim sv0 sve st x = Some st'.
Proof.
  intros Hinv Hf. pose proof Hinv as [_ [_ [I3 _]]].
  destruct I3 as [H|[H|[H|H]]].
  - rewrite advance_off; eauto.
  - destruct (live_inv _ Hinv (or_introl H)) as (s&pre&lp&_&_&_&_&_&Hlp&_).
    rewrite (advance_live _ _ _ _ _ Hinv (or_introl H) _ Hlp), Hf.
    destruct ((pt_state st =? 2) && qneg x); [eauto|]. destruct (zltq (p_t lp) x); eauto.
  - destruct (live_inv _ Hinv (or_intror H)) as (s&pre&lp&_&_&_&_&_&Hlp&_).
    rewrite (advance_live _ _ _ _ _ Hinv (or_intror H) _ Hlp), Hf.
    destruct ((pt_state st =? 2) && qneg x); [eauto|]. destruct (zltq (p_t lp) x); eauto.
  - destruct (advance_done lim sv0 sve st x Hinv H) as [E _]. rewrite E. eauto.
Qed.

(* ------------------------------------------------------------------ the invariant is kept *)

Lemma inv_running lim st sve x lp : inv st -> live st -> last_opt (tbl st) = Some lp ->
  zltq (p_t lp) x = false -> inv (running_state lim st sve x).
Proof.
  intros Hinv HL Hlp Hz.
  destruct (live_inv _ Hinv HL) as (s&pre&lp'&Hs&Hne&Htck&Hsp&Hnn&Hlp'&Hlc&Hsp'&Hlen4).
  assert (lp' = lp) by congruence. subst lp'.
  pose proof (bisect_last _ _ x Hsp' Hlp) as HB. pose proof (bisect_le (tbl st) x) as Hle.
  assert (Hlt : (bisect_left (tbl st) x < length (tbl st))%nat).
  { destruct (Nat.eq_dec (bisect_left (tbl st) x) (length (tbl st))) as [E|E]; [|lia].
    apply HB in E. congruence. }
  set (i := bisect_left (tbl st) x) in *.
  assert (Hne' : skipn i (tbl st) <> []) by (apply skipn_lt_nonempty; exact Hlt).
  assert (Hsplit : tbl st = firstn i (tbl st) ++ skipn i (tbl st)) by (symmetry; apply firstn_skipn).
  unfold inv, running_state. fold i. cbn.
  split; [reflexivity|].
  split; [unfold times; rewrite <- skipn_map; apply equally_spaced_skipn; exact Hsp'|].
  split; [tauto|]. split; [split; [intros _; exact Hne'|tauto]|].
  split; [intros _; split; congruence|].
  intros _. exists (pre ++ firstn i (tbl st)), lp.
  rewrite <- app_assoc, <- Hsplit. repeat split; auto.
  rewrite Hsplit in Hlp. rewrite last_opt_app_ne in Hlp by exact Hne'. exact Hlp.
Qed.

Lemma inv_advance lim sv0 sve st x st' : inv st -> advance lim sv0 sve st x = Some st' -> inv st'.
Proof.
  intros Hinv E. pose proof Hinv as [I1 [I2 [I3 [I4 [I5 I6]]]]].
  destruct I3 as [H|[H|[H|H]]].
  - rewrite advance_off in E by exact H. injection E as <-. exact Hinv.
  - destruct (live_inv _ Hinv (or_introl H)) as (s&pre&lp&Hs&Hne&Htck&Hsp&Hnn&Hlp&Hlc&Hsp'&Hlen4).
    rewrite (advance_live _ _ _ _ _ Hinv (or_introl H) _ Hlp) in E.
    destruct ((pt_state st =? 2) && qneg x).
    { injection E as <-. unfold inv, waiting_state. cbn.
      repeat split; auto; try congruence; try tauto. }
    destruct (zltq (p_t lp) x) eqn:Ez.
    { injection E as <-. unfold inv, completed_state. cbn.
      repeat split; try tauto; try congruence; try lia.
      exists 1. split; [lia|apply ap_nil]. }
    destruct (s_fits sve); [|discriminate]. injection E as <-.
    eapply inv_running; eauto. left; exact H.
  - destruct (live_inv _ Hinv (or_intror H)) as (s&pre&lp&Hs&Hne&Htck&Hsp&Hnn&Hlp&Hlc&Hsp'&Hlen4).
    rewrite (advance_live _ _ _ _ _ Hinv (or_intror H) _ Hlp) in E.
    replace (pt_state st =? 2) with false in E by lia. cbn [andb] in E.
    destruct (zltq (p_t lp) x) eqn:Ez.
    { injection E as <-. unfold inv, completed_state. cbn.
      repeat split; try tauto; try congruence; try lia.
      exists 1. split; [lia|apply ap_nil]. }
    destruct (s_fits sve); [|discriminate]. injection E as <-.
    eapply inv_running; eauto. right; exact H.
  - destruct (advance_done lim sv0 sve st x Hinv H) as [E' Ht]. rewrite E' in E. injection E as <-.
    unfold inv, set_next. cbn. rewrite Ht in *. cbn. repeat split; auto; try tauto.
Qed.

(* a refresh never touches the splines, the start time, the last coordinates or the answer *)
Lemma advance_keeps lim sv0 sve st x st' : advance lim sv0 sve st x = Some st' ->
  tck st' = tck st /\ start st' = start st /\ lastc st' = lastc st /\
  cnt st' = cnt st /\ cmd st' = cmd st /\ ans st' = ans st /\ pt_id st' = pt_id st /\
  interp st' = interp st.
Proof.
  unfold advance, use_spline, use_spline0. intros E.
  destruct (pt_state st =? 0); [injection E as <-; repeat split|].
  destruct (start st) eqn:Es; [|discriminate].
  destruct (pt_state st =? 2); [destruct (qneg x)|].
  - destruct (tck st) eqn:Et; cbn in E.
    + destruct (pt_state st =? 3).
      * destruct (_ =? _)%nat.
        -- destruct (lastc st) as [[a e]|] eqn:El; [|discriminate]. injection E as <-. cbn. auto 10.
        -- rewrite Et in E. destruct (s_fits sve); [|discriminate]. injection E as <-. cbn. auto 10.
      * injection E as <-. cbn. auto 10.
    + destruct (pt_state st =? 3).
      * destruct (_ =? _)%nat.
        -- destruct (lastc st) as [[a e]|] eqn:El; [|discriminate]. injection E as <-. cbn. auto 10.
        -- rewrite Et in E. injection E as <-. cbn. auto 10.
      * injection E as <-. cbn. auto 10.
  - cbn in E. destruct (_ =? _)%nat.
    + destruct (lastc st) as [[a e]|] eqn:El; [|discriminate]. injection E as <-. cbn. auto 10.
    + destruct (tck st) eqn:Et.
      * destruct (s_fits sve); [|discriminate]. injection E as <-. cbn. auto 10.
      * injection E as <-. cbn. auto 10.
  - destruct (pt_state st =? 3).
    + destruct (_ =? _)%nat.
      * destruct (lastc st) as [[a e]|] eqn:El; [|discriminate]. injection E as <-. cbn. auto 10.
      * destruct (tck st) eqn:Et.
        -- destruct (s_fits sve); [|discriminate]. injection E as <-. cbn. auto 10.
        -- injection E as <-. cbn. auto 10.
    + injection E as <-. cbn. auto 10.
Qed.
