(* Lemmas about Model/AcmdAxis.v (agent Acmd, C14): the answer of a mode command, what a
   refused command leaves untouched, counter echo, and the real-number meaning of the parameter
   checks (through Flocq's Bcompare_correct). *)
From DS Require Import Base.Prelude Base.Bits Model.Utils Gen.AcmdTables.
From DS Require Import Model.AcmdFrame Model.AcmdAxis.
From Coq Require Import Reals Lra.
From Flocq Require Import Core IEEE754.BinarySingleNaN.

(* ------------------------------------------------------------------ floats *)

Definition finite (x : f64) : Prop := is_finite x = true.

Lemma f_of_Z_exact z : Z.abs z < 2 ^ 53 ->
  B2R (f_of_Z z) = IZR z /\ is_finite (f_of_Z z) = true.
Proof.
  intros Hz. unfold f_of_Z.
  pose proof (binary_normalize_correct 53 1024 _ _ mode_NE z 0 false) as H.
  cbv zeta in H.
  assert (Hx : F2R (Float radix2 z 0) = IZR z).
  { unfold F2R. simpl. lra. }
  rewrite Hx in H.
  assert (Hg : generic_format radix2 (SpecFloat.fexp 53 1024) (IZR z)).
  { apply generic_format_FLT.
    apply (FLT_spec radix2 (SpecFloat.emin 53 1024) 53 (IZR z) (Float radix2 z 0)).
    - now rewrite Hx.
    - simpl. exact Hz.
    - simpl. unfold SpecFloat.emin. lia. }
  rewrite round_generic in H; [|apply valid_rnd_N|exact Hg].
  rewrite Rlt_bool_true in H.
  - destruct H as (H1 & H2 & _). split; assumption.
  - rewrite <- abs_IZR. apply Rlt_le_trans with (IZR (2 ^ 53)).
    + apply IZR_lt. exact Hz.
    + change (2 ^ 53) with (Zpower radix2 53). rewrite IZR_Zpower by lia. apply bpow_le. lia.
Qed.

(* x <= y for a finite y: x is finite and below y, or x is -infinity; false for NaN *)
Lemma fle_fin_r (x y : f64) : is_finite y = true ->
  (fle x y = true <-> (is_finite x = true /\ (B2R x <= B2R y)%R) \/ x = B754_infinity true).
Proof.
  intros Hy. unfold fle.
  destruct (is_finite x) eqn:Hx.
  - rewrite (Bcompare_correct _ _ x y Hx Hy).
    destruct (Rcompare_spec (B2R x) (B2R y)) as [Hc|Hc|Hc]; split; intros H; try discriminate;
      try (left; split; [reflexivity|lra]); try reflexivity.
    destruct H as [[_ H]|H]; [lra|subst x; discriminate].
  - destruct x as [s|s| |s m e B]; try discriminate.
    + destruct y as [s'|s'| |s' m' e' B']; try discriminate; destruct s; cbn; split; intros H;
        try discriminate; try (right; reflexivity); try reflexivity;
        destruct H as [[H _]|H]; discriminate.
    + cbn. split; intros H; [discriminate|]. destruct H as [[H _]|H]; discriminate.
Qed.

Lemma fle_fin_l (x y : f64) : is_finite y = true ->
  (fle y x = true <-> (is_finite x = true /\ (B2R y <= B2R x)%R) \/ x = B754_infinity false).
Proof.
  intros Hy. unfold fle.
  destruct (is_finite x) eqn:Hx.
  - rewrite (Bcompare_correct _ _ y x Hy Hx).
    destruct (Rcompare_spec (B2R y) (B2R x)) as [Hc|Hc|Hc]; split; intros H; try discriminate;
      try (left; split; [reflexivity|lra]); try reflexivity.
    destruct H as [[_ H]|H]; [lra|subst x; discriminate].
  - destruct x as [s|s| |s m e B]; try discriminate.
    + destruct y as [s'|s'| |s' m' e' B']; try discriminate; destruct s; cbn; split; intros H;
        try discriminate; try (right; reflexivity); try reflexivity;
        destruct H as [[H _]|H]; discriminate.
    + destruct y as [s'|s'| |s' m' e' B']; try discriminate; cbn; split; intros H; try discriminate;
        destruct H as [[H _]|H]; discriminate.
Qed.

Lemma flt_fin_r (x y : f64) : is_finite y = true ->
  (flt x y = true <-> (is_finite x = true /\ (B2R x < B2R y)%R) \/ x = B754_infinity true).
Proof.
  intros Hy. unfold flt.
  destruct (is_finite x) eqn:Hx.
  - rewrite (Bcompare_correct _ _ x y Hx Hy).
    destruct (Rcompare_spec (B2R x) (B2R y)) as [Hc|Hc|Hc]; split; intros H; try discriminate;
      try (left; split; [reflexivity|lra]); try reflexivity;
      destruct H as [[_ H]|H]; try lra; subst x; discriminate.
  - destruct x as [s|s| |s m e B]; try discriminate.
    + destruct y as [s'|s'| |s' m' e' B']; try discriminate; destruct s; cbn; split; intros H;
        try discriminate; try (right; reflexivity); try reflexivity;
        destruct H as [[H _]|H]; discriminate.
    + cbn. split; intros H; [discriminate|]. destruct H as [[H _]|H]; discriminate.
Qed.

(* lo <= x <= hi with finite bounds: x finite and between them (both infinities and NaN fail) *)
Lemma between_spec (lo hi x : f64) : is_finite lo = true -> is_finite hi = true ->
  (fle lo x && fle x hi = true <-> finite x /\ (B2R lo <= B2R x <= B2R hi)%R).
Proof.
  intros Hlo Hhi. rewrite andb_true_iff, (fle_fin_l x lo Hlo), (fle_fin_r x hi Hhi). unfold finite.
  split.
  - intros [[[Hf H1]|H1] [[Hf2 H2]|H2]].
    + split; [assumption|lra].
    + subst x. discriminate Hf.
    + subst x. discriminate Hf2.
    + subst x. discriminate H2.
  - intros [Hf H]. split; left; split; try assumption; lra.
Qed.

(* abs(x) <= y with a finite bound *)
Lemma abs_le_spec (x y : f64) : is_finite y = true ->
  (fle (fabs x) y = true <-> finite x /\ (Rabs (B2R x) <= B2R y)%R).
Proof.
  intros Hy. unfold fabs, finite. rewrite (fle_fin_r (Babs x) y Hy), is_finite_Babs, B2R_Babs.
  split.
  - intros [H|H]; [exact H|]. destruct x; discriminate.
  - intros H. left. exact H.
Qed.

(* ------------------------------------------------------------------ the specification *)

(* configurations the theorems talk about: bounds exactly representable, finite rate limits *)
Record cfg_wf (cfg : acfg) : Prop := {
  wf_min : Z.abs (c_min cfg) < 2 ^ 53;
  wf_max : Z.abs (c_max cfg) < 2 ^ 53;
  wf_maxv : is_finite (c_maxv cfg) = true;
  wf_stowv : is_finite (fmul (of_bits stow_rate_factor_bits) (c_maxv cfg)) = true;
  wf_stowlen : Z.of_nat (length (c_stow cfg)) < 2 ^ 53
}.

Lemma cfg_AZ_wf : cfg_wf cfg_AZ.
Proof. split; try (vm_compute; reflexivity); cbn; unfold AZ_min_pos, AZ_max_pos; lia. Qed.
Lemma cfg_EL_wf : cfg_wf cfg_EL.
Proof. split; try (vm_compute; reflexivity); cbn; unfold EL_min_pos, EL_max_pos; lia. Qed.

(* the axis state permits the mode *)
Definition permitted (m : motion) (mode : Z) : Prop :=
  (mode = 2 -> axis_state m = 0) /\
  (In mode [3; 4; 5; 7; 8; 52] -> axis_state m = 3) /\
  (mode = 15 -> axis_state m = 0 \/ axis_state m = 1) /\
  (mode = 50 -> stowPosOk m = true).

(* the parameters are finite and inside the documented limits *)
Definition stow_rate (cfg : acfg) : f64 := fmul (of_bits stow_rate_factor_bits) (c_maxv cfg).

Definition in_limits (cfg : acfg) (m : motion) (mode : Z) (p1 p2 : f64) : Prop :=
  if mode =? 3 then
    (finite p1 /\ (IZR (c_min cfg) <= B2R p1 <= IZR (c_max cfg))%R) /\
    (finite p2 /\ (Rabs (B2R p2) <= B2R (c_maxv cfg))%R)
  else if mode =? 4 then
    (finite (rel_target m p1) /\ (IZR (c_min cfg) <= B2R (rel_target m p1) <= IZR (c_max cfg))%R) /\
    (finite p2 /\ (Rabs (B2R p2) <= B2R (c_maxv cfg))%R)
  else if mode =? 5 then
    (finite p1 /\ (Rabs (B2R p1) <= IZR slew_limit)%R) /\
    (finite p2 /\ (Rabs (B2R p2) <= B2R (c_maxv cfg))%R)
  else if mode =? 8 then finite p2 /\ (Rabs (B2R p2) <= B2R (c_maxv cfg))%R
  else if mode =? 52 then
    c_stow cfg <> [] ->
    ((finite p1 /\ (0 <= B2R p1)%R) /\ (finite p1 /\ (B2R p1 < IZR (Z.of_nat (length (c_stow cfg))))%R)) /\
    (finite p2 /\ (Rabs (B2R p2) <= B2R (stow_rate cfg))%R)
  else True.

Lemma state_permits_iff m mode : state_permits m mode = true <-> permitted m mode.
Proof.
  unfold state_permits, permitted, st_inactive, st_active.
  destruct (Z.eqb_spec mode 2) as [->|N2].
  { rewrite Z.eqb_eq. split; [intros H; repeat split; intros H'; try lia; cbn in H'; lia|intros [H _]; auto]. }
  destruct (zmem mode [3; 4; 5; 7; 8; 52]) eqn:Hm.
  { rewrite Z.eqb_eq. cbn in Hm.
    assert (Hin : In mode [3; 4; 5; 7; 8; 52]) by (cbn; lia).
    split; [intros H; repeat split; intros H'; try lia; cbn in Hin; lia|intros [_ [H _]]; auto]. }
  assert (Hnin : ~ In mode [3; 4; 5; 7; 8; 52]) by (cbn in Hm |- *; lia).
  destruct (Z.eqb_spec mode 15) as [->|N15].
  { cbn [zmem existsb]. split.
    - intros H. repeat split; intros H'; try lia; try contradiction.
    - intros [_ [_ [H _]]]. specialize (H eq_refl). lia. }
  destruct (Z.eqb_spec mode 50) as [->|N50].
  { split; [intros H; repeat split; intros H'; try lia; try contradiction; exact H|intros [_ [_ [_ H]]]; auto]. }
  split; [intros _; repeat split; intros H'; try lia; contradiction|reflexivity].
Qed.

Lemma f_of_Z_fin z : Z.abs z < 2 ^ 53 -> is_finite (f_of_Z z) = true.
Proof. intros H. apply f_of_Z_exact, H. Qed.

Lemma f_of_Z_R z : Z.abs z < 2 ^ 53 -> B2R (f_of_Z z) = IZR z.
Proof. intros H. apply f_of_Z_exact, H. Qed.

Lemma in_range_spec cfg x : cfg_wf cfg ->
  (in_range cfg x = true <-> finite x /\ (IZR (c_min cfg) <= B2R x <= IZR (c_max cfg))%R).
Proof.
  intros [H1 H2 _ _ _]. unfold in_range.
  rewrite between_spec by (apply f_of_Z_fin; assumption).
  rewrite !f_of_Z_R by assumption. reflexivity.
Qed.

Lemma rate_ok_spec cfg r : cfg_wf cfg ->
  (rate_ok cfg r = true <-> finite r /\ (Rabs (B2R r) <= B2R (c_maxv cfg))%R).
Proof. intros [_ _ H _ _]. unfold rate_ok. apply abs_le_spec, H. Qed.

Theorem params_ok_iff cfg m mode p1 p2 : cfg_wf cfg ->
  (params_ok cfg m mode p1 p2 = true <-> in_limits cfg m mode p1 p2).
Proof.
  intros Hc. unfold params_ok, in_limits.
  destruct (mode =? 3).
  { rewrite andb_true_iff, in_range_spec, rate_ok_spec by assumption. reflexivity. }
  destruct (mode =? 4).
  { rewrite andb_true_iff, in_range_spec, rate_ok_spec by assumption. reflexivity. }
  destruct (mode =? 5).
  { rewrite andb_true_iff, rate_ok_spec by assumption.
    assert (Hs : Z.abs slew_limit < 2 ^ 53) by (unfold slew_limit; lia).
    rewrite abs_le_spec by (apply f_of_Z_fin, Hs). rewrite f_of_Z_R by exact Hs. reflexivity. }
  destruct (mode =? 8).
  { apply rate_ok_spec, Hc. }
  destruct (mode =? 52); [|tauto].
  unfold has_stow. destruct (c_stow cfg) as [|s0 l] eqn:Hs.
  { split; [intros _ H; congruence|reflexivity]. }
  assert (Hl : Z.abs (Z.of_nat (length (s0 :: l))) < 2 ^ 53).
  { pose proof (wf_stowlen cfg Hc) as H. rewrite Hs in H. lia. }
  assert (H0 : Z.abs 0 < 2 ^ 53) by (cbn; lia).
  rewrite !andb_true_iff.
  rewrite (fle_fin_l p1 (f_of_Z 0)) by (apply f_of_Z_fin, H0).
  rewrite (flt_fin_r p1 (f_of_Z (Z.of_nat (length (s0 :: l))))) by (apply f_of_Z_fin, Hl).
  rewrite !f_of_Z_R by assumption.
  fold (stow_rate cfg). rewrite abs_le_spec by (apply (wf_stowv cfg Hc)).
  unfold finite. split.
  - intros [[[Ha|Ha] [Hb|Hb]] Hr] _.
    + split; [split; assumption|assumption].
    + subst p1. destruct Ha as [Ha _]. discriminate Ha.
    + subst p1. destruct Hb as [Hb _]. discriminate Hb.
    + subst p1. discriminate Hb.
  - intros H. destruct H as [[Ha Hb] Hr]; [congruence|]. repeat split; try (left; assumption); apply Hr.
Qed.

(* ------------------------------------------------------------------ _mode_command *)

(* the literal each handler writes into executed_mode_command *)
Definition hmode (h : mhandler) : Z :=
  match h with
  | H_ignore => 0 | H_inactive => 1 | H_active => 2 | H_preset_absolute => 3
  | H_preset_relative => 4 | H_slew => 5 | H_stop => 7 | H_program_track => 8
  | H_interlock => 14 | H_reset => 15 | H_stow => 50 | H_unstow => 51 | H_drive_to_stow => 52
  end.

Lemma mode_table_literals k h : zlookup k mode_commands = Some h -> hmode h = k.
Proof.
  unfold mode_commands. cbn [zlookup].
  repeat (match goal with |- context [k =? ?c] => destruct (Z.eqb_spec k c) as [->|?] end;
          [intros [= <-]; reflexivity|]).
  intros H; discriminate H.
Qed.

Ltac acmd_bm := repeat match goal with
  | |- context [match ?x with _ => _ end] => destruct x eqn:?
  end.

Definition answers_kept (ax ax' : axis) : Prop :=
  rx_counter ax' = rx_counter ax /\ rx_mode ax' = rx_mode ax /\ rx_answer ax' = rx_answer ax /\
  par_counter ax' = par_counter ax /\ par_id ax' = par_id ax /\ par_answer ax' = par_answer ax.

Lemma run_handler_answers cfg h ax cnt p1 p2 :
  let ax' := fst (run_handler cfg h ax cnt p1 p2) in
  answers_kept ax ax' /\
  ((ex_counter ax' = ex_counter ax /\ ex_mode ax' = ex_mode ax /\ ex_answer ax' = ex_answer ax) \/
   (ex_counter ax' = cnt /\ ex_mode ax' = hmode h /\ ex_answer ax' = 1)).
Proof.
  unfold answers_kept.
  destruct h; unfold run_handler, after_move, finish; acmd_bm;
    cbn [fst snd with_mo set_ex rx_counter rx_mode rx_answer ex_counter ex_mode ex_answer
         par_counter par_id par_answer hmode]; tauto.
Qed.

(* ---- decoding the fields of a 26-byte command *)

(* Reals re-exports Compare_dec.le_dec; here le_dec is the base-256 decoder of Base/Bits.v *)
Notation le_dec := DS.Base.Bits.le_dec (only parsing).

Lemma slice_length a b (l : list Z) : (a <= b)%nat -> (b <= length l)%nat ->
  length (slice a b l) = (b - a)%nat.
Proof. intros H1 H2. unfold slice. rewrite firstn_length, skipn_length. lia. Qed.

Lemma uint_le_some (l : list Z) : l <> [] -> uint_le l = Some (le_dec l).
Proof. destruct l; [congruence|reflexivity]. Qed.

Lemma uint_le_slice a b (l : list Z) : (a < b)%nat -> (b <= length l)%nat ->
  uint_le (slice a b l) = Some (le_dec (slice a b l)).
Proof.
  intros H1 H2. apply uint_le_some. intros E.
  pose proof (slice_length a b l) as H. rewrite E in H. cbn in H. lia.
Qed.

Lemma real_le_slice a (l : list Z) : (a + 8 <= length l)%nat ->
  real_le (slice a (a + 8) l) = Some (of_bits (le_dec (slice a (a + 8) l))).
Proof.
  intros H. unfold real_le. rewrite slice_length by lia.
  replace (a + 8 - a)%nat with 8%nat by lia. reflexivity.
Qed.

Definition mc_counter (cmd : list Z) : Z := le_dec (slice 4 8 cmd).
Definition mc_mode (cmd : list Z) : Z := int_le (slice 8 10 cmd).
Definition mc_p1 (cmd : list Z) : f64 := of_bits (le_dec (slice 10 18 cmd)).
Definition mc_p2 (cmd : list Z) : f64 := of_bits (le_dec (slice 18 26 cmd)).
Definition pc_id (cmd : list Z) : Z := le_dec (slice 8 10 cmd).

Definition ex_kept (ax ax' : axis) : Prop :=
  ex_counter ax' = ex_counter ax /\ ex_mode ax' = ex_mode ax /\ ex_answer ax' = ex_answer ax.
Definition par_kept (ax ax' : axis) : Prop :=
  par_counter ax' = par_counter ax /\ par_id ax' = par_id ax /\ par_answer ax' = par_answer ax.
Definition rx_kept (ax ax' : axis) : Prop :=
  rx_counter ax' = rx_counter ax /\ rx_mode ax' = rx_mode ax /\ rx_answer ax' = rx_answer ax.

Lemma mode_command_unfold cfg ax cmd : length cmd = 26%nat ->
  mode_command cfg ax cmd =
  match zlookup (mc_mode cmd) mode_commands with
  | None | Some H_ignore => (set_rx ax (mc_counter cmd) 0 0, TDone)
  | Some h =>
    let a := validate cfg (mo ax) (mc_mode cmd) (mc_p1 cmd) (mc_p2 cmd) in
    let ax1 := set_rx ax (mc_counter cmd) (mc_mode cmd) a in
    if a =? 9 then run_handler cfg h (set_ex ax1 (mc_counter cmd) (mc_mode cmd) 2) (mc_counter cmd)
                               (mc_p1 cmd) (mc_p2 cmd)
    else (ax1, TDone)
  end.
Proof.
  intros Hl. unfold mode_command.
  rewrite (uint_le_slice 4 8) by lia.
  rewrite (real_le_slice 10), (real_le_slice 18) by lia.
  reflexivity.
Qed.

(* an unknown mode (not in the table, or the explicit `_ignore`) is recorded as "no command" and
   nothing else changes *)
Theorem mode_command_unknown cfg ax cmd : length cmd = 26%nat ->
  (zlookup (mc_mode cmd) mode_commands = None \/ zlookup (mc_mode cmd) mode_commands = Some H_ignore) ->
  mode_command cfg ax cmd = (set_rx ax (mc_counter cmd) 0 0, TDone).
Proof. intros Hl H. rewrite mode_command_unfold by exact Hl. destruct H as [-> | ->]; reflexivity. Qed.

Theorem mode_command_known cfg ax cmd h : length cmd = 26%nat ->
  zlookup (mc_mode cmd) mode_commands = Some h -> h <> H_ignore ->
  let r := mode_command cfg ax cmd in
  let ax' := fst r in
  let a := validate cfg (mo ax) (mc_mode cmd) (mc_p1 cmd) (mc_p2 cmd) in
  rx_counter ax' = mc_counter cmd /\ rx_mode ax' = mc_mode cmd /\ rx_answer ax' = a /\
  par_kept ax ax' /\
  (a = 9 -> ex_counter ax' = mc_counter cmd /\ ex_mode ax' = mc_mode cmd /\
            (ex_answer ax' = 1 \/ ex_answer ax' = 2)) /\
  (a <> 9 -> mo ax' = mo ax /\ ex_kept ax ax' /\ snd r = TDone).
Proof.
  intros Hl Hh Hne. cbv zeta. rewrite mode_command_unfold by exact Hl. rewrite Hh.
  pose proof (mode_table_literals _ _ Hh) as Hm.
  set (a := validate cfg (mo ax) (mc_mode cmd) (mc_p1 cmd) (mc_p2 cmd)).
  assert (E : (let a0 := a in
               let ax1 := set_rx ax (mc_counter cmd) (mc_mode cmd) a0 in
               if a0 =? 9
               then run_handler cfg h (set_ex ax1 (mc_counter cmd) (mc_mode cmd) 2) (mc_counter cmd)
                                (mc_p1 cmd) (mc_p2 cmd)
               else (ax1, TDone)) =
              match h with H_ignore => (set_rx ax (mc_counter cmd) 0 0, TDone) | _ =>
               (let a0 := a in
               let ax1 := set_rx ax (mc_counter cmd) (mc_mode cmd) a0 in
               if a0 =? 9
               then run_handler cfg h (set_ex ax1 (mc_counter cmd) (mc_mode cmd) 2) (mc_counter cmd)
                                (mc_p1 cmd) (mc_p2 cmd)
               else (ax1, TDone)) end) by (destruct h; congruence).
  rewrite <- E. clear E. cbv zeta.
  destruct (Z.eqb_spec a 9) as [Ha|Ha].
  - pose proof (run_handler_answers cfg h
                  (set_ex (set_rx ax (mc_counter cmd) (mc_mode cmd) a) (mc_counter cmd) (mc_mode cmd) 2)
                  (mc_counter cmd) (mc_p1 cmd) (mc_p2 cmd)) as [Hk He].
    cbv zeta in Hk, He. unfold answers_kept in Hk. destruct Hk as (K1 & K2 & K3 & K4 & K5 & K6).
    cbn [set_ex set_rx rx_counter rx_mode rx_answer par_counter par_id par_answer
         ex_counter ex_mode ex_answer] in *.
    unfold par_kept. repeat split; try congruence; try (intros; lia);
      try (intros _; destruct He as [(E1 & E2 & E3)|(E1 & E2 & E3)]; congruence).
  - cbn [fst snd set_rx rx_counter rx_mode rx_answer par_counter par_id par_answer mo
         ex_counter ex_mode ex_answer]. unfold par_kept, ex_kept.
    cbn [set_rx rx_counter rx_mode rx_answer par_counter par_id par_answer mo
         ex_counter ex_mode ex_answer].
    repeat split; try reflexivity; intros; lia.
Qed.

(* ------------------------------------------------------------------ _parameter_command *)

Theorem parameter_command_spec ax cmd : length cmd = 26%nat ->
  let r := parameter_command ax cmd in
  let ax' := fst r in
  par_counter ax' = mc_counter cmd /\ rx_kept ax ax' /\ ex_kept ax ax' /\
  set_offset (mo ax') 0 = set_offset (mo ax) 0 /\
  (mo ax' <> mo ax ->
     snd r = TDone /\ par_answer ax' = 1 /\ axis_state (mo ax) = 3 /\ (pc_id cmd = 11 \/ pc_id cmd = 12)).
Proof.
  intros Hl. cbv zeta. unfold parameter_command, rx_kept, ex_kept.
  rewrite (uint_le_slice 4 8), (uint_le_slice 8 10) by lia.
  rewrite (real_le_slice 10), (real_le_slice 18) by lia.
  fold (mc_counter cmd) (pc_id cmd).
  cbn [set_par mo].
  destruct (axis_state (mo ax) =? 3) eqn:Hs; cbn [negb].
  2: { cbn [fst snd set_par with_mo mo rx_counter rx_mode rx_answer ex_counter ex_mode ex_answer par_counter par_id par_answer set_offset p_Offset]. repeat split; try reflexivity; try congruence. }
  apply Z.eqb_eq in Hs.
  destruct (Z.eqb_spec (pc_id cmd) 11) as [H11|H11].
  { unfold offset_command. acmd_bm;
      cbn [fst snd set_par with_mo mo rx_counter rx_mode rx_answer ex_counter ex_mode ex_answer
           par_counter par_id par_answer set_offset p_Offset];
      repeat split; try reflexivity; try congruence; try (left; assumption); auto. }
  destruct (Z.eqb_spec (pc_id cmd) 12) as [H12|H12].
  { unfold offset_command. acmd_bm;
      cbn [fst snd set_par with_mo mo rx_counter rx_mode rx_answer ex_counter ex_mode ex_answer
           par_counter par_id par_answer set_offset p_Offset];
      repeat split; try reflexivity; try congruence; try (right; assumption); auto. }
  cbn [fst snd set_par with_mo mo rx_counter rx_mode rx_answer ex_counter ex_mode ex_answer par_counter par_id par_answer set_offset p_Offset]. repeat split; try reflexivity; try congruence.
Qed.

(* ------------------------------------------------------------------ the answer *)

Lemma validate_cases cfg m mode p1 p2 :
  let a := validate cfg m mode p1 p2 in
  (a = 9 <-> state_permits m mode = true /\ params_ok cfg m mode p1 p2 = true) /\
  (a = 5 <-> params_ok cfg m mode p1 p2 = false) /\
  (a = 4 <-> params_ok cfg m mode p1 p2 = true /\ state_permits m mode = false).
Proof.
  unfold validate. destruct (params_ok cfg m mode p1 p2), (state_permits m mode);
    repeat split; intros; try lia; try discriminate; try reflexivity; try tauto;
    match goal with H : _ /\ _ |- _ => destruct H; discriminate end.
Qed.

(* The answer to a known mode command: 9 exactly when the axis state permits the mode and the
   parameters are finite and within the limits, 5 exactly when the parameters are not, 4 otherwise. *)
Theorem answer_spec cfg ax cmd h : cfg_wf cfg -> length cmd = 26%nat ->
  zlookup (mc_mode cmd) mode_commands = Some h -> h <> H_ignore ->
  let a := rx_answer (fst (mode_command cfg ax cmd)) in
  let ok := in_limits cfg (mo ax) (mc_mode cmd) (mc_p1 cmd) (mc_p2 cmd) in
  let perm := permitted (mo ax) (mc_mode cmd) in
  (a = 9 <-> perm /\ ok) /\ (a = 5 <-> ~ ok) /\ (a = 4 <-> ok /\ ~ perm).
Proof.
  intros Hc Hl Hh Hne. cbv zeta.
  destruct (mode_command_known cfg ax cmd h Hl Hh Hne) as (_ & _ & Ha & _). cbv zeta in Ha.
  rewrite Ha.
  destruct (validate_cases cfg (mo ax) (mc_mode cmd) (mc_p1 cmd) (mc_p2 cmd)) as (V9 & V5 & V4).
  cbv zeta in V9, V5, V4.
  pose proof (params_ok_iff cfg (mo ax) (mc_mode cmd) (mc_p1 cmd) (mc_p2 cmd) Hc) as Hp.
  pose proof (state_permits_iff (mo ax) (mc_mode cmd)) as Hs.
  rewrite V9, V5, V4.
  destruct (params_ok cfg (mo ax) (mc_mode cmd) (mc_p1 cmd) (mc_p2 cmd)),
           (state_permits (mo ax) (mc_mode cmd)); intuition discriminate.
Qed.

(* ------------------------------------------------------------------ whole messages *)

(* a byte that does not complete an accepted message leaves every subsystem untouched and starts
   no command thread: a rejected message is dropped whole *)
Theorem sys_step_dropped s b : snd (parse (s_fr s) b) = None ->
  let r := sys_step s b in
  let s' := fst (fst (fst r)) in
  s_az s' = s_az s /\ s_el s' = s_el s /\ s_ps s' = s_ps s /\ snd r = [] /\ snd (fst r) = None.
Proof.
  intros H. unfold sys_step. destruct (parse (s_fr s) b) as [[fr o] d]. cbn [snd] in H. subst d.
  cbn. auto.
Qed.

(* a completed message hands its commands, in order, to their subsystems *)
Theorem sys_step_executed s b ds : snd (parse (s_fr s) b) = Some ds ->
  let r := sys_step s b in
  fst (fst (fst r)) = fst (apply_all (with_fr s (fst (fst (parse (s_fr s) b)))) ds) /\
  snd r = snd (apply_all (with_fr s (fst (fst (parse (s_fr s) b)))) ds).
Proof.
  intros H. unfold sys_step. destruct (parse (s_fr s) b) as [[fr o] d]. cbn [snd fst] in *. subst d.
  destruct (apply_all (with_fr s fr) ds). cbn. auto.
Qed.
