(* Replies of every reachable state are made of bytes (C04): the framing never delivers more than 255
   parameter bytes, the boards keep the byte-ness invariant of Proofs/RcvBytes.v. *)
From DS Require Import Base.Prelude Base.Bits Gen.RcvTables Model.RcvModel Proofs.RcvAssoc Proofs.RcvProofs Proofs.RcvBoards Proofs.RcvFraming Proofs.RcvBytes.

#[local] Arguments mem : simpl never.

Lemma lxor_byte a b : byte a -> byte b -> byte (Z.lxor a b).
Proof.
  intros Ha Hb.
  assert (H : forallb (fun a => forallb (fun b => byteb (Z.lxor a b)) all_bytes) all_bytes = true)
    by (vm_compute; reflexivity).
  pose proof (byte_sweep _ H a Ha) as H1. cbn beta in H1.
  pose proof (byte_sweep _ H1 b Hb) as H2. apply byteb_spec. exact H2.
Qed.

Lemma xor_sum_byte l : bytes l -> byte (xor_sum l).
Proof.
  unfold xor_sum. assert (H : forall l acc, byte acc -> bytes l -> byte (fold_left Z.lxor l acc)).
  { induction l0 as [|x r IH]; intros acc Ha Hl; [assumption|]. inversion Hl; subst. cbn. apply IH; [|assumption].
    apply lxor_byte; assumption. }
  apply H. unfold byte. lia.
Qed.

(* ---- the framing delivers at most 255 parameter bytes ---- *)
Definition buf_inv2 (msg : list Z) : Prop :=
  buf_inv msg /\
  (6 <= zlen msg -> mem (nth 3 msg 0) CMD_ABBR_WITH_PARAMS = true -> 1 <= nth 5 msg 0 ->
   zlen msg < 6 + nth 5 msg 0).

Lemma buf_inv2_nil : buf_inv2 [].
Proof. split; [apply buf_inv_nil|]. rewrite zlen_nil. intros H. lia. Qed.

Lemma zlen_firstn_le {A} n (l : list A) : zlen (firstn n l) <= zlen l.
Proof. unfold zlen. rewrite firstn_length. lia. Qed.

Lemma with_params_abbr c : with_params c = true -> mem c CMD_EXT = false -> mem c CMD_ABBR_WITH_PARAMS = true.
Proof.
  unfold with_params. intros H He. apply mem_in in H. apply in_app_or in H as [H|H].
  - exfalso. assert (Hi : incl CMD_EXT_WITH_PARAMS CMD_EXT) by (intros x Hx; cbn in *; intuition).
    apply Hi in H. apply mem_in in H. congruence.
  - apply mem_in. assumption.
Qed.

Lemma decode_params m sa q : decode m = Some (sa, q) ->
  q_params q = if with_params (q_cmd q)
               then let p := skipn 6 m in if q_ext q then firstn (length p - 2) p else p
               else [].
Proof.
  unfold decode. destruct m as [|x0 [|x1 [|x2 [|x3 [|x4 rest]]]]]; try discriminate.
  destruct (nth_error _ _); [|discriminate]. intros H. injection H as <- <-. reflexivity.
Qed.

Lemma decode_cmd m sa q : decode m = Some (sa, q) -> q_cmd q = nth 3 m 0 /\ q_ext q = mem (nth 3 m 0) CMD_EXT.
Proof.
  unfold decode. destruct m as [|x0 [|x1 [|x2 [|x3 [|x4 rest]]]]]; try discriminate.
  destruct (nth_error _ _); [|discriminate]. intros H. injection H as <- <-. split; reflexivity.
Qed.

Lemma zlen_skipn6 x0 x1 x2 x3 x4 x5 (rest : list Z) :
  zlen (skipn 6 (x0 :: x1 :: x2 :: x3 :: x4 :: x5 :: rest)) = zlen (x0 :: x1 :: x2 :: x3 :: x4 :: x5 :: rest) - 6.
Proof. cbn [skipn]. rewrite !zlen_cons. lia. Qed.

Lemma frame_step_inv2 msg b :
  buf_inv2 msg -> byte b ->
  match frame_step msg b with
  | FReject => True
  | FMore m => buf_inv2 m
  | FDone m => m = msg ++ [b] /\ forall sa q, decode m = Some (sa, q) -> zlen (q_params q) <= 255
  end.
Proof.
  intros [Hi H3] Hb. destruct (frame_step msg b) as [|m|m] eqn:E; [exact I| |].
  - destruct (frame_step_more msg b m Hi Hb E) as [-> Hi']. split; [assumption|].
    intros H6 Hc Hl.
    destruct msg as [|x0 [|x1 [|x2 [|x3 [|x4 [|x5 rest]]]]]];
      try (unfold zlen in H6; cbn [length app] in H6; lia).
    + (* length 5 -> 6 *) cbn [app nth] in *. unfold zlen. cbn [length]. lia.
    + (* >= 6 *)
      set (msg := x0 :: x1 :: x2 :: x3 :: x4 :: x5 :: rest) in *.
      assert (Hn3 : nth 3 (msg ++ [b]) 0 = x3) by reflexivity.
      assert (Hn5 : nth 5 (msg ++ [b]) 0 = x5) by reflexivity.
      rewrite Hn3 in Hc. rewrite Hn5 in Hl |- *.
      assert (H6' : 6 <= zlen msg) by (unfold msg; rewrite !zlen_cons; pose proof (zlen_nonneg rest); lia).
      specialize (H3 H6' Hc Hl). change (nth 5 msg 0) with x5 in H3. rewrite zlen_app. change (zlen [b]) with 1.
      destruct (Z.eq_dec (zlen msg + 1) (6 + x5)) as [Heq|]; [|lia]. exfalso.
      unfold frame_step in E. unfold msg in E. cbn [length] in E. fold msg in E.
      rewrite Hn3, Hn5, Hc in E. rewrite zlen_app in E. change (zlen [b]) with 1 in E.
      destruct (_ && _) in E; [discriminate|].
      destruct (Z.eqb_spec (zlen msg + 1) (6 + x5)); [discriminate|contradiction].
  - assert (Hm : m = msg ++ [b]).
    { unfold frame_step in E. destruct (length msg) as [|[|[|[|[|[|n]]]]]]; try discriminate;
        repeat match type of E with (if ?c then _ else _) = _ => destruct c end;
        try discriminate; injection E as <-; reflexivity. }
    split; [exact Hm|]. intros sa q Hd. rewrite (decode_params _ _ _ Hd). destruct (decode_cmd _ _ _ Hd) as [Hcmd Hext].
    destruct (with_params (q_cmd q)) eqn:Ew; [|rewrite zlen_nil; lia]. cbv zeta.
    destruct Hi as [Hby Hlen].
    destruct msg as [|x0 [|x1 [|x2 [|x3 [|x4 [|x5 rest]]]]]]; subst m;
      try (cbn [app skipn]; destruct (q_ext q); cbn; unfold zlen; cbn; lia).
    set (msg := x0 :: x1 :: x2 :: x3 :: x4 :: x5 :: rest) in *.
    assert (Hn3 : nth 3 (msg ++ [b]) 0 = x3) by reflexivity.
    assert (H6' : 6 <= zlen msg) by (unfold msg; rewrite !zlen_cons; pose proof (zlen_nonneg rest); lia).
    specialize (Hlen H6'). change (nth 5 msg 0) with x5 in Hlen.
    assert (Hx5 : byte x5).
    { unfold bytes in Hby. rewrite Forall_forall in Hby. apply Hby. unfold msg. cbn. tauto. }
    unfold byte in Hx5.
    assert (Hsk : zlen (skipn 6 (msg ++ [b])) = zlen msg + 1 - 6).
    { unfold msg. cbn [app skipn]. rewrite !zlen_cons, zlen_app. change (zlen [b]) with 1. lia. }
    unfold frame_step in E. unfold msg in E. cbn [length] in E. fold msg in E.
    change (nth 3 (msg ++ [b]) 0) with x3 in *. change (nth 5 (msg ++ [b]) 0) with x5 in E.
    rewrite zlen_app in E. change (zlen [b]) with 1 in E.
    assert (Hfirst : forall k, zlen (firstn k (skipn 6 (msg ++ [b]))) <= zlen msg + 1 - 6)
      by (intros k; rewrite <- Hsk; apply zlen_firstn_le).
    destruct ((zlen msg + 1 =? 7) && mem x3 CMD_EXT_NO_PARAMS) eqn:E1.
    + apply andb_true_iff in E1 as [E1 _]. apply Z.eqb_eq in E1.
      destruct (q_ext q); [specialize (Hfirst (length (skipn 6 (msg ++ [b])) - 2)%nat)|]; lia.
    + destruct (Z.eqb_spec (zlen msg + 1) (6 + x5)) as [E2|E2].
      * destruct (q_ext q); [specialize (Hfirst (length (skipn 6 (msg ++ [b])) - 2)%nat)|]; lia.
      * destruct (Z.eqb_spec (zlen msg + 1) (8 + x5)) as [E3|E3]; [|discriminate].
        destruct (q_ext q) eqn:Eq.
        -- (* extended: the last two bytes are stripped *)
           assert (Hl2 : zlen (firstn (length (skipn 6 (msg ++ [b])) - 2) (skipn 6 (msg ++ [b]))) = x5); [|lia].
           unfold zlen in *. rewrite firstn_length. lia.
        -- (* abbreviated reaching 8 + l: only with l = 0 *)
           rewrite Hcmd in Ew. pose proof (with_params_abbr _ Ew (eq_sym Hext)) as Ha.
           change (nth 3 msg 0) with x3 in H3. change (nth 5 msg 0) with x5 in H3. destruct (Z_lt_dec x5 1); [lia|]. specialize (H3 H6' Ha ltac:(lia)). lia.
Qed.

Lemma bytes_firstn n (l : list Z) : bytes l -> bytes (firstn n l).
Proof.
  intros H. apply Forall_forall. intros x Hx. apply firstn_In_local in Hx.
  unfold bytes in H. rewrite Forall_forall in H. auto.
Qed.
Lemma bytes_skipn n (l : list Z) : bytes l -> bytes (skipn n l).
Proof.
  revert l. induction n as [|n IH]; intros [|x l] H; cbn; try assumption. inversion H; subst. apply IH. assumption.
Qed.

Section S.
  Variable clk : nat -> Z.
  Variable mkdate : list Z -> option Z.
  Variable render : Z -> option (list Z).
  Hypothesis Hrender : render_ok render.
  Notation exec := (exec clk mkdate render).
  Notation exec_req := (exec_req clk mkdate render).
  Notation run_targets := (run_targets clk mkdate render).
  Notation handle := (handle clk mkdate render).
  Notation parse := (parse clk mkdate render).
  Notation run := (run clk mkdate render).

  Definition req_ok (q : req) : Prop :=
    byte (q_master q) /\ byte (q_cmd q) /\ byte (q_cid q) /\ bytes (q_params q) /\ zlen (q_params q) <= 255.
  Definition sl_ok (sl : slaves) : Prop := Forall (fun kb => byte (fst kb) /\ board_ok (snd kb)) sl.

  Lemma exec_req_ok q keys b t : req_ok q -> board_ok b ->
    let r := exec_req q keys b t in
    board_ok (r_board r) /\ (forall tail, r_tail r = Some tail -> bytes tail) /\
    (forall a', r_moved r = Some (Some a') -> byte a').
  Proof.
    intros (Hm & Hc & Hi & Hp & Hl) Hb. pose proof consts_byte as (A1 & A2 & A3 & _).
    unfold RcvModel.exec_req. destruct (negb _).
    { cbn. split; [assumption|]. split; [|discriminate]. intros tail H; injection H as <-. constructor; [assumption|constructor]. }
    destruct (q_chk q).
    { cbn. split; [assumption|]. split; [|discriminate]. intros tail H; injection H as <-. constructor; [assumption|constructor]. }
    destruct (classify (q_cmd q)) as [k|].
    2:{ cbn. split; [assumption|]. split; [|discriminate]. intros tail H; injection H as <-. constructor. }
    destruct (exec_ok clk mkdate render Hrender keys b t k (q_ext q) (q_cid q) (q_params q) Hb Hp Hl Hi) as [Hbo Hans].
    destruct (e_ans _) as [[code extra]|] eqn:Ee; cbn [r_board r_tail r_moved].
    - split; [assumption|]. split.
      + intros tail H; injection H as <-. eapply Hans; reflexivity.
      + intros a'. destruct k; try discriminate. destruct (code =? CMD_ACK); [|discriminate].
        destruct (q_params q) as [|a [|? ?]]; try discriminate. intros H; injection H as <-.
        inversion Hp; assumption.
    - split; [assumption|]. split; discriminate.
  Qed.

  Lemma frame_bytes q a tail tr : req_ok q -> byte a -> bytes tail -> bytes (frame q a tail tr).
  Proof.
    intros (Hm & Hc & Hi & _) Ha Ht. pose proof consts_byte as (_ & _ & _ & _ & _ & _ & S1 & S2).
    assert (Hb : bytes ([CMD_STX; q_master q; a; q_cmd q; q_cid q] ++ tail)).
    { apply Forall_app. split; [|assumption]. repeat (constructor; [assumption|]). constructor. }
    unfold frame. destruct tr; [|assumption]. apply Forall_app. split; [assumption|].
    constructor; [apply xor_sum_byte; assumption|]. constructor; [assumption|constructor].
  Qed.

  Lemma run_targets_ok q : req_ok q -> forall targets sl t acc sl' t' res,
    sl_ok sl -> bytes acc -> run_targets q targets sl t acc = (sl', t', res) ->
    sl_ok sl' /\ forall total, res = Some total -> bytes total.
  Proof.
    intros Hq. induction targets as [|a rest IH]; intros sl t acc sl' t' res Hs Hacc Hr; cbn in Hr.
    - injection Hr as <- <- <-. split; [assumption|]. intros total H; injection H as <-. assumption.
    - destruct (aget Z.eqb sl a) as [b|] eqn:Hb; [|eapply IH; eauto].
      assert (Hab : byte a /\ board_ok b).
      { apply aget_some_In in Hb. unfold sl_ok in Hs. rewrite Forall_forall in Hs. apply (Hs _ Hb). }
      destruct Hab as [Ha Hbo].
      destruct (exec_req_ok q (keys_of sl) b t Hq Hbo) as (H1 & H2 & H3).
      set (r := exec_req q (keys_of sl) b t) in *.
      assert (Hs1 : sl_ok (aset Z.eqb sl a (r_board r))) by (apply forall_aset; [assumption|split; assumption]).
      destruct (r_tail r) as [tail|] eqn:Et.
      + assert (Hacc' : bytes (acc ++ frame q a tail (r_trailer r))).
        { apply Forall_app. split; [assumption|]. apply frame_bytes; auto. }
        destruct (r_moved r) as [[a'|]|] eqn:Em.
        * eapply IH; [|exact Hacc'|exact Hr]. apply forall_aset; [apply forall_adel; assumption|].
          split; [apply H3; reflexivity|assumption].
        * injection Hr as <- <- <-. split; [assumption|discriminate].
        * eapply IH; [|exact Hacc'|exact Hr]. assumption.
      + injection Hr as <- <- <-. split; [assumption|discriminate].
  Qed.

  Lemma decode_ok m sa q : bytes m -> decode m = Some (sa, q) ->
    byte sa /\ byte (q_master q) /\ byte (q_cmd q) /\ byte (q_cid q) /\ bytes (q_params q).
  Proof.
    intros Hb Hd. pose proof (decode_params _ _ _ Hd) as Hp.
    unfold decode in Hd. destruct m as [|x0 [|x1 [|x2 [|x3 [|x4 rest]]]]]; try discriminate.
    destruct (nth_error _ _); [|discriminate]. injection Hd as <- <-. cbn [q_master q_cmd q_cid q_params] in *.
    assert (Hsk : bytes (skipn 6 (x0 :: x1 :: x2 :: x3 :: x4 :: rest))) by (apply bytes_skipn; assumption).
    inversion Hb as [|? ? _ Hb1]; subst. inversion Hb1 as [|? ? B1 Hb2]; subst. inversion Hb2 as [|? ? B2 Hb3]; subst.
    inversion Hb3 as [|? ? B3 Hb4]; subst. inversion Hb4 as [|? ? B4 _]; subst.
    repeat (split; [assumption|]).
    destruct (with_params x3); [|constructor]. destruct (mem x3 CMD_EXT); [apply bytes_firstn|]; assumption.
  Qed.

  Lemma handle_ok sl t m sl' t' o :
    sl_ok sl -> bytes m -> (forall sa q, decode m = Some (sa, q) -> zlen (q_params q) <= 255) ->
    handle sl t m = (sl', t', o) -> sl_ok sl' /\ forall r, o = OReply r -> bytes r.
  Proof.
    intros Hs Hb Hl. unfold RcvModel.handle. destruct (decode m) as [[sa q]|] eqn:Hd.
    - destruct (decode_ok _ _ _ Hb Hd) as (H0 & H1 & H2 & H3 & H4).
      assert (Hq : req_ok q) by (unfold req_ok; repeat (split; [assumption|]); eapply Hl; eauto).
      destruct (run_targets q (targets_of sa sl) sl t []) as [[sl2 t2] res] eqn:Er.
      destruct (run_targets_ok q Hq _ _ _ _ _ _ _ Hs (Forall_nil _) Er) as [Hs2 Hres].
      destruct res as [total|]; intros H; injection H as <- <- <-; (split; [assumption|]).
      + intros r. destruct (_ && _); [|discriminate]. intros H; injection H as <-. apply Hres. reflexivity.
      + discriminate.
    - intros H; injection H as <- <- <-. split; [assumption|discriminate].
  Qed.

  Definition sys_ok (s : sys) : Prop := sl_ok (s_slaves s) /\ buf_inv2 (s_msg s).
  Definition out_bytes (o : outcome) : Prop := match o with OReply r => bytes r | _ => True end.

  Lemma parse_ok s b s' o : sys_ok s -> byte b -> parse s b = (s', o) -> sys_ok s' /\ out_bytes o.
  Proof.
    intros [Hs Hi] Hb. unfold RcvModel.parse. pose proof (frame_step_inv2 (s_msg s) b Hi Hb) as Hf.
    destruct (frame_step (s_msg s) b) as [|m|m].
    - intros H; injection H as <- <-. split; [split; [assumption|apply buf_inv2_nil]|exact I].
    - intros H; injection H as <- <-. split; [split; assumption|exact I].
    - destruct Hf as [Hm Hl]. destruct (handle (s_slaves s) (s_tick s) m) as [[sl t] o'] eqn:Eh.
      assert (Hbm : bytes m).
      { subst m. apply bytes_snoc; [|assumption]. destruct Hi as [[Hby _] _]. assumption. }
      destruct (handle_ok _ _ _ _ _ _ Hs Hbm Hl Eh) as [Hs' Ho].
      intros H; injection H as <- <-. split; [split; [assumption|apply buf_inv2_nil]|].
      destruct o'; cbn; auto.
  Qed.

  Lemma run_ok : forall bs s s' os, sys_ok s -> bytes bs -> run s bs = (s', os) ->
    sys_ok s' /\ Forall out_bytes os.
  Proof.
    induction bs as [|b r IH]; intros s s' os Hs Hb; cbn.
    - intros H; injection H as <- <-. split; [assumption|constructor].
    - inversion Hb as [|? ? Hb1 Hbr]; subst. destruct (parse s b) as [s1 o] eqn:Ep.
      destruct (parse_ok _ _ _ _ Hs Hb1 Ep) as [Hs1 Ho].
      destruct (run s1 r) as [s2 os2] eqn:Er. destruct (IH _ _ _ Hs1 Hbr Er) as [Hs2 Hos].
      intros H; injection H as <- <-. split; [assumption|constructor; assumption].
  Qed.

  Lemma init_ok tag feeds addrs : bytes addrs -> sys_ok (init_sys tag feeds addrs).
  Proof.
    intros Ha. split; [|apply buf_inv2_nil]. unfold init_sys, sl_ok. cbn [s_slaves].
    apply Forall_forall. intros [a b] Hin. apply in_map_iff in Hin as (a0 & Heq & Hin0). injection Heq as <- <-.
    unfold bytes in Ha. rewrite Forall_forall in Ha. specialize (Ha _ Hin0). cbn [fst snd]. split; [assumption|].
    unfold init_board, board_ok. cbn [b_com b_kind]. split.
    - unfold common_ok, init_common. cbn. repeat (split; [first [assumption|unfold byte; lia]|]). constructor.
    - unfold init_kind. destruct (tag =? 1); [|destruct (tag =? 2); [|destruct (tag =? 3)]]; cbn; try exact I;
        unfold dio_ok, sw_ok, init_dio, init_sw, byte; cbn; lia.
  Qed.

  (* every reply of every state reachable from a System built at byte addresses is made of bytes *)
  Theorem replies_are_bytes tag feeds addrs bs s os :
    bytes addrs -> bytes bs -> run (init_sys tag feeds addrs) bs = (s, os) -> Forall out_bytes os.
  Proof. intros Ha Hb Hr. exact (proj2 (run_ok bs _ s os (init_ok tag feeds addrs Ha) Hb Hr)). Qed.
End S.
