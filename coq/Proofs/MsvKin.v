(* Minor-servo PLC (tag Msv): kinematic theorems over the REAL-number instance of the model
   (ideal arithmetic; the binary64 rounding of the same operations is the stated assumption).
   From the initial state, under any history with a non-decreasing clock:
     - commanded and actual coordinates of every servo stay inside the axis limits;
     - one refresh moves an axis by at most max_delta * dt, towards its target;
     - an axis within max_delta * dt of its target arrives, and the mode becomes the future mode. *)
From DS Require Import Base.Prelude Model.MsvTypes Model.MsvModel Proofs.MsvProofs.
From Coq Require Import Reals Lra.

Local Open Scope R_scope.

Definition r_lt (a b : R) : bool := if Rlt_dec a b then true else false.
Definition r_eqb (a b : R) : bool := if Req_EM_T a b then true else false.
Definition r_sign (x : R) : R := if Rlt_dec 0 x then 1 else if Rlt_dec x 0 then -1 else 0.
Definition rops : numops R :=
  Build_numops R Rplus Rminus Rmult r_lt r_eqb Rabs r_sign (fun _ => true) 0 IZR.

Lemma r_lt_false a b : r_lt a b = false -> b <= a.
Proof. unfold r_lt. destruct (Rlt_dec a b); [discriminate|lra]. Qed.
Lemma r_lt_true a b : r_lt a b = true -> a < b.
Proof. unfold r_lt. destruct (Rlt_dec a b); [auto|discriminate]. Qed.

(* ---- one axis ---------------------------------------------------------------------------------- *)
Lemma move1_real m dt c t : 0 <= m * dt ->
  let c' := move1 rops m dt c t in
  Rabs (c' - c) <= m * dt /\
  (Rmin c t <= c' <= Rmax c t) /\
  (Rabs (t - c) <= m * dt -> c' = t).
Proof.
  intros Hlim. unfold move1. cbn [nsub nsign nabs nmul nlt nadd rops].
  unfold r_sign, r_lt, Rmin, Rmax.
  destruct (Rlt_dec 0 (t - c)) as [Hp|Hp].
  - rewrite (Rabs_pos_eq (t - c)) by lra.
    destruct (Rlt_dec (t - c) (m * dt)); destruct (Rle_dec c t); try lra;
      (split; [rewrite Rabs_pos_eq; lra|]); (split; [lra|]); intros; lra.
  - destruct (Rlt_dec (t - c) 0) as [Hn|Hn].
    + rewrite (Rabs_left (t - c)) by lra.
      destruct (Rlt_dec (- (t - c)) (m * dt)); destruct (Rle_dec c t); try lra;
        (split; [rewrite Rabs_left1; lra|]); (split; [lra|]); intros; lra.
    + assert (t = c) by lra. subst t.
      replace (c - c) with 0 by lra. rewrite Rabs_R0.
      destruct (Rlt_dec 0 (m * dt)); destruct (Rle_dec c c); try lra;
        replace (c + 0 * 0 - c) with 0 by lra; replace (c + 0 * (m * dt) - c) with 0 by lra;
        rewrite ?Rabs_R0; (split; [lra|]); (split; [lra|]); intros; lra.
Qed.

Lemma clamp_real lo hi c : lo <= hi -> lo <= clamp rops lo hi c <= hi.
Proof.
  intros H. unfold clamp. cbn [nlt rops]. unfold r_lt.
  destruct (Rlt_dec c lo); destruct (Rlt_dec hi _); lra.
Qed.

(* ---- lists of axes ------------------------------------------------------------------------------ *)
Fixpoint within (los his vs : list R) : Prop :=
  match los, his, vs with
  | lo :: l', hi :: h', v :: v' => lo <= v <= hi /\ within l' h' v'
  | [], [], [] => True
  | _, _, _ => False
  end.

Lemma within_length los his vs : within los his vs -> length los = length vs /\ length his = length vs.
Proof.
  revert his vs; induction los as [|lo l IH]; intros [|hi h] [|v vs]; cbn; try tauto.
  intros [_ H]. apply IH in H. lia.
Qed.

Lemma within_nth los his vs : within los his vs ->
  forall k lo hi v, nth_error los k = Some lo -> nth_error his k = Some hi -> nth_error vs k = Some v ->
  lo <= v <= hi.
Proof.
  revert his vs; induction los as [|lo0 l IH]; intros [|hi0 h] [|v0 vs]; cbn; try tauto.
  - intros _ [|k]; discriminate.
  - intros [H0 H] [|k] lo hi v; cbn.
    + intros E1 E2 E3. injection E1 as <-. injection E2 as <-. injection E3 as <-. exact H0.
    + apply IH. exact H.
Qed.

Lemma within_of_nth : forall los his vs, length los = length vs -> length his = length vs ->
  (forall k lo hi v, nth_error los k = Some lo -> nth_error his k = Some hi -> nth_error vs k = Some v ->
                     lo <= v <= hi) -> within los his vs.
Proof.
  induction los as [|lo0 l IH]; intros [|hi0 h] [|v0 vs]; cbn; intros H1 H2 H; try lia; auto.
  split.
  - apply (H 0%nat); reflexivity.
  - apply IH; [lia|lia|]. intros k. apply (H (S k)).
Qed.

Lemma within_order los his vs : within los his vs -> within los his los -> True.
Proof. auto. Qed.

(* the motion step of all axes keeps them inside the limits when the targets are inside *)
Lemma move_all_within : forall los his ms cs ts dt,
  0 <= dt -> Forall (fun m => 0 <= m) ms -> length ms = length cs ->
  within los his cs -> within los his ts -> within los his (move_all rops dt ms cs ts).
Proof.
  induction los as [|lo l IH]; intros [|hi h] ms [|c cs] [|t ts] dt Hdt Hm Hlen Hc Ht;
    cbn [within length] in *; try tauto.
  - destruct ms; cbn; auto.
  - destruct ms as [|m ms]; [discriminate|]. cbn [move_all within]. inversion Hm as [|? ? Hm0 Hm']; subst.
    destruct Hc as [Hc0 Hc], Ht as [Ht0 Ht].
    assert (Hl : 0 <= m * dt) by (apply Rmult_le_pos; assumption).
    destruct (move1_real m dt c t Hl) as (_ & Hb & _).
    split.
    + unfold Rmin, Rmax in Hb. destruct (Rle_dec c t); lra.
    + apply IH; auto.
Qed.

Lemma clamp_all_within : forall los his cs, within los his los -> length cs = length los ->
  within los his (clamp_all rops los his cs).
Proof.
  induction los as [|lo l IH]; intros [|hi h] [|c cs]; cbn; try tauto; try discriminate.
  intros [H0 H] Hlen. split; [apply clamp_real; lra|]. apply IH; [exact H|lia].
Qed.

Lemma move_all_speed : forall ms cs ts dt, 0 <= dt -> Forall (fun m => 0 <= m) ms ->
  forall k m c c', nth_error ms k = Some m -> nth_error cs k = Some c ->
    nth_error (move_all rops dt ms cs ts) k = Some c' -> Rabs (c' - c) <= m * dt.
Proof.
  induction ms as [|m0 ms IH]; intros [|c0 cs] [|t0 ts] dt Hdt Hm [|k] m c c'; cbn; try discriminate.
  - intros E1 E2 E3. injection E1 as <-. injection E2 as <-. injection E3 as <-.
    inversion Hm; subst. apply move1_real. apply Rmult_le_pos; assumption.
  - inversion Hm; subst. apply IH; assumption.
Qed.

Lemma list_eq_refl_R l : list_eq rops l l = true.
Proof.
  induction l as [|x l IH]; [reflexivity|]. cbn. unfold r_eqb. destruct (Req_EM_T x x); [exact IH|lra].
Qed.

Lemma list_eq_true_R a b : list_eq rops a b = true -> a = b.
Proof.
  revert b; induction a as [|x a IH]; intros [|y b]; cbn; try discriminate; auto.
  unfold r_eqb. destruct (Req_EM_T x y); [|discriminate]. intros H. f_equal; auto.
Qed.

Lemma move_all_arrives : forall ms cs ts dt, 0 <= dt -> Forall (fun m => 0 <= m) ms ->
  length ms = length cs -> length ts = length cs ->
  (forall k m c t, nth_error ms k = Some m -> nth_error cs k = Some c -> nth_error ts k = Some t ->
                   Rabs (t - c) <= m * dt) ->
  move_all rops dt ms cs ts = ts.
Proof.
  induction ms as [|m0 ms IH]; intros [|c0 cs] [|t0 ts] dt Hdt Hm H1 H2 H; cbn in *; try discriminate; auto.
  inversion Hm; subst. f_equal.
  - apply move1_real; [apply Rmult_le_pos; assumption|]. apply (H 0%nat); reflexivity.
  - apply IH; auto. intros k. apply (H (S k)).
Qed.

(* ---- servo invariant ------------------------------------------------------------------------------ *)
Definition wf_sconf (sc : sconf R) : Prop :=
  length (sc_delta sc) = sc_dof sc /\ Forall (fun m => 0 <= m) (sc_delta sc) /\
  within (sc_min sc) (sc_max sc) (sc_min sc) /\           (* lengths agree and min <= max *)
  within (sc_min sc) (sc_max sc) (repeat 0 (sc_dof sc)).  (* the initial position is inside *)

Definition sv_inv (now : R) (sc : sconf R) (sv : servo R) : Prop :=
  within (sc_min sc) (sc_max sc) (sv_coords sv) /\ within (sc_min sc) (sc_max sc) (sv_cmd sv) /\
  sv_last sv <= now.

Lemma wf_lengths sc : wf_sconf sc ->
  length (sc_min sc) = sc_dof sc /\ length (sc_max sc) = sc_dof sc.
Proof.
  intros (_ & _ & _ & H). apply within_length in H. rewrite repeat_length in H. tauto.
Qed.

Lemma get_status_inv sc e sv now : wf_sconf sc -> sv_inv now sc sv -> now <= e_now e ->
  sv_inv (e_now e) sc (get_status rops sc e sv).
Proof.
  intros Hwf (Hc & Hcmd & Hlast) Hnow. pose proof (wf_lengths sc Hwf) as [Hlmin Hlmax].
  destruct Hwf as (Hld & Hpos & Hmm & _).
  assert (Hdt : 0 <= e_now e - sv_last sv) by lra.
  pose proof (within_length _ _ _ Hc) as [Hlc _].
  unfold get_status. cbn [nsub rops].
  destruct (sv_mode sv =? 50)%Z.
  - destruct (tk_pt (sv_trk sv)); [|repeat split; cbn; auto; lra].
    destruct (tk_times (sv_trk sv)) as [|first rest]; [repeat split; cbn; auto; lra|].
    destruct (nge rops (e_now e) first && (length (e_spl e) =? sc_dof sc)%nat && negb (sc_dof sc =? 0)%nat) eqn:Hg.
    + apply andb_true_iff in Hg as [Hg _]. apply andb_true_iff in Hg as [_ Hg]. apply Nat.eqb_eq in Hg.
      assert (Hw : within (sc_min sc) (sc_max sc)
                     (move_all rops (e_now e - sv_last sv) (sc_delta sc) (sv_coords sv)
                               (clamp_all rops (sc_min sc) (sc_max sc) (e_spl e)))).
      { apply move_all_within; auto; [lia|]. apply clamp_all_within; [exact Hmm|lia]. }
      repeat split; cbn; auto; try lra. destruct (sv_alias sv); auto.
    + repeat split; cbn; auto; lra.
  - destruct ((sv_mode sv =? 20)%Z || (sv_mode sv =? 30)%Z).
    + repeat split; cbn; auto; lra.
    + destruct (negb (list_eq rops (sv_coords sv) (sv_cmd sv)) || negb (sv_future sv =? 0)%Z).
      * assert (Hw : within (sc_min sc) (sc_max sc)
                       (move_all rops (e_now e - sv_last sv) (sc_delta sc) (sv_coords sv) (sv_cmd sv))).
        { apply move_all_within; auto. lia. }
        destruct (list_eq rops _ (sv_cmd sv)); repeat split; cbn; auto; lra.
      * repeat split; cbn; auto; lra.
Qed.

Lemma sv_inv_same now sc (sv sv' : servo R) :
  sv_coords sv' = sv_coords sv -> sv_cmd sv' = sv_cmd sv -> sv_last sv' = sv_last sv ->
  sv_inv now sc sv -> sv_inv now sc sv'.
Proof. unfold sv_inv. intros -> -> ->. auto. Qed.

Lemma sv_inv_mono now now' sc sv : sv_inv now sc sv -> now <= now' -> sv_inv now' sc sv.
Proof. intros (H1 & H2 & H3) H. repeat split; auto. lra. Qed.

(* the accepted values of set_coords are inside the limits *)
Lemma accepted_real sc j v lo hi : accepted_on rops sc j v ->
  nth_error (sc_min sc) j = Some lo -> nth_error (sc_max sc) j = Some hi -> lo <= v <= hi.
Proof.
  intros (_ & lo' & hi' & H1 & H2 & H3 & H4) E1 E2. rewrite H1 in E1. rewrite H2 in E2.
  injection E1 as <-. injection E2 as <-. cbn in H3, H4. apply r_lt_false in H3, H4. lra.
Qed.

Lemma sc_loop_within ap sc cmd offs vals l :
  sc_loop rops ap sc cmd offs 0 vals = SOk l ->
  within (sc_min sc) (sc_max sc) cmd -> length vals = length cmd ->
  within (sc_min sc) (sc_max sc) l.
Proof.
  intros H Hc Hlen. apply (sc_loop_ok rops) in H as [Hll Hk].
  pose proof (within_length _ _ _ Hc) as [L1 L2].
  apply within_of_nth; [lia|lia|].
  intros k lo hi v E1 E2 E3. specialize (Hk k). cbn [Nat.add] in Hk.
  destruct (nth_error vals k) as [[x|]|] eqn:Ev.
  - destruct Hk as (v' & _ & Hn & Hacc). rewrite Hn in E3. injection E3 as <-.
    eapply accepted_real; eauto.
  - destruct Hk as [Hn _]. rewrite Hn in E3. eapply within_nth; eauto.
  - apply nth_error_None in Ev. assert (k < length l)%nat by (apply nth_error_Some; congruence). lia.
Qed.

(* ---- list plumbing ---------------------------------------------------------------------------------- *)
Lemma Forall2_upd {A B} (P : A -> B -> Prop) l1 l2 i a x :
  Forall2 P l1 l2 -> nth_error l1 i = Some a -> P a x -> Forall2 P l1 (upd i x l2).
Proof.
  intros H; revert i. induction H as [|a0 b0 l1 l2 H0 H IH]; intros [|i] E Hp; cbn in *; try discriminate.
  - injection E as <-. constructor; assumption.
  - constructor; auto.
Qed.

Lemma Forall2_nth {A B} (P : A -> B -> Prop) l1 l2 i a b :
  Forall2 P l1 l2 -> nth_error l1 i = Some a -> nth_error l2 i = Some b -> P a b.
Proof.
  intros H; revert i. induction H as [|a0 b0 l1 l2 H0 H IH]; intros [|i] E1 E2; cbn in *; try discriminate.
  - injection E1 as <-. injection E2 as <-. exact H0.
  - eauto.
Qed.

Lemma Forall2_impl {A B} (P Q : A -> B -> Prop) l1 l2 :
  (forall a b, P a b -> Q a b) -> Forall2 P l1 l2 -> Forall2 Q l1 l2.
Proof. intros H F. induction F; constructor; auto. Qed.

Lemma find_servo_nth {T} sid : forall (l : list (sconf T)) k i sc,
  find_servo sid k l = Some (i, sc) -> (k <= i)%nat /\ nth_error l (i - k) = Some sc.
Proof.
  induction l as [|sc0 l IH]; intros k i sc H; [discriminate|].
  cbn in H. destruct (zlist_eqb sid (sc_name sc0)).
  - injection H as <- <-. rewrite Nat.sub_diag. auto.
  - apply IH in H as [H1 H2]. split; [lia|]. replace (i - k)%nat with (S (i - S k)) by lia. exact H2.
Qed.

Lemma find_servo_nth0 {T} sid (l : list (sconf T)) i sc :
  find_servo sid 0 l = Some (i, sc) -> nth_error l i = Some sc.
Proof. intros H. apply find_servo_nth in H as [_ H]. rewrite Nat.sub_0_r in H. exact H. Qed.

Lemma fire_servos_inv now tick : forall scs svs,
  Forall2 (sv_inv now) scs svs -> Forall2 (sv_inv now) scs (map (fire_servo tick) svs).
Proof.
  intros scs svs H. induction H as [|sc sv scs svs H0 H IH]; cbn; constructor; auto.
  unfold fire_servo. destruct (sv_timer sv) as [[t m]|]; [|exact H0].
  destruct (t <=? tick)%Z; [|exact H0]. destruct H0 as (A & B & C). repeat split; assumption.
Qed.

Lemma refresh_all_inv now e : now <= e_now e -> forall scs svs spls,
  Forall wf_sconf scs -> Forall2 (sv_inv now) scs svs ->
  Forall2 (sv_inv (e_now e)) scs (fst (refresh_all rops e scs svs spls)).
Proof.
  intros Hn scs svs spls Hwf H. revert spls.
  induction H as [|sc sv scs svs H0 H IH]; intros spls; cbn [refresh_all]; [constructor|].
  inversion Hwf as [|? ? Hsc Hscs]; subst.
  assert (Hg : sv_inv (e_now e) sc (get_status rops sc (mk_env (e_tick e) (e_now e) [] (hd [] spls) false) sv)).
  { apply (get_status_inv sc (mk_env (e_tick e) (e_now e) [] (hd [] spls) false) sv now); auto. }
  destruct (gs_raises sv).
  - cbn [fst]. constructor; [exact Hg|]. eapply Forall2_impl; [|exact H]. intros a b Hab. eapply sv_inv_mono; eauto.
  - specialize (IH Hscs (tl spls)). destruct (refresh_all rops e scs svs (tl spls)) as [r x]. cbn [fst] in *.
    constructor; assumption.
Qed.

Lemma init_servos_inv : forall scs, Forall wf_sconf scs ->
  Forall2 (sv_inv 0) scs (map (init_servo rops) scs).
Proof.
  intros scs H. induction H as [|sc l Hsc Hl IH]; cbn; constructor; auto.
  destruct Hsc as (_ & _ & _ & H0). unfold init_servo, sv_inv. cbn. repeat split; auto. lra.
Qed.

(* ---- system invariant ----------------------------------------------------------------------------------- *)
Section Kin.
Variable orc : oracles R.
Variable cf : cfg R.
Hypothesis wf : Forall wf_sconf (c_servos cf).

Definition sys_inv (now : R) (s : sys R) : Prop :=
  Forall2 (sv_inv now) (c_servos cf) (s_servos s).

Lemma wf_nth i sc : nth_error (c_servos cf) i = Some sc -> wf_sconf sc.
Proof. intros H. eapply Forall_forall in wf; [exact wf|]. eapply nth_error_In; eauto. Qed.

Lemma init_inv : sys_inv 0 (init_sys rops cf).
Proof. unfold sys_inv, init_sys. cbn [s_servos]. apply init_servos_inv. exact wf. Qed.

Lemma sys_inv_mono now now' s : sys_inv now s -> now <= now' -> sys_inv now' s.
Proof. intros H Hn. eapply Forall2_impl; [|exact H]. intros a b Hab. eapply sv_inv_mono; eauto. Qed.

Lemma set_servo_inv now s i sc sv' : sys_inv now s -> nth_error (c_servos cf) i = Some sc ->
  sv_inv now sc sv' -> sys_inv now (set_servo s i sv').
Proof. intros H E Hp. unfold sys_inv, set_servo. cbn. eapply Forall2_upd; eauto. Qed.

Lemma fire_inv now tick s : sys_inv now s -> sys_inv now (fire tick s).
Proof.
  intros H. unfold sys_inv, fire.
  pose proof (fire_servos_inv now tick _ _ H) as Hm.
  destruct (s_cover s) as [[t p]|]; [destruct (t <=? tick)%Z|]; exact Hm.
Qed.

Lemma refresh_inv now e spls s : sys_inv now s -> now <= e_now e -> sys_inv (e_now e) (fst (refresh rops cf e spls s)).
Proof.
  intros H Hn. unfold sys_inv, refresh in *.
  pose proof (refresh_all_inv now e Hn (c_servos cf) (s_servos s) spls wf H) as G.
  destruct (refresh_all rops e (c_servos cf) (s_servos s) spls) as [r x]. exact G.
Qed.

(* table rows have one cell per axis (checked on the generated table) *)
Definition rows_dof (scs : list (sconf R)) (rows : list (list (option R))) : Prop :=
  Forall2 (fun sc row => length row = sc_dof sc) scs rows.
Hypothesis wf_table : Forall (fun r => rows_dof (c_servos cf) (tr_rows r)) (c_table cf).

Lemma sv_inv_lengths now sc sv : wf_sconf sc -> sv_inv now sc sv ->
  length (sv_coords sv) = sc_dof sc /\ length (sv_cmd sv) = sc_dof sc.
Proof.
  intros Hwf (H1 & H2 & _). apply wf_lengths in Hwf as [L1 L2].
  apply within_length in H1, H2. lia.
Qed.

(* handlers: the state they return satisfies the invariant at the time of the command *)
Lemma setup_loop_inv now : forall scs rows svs svs',
  Forall wf_sconf scs -> rows_dof scs rows -> Forall2 (sv_inv now) scs svs ->
  setup_loop rops scs rows svs = Some svs' -> Forall2 (sv_inv now) scs svs'.
Proof.
  induction scs as [|sc scs IH]; intros rows svs svs' Hwf Hrows H E.
  - cbn in E. injection E as <-. exact H.
  - inversion H as [|? sv ? svs0 H0 Hr]; subst. inversion Hwf as [|? ? Hsc Hscs]; subst.
    inversion Hrows as [|? row ? rows0 Hrow Hrows']; subst.
    cbn [setup_loop] in E.
    destruct (set_coords rops sc (cancel_set_mode sv 0) row 10 false) as [sv1 [r|]] eqn:Es; [|discriminate].
    destruct (setup_loop rops scs rows0 svs0) as [tl|] eqn:Et; [|discriminate].
    cbn in E. injection E as <-. constructor; [|eapply IH; eauto].
    pose proof (sv_inv_lengths now sc sv Hsc H0) as [_ Lcmd].
    destruct H0 as (Hc & Hcmd & Hl).
    unfold set_coords in Es. cbn [cancel_set_mode sv_cmd sv_offs] in Es.
    destruct (sc_loop rops false sc (sv_cmd sv) (sv_offs sv) 0 row) as [l| |] eqn:El;
      injection Es as <- _; repeat split; cbn; auto.
    eapply sc_loop_within; eauto. lia.
Qed.

Lemma find_row_in {T} name : forall (l : list (trow T)) r, find_row name l = Some r -> In r l.
Proof.
  induction l as [|r0 l IH]; intros r H; [discriminate|]. cbn in H.
  destruct (zlist_eqb name (tr_name r0)); [injection H as <-; left; reflexivity|right; auto].
Qed.

Lemma sys_inv_servos now s s' : s_servos s' = s_servos s -> sys_inv now s -> sys_inv now s'.
Proof. unfold sys_inv. intros ->. auto. Qed.

Lemma floats_length : forall toks xs, floats orc toks = Some xs -> length xs = length toks.
Proof.
  induction toks as [|t toks IH]; intros xs H; cbn in H.
  - injection H as <-. reflexivity.
  - destruct (pyfloat orc t); [|discriminate]. destruct (floats orc toks) as [l|]; [|discriminate].
    cbn in H. injection H as <-. cbn. f_equal. auto.
Qed.

Ltac inv_same := match goal with
  | H : (_, _) = (_, _) |- _ => injection H as <- _; try assumption
  end.

Lemma h_status_inv s e args s' r : sys_inv (e_now e) s ->
  h_status rops orc cf s e args = (s', r) -> sys_inv (e_now e) s'.
Proof.
  intros Hs. unfold h_status, bad. destruct args as [|sid [|b l]]; intros H; try inv_same.
  destruct (find_servo sid 0 (c_servos cf)) as [[i sc]|] eqn:Hf; try inv_same.
  destruct (nth_error (s_servos s) i) as [sv|] eqn:Hsv; try inv_same.
  apply find_servo_nth0 in Hf.
  assert (Hg : sys_inv (e_now e) (set_servo s i (get_status rops sc e sv))).
  { eapply set_servo_inv; eauto.
    eapply get_status_inv with (now := e_now e); [eapply wf_nth; eauto| |lra].
    eapply Forall2_nth; eauto. }
  destruct (gs_raises sv); injection H as <- _; exact Hg.
Qed.

Lemma h_setup_inv s e args s' r : sys_inv (e_now e) s ->
  h_setup rops cf s e args = (s', r) -> sys_inv (e_now e) s'.
Proof.
  intros Hs. unfold h_setup, bad. destruct args as [|name [|b l]]; intros H; try inv_same.
  destruct (find_row name (c_table cf)) as [row|] eqn:Hr; try inv_same.
  destruct (setup_loop rops (c_servos cf) (tr_rows row) (s_servos s)) as [svs|] eqn:El; try inv_same.
  unfold sys_inv. cbn. eapply setup_loop_inv; eauto.
  apply find_row_in in Hr. eapply Forall_forall in wf_table; eauto.
Qed.

Lemma h_stop_inv s e args s' r : sys_inv (e_now e) s ->
  h_stop cf s e args = (s', r) -> sys_inv (e_now e) s'.
Proof.
  intros Hs. unfold h_stop, bad. destruct args as [|sid [|b l]]; intros H; try inv_same.
  destruct (find_servo sid 0 (c_servos cf)) as [[i sc]|] eqn:Hf; try inv_same.
  destruct (nth_error (s_servos s) i) as [sv|] eqn:Hsv; try inv_same.
  apply find_servo_nth0 in Hf. eapply sys_inv_servos with (s := set_servo s i (cancel_set_mode sv 30));
    [reflexivity|].
  eapply set_servo_inv; eauto. eapply sv_inv_same with (sv := sv); [reflexivity|reflexivity|reflexivity|]. eapply Forall2_nth; eauto.
Qed.

Lemma h_stow_inv s e args s' r : sys_inv (e_now e) s ->
  h_stow orc cf s e args = (s', r) -> sys_inv (e_now e) s'.
Proof.
  intros Hs. unfold h_stow, bad. destruct args as [|sid [|pos [|c l]]]; intros H; try inv_same.
  destruct (find_servo sid 0 (c_servos cf)) as [[i sc]|] eqn:Hf.
  - destruct (pyint orc pos) as [p|]; [|destruct (zlist_eqb sid gcap_name); inv_same].
    destruct (zlist_eqb sid gcap_name); try inv_same.
    destruct (nth_error (s_servos s) i) as [sv|] eqn:Hsv; try inv_same.
    apply find_servo_nth0 in Hf.
    match goal with |- sys_inv _ (set_last (set_servo s i ?x) _) =>
      eapply sys_inv_servos with (s := set_servo s i x); [reflexivity|] end.
    eapply set_servo_inv; eauto. eapply sv_inv_same with (sv := sv); [reflexivity|reflexivity|reflexivity|]. eapply Forall2_nth; eauto.
  - destruct (zlist_eqb sid gcap_name); try inv_same.
    destruct (pyint orc pos) as [p|]; try inv_same.
    destruct ((p <? 0)%Z || (4 <? p)%Z); try inv_same.
    destruct (s_gcap s =? p)%Z; try inv_same.
    destruct ((s_gcap s <=? 1)%Z || (p =? 1)%Z); inv_same.
Qed.

Lemma h_preset_inv s e args s' r : sys_inv (e_now e) s ->
  h_preset rops orc cf s e args = (s', r) -> sys_inv (e_now e) s'.
Proof.
  intros Hs. destruct args as [|sid [|t0 toks]]; try (cbn; unfold bad; intros H; inv_same).
  destruct (find_servo sid 0 (c_servos cf)) as [[i sc]|] eqn:Hf;
    [|cbn; rewrite Hf; unfold bad; intros H; inv_same].
  destruct (length (t0 :: toks) =? sc_dof sc)%nat eqn:Hlen;
    [|unfold h_preset; rewrite Hf, Hlen; cbn [negb]; unfold bad; intros H; inv_same].
  destruct (floats orc (t0 :: toks)) as [xs|] eqn:Hfl;
    [|unfold h_preset; rewrite Hf, Hlen; cbn [negb]; rewrite Hfl; unfold bad; intros H; inv_same].
  destruct (nth_error (s_servos s) i) as [sv|] eqn:Hsv;
    [|unfold h_preset; rewrite Hf, Hlen; cbn [negb]; rewrite Hfl, Hsv; intros H; inv_same].
  apply Nat.eqb_eq in Hlen.
  rewrite (h_preset_cases rops orc cf s e sid (t0 :: toks) i sc xs sv); auto; [|discriminate].
  apply find_servo_nth0 in Hf. pose proof (Forall2_nth _ _ _ _ _ _ Hs Hf Hsv) as Hsvi.
  pose proof (sv_inv_lengths _ _ _ (wf_nth _ _ Hf) Hsvi) as [_ Lcmd].
  destruct (sc_loop rops true sc (sv_cmd sv) (sv_offs sv) 0 (map Some xs)) as [l| |] eqn:El;
    intros H; try inv_same.
  eapply sys_inv_servos with (s := set_servo s i (preset_servo sv l)); [reflexivity|].
  eapply set_servo_inv; eauto. destruct Hsvi as (Hc & Hcmd & Hl).
  repeat split; cbn; auto. eapply sc_loop_within; eauto.
  rewrite map_length. rewrite (floats_length _ _ Hfl). lia.
Qed.

Lemma h_offset_inv s e args s' r : sys_inv (e_now e) s ->
  h_offset orc cf s e args = (s', r) -> sys_inv (e_now e) s'.
Proof.
  intros Hs. unfold h_offset, bad. destruct args as [|sid [|t0 toks]]; intros H; try inv_same.
  destruct (find_servo sid 0 (c_servos cf)) as [[i sc]|] eqn:Hf; try inv_same.
  destruct (negb _); try inv_same.
  destruct (floats orc (t0 :: toks)) as [xs|]; try inv_same.
  destruct (nth_error (s_servos s) i) as [sv|] eqn:Hsv; try inv_same.
  destruct (set_offsets (sv_offs sv) xs) as [offs'|]; try inv_same.
  apply find_servo_nth0 in Hf.
  match goal with |- sys_inv _ (set_last (set_servo s i ?x) _) =>
    eapply sys_inv_servos with (s := set_servo s i x); [reflexivity|] end.
  eapply set_servo_inv; eauto. eapply sv_inv_same with (sv := sv); [reflexivity|reflexivity|reflexivity|]. eapply Forall2_nth; eauto.
Qed.

Lemma h_programtrack_inv s e args s' r : sys_inv (e_now e) s ->
  h_programtrack rops orc cf s e args = (s', r) -> sys_inv (e_now e) s'.
Proof.
  intros Hs. unfold h_programtrack, bad. destruct args as [|sid rest]; intros H; try inv_same.
  destruct (find_servo sid 0 (c_servos cf)) as [[i sc]|] eqn:Hf; try inv_same.
  destruct (negb (sc_pt sc)); try inv_same.
  destruct (negb _); try inv_same.
  destruct rest as [|tid [|pid [|st toks]]]; try inv_same.
  destruct (nth_error (s_servos s) i) as [sv|] eqn:Hsv; try inv_same.
  destruct (pyint orc tid); [|inv_same]. destruct (pyint orc pid); [|inv_same].
  destruct (pt_coords rops orc toks (sv_offs sv)) as [[l|]|]; try inv_same.
  apply find_servo_nth0 in Hf.
  assert (Hk : forall m tk, sys_inv (e_now e) (set_servo s i (set_trk sv m tk))).
  { intros m tk. eapply set_servo_inv; eauto.
    eapply sv_inv_same with (sv := sv); [reflexivity|reflexivity|reflexivity|]. eapply Forall2_nth; eauto. }
  destruct (pt_book rops orc cf e (sv_trk sv) z z0 st) as [tk|tk|tk]; injection H as <- _; apply Hk.
Qed.

Lemma dispatch_inv h f s e args s' r : sys_inv (e_now e) s ->
  dispatch rops orc cf h = Some f -> f s e args = (s', r) -> sys_inv (e_now e) s'.
Proof.
  intros Hs Hd Hf. unfold dispatch in Hd.
  repeat match type of Hd with (if ?c then _ else _) = _ => destruct c end; try discriminate;
    injection Hd as <-;
    eauto using h_status_inv, h_setup_inv, h_stow_inv, h_stop_inv, h_preset_inv, h_offset_inv,
                h_programtrack_inv.
Qed.

Lemma execute_inv s e msg : sys_inv (e_now e) s -> sys_inv (e_now e) (fst (execute rops orc cf s e msg)).
Proof.
  intros Hs. unfold execute. destruct (tokens msg) as [|c args]; [exact Hs|].
  destruct (assoc c (c_commands cf)) as [h|]; [|exact Hs].
  destruct (dispatch rops orc cf h) as [f|] eqn:Hd; [|exact Hs].
  destruct (f s e args) as [s1 r] eqn:Hf.
  assert (sys_inv (e_now e) s1) by (eapply dispatch_inv; eauto).
  destruct r; assumption.
Qed.

Lemma parse_inv s e b : sys_inv (e_now e) s -> sys_inv (e_now e) (fst (parse rops orc cf s e b)).
Proof.
  intros Hs. unfold parse. destruct (ends_crlf (s_msg s ++ [b])).
  - apply execute_inv. exact Hs.
  - exact Hs.
Qed.

(* the clock never goes backwards *)
Fixpoint mono (now : R) (evs : list (event R)) : Prop :=
  match evs with
  | [] => True
  | EvEnv e :: r => now <= e_now e /\ mono (e_now e) r
  | _ :: r => mono now r
  end.

Definition winv (w : world R) : Prop := sys_inv (e_now (fst w)) (snd w).

Lemma step_inv w ev : winv w ->
  match ev with EvEnv e => e_now (fst w) <= e_now e | _ => True end ->
  winv (fst (step rops orc cf w ev)).
Proof.
  intros Hw Hm. destruct w as [e0 s]. unfold winv in *. cbn [fst snd] in *. destruct ev as [e|b|spls]; cbn [step fst snd].
  - apply fire_inv. eapply sys_inv_mono; eauto.
  - pose proof (parse_inv s e0 b Hw) as H. destruct (parse rops orc cf s e0 b). exact H.
  - apply refresh_inv with (now := e_now e0); [exact Hw|lra].
Qed.

Lemma run_inv : forall evs w, winv w -> mono (e_now (fst w)) evs -> winv (fst (run rops orc cf w evs)).
Proof.
  induction evs as [|ev evs IH]; intros w Hw Hm; [exact Hw|].
  cbn [run]. destruct (step rops orc cf w ev) as [w1 o] eqn:Es.
  assert (H1 : winv w1).
  { replace w1 with (fst (step rops orc cf w ev)) by (rewrite Es; reflexivity).
    apply step_inv; [exact Hw|]. destruct ev; cbn in Hm; tauto. }
  assert (Hm1 : mono (e_now (fst w1)) evs).
  { destruct w as [e0 s]. destruct ev as [e|b|spls]; cbn in Es, Hm.
    - injection Es as <- _. cbn. tauto.
    - destruct (parse rops orc cf s e0 b). injection Es as <- _. exact Hm.
    - injection Es as <- _. exact Hm. }
  specialize (IH w1 H1 Hm1). destruct (run rops orc cf w1 evs). exact IH.
Qed.

(* From the initial state, whatever the history, all coordinates are inside the limits *)
Theorem limits_always e0 evs : e_now e0 = 0 -> mono 0 evs ->
  let w := fst (run rops orc cf (e0, init_sys rops cf) evs) in
  forall j sc sv, nth_error (c_servos cf) j = Some sc -> nth_error (s_servos (snd w)) j = Some sv ->
    within (sc_min sc) (sc_max sc) (sv_coords sv) /\ within (sc_min sc) (sc_max sc) (sv_cmd sv).
Proof.
  intros H0 Hm w j sc sv Hsc Hsv.
  assert (Hw : winv w).
  { apply run_inv; unfold winv; cbn [fst snd]; rewrite H0; [apply init_inv|exact Hm]. }
  unfold winv, sys_inv in Hw. pose proof (Forall2_nth _ _ _ _ _ _ Hw Hsc Hsv) as (H1 & H2 & _). auto.
Qed.

End Kin.

(* ---- one refresh: speed bound and arrival ------------------------------------------------------------- *)
Lemma get_status_speed sc e sv : wf_sconf sc -> sv_last sv <= e_now e ->
  forall k m c c', nth_error (sc_delta sc) k = Some m -> nth_error (sv_coords sv) k = Some c ->
    nth_error (sv_coords (get_status rops sc e sv)) k = Some c' ->
    Rabs (c' - c) <= m * (e_now e - sv_last sv).
Proof.
  intros (_ & Hpos & _ & _) Hdt k m c c' Em Ec Ec'.
  assert (Hz : Rabs (c - c) <= m * (e_now e - sv_last sv)).
  { replace (c - c) with 0 by lra. rewrite Rabs_R0. apply Rmult_le_pos; [|lra].
    eapply Forall_forall in Hpos; [exact Hpos|]. eapply nth_error_In; eauto. }
  unfold get_status in Ec'. cbn [nsub rops] in Ec'.
  destruct (sv_mode sv =? 50)%Z.
  - destruct (tk_pt (sv_trk sv)); [|cbn in Ec'; rewrite Ec in Ec'; injection Ec' as <-; exact Hz].
    destruct (tk_times (sv_trk sv)) as [|first rest]; [cbn in Ec'; rewrite Ec in Ec'; injection Ec' as <-; exact Hz|].
    destruct (nge rops (e_now e) first && (length (e_spl e) =? sc_dof sc)%nat && negb (sc_dof sc =? 0)%nat);
      cbn in Ec'.
    + eapply move_all_speed; eauto. lra.
    + rewrite Ec in Ec'. injection Ec' as <-. exact Hz.
  - destruct (_ || _); cbn in Ec'.
    + rewrite Ec in Ec'. injection Ec' as <-. exact Hz.
    + destruct (negb _ || negb _); [destruct (list_eq rops _ _)|]; cbn in Ec';
        try (eapply move_all_speed; eauto; lra).
      rewrite Ec in Ec'. injection Ec' as <-. exact Hz.
Qed.

Lemma get_status_arrival sc e sv : wf_sconf sc -> sv_last sv <= e_now e ->
  sv_mode sv <> 50%Z -> sv_mode sv <> 20%Z -> sv_mode sv <> 30%Z -> sv_future sv <> 0%Z ->
  length (sv_coords sv) = sc_dof sc -> length (sv_cmd sv) = sc_dof sc ->
  (forall k m c t, nth_error (sc_delta sc) k = Some m -> nth_error (sv_coords sv) k = Some c ->
     nth_error (sv_cmd sv) k = Some t -> Rabs (t - c) <= m * (e_now e - sv_last sv)) ->
  let sv' := get_status rops sc e sv in
  sv_coords sv' = sv_cmd sv /\ sv_mode sv' = sv_future sv /\ sv_future sv' = 0%Z.
Proof.
  intros (Hld & Hpos & _ & _) Hdt H50 H20 H30 Hf L1 L2 Hclose.
  unfold get_status. cbn [nsub rops].
  destruct (sv_mode sv =? 50)%Z eqn:E50; [apply Z.eqb_eq in E50; congruence|].
  destruct (sv_mode sv =? 20)%Z eqn:E20; [apply Z.eqb_eq in E20; congruence|].
  destruct (sv_mode sv =? 30)%Z eqn:E30; [apply Z.eqb_eq in E30; congruence|].
  destruct (sv_future sv =? 0)%Z eqn:E0; [apply Z.eqb_eq in E0; congruence|].
  cbn [orb negb]. rewrite orb_true_r.
  rewrite (move_all_arrives (sc_delta sc) (sv_coords sv) (sv_cmd sv)); auto; try lra; try lia.
  rewrite list_eq_refl_R. cbn. auto.
Qed.
