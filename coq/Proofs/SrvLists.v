(* List lemmas behind the custom-command scanner (C01): Python endswith / split, the text
   since the last '$', occurrences of the tail. *)
From DS Require Import Base.Prelude Model.SrvHandler Spec.SrvRelaySpec.

(* ---- ends_with ---------------------------------------------------------- *)

Lemma ends_with_iff suf s : ends_with suf s = true <-> exists u, s = u ++ suf.
Proof.
  unfold ends_with. rewrite zlist_eqb_eq. split.
  - intros H. exists (firstn (length s - length suf) s).
    pose proof (firstn_skipn (length s - length suf) s) as F.
    unfold lastn in H. rewrite H in F. symmetry. exact F.
  - intros [u ->]. apply lastn_app_exact.
Qed.

Lemma ends_with_false_iff suf s : ends_with suf s = false <-> ~ exists u, s = u ++ suf.
Proof.
  rewrite <- ends_with_iff. destruct (ends_with suf s); intuition congruence.
Qed.

Lemma bool_eq_iff (a b : bool) : (a = true <-> b = true) -> a = b.
Proof. destruct a, b; intuition congruence. Qed.

(* the header is not a tail character: a leading '$' never matters for endswith(tail) *)
Lemma ends_with_tail_cons_header t :
  ends_with custom_tail (HEADER :: t) = ends_with custom_tail t.
Proof.
  apply bool_eq_iff. rewrite !ends_with_iff. split.
  - intros [u Hu]. destruct u as [|x u].
    + cbn in Hu. discriminate.
    + cbn in Hu. injection Hu as _ Hu. eauto.
  - intros [u ->]. exists (HEADER :: u). reflexivity.
Qed.

Lemma ends_with_tail_length t : ends_with custom_tail t = true -> (5 <= length t)%nat.
Proof. intros H. apply ends_with_iff in H as [u ->]. rewrite app_length. cbn. lia. Qed.

Lemma ends_with_tail_body t :
  ends_with custom_tail t = true -> t = firstn (length t - 5) t ++ custom_tail.
Proof.
  intros H. apply ends_with_iff in H as [u ->].
  rewrite app_length. cbn [length custom_tail].
  replace (length u + 5 - 5)%nat with (length u + 0)%nat by lia.
  rewrite firstn_app_2. cbn. rewrite app_nil_r. reflexivity.
Qed.

(* ---- since_header ------------------------------------------------------- *)

Lemma since_header_snoc_header pre : since_header (pre ++ [HEADER]) = Some [].
Proof.
  induction pre as [|x r IH]; cbn.
  - reflexivity.
  - rewrite IH. reflexivity.
Qed.

Lemma since_header_snoc pre b : b <> HEADER ->
  since_header (pre ++ [b]) = option_map (fun t => t ++ [b]) (since_header pre).
Proof.
  intros Hb. induction pre as [|x r IH]; cbn.
  - destruct (b =? HEADER) eqn:Eb; [apply Z.eqb_eq in Eb; contradiction | reflexivity].
  - rewrite IH. destruct (since_header r) as [t|]; cbn.
    + reflexivity.
    + destruct (x =? HEADER); reflexivity.
Qed.

Lemma since_header_Some pre t :
  since_header pre = Some t -> exists x, pre = x ++ HEADER :: t /\ ~ In HEADER t.
Proof.
  revert t. induction pre as [|b r IH]; cbn; intros t H.
  - discriminate.
  - destruct (since_header r) as [t'|] eqn:Er.
    + injection H as <-. destruct (IH t' eq_refl) as (x & -> & Hn).
      exists (b :: x). split; [reflexivity | assumption].
    + destruct (b =? HEADER) eqn:Eb; [|discriminate].
      injection H as <-. apply Z.eqb_eq in Eb. subst b.
      exists []. split; [reflexivity|].
      clear IH. induction r as [|y r IHr]; cbn in *.
      * tauto.
      * destruct (since_header r) as [t'|] eqn:Er'; [discriminate|].
        destruct (y =? HEADER) eqn:Ey; [discriminate|].
        apply Z.eqb_neq in Ey. intros [H|H]; [congruence | apply IHr; auto].
Qed.

Lemma since_header_None_notin r : ~ In HEADER r -> since_header r = None.
Proof.
  induction r as [|y r IH]; cbn; intros Hn.
  - reflexivity.
  - rewrite IH by tauto. destruct (y =? HEADER) eqn:Ey; [|reflexivity].
    apply Z.eqb_eq in Ey. exfalso. apply Hn. left. assumption.
Qed.

Lemma since_header_app x t : ~ In HEADER t -> since_header (x ++ HEADER :: t) = Some t.
Proof.
  intros Hn. induction x as [|y x IH]; cbn.
  - rewrite since_header_None_notin by assumption. reflexivity.
  - rewrite IH. reflexivity.
Qed.

(* ---- prefixes / contains_tail ------------------------------------------- *)

Lemma prefixes_snoc l b : prefixes (l ++ [b]) = prefixes l ++ [l ++ [b]].
Proof.
  induction l as [|x r IH]; cbn.
  - reflexivity.
  - rewrite IH, map_app. reflexivity.
Qed.

Lemma contains_tail_snoc t b :
  contains_tail (t ++ [b]) = contains_tail t || ends_with custom_tail (t ++ [b]).
Proof.
  unfold contains_tail. rewrite prefixes_snoc, existsb_app. cbn. rewrite orb_false_r.
  reflexivity.
Qed.

Lemma in_prefixes p l : In p (prefixes l) <-> p <> [] /\ exists v, l = p ++ v.
Proof.
  revert p. induction l as [|x r IH]; intros p; cbn.
  - split; [tauto|]. intros [Hp [v Hv]]. destruct p; [congruence | discriminate].
  - split.
    + intros [<-|H].
      * split; [discriminate | exists r; reflexivity].
      * apply in_map_iff in H as (q & <- & Hq). apply IH in Hq as [_ [v ->]].
        split; [discriminate | exists v; reflexivity].
    + intros [Hp [v Hv]]. destruct p as [|y p]; [congruence|].
      cbn in Hv. injection Hv as <- ->.
      destruct p as [|z p].
      * left. reflexivity.
      * right. apply in_map_iff. exists (z :: p). split; [reflexivity|].
        apply IH. split; [discriminate | exists v; reflexivity].
Qed.

Lemma contains_tail_iff t : contains_tail t = true <-> occurs_tail t.
Proof.
  unfold contains_tail, occurs_tail. rewrite existsb_exists. split.
  - intros (p & Hp & He). apply in_prefixes in Hp as [_ [v ->]].
    apply ends_with_iff in He as [u ->]. exists u, v. rewrite <- app_assoc. reflexivity.
  - intros (u & v & ->). exists (u ++ custom_tail). split.
    + apply in_prefixes. split.
      * destruct u; discriminate.
      * exists v. rewrite <- app_assoc. reflexivity.
    + apply ends_with_iff. eauto.
Qed.

Lemma contains_tail_false_iff t : contains_tail t = false <-> ~ occurs_tail t.
Proof.
  rewrite <- contains_tail_iff. destruct (contains_tail t); intuition congruence.
Qed.

(* ---- completes ---------------------------------------------------------- *)

Lemma removelast_tail u :
  removelast (u ++ custom_tail) = u ++ [PCT; PCT; PCT; PCT].
Proof.
  change custom_tail with ([PCT; PCT; PCT; PCT] ++ [PCT]).
  rewrite app_assoc. apply removelast_last.
Qed.

Theorem completes_iff pre body : completes pre = Some body <-> command_ends pre body.
Proof.
  unfold completes, command_ends. split.
  - destruct (since_header pre) as [t|] eqn:Es; [|discriminate].
    destruct (ends_with custom_tail t) eqn:Ee; [|discriminate].
    destruct (contains_tail (removelast t)) eqn:Ec; [discriminate|].
    cbn. intros H. injection H as <-.
    apply since_header_Some in Es as (x & -> & Hn).
    pose proof (ends_with_tail_body t Ee) as Ht.
    exists x. split; [|split].
    + rewrite <- Ht. reflexivity.
    + intros Hin. apply Hn. rewrite Ht. apply in_or_app. left. assumption.
    + apply contains_tail_false_iff. rewrite Ht in Ec. rewrite removelast_tail in Ec.
      assumption.
  - intros (x & -> & Hn & Ho).
    rewrite since_header_app.
    2:{ intros Hin. apply in_app_or in Hin as [Hin|Hin]; [tauto|].
        cbn in Hin. unfold HEADER in Hin. lia. }
    assert (He : ends_with custom_tail (body ++ custom_tail) = true)
      by (apply ends_with_iff; eauto).
    rewrite He, removelast_tail.
    apply contains_tail_false_iff in Ho. rewrite Ho. cbn.
    rewrite app_length. cbn [length custom_tail].
    replace (length body + 5 - 5)%nat with (length body + 0)%nat by lia.
    rewrite firstn_app_2. cbn. rewrite app_nil_r. reflexivity.
Qed.

(* ---- py_split ----------------------------------------------------------- *)

Lemma py_split_nonempty c s : py_split c s <> [].
Proof.
  destruct s as [|x r]; cbn; [discriminate|].
  destruct (x =? c); [discriminate|]. destruct (py_split c r); discriminate.
Qed.

Lemma py_split_notin c s : py_in c s = false -> py_split c s = [s].
Proof.
  unfold py_in. induction s as [|x r IH]; cbn; intros H.
  - reflexivity.
  - apply orb_false_iff in H as [Hx Hr]. rewrite Z.eqb_sym, Hx, (IH Hr). reflexivity.
Qed.

Lemma py_split_in c s : py_in c s = true -> (2 <= length (py_split c s))%nat.
Proof.
  unfold py_in. induction s as [|x r IH]; cbn; intros H.
  - discriminate.
  - destruct (x =? c) eqn:Ex.
    + cbn. pose proof (py_split_nonempty c r). destruct (py_split c r); [congruence | cbn; lia].
    + rewrite Z.eqb_sym, Ex in H. cbn in H. specialize (IH H).
      destruct (py_split c r) as [|h t]; cbn in *; lia.
Qed.

(* joining the parts with the separator gives the string back; no part contains it *)
Fixpoint join (c : Z) (parts : list (list Z)) : list Z :=
  match parts with
  | [] => []
  | [p] => p
  | p :: rest => p ++ c :: join c rest
  end.

Lemma py_split_join c s : join c (py_split c s) = s.
Proof.
  induction s as [|x r IH]; cbn.
  - reflexivity.
  - destruct (x =? c) eqn:Ex.
    + apply Z.eqb_eq in Ex. subst x.
      pose proof (py_split_nonempty c r).
      destruct (py_split c r) as [|h t] eqn:Ep; [congruence|].
      cbn [join app]. rewrite <- IH. reflexivity.
    + pose proof (py_split_nonempty c r).
      destruct (py_split c r) as [|h t] eqn:Ep; [congruence|].
      destruct t as [|h' t']; cbn [join] in *; rewrite <- IH; reflexivity.
Qed.

Lemma py_split_parts c s p : In p (py_split c s) -> ~ In c p.
Proof.
  revert p. induction s as [|x r IH]; cbn; intros p H.
  - destruct H as [<-|[]]. tauto.
  - destruct (x =? c) eqn:Ex.
    + destruct H as [<-|H]; [tauto | apply IH; assumption].
    + apply Z.eqb_neq in Ex.
      pose proof (py_split_nonempty c r).
      destruct (py_split c r) as [|h t] eqn:Ep; [congruence|].
      destruct H as [<-|H].
      * intros [Hc|Hc]; [congruence|]. apply (IH h); [left; reflexivity | assumption].
      * apply IH. right. assumption.
Qed.

(* the model's name/parameter extraction (mirroring the code) is the spec's grammar *)
Lemma split_command_parse_body body : split_command body = parse_body body.
Proof.
  unfold split_command, parse_body.
  destruct (py_in COLON body) eqn:Ei.
  - pose proof (py_split_in _ _ Ei) as Hl.
    destruct (py_split COLON body) as [|a [|b [|c l]]]; cbn in Hl; try lia; reflexivity.
  - rewrite (py_split_notin _ _ Ei). reflexivity.
Qed.
