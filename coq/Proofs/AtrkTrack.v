(* C17 — the tracking state machine over single refreshes and over whole histories, and the
   trajectory theorem under the spline hypothesis. *)
From DS Require Import Base.Prelude Model.AtrkModel Proofs.AtrkSpec Proofs.AtrkLoad Proofs.AtrkAdvance.
From Coq Require Import QArith_base.
#[local] Close Scope Q_scope.
#[local] Open Scope Z_scope.

(* ------------------------------------------------------------------ one refresh *)

Definition waits (st : pstate) (x : Q) : Prop := pt_state st = 2 /\ qneg x = true.

Lemma waits_dec st x : ((pt_state st =? 2) && qneg x = true <-> waits st x).
Proof. unfold waits. rewrite andb_true_iff, Z.eqb_eq. tauto. Qed.

Theorem refresh_states lim sv0 sve st x st' :
  inv st -> advance lim sv0 sve st x = Some st' ->
  (pt_state st = 0 -> st' = st) /\
  (pt_state st = 4 -> pt_state st' = 4 /\ tbl st' = [] /\
                      az_bahn st' = az_bahn st /\ el_bahn st' = el_bahn st) /\
  (live st -> forall lp, last_opt (tbl st) = Some lp ->
     (waits st x ->
        pt_state st' = 2 /\ tbl st' = tbl st /\
        (az_bahn st', el_bahn st') = bahn_of lim (s_az sv0) (s_el sv0)) /\
     (~ waits st x -> zltq (p_t lp) x = true ->
        pt_state st' = 4 /\ tbl st' = [] /\ pt_len st' = 0 /\
        (az_bahn st', el_bahn st') = bahn_of lim (p_az lp) (p_el lp)) /\
     (~ waits st x -> zltq (p_t lp) x = false ->
        pt_state st' = 3 /\
        tbl st' = filter (fun p => negb (before x p)) (tbl st) /\
        pt_len st' = Z.of_nat (length (tbl st')) /\
        (az_bahn st', el_bahn st') = bahn_of lim (s_az sve) (s_el sve) /\
        az_next st' = option_map p_az (hd_error (tbl st')) /\
        el_next st' = option_map p_el (hd_error (tbl st')))).
Proof.
  intros Hinv E. split; [|split].
  - intros H. rewrite advance_off in E by exact H. congruence.
  - intros H. destruct (advance_done lim sv0 sve st x Hinv H) as [E' Ht]. rewrite E' in E.
    injection E as <-. cbn. auto.
  - intros HL lp Hlp. rewrite (advance_live _ _ _ _ _ Hinv HL _ Hlp) in E.
    destruct (live_inv _ Hinv HL) as (_&_&_&_&_&_&_&_&_&_&Hsp&_).
    destruct ((pt_state st =? 2) && qneg x) eqn:Ew.
    + apply waits_dec in Ew. injection E as <-. cbn.
      split; [intros _; repeat split|].
      split; intros Hn; contradiction.
    + assert (Hn : ~ waits st x) by (intros Hw; apply waits_dec in Hw; congruence).
      split; [intros Hw; contradiction|].
      destruct (zltq (p_t lp) x) eqn:Ez.
      * injection E as <-. cbn. split; [|intros _ Hc; discriminate].
        intros _ _. repeat split.
      * destruct (s_fits sve); [|discriminate]. injection E as <-. cbn.
        split; [intros _ Hc; discriminate|]. intros _ _.
        rewrite (skipn_bisect _ _ Hsp). repeat split.
Qed.

(* inside the operating range the clamped value is the value itself *)
Lemma clamp_id lo hi v : lo - 1 <= v <= hi + 1 -> clamp lo hi v = v.
Proof. unfold clamp. lia. Qed.

Lemma clamp_near lo hi v u : lo <= u <= hi -> Z.abs (v - u) <= 1 -> Z.abs (clamp lo hi v - u) <= 1.
Proof. intros H1 H2. rewrite clamp_id; lia. Qed.

(* ------------------------------------------------------------------ histories *)

Inductive event :=
| ELoad (h : header) (es : list entry)
| ETick (sv0 sve : sval) (x : Q).

Definition step (lim : limits) (st : pstate) (ev : event) : option pstate :=
  match ev with
  | ELoad h es => Some (load st h es)
  | ETick sv0 sve x => advance lim sv0 sve st x
  end.

Fixpoint run (lim : limits) (st : pstate) (evs : list event) : option pstate :=
  match evs with
  | [] => Some st
  | ev :: r => match step lim st ev with Some st' => run lim st' r | None => None end
  end.

Lemma inv_step lim st ev st' : inv st -> step lim st ev = Some st' -> inv st'.
Proof.
  destruct ev as [h es|sv0 sve x]; cbn [step]; intros Hinv E.
  - injection E as <-. apply inv_load. exact Hinv.
  - eapply inv_advance; eauto.
Qed.

Theorem inv_run lim evs : forall st st', inv st -> run lim st evs = Some st' -> inv st'.
Proof.
  induction evs as [|ev r IH]; intros st st' Hinv E; cbn [run] in E.
  - congruence.
  - destruct (step lim st ev) as [st1|] eqn:Es; [|discriminate].
    eapply IH; [|exact E]. eapply inv_step; eauto.
Qed.

Corollary reachable_inv lim az0 el0 evs st : run lim (init az0 el0) evs = Some st -> inv st.
Proof. apply inv_run. apply inv_init. Qed.

(* the edges of the tracking state machine: off -> enabled -> running -> completed, a new table
   re-enables from anywhere, nothing else *)
Definition edge (a b : Z) : Prop :=
  a = b \/ (a = 0 /\ b = 2) \/ (a = 2 /\ b = 3) \/ (a = 2 /\ b = 4) \/ (a = 3 /\ b = 4) \/
  (a = 3 /\ b = 2) \/ (a = 4 /\ b = 2).

Theorem step_edge lim st ev st' : inv st -> step lim st ev = Some st' ->
  edge (pt_state st) (pt_state st').
Proof.
  intros Hinv E. pose proof Hinv as [_ [_ [I3 _]]]. unfold edge.
  destruct ev as [h es|sv0 sve x]; cbn [step] in E.
  - injection E as <-. destruct (Z.eq_dec (ans (load st h es)) 1) as [H1|H1].
    + apply accepted_effect in H1 as (s&new&_&_&_&_&_&_&_&Hst&_). rewrite Hst.
      destruct (h_mode h =? 1); [lia|]. destruct (pt_state st =? 3) eqn:E3; lia.
    + apply refused_atomic in H1 as [(_&_&_&_&Hs&_) _]. lia.
  - destruct (refresh_states _ _ _ _ _ _ Hinv E) as [R0 [R4 RL]].
    destruct I3 as [H|[H|[H|H]]].
    + rewrite (R0 H). lia.
    + destruct (live_inv _ Hinv (or_introl H)) as (_&_&lp&_&_&_&_&_&Hlp&_).
      destruct (RL (or_introl H) lp Hlp) as [Rw [Rc Rr]].
      destruct ((pt_state st =? 2) && qneg x) eqn:Ew.
      * apply waits_dec in Ew. destruct (Rw Ew) as [-> _]. lia.
      * assert (Hn : ~ waits st x) by (intros Hw; apply waits_dec in Hw; congruence).
        destruct (zltq (p_t lp) x) eqn:Ez.
        -- destruct (Rc Hn eq_refl) as [-> _]. lia.
        -- destruct (Rr Hn eq_refl) as [-> _]. lia.
    + destruct (live_inv _ Hinv (or_intror H)) as (_&_&lp&_&_&_&_&_&Hlp&_).
      destruct (RL (or_intror H) lp Hlp) as [_ [Rc Rr]].
      assert (Hn : ~ waits st x) by (unfold waits; lia).
      destruct (zltq (p_t lp) x) eqn:Ez.
      * destruct (Rc Hn eq_refl) as [-> _]. lia.
      * destruct (Rr Hn eq_refl) as [-> _]. lia.
    + destruct (R4 H) as [-> _]. lia.
Qed.

(* the first accepted load of a history enables the track *)
Lemma first_load_enables st h es : inv st -> pt_state st = 0 -> ans (load st h es) = 1 ->
  pt_state (load st h es) = 2 /\ h_mode h = 1.
Proof.
  intros Hinv H0 H1. pose proof Hinv as [I1 [_ [_ [I4 _]]]].
  assert (Ht : tbl st = []).
  { destruct (tbl st) eqn:E; [reflexivity|]. exfalso.
    assert (pt_state st = 2 \/ pt_state st = 3) by (apply I4; congruence). lia. }
  pose proof H1 as H1'. apply load_accepted in H1' as (s&new&HA&_).
  destruct HA as (_&_&_&Hm&_&_&Hl&_).
  assert (h_mode h = 1).
  { destruct Hm as [Hm|Hm]; [exact Hm|]. specialize (Hl Hm). rewrite Ht in I1. cbn in I1. lia. }
  apply accepted_effect in H1 as (_&_&_&_&_&_&_&_&_&Hst&_). rewrite Hst.
  replace (h_mode h =? 1) with true by lia. auto.
Qed.

(* ------------------------------------------------------------------ through the loaded points *)

Definition zq (t : Z) : Q := Qmake t 1.

Lemma zltq_zq a b : zltq a (zq b) = (a <? b).
Proof. unfold zltq, zq. cbn. rewrite Z.mul_1_r. reflexivity. Qed.

Lemma qneg_zq b : qneg (zq b) = (b <? 0).
Proof. reflexivity. Qed.

Definition in_range (lim : limits) (p : point) : Prop :=
  az_lo lim <= p_az p <= az_hi lim /\ el_lo lim <= p_el p <= el_hi lim.

Section Spline.
  (* scipy: splev(., splrep(table)) scaled to microdegrees and rounded, for both axes, together
     with the fit of the derivative fields *)
  Variable spl : list point -> Q -> sval.

  (* what FITPACK is assumed to do (s = 0: interpolation), to the precision the statement asks *)
  Definition interpolates : Prop :=
    forall tb p, (4 <= length tb)%nat -> equally_spaced (times tb) -> In p tb ->
      Z.abs (s_az (spl tb (zq (p_t p))) - p_az p) <= 1 /\
      Z.abs (s_el (spl tb (zq (p_t p))) - p_el p) <= 1.

  (* update_status at instant x with the spline of the stored tck *)
  Definition refresh (lim : limits) (st : pstate) (x : Q) : option pstate :=
    match tck st with
    | Some tb => advance lim (spl tb (zq 0)) (spl tb x) st x
    | None => advance lim (spl [] (zq 0)) (spl [] x) st x
    end.

  Theorem through_points lim st tb p :
    interpolates -> inv st -> live st -> tck st = Some tb -> In p tb -> in_range lim p ->
    s_fits (spl tb (zq (p_t p))) = true ->
    exists st', refresh lim st (zq (p_t p)) = Some st' /\ pt_state st' = 3 /\
      Z.abs (az_bahn st' - p_az p) <= 1 /\ Z.abs (el_bahn st' - p_el p) <= 1.
  Proof.
    intros Hint Hinv HL Htck Hin [Raz Rel] Hfit.
    destruct (live_inv _ Hinv HL) as (s&pre&lp&Hs&Hne&Htck'&Hsp&Hnn&Hlp&Hlc&Hsp'&Hlen).
    assert (tb = pre ++ tbl st) by congruence. subst tb.
    unfold refresh. rewrite Htck.
    rewrite (advance_live _ _ _ _ _ Hinv HL _ Hlp).
    (* the point's time is not negative and not after the last point *)
    assert (H0 : 0 <= p_t p) by (rewrite Forall_forall in Hnn; apply Hnn; exact Hin).
    assert (Hle : p_t p <= p_t lp).
    { destruct Hsp as [d [Hd Hap]].
      assert (Hl2 : last_opt (pre ++ tbl st) = Some lp) by (rewrite last_opt_app_ne; auto).
      destruct (last_opt_split _ _ Hl2) as [l' El]. rewrite El in Hap, Hin.
      unfold times in Hap. rewrite map_app in Hap. cbn [map] in Hap.
      pose proof (ap_upper _ _ _ Hd Hap) as HU. change [p_t lp] with (map p_t [lp]) in HU.
      rewrite <- map_app, Forall_map, Forall_forall in HU. apply HU. exact Hin. }
    rewrite qneg_zq, zltq_zq. replace (p_t p <? 0) with false by lia.
    rewrite andb_false_r. replace (p_t lp <? p_t p) with false by lia. rewrite Hfit.
    eexists. split; [reflexivity|]. cbn.
    destruct (Hint _ _ Hlen Hsp Hin) as [Ha He].
    split; [reflexivity|]. split; apply clamp_near; auto.
  Qed.

  (* after the last point the track is completed on the last loaded coordinates *)
  Theorem completes_on_last lim st lp x :
    inv st -> live st -> last_opt (tbl st) = Some lp -> ~ waits st x -> zltq (p_t lp) x = true ->
    exists st', refresh lim st x = Some st' /\ pt_state st' = 4 /\ tbl st' = [] /\
      (az_bahn st', el_bahn st') = bahn_of lim (p_az lp) (p_el lp) /\
      (in_range lim lp -> az_bahn st' = p_az lp /\ el_bahn st' = p_el lp).
  Proof.
    intros Hinv HL Hlp Hnw Hz.
    destruct (live_inv _ Hinv HL) as (s&pre&lp'&Hs&Hne&Htck&_).
    unfold refresh. rewrite Htck. rewrite (advance_live _ _ _ _ _ Hinv HL _ Hlp), Hz.
    destruct ((pt_state st =? 2) && qneg x) eqn:Ew; [apply waits_dec in Ew; contradiction|].
    eexists. split; [reflexivity|]. cbn.
    split; [reflexivity|]. split; [reflexivity|]. split; [reflexivity|].
    intros [[R1 R2] [R3 R4]]. split; apply clamp_id; lia.
  Qed.
End Spline.
