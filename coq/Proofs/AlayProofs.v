(* C16 (tag Alay) — lemmas about the generic accessors of Model/AlayModel.v, for any layout table
   that passes [layout_ok]. *)
From Coq Require Import String.
From DS Require Import Base.Prelude Base.Bits Model.Utils Proofs.UtilsProofs.
From DS Require Import Model.AlayModel Model.AlayWf Proofs.AlayLists.

(* ---------- small facts ---------- *)
Lemma some_inj {A} (x y : A) : Some x = Some y -> x = y.
Proof. congruence. Qed.

Lemma fits_some w r x : fits w r = Some x -> x = r /\ 0 <= r < 2 ^ w.
Proof. unfold fits. destruct (Z.leb_spec 0 r), (Z.ltb_spec r (2 ^ w)); cbn; intros E; try discriminate.
       injection E as <-. lia. Qed.

Lemma as_f64_range v r : as_f64 v = Some r -> 0 <= r < 2 ^ 64.
Proof.
  assert (G : forall z, f64_of_Z z = Some r -> 0 <= r < 2 ^ 64).
  { intros z. unfold f64_of_Z. destruct (SpecFloat.binary_normalize 53 1024 z 0 false); intros E;
      try discriminate; apply fits_some in E as [-> H]; exact H. }
  destruct v; cbn [as_f64]; intros E; try discriminate; eauto.
  apply fits_some in E as [-> H]; exact H.
Qed.

Lemma f32_of_f64_range x s : f32_of_f64 x = Some s -> 0 <= s < 2 ^ 32.
Proof.
  unfold f32_of_f64. destruct (UtilsF32.narrow64 x) as [r|]; intros E; [|discriminate].
  apply fits_some in E as [-> H]; exact H.
Qed.

Lemma place_length pos : forall l s, length (place pos l s) = length s.
Proof.
  induction pos as [|p pos IH]; intros [|x l] s; cbn [place]; try reflexivity.
  rewrite IH. apply upd_length.
Qed.

Lemma uint_to_bytes_facts z n l : (0 < n)%nat -> uint_to_bytes z n true = Some l ->
  bytes_to_uint l true = Some z /\ length l = n /\ bytes l /\ 0 <= z < 256 ^ Z.of_nat n.
Proof.
  intros Hn H. destruct (uint_bytes_roundtrip z n true l Hn H) as (A & B & C).
  repeat split; try assumption.
  - destruct (Z.lt_ge_cases z 0) as [Hz|Hz]; [|exact Hz].
    rewrite uint_out_of_range_refused in H by (left; exact Hz). discriminate.
  - destruct (Z.lt_ge_cases z (256 ^ Z.of_nat n)) as [Hz|Hz]; [exact Hz|].
    rewrite uint_out_of_range_refused in H; [discriminate|]. right.
    rewrite pow256 in Hz. replace (Z.of_nat (8 * n)) with (8 * Z.of_nat n) by lia. exact Hz.
Qed.

Lemma int_to_bytes_facts z n l : (0 < n)%nat -> int_to_bytes z n true = Some l ->
  bytes_to_int l true = z /\ length l = n /\ bytes l /\
  - 2 ^ (8 * Z.of_nat n - 1) <= z < 2 ^ (8 * Z.of_nat n - 1).
Proof.
  intros Hn H. destruct (int_bytes_roundtrip z n true l Hn H) as (A & B & C).
  repeat split; try assumption.
  - destruct (Z.lt_ge_cases z (- 2 ^ (8 * Z.of_nat n - 1))) as [Hz|Hz]; [|lia].
    rewrite int_out_of_range_refused in H by (try exact Hn; left; exact Hz). discriminate.
  - destruct (Z.lt_ge_cases z (2 ^ (8 * Z.of_nat n - 1))) as [Hz|Hz]; [exact Hz|].
    rewrite int_out_of_range_refused in H by (try exact Hn; right; exact Hz). discriminate.
Qed.

(* the byte of an 8-character two's complement string: value mod 256; sweep over the 256 accepted values *)
Definition twos_byte_ok (k : Z) : bool :=
  let v := k - 128 in
  match int_to_twos v 1 with
  | Some s => (length s =? 8)%nat && (Z.land (int2 s) 255 =? v mod 256)
  | None => false
  end.

Lemma twos_byte_sweep : forallb twos_byte_ok all_bytes = true.
Proof. vm_compute. reflexivity. Qed.

Lemma int_to_twos_byte v s : int_to_twos v 1 = Some s ->
  length s = 8%nat /\ Z.land (int2 s) 255 = v mod 256 /\ -128 <= v < 128.
Proof.
  intros H.
  assert (Hr : -128 <= v < 128).
  { destruct (Z.lt_ge_cases v (-128)) as [Hz|Hz].
    - rewrite twos_out_of_range_refused in H by (left; exact Hz). discriminate.
    - destruct (Z.lt_ge_cases v 128) as [Hz2|Hz2]; [lia|].
      rewrite twos_out_of_range_refused in H by (right; exact Hz2). discriminate. }
  pose proof (byte_sweep twos_byte_ok twos_byte_sweep (v + 128)) as Hs.
  unfold twos_byte_ok in Hs. replace (v + 128 - 128) with v in Hs by lia.
  rewrite H in Hs. specialize (Hs ltac:(unfold byte; lia)).
  apply andb_true_iff in Hs as [A B]. apply Nat.eqb_eq in A. apply Z.eqb_eq in B. auto.
Qed.

Lemma binary_to_bytes_16 sa si : length sa = 8%nat -> length si = 8%nat ->
  binary_to_bytes (sa ++ si) true = [Z.land (int2 si) 255; Z.land (int2 sa) 255].
Proof.
  intros Ha Hi.
  destruct sa as [|a0 [|a1 [|a2 [|a3 [|a4 [|a5 [|a6 [|a7 [|]]]]]]]]]; try discriminate.
  destruct si as [|i0 [|i1 [|i2 [|i3 [|i4 [|i5 [|i6 [|i7 [|]]]]]]]]]; try discriminate.
  reflexivity.
Qed.

Lemma bytes_to_uint_single x : byte x -> bytes_to_uint [x] true = Some x.
Proof.
  intros Hx. unfold bytes_to_uint, bytes_to_binary. cbn [rev app map concat].
  rewrite app_nil_r, int2_zfill, int2_bin by (unfold byte in Hx; lia). reflexivity.
Qed.

Lemma land_255_byte x : byte (Z.land x 255).
Proof.
  unfold byte. change 255 with (Z.ones 8). rewrite Z.land_ones by lia.
  pose proof (Z.mod_pos_bound x (2 ^ 8) ltac:(lia)). lia.
Qed.

(* ---------- what a setter writes ---------- *)
(* the bytes an accepted assignment writes, as a function of the value and of the bytes read *)
Definition written (e : axis_env) (f : field) (v : value) (b : block) : option (list Z) :=
  match fkind f with
  | KBool => match v with VBool x => Some [b2z x] | _ => None end
  | KBit woff wlen idx o =>
      match v with
      | VBool x => Some (binary_to_bytes (rev (upd idx x (bit_view o (slice woff wlen b)))) true)
      | _ => None
      end
  | KUint d => match as_int v with Some z => uint_to_bytes z (flen f) true | None => None end
  | KInt c => match as_int v with
              | Some z => int_to_bytes (if c then clamp e z else z) (flen f) true
              | None => None
              end
  | KReal64 => option_map (le_enc 8) (as_f64 v)
  | KReal32 => match as_f64 v with Some r => option_map (le_enc 4) (f32_of_f64 r) | None => None end
  | KBits n pos =>
      match v with
      | VBools l => Some (binary_to_bytes (rev (place pos l (repeat false (8 * flen f)))) true)
      | _ => None
      end
  | KVersion =>
      match v with
      | VPair ma mi =>
          match int_to_twos ma 1, int_to_twos mi 1 with
          | Some sa, Some si => Some (binary_to_bytes (sa ++ si) true)
          | _, _ => None
          end
      | _ => None
      end
  | KView => None
  end.

Lemma set_written e f v b b' : set e f v b = Some b' ->
  exists new, written e f v b = Some new /\ splice (fst (extent f)) new b = Some b'.
Proof.
  unfold set, written, extent. destruct (fkind f) as [| woff wlen idx o | d | c | | | n pos | |]; intros H.
  - destruct v; try discriminate. destruct (flen f =? 1)%nat; [|discriminate]. eauto.
  - destruct v; try discriminate.
    destruct (negb (length (slice woff wlen b) =? wlen)%nat); [discriminate|].
    destruct (idx <? length (bit_view o (slice woff wlen b)))%nat; [|discriminate]. eauto.
  - destruct (as_int v) as [z|]; [|discriminate]. destruct (in_dom d z); [|discriminate].
    destruct (uint_to_bytes z (flen f) true) as [bs|]; [|discriminate]. eauto.
  - destruct (as_int v) as [z|]; [|discriminate].
    destruct (int_to_bytes _ (flen f) true) as [bs|]; [|discriminate]. eauto.
  - destruct (as_f64 v) as [r|]; [|discriminate]. destruct (flen f =? 8)%nat; [|discriminate]. cbn. eauto.
  - destruct (as_f64 v) as [r|]; [|discriminate]. destruct (f32_of_f64 r) as [s|]; [|discriminate].
    destruct (flen f =? 4)%nat; [|discriminate]. cbn. eauto.
  - destruct v; try discriminate.
    destruct ((length l =? n)%nat && (length pos =? n)%nat && forallb _ pos); [|discriminate]. eauto.
  - destruct v; try discriminate.
    destruct (int_to_twos a 1) as [sa|]; [|discriminate]. destruct (int_to_twos b0 1) as [si|]; [|discriminate].
    eauto.
  - discriminate.
Qed.

(* the setter never changes the size of the block — for every field, table and value *)
Theorem set_preserves_length e f v b b' : set e f v b = Some b' -> length b' = length b.
Proof.
  intros H. apply set_written in H as (new & _ & Hs). eapply splice_length. exact Hs.
Qed.

Section WellFormedField.
  Variable size : nat.
  Variable f : field.
  Hypothesis Hok : field_ok size f = true.

  Lemma field_inside : (foff f + flen f <= size)%nat.
  Proof. unfold field_ok in Hok. apply andb_true_iff in Hok as [H _]. apply Nat.leb_le in H. exact H. Qed.

  Lemma kind_ok :
    match fkind f with
    | KBool => flen f = 1%nat
    | KBit woff wlen idx o =>
        (woff + wlen <= size)%nat /\ (0 < wlen)%nat /\ (idx < 8 * wlen)%nat /\
        foff f = (woff + idx / 8)%nat /\ flen f = 1%nat /\ o = LsbFirst
    | KUint d => (0 < flen f)%nat /\ dom_ok d = true
    | KInt _ => (0 < flen f)%nat
    | KReal64 => flen f = 8%nat
    | KReal32 => flen f = 4%nat
    | KBits n pos => (0 < flen f)%nat /\ length pos = n /\ nodupb pos = true /\
                     forallb (fun p => (p <? 8 * flen f)%nat) pos = true
    | KVersion => flen f = 2%nat
    | KView => True
    end.
  Proof.
    unfold field_ok in Hok. apply andb_true_iff in Hok as [_ H].
    destruct (fkind f) as [| woff wlen idx o | d | c | | | n pos | |].
    - now apply Nat.eqb_eq.
    - repeat (apply andb_true_iff in H as [H ?]).
      destruct o; [|discriminate].
      repeat split; try (apply Nat.leb_le; assumption); try (apply Nat.ltb_lt; assumption);
        try (apply Nat.eqb_eq; assumption).
    - apply andb_true_iff in H as [H ?]. split; [now apply Nat.ltb_lt|assumption].
    - now apply Nat.ltb_lt.
    - now apply Nat.eqb_eq.
    - now apply Nat.eqb_eq.
    - repeat (apply andb_true_iff in H as [H ?]). repeat split; try assumption;
        [now apply Nat.ltb_lt|now apply Nat.eqb_eq].
    - now apply Nat.eqb_eq.
    - exact I.
  Qed.

  Lemma extent_inside : (fst (extent f) + snd (extent f) <= size)%nat.
  Proof.
    pose proof field_inside as Hi. pose proof kind_ok as Hk. unfold extent.
    destruct (fkind f); cbn [fst snd]; try exact Hi. destruct Hk as (H & _). exact H.
  Qed.

  (* the raw slice of the field lies inside its extent *)
  Lemma raw_in_extent : (fst (extent f) <= foff f /\ foff f + flen f <= fst (extent f) + snd (extent f))%nat.
  Proof.
    pose proof kind_ok as Hk. unfold extent.
    destruct (fkind f) as [| woff wlen idx o | | | | | | |]; cbn [fst snd]; try lia.
    destruct Hk as (_ & _ & Hi & -> & -> & _).
    assert (idx / 8 < wlen)%nat by (apply Nat.div_lt_upper_bound; lia). lia.
  Qed.

  Variable e : axis_env.
  Variable b : block.
  Hypothesis Hlen : length b = size.
  Hypothesis Hb : bytes b.

  (* what is written has exactly the size of the field's extent, and consists of bytes *)
  Lemma written_shape v new : written e f v b = Some new -> length new = snd (extent f) /\ bytes new.
  Proof.
    pose proof kind_ok as Hk. unfold written, extent.
    destruct (fkind f) as [| woff wlen idx o | d | c | | | n pos | |]; cbn [snd]; intros H.
    - destruct v; try discriminate. apply some_inj in H; subst new. split; [now rewrite Hk|].
      constructor; [destruct b0; unfold byte; cbn; lia|constructor].
    - destruct v; try discriminate. apply some_inj in H; subst new.
      destruct Hk as (Hin & Hpos & Hidx & _ & _ & ->).
      split; [|apply binary_to_bytes_bytes]. cbn [bit_view].
      apply binary_to_bytes_length. rewrite rev_length, upd_length, rev_length.
      rewrite bytes_to_binary_length by (apply slice_bytes; exact Hb).
      rewrite slice_length by lia. reflexivity.
    - destruct (as_int v) as [z|]; [|discriminate]. destruct Hk as [Hn _].
      destruct (uint_to_bytes_facts _ _ _ Hn H) as (_ & A & B & _). auto.
    - destruct (as_int v) as [z|]; [|discriminate].
      destruct (int_to_bytes_facts _ _ _ Hk H) as (_ & A & B & _). auto.
    - destruct (as_f64 v) as [r|]; [|discriminate]. apply some_inj in H; subst new.
      rewrite le_enc_length. split; [now rewrite Hk|apply le_enc_bytes].
    - destruct (as_f64 v) as [r|]; [|discriminate]. destruct (f32_of_f64 r) as [s|]; [|discriminate].
      apply some_inj in H; subst new. rewrite le_enc_length. split; [now rewrite Hk|apply le_enc_bytes].
    - destruct v; try discriminate. apply some_inj in H; subst new. split; [|apply binary_to_bytes_bytes].
      apply binary_to_bytes_length. rewrite rev_length, place_length, repeat_length. reflexivity.
    - destruct v; try discriminate.
      destruct (int_to_twos a 1) as [sa|] eqn:Ea; [|discriminate].
      destruct (int_to_twos b0 1) as [si|] eqn:Ei; [|discriminate]. apply some_inj in H; subst new.
      destruct (int_to_twos_byte _ _ Ea) as (La & _). destruct (int_to_twos_byte _ _ Ei) as (Li & _).
      split; [|apply binary_to_bytes_bytes].
      rewrite Hk. apply binary_to_bytes_length. rewrite app_length, La, Li. reflexivity.
    - discriminate.
  Qed.

  Theorem set_preserves_bytes v b' : set e f v b = Some b' -> bytes b'.
  Proof.
    intros H. apply set_written in H as (new & Hw & Hs).
    destruct (written_shape _ _ Hw) as [_ Hn]. exact (splice_bytes _ _ _ _ Hb Hn Hs).
  Qed.
End WellFormedField.

(* ---------- reading back ---------- *)
Lemma b2z_byte x : byte (b2z x).
Proof. destruct x; unfold byte; cbn; lia. Qed.

Lemma get_raw f (b : block) : length (slice (foff f) (flen f) b) = flen f ->
  get f b =
  let raw := slice (foff f) (flen f) b in
  match fkind f with
  | KBool => option_map (fun u => VBool (negb (u =? 0))) (bytes_to_uint raw true)
  | KBit woff wlen idx o =>
      let word := slice woff wlen b in
      if negb (length word =? wlen)%nat then None
      else option_map VBool (nth_error (bit_view o word) idx)
  | KUint _ => option_map VInt (bytes_to_uint raw true)
  | KInt _ => Some (VInt (bytes_to_int raw true))
  | KReal64 => if (flen f =? 8)%nat then Some (VReal (le_dec raw)) else None
  | KReal32 => if (flen f =? 4)%nat then Some (VReal (f64_of_f32 (le_dec raw))) else None
  | KBits _ _ => Some (VBools (rev (bytes_to_binary raw true)))
  | KVersion =>
      match raw with
      | [mi; ma] =>
          match bytes_to_uint [ma] true, bytes_to_uint [mi] true with
          | Some x, Some y => Some (VPair x y)
          | _, _ => None
          end
      | _ => None
      end
  | KView => Some (VBytes raw)
  end.
Proof. intros H. unfold get. rewrite H, Nat.eqb_refl. reflexivity. Qed.

Section GetSet.
  Variable size : nat.
  Variable f : field.
  Hypothesis Hok : field_ok size f = true.
  Variable e : axis_env.
  Variable b : block.
  Hypothesis Hlen : length b = size.
  Hypothesis Hb : bytes b.

  (* after an accepted assignment the getter returns the stored value *)
  Theorem get_set_same v b' : set e f v b = Some b' ->
    exists w, stored e f v = Some w /\ get f b' = Some w.
  Proof.
    intros H. pose proof (set_preserves_length _ _ _ _ _ H) as Hl'.
    apply set_written in H as (new & Hw & Hs).
    destruct (written_shape size f Hok e b Hlen Hb v new Hw) as [Hnl Hnb].
    pose proof (slice_splice_same _ _ _ _ Hs) as Hrb. rewrite Hnl in Hrb.
    pose proof (field_inside size f Hok) as Hin. pose proof (kind_ok size f Hok) as Hk.
    assert (Hraw : length (slice (foff f) (flen f) b') = flen f) by (apply slice_length; lia).
    rewrite (get_raw f b' Hraw). cbv zeta.
    unfold written in Hw. unfold stored. unfold extent in Hrb, Hnl.
    destruct (fkind f) as [| woff wlen idx o | d | c | | | n pos | |]; cbn [fst snd] in Hrb, Hnl.
    - destruct v; try discriminate. apply some_inj in Hw; subst new. rewrite Hrb.
      rewrite bytes_to_uint_single by apply b2z_byte. cbn [option_map].
      exists (VBool b0). split; [reflexivity|]. destruct b0; reflexivity.
    - destruct v; try discriminate. apply some_inj in Hw.
      destruct Hk as (Hwin & Hpos & Hidx & _ & _ & ->). cbn [bit_view] in *.
      rewrite Hrb, Hnl, Nat.eqb_refl. cbn [negb].
      set (view := rev (bytes_to_binary (slice woff wlen b) true)) in *.
      assert (Hvl : length view = (8 * wlen)%nat).
      { unfold view. rewrite rev_length, bytes_to_binary_length by (apply slice_bytes; exact Hb).
        rewrite slice_length by lia. reflexivity. }
      subst new. rewrite (binary_bytes_roundtrip _ true wlen) by (rewrite rev_length, upd_length; exact Hvl).
      rewrite rev_involutive, nth_error_upd_same by lia.
      exists (VBool b0). split; reflexivity.
    - destruct (as_int v) as [z|]; [|discriminate]. destruct Hk as [Hn _].
      destruct (uint_to_bytes_facts _ _ _ Hn Hw) as (A & _). rewrite Hrb, A.
      exists (VInt z). split; reflexivity.
    - destruct (as_int v) as [z|]; [|discriminate].
      destruct (int_to_bytes_facts _ _ _ Hk Hw) as (A & _). rewrite Hrb, A.
      exists (VInt (if c then clamp e z else z)). split; reflexivity.
    - destruct (as_f64 v) as [r|] eqn:Ev; [|discriminate]. apply some_inj in Hw; subst new.
      rewrite Hrb, Hk, Nat.eqb_refl. rewrite le_dec_enc_small by (apply as_f64_range in Ev; exact Ev).
      exists (VReal r). split; reflexivity.
    - destruct (as_f64 v) as [r|] eqn:Ev; [|discriminate].
      destruct (f32_of_f64 r) as [s|] eqn:Es; [|discriminate]. apply some_inj in Hw; subst new.
      rewrite Hrb, Hk, Nat.eqb_refl.
      rewrite le_dec_enc_small by (apply f32_of_f64_range in Es; exact Es).
      exists (VReal (f64_of_f32 s)). split; reflexivity.
    - destruct v; try discriminate. apply some_inj in Hw; subst new. rewrite Hrb.
      rewrite (binary_bytes_roundtrip _ true (flen f))
        by (rewrite rev_length, place_length, repeat_length; reflexivity).
      rewrite rev_involutive. eexists. split; reflexivity.
    - destruct v; try discriminate.
      destruct (int_to_twos a 1) as [sa|] eqn:Ea; [|discriminate].
      destruct (int_to_twos b0 1) as [si|] eqn:Ei; [|discriminate]. apply some_inj in Hw; subst new.
      destruct (int_to_twos_byte _ _ Ea) as (La & Va & _). destruct (int_to_twos_byte _ _ Ei) as (Li & Vi & _).
      rewrite Hrb, (binary_to_bytes_16 _ _ La Li).
      rewrite !bytes_to_uint_single by apply land_255_byte. rewrite Va, Vi.
      eexists. split; reflexivity.
    - discriminate.
  Qed.

  (* an accepted value is in the documented domain of the field: anything else is refused *)
  Theorem set_accepts v b' : set e f v b = Some b' -> accepts e f v.
  Proof.
    intros H. pose proof (kind_ok size f Hok) as Hk.
    unfold set in H. unfold accepts.
    destruct (fkind f) as [| woff wlen idx o | d | c | | | n pos | |].
    - destruct v; try discriminate. eauto.
    - destruct v; try discriminate. eauto.
    - destruct (as_int v) as [z|]; [|discriminate]. destruct (in_dom d z) eqn:Ed; [|discriminate].
      destruct (uint_to_bytes z (flen f) true) as [bs|] eqn:Eu; [|discriminate].
      destruct Hk as [Hn _]. destruct (uint_to_bytes_facts _ _ _ Hn Eu) as (_ & _ & _ & Hr). eauto.
    - destruct (as_int v) as [z|]; [|discriminate].
      destruct (int_to_bytes _ (flen f) true) as [bs|] eqn:Eu; [|discriminate].
      destruct (int_to_bytes_facts _ _ _ Hk Eu) as (_ & _ & _ & Hr). eauto.
    - destruct (as_f64 v) as [r|]; [|discriminate]. eauto.
    - destruct (as_f64 v) as [r|]; [|discriminate]. destruct (f32_of_f64 r) as [s|] eqn:Es; [|discriminate].
      exists r, s. auto.
    - destruct v; try discriminate.
      destruct ((length l =? n)%nat) eqn:El; [|discriminate]. apply Nat.eqb_eq in El. eauto.
    - destruct v; try discriminate.
      destruct (int_to_twos a 1) as [sa|] eqn:Ea; [|discriminate].
      destruct (int_to_twos b0 1) as [si|] eqn:Ei; [|discriminate].
      destruct (int_to_twos_byte _ _ Ea) as (_ & _ & Ra). destruct (int_to_twos_byte _ _ Ei) as (_ & _ & Ri).
      eauto 6.
    - discriminate.
  Qed.

  Corollary set_refuses_out_of_domain v : ~ accepts e f v -> set e f v b = None.
  Proof. intros Hn. destruct (set e f v b) as [b'|] eqn:E; [|reflexivity]. exfalso. eauto using set_accepts. Qed.
End GetSet.

(* ---------- assigning one field changes no other ---------- *)
(* a getter only reads inside the extent of its field *)
Lemma get_ext size g (b1 b2 : block) : field_ok size g = true ->
  length b1 = size -> length b2 = size ->
  (forall o n, (fst (extent g) <= o)%nat -> (o + n <= fst (extent g) + snd (extent g))%nat ->
               slice o n b1 = slice o n b2) ->
  get g b1 = get g b2.
Proof.
  intros Hg H1 H2 Hs.
  pose proof (raw_in_extent size g Hg) as [Ra Rb]. pose proof (kind_ok size g Hg) as Hk.
  assert (Hraw : slice (foff g) (flen g) b1 = slice (foff g) (flen g) b2) by (apply Hs; lia).
  unfold get. rewrite Hraw.
  destruct (negb (length (slice (foff g) (flen g) b2) =? flen g)%nat); [reflexivity|].
  unfold extent in Hs, Ra, Rb.
  destruct (fkind g) as [| woff wlen idx o | | | | | | |]; try reflexivity.
  cbn [fst snd] in *. rewrite (Hs woff wlen) by lia. reflexivity.
Qed.

Lemma compat_sym f g : compat f g = compat g f.
Proof.
  unfold compat, disjoint, extent, is_view.
  destruct (fkind f) as [| w1 l1 i1 o1 | | | | | | |]; destruct (fkind g) as [| w2 l2 i2 o2 | | | | | | |];
    cbn [fst snd orb]; try reflexivity; try apply orb_comm.
  rewrite (Nat.eqb_sym w2 w1), (Nat.eqb_sym l2 l1), (Nat.eqb_sym i2 i1).
  destruct ((w1 =? w2)%nat && (l1 =? l2)%nat); [reflexivity|apply orb_comm].
Qed.

Section GetSetOther.
  Variable size : nat.
  Variables f g : field.
  Hypothesis Hf : field_ok size f = true.
  Hypothesis Hg : field_ok size g = true.
  Hypothesis Hc : compat f g = true.
  Hypothesis Hgv : is_view g = false.
  Variable e : axis_env.
  Variable b : block.
  Hypothesis Hlen : length b = size.
  Hypothesis Hb : bytes b.

  Theorem get_set_other v b' : set e f v b = Some b' -> get g b' = get g b.
  Proof.
    intros H. pose proof (set_preserves_length _ _ _ _ _ H) as Hl'.
    assert (Hfv : is_view f = false).
    { unfold is_view. unfold set in H. destruct (fkind f); try reflexivity. discriminate. }
    apply set_written in H as (new & Hw & Hs).
    destruct (written_shape size f Hf e b Hlen Hb v new Hw) as [Hnl _].
    unfold compat in Hc. rewrite Hfv, Hgv in Hc. cbn [orb] in Hc.
    (* the generic argument: disjoint extents *)
    assert (Hdis : disjoint (extent f) (extent g) = true -> get g b' = get g b).
    { intros Hd. apply (get_ext size); try assumption; try lia.
      intros o n Ho Hn. eapply slice_splice_disjoint; [exact Hs|].
      rewrite Hnl. unfold disjoint in Hd. apply orb_true_iff in Hd as [Hd|Hd]; apply Nat.leb_le in Hd; lia. }
    pose proof (kind_ok size f Hf) as Hkf. pose proof (kind_ok size g Hg) as Hkg.
    destruct (fkind f) as [| w1 l1 i1 o1 | | | | | | |] eqn:Kf;
      try (apply Hdis; destruct (fkind g); exact Hc).
    destruct (fkind g) as [| w2 l2 i2 o2 | | | | | | |] eqn:Kg;
      try (apply Hdis; first [exact Hc | unfold extent; rewrite Kf, ?Kg; exact Hc]).
    destruct ((w1 =? w2)%nat && (l1 =? l2)%nat) eqn:Esame;
      [|apply Hdis; first [exact Hc | unfold extent; rewrite Kf, Kg; exact Hc]].
    (* two bits of the same word *)
    apply andb_true_iff in Esame as [Ew El]. apply Nat.eqb_eq in Ew, El. subst w2 l2.
    apply negb_true_iff, Nat.eqb_neq in Hc.
    destruct Hkf as (Hwin & Hpos & Hi1 & _ & _ & ->). destruct Hkg as (_ & _ & Hi2 & Hgo & Hgl & ->).
    unfold written in Hw. rewrite Kf in Hw. destruct v; try discriminate. apply some_inj in Hw.
    unfold extent in Hs, Hnl. rewrite Kf in Hs, Hnl. cbn [fst snd] in Hs, Hnl.
    pose proof (slice_splice_same _ _ _ _ Hs) as Hword. rewrite Hnl in Hword.
    unfold get. rewrite Kg.
    rewrite (slice_length_same (foff g) (flen g) b b') by lia.
    destruct (negb (length (slice (foff g) (flen g) b) =? flen g)%nat); [reflexivity|].
    rewrite Hword. rewrite Hnl, Nat.eqb_refl. rewrite slice_length by lia. rewrite Nat.eqb_refl.
    cbn [negb bit_view] in *. f_equal.
    set (view := rev (bytes_to_binary (slice w1 l1 b) true)) in *.
    assert (Hvl : length view = (8 * l1)%nat).
    { unfold view. rewrite rev_length, bytes_to_binary_length by (apply slice_bytes; exact Hb).
      rewrite slice_length by lia. reflexivity. }
    subst new. rewrite (binary_bytes_roundtrip _ true l1) by (rewrite rev_length, upd_length; exact Hvl).
    rewrite rev_involutive. apply nth_error_upd_other. exact Hc.
  Qed.
End GetSetOther.

(* ---------- table level ---------- *)
Lemma pairwise_in {A} (r : A -> A -> bool) l : pairwise r l = true ->
  forall x y, In x l -> In y l -> x <> y -> r x y = true \/ r y x = true.
Proof.
  induction l as [|h t IH]; intros Hp x y Hx Hy Hne; [destruct Hx|].
  cbn [pairwise] in Hp. apply andb_true_iff in Hp as [Hh Ht]. rewrite forallb_forall in Hh.
  destruct Hx as [<-|Hx], Hy as [<-|Hy].
  - congruence.
  - left. apply Hh, Hy.
  - right. apply Hh, Hx.
  - apply IH; assumption.
Qed.

Lemma names_unique t : pairwise names_differ t = true ->
  forall f g, In f t -> In g t -> fname f = fname g -> f = g.
Proof.
  induction t as [|h t IH]; intros Hp f g Hf Hg Hn; [destruct Hf|].
  cbn [pairwise] in Hp. apply andb_true_iff in Hp as [Hh Ht]. rewrite forallb_forall in Hh.
  destruct Hf as [<-|Hf], Hg as [<-|Hg].
  - reflexivity.
  - specialize (Hh _ Hg). unfold names_differ in Hh. rewrite Hn, String.eqb_refl in Hh. discriminate.
  - specialize (Hh _ Hf). unfold names_differ in Hh. rewrite Hn, String.eqb_refl in Hh. discriminate.
  - apply IH; assumption.
Qed.

Lemma find_field_some t n f : find_field t n = Some f -> In f t /\ fname f = n.
Proof.
  induction t as [|h t IH]; cbn [find_field]; [discriminate|].
  destruct (String.eqb (fname h) n) eqn:E.
  - intros H. injection H as <-. apply String.eqb_eq in E. split; [left; reflexivity|exact E].
  - intros H. destruct (IH H). split; [right; assumption|assumption].
Qed.

Section Table.
  Variable size : nat.
  Variable t : list field.
  Hypothesis Hok : layout_ok size t = true.

  Lemma table_field_ok f : In f t -> field_ok size f = true.
  Proof.
    intros Hf. unfold layout_ok in Hok. apply andb_true_iff in Hok as [H _].
    apply andb_true_iff in H as [H _]. rewrite forallb_forall in H. auto.
  Qed.

  Lemma table_compat f g : In f t -> In g t -> fname f <> fname g -> compat f g = true.
  Proof.
    intros Hf Hg Hn. unfold layout_ok in Hok. apply andb_true_iff in Hok as [H _].
    apply andb_true_iff in H as [_ H].
    destruct (pairwise_in compat t H f g Hf Hg) as [Hc|Hc]; [congruence|exact Hc|].
    rewrite compat_sym. exact Hc.
  Qed.

  Lemma table_names f g : In f t -> In g t -> fname f = fname g -> f = g.
  Proof.
    unfold layout_ok in Hok. apply andb_true_iff in Hok as [_ H]. apply names_unique. exact H.
  Qed.

  Variable e : axis_env.

  (* enumerated fields keep holding documented codes under every assignment *)
  Theorem enum_ok_preserved f v b b' : In f t -> length b = size -> bytes b ->
    enum_ok t b = true -> set e f v b = Some b' -> enum_ok t b' = true.
  Proof.
    intros Hf Hl Hb He Hs. unfold enum_ok in *. rewrite forallb_forall in *. intros g Hg.
    specialize (He g Hg). unfold enum_field_ok in *.
    destruct (fkind g) as [| | d | | | | | |] eqn:Kg; try reflexivity.
    destruct (string_dec (fname f) (fname g)) as [En|En].
    - (* the assigned field itself *)
      assert (f = g) by (apply table_names; assumption). subst g.
      destruct (get_set_same size f (table_field_ok f Hf) e b Hl Hb v b' Hs) as (w & Hw & ->).
      pose proof (set_accepts size f (table_field_ok f Hf) e b v b' Hs) as Ha.
      unfold accepts in Ha. unfold stored in Hw. rewrite Kg in Ha, Hw.
      destruct Ha as (z & Ez & Ed & _). rewrite Ez in Hw. cbn in Hw. injection Hw as <-. exact Ed.
    - rewrite (get_set_other size f g (table_field_ok f Hf) (table_field_ok g Hg)
                 (table_compat f g Hf Hg En) ltac:(unfold is_view; rewrite Kg; reflexivity) e b Hl Hb v b' Hs).
      exact He.
  Qed.

  (* by-name versions *)
  Lemma setn_some n v b b' : setn t e n v b = Some b' ->
    exists f, find_field t n = Some f /\ In f t /\ fname f = n /\ set e f v b = Some b'.
  Proof.
    unfold setn. destruct (find_field t n) as [f|] eqn:E; [|discriminate].
    intros H. destruct (find_field_some _ _ _ E). eauto.
  Qed.

  (* every state reached from a good block by any sequence of assignments (refused ones included)
     is a good block: right size, bytes, documented codes *)
  Definition good (b : block) : Prop := length b = size /\ bytes b /\ enum_ok t b = true.

  Lemma good_step op b : good b -> good (set_or_keep t e op b).
  Proof.
    intros (Hl & Hb & He). unfold set_or_keep.
    destruct (setn t e (fst op) (snd op) b) as [b'|] eqn:E; [|repeat split; assumption].
    apply setn_some in E as (f & _ & Hf & _ & Hs).
    repeat split.
    - rewrite (set_preserves_length _ _ _ _ _ Hs). exact Hl.
    - eapply set_preserves_bytes; eauto using table_field_ok.
    - eapply enum_ok_preserved; eauto.
  Qed.

  Theorem good_reachable ops : forall b, good b -> good (run_sets t e ops b).
  Proof.
    unfold run_sets. induction ops as [|op ops IH]; intros b Hg; [exact Hg|].
    cbn [fold_left]. apply IH. apply good_step. exact Hg.
  Qed.
End Table.

(* ---------- canonical values are read back exactly ---------- *)
Lemma firstn_upd {A} k (x : A) s : (k < length s)%nat -> firstn (S k) (upd k x s) = firstn k s ++ [x].
Proof.
  revert k; induction s as [|h t IH]; intros [|k] H; cbn in *; try lia; [reflexivity|].
  f_equal. apply IH. lia.
Qed.

Lemma skipn_upd {A} k j (x : A) s : (k < j)%nat -> skipn j (upd k x s) = skipn j s.
Proof.
  revert k j; induction s as [|h t IH]; intros [|k] [|j] H; cbn; try reflexivity; try lia.
  apply IH. lia.
Qed.

Lemma place_seq {A : Type} : forall (l : list bool) k (s : list bool), (k + length l <= length s)%nat ->
  place (seq k (length l)) l s = firstn k s ++ l ++ skipn (k + length l) s.
Proof.
  induction l as [|x l IH]; intros k s H.
  - cbn [length seq place app]. rewrite Nat.add_0_r. symmetry. apply firstn_skipn.
  - cbn [length seq place] in *. rewrite IH by (rewrite upd_length; lia).
    rewrite firstn_upd by lia. rewrite skipn_upd by lia. rewrite <- app_assoc. cbn [app].
    replace (S k + length l)%nat with (k + S (length l))%nat by lia. reflexivity.
Qed.

Theorem canonical_read_back size f e b v b' : field_ok size f = true -> length b = size -> bytes b ->
  canonical e f v -> set e f v b = Some b' -> get f b' = Some v.
Proof.
  intros Hok Hl Hb Hc Hs.
  destruct (get_set_same size f Hok e b Hl Hb v b' Hs) as (w & Hw & ->). f_equal.
  pose proof (set_accepts size f Hok e b v b' Hs) as Ha.
  unfold canonical in Hc. unfold stored in Hw. unfold accepts in Ha.
  destruct (fkind f) as [| woff wlen idx o | d | c | | | n pos | |]; try destruct c; destruct v; cbv beta iota in Hc;
    try contradiction;
    cbn [as_int as_f64 option_map] in *.
  - congruence.
  - congruence.
  - congruence.
  - injection Hw as <-. unfold clamp. f_equal. lia.
  - congruence.
  - destruct Ha as (r & Er). rewrite Er in Hw. apply fits_some in Er as [-> _]. cbn in Hw. congruence.
  - destruct Hc as [-> Hn8]. destruct Ha as (l' & El & Hn).
    assert (l' = l) by congruence. subst l'.
    rewrite <- Hn8 in Hw. apply some_inj in Hw. subst w. f_equal.
    rewrite <- Hn. rewrite (place_seq (A := bool)) by (rewrite repeat_length; lia).
    cbn [firstn app]. rewrite skipn_all2 by (rewrite repeat_length; lia). apply app_nil_r.
  - destruct Ha as (ma & mi & E & Ra & Ri). injection E as <- <-. injection Hw as <-.
    destruct Hc. rewrite !Z.mod_small by lia. reflexivity.
Qed.
