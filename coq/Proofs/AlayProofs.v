(* C16 (tag Alay) — lemmas. *)
From Coq Require Import String.
From DS Require Import Base.Prelude Base.Bits Model.Utils Proofs.UtilsProofs Model.AlayModel Model.AlayGolden Gen.AlayLayout.

Lemma gen_is_golden_gs : AlayLayout.gs_table = AlayGolden.gs_table /\ AlayLayout.gs_size = AlayGolden.gs_size.
Proof. split; vm_compute; reflexivity. Qed.
