(* Weather station: the buffer invariant over all reachable states, the full resynchronisation
   theorem, and the byte-level statements of C02 / C04 / C05. *)
From DS Require Import Base.Prelude Model.SmbCommon Model.SmbWeather Proofs.SmbCommon Proofs.SmbWeather.

(* ---------------------------------------------------------------- buffer map algebra *)
Lemma buf_get_del t t' m : buf_get t' (buf_del t m) = if t =? t' then None else buf_get t' m.
Proof.
  destruct (t =? t') eqn:E.
  - apply Z.eqb_eq in E. subst t'. apply buf_get_del_same.
  - apply buf_get_del_other. lia.
Qed.

Lemma buf_get_set t t' v m : buf_get t' (buf_set t v m) = if t =? t' then Some v else buf_get t' m.
Proof.
  unfold buf_set. cbn [buf_get]. destruct (t =? t') eqn:E; [reflexivity|].
  rewrite buf_get_del, E. reflexivity.
Qed.

(* ---------------------------------------------------------------- str.strip() *)
Lemma lstrip_suffix u : exists w, u = w ++ lstrip u.
Proof.
  induction u as [|a u (w & E)]; [exists []; reflexivity|]. cbn.
  destruct (is_space a); [exists (a :: w); cbn; f_equal; exact E | exists []; reflexivity].
Qed.

Lemma lstrip_nonspace c x : is_space c = false -> lstrip (c :: x) = c :: x.
Proof. intros H. cbn. rewrite H. reflexivity. Qed.

Lemma lstrip_app_nonspace u c : is_space c = false -> lstrip (u ++ [c]) = lstrip u ++ [c].
Proof.
  intros H. induction u as [|a u IH]; cbn; [rewrite H; reflexivity|].
  destruct (is_space a); [exact IH | reflexivity].
Qed.

(* the text kept by strip() after a leading non-space character is a prefix of what followed it *)
Lemma strip_head c x : is_space c = false -> exists p w, strip (c :: x) = c :: p /\ x = p ++ w.
Proof.
  intros H. unfold strip. rewrite lstrip_nonspace by exact H. cbn [rev].
  rewrite lstrip_app_nonspace by exact H. rewrite rev_app_distr. cbn [rev app].
  destruct (lstrip_suffix (rev x)) as [w E].
  exists (rev (lstrip (rev x))), (rev w). split; [reflexivity|].
  rewrite <- rev_app_distr, <- E, rev_involutive. reflexivity.
Qed.

(* a text without trailing whitespace followed by the terminator: strip() removes the terminator *)
Lemma strip_clean_lf c x : is_space c = false ->
  (forall y ys, rev x = y :: ys -> is_space y = false) -> strip (c :: x ++ [LF]) = c :: x.
Proof.
  intros Hc Hx. unfold strip. rewrite lstrip_nonspace by exact Hc.
  change (c :: x ++ [LF]) with ((c :: x) ++ [LF]). rewrite rev_app_distr.
  change (rev [LF] ++ rev (c :: x)) with (LF :: (rev x ++ [c])).
  change (lstrip (LF :: (rev x ++ [c]))) with (lstrip (rev x ++ [c])).
  destruct (rev x) as [|y ys] eqn:E.
  - cbn [app]. rewrite lstrip_nonspace by exact Hc. apply (f_equal (@rev Z)) in E.
    rewrite rev_involutive in E. subst x. reflexivity.
  - cbn [app]. rewrite lstrip_nonspace by (eapply Hx; reflexivity).
    change (y :: ys ++ [c]) with ((y :: ys) ++ [c]). rewrite <- E, rev_app_distr, rev_involutive. reflexivity.
Qed.

(* ---------------------------------------------------------------- the invariant *)
Definition cmd_letter (c : Z) : Prop := c = R_CHAR \/ c = W_CHAR.
Definition buf_ok (m : list Z) : Prop :=
  exists c, cmd_letter c /\ (m = [c] \/ exists rest, m = c :: SP :: rest).
Definition ws_inv (d : wsdev) : Prop := forall t m, buf_get t (bufs d) = Some m -> buf_ok m.

Lemma cmd_letter_nonspace c : cmd_letter c -> is_space c = false.
Proof. intros [-> | ->]; reflexivity. Qed.

Lemma ws_first_token c rest : is_space c = false ->
  exists toks, split_ws (strip (c :: SP :: rest)) = [c] :: toks.
Proof.
  intros H. destruct (strip_head c (SP :: rest) H) as (p & w & E & Hx). rewrite E.
  destruct p as [|y p'].
  - exists []. unfold split_ws. cbn [split_by]. rewrite H. reflexivity.
  - cbn [app] in Hx. injection Hx as <- _. unfold split_ws.
    change (c :: SP :: p') with ([c] ++ SP :: p'). rewrite split_by_app_sep.
    + cbn [filter nonempty]. eexists; reflexivity.
    + intros x [<-|[]]. exact H.
    + reflexivity.
Qed.

Section WithOracle.
  Variable fmt : list Z -> option (list Z).

  (* a completed line whose first token is the command letter: the thread's entry is removed,
     unless the oracle lacks the value token *)
  Lemma ws_line_bufs d t m c toks : cmd_letter c -> split_ws (strip m) = [c] :: toks ->
    bufs (fst (ws_line fmt d t m)) = buf_del t (bufs d) \/ ws_line fmt d t m = (d, ONoOracle).
  Proof.
    intros Hc E. unfold ws_line. rewrite E.
    destruct toks as [|a1 [|a2 [|a3 [|a4 r]]]]; destruct Hc as [-> | ->];
      unfold R_CHAR, W_CHAR; cbn; try (left; reflexivity).
    destruct (fmt a2); [left; reflexivity | right; reflexivity].
  Qed.

  Lemma ws_line_oracle d t m : (forall x, fmt x <> None) -> snd (ws_line fmt d t m) <> ONoOracle.
  Proof.
    intros Ht. unfold ws_line.
    destruct (split_ws (strip m)) as [|a0 [|a1 [|a2 [|a3 [|a4 r]]]]]; cbn [snd];
      repeat match goal with
             | |- context [if ?c then _ else _] => destruct c; cbn [snd]
             end; try discriminate.
    destruct (fmt a2) eqn:E; [discriminate | exfalso; exact (Ht _ E)].
  Qed.

  (* what one step does to the buffer map, under the invariant *)
  Lemma ws_step_bufs d t b : ws_inv d ->
    (exists m, buf_ok m /\ bufs (fst (ws_step fmt d t b)) = buf_set t m (bufs d)) \/
    bufs (fst (ws_step fmt d t b)) = buf_del t (bufs d) \/
    ws_step fmt d t b = (d, ONoOracle).
  Proof.
    intros Hinv. unfold ws_step. destruct (buf_get t (bufs d)) as [cur|] eqn:Eg.
    - destruct (Hinv t cur Eg) as (c & Hc & [-> | (rest & ->)]).
      + cbn [app]. destruct (b =? SP) eqn:E; [|right; left; reflexivity].
        apply Z.eqb_eq in E. subst b. left. exists [c; SP]. split; [|reflexivity].
        exists c. split; [exact Hc | right; exists []; reflexivity].
      + cbn [app]. destruct (rest ++ [b]) as [|z zs] eqn:Er; [destruct rest; discriminate|].
        destruct (b =? LF) eqn:E.
        * rewrite <- Er. destruct (ws_first_token c (rest ++ [b]) (cmd_letter_nonspace c Hc)) as [toks Et].
          destruct (ws_line_bufs d t (c :: SP :: rest ++ [b]) c toks Hc Et) as [H|H]; auto.
        * left. exists (c :: SP :: z :: zs). split; [|reflexivity].
          exists c. split; [exact Hc | right; eexists; reflexivity].
    - cbn [app]. destruct ((b =? R_CHAR) || (b =? W_CHAR)) eqn:E; [|right; left; reflexivity].
      left. exists [b]. split; [|reflexivity]. exists b. split; [|left; reflexivity].
      apply orb_true_iff in E as [E|E]; apply Z.eqb_eq in E; [left | right]; exact E.
  Qed.

  Lemma ws_step_inv d t b : ws_inv d -> ws_inv (fst (ws_step fmt d t b)).
  Proof.
    intros Hinv t' m' Hget.
    destruct (ws_step_bufs d t b Hinv) as [(m & Hm & E)|[E|E]].
    - rewrite E, buf_get_set in Hget. destruct (t =? t'); [injection Hget as <-; exact Hm | eauto].
    - rewrite E, buf_get_del in Hget. destruct (t =? t'); [discriminate | eauto].
    - rewrite E in Hget. eauto.
  Qed.

  Lemma ws_init_inv cfg : ws_inv (ws_init cfg).
  Proof. intros t m H. discriminate. Qed.

  Lemma ws_run_inv ops : forall d, ws_inv d -> ws_inv (fst (ws_run fmt d ops)).
  Proof.
    induction ops as [|[t b] r IH]; intros d H; cbn [ws_run fst]; [exact H|].
    apply IH. apply ws_step_inv. exact H.
  Qed.

  (* C03, full: under the invariant the terminator leaves the thread idle *)
  Lemma ws_resync_inv d t : ws_inv d -> (forall x, fmt x <> None) ->
    ws_idle (fst (ws_step fmt d t LF)) t = true.
  Proof.
    intros Hinv Ht. unfold ws_idle.
    assert (Hdel : forall d', bufs d' = buf_del t (bufs d) -> buf_get t (bufs d') = None).
    { intros d' E. rewrite E. apply buf_get_del_same. }
    unfold ws_step. destruct (buf_get t (bufs d)) as [cur|] eqn:Eg.
    - destruct (Hinv t cur Eg) as (c & Hc & [-> | (rest & ->)]).
      + cbn [app]. change (LF =? SP) with false. cbv iota. cbn [fst bufs]. rewrite buf_get_del_same. reflexivity.
      + cbn [app]. destruct (rest ++ [LF]) as [|z zs] eqn:Er; [destruct rest; discriminate|].
        change (LF =? LF) with true. cbv iota. rewrite <- Er.
        destruct (ws_first_token c (rest ++ [LF]) (cmd_letter_nonspace c Hc)) as [toks Et].
        destruct (ws_line_bufs d t (c :: SP :: rest ++ [LF]) c toks Hc Et) as [H|H].
        * rewrite (Hdel _ H). reflexivity.
        * exfalso. apply (ws_line_oracle d t (c :: SP :: rest ++ [LF]) Ht). rewrite H. reflexivity.
    - cbn [app]. change ((LF =? R_CHAR) || (LF =? W_CHAR)) with false. cbv iota. cbn [fst bufs].
      rewrite buf_get_del_same. reflexivity.
  Qed.

  Lemma ws_resync_reachable cfg ops t : (forall x, fmt x <> None) ->
    ws_idle (fst (ws_step fmt (fst (ws_run fmt (ws_init cfg) ops)) t LF)) t = true.
  Proof. intros Ht. apply ws_resync_inv; [apply ws_run_inv, ws_init_inv | exact Ht]. Qed.

  (* no reachable TypeError: no step from a state satisfying the invariant raises *)
  Lemma ws_line_no_exception d t m c toks e : cmd_letter c -> split_ws (strip m) = [c] :: toks ->
    snd (ws_line fmt d t m) <> OException e.
  Proof.
    intros Hc E. unfold ws_line. rewrite E.
    destruct toks as [|a1 [|a2 [|a3 [|a4 r]]]]; destruct Hc as [-> | ->];
      unfold R_CHAR, W_CHAR; cbn; try discriminate.
    destruct (fmt a2); discriminate.
  Qed.

  Lemma ws_step_no_exception d t b e : ws_inv d -> snd (ws_step fmt d t b) <> OException e.
  Proof.
    intros Hinv. unfold ws_step. destruct (buf_get t (bufs d)) as [cur|] eqn:Eg.
    - destruct (Hinv t cur Eg) as (c & Hc & [-> | (rest & ->)]).
      + cbn [app]. destruct (b =? SP); discriminate.
      + cbn [app]. destruct (rest ++ [b]) as [|z zs] eqn:Er; [destruct rest; discriminate|].
        destruct (b =? LF); [|discriminate]. rewrite <- Er.
        destruct (ws_first_token c (rest ++ [b]) (cmd_letter_nonspace c Hc)) as [toks Et].
        eapply ws_line_no_exception; eauto.
    - cbn [app]. destruct ((b =? R_CHAR) || (b =? W_CHAR)); discriminate.
  Qed.
End WithOracle.

(* ================================================================ byte-level commands *)
Definition ws_token (tok : list Z) : Prop := tok <> [] /\ forall x, In x tok -> is_space x = false.

Fixpoint join_sp (l : list (list Z)) : list Z :=
  match l with
  | [] => []
  | [x] => x
  | x :: r => x ++ SP :: join_sp r
  end.

Lemma split_ws_token_cons tok rest : ws_token tok -> split_ws (tok ++ SP :: rest) = tok :: split_ws rest.
Proof.
  intros [Hne Ht]. unfold split_ws. rewrite split_by_app_sep; [| exact Ht | reflexivity].
  cbn [filter]. destruct tok; [contradiction | reflexivity].
Qed.

Lemma split_ws_token tok : ws_token tok -> split_ws tok = [tok].
Proof.
  intros [Hne Ht]. unfold split_ws. rewrite split_by_nosep by exact Ht.
  cbn [filter]. destruct tok; [contradiction | reflexivity].
Qed.

Lemma split_ws_join toks : Forall ws_token toks -> split_ws (join_sp toks) = toks.
Proof.
  induction 1 as [|x r Hx Hr IH]; [reflexivity|].
  destruct r as [|y r']; [apply split_ws_token; exact Hx|].
  change (join_sp (x :: y :: r')) with (x ++ SP :: join_sp (y :: r')).
  rewrite split_ws_token_cons by exact Hx. rewrite IH. reflexivity.
Qed.

Lemma join_sp_nospace_lf toks x : Forall ws_token toks -> In x (join_sp toks) -> x <> LF.
Proof.
  induction 1 as [|t r Ht Hr IH]; [intros []|].
  destruct r as [|y r'].
  - cbn. intros Hin ->. apply Ht in Hin. discriminate.
  - change (join_sp (t :: y :: r')) with (t ++ SP :: join_sp (y :: r')). intros Hin.
    apply in_app_or in Hin as [Hin|[<-|Hin]]; [| discriminate | apply IH; exact Hin].
    intros ->. apply Ht in Hin. discriminate.
Qed.

Lemma rev_head_in (pre tok : list Z) y ys : tok <> [] -> rev (pre ++ tok) = y :: ys -> In y tok.
Proof.
  intros Hne E. rewrite rev_app_distr in E. destruct (rev tok) as [|z zs] eqn:Er.
  - apply (f_equal (@rev Z)) in Er. rewrite rev_involutive in Er. contradiction.
  - cbn in E. injection E as <- _. apply in_rev. rewrite Er. left. reflexivity.
Qed.

Lemma join_sp_last toks pre y ys : toks <> [] -> Forall ws_token toks ->
  rev (pre ++ join_sp toks) = y :: ys -> is_space y = false.
Proof.
  intros Hne H. revert pre. induction H as [|t r Ht Hr IH]; [contradiction|]. intros pre E.
  destruct r as [|u r'].
  - cbn [join_sp] in E. destruct Ht as [Hn Hs]. apply Hs. eapply rev_head_in; eauto.
  - change (join_sp (t :: u :: r')) with (t ++ SP :: join_sp (u :: r')) in E.
    replace (pre ++ t ++ SP :: join_sp (u :: r')) with ((pre ++ t ++ [SP]) ++ join_sp (u :: r')) in E
      by (rewrite <- !app_assoc; reflexivity).
    eapply IH; [discriminate | exact E].
Qed.

Lemma on_thread_app t a b : on_thread t (a ++ b) = on_thread t a ++ on_thread t b.
Proof. apply map_app. Qed.

Section Commands.
  Variable fmt : list Z -> option (list Z).

  Lemma ws_run_app d a b :
    ws_run fmt d (a ++ b) =
      (fst (ws_run fmt (fst (ws_run fmt d a)) b), snd (ws_run fmt d a) ++ snd (ws_run fmt (fst (ws_run fmt d a)) b)).
  Proof.
    revert d; induction a as [|[t x] a IH]; intros d; cbn [app ws_run fst snd].
    - destruct (ws_run fmt d b); reflexivity.
    - rewrite IH. reflexivity.
  Qed.

  (* the state of the world as seen by thread t after feeding bytes: its buffer, the sensors, the
     other threads' buffers *)
  Definition ws_view (d d' : wsdev) (t : Z) (buf : option (list Z)) : Prop :=
    buf_get t (bufs d') = buf /\ sensors d' = sensors d /\
    forall t', t' <> t -> buf_get t' (bufs d') = buf_get t' (bufs d).

  Lemma ws_feed_body xs : forall d c pre t, buf_get t (bufs d) = Some (c :: SP :: pre) ->
    (forall x, In x xs -> x <> LF) ->
    exists d', ws_run fmt d (on_thread t xs) = (d', repeat OTrue (length xs)) /\
               ws_view d d' t (Some (c :: SP :: pre ++ xs)).
  Proof.
    induction xs as [|x xs IH]; intros d c pre t Hb Hx.
    - exists d. split; [reflexivity|]. rewrite app_nil_r. repeat split; auto.
    - cbn [on_thread map ws_run].
      assert (Es : ws_step fmt d t x = (mkWs (buf_set t (c :: SP :: pre ++ [x]) (bufs d)) (sensors d), OTrue)).
      { unfold ws_step. rewrite Hb. cbn [app]. destruct (pre ++ [x]) as [|z zs] eqn:Er; [destruct pre; discriminate|].
        destruct (x =? LF) eqn:E; [apply Z.eqb_eq in E; exfalso; exact (Hx x (or_introl eq_refl) E) | reflexivity]. }
      fold (on_thread t xs). rewrite Es. cbn [fst snd].
      destruct (IH (mkWs (buf_set t (c :: SP :: pre ++ [x]) (bufs d)) (sensors d)) c (pre ++ [x]) t) as (d' & Er & Hv & Hs & Ho).
      + cbn [bufs]. rewrite buf_get_set, Z.eqb_refl. reflexivity.
      + intros y Hy. apply Hx. right. exact Hy.
      + exists d'. rewrite Er. cbn [fst snd length repeat]. split; [reflexivity|].
        rewrite <- app_assoc in Hv. repeat split; auto.
        intros t' Ht. rewrite Ho by exact Ht. cbn [bufs]. rewrite buf_get_set.
        destruct (t =? t') eqn:E; [lia | reflexivity].
  Qed.

  Lemma ws_feed_header d t c : ws_idle d t = true -> cmd_letter c ->
    exists d', ws_run fmt d (on_thread t [c; SP]) = (d', [OTrue; OTrue]) /\ ws_view d d' t (Some [c; SP]).
  Proof.
    intros Hi Hc. unfold ws_idle in Hi. destruct (buf_get t (bufs d)) eqn:Eg; [discriminate|].
    assert (El : (c =? R_CHAR) || (c =? W_CHAR) = true) by (destruct Hc as [-> | ->]; reflexivity).
    assert (E1 : ws_step fmt d t c = (mkWs (buf_set t [c] (bufs d)) (sensors d), OTrue)).
    { unfold ws_step. rewrite Eg. cbn [app]. rewrite El. reflexivity. }
    assert (E2 : ws_step fmt (mkWs (buf_set t [c] (bufs d)) (sensors d)) t SP =
                 (mkWs (buf_set t [c; SP] (buf_set t [c] (bufs d))) (sensors d), OTrue)).
    { unfold ws_step. cbn [bufs]. rewrite buf_get_set, Z.eqb_refl. cbn [app]. reflexivity. }
    cbn [on_thread map ws_run]. rewrite E1. cbn [fst snd]. rewrite E2. cbn [fst snd].
    eexists. split; [reflexivity|]. repeat split.
    - cbn [bufs]. rewrite buf_get_set, Z.eqb_refl. reflexivity.
    - intros t' Ht. cbn [bufs]. rewrite !buf_get_set. destruct (t =? t') eqn:E; [lia | reflexivity].
  Qed.

  (* a whole command `<letter> <tok> ... <tok>` LF from an idle thread reaches ws_line with the
     expected tokens, whatever the other threads hold *)
  Lemma ws_command d t c toks : ws_idle d t = true -> cmd_letter c -> toks <> [] -> Forall ws_token toks ->
    exists d1,
      ws_view d d1 t (Some (c :: SP :: join_sp toks)) /\
      split_ws (strip ((c :: SP :: join_sp toks) ++ [LF])) = [c] :: toks /\
      ws_run fmt d (on_thread t ((c :: SP :: join_sp toks) ++ [LF])) =
        (fst (ws_line fmt d1 t ((c :: SP :: join_sp toks) ++ [LF])),
         repeat OTrue (2 + length (join_sp toks)) ++ [snd (ws_line fmt d1 t ((c :: SP :: join_sp toks) ++ [LF]))]).
  Proof.
    intros Hi Hc Hne Htoks.
    destruct (ws_feed_header d t c Hi Hc) as (d0 & E0 & Hb0 & Hs0 & Ho0).
    destruct (ws_feed_body (join_sp toks) d0 c [] t Hb0) as (d1 & E1 & Hb1 & Hs1 & Ho1).
    { intros x Hx. eapply join_sp_nospace_lf; eauto. }
    cbn [app] in Hb1. exists d1. split; [|split].
    - repeat split; [exact Hb1 | congruence |]. intros t' Ht. rewrite Ho1, Ho0 by exact Ht. reflexivity.
    - change ((c :: SP :: join_sp toks) ++ [LF]) with (c :: (SP :: join_sp toks) ++ [LF]).
      rewrite strip_clean_lf.
      + change (c :: SP :: join_sp toks) with ([c] ++ SP :: join_sp toks).
        rewrite split_ws_token_cons.
        2:{ split; [discriminate | intros x [<-|[]]; apply cmd_letter_nonspace; exact Hc]. }
        rewrite split_ws_join by exact Htoks. reflexivity.
      + apply cmd_letter_nonspace. exact Hc.
      + intros y ys E. change (SP :: join_sp toks) with ([SP] ++ join_sp toks) in E.
        eapply join_sp_last; eauto.
    - change ((c :: SP :: join_sp toks) ++ [LF]) with ([c; SP] ++ join_sp toks ++ [LF]).
      rewrite !on_thread_app, ws_run_app, E0. cbn [fst snd]. rewrite ws_run_app, E1. cbn [fst snd].
      cbn [on_thread map ws_run fst snd].
      assert (Es : ws_step fmt d1 t LF = ws_line fmt d1 t (c :: SP :: join_sp toks ++ [LF])).
      { unfold ws_step. rewrite Hb1. cbn [app].
        destruct (join_sp toks ++ [LF]) as [|z zs] eqn:Er; [destruct (join_sp toks); discriminate|].
        change (LF =? LF) with true. reflexivity. }
      rewrite Es. cbn [app Nat.add repeat]. reflexivity.
  Qed.

  Lemma ws_line_read d t m id : split_ws (strip m) = [[R_CHAR]; id] ->
    ws_line fmt d t m = (mkWs (buf_del t (bufs d)) (sensors d), OReply (ws_read (sensors d) id)).
  Proof. intros E. unfold ws_line. rewrite E. reflexivity. Qed.

  Lemma ws_line_write d t m id tok date v : split_ws (strip m) = [[W_CHAR]; id; tok; date] -> fmt tok = Some v ->
    ws_line fmt d t m =
      (mkWs (buf_del t (bufs d)) (sen_update id v date (sensors d)),
       OReply (ws_read (sen_update id v date (sensors d)) id)).
  Proof. intros E Hv. unfold ws_line. rewrite E. cbn. rewrite Hv. reflexivity. Qed.

  (* C02: the query `r <id>` LF from an idle thread: exactly one reply, the sensor row or the error
     string; the thread is idle again, nothing else changed *)
  Lemma ws_query_answered d t id : ws_idle d t = true -> ws_token id ->
    exists d', ws_run fmt d (on_thread t (ws_query id)) =
                 (d', repeat OTrue (2 + length id) ++ [OReply (ws_read (sensors d) id)]) /\
               ws_view d d' t None.
  Proof.
    intros Hi Hid.
    destruct (ws_command d t R_CHAR [id] Hi (or_introl eq_refl)) as (d1 & (Hb & Hs & Ho) & Esp & Er);
      [discriminate | constructor; [exact Hid | constructor] |].
    cbn [join_sp] in *. unfold ws_query. change ([R_CHAR; SP] ++ id ++ [LF]) with ((R_CHAR :: SP :: id) ++ [LF]).
    rewrite Er, (ws_line_read d1 t _ id Esp), Hs. cbn [fst snd].
    eexists. split; [reflexivity|]. repeat split; cbn [bufs sensors].
    - apply buf_get_del_same.
    - intros t' Ht. rewrite buf_get_del. destruct (t =? t') eqn:E; [lia | auto].
  Qed.

  (* C05: the write `w <id> <tok> <date>` LF from an idle thread *)
  Lemma ws_write_done d t id tok date v : ws_idle d t = true ->
    ws_token id -> ws_token tok -> ws_token date -> fmt tok = Some v ->
    let l' := sen_update id v date (sensors d) in
    exists d', ws_run fmt d (on_thread t ((W_CHAR :: SP :: join_sp [id; tok; date]) ++ [LF])) =
                 (d', repeat OTrue (2 + length (join_sp [id; tok; date])) ++ [OReply (ws_read l' id)]) /\
               sensors d' = l' /\ buf_get t (bufs d') = None /\
               forall t', t' <> t -> buf_get t' (bufs d') = buf_get t' (bufs d).
  Proof.
    intros Hi Hid Htok Hdate Hv l'.
    destruct (ws_command d t W_CHAR [id; tok; date] Hi (or_intror eq_refl)) as (d1 & (Hb & Hs & Ho) & Esp & Er);
      [discriminate | constructor; [exact Hid | constructor; [exact Htok | constructor; [exact Hdate | constructor]]] |].
    rewrite Er, (ws_line_write d1 t _ id tok date v Esp Hv), Hs. cbn [fst snd].
    eexists. split; [reflexivity|]. repeat split; cbn [bufs sensors].
    - apply buf_get_del_same.
    - intros t' Ht. rewrite buf_get_del. destruct (t =? t') eqn:E; [lia | auto].
  Qed.
End Commands.

(* ================================================================ C05: frame over histories *)
Section Frame.
  Variable fmt : list Z -> option (list Z).

  Lemma ws_line_frame d t m id :
    match split_ws (strip m) with
    | [a0; a1; _; _] => if zlist_eqb a0 [W_CHAR] then Some a1 else None
    | _ => None
    end <> Some id ->
    sen_find id (sensors (fst (ws_line fmt d t m))) = sen_find id (sensors d).
  Proof.
    unfold ws_line. destruct (split_ws (strip m)) as [|a0 [|a1 [|a2 [|a3 [|a4 r]]]]]; intros H; cbn [fst sensors];
      repeat match goal with
             | |- context [if ?c then _ else _] => destruct c eqn:?; cbn [fst sensors]
             end; try reflexivity.
    destruct (fmt a2); [|reflexivity]. cbn [fst sensors]. apply sen_update_other. congruence.
  Qed.

  Lemma ws_step_frame d t b id : ws_written d t b <> Some id ->
    sen_find id (sensors (fst (ws_step fmt d t b))) = sen_find id (sensors d).
  Proof.
    unfold ws_written, ws_step.
    destruct ((match buf_get t (bufs d) with Some v => v | None => [] end) ++ [b]) as [|x [|y [|z r]]] eqn:Em; intros H.
    - apply app_eq_nil in Em as [_ Em]; discriminate.
    - destruct ((b =? R_CHAR) || (b =? W_CHAR)); reflexivity.
    - destruct (b =? SP); reflexivity.
    - destruct (b =? LF); [|reflexivity]. apply ws_line_frame. exact H.
  Qed.

  Lemma ws_run_frame id ops : forall d, ws_no_write fmt id d ops ->
    sen_find id (sensors (fst (ws_run fmt d ops))) = sen_find id (sensors d).
  Proof.
    induction ops as [|[t b] r IH]; intros d H; cbn [ws_run fst]; [reflexivity|].
    destruct H as [H1 H2]. rewrite IH by exact H2. apply ws_step_frame. exact H1.
  Qed.

  (* a step that does not complete a write leaves the whole sensor table unchanged: in particular
     every refused command (wrong argument count, read with write arguments, bad header ...) *)
  Lemma ws_line_not_write d t m :
    match split_ws (strip m) with
    | [a0; a1; _; _] => if zlist_eqb a0 [W_CHAR] then Some a1 else None
    | _ => None
    end = None ->
    sensors (fst (ws_line fmt d t m)) = sensors d.
  Proof.
    unfold ws_line. destruct (split_ws (strip m)) as [|a0 [|a1 [|a2 [|a3 [|a4 r]]]]]; intros H; cbn [fst sensors];
      repeat match goal with
             | |- context [if ?c then _ else _] => destruct c eqn:?; cbn [fst sensors]
             end; try reflexivity; discriminate.
  Qed.

  Lemma ws_step_not_write d t b : ws_written d t b = None -> sensors (fst (ws_step fmt d t b)) = sensors d.
  Proof.
    unfold ws_written, ws_step.
    destruct ((match buf_get t (bufs d) with Some v => v | None => [] end) ++ [b]) as [|x [|y [|z r]]] eqn:Em; intros H.
    - apply app_eq_nil in Em as [_ Em]; discriminate.
    - destruct ((b =? R_CHAR) || (b =? W_CHAR)); reflexivity.
    - destruct (b =? SP); reflexivity.
    - destruct (b =? LF); [|reflexivity]. apply ws_line_not_write. exact H.
  Qed.

  (* a write to a sensor that does not exist changes nothing *)
  Lemma ws_step_unknown d t b id : ws_written d t b = Some id -> sen_find id (sensors d) = None ->
    sensors (fst (ws_step fmt d t b)) = sensors d.
  Proof.
    unfold ws_written, ws_step.
    destruct ((match buf_get t (bufs d) with Some v => v | None => [] end) ++ [b]) as [|x [|y [|z r]]] eqn:Em;
      intros H Hf; try discriminate; [apply app_eq_nil in Em as [_ Em]; discriminate|].
    destruct (b =? LF); [|discriminate]. unfold ws_line.
    destruct (split_ws (strip (x :: y :: z :: r))) as [|a0 [|a1 [|a2 [|a3 [|a4 r']]]]]; try discriminate.
    destruct (zlist_eqb a0 [W_CHAR]); [|discriminate]. injection H as ->.
    destruct (fmt a2); [|reflexivity]. cbn [fst sensors]. apply sen_update_unknown. exact Hf.
  Qed.

  Definition ws_enc (id v date : list Z) (s : sensor) : list Z := ws_row_text id v date (sinfo s).

  Lemma ws_read_updated l id v date s : sen_find id l = Some s ->
    ws_read (sen_update id v date l) id = ws_enc id v date s.
  Proof.
    intros H. unfold ws_read. rewrite (sen_update_found id v date l s H). reflexivity.
  Qed.

  (* C05 at byte level: acknowledged write of (value, date) to an existing sensor from an idle
     thread; ANY operations of ANY threads none of which completes a write to that sensor; the
     read-back from any idle thread returns the written value and date *)
  Lemma ws_readback d t id tok date v s : ws_idle d t = true ->
    ws_token id -> ws_token tok -> ws_token date -> fmt tok = Some v -> sen_find id (sensors d) = Some s ->
    exists d1,
      ws_run fmt d (on_thread t ((W_CHAR :: SP :: join_sp [id; tok; date]) ++ [LF])) =
        (d1, repeat OTrue (2 + length (join_sp [id; tok; date])) ++ [OReply (ws_enc id v date s)]) /\
      forall ops t2, ws_no_write fmt id d1 ops ->
        let d2 := fst (ws_run fmt d1 ops) in
        ws_idle d2 t2 = true ->
        snd (ws_run fmt d2 (on_thread t2 (ws_query id))) =
          repeat OTrue (2 + length id) ++ [OReply (ws_enc id v date s)].
  Proof.
    intros Hi Hid Htok Hdate Hv Hs.
    destruct (ws_write_done fmt d t id tok date v Hi Hid Htok Hdate Hv) as (d1 & Er & Hsens & _ & _).
    cbn zeta in *. exists d1. split.
    - rewrite Er. rewrite (ws_read_updated _ id v date s Hs). reflexivity.
    - intros ops t2 Hnw Hi2.
      destruct (ws_query_answered fmt _ t2 id Hi2 Hid) as (d3 & Eq & _). rewrite Eq. cbn [snd].
      f_equal. f_equal. f_equal. unfold ws_read.
      rewrite (ws_run_frame id ops d1 Hnw), Hsens, (sen_update_found id v date _ s Hs). reflexivity.
  Qed.
End Frame.

(* ================================================================ C04: reply shape and echo *)
Section Replies.
  Variable fmt : list Z -> option (list Z).

  Lemma ws_read_wf l id : ws_reply_wf (ws_read l id).
  Proof.
    destruct (ws_read_cases l id) as [[_ E]|(s & _ & E)]; rewrite E; [left; reflexivity|].
    right. exists id, (sval s), (sdate s), (sinfo s). reflexivity.
  Qed.

  (* every reply: emitted on the terminator only, well-formed, and it names (echoes) the sensor
     token of the command line it answers *)
  Lemma ws_step_reply d t b d' r : ws_step fmt d t b = (d', OReply r) ->
    b = LF /\
    exists a0 id more,
      split_ws (strip ((match buf_get t (bufs d) with Some v => v | None => [] end) ++ [LF])) = a0 :: id :: more /\
      r = ws_read (sensors d') id.
  Proof.
    unfold ws_step.
    destruct ((match buf_get t (bufs d) with Some v => v | None => [] end) ++ [b]) as [|x [|y [|z rest]]] eqn:Em.
    - apply app_eq_nil in Em as [_ Em]; discriminate.
    - destruct ((b =? R_CHAR) || (b =? W_CHAR)); discriminate.
    - destruct (b =? SP); discriminate.
    - destruct (b =? LF) eqn:Eb; [|discriminate]. apply Z.eqb_eq in Eb. subst b. intros H.
      split; [reflexivity|]. rewrite Em. unfold ws_line in H.
      destruct (split_ws (strip (x :: y :: z :: rest))) as [|a0 [|a1 [|a2 [|a3 [|a4 r']]]]];
        repeat match type of H with
               | context [if ?c then _ else _] => destruct c
               | context [match fmt ?q with _ => _ end] => destruct (fmt q)
               end; try discriminate; injection H as <- <-; do 3 eexists; split; reflexivity.
  Qed.

  Lemma ws_step_reply_wf d t b d' r : ws_step fmt d t b = (d', OReply r) -> b = LF /\ ws_reply_wf r.
  Proof.
    intros H. destruct (ws_step_reply d t b d' r H) as (Hb & a0 & id & more & _ & ->).
    split; [exact Hb | apply ws_read_wf].
  Qed.
End Replies.

(* the boolean decoder used on the implementation's replies accepts everything the proposition
   describes *)
Lemma starts_with_app p r : starts_with p (p ++ r) = Some r.
Proof. induction p as [|x p IH]; cbn; [reflexivity|]. rewrite Z.eqb_refl. exact IH. Qed.

Lemma starts_with_some p : forall s r, starts_with p s = Some r -> s = p ++ r.
Proof.
  induction p as [|x p IH]; intros s r H; cbn in H; [cbn; congruence|].
  destruct s as [|y s]; [discriminate|]. destruct (x =? y) eqn:E; [|discriminate].
  apply Z.eqb_eq in E. subst y. cbn. f_equal. apply IH. exact H.
Qed.

Lemma app_suffix (u : list Z) : forall v r rest, u ++ r = v ++ rest -> (length rest <= length r)%nat ->
  exists x, r = x ++ rest.
Proof.
  induction u as [|a u IH]; intros v r rest E Hl; cbn in E.
  - exists v. exact E.
  - destruct v as [|a' v].
    + cbn in E. subst rest. cbn in Hl. rewrite app_length in Hl. lia.
    + cbn in E. injection E as _ E. eapply IH; eauto.
Qed.

Lemma find_after_found p rest pre : forall fuel, (length pre <= fuel)%nat ->
  exists x, find_after fuel p (pre ++ p ++ rest) = Some (x ++ rest).
Proof.
  induction pre as [|a pre IH]; intros fuel Hf.
  - exists []. cbn [app]. destruct fuel; cbn [find_after]; rewrite starts_with_app; reflexivity.
  - destruct (starts_with p ((a :: pre) ++ p ++ rest)) as [r|] eqn:Es.
    + apply starts_with_some in Es as Es'.
      destruct (app_suffix p (a :: pre ++ p) r rest) as [x Hx].
      * rewrite <- Es'. cbn [app]. rewrite <- app_assoc. reflexivity.
      * apply (f_equal (@length Z)) in Es'. rewrite ?app_length in Es'. cbn [length] in Es'.
        rewrite ?app_length in Es'. lia.
      * exists x. destruct fuel; cbn [find_after]; rewrite Es, Hx; reflexivity.
    + destruct fuel as [|f]; [cbn in Hf; lia|]. cbn [find_after]. rewrite Es. cbn [app].
      apply IH. cbn in Hf. lia.
Qed.

Lemma ws_reply_wfb_complete r : ws_reply_wf r -> ws_reply_wfb r = true.
Proof.
  intros [->|(id & v & dt & info & ->)]; [reflexivity|].
  unfold ws_reply_wfb, ws_row_text. apply orb_true_iff. right. rewrite starts_with_app.
  destruct (find_after_found WS_VAL (v ++ WS_DATE ++ dt ++ WS_INFO ++ info ++ WS_CLOSE) id
              (length (id ++ WS_VAL ++ v ++ WS_DATE ++ dt ++ WS_INFO ++ info ++ WS_CLOSE))) as [x1 E1];
    [rewrite app_length; lia|]. rewrite E1.
  replace (x1 ++ v ++ WS_DATE ++ dt ++ WS_INFO ++ info ++ WS_CLOSE)
    with ((x1 ++ v) ++ WS_DATE ++ dt ++ WS_INFO ++ info ++ WS_CLOSE) by (rewrite <- app_assoc; reflexivity).
  destruct (find_after_found WS_DATE (dt ++ WS_INFO ++ info ++ WS_CLOSE) (x1 ++ v)
              (length ((x1 ++ v) ++ WS_DATE ++ dt ++ WS_INFO ++ info ++ WS_CLOSE))) as [x2 E2];
    [rewrite (app_length (x1 ++ v)); lia|]. rewrite E2.
  replace (x2 ++ dt ++ WS_INFO ++ info ++ WS_CLOSE)
    with ((x2 ++ dt) ++ WS_INFO ++ info ++ WS_CLOSE) by (rewrite <- app_assoc; reflexivity).
  destruct (find_after_found WS_INFO (info ++ WS_CLOSE) (x2 ++ dt)
              (length ((x2 ++ dt) ++ WS_INFO ++ info ++ WS_CLOSE))) as [x3 E3];
    [rewrite (app_length (x2 ++ dt)); lia|]. rewrite E3.
  replace (x3 ++ info ++ WS_CLOSE) with ((x3 ++ info) ++ WS_CLOSE ++ []) by (rewrite app_nil_r, <- app_assoc; reflexivity).
  destruct (find_after_found WS_CLOSE [] (x3 ++ info)
              (length ((x3 ++ info) ++ WS_CLOSE ++ []))) as [x4 E4];
    [rewrite (app_length (x3 ++ info)); lia|]. rewrite E4. reflexivity.
Qed.

(* ================================================================ C04: single-byte text *)
Lemma split_by_in p s : forall piece x, In piece (split_by p s) -> In x piece -> In x s.
Proof.
  induction s as [|a s IH]; intros piece x Hp Hx; cbn in Hp.
  - destruct Hp as [<-|[]]. destruct Hx.
  - destruct (p a).
    + destruct Hp as [<-|Hp]; [destruct Hx | right; eapply IH; eauto].
    + destruct (split_by p s) as [|h tl] eqn:Es.
      * destruct Hp as [<-|[]]. destruct Hx as [<-|[]]. left; reflexivity.
      * destruct Hp as [<-|Hp].
        -- destruct Hx as [<-|Hx]; [left; reflexivity | right; apply (IH h x); [left; reflexivity | exact Hx]].
        -- right. apply (IH piece x); [right; exact Hp | exact Hx].
Qed.

Lemma lstrip_in x s : In x (lstrip s) -> In x s.
Proof. destruct (lstrip_suffix s) as [w E]. intros H. rewrite E. apply in_or_app. right. exact H. Qed.

Lemma strip_in x s : In x (strip s) -> In x s.
Proof.
  unfold strip. intros H. apply in_rev in H. apply lstrip_in in H. apply in_rev in H. apply lstrip_in. exact H.
Qed.

Lemma split_ws_in s tok x : In tok (split_ws s) -> In x tok -> In x s.
Proof. unfold split_ws. intros H. apply filter_In in H as [H _]. eapply split_by_in; eauto. Qed.

Lemma token_bytes m tok : bytes m -> In tok (split_ws (strip m)) -> bytes tok.
Proof.
  unfold bytes. intros Hm Ht. apply Forall_forall. intros x Hx. rewrite Forall_forall in Hm. apply Hm.
  apply strip_in. eapply split_ws_in; eauto.
Qed.

Definition sen_bytes (s : sensor) : Prop := bytes (sval s) /\ bytes (sdate s) /\ bytes (sinfo s).
Definition ws_binv (d : wsdev) : Prop :=
  (forall t m, buf_get t (bufs d) = Some m -> bytes m) /\ Forall sen_bytes (sensors d).

Lemma sen_find_bytes id l s : Forall sen_bytes l -> sen_find id l = Some s -> sen_bytes s.
Proof.
  induction 1 as [|x r Hx Hr IH]; cbn; [discriminate|].
  destruct (zlist_eqb (sid x) id); [intros E; injection E as <-; exact Hx | exact IH].
Qed.

Lemma sen_update_bytes id v dt l : Forall sen_bytes l -> bytes v -> bytes dt -> Forall sen_bytes (sen_update id v dt l).
Proof.
  intros H Hv Hd. induction H as [|x r Hx Hr IH]; cbn; [constructor|].
  destruct (zlist_eqb (sid x) id); constructor; auto. destruct Hx as (_ & _ & Hi). repeat split; auto.
Qed.

Lemma ws_read_bytes l id : Forall sen_bytes l -> bytes id -> bytes (ws_read l id).
Proof.
  intros Hl Hid. destruct (ws_read_cases l id) as [[_ E]|(s & Hs & E)]; rewrite E.
  - apply bytesb_spec. reflexivity.
  - destruct (sen_find_bytes id l s Hl Hs) as (Hv & Hd & Hi).
    assert (Hc : forall k, bytesb k = true -> bytes k) by (intros k; apply bytesb_spec).
    unfold bytes in *. repeat (apply Forall_app; split); auto; apply Hc; reflexivity.
Qed.

Section Charset.
  Variable fmt : list Z -> option (list Z).
  Hypothesis fmt_bytes : forall tok v, fmt tok = Some v -> bytes v.    (* '%0.6f' renders ASCII *)

  Lemma ws_line_binv d t m : ws_binv d -> bytes m ->
    ws_binv (fst (ws_line fmt d t m)) /\ forall r, snd (ws_line fmt d t m) = OReply r -> bytes r.
  Proof.
    intros [Hb Hs] Hm.
    assert (Hdel : forall t' m', buf_get t' (buf_del t (bufs d)) = Some m' -> bytes m').
    { intros t' m'. rewrite buf_get_del. destruct (t =? t'); [discriminate | apply Hb]. }
    assert (Hset : forall t' m', buf_get t' (buf_set t (strip m) (bufs d)) = Some m' -> bytes m').
    { intros t' m'. rewrite buf_get_set. destruct (t =? t'); [|apply Hb]. intros E; injection E as <-.
      unfold bytes in *. apply Forall_forall. intros x Hx. rewrite Forall_forall in Hm. apply Hm. apply strip_in. exact Hx. }
    unfold ws_line. destruct (split_ws (strip m)) as [|a0 [|a1 [|a2 [|a3 [|a4 r']]]]] eqn:Et;
      repeat match goal with
             | |- context [if ?c then _ else _] => destruct c
             end; cbn [fst snd];
      try (split; [split; [assumption | exact Hs] | intros r E; try discriminate]).
    - injection E as <-. apply ws_read_bytes; [exact Hs|]. apply (token_bytes m _ Hm). rewrite Et. cbn; auto.
    - destruct (fmt a2) as [v|] eqn:Ef; cbn [fst snd].
      + assert (Hl : Forall sen_bytes (sen_update a1 v a3 (sensors d))).
        { apply sen_update_bytes; [exact Hs | eapply fmt_bytes; eauto |].
          apply (token_bytes m _ Hm). rewrite Et. cbn; auto. }
        split; [split; [exact Hdel | exact Hl]|]. intros r E. injection E as <-.
        apply ws_read_bytes; [exact Hl|]. apply (token_bytes m _ Hm). rewrite Et. cbn; auto.
      + split; [split; assumption | intros r E; discriminate].
  Qed.

  Lemma ws_step_binv d t b : ws_binv d -> byte b ->
    ws_binv (fst (ws_step fmt d t b)) /\ forall r, snd (ws_step fmt d t b) = OReply r -> bytes r.
  Proof.
    intros Hinv Hbyte. pose proof Hinv as [Hb Hs].
    set (cur := match buf_get t (bufs d) with Some v => v | None => [] end).
    assert (Hm : bytes (cur ++ [b])).
    { unfold bytes. apply Forall_app. split; [|constructor; [exact Hbyte | constructor]]. subst cur.
      destruct (buf_get t (bufs d)) eqn:E; [eapply Hb; eauto | constructor]. }
    assert (Hdel : ws_binv (mkWs (buf_del t (bufs d)) (sensors d))).
    { split; [|exact Hs]. intros t' m'. cbn [bufs]. rewrite buf_get_del. destruct (t =? t'); [discriminate | apply Hb]. }
    assert (Hset : ws_binv (mkWs (buf_set t (cur ++ [b]) (bufs d)) (sensors d))).
    { split; [|exact Hs]. intros t' m'. cbn [bufs]. rewrite buf_get_set. destruct (t =? t'); [|apply Hb].
      intros E; injection E as <-. exact Hm. }
    unfold ws_step. fold cur. destruct (cur ++ [b]) as [|x [|y [|z r']]] eqn:Em.
    - apply app_eq_nil in Em as [_ Em]; discriminate.
    - destruct ((b =? R_CHAR) || (b =? W_CHAR)); (split; [assumption | discriminate]).
    - destruct (b =? SP); (split; [assumption | discriminate]).
    - destruct (b =? LF); [apply ws_line_binv; assumption | split; [assumption | discriminate]].
  Qed.

  Lemma ws_run_binv ops : forall d, ws_binv d -> Forall (fun p => byte (snd p)) ops ->
    ws_binv (fst (ws_run fmt d ops)) /\ forall r, In (OReply r) (snd (ws_run fmt d ops)) -> bytes r.
  Proof.
    induction ops as [|[t b] rest IH]; intros d Hinv Hops; cbn [ws_run fst snd].
    - split; [exact Hinv | intros r []].
    - inversion Hops as [|? ? Hb Hr]; subst. cbn [snd] in Hb.
      destruct (ws_step_binv d t b Hinv Hb) as [H1 H2]. destruct (IH _ H1 Hr) as [H3 H4].
      split; [exact H3|]. intros r [E|Hin]; [apply H2; exact E | apply H4; exact Hin].
  Qed.
End Charset.
