(* Minor-servo PLC (tag Msv): facts about the generated tables used by the parts C02_ms … C05_ms,
   and the query-catalogue theorem of C02 for the shipped configuration. *)
From DS Require Import Base.Prelude Model.MsvTypes Model.MsvModel Model.MsvFloat Gen.MsvTables.
From DS Require Import Proofs.MsvProofs Proofs.MsvKin Proofs.MsvParts Proofs.MsvShape.
From Coq Require Import String.
Local Notation length := List.length (only parsing).

Definition status_query (n : list Z) : list Z := zs "STATUS=" ++ n.
Definition status_general : list Z := zs "STATUS".

Definition query_ok (n : list Z) : bool :=
  list_eqb zlist_eqb (tokens (status_query n ++ [13; 10])) [zs "STATUS"; n] &&
  negb (has_crlf (status_query n ++ [13])).

Lemma gen_queries_ok : forallb query_ok (map sr_name g_servos) = true.
Proof. vm_compute. reflexivity. Qed.

Lemma gen_general_query_ok :
  tokens (status_general ++ [13; 10]) = [zs "STATUS"] /\ has_crlf (status_general ++ [13]) = false.
Proof. split; vm_compute; reflexivity. Qed.

Lemma gen_status_command : assoc (zs "STATUS") g_commands = Some (zs "_status").
Proof. reflexivity. Qed.

(* the status layouts refer only to existing axes and use at most six random draws *)
Lemma gen_layouts_ok :
  forallb (fun r => layout_ok (sr_dof r) 6 (layout_of (sr_name r) g_layouts)) g_servos = true.
Proof. vm_compute. reflexivity. Qed.

Lemma gen_sys_layout_ok : sys_layout_ok g_sys_layout = true.
Proof. vm_compute. reflexivity. Qed.

Lemma gen_shape {T} (f : Z -> T) tk : Forall shape_sconf (c_servos (gen_cfg f tk)).
Proof.
  unfold gen_cfg. cbn [c_servos]. unfold g_servos. cbn [map]. unfold shape_sconf.
  repeat (constructor; [cbn; auto|]). constructor.
Qed.

Lemma gen_rows {T} (f : Z -> T) tk :
  Forall (fun r => Forall2 (fun sc row => length row = sc_dof sc) (c_servos (gen_cfg f tk)) (tr_rows r))
         (c_table (gen_cfg f tk)).
Proof.
  unfold gen_cfg. cbn [c_servos c_table]. unfold g_table, g_servos. cbn [map].
  repeat (constructor; try reflexivity).
Qed.

Lemma zlist_eqb_true a b : zlist_eqb a b = true -> a = b.
Proof. apply zlist_eqb_eq. Qed.

Lemma list_eqb_tokens a b : list_eqb zlist_eqb a b = true -> a = b.
Proof.
  revert b; induction a as [|x a IH]; intros [|y b]; cbn; try discriminate; auto.
  intros H. apply andb_true_iff in H as [H1 H2]. apply zlist_eqb_true in H1. f_equal; auto.
Qed.

Lemma find_servo_complete {T} : forall (l : list (sconf T)) k sc, In sc l ->
  exists i sc', find_servo (sc_name sc) k l = Some (i, sc').
Proof.
  induction l as [|sc0 l IH]; intros k sc H; [destruct H|]. destruct H as [H|H]; cbn.
  - subst. assert (E : zlist_eqb (sc_name sc) (sc_name sc) = true) by (apply zlist_eqb_eq; reflexivity).
    rewrite E. eauto.
  - destruct (zlist_eqb (sc_name sc) (sc_name sc0)); eauto.
Qed.

Lemma find_servo_In {T} sid : forall (l : list (sconf T)) k i sc,
  find_servo sid k l = Some (i, sc) -> In sc l.
Proof.
  induction l as [|sc0 l IH]; intros k i sc H; [discriminate|]. cbn in H.
  destruct (zlist_eqb sid (sc_name sc0)); [injection H as _ <-; left; reflexivity|right; eauto].
Qed.

Lemma layout_ok_mono : forall ps dof n n', (n <= n')%nat -> layout_ok dof n ps = true -> layout_ok dof n' ps = true.
Proof.
  induction ps as [|p ps IH]; intros dof n n' Hn H; [reflexivity|].
  destruct p; cbn [layout_ok] in *; try discriminate; eauto.
  - destruct n; [discriminate|]. destruct n'; [lia|]. eapply IH; [|exact H]. lia.
  - apply andb_true_iff in H as [H1 H2]. rewrite H1. cbn. eauto.
  - apply andb_true_iff in H as [H1 H2]. rewrite H1. cbn. eauto.
Qed.

Lemma dispatch_status {T} (ops : numops T) orc cf :
  dispatch ops orc cf (zs "_status") = Some (h_status ops orc cf).
Proof. reflexivity. Qed.

Section Shipped.
Context {T : Type} (ops : numops T) (orc : oracles T) (f : Z -> T) (tk : Z).
Let cf := gen_cfg f tk.
(* the two arithmetic laws of the _programTrack time checks (binary64 and reals: Proofs/MsvGen.v) *)
Hypothesis law0 : pt_law ops (gen_cfg f tk).
Hypothesis law5 : forall p now, nlt ops p now = false -> nlt ops p (nsub ops now (nofZ ops 5)) = false.

(* C02 for the shipped configuration: in every state with the shape invariant and an idle parser,
   the query STATUS=<servo> (every one of the eight servos) fed byte by byte is answered True for
   every byte but the last and by exactly one GOOD reply line on the last; the parser is idle again
   and the invariant holds again. *)
Theorem status_query_answered s e r :
  shape_inv cf s -> s_msg s = [] -> In r g_servos -> (6 <= length (e_draws e))%nat ->
  exists s' body,
    feed ops orc cf s e (status_query (sr_name r) ++ [13; 10]) =
      (s', repeat OTrue (length (status_query (sr_name r)) + 1) ++ [OReply (good orc cf e ++ body ++ crlf)])
    /\ shape_inv cf s' /\ s_msg s' = [].
Proof.
  intros Hs Hm Hr Hd.
  pose proof gen_queries_ok as Hq. rewrite forallb_forall in Hq.
  specialize (Hq (sr_name r) (in_map sr_name _ _ Hr)). apply andb_true_iff in Hq as [Htok Hcr].
  apply list_eqb_tokens in Htok. apply negb_true_iff in Hcr.
  rewrite (feed_line ops orc cf s e _ Hm Hcr).
  unfold execute. rewrite Htok. cbn [c_commands cf gen_cfg]. rewrite gen_status_command.
  rewrite dispatch_status.
  set (sc := mk_sconf (sr_name r) (sr_dof r) (sr_pt r) (map f (sr_min r)) (map f (sr_max r))
                      (map f (sr_delta r)) (layout_of (sr_name r) g_layouts)).
  assert (Hin : In sc (c_servos cf)).
  { unfold cf, gen_cfg. cbn [c_servos]. apply in_map_iff. exists r. split; [reflexivity|exact Hr]. }
  destruct (find_servo_complete (c_servos cf) 0 sc Hin) as (i & sc' & Hf).
  pose proof (find_servo_In _ _ _ _ _ Hf) as Hin'.
  assert (Hl : layout_ok (sc_dof sc') (length (e_draws e)) (sc_layout sc') = true).
  { unfold cf, gen_cfg in Hin'. cbn [c_servos] in Hin'. apply in_map_iff in Hin' as (r' & <- & Hr').
    cbn [sc_dof sc_layout]. pose proof gen_layouts_ok as G. rewrite forallb_forall in G.
    eapply layout_ok_mono; [exact Hd|]. exact (G r' Hr'). }
  destruct (status_servo_answered ops orc cf law5 (gen_shape f tk) s e (sc_name sc) i sc' Hs Hf Hl)
    as (s' & body & Hh & Hs' & Hm').
  cbn [sc_name sc] in Hh. unfold cf in *. rewrite Hh. cbn [fst snd].
  exists s', body. split; [reflexivity|]. split; [exact Hs'|]. rewrite Hm'. exact Hm.
Qed.

Theorem status_general_query_answered s e : s_msg s = [] ->
  exists body,
    feed ops orc cf s e (status_general ++ [13; 10]) =
      (s, repeat OTrue (length status_general + 1) ++ [OReply (good orc cf e ++ body ++ crlf)]).
Proof.
  intros Hm. destruct gen_general_query_ok as [Htok Hcr].
  rewrite (feed_line ops orc cf s e _ Hm Hcr).
  unfold execute. rewrite Htok. cbn [c_commands cf gen_cfg]. rewrite gen_status_command.
  rewrite dispatch_status.
  destruct (status_general_answered ops orc cf s e gen_sys_layout_ok) as [body Hh].
  unfold cf in *. rewrite Hh. cbn [fst snd]. exists body. reflexivity.
Qed.

(* every reachable state of the shipped configuration has the shape invariant *)
Theorem reachable_shape e0 evs :
  shape_inv cf (snd (fst (run ops orc cf (e0, init_sys ops cf) evs))).
Proof.
  apply (run_shape ops orc cf law0 law5 (gen_shape f tk) (gen_rows f tk)). cbn [snd]. apply init_shape.
Qed.

(* ... and in such a state the update thread's iteration never raises *)
Theorem update_never_raises s e spls : shape_inv cf s -> snd (refresh ops cf e spls s) = false.
Proof. apply (refresh_no_raise ops cf law5 (gen_shape f tk)). Qed.

End Shipped.
