(* Lemmas about the switch matrix model (Model/SmbSwMatrix.v, fixed code). *)
From DS Require Import Base.Prelude Model.SmbCommon Model.SmbSwMatrix Proofs.SmbCommon.

(* device invariant: the stored configuration is a key of the table *)
Definition sw_inv (d : mdev) : Prop := In (idx d) sw_configs.

Lemma sw_table_some v : sw_table v <> None <-> In v sw_configs.
Proof.
  unfold sw_table, sw_configs. split.
  - destruct (v =? 1) eqn:E1; [cbn; lia|]. destruct (v =? 2) eqn:E2; [cbn; lia|].
    destruct (v =? 3) eqn:E3; [cbn; lia|]. destruct (v =? 4) eqn:E4; [cbn; lia|]. congruence.
  - intros [<-|[<-|[<-|[<-|[]]]]]; cbn; discriminate.
Qed.

Lemma sw_init_inv : sw_inv sw_init.
Proof. left; reflexivity. Qed.

(* the set command: state changes only together with ACK, and only to a table key *)
Lemma sw_set_cases d tok :
  (sw_set d tok = (d, OReply (NACK ++ CRLF)) /\
     (py_int tok = None \/ exists v, py_int tok = Some v /\ ~ In v sw_configs)) \/
  (exists v, py_int tok = Some v /\ In v sw_configs /\ sw_set d tok = (mkM v, OReply (ACK ++ CRLF))).
Proof.
  unfold sw_set. destruct (py_int tok) as [v|]; [|left; auto].
  destruct (sw_table v) eqn:E.
  - right. exists v. repeat split; auto. apply sw_table_some. congruence.
  - left. split; auto. right. exists v. split; auto. intros H. apply sw_table_some in H. congruence.
Qed.

Lemma sw_cmds_cases cmds : forall d items d' o, sw_cmds d items cmds = (d', o) ->
  d' = d \/ (o = OReply (ACK ++ CRLF) /\ In (idx d') sw_configs).
Proof.
  induction cmds as [|c r IH]; intros d items d' o H; cbn [sw_cmds] in H.
  - left. congruence.
  - destruct (re_split_nonword c) as [|a0 [|a1 rest]]; try (eapply IH; exact H).
    destruct (sw_lookup (a0 ++ [SP] ++ a1)) as [[|]|]; destruct rest as [|a2 rest].
    + left; congruence.
    + destruct (sw_set_cases d a2) as [[E _]|(v & _ & Hv & E)]; rewrite E in H.
      * left; congruence.
      * right. injection H as <- <-. split; [reflexivity | exact Hv].
    + destruct (sw_table (idx d)); [eapply IH; exact H | left; congruence].
    + left; congruence.
    + left; congruence.
    + left; congruence.
Qed.

Lemma sw_exec_cases d l d' o : sw_exec d l = (d', o) ->
  d' = d \/ (o = OReply (ACK ++ CRLF) /\ In (idx d') sw_configs).
Proof. apply sw_cmds_cases. Qed.

Lemma sw_exec_inv d l : sw_inv d -> sw_inv (fst (sw_exec d l)).
Proof.
  intros H. destruct (sw_exec d l) as [d' o] eqn:E. cbn.
  destruct (sw_exec_cases _ _ _ _ E) as [->|[_ Hv]]; [exact H | exact Hv].
Qed.

(* a line that is not acknowledged with ACK leaves the device unchanged *)
Lemma sw_not_acked_unchanged d l d' o : sw_exec d l = (d', o) -> o <> OReply (ACK ++ CRLF) -> d' = d.
Proof. intros H Ho. destruct (sw_exec_cases _ _ _ _ H) as [E|[E _]]; [exact E | contradiction]. Qed.

Lemma sw_lines_not_acked ls : forall d,
  Forall (fun o => o <> OReply (ACK ++ CRLF)) (snd (exec_lines sw_exec d ls)) ->
  fst (exec_lines sw_exec d ls) = d.
Proof.
  induction ls as [|l ls IH]; intros d H; cbn [exec_lines fst snd] in *; [reflexivity|].
  inversion H as [|? ? Ho Hos]; subst.
  assert (E : fst (sw_exec d l) = d).
  { eapply sw_not_acked_unchanged; [apply surjective_pairing | exact Ho]. }
  rewrite E in *. apply IH. exact Hos.
Qed.

(* ---------------------------------------------------------------- noise *)
Lemma sw_cmds_noise cmds : forall d items,
  Forall (fun c => (length (re_split_nonword c) < 2)%nat) cmds ->
  sw_cmds d items cmds = (d, if nonempty items then OReply (join_semi items) else OTrue).
Proof.
  induction cmds as [|c r IH]; intros d items H; cbn [sw_cmds]; [reflexivity|].
  inversion H as [|? ? Hc Hr]; subst.
  destruct (re_split_nonword c) as [|a0 [|a1 rest]]; try (apply IH; exact Hr). cbn in Hc. lia.
Qed.

(* ---------------------------------------------------------------- the query *)
Lemma sw_query d q : sw_inv d -> In q sw_queries -> sw_exec d q = (d, OReply (sw_enc (idx d))).
Proof.
  intros Hd Hq. unfold sw_exec.
  assert (E : split_on SEMI (filter (fun c => negb (c =? CR)) q) = [SW_GET]).
  { destruct Hq as [<-|[<-|[]]]; vm_compute; reflexivity. }
  rewrite E. cbn [sw_cmds].
  change (re_split_nonword SW_GET) with [[103; 101; 116]; skipn 4 SW_GET].
  change (sw_lookup ([103; 101; 116] ++ [SP] ++ skipn 4 SW_GET)) with (Some MGet).
  unfold sw_enc. destruct (sw_table (idx d)) as [nm|] eqn:Et.
  - cbn [app nonempty sw_cmds]. rewrite join_semi_single. reflexivity.
  - exfalso. apply sw_table_some in Hd. contradiction.
Qed.

Lemma sw_queries_no_lf q : In q sw_queries -> no_lf q.
Proof. intros [<-|[<-|[]]]; vm_compute; intuition discriminate. Qed.

(* ---------------------------------------------------------------- the set command on a token *)
Definition word_token (tok : list Z) : Prop := tok <> [] /\ forall x, In x tok -> is_word x = true.

Lemma word_token_filter tok : (forall x, In x tok -> is_word x = true) ->
  filter (fun c => negb (c =? CR)) (tok ++ [CR]) = tok.
Proof.
  induction tok as [|x tok IH]; intros H; cbn; [reflexivity|].
  assert (Hx : is_word x = true) by (apply H; left; reflexivity).
  destruct (x =? CR) eqn:E; [apply Z.eqb_eq in E; subst x; discriminate|].
  cbn. f_equal. apply IH. intros y Hy; apply H; right; exact Hy.
Qed.

Lemma sw_write_exec d tok : word_token tok -> sw_exec d (sw_write tok) = sw_set d tok.
Proof.
  intros [Hne Hw]. unfold sw_exec, sw_write.
  assert (Ef : filter (fun c => negb (c =? CR)) (SW_SET ++ [61] ++ tok ++ [CR]) = SW_SET ++ [61] ++ tok).
  { rewrite !filter_app. rewrite <- filter_app. rewrite word_token_filter by exact Hw. reflexivity. }
  rewrite Ef.
  assert (Hnosemi : forall x, In x (SW_SET ++ [61] ++ tok) -> (SEMI =? x) = false).
  { intros x Hx. apply in_app_or in Hx as [Hx|Hx].
    - revert x Hx. apply Forall_forall. vm_compute. repeat constructor.
    - destruct Hx as [<-|Hx]; [reflexivity|]. cbn in Hx. apply Hw in Hx.
      destruct (SEMI =? x) eqn:E; [apply Z.eqb_eq in E; subst x; discriminate | reflexivity]. }
  unfold split_on. rewrite split_by_nosep by exact Hnosemi. cbn [sw_cmds].
  assert (Er : re_split_nonword (SW_SET ++ [61] ++ tok) = [[115; 101; 116]; skipn 4 SW_SET; tok]).
  { unfold re_split_nonword.
    change (SW_SET ++ [61] ++ tok) with ([115; 101; 116] ++ 32 :: (skipn 4 SW_SET ++ 61 :: tok)).
    rewrite split_by_app_sep; [| intros x Hx; revert x Hx; apply Forall_forall; vm_compute; repeat constructor | reflexivity].
    rewrite split_by_app_sep; [| intros x Hx; revert x Hx; apply Forall_forall; vm_compute; repeat constructor | reflexivity].
    rewrite split_by_nosep by (intros x Hx; rewrite (Hw x Hx); reflexivity).
    cbn [drop_inner_empty nonempty skipn SW_SET]. reflexivity. }
  rewrite Er.
  change (sw_lookup ([115; 101; 116] ++ [SP] ++ skipn 4 SW_SET)) with (Some MSet). reflexivity.
Qed.

(* canonical writes of the four configurations are acknowledged *)
Lemma sw_write_ack d v : In v sw_configs ->
  sw_exec d (sw_write (dec v)) = (mkM v, OReply (ACK ++ CRLF)).
Proof. intros [<-|[<-|[<-|[<-|[]]]]]; vm_compute; reflexivity. Qed.

(* acknowledged write of v, then any history of lines none of which is acknowledged with ACK, then
   the read-back *)
Lemma sw_readback d tok v ls q : word_token tok -> py_int tok = Some v -> In v sw_configs ->
  Forall (fun o => o <> OReply (ACK ++ CRLF))
         (snd (exec_lines sw_exec (fst (sw_exec d (sw_write tok))) ls)) ->
  In q sw_queries ->
  snd (sw_exec d (sw_write tok)) = OReply (ACK ++ CRLF) /\
  let d2 := fst (exec_lines sw_exec (fst (sw_exec d (sw_write tok))) ls) in
  sw_exec d2 q = (d2, OReply (sw_enc v)).
Proof.
  intros Htok Hint Hv Hls Hq. rewrite sw_write_exec in * by exact Htok.
  destruct (sw_set_cases d tok) as [[_ [E|(v' & E & Hn)]]|(v' & E & _ & Es)].
  - congruence.
  - rewrite Hint in E. injection E as <-. contradiction.
  - rewrite Hint in E. injection E as <-. rewrite Es in *. cbn [fst snd] in *. split; [reflexivity|].
    rewrite sw_lines_not_acked by exact Hls. apply (sw_query (mkM v) q); [exact Hv | exact Hq].
Qed.

(* a refused write: NACK, device unchanged *)
Lemma sw_write_refused d tok : word_token tok ->
  (py_int tok = None \/ exists v, py_int tok = Some v /\ ~ In v sw_configs) ->
  sw_exec d (sw_write tok) = (d, OReply (NACK ++ CRLF)).
Proof.
  intros Htok H. rewrite sw_write_exec by exact Htok.
  destruct (sw_set_cases d tok) as [[E _]|(v & E & Hv & _)]; [exact E|].
  destruct H as [H|(v' & H & Hn)]; rewrite H in E; [discriminate|]. injection E as ->. contradiction.
Qed.

(* ---------------------------------------------------------------- reply shape *)
Lemma sw_enc_item_ok v : In v sw_configs -> sw_item_okb (sw_enc v) = true.
Proof. intros [<-|[<-|[<-|[<-|[]]]]]; reflexivity. Qed.

Lemma sw_item_ok_shape i : sw_item_okb i = true ->
  ~ In SEMI i /\ bytes i /\ exists body, i = body ++ CRLF.
Proof.
  unfold sw_item_okb. rewrite existsb_exists. intros (x & Hx & E). apply zlist_eqb_eq in E. subst x.
  unfold sw_items in Hx. cbn [In] in Hx. destruct Hx as [<-|[<-|[<-|[<-|[]]]]].
  all: split; [vm_compute; intuition discriminate | split; [apply bytesb_spec; reflexivity |]].
  all: rewrite app_assoc; eexists; reflexivity.
Qed.

Lemma sw_cmds_reply cmds : forall d items d' r, sw_inv d ->
  Forall (fun i => sw_item_okb i = true) items ->
  sw_cmds d items cmds = (d', OReply r) ->
  r = ACK ++ CRLF \/ r = NACK ++ CRLF \/
  exists items', items' <> [] /\ r = join_semi items' /\ Forall (fun i => sw_item_okb i = true) items'.
Proof.
  induction cmds as [|c rest IH]; intros d items d' r Hinv Hitems H; cbn [sw_cmds] in H.
  - destruct items as [|i items]; [discriminate|]. cbn in H. injection H as _ <-.
    right; right. exists (i :: items). split; [discriminate | split; [reflexivity | exact Hitems]].
  - destruct (re_split_nonword c) as [|a0 [|a1 more]]; try (eapply IH; eauto; fail).
    destruct (sw_lookup (a0 ++ [SP] ++ a1)) as [[|]|]; destruct more as [|a2 more]; try discriminate.
    + destruct (sw_set_cases d a2) as [[E _]|(v & _ & _ & E)]; rewrite E in H; injection H as _ <-; auto.
    + destruct (sw_table (idx d)) as [nm|] eqn:Et; [|discriminate].
      eapply IH; [exact Hinv | | exact H].
      apply Forall_app. split; [exact Hitems|]. constructor; [|constructor].
      pose proof (sw_enc_item_ok (idx d) Hinv) as Hok. unfold sw_enc in Hok. rewrite Et in Hok. exact Hok.
Qed.

Lemma sw_reply_wf d l d' r : sw_inv d -> sw_exec d l = (d', OReply r) -> sw_reply_wfb r = true.
Proof.
  intros Hinv H. unfold sw_reply_wfb.
  destruct (sw_cmds_reply _ _ _ _ _ Hinv (Forall_nil _) H) as [->|[->|(items & Hne & -> & Hok)]];
    [reflexivity | reflexivity |].
  apply orb_true_iff. right. rewrite split_join_semi; [| exact Hne |].
  - apply forallb_forall. rewrite Forall_forall in Hok. exact Hok.
  - eapply Forall_impl; [|exact Hok]. intros i Hi. apply sw_item_ok_shape. exact Hi.
Qed.

Lemma sw_reply_wf_shape r : sw_reply_wfb r = true -> bytes r /\ exists body, r = body ++ CRLF.
Proof.
  unfold sw_reply_wfb. intros H. apply orb_true_iff in H as [H|H]; [apply orb_true_iff in H as [H|H]|].
  - apply zlist_eqb_eq in H. subst r. split; [apply bytesb_spec; reflexivity | eexists; reflexivity].
  - apply zlist_eqb_eq in H. subst r. split; [apply bytesb_spec; reflexivity | eexists; reflexivity].
  - rewrite forallb_forall in H. split.
    + apply (split_by_bytes_inv (Z.eqb SEMI)).
      * intros x E. apply Z.eqb_eq in E. subst x. unfold SEMI, byte. lia.
      * apply Forall_forall. intros i Hi. apply sw_item_ok_shape. apply H. exact Hi.
    + destruct (split_by_last_suffix (Z.eqb SEMI) r) as (pre & lst & E & front & Ef).
      destruct (sw_item_ok_shape lst) as (_ & _ & body & Hb).
      * apply H. unfold split_on. rewrite E. apply in_or_app. right. left. reflexivity.
      * exists (front ++ body). rewrite Ef, Hb. apply app_assoc.
Qed.

(* ---------------------------------------------------------------- statements used by Properties *)
Lemma sw_noise_discarded s l : sw_idle s = true -> no_lf l ->
  Forall (fun c => (length (re_split_nonword c) < 2)%nat)
         (split_on SEMI (filter (fun c => negb (c =? CR)) l)) ->
  sw_run s (l ++ [LF]) = (s, line_outs l OTrue).
Proof.
  intros Hi Hl H. apply lrun_discarded; auto. unfold sw_exec. rewrite sw_cmds_noise by exact H. reflexivity.
Qed.

Lemma sw_reach_inv s : lreach sw_exec sw_start s -> sw_inv (ldev s).
Proof. apply (lreach_inv sw_exec sw_inv); [apply sw_exec_inv | apply sw_init_inv]. Qed.

Lemma sw_answered s q : lreach sw_exec sw_start s -> sw_idle s = true -> In q sw_queries ->
  sw_run s (q ++ [LF]) = (s, line_outs q (OReply (sw_enc (idx (ldev s))))) /\
  sw_reply_wfb (sw_enc (idx (ldev s))) = true.
Proof.
  intros Hr Hi Hq. pose proof (sw_reach_inv s Hr) as Hinv. split.
  - unfold sw_run. rewrite lrun_line_idle by (auto using sw_queries_no_lf).
    rewrite sw_query by assumption. cbn [fst snd]. rewrite <- (lidle_msg s Hi). reflexivity.
  - apply (sw_reply_wf (ldev s) q (ldev s)); [exact Hinv | apply sw_query; assumption].
Qed.

Lemma sw_answered_after_history bs q : In q sw_queries ->
  let s := fst (sw_run sw_start (bs ++ [LF])) in
  snd (sw_run s (q ++ [LF])) = line_outs q (OReply (sw_enc (idx (ldev s)))) /\
  In (idx (ldev s)) sw_configs.
Proof.
  intros Hq s.
  assert (Hr : lreach sw_exec sw_start s) by (exists (bs ++ [LF]); reflexivity).
  destruct (sw_answered s q Hr (lresync sw_exec sw_start bs) Hq) as [E _].
  split; [rewrite E; reflexivity | apply sw_reach_inv; exact Hr].
Qed.

Lemma sw_step_reply_wf s b s' r : lreach sw_exec sw_start s ->
  sw_step s b = (s', OReply r) -> sw_reply_wfb r = true /\ b = LF.
Proof.
  intros Hr H. unfold sw_step, lstep in H. destruct (b =? LF) eqn:E; [|discriminate].
  split; [|lia]. injection H as _ H.
  apply (sw_reply_wf (ldev s) (lmsg s) (fst (sw_exec (ldev s) (lmsg s)))).
  - apply sw_reach_inv; exact Hr.
  - rewrite <- H. apply surjective_pairing.
Qed.

(* the get reply names the configuration it reports: it starts with the decimal index *)
Lemma sw_enc_echo v : In v sw_configs -> exists nm, sw_table v = Some nm /\ sw_enc v = dec v ++ [58] ++ nm ++ CRLF.
Proof. intros [<-|[<-|[<-|[<-|[]]]]]; eexists; split; reflexivity. Qed.

Lemma sw_word_token_no_lf tok : word_token tok -> no_lf (sw_write tok).
Proof.
  intros [_ Hw] Hin. unfold sw_write in Hin. apply in_app_or in Hin as [Hin|Hin].
  - revert Hin. vm_compute. intuition discriminate.
  - cbn [app] in Hin. destruct Hin as [E|Hin]; [discriminate|]. apply in_app_or in Hin as [Hin|Hin].
    + apply Hw in Hin. discriminate.
    + cbn in Hin. destruct Hin as [E|[]]. discriminate.
Qed.

Lemma sw_readback_bytes s tok v ls q : sw_idle s = true -> word_token tok -> py_int tok = Some v ->
  In v sw_configs -> Forall no_lf ls -> In q sw_queries ->
  Forall (fun o => o <> OReply (ACK ++ CRLF))
         (snd (exec_lines sw_exec (fst (sw_exec (ldev s) (sw_write tok))) ls)) ->
  exists s' mid,
    sw_run s (lines_bytes (sw_write tok :: ls) ++ q ++ [LF]) =
      (s', line_outs (sw_write tok) (OReply (ACK ++ CRLF)) ++ mid ++ line_outs q (OReply (sw_enc v))).
Proof.
  intros Hi Htok Hint Hv Hls Hq Hna. unfold sw_run.
  rewrite lrun_history_then_line;
    [| exact Hi | constructor; [apply sw_word_token_no_lf; exact Htok | exact Hls] | apply sw_queries_no_lf; exact Hq].
  cbn [exec_lines fst snd].
  destruct (sw_readback (ldev s) tok v ls q Htok Hint Hv Hna Hq) as [Hack Hrb]. cbn zeta in Hrb.
  rewrite Hrb. cbn [fst snd]. unfold lines_outs. cbn [combine map concat fst snd]. rewrite Hack.
  eexists. eexists. rewrite <- app_assoc. reflexivity.
Qed.

Lemma sw_refused_all_readbacks s l q : sw_idle s = true -> no_lf l -> In q sw_queries ->
  last (snd (sw_run s (l ++ [LF]))) OFalse <> OReply (ACK ++ CRLF) ->
  snd (sw_run (fst (sw_run s (l ++ [LF]))) (q ++ [LF])) = snd (sw_run s (q ++ [LF])).
Proof.
  intros Hi Hl Hq Hna. unfold sw_run in *.
  pose proof (lrun_line_idle sw_exec l s Hi Hl) as E1. rewrite E1 in *. cbn [fst snd] in *.
  unfold line_outs in Hna. rewrite last_last in Hna.
  assert (E : fst (sw_exec (ldev s) l) = ldev s).
  { eapply sw_not_acked_unchanged; [apply surjective_pairing | exact Hna]. }
  rewrite E. rewrite <- (lidle_msg s Hi). reflexivity.
Qed.
