(* Proofs for C09, second batch: str variants, unsigned inverse, agreement between the
   signed / unsigned / two's-complement / bit-string views of the same bytes, day_* helpers. *)
From DS Require Import Base.Prelude Base.Bits Model.Utils Model.UtilsStr Proofs.UtilsProofs.

(* ---------- latin-1 ---------- *)
Lemma encode_latin1_bytes s : bytes s -> encode_latin1 s = Some s.
Proof. intros H. unfold encode_latin1. apply bytesb_spec in H. rewrite H. reflexivity. Qed.

Lemma encode_latin1_wide s : ~ bytes s -> encode_latin1 s = None.
Proof.
  intros H. unfold encode_latin1. destruct (bytesb s) eqn:E; [|reflexivity].
  apply bytesb_spec in E. contradiction.
Qed.

Lemma encode_latin1_some s b : encode_latin1 s = Some b -> b = s /\ bytes s.
Proof.
  unfold encode_latin1. destruct (bytesb s) eqn:E; [|discriminate].
  intros H. split; [congruence|]. apply bytesb_spec, E.
Qed.

(* the str variants agree with the bytes variants on every latin-1 string ... *)
Theorem str_variants_agree s le : bytes s ->
  string_to_int s le = Some (bytes_to_int s le) /\
  string_to_uint s le = bytes_to_uint s le /\
  string_to_binary s le = Some (bytes_to_binary s le).
Proof.
  intros H. unfold string_to_int, string_to_uint, string_to_binary.
  rewrite (encode_latin1_bytes s H). repeat split.
Qed.

(* ... and refuse every string that has a code point outside 0..255 *)
Theorem str_variants_refuse_wide s le : ~ bytes s ->
  string_to_int s le = None /\ string_to_uint s le = None /\ string_to_binary s le = None.
Proof.
  intros H. unfold string_to_int, string_to_uint, string_to_binary.
  rewrite (encode_latin1_wide s H). repeat split.
Qed.

Theorem to_string_variants_agree v n le s :
  int_to_string v n le = int_to_bytes v n le /\
  uint_to_string v n le = uint_to_bytes v n le /\
  binary_to_string s le = binary_to_bytes s le.
Proof.
  unfold int_to_string, uint_to_string, binary_to_string, decode_latin1.
  repeat split; [destruct (int_to_bytes v n le)|destruct (uint_to_bytes v n le)]; reflexivity.
Qed.

(* what an encoder returns can be fed to the matching str decoder *)
Theorem int_string_roundtrip v n le s : (0 < n)%nat ->
  int_to_string v n le = Some s -> string_to_int s le = Some v.
Proof.
  intros Hn H. destruct (to_string_variants_agree v n le []) as [E _]. rewrite E in H.
  destruct (int_bytes_roundtrip v n le s Hn H) as [Hv [_ Hb]].
  destruct (str_variants_agree s le Hb) as [E1 _]. rewrite E1, Hv. reflexivity.
Qed.

Theorem uint_string_roundtrip v n le s : (0 < n)%nat ->
  uint_to_string v n le = Some s -> string_to_uint s le = Some v.
Proof.
  intros Hn H. destruct (to_string_variants_agree v n le []) as [_ [E _]]. rewrite E in H.
  destruct (uint_bytes_roundtrip v n le s Hn H) as [Hv [_ Hb]].
  destruct (str_variants_agree s le Hb) as [_ [E1 _]]. rewrite E1, Hv. reflexivity.
Qed.

(* ---------- bit string of a byte string = its base-256 value ---------- *)
Lemma concat_bits_length m : bytes m ->
  length (concat (map (fun c => zfill 8 (bin c)) m)) = (8 * length m)%nat.
Proof.
  induction 1 as [|b m Hb _ IH]; [reflexivity|].
  cbn [map concat]. rewrite app_length, IH.
  destruct (byte_bits b Hb) as [Hc _]. unfold chunk_ok in Hc. rewrite Hc. cbn [length]. lia.
Qed.

Lemma bytes_to_binary_len l le : bytes l -> length (bytes_to_binary l le) = (8 * length l)%nat.
Proof.
  intros H. unfold bytes_to_binary. destruct le.
  - rewrite concat_bits_length by (now apply bytes_rev). rewrite rev_length. reflexivity.
  - apply concat_bits_length, H.
Qed.

Lemma int2_byte_bits b : byte b -> int2 (zfill 8 (bin b)) = b.
Proof. intros Hb. rewrite int2_zfill. apply int2_bin. unfold byte in Hb. lia. Qed.

Lemma int2_concat_be m : bytes m -> int2 (concat (map (fun c => zfill 8 (bin c)) m)) = be_dec m.
Proof.
  induction m as [|b m IH] using rev_ind; intros H; [reflexivity|].
  apply Forall_app in H as [Hm Hb]. inversion Hb as [|? ? Hb0 _]; subst.
  rewrite map_app, concat_app. cbn [map concat]. rewrite app_nil_r.
  rewrite int2_app, IH by exact Hm.
  destruct (byte_bits b Hb0) as [Hc _]. unfold chunk_ok in Hc. rewrite Hc.
  rewrite int2_byte_bits by exact Hb0.
  unfold be_dec. rewrite rev_app_distr. cbn [rev app le_dec].
  change (2 ^ Z.of_nat 8) with 256. lia.
Qed.

Theorem int2_bytes_to_binary l le : bytes l ->
  int2 (bytes_to_binary l le) = if le then le_dec l else be_dec l.
Proof.
  intros H. unfold bytes_to_binary. destruct le.
  - rewrite int2_concat_be by (now apply bytes_rev). unfold be_dec. rewrite rev_involutive. reflexivity.
  - apply int2_concat_be, H.
Qed.

(* bytes_to_uint is int.from_bytes(.., signed=False) *)
Theorem bytes_to_uint_value l le : bytes l -> l <> [] ->
  bytes_to_uint l le = Some (if le then le_dec l else be_dec l).
Proof.
  intros H Hne. destruct l as [|b l]; [congruence|].
  unfold bytes_to_uint. rewrite int2_bytes_to_binary by exact H. reflexivity.
Qed.

(* the signed reading is the two's-complement reinterpretation of the unsigned one *)
Theorem int_uint_agree l le u : bytes l -> l <> [] -> bytes_to_uint l le = Some u ->
  bytes_to_int l le = to_signed (8 * Z.of_nat (length l)) u /\ 0 <= u < 2 ^ (8 * Z.of_nat (length l)).
Proof.
  intros H Hne Hu. rewrite bytes_to_uint_value in Hu by assumption.
  injection Hu as <-. split.
  - destruct l as [|b l]; [congruence|]. reflexivity.
  - rewrite <- pow256. destruct le.
    + apply le_dec_range, H.
    + unfold be_dec. rewrite <- (rev_length l). apply le_dec_range, bytes_rev, H.
Qed.

(* encode(decode(b)) = b for unsigned integers *)
Theorem bytes_uint_roundtrip l le v : bytes l -> l <> [] ->
  bytes_to_uint l le = Some v -> uint_to_bytes v (length l) le = Some l.
Proof.
  intros H Hne Hv.
  assert (Hs : v = int2 (bytes_to_binary l le)).
  { destruct l as [|b l]; [congruence|]. unfold bytes_to_uint in Hv. congruence. }
  pose proof (bytes_to_binary_len l le H) as Hlen.
  pose proof (int2_range (bytes_to_binary l le)) as Hr. rewrite Hlen in Hr. rewrite <- Hs in Hr.
  unfold uint_to_bytes.
  replace ((v <? 0) || (2 ^ Z.of_nat (8 * length l) - 1 <? v)) with false by lia.
  f_equal. rewrite Hs, <- Hlen. rewrite zfill_bin_int2.
  - apply bytes_binary_roundtrip, H.
  - intros E. rewrite E in Hlen. cbn [length] in Hlen. destruct l; [congruence|cbn [length] in Hlen; lia].
Qed.

(* the two's complement string of v, cut into bytes, is int_to_bytes v *)
Theorem twos_bytes_agree v n le s : (0 < n)%nat ->
  int_to_twos v n = Some s -> int_to_bytes v n le = Some (binary_to_bytes s le).
Proof.
  intros Hn H. destruct (twos_roundtrip v n s Hn H) as [Ht Hlen].
  set (l := binary_to_bytes s le).
  assert (Hb : bytes l) by apply binary_to_bytes_bytes.
  assert (Hs : bytes_to_binary l le = s) by (apply (binary_bytes_roundtrip s le n), Hlen).
  assert (Hll : length l = n).
  { pose proof (bytes_to_binary_len l le Hb) as E. rewrite Hs, Hlen in E. lia. }
  assert (Hne : l <> []) by (intros E; rewrite E in Hll; cbn in Hll; lia).
  assert (Hv : bytes_to_int l le = v).
  { rewrite bytes_to_int_nonempty by exact Hne.
    rewrite <- (int2_bytes_to_binary l le Hb), Hs.
    assert (Hsne : s <> []) by (intros E; rewrite E in Hlen; cbn in Hlen; lia).
    rewrite twos_to_int_ne in Ht by exact Hsne. injection Ht as Ht. rewrite <- Ht.
    pose proof (int2_range s) as Hr. rewrite Hlen in Hr.
    rewrite Hll, Hlen.
    replace (8 * Z.of_nat n) with (Z.of_nat (8 * n)) by lia.
    set (w := Z.of_nat (8 * n)) in *.
    assert (Hw : 0 < w) by (unfold w; lia).
    rewrite land_pow2_zero by (try lia; replace (w - 1 + 1) with w by lia; exact Hr).
    rewrite Z.shiftl_1_l. reflexivity. }
  rewrite <- Hv, <- Hll. apply bytes_int_roundtrip; assumption.
Qed.

(* ---------- day_* helpers ---------- *)
Definition time_ok (h mi s us : Z) : Prop :=
  0 <= h < 24 /\ 0 <= mi < 60 /\ 0 <= s < 60 /\ 0 <= us < 1000000.

Theorem day_microseconds_range h mi s us : time_ok h mi s us ->
  0 <= day_microseconds h mi s us < 86400000000.
Proof. unfold time_ok, day_microseconds. lia. Qed.

(* the four fields are recovered from the count: the count is a bijection on valid times *)
Theorem day_microseconds_inj h mi s us h' mi' s' us' : time_ok h mi s us -> time_ok h' mi' s' us' ->
  day_microseconds h mi s us = day_microseconds h' mi' s' us' ->
  h = h' /\ mi = mi' /\ s = s' /\ us = us'.
Proof. unfold time_ok, day_microseconds. lia. Qed.

Theorem day_milliseconds_nearest h mi s us : time_ok h mi s us ->
  let m := day_milliseconds h mi s us in
  Z.abs (1000 * m - day_microseconds h mi s us) <= 500 /\ 0 <= m <= 86400000.
Proof.
  intros Ht. pose proof (day_microseconds_range h mi s us Ht) as Hr.
  unfold day_milliseconds, round_half_even_div.
  set (a := day_microseconds h mi s us) in *. cbv zeta.
  destruct (2 * (a mod 1000) <? 1000) eqn:E1; [lia|].
  destruct (1000 <? 2 * (a mod 1000)) eqn:E2; [lia|].
  destruct (Z.even (a / 1000)); lia.
Qed.

(* the value one past the last millisecond of the day IS reachable: the last 500 us round up *)
Theorem day_milliseconds_reaches_next_day : day_milliseconds 23 59 59 999500 = 86400000.
Proof. reflexivity. Qed.

(* ---------- binary_complement ---------- *)
Lemma combine_repeat_true (s : list bool) : forall n, (length s <= n)%nat ->
  map (fun p : bool * bool => if snd p then negb (fst p) else false) (combine s (repeat true n)) = map negb s.
Proof.
  induction s as [|b s IH]; intros n Hn; [reflexivity|].
  destruct n as [|n]; [cbn in Hn; lia|]. cbn [repeat combine map fst snd]. f_equal. apply IH. cbn in Hn. lia.
Qed.

(* with the default (empty) mask every bit is inverted *)
Theorem binary_complement_default s : binary_complement s [] = map negb s.
Proof.
  unfold binary_complement. cbn [length]. replace (length s <? 0)%nat with false by (symmetry; apply Nat.ltb_ge; lia).
  rewrite app_nil_r, Nat.sub_0_r. apply combine_repeat_true. lia.
Qed.

Theorem binary_complement_involutive s : binary_complement (binary_complement s []) [] = s.
Proof.
  rewrite !binary_complement_default, map_map. rewrite <- (map_id s) at 2. apply map_ext. intros b. apply negb_involutive.
Qed.

Theorem binary_complement_length s mask : length (binary_complement s mask) = length s.
Proof.
  unfold binary_complement. rewrite map_length, combine_length.
  destruct (length s <? length mask)%nat eqn:E.
  - apply Nat.ltb_lt in E. rewrite lastn_length by lia. lia.
  - apply Nat.ltb_ge in E. rewrite app_length, repeat_length. lia.
Qed.

(* the value of the complemented string is the one's complement on len(s) bits *)
Theorem binary_complement_value s : int2 (binary_complement s []) = 2 ^ Z.of_nat (length s) - 1 - int2 s.
Proof.
  rewrite binary_complement_default. induction s as [|b s IH]; [reflexivity|].
  cbn [map]. rewrite !int2_cons, map_length, IH. cbn [length]. rewrite Nat2Z.inj_succ, Z.pow_succ_r by lia.
  destruct b; cbn [negb b2z]; lia.
Qed.
