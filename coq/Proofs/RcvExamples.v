(* Concrete instances showing that the hypotheses of the C18 theorems are satisfiable by non-trivial
   states (three Dewar boards, one of them re-addressed) and what the model computes on them. *)
From DS Require Import Base.Prelude Gen.RcvTables Model.RcvModel Proofs.RcvAssoc Proofs.RcvProofs Proofs.RcvBoards Proofs.RcvFraming.

Definition xclk (n : nat) : Z := 1000 + Z.of_nat n.
Definition xmkdate (_ : list Z) : option Z := Some 500.
Definition xrender (_ : Z) : option (list Z) := Some [20; 26; 10; 1; 12; 0; 0; 0].
Definition xrun := run xclk xmkdate xrender.
Definition xhandle := handle xclk xmkdate xrender.

Definition sys0 : sys := init_sys 1 1 [1; 2; 3].
(* board 2 moves to address 9 (extended form, right checksum), then a DIO bit is written by broadcast *)
Definition setaddr_2_9 : list Z := let b := ext_body KSetAddr 2 17 5 [9] in b ++ [xor_sum b; CMD_EOT].
Definition sys1 : sys := fst (xrun sys0 setaddr_2_9).

Example ex_inv : sys_inv (s_slaves sys1) /\ keys_of (s_slaves sys1) = [1; 3; 9].
Proof.
  split; [|vm_compute; reflexivity].
  eapply run_inv with (s := sys0); [apply init_inv; repeat constructor; cbn; intuition lia|].
  unfold sys1, xrun. apply surjective_pairing.
Qed.

Example ex_readdress_reply :
  snd (xrun sys0 setaddr_2_9) = repeat OTrue 8 ++ [OReply [2; 17; 2; 71; 5; 0; 83; 4]].
Proof. vm_compute. reflexivity. Qed.

(* the old address is silent, the new one answers *)
Example ex_old_silent : snd (xrun sys1 (abbr_frame KGetAddr 2 17 6 [] [])) = repeat OTrue 5.
Proof. vm_compute. reflexivity. Qed.
Example ex_new_answers :
  snd (xrun sys1 (abbr_frame KGetAddr 9 17 6 [] [])) = repeat OTrue 4 ++ [OReply [2; 17; 9; 102; 6; 0; 1; 9]].
Proof. vm_compute. reflexivity. Qed.

(* broadcast with answer: three frames, in map order 1, 3, 9 *)
Example ex_broadcast :
  snd (xrun sys1 (abbr_frame KGetFrame 127 17 7 [] [])) =
  repeat OTrue 4 ++ [OReply ([2; 17; 1; 106; 7; 0; 1; 126] ++ [2; 17; 3; 106; 7; 0; 1; 126] ++ [2; 17; 9; 106; 7; 0; 1; 126])].
Proof. vm_compute. reflexivity. Qed.

(* wrong checksum *)
Example ex_bad_checksum :
  let b := ext_body KSetFrame 3 17 8 [5] in
  xrun sys1 (b ++ [xor_sum b + 1; CMD_EOT]) =
  (sys1, repeat OTrue 8 ++ [OReply (let f := [2; 17; 3; 75; 8; 2] in f ++ [xor_sum f; 4])]).
Proof. vm_compute. reflexivity. Qed.

(* both forms of set_data on a DIO bit: same answer code, same registers up to the recorded code *)
Example ex_forms :
  let pa := [DATA_TYPE_B01; PORT_TYPE_DIO; PORT_NUMBER_11; 1] in
  let ma := abbr_frame KSetData 3 17 8 pa [] in
  let b := ext_body KSetData 3 17 8 pa in
  let me := b ++ [xor_sum b; CMD_EOT] in
  map (fun kb => (fst kb, mask_cmd (snd kb))) (s_slaves (fst (xrun sys1 ma))) =
  map (fun kb => (fst kb, mask_cmd (snd kb))) (s_slaves (fst (xrun sys1 me))) /\
  s_slaves (fst (xrun sys1 ma)) <> s_slaves sys1.
Proof. vm_compute. split; [reflexivity|discriminate]. Qed.
