(* Active-surface parts of C02 (queries answered in every reachable state) and C05 (acknowledged
   writes read back, refused writes change nothing), derived from the line-level USD model
   (Model/UsdModel.v parse1/lstep/lrun), its refinement to Spec/UsdSpec.v and the invariant. *)
From DS Require Import Base.Prelude Base.Bits Model.Utils Model.UsdModel Spec.UsdSpec.
From DS Require Import Proofs.UtilsProofs Proofs.UsdMotion Proofs.UsdInv Proofs.UsdRefine Proofs.UsdHistory.

(* ---------- lines: the units keep their addresses ---------- *)
Lemma exec_index c b u : usd_index (fst (exec c b u)) = usd_index u.
Proof.
  destruct c; cbn [exec]; unfold request_position, acked, refused;
    repeat match goal with
           | |- context [if ?x then _ else _] => destruct x
           | |- context [match position_queue u with _ => _ end] => destruct (position_queue u) as [|[? ?] ?]
           end; cbn [fst]; destruct u; reflexivity.
Qed.

Lemma handle_index c b p u : 0 <= b -> bytes p -> Inv u -> usd_index (fst (handle c b p u)) = usd_index u.
Proof.
  intros Hb Hp H. rewrite handle_refines by assumption. unfold spec_handle.
  destruct (decode c p); cbn [fst refused]; auto using exec_index.
Qed.

Lemma tick_index k now u : usd_index (tick k now u) = usd_index u.
Proof. unfold tick. pose proof (calc_config (displacement u k) now u) as C. unfold same_config in C. tauto. Qed.

Lemma upd_nth_same us : forall j u, nth_error us j = Some u -> upd_nth us j u = us.
Proof.
  induction us as [|h t IH]; intros [|j] u Hn; cbn in *; try discriminate.
  - injection Hn as ->. reflexivity.
  - f_equal. apply IH, Hn.
Qed.

Lemma upd_nth_map_index us : forall j u u', nth_error us j = Some u -> usd_index u' = usd_index u ->
  map usd_index (upd_nth us j u') = map usd_index us.
Proof.
  induction us as [|h t IH]; intros [|j] u u' Hn He; cbn in *; try discriminate.
  - injection Hn as ->. now rewrite He.
  - f_equal. eapply IH; eassumption.
Qed.

(* a line state: every unit satisfies the invariant and answers to the address it was built with *)
Definition line_ok (idxs : list Z) (us : list usd) : Prop :=
  Forall Inv us /\ map usd_index us = idxs.

Lemma lstep_line_ok idxs s e : wf_levent e -> line_ok idxs (fst s) -> line_ok idxs (fst (fst (lstep s e))).
Proof.
  intros Hw [Hf Hi]. split; [apply lstep_refines; assumption|].
  destruct s as [us now]. cbn [fst] in *. destruct e as [j c b p|c b p|k]; cbn [wf_levent lstep] in *.
  - destruct Hw as [Hb Hp]. destruct (nth_error us j) as [u|] eqn:Hn; [|exact Hi].
    assert (Hu : Inv u) by (rewrite Forall_forall in Hf; apply Hf; eapply nth_error_In; exact Hn).
    unfold parse1. pose proof (handle_index c b p u Hb Hp Hu) as He.
    destruct (handle c b p u) as [u' o]. cbn [fst] in *. rewrite <- Hi. eapply upd_nth_map_index; eassumption.
  - destruct Hw as [Hb Hp]. destruct (known_code c); cbn [fst]; [|exact Hi].
    rewrite <- Hi. unfold bcast. rewrite map_map. apply map_ext_in. intros u Hin.
    apply handle_index; auto. rewrite Forall_forall in Hf. auto.
  - cbn [fst]. rewrite <- Hi, map_map. apply map_ext. intros u. apply tick_index.
Qed.

Lemma lrun_line_ok idxs h : forall s, Forall wf_levent h -> line_ok idxs (fst s) ->
  line_ok idxs (fst (fst (lrun s h))).
Proof.
  induction h as [|e h IH]; intros s Hw H; [exact H|].
  inversion Hw as [|? ? He Hh]; subst. cbn [lrun].
  pose proof (lstep_line_ok idxs s e He H) as H1. destruct (lstep s e) as [s1 o]. cbn [fst] in H1.
  specialize (IH s1 Hh H1). destruct (lrun s1 h) as [s2 os]. exact IH.
Qed.

Lemma init_line_ok idxs : Forall (fun i => 0 <= i < 32) idxs -> line_ok idxs (map usd_init idxs).
Proof.
  intros Hi. split; [apply init_line_inv, Hi|]. rewrite map_map. cbn. apply map_id.
Qed.

(* ---------- C02: the four read-only queries ---------- *)
Definition payload_of (code : Z) (u : usd) : list Z :=
  if code =? 16 then [19]
  else if code =? 18 then be32 (current_position u)
  else if code =? 19 then status_bytes u
  else [32].

Lemma query_reply code b u : 0 <= b -> Inv u -> In code [16; 18; 19; 20] ->
  handle code b [] u = (u, OReply (spec_frame b (usd_index u) (payload_of code u))).
Proof.
  intros Hb H Hc. rewrite handle_refines; [|assumption|constructor|assumption].
  destruct Hc as [<-|[<-|[<-|[<-|[]]]]]; reflexivity.
Qed.

Lemma payload_ok code u : Inv u -> In code [16; 18; 19; 20] ->
  bytes (payload_of code u) /\
  length (payload_of code u) = (if code =? 18 then 4%nat else if code =? 19 then 3%nat else 1%nat).
Proof.
  intros H Hc. destruct Hc as [<-|[<-|[<-|[<-|[]]]]]; unfold payload_of; cbn [Z.eqb Pos.eqb].
  - split; [repeat constructor; unfold byte; lia|reflexivity].
  - split; [|reflexivity]. unfold be32.
    assert (0 <= current_position u mod 2 ^ 32 < 2 ^ 32) by (apply Z.mod_pos_bound; lia).
    set (v := current_position u mod 2 ^ 32) in *. change (2 ^ 32) with 4294967296 in *.
    change (2 ^ 24) with 16777216. change (2 ^ 16) with 65536. change (2 ^ 8) with 256.
    repeat apply Forall_cons; try apply Forall_nil; unfold byte; lia.
  - pose proof (status_bytes_nonneg u H) as Hn. destruct (status_faithful u H) as (s1 & s2 & E & _).
    split; [|rewrite E; reflexivity].
    generalize (inv_iodir u H) (inv_ioval u H) (inv_res u H).
    unfold status_bytes. destruct (io_dir u) as [[d0 d1] d2], (io_val u) as [[v0 v1] v2].
    intros (D0 & D1 & D2) (V0 & V1 & V2) (j & Hj & Hr). rewrite Hr, Z.log2_pow2 by lia.
    unfold bit01, flag in *.
    repeat apply Forall_cons; try apply Forall_nil; unfold byte; try lia.
    destruct (running u), (delayed_execution u), (ready u), (full_current u), (auto_resolution u); lia.
  - split; [repeat constructor; unfold byte; lia|reflexivity].
Qed.

(* the position payload decodes (big-endian two's complement) to the position, negative included *)
Lemma be32_decodes p : - 2 ^ 31 <= p < 2 ^ 31 ->
  match be32 p with [a; b; c; d] => s32 a b c d = p | _ => False end.
Proof.
  intros Hp. unfold be32, s32, signed.
  assert (Hv : 0 <= p mod 2 ^ 32 < 2 ^ 32) by (apply Z.mod_pos_bound; lia).
  assert (Hm : p mod 2 ^ 32 = p \/ p mod 2 ^ 32 = p + 2 ^ 32).
  { destruct (Z.le_gt_cases 0 p); [left; apply Z.mod_small; lia|right].
    symmetry. apply Z.mod_unique with (-1); lia. }
  set (v := p mod 2 ^ 32) in *. change (2 ^ 32) with 4294967296 in *. change (2 ^ 31) with 2147483648 in *.
  change (2 ^ 24) with 16777216. change (2 ^ 16) with 65536. change (2 ^ 8) with 256.
  change (2 ^ (32 - 1)) with 2147483648.
  replace (((v / 16777216 * 256 + (v / 65536) mod 256) * 256 + (v / 256) mod 256) * 256 + v mod 256)
    with v by lia.
  destruct (v <? 2147483648) eqn:E; lia.
Qed.

(* a well-formed answer frame: ACK, the start byte of the request, the [length|address] byte exactly
   when the request started with 0xFC, the payload, the checksum; every element a byte *)
Definition answer_frame (b idx : Z) (payload r : list Z) : Prop :=
  r = [6; b] ++ (if b =? 252 then [Z.of_nat (length payload) * 32 + idx] else []) ++ payload
      ++ [255 - zsum ([6; b] ++ (if b =? 252 then [Z.of_nat (length payload) * 32 + idx] else [])
                      ++ payload) mod 256]
  /\ bytes r.

Lemma spec_frame_answer b idx payload : In b [250; 252] -> 0 <= idx < 32 -> bytes payload ->
  (length payload <= 4)%nat -> answer_frame b idx payload (spec_frame b idx payload).
Proof.
  intros Hb Hi Hp Hl. unfold answer_frame, spec_frame, spec_checksum. split.
  - rewrite <- !app_assoc. reflexivity.
  - apply Forall_app. split.
    + assert (byte b) by (destruct Hb as [<-|[<-|[]]]; unfold byte; lia).
      repeat apply Forall_cons; try assumption; [unfold byte; lia|].
      apply Forall_app. split; [|exact Hp].
      destruct (b =? 252); [|constructor]. constructor; [|constructor]. unfold byte. lia.
    + constructor; [|constructor]. unfold byte.
      match goal with |- context [?x mod 256] => pose proof (Z.mod_pos_bound x 256) end. lia.
Qed.

(* one query in one state *)
Theorem query_answered us now j u code b : Forall Inv us -> nth_error us j = Some u ->
  In code [16; 18; 19; 20] -> In b [250; 252] ->
  exists o, lstep (us, now) (LUni j code b []) = ((us, now), Some o) /\
    (if delay_multiplier u =? 255 then o = OSilent
     else exists r, o = OReply r /\ answer_frame b (usd_index u) (payload_of code u) r).
Proof.
  intros Hf Hn Hc Hb.
  assert (Hu : Inv u) by (rewrite Forall_forall in Hf; apply Hf; eapply nth_error_In; exact Hn).
  assert (Hb0 : 0 <= b) by (destruct Hb as [<-|[<-|[]]]; lia).
  unfold lstep. rewrite Hn. unfold parse1. rewrite (query_reply code b u Hb0 Hu Hc).
  rewrite (upd_nth_same us j u Hn). eexists. split; [reflexivity|].
  destruct (delay_multiplier u =? 255); [reflexivity|]. eexists. split; [reflexivity|].
  destruct (payload_ok code u Hu Hc) as [Hp Hl].
  apply spec_frame_answer; auto using (inv_idx u Hu).
  rewrite Hl. destruct (code =? 18), (code =? 19); lia.
Qed.

(* in every state reachable by any history of unicast / broadcast commands and time steps *)
Theorem queries_answered_always idxs clk h : Forall (fun i => 0 <= i < 32) idxs ->
  Forall wf_levent h ->
  let s := fst (lrun (map usd_init idxs, clk) h) in
  forall j u code b, nth_error (fst s) j = Some u -> In code [16; 18; 19; 20] -> In b [250; 252] ->
  nth_error idxs j = Some (usd_index u) /\
  exists o, lstep s (LUni j code b []) = (s, Some o) /\
    (if delay_multiplier u =? 255 then o = OSilent
     else exists r, o = OReply r /\ answer_frame b (usd_index u) (payload_of code u) r).
Proof.
  intros Hi Hw. cbv zeta. intros j u code b Hn Hc Hb.
  destruct (lrun_line_ok idxs h (map usd_init idxs, clk) Hw (init_line_ok idxs Hi)) as [Hf Hm].
  destruct (fst (lrun (map usd_init idxs, clk) h)) as [us now] eqn:Es. cbn [fst] in *. split.
  - rewrite <- Hm. rewrite nth_error_map, Hn. reflexivity.
  - apply query_answered; assumption.
Qed.

Lemma position_readable u : Inv u ->
  match payload_of 18 u with [a; b; c; d] => s32 a b c d = current_position u | _ => False end.
Proof.
  intros H. unfold payload_of. cbn [Z.eqb Pos.eqb]. apply be32_decodes.
  pose proof (inv_pos u H) as Hp. unfold pos_ok, min_position, max_position in Hp. lia.
Qed.

(* ---------- C05: refused writes change nothing ---------- *)
Lemma exec_nak_unchanged c b u : snd (exec c b u) = OReply nak -> fst (exec c b u) = u.
Proof.
  destruct c; cbn [exec]; unfold request_position, acked, refused, spec_frame;
    repeat match goal with
           | |- context [if ?x then _ else _] => destruct x
           | |- context [match position_queue u with _ => _ end] => destruct (position_queue u) as [|[? ?] ?]
           end; cbn [fst snd app]; intros E; try reflexivity; discriminate E.
Qed.

Lemma exec_not_rejected c b u : snd (exec c b u) <> OValueError.
Proof.
  destruct c; cbn [exec]; unfold request_position, acked, refused;
    repeat match goal with
           | |- context [if ?x then _ else _] => destruct x
           | |- context [match position_queue u with _ => _ end] => destruct (position_queue u) as [|[? ?] ?]
           end; cbn [snd]; discriminate.
Qed.

Theorem refused_unchanged c b p u : 0 <= b -> bytes p -> Inv u ->
  (snd (handle c b p u) = OReply nak \/ snd (handle c b p u) = OValueError) ->
  fst (handle c b p u) = u.
Proof.
  intros Hb Hp H. rewrite handle_refines by assumption. unfold spec_handle.
  destruct (decode c p) as [cm| |]; cbn [fst snd refused]; try reflexivity.
  intros [E|E]; [apply exec_nak_unchanged, E|]. exfalso. exact (exec_not_rejected cm b u E).
Qed.

(* on a line: a unicast command answered NAK (or rejected) leaves every unit, hence every later
   read-back and the motion target, unchanged *)
Theorem refused_line_unchanged us now j c b p s' o : 0 <= b -> bytes p -> Forall Inv us ->
  lstep (us, now) (LUni j c b p) = (s', Some o) -> (o = OReply nak \/ o = OValueError) ->
  s' = (us, now).
Proof.
  intros Hb Hp Hf. unfold lstep. destruct (nth_error us j) as [u|] eqn:Hn.
  - assert (Hu : Inv u) by (rewrite Forall_forall in Hf; apply Hf; eapply nth_error_In; exact Hn).
    unfold parse1. pose proof (refused_unchanged c b p u Hb Hp Hu) as Hr.
    destruct (handle c b p u) as [u' o'] eqn:Eh. cbn [fst snd] in Hr.
    intros E Ho. injection E as <- <-.
    assert (o' = OReply nak \/ o' = OValueError).
    { destruct o' as [r| | | |]; try (destruct Ho; discriminate); auto.
      destruct (delay_multiplier u' =? 255); [destruct Ho; discriminate|]. destruct Ho as [Ho|Ho]; auto. }
    rewrite (Hr H). rewrite (upd_nth_same us j u Hn). reflexivity.
  - intros E _. injection E as <- _. reflexivity.
Qed.

(* ---------- C05: the register catalogue ---------- *)
Inductive register :=
| RMinFrequency | RMaxFrequency | RSlopeDelayer | RReferencePosition | RIoPins | RResolution
| RCurrentReduction | RResponseDelay | RDelayedExecution | RStopIo | RPositioningIo | RHomeIo
| RWorkingMode.

Definition writer (r : register) : Z :=
  match r with
  | RMinFrequency => 32 | RMaxFrequency => 33 | RSlopeDelayer => 34 | RReferencePosition => 35
  | RIoPins => 37 | RResolution => 38 | RCurrentReduction => 39 | RResponseDelay => 40
  | RDelayedExecution => 41 | RStopIo => 42 | RPositioningIo => 43 | RHomeIo => 44
  | RWorkingMode => 45
  end.

Definition tril (t : tri) : list Z := let '(a, b, c) := t in [a; b; c].

(* the stored value of a register *)
Definition value (r : register) (u : usd) : list Z :=
  match r with
  | RMinFrequency => [min_frequency u]
  | RMaxFrequency => [max_frequency u]
  | RSlopeDelayer => [slope_delayer u]
  | RReferencePosition => [reference_position u]
  | RIoPins => tril (io_dir u) ++ tril (io_val u)
  | RResolution => [flag (auto_resolution u); resolution u]
  | RCurrentReduction => [standby_mode u; standby_delay_multiplier u]
  | RResponseDelay => [delay_multiplier u]
  | RDelayedExecution => flag (delayed_execution u) :: tril (trigger_io_enable u) ++ tril (trigger_io_level u)
  | RStopIo => tril (stop_io_enable u) ++ tril (stop_io_level u)
  | RPositioningIo => tril (pos_io_enable u) ++ tril (pos_io_level u)
  | RHomeIo => tril (home_io_enable u) ++ tril (home_io_level u)
  | RWorkingMode => [baud_rate u]
  end.

Definition code_of (c : command) : Z :=
  match c with
  | CReset => 1 | CTrigger => 2 | CGetVersion => 16 | CStop => 17 | CGetPosition => 18
  | CGetStatus => 19 | CGetDriverType => 20 | CSetMinFrequency _ => 32 | CSetMaxFrequency _ => 33
  | CSetSlopeDelayer _ => 34 | CSetReferencePosition _ => 35 | CSetIoPins _ => 37
  | CSetResolution _ => 38 | CSetCurrentReduction _ => 39 | CSetResponseDelay _ => 40
  | CSetDelayedExecution _ => 41 | CSetStopIo _ => 42 | CSetPositioningIo _ => 43 | CSetHomeIo _ => 44
  | CSetWorkingMode _ _ => 45 | CSetAbsolutePosition _ => 48 | CSetRelativePosition _ => 49
  | CRotate _ => 50 | CSetVelocity _ => 53
  end.

Lemma decode_code code p c : decode code p = DCmd c -> code_of c = code.
Proof.
  unfold decode. intros Hd.
  repeat match type of Hd with
         | context [match ?x with _ => _ end] => destruct x; try discriminate Hd
         end; injection Hd as <-; reflexivity.
Qed.

Lemma exec_register_kept r c b u : code_of c <> writer r -> code_of c <> 1 ->
  value r (fst (exec c b u)) = value r u.
Proof.
  intros Hw Hr.
  destruct c; cbn [code_of] in *; try congruence; cbn [exec]; unfold request_position, acked, refused;
    repeat match goal with
           | |- context [if ?x then _ else _] => destruct x
           | |- context [match position_queue u with _ => _ end] => destruct (position_queue u) as [|[? ?] ?]
           end; cbn [fst]; try reflexivity;
    destruct r; cbn [writer] in Hw; try congruence; destruct u; reflexivity.
Qed.

Theorem register_kept_command r c b p u : 0 <= b -> bytes p -> Inv u -> c <> writer r -> c <> 1 ->
  value r (fst (handle c b p u)) = value r u.
Proof.
  intros Hb Hp H Hw Hr. rewrite handle_refines by assumption. unfold spec_handle.
  destruct (decode c p) as [cm| |] eqn:Hd; cbn [fst refused]; try reflexivity.
  apply decode_code in Hd. apply exec_register_kept; congruence.
Qed.

Lemma standby_part_registers now u r : value r (standby_part now u) = value r u.
Proof.
  unfold standby_part.
  destruct (negb (running u) && negb (standby u)); [|reflexivity].
  destruct (last_movement u) as [lm|]; [|reflexivity].
  destruct (negb (lm =? 0) && standby_due (now - lm) (standby_delay_multiplier u)); [|reflexivity].
  destruct r, u; reflexivity.
Qed.

Theorem register_kept_tick r d now u : value r (calc_position d now u) = value r u.
Proof.
  unfold calc_position. rewrite standby_part_registers.
  destruct (truthy (velocity u)).
  - destruct (velocity u); [|reflexivity]. destruct r, u; reflexivity.
  - destruct (cmd_position u) as [cmd|]; [|destruct r, u; reflexivity].
    cbv zeta. match goal with |- context [if ?c then _ else _] => destruct c end; destruct r, u; reflexivity.
Qed.

(* a written value persists over any history without an acknowledged write to it or a reset *)
Definition leaves_alone (r : register) (e : event) : Prop :=
  match e with ECmd c _ _ => c <> writer r /\ c <> 1 | ETick _ => True end.

Theorem register_kept_history r h : forall s, Forall wf_event h -> Forall (leaves_alone r) h ->
  Inv (fst s) -> value r (fst (fst (run s h))) = value r (fst s).
Proof.
  induction h as [|e h IH]; intros s Hw Hl H; [reflexivity|].
  inversion Hw as [|? ? He Hh]; subst. inversion Hl as [|? ? Le Lh]; subst. cbn [run].
  destruct (step_refines s e He H) as [_ Hi].
  assert (Hv : value r (fst (fst (step s e))) = value r (fst s)).
  { destruct s as [u now]. destruct e as [c b p|k]; cbn [step wf_event leaves_alone fst] in *.
    - unfold parse1. pose proof (register_kept_command r c b p u (proj1 He) (proj2 He) H (proj1 Le) (proj2 Le)) as E.
      destruct (handle c b p u) as [u' o]. exact E.
    - apply register_kept_tick. }
  destruct (step s e) as [s1 o]. cbn [fst] in *. specialize (IH s1 Hh Lh Hi).
  destruct (run s1 h) as [s2 os]. cbn [fst] in *. congruence.
Qed.

(* refused writes to a register leave it (and everything else) alone even when addressed to it *)
Theorem register_kept_refused r c b p u : 0 <= b -> bytes p -> Inv u ->
  snd (handle c b p u) = OReply nak -> value r (fst (handle c b p u)) = value r u.
Proof. intros Hb Hp H E. rewrite refused_unchanged; auto. Qed.

(* what an acknowledged write stores *)
Theorem written_value b u : 0 <= b -> Inv u ->
  (forall x y, byte x -> byte y -> snd (handle 32 b [x; y] u) = OReply ack ->
     value RMinFrequency (fst (handle 32 b [x; y] u)) = [s16 x y]) /\
  (forall x y, byte x -> byte y -> snd (handle 33 b [x; y] u) = OReply ack ->
     value RMaxFrequency (fst (handle 33 b [x; y] u)) = [s16 x y]) /\
  (forall x, byte x -> value RSlopeDelayer (fst (handle 34 b [x] u)) = [x + 1]) /\
  (forall x y z w, byte x -> byte y -> byte z -> byte w ->
     value RReferencePosition (fst (handle 35 b [x; y; z; w] u)) = [s32 x y z w]) /\
  (forall x, byte x -> value RIoPins (fst (handle 37 b [x] u)) = tril (io_directions x) ++ tril (io_values x)) /\
  (forall x, byte x -> value RResolution (fst (handle 38 b [x] u))
                       = if 8 <=? x then [1; 1] else [0; 2 ^ x]) /\
  (forall x, byte x -> value RCurrentReduction (fst (handle 39 b [x] u))
                       = [(if x / 64 <=? 1 then 0 else x / 64 - 1); x mod 64]) /\
  (forall x, byte x -> value RResponseDelay (fst (handle 40 b [x] u)) = [x]) /\
  (forall x, byte x -> value RDelayedExecution (fst (handle 41 b [x] u))
                       = flag (bitb x 7) :: tril (io_enables x) ++ tril (io_levels x)) /\
  (forall x, byte x -> value RStopIo (fst (handle 42 b [x] u)) = tril (io_enables x) ++ tril (io_levels x)) /\
  (forall x, byte x -> value RPositioningIo (fst (handle 43 b [x] u)) = tril (io_enables x) ++ tril (io_levels x)) /\
  (forall x, byte x -> value RHomeIo (fst (handle 44 b [x] u)) = tril (io_enables x) ++ tril (io_levels x)) /\
  (forall x y, byte x -> byte y -> value RWorkingMode (fst (handle 45 b [x; y] u))
                                  = [if bitb x 0 then 19200 else 9600]).
Proof.
  intros Hb H.
  assert (B1 : forall x, byte x -> bytes [x]) by (intros; apply Forall_cons; [assumption|apply Forall_nil]).
  assert (B2 : forall x y, byte x -> byte y -> bytes [x; y])
    by (intros; repeat (apply Forall_cons; [assumption|]); apply Forall_nil).
  assert (B4 : forall x y z w, byte x -> byte y -> byte z -> byte w -> bytes [x; y; z; w])
    by (intros; repeat (apply Forall_cons; [assumption|]); apply Forall_nil).
  repeat split; intros;
    rewrite ?handle_refines in * by auto; unfold spec_handle in *; cbn [decode exec] in *.
  all: unfold acked, refused in *;
    repeat match goal with
           | |- context [if ?c then _ else _] => destruct c eqn:?
           | H1 : context [if ?c then _ else _] |- _ => destruct c eqn:?
           end; cbn [fst snd] in *; try discriminate; destruct u; reflexivity.
Qed.

(* read-back path: the status bytes expose the resolution, the I/O pins and the delayed-execution
   flag as stored *)
Theorem status_reads_registers u : Inv u ->
  exists s1 s2, payload_of 19 u = [0; s1; s2] /\
    value RResolution u = [flag (bitb s2 3); 2 ^ (s2 mod 8)] /\
    value RIoPins u = [bitz s1 4; bitz s1 5; bitz s1 6; bitz s1 0; bitz s1 1; bitz s1 2] /\
    flag (delayed_execution u) = flag (bitb s2 6).
Proof.
  intros H. destruct (status_faithful u H) as (s1 & s2 & E & _ & F6 & _ & _ & F3 & Fr & Fd & Fv).
  exists s1, s2. split; [exact E|]. cbn [value]. rewrite F3, Fr, F6, Fd, Fv. repeat split; reflexivity.
Qed.
