(* C16 (tag Alay) — the status frame: length, header/trailer, block offsets, blocks identical. *)
From DS Require Import Base.Prelude Base.Bits Model.Utils Proofs.UtilsProofs.
From DS Require Import Model.AlayModel Proofs.AlayLists.

Lemma bind_some {A B} (x : option A) (f : A -> option B) y : bind x f = Some y ->
  exists a, x = Some a /\ f a = Some y.
Proof. destruct x as [a|]; cbn; [eauto|discriminate]. Qed.

Lemma nth_error_split_concat (blocks : list block) k blk : nth_error blocks k = Some blk ->
  concat blocks = concat (firstn k blocks) ++ blk ++ concat (skipn (S k) blocks).
Proof.
  revert k; induction blocks as [|h t IH]; intros [|k] H; cbn in H; try discriminate.
  - injection H as ->. reflexivity.
  - cbn [firstn skipn concat]. rewrite <- app_assoc. f_equal. apply IH. exact H.
Qed.

Lemma slice_concat (blocks : list block) k blk : nth_error blocks k = Some blk ->
  slice (length (concat (firstn k blocks))) (length blk) (concat blocks) = blk.
Proof.
  intros H. rewrite (nth_error_split_concat _ _ _ H) at 1.
  rewrite slice_app_r by lia. rewrite Nat.sub_diag.
  rewrite slice_app_l by lia. unfold slice. cbn [skipn]. apply firstn_all.
Qed.

Lemma offsets_nth start sizes : forall k, (k < length sizes)%nat ->
  nth_error (offsets start sizes) k = Some (start + fold_right Nat.add 0%nat (firstn k sizes))%nat.
Proof.
  revert start; induction sizes as [|s t IH]; intros start [|k] Hk; cbn in Hk; try lia.
  - cbn. f_equal. lia.
  - cbn [offsets nth_error firstn fold_right]. rewrite IH by lia. f_equal. lia.
Qed.

Lemma length_concat (blocks : list block) : length (concat blocks) = fold_right Nat.add 0%nat (map (@length Z) blocks).
Proof. induction blocks as [|h t IH]; cbn; [reflexivity|]. now rewrite app_length, IH. Qed.

Section Frame.
  Variables (fr fr' : block) (ms : Z) (blocks : list block).
  Hypothesis Hup : frame_update fr ms blocks = Some fr'.

  Lemma frame_update_inv : exists msb f1,
    uint_to_bytes ms 4 true = Some msb /\ splice 8 msb fr = Some f1 /\
    (length (concat blocks) + 16 = length fr)%nat /\ splice 12 (concat blocks) f1 = Some fr'.
  Proof.
    unfold frame_update in Hup.
    apply bind_some in Hup as (msb & Hm & H1). apply bind_some in H1 as (f1 & Hf1 & H2).
    destruct (Nat.eqb_spec (length (concat blocks) + 16) (length fr)) as [E|E]; [|discriminate].
    exists msb, f1. auto.
  Qed.

  (* the published frame keeps its size *)
  Theorem frame_update_length : length fr' = length fr.
  Proof.
    destruct frame_update_inv as (msb & f1 & _ & H1 & _ & H2).
    rewrite (splice_length _ _ _ _ H2). apply (splice_length _ _ _ _ H1).
  Qed.

  (* the payload is exactly the concatenation of the blocks *)
  Theorem frame_payload : slice 12 (length (concat blocks)) fr' = concat blocks.
  Proof.
    destruct frame_update_inv as (msb & f1 & _ & _ & _ & H2). apply (slice_splice_same _ _ _ _ H2).
  Qed.

  (* each block appears, byte for byte, at 12 + the sizes of the blocks before it *)
  Theorem frame_block_identical k blk : nth_error blocks k = Some blk ->
    slice (12 + length (concat (firstn k blocks))) (length blk) fr' = blk.
  Proof.
    intros Hk. destruct frame_update_inv as (msb & f1 & _ & _ & _ & H2).
    apply splice_some in H2 as [Hl ->].
    pose proof (nth_error_split_concat _ _ _ Hk) as Hc.
    assert (Hin : (length (concat (firstn k blocks)) + length blk <= length (concat blocks))%nat).
    { rewrite Hc. rewrite !app_length. lia. }
    rewrite slice_app_r by (rewrite firstn_length; lia).
    rewrite firstn_length. replace (Nat.min 12 (length f1)) with 12%nat by lia.
    replace (12 + length (concat (firstn k blocks)) - 12)%nat with (length (concat (firstn k blocks))) by lia.
    rewrite slice_app_l by exact Hin. apply slice_concat. exact Hk.
  Qed.

  (* start flag and length field (bytes 0..8) and the end flag (last 4 bytes) are not touched *)
  Theorem frame_header_kept : slice 0 8 fr' = slice 0 8 fr.
  Proof.
    destruct frame_update_inv as (msb & f1 & _ & H1 & _ & H2).
    rewrite (slice_splice_disjoint _ _ _ _ 0 8 H2) by lia.
    apply (slice_splice_disjoint _ _ _ _ 0 8 H1). lia.
  Qed.

  Theorem frame_trailer_kept : slice (length fr - 4) 4 fr' = slice (length fr - 4) 4 fr.
  Proof.
    destruct frame_update_inv as (msb & f1 & Hm & H1 & Hl & H2).
    assert (length msb = 4%nat).
    { destruct (uint_bytes_roundtrip ms 4 true msb ltac:(lia) Hm) as (_ & A & _). exact A. }
    rewrite (slice_splice_disjoint _ _ _ _ (length fr - 4) 4 H2) by lia.
    apply (slice_splice_disjoint _ _ _ _ (length fr - 4) 4 H1). lia.
  Qed.

  (* the millisecond counter decodes to the value given *)
  Theorem frame_ms : bytes_to_uint (slice 8 4 fr') true = Some ms.
  Proof.
    destruct frame_update_inv as (msb & f1 & Hm & H1 & Hl & H2).
    destruct (uint_bytes_roundtrip ms 4 true msb ltac:(lia) Hm) as (A & B & _).
    rewrite (slice_splice_disjoint _ _ _ _ 8 4 H2) by lia.
    pose proof (slice_splice_same _ _ _ _ H1) as Hs. rewrite B in Hs. rewrite Hs. exact A.
  Qed.
End Frame.

Lemma splice_defined o new (b : block) : (o + length new <= length b)%nat -> exists b', splice o new b = Some b'.
Proof. intros H. unfold splice. destruct (Nat.leb_spec (o + length new) (length b)); [eauto|lia]. Qed.

(* a frame can be assembled whenever the blocks have the declared sizes *)
Lemma frame_update_defined fr ms blocks : 0 <= ms < 2 ^ 32 ->
  (length (concat blocks) + 16 = length fr)%nat -> exists fr', frame_update fr ms blocks = Some fr'.
Proof.
  intros Hms Hl. unfold frame_update.
  destruct (uint_to_bytes ms 4 true) as [msb|] eqn:Em.
  - destruct (uint_bytes_roundtrip ms 4 true msb ltac:(lia) Em) as (_ & B & _).
    destruct (splice_defined 8 msb fr ltac:(lia)) as [f1 H1].
    cbn [bind]. rewrite H1. cbn [bind]. rewrite (proj2 (Nat.eqb_eq _ _) Hl).
    apply splice_defined. rewrite (splice_length _ _ _ _ H1). lia.
  - exfalso. unfold uint_to_bytes in Em.
    destruct ((ms <? 0) || (2 ^ Z.of_nat (8 * 4) - 1 <? ms)) eqn:E; [|discriminate].
    apply orb_true_iff in E as [E|E]; [apply Z.ltb_lt in E; lia|].
    apply Z.ltb_lt in E. change (2 ^ Z.of_nat (8 * 4)) with (2 ^ 32) in E. lia.
Qed.
