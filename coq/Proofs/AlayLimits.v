(* C16 (tag Alay) — MasterAxisStatus.update_status: the limit and rate warning bits agree with the
   position and the velocity of the same block. *)
From Coq Require Import String.
From DS Require Import Base.Prelude Base.Bits Model.Utils Proofs.UtilsProofs.
From DS Require Import Model.AlayModel Model.AlayWf Gen.AlayLayout.
From DS Require Import Proofs.AlayLists Proofs.AlayProofs Proofs.AlayFrame Proofs.AlayInst.

(* the last value assigned to [m] by a sequence of assignments *)
Fixpoint last_assign (ops : list (string * value)) (m : string) : option value :=
  match ops with
  | [] => None
  | op :: rest =>
      match last_assign rest m with
      | Some v => Some v
      | None => if String.eqb (fst op) m then Some (snd op) else None
      end
  end.

Lemma fold_bind_none {A B} (f : A -> B -> option A) l :
  fold_left (fun acc x => bind acc (fun a => f a x)) l None = None.
Proof. induction l; cbn; auto. Qed.

Section Seq.
  Variable size : nat.
  Variable t : list field.
  Hypothesis Hok : layout_ok size t = true.
  Variable e : axis_env.

  Lemma seq_sets_cons op ops b : seq_sets t e (op :: ops) b = bind (setn t e (fst op) (snd op) b) (seq_sets t e ops).
  Proof.
    unfold seq_sets. cbn [fold_left bind].
    destruct (setn t e (fst op) (snd op) b) as [b1|]; [reflexivity|].
    cbn [bind]. apply (fold_bind_none (fun a op => setn t e (fst op) (snd op) a)).
  Qed.

  Lemma seq_sets_app l1 l2 b : seq_sets t e (l1 ++ l2) b = bind (seq_sets t e l1 b) (seq_sets t e l2).
  Proof.
    revert b; induction l1 as [|op l1 IH]; intros b; [reflexivity|].
    cbn [app]. rewrite !seq_sets_cons. destruct (setn t e (fst op) (snd op) b) as [b1|]; [apply IH|reflexivity].
  Qed.

  Lemma setn_keeps n v b b' : length b = size -> bytes b -> setn t e n v b = Some b' ->
    length b' = size /\ bytes b'.
  Proof.
    intros Hl Hb H. apply setn_some in H as (f & _ & Hf & _ & Hs). split.
    - rewrite (set_preserves_length _ _ _ _ _ Hs). exact Hl.
    - eapply set_preserves_bytes; eauto using table_field_ok.
  Qed.

  Lemma getn_setn n v b b' m g : length b = size -> bytes b -> setn t e n v b = Some b' ->
    find_field t m = Some g -> is_view g = false ->
    getn t m b' = if String.eqb n m then stored e g v else getn t m b.
  Proof.
    intros Hl Hb H Hm Hv. apply setn_some in H as (f & Hfind & Hf & Hn & Hs).
    destruct (find_field_some _ _ _ Hm) as [Hg Hgn].
    unfold getn. rewrite Hm.
    destruct (String.eqb_spec n m) as [E|E].
    - subst m. assert (f = g) by congruence. subst g.
      destruct (get_set_same size f (table_field_ok size t Hok f Hf) e b Hl Hb v b' Hs) as (w & Hw & Hgw).
      congruence.
    - assert (Hne : fname f <> fname g) by congruence.
      exact (get_set_other size f g (table_field_ok size t Hok f Hf) (table_field_ok size t Hok g Hg)
               (table_compat size t Hok f g Hf Hg Hne) Hv e b Hl Hb v b' Hs).
  Qed.

  (* after a sequence of accepted assignments a field holds the last value assigned to it, or what it
     held before when the sequence does not name it *)
  Lemma seq_sets_get ops : forall b b' m g, length b = size -> bytes b -> seq_sets t e ops b = Some b' ->
    find_field t m = Some g -> is_view g = false ->
    (length b' = size /\ bytes b') /\
    getn t m b' = match last_assign ops m with Some v => stored e g v | None => getn t m b end.
  Proof.
    induction ops as [|op ops IH]; intros b b' m g Hl Hb H Hm Hv.
    - cbn in H. injection H as <-. auto.
    - rewrite seq_sets_cons in H. apply bind_some in H as (b1 & H1 & H2).
      destruct (setn_keeps _ _ _ _ Hl Hb H1) as [Hl1 Hb1].
      destruct (IH b1 b' m g Hl1 Hb1 H2 Hm Hv) as [Hk Hg]. split; [exact Hk|].
      rewrite Hg. cbn [last_assign]. destruct (last_assign ops m); [reflexivity|].
      rewrite (getn_setn _ _ _ _ _ _ Hl Hb H1 Hm Hv). destruct (String.eqb (fst op) m); reflexivity.
  Qed.
End Seq.

(* ---------- the axis table ---------- *)
Local Open Scope string_scope.

Definition stow_ops (e : axis_env) (p : Z) : list (string * value) :=
  match stow_pos e with
  | [] => []
  | _ => [("stowPosOk", VBool (existsb (Z.eqb p) (stow_pos e)))]
  end.
Definition dn_ops (e : axis_env) (p : Z) : list (string * value) :=
  flags (if (p =? pos_lo e)%Z then [("Pre_Limit_Dn", true); ("Fin_Limit_Dn", false)]
         else if (p <? pos_lo e)%Z then [("Pre_Limit_Dn", true); ("Fin_Limit_Dn", true)]
         else [("Pre_Limit_Dn", false); ("Fin_Limit_Dn", false)]).
Definition up_ops (e : axis_env) (p : Z) : list (string * value) :=
  flags (if (p =? pos_hi e)%Z then [("Pre_Limit_Up", true); ("Fin_Limit_Up", false)]
         else if (pos_hi e <? p)%Z then [("Pre_Limit_Up", true); ("Fin_Limit_Up", true)]
         else [("Pre_Limit_Up", false); ("Fin_Limit_Up", false)]).
Definition rate_ops (e : axis_env) (v : Z) : list (string * value) :=
  [("Rate_Limit", VBool (v_max e <? Z.abs v)%Z)].

Notation T := AlayLayout.axis_table.
Notation SZ := AlayLayout.axis_size.

(* the field records the proof needs, looked up in the generated table *)
Definition the_field (n : string) : field :=
  match find_field T n with Some f => f | None => {| fname := ""; foff := 0; flen := 0; fkind := KView |} end.

Lemma lookups :
  forallb (fun n => match find_field T n with
                    | Some f => negb (is_view f) &&
                                match fkind f with KBit _ _ _ _ => true | KBool => true | _ => false end
                    | None => false end)
          ["stowPosOk"; "Pre_Limit_Dn"; "Fin_Limit_Dn"; "Pre_Limit_Up"; "Fin_Limit_Up"; "Rate_Limit"] = true /\
  forallb (fun n => match find_field T n with
                    | Some f => negb (is_view f) && match fkind f with KInt _ => true | _ => false end
                    | None => false end) ["p_Ist"; "v_Ist"] = true.
Proof. split; vm_compute; reflexivity. Qed.

Lemma int_field n : In n ["p_Ist"; "v_Ist"] ->
  exists f, find_field T n = Some f /\ is_view f = false /\ exists c, fkind f = KInt c.
Proof.
  intros Hn. destruct lookups as [_ H]. rewrite forallb_forall in H. specialize (H n Hn).
  destruct (find_field T n) as [f|]; [|discriminate]. exists f.
  apply andb_true_iff in H as [Hv Hk]. apply negb_true_iff in Hv.
  split; [reflexivity|]. split; [exact Hv|]. destruct (fkind f); try discriminate. eauto.
Qed.

Lemma flag_field n : In n ["stowPosOk"; "Pre_Limit_Dn"; "Fin_Limit_Dn"; "Pre_Limit_Up"; "Fin_Limit_Up"; "Rate_Limit"] ->
  exists f, find_field T n = Some f /\ is_view f = false /\ forall e x, stored e f (VBool x) = Some (VBool x).
Proof.
  intros Hn. destruct lookups as [H _]. rewrite forallb_forall in H. specialize (H n Hn).
  destruct (find_field T n) as [f|]; [|discriminate]. exists f.
  apply andb_true_iff in H as [Hv Hk]. apply negb_true_iff in Hv.
  split; [reflexivity|]. split; [exact Hv|]. intros e x. unfold stored.
  destruct (fkind f); try discriminate; reflexivity.
Qed.

Lemma get_int_getn n b z : get_int T n b = Some z <-> getn T n b = Some (VInt z).
Proof.
  unfold get_int. destruct (getn T n b) as [[]|]; split; intros H; try discriminate; congruence.
Qed.

(* update_status is one sequence of accepted assignments computed from p_Ist and v_Ist of the block *)
Lemma update_status_master_seq e b b' : length b = SZ -> bytes b ->
  update_status_master T e b = Some b' ->
  exists p v, get_int T "p_Ist" b = Some p /\ get_int T "v_Ist" b = Some v /\
    seq_sets T e (stow_ops e p ++ dn_ops e p ++ up_ops e p ++ rate_ops e v)%list b = Some b'.
Proof.
  intros Hl Hb H. unfold update_status_master in H.
  apply bind_some in H as (p0 & Hp0 & H). apply bind_some in H as (b1 & H1 & H).
  apply bind_some in H as (p & Hp & H). apply bind_some in H as (b2 & H2 & H).
  apply bind_some in H as (p' & Hp' & H). apply bind_some in H as (b3 & H3 & H).
  apply bind_some in H as (v & Hv & H4).
  destruct (int_field "p_Ist" ltac:(cbn; auto)) as (fp & Fp & Vp & _).
  destruct (int_field "v_Ist" ltac:(cbn; auto)) as (fv & Fv & Vv & _).
  (* step 1: the stow flag *)
  assert (S1 : seq_sets T e (stow_ops e p0) b = Some b1).
  { unfold stow_ops. destruct (stow_pos e); [exact H1|].
    rewrite (seq_sets_cons). cbn [fst snd]. rewrite H1. reflexivity. }
  assert (N1 : last_assign (stow_ops e p0) "p_Ist" = None /\ last_assign (stow_ops e p0) "v_Ist" = None).
  { unfold stow_ops. destruct (stow_pos e); split; reflexivity. }
  destruct (seq_sets_get SZ T axis_ok e _ _ _ "p_Ist" fp Hl Hb S1 Fp Vp) as [[Hl1 Hb1] G1].
  destruct (seq_sets_get SZ T axis_ok e _ _ _ "v_Ist" fv Hl Hb S1 Fv Vv) as [_ G1v].
  rewrite (proj1 N1) in G1. rewrite (proj2 N1) in G1v.
  assert (p = p0).
  { apply get_int_getn in Hp, Hp0. rewrite G1, Hp0 in Hp. congruence. }
  subst p0.
  (* step 2: lower limits *)
  assert (S2 : seq_sets T e (dn_ops e p) b1 = Some b2) by exact H2.
  assert (N2 : last_assign (dn_ops e p) "p_Ist" = None /\ last_assign (dn_ops e p) "v_Ist" = None).
  { unfold dn_ops. destruct (p =? pos_lo e)%Z, (p <? pos_lo e)%Z; split; reflexivity. }
  destruct (seq_sets_get SZ T axis_ok e _ _ _ "p_Ist" fp Hl1 Hb1 S2 Fp Vp) as [[Hl2 Hb2] G2].
  destruct (seq_sets_get SZ T axis_ok e _ _ _ "v_Ist" fv Hl1 Hb1 S2 Fv Vv) as [_ G2v].
  rewrite (proj1 N2) in G2. rewrite (proj2 N2) in G2v.
  assert (p' = p).
  { apply get_int_getn in Hp, Hp'. rewrite G2, Hp in Hp'. congruence. }
  subst p'.
  (* step 3: upper limits *)
  assert (S3 : seq_sets T e (up_ops e p) b2 = Some b3) by exact H3.
  assert (N3 : last_assign (up_ops e p) "v_Ist" = None).
  { unfold up_ops. destruct (p =? pos_hi e)%Z, (pos_hi e <? p)%Z; reflexivity. }
  destruct (seq_sets_get SZ T axis_ok e _ _ _ "v_Ist" fv Hl2 Hb2 S3 Fv Vv) as [_ G3v].
  rewrite N3 in G3v.
  exists p, v. split; [exact Hp0|]. split.
  - apply get_int_getn. apply get_int_getn in Hv. rewrite G3v, G2v, G1v in Hv. exact Hv.
  - rewrite seq_sets_app, S1. cbn [bind]. rewrite seq_sets_app, S2. cbn [bind]. rewrite seq_sets_app, S3. cbn [bind].
    unfold rate_ops. rewrite seq_sets_cons. cbn [fst snd]. rewrite H4. reflexivity.
Qed.

Theorem limit_bits_agree e b b' : length b = SZ -> bytes b ->
  update_status_master T e b = Some b' ->
  exists p v,
    get_int T "p_Ist" b' = Some p /\ get_int T "v_Ist" b' = Some v /\
    get_int T "p_Ist" b = Some p /\ get_int T "v_Ist" b = Some v /\
    getn T "Pre_Limit_Dn" b' = Some (VBool (p <=? pos_lo e)%Z) /\
    getn T "Fin_Limit_Dn" b' = Some (VBool (p <? pos_lo e)%Z) /\
    getn T "Pre_Limit_Up" b' = Some (VBool (pos_hi e <=? p)%Z) /\
    getn T "Fin_Limit_Up" b' = Some (VBool (pos_hi e <? p)%Z) /\
    getn T "Rate_Limit" b' = Some (VBool (v_max e <? Z.abs v)%Z).
Proof.
  intros Hl Hb H.
  destruct (update_status_master_seq e b b' Hl Hb H) as (p & v & Hp & Hv & S).
  exists p, v.
  set (ops := (stow_ops e p ++ dn_ops e p ++ up_ops e p ++ rate_ops e v)%list) in *.
  destruct (int_field "p_Ist" ltac:(cbn; auto)) as (fp & Fp & Vp & _).
  destruct (int_field "v_Ist" ltac:(cbn; auto)) as (fv & Fv & Vv & _).
  (* what the sequence assigns, by cases on the position of p and on the stow list *)
  assert (L : last_assign ops "p_Ist" = None /\ last_assign ops "v_Ist" = None /\
              last_assign ops "Pre_Limit_Dn" = Some (VBool (p <=? pos_lo e)%Z) /\
              last_assign ops "Fin_Limit_Dn" = Some (VBool (p <? pos_lo e)%Z) /\
              last_assign ops "Pre_Limit_Up" = Some (VBool (pos_hi e <=? p)%Z) /\
              last_assign ops "Fin_Limit_Up" = Some (VBool (pos_hi e <? p)%Z) /\
              last_assign ops "Rate_Limit" = Some (VBool (v_max e <? Z.abs v)%Z)).
  { unfold ops, stow_ops, dn_ops, up_ops, rate_ops.
    destruct (stow_pos e);
      destruct (Z.eqb_spec p (pos_lo e)), (Z.ltb_spec p (pos_lo e)), (Z.leb_spec p (pos_lo e)),
               (Z.eqb_spec p (pos_hi e)), (Z.ltb_spec (pos_hi e) p), (Z.leb_spec (pos_hi e) p);
      try lia; repeat split; reflexivity. }
  destruct L as (Lp & Lv & L1 & L2 & L3 & L4 & L5).
  destruct (seq_sets_get SZ T axis_ok e ops b b' "p_Ist" fp Hl Hb S Fp Vp) as [_ Gp]. rewrite Lp in Gp.
  destruct (seq_sets_get SZ T axis_ok e ops b b' "v_Ist" fv Hl Hb S Fv Vv) as [_ Gv]. rewrite Lv in Gv.
  repeat split.
  - apply get_int_getn. rewrite Gp. apply get_int_getn. exact Hp.
  - apply get_int_getn. rewrite Gv. apply get_int_getn. exact Hv.
  - exact Hp.
  - exact Hv.
  - destruct (flag_field "Pre_Limit_Dn" ltac:(cbn; auto 10)) as (f & F & V & St).
    destruct (seq_sets_get SZ T axis_ok e ops b b' _ f Hl Hb S F V) as [_ G]. rewrite L1, St in G. exact G.
  - destruct (flag_field "Fin_Limit_Dn" ltac:(cbn; auto 10)) as (f & F & V & St).
    destruct (seq_sets_get SZ T axis_ok e ops b b' _ f Hl Hb S F V) as [_ G]. rewrite L2, St in G. exact G.
  - destruct (flag_field "Pre_Limit_Up" ltac:(cbn; auto 10)) as (f & F & V & St).
    destruct (seq_sets_get SZ T axis_ok e ops b b' _ f Hl Hb S F V) as [_ G]. rewrite L3, St in G. exact G.
  - destruct (flag_field "Fin_Limit_Up" ltac:(cbn; auto 10)) as (f & F & V & St).
    destruct (seq_sets_get SZ T axis_ok e ops b b' _ f Hl Hb S F V) as [_ G]. rewrite L4, St in G. exact G.
  - destruct (flag_field "Rate_Limit" ltac:(cbn; auto 10)) as (f & F & V & St).
    destruct (seq_sets_get SZ T axis_ok e ops b b' _ f Hl Hb S F V) as [_ G]. rewrite L5, St in G. exact G.
Qed.
