(* Lemmas on the dict-like association lists of Model/RcvModel.v (keys Z). *)
From DS Require Import Base.Prelude Model.RcvModel.

Definition zkeys {V} (l : list (Z * V)) : list Z := map fst l.

Lemma nodup_snoc (l : list Z) (k : Z) : NoDup l -> ~ In k l -> NoDup (l ++ [k]).
Proof.
  induction l as [|x r IH]; cbn; intros Hnd Hni.
  - constructor; [auto|constructor].
  - inversion Hnd as [|? ? Hx Hr]; subst. constructor.
    + rewrite in_app_iff. cbn. intros [H|[H|[]]]; [auto|]. subst. tauto.
    + apply IH; tauto.
Qed.

Section A.
  Context {V : Type}.
  Implicit Types (l : list (Z * V)) (k : Z) (v : V).

  Lemma aget_in l k : In k (zkeys l) -> exists v, aget Z.eqb l k = Some v.
  Proof.
    induction l as [|[k' v'] r IH]; cbn; intros H; [contradiction|].
    destruct (Z.eqb_spec k k') as [->|Hne]; [eauto|].
    destruct H as [H|H]; [congruence|auto].
  Qed.

  Lemma aget_none l k : ~ In k (zkeys l) -> aget Z.eqb l k = None.
  Proof.
    induction l as [|[k' v'] r IH]; cbn; intros H; [reflexivity|].
    destruct (Z.eqb_spec k k') as [->|Hne]; [tauto|]. apply IH. tauto.
  Qed.

  Lemma aget_some_in l k v : aget Z.eqb l k = Some v -> In k (zkeys l).
  Proof.
    induction l as [|[k' v'] r IH]; cbn; intros H; [discriminate|].
    destruct (Z.eqb_spec k k') as [->|Hne]; auto.
  Qed.

  Lemma aset_same l k v : aget Z.eqb l k = Some v -> aset Z.eqb l k v = l.
  Proof.
    induction l as [|[k' v'] r IH]; cbn; intros H; [discriminate|].
    destruct (Z.eqb_spec k k') as [->|Hne]; [congruence|]. rewrite IH; auto.
  Qed.

  Lemma aget_aset_eq l k v : aget Z.eqb (aset Z.eqb l k v) k = Some v.
  Proof.
    induction l as [|[k' v'] r IH]; cbn.
    - rewrite Z.eqb_refl. reflexivity.
    - destruct (Z.eqb_spec k k') as [->|Hne]; cbn.
      + rewrite Z.eqb_refl. reflexivity.
      + destruct (Z.eqb_spec k k'); [contradiction|]. exact IH.
  Qed.

  Lemma aget_aset_other l k k' v : k' <> k -> aget Z.eqb (aset Z.eqb l k v) k' = aget Z.eqb l k'.
  Proof.
    intros Hne. induction l as [|[k2 v2] r IH]; cbn.
    - destruct (Z.eqb_spec k' k); [contradiction|reflexivity].
    - destruct (Z.eqb_spec k k2) as [->|Hk]; cbn.
      + destruct (Z.eqb_spec k' k2); [contradiction|reflexivity].
      + destruct (Z.eqb_spec k' k2); [reflexivity|exact IH].
  Qed.

  Lemma aget_adel_other l k k' : k' <> k -> aget Z.eqb (adel Z.eqb l k) k' = aget Z.eqb l k'.
  Proof.
    intros Hne. induction l as [|[k2 v2] r IH]; cbn; [reflexivity|].
    destruct (Z.eqb_spec k k2) as [->|Hk]; cbn.
    - destruct (Z.eqb_spec k' k2); [contradiction|reflexivity].
    - destruct (Z.eqb_spec k' k2); [reflexivity|exact IH].
  Qed.

  Lemma keys_aset_present l k v : In k (zkeys l) -> zkeys (aset Z.eqb l k v) = zkeys l.
  Proof.
    induction l as [|[k' v'] r IH]; cbn; intros H; [contradiction|].
    destruct (Z.eqb_spec k k') as [->|Hne]; cbn; [reflexivity|].
    f_equal. apply IH. destruct H; [congruence|assumption].
  Qed.

  Lemma keys_aset_absent l k v : ~ In k (zkeys l) -> zkeys (aset Z.eqb l k v) = zkeys l ++ [k].
  Proof.
    induction l as [|[k' v'] r IH]; cbn; intros H; [reflexivity|].
    destruct (Z.eqb_spec k k') as [->|Hne]; cbn; [tauto|]. f_equal. apply IH. tauto.
  Qed.

  Lemma keys_adel l k : NoDup (zkeys l) -> zkeys (adel Z.eqb l k) = remove Z.eq_dec k (zkeys l).
  Proof.
    induction l as [|[k' v'] r IH]; cbn; intros H; [reflexivity|].
    inversion H as [|? ? Hni Hnd]; subst.
    destruct (Z.eqb_spec k k') as [->|Hne]; cbn.
    - destruct (Z.eq_dec k' k'); [|contradiction]. symmetry. apply notin_remove. exact Hni.
    - destruct (Z.eq_dec k k'); [contradiction|]. cbn. f_equal. apply IH. exact Hnd.
  Qed.

  Lemma in_keys_adel l k x : x <> k -> In x (zkeys l) -> In x (zkeys (adel Z.eqb l k)).
  Proof.
    intros Hne. induction l as [|[k' v'] r IH]; cbn; [auto|].
    destruct (Z.eqb_spec k k') as [->|Hk]; cbn; intros [H|H]; auto; congruence.
  Qed.

  Lemma in_keys_adel_inv l k x : In x (zkeys (adel Z.eqb l k)) -> In x (zkeys l).
  Proof.
    induction l as [|[k' v'] r IH]; cbn; [auto|].
    destruct (Z.eqb_spec k k') as [->|Hk]; cbn; intros H; [auto|]. destruct H; auto.
  Qed.

  Lemma notin_keys_adel l k : NoDup (zkeys l) -> ~ In k (zkeys (adel Z.eqb l k)).
  Proof.
    intros H. rewrite keys_adel by assumption. apply remove_In.
  Qed.

  Lemma nodup_adel l k : NoDup (zkeys l) -> NoDup (zkeys (adel Z.eqb l k)).
  Proof.
    induction l as [|[k' v'] r IH]; cbn; intros H; [constructor|].
    inversion H as [|? ? Hni Hnd]; subst.
    destruct (Z.eqb_spec k k') as [->|Hne]; cbn; [assumption|].
    constructor; [|auto]. intros Hin. apply Hni. eapply in_keys_adel_inv; eauto.
  Qed.

  Lemma in_keys_aset l k v x : In x (zkeys (aset Z.eqb l k v)) <-> In x (zkeys l) \/ x = k.
  Proof.
    induction l as [|[k' v'] r IH]; cbn.
    - intuition.
    - destruct (Z.eqb_spec k k') as [->|Hne]; cbn; [intuition|]. rewrite IH. intuition.
  Qed.

  Lemma nodup_aset l k v : NoDup (zkeys l) -> NoDup (zkeys (aset Z.eqb l k v)).
  Proof.
    intros H. destruct (in_dec Z.eq_dec k (zkeys l)) as [Hin|Hni].
    - rewrite keys_aset_present; assumption.
    - rewrite keys_aset_absent by assumption. apply nodup_snoc; assumption.
  Qed.

  Lemma aget_some_In l k v : aget Z.eqb l k = Some v -> In (k, v) l.
  Proof.
    induction l as [|[k' v'] r IH]; cbn; intros H; [discriminate|].
    destruct (Z.eqb_spec k k') as [->|Hne]; [left; congruence|right; auto].
  Qed.

  Lemma forall_aset (P : Z * V -> Prop) l k v : Forall P l -> P (k, v) -> Forall P (aset Z.eqb l k v).
  Proof.
    intros Hl Hp. induction l as [|[k' v'] r IH]; cbn.
    - constructor; [assumption|constructor].
    - inversion Hl; subst. destruct (Z.eqb_spec k k') as [->|Hne]; constructor; auto.
  Qed.

  Lemma forall_adel (P : Z * V -> Prop) l k : Forall P l -> Forall P (adel Z.eqb l k).
  Proof.
    intros Hl. induction l as [|[k' v'] r IH]; cbn; [constructor|].
    inversion Hl; subst. destruct (Z.eqb_spec k k'); [assumption|constructor; auto].
  Qed.

  Lemma adel_aset_same l k v : adel Z.eqb (aset Z.eqb l k v) k = adel Z.eqb l k.
  Proof.
    induction l as [|[k' v'] r IH]; cbn.
    - rewrite Z.eqb_refl. reflexivity.
    - destruct (Z.eqb_spec k k') as [->|Hne]; cbn.
      + rewrite Z.eqb_refl. reflexivity.
      + destruct (Z.eqb_spec k k'); [contradiction|]. rewrite IH. reflexivity.
  Qed.

  Lemma adel_absent l k : ~ In k (zkeys l) -> adel Z.eqb l k = l.
  Proof.
    induction l as [|[k' v'] r IH]; cbn; intros H; [reflexivity|].
    destruct (Z.eqb_spec k k') as [->|Hne]; [tauto|]. rewrite IH; tauto.
  Qed.
End A.

(* two maps with the same keys and pointwise related values *)
Section R.
  Context {V : Type} (R : V -> V -> Prop).
  Definition map_rel (l1 l2 : list (Z * V)) : Prop :=
    Forall2 (fun x y => fst x = fst y /\ R (snd x) (snd y)) l1 l2.

  Lemma map_rel_refl l : (forall v, R v v) -> map_rel l l.
  Proof. intros Hr. induction l; constructor; auto. Qed.

  Lemma map_rel_keys l1 l2 : map_rel l1 l2 -> zkeys l1 = zkeys l2.
  Proof. induction 1 as [|x y ? ? [H _] ? IH]; cbn; [reflexivity|]. unfold zkeys in IH. rewrite H, IH. reflexivity. Qed.

  Lemma map_rel_aset l1 l2 k v1 v2 : map_rel l1 l2 -> R v1 v2 ->
    map_rel (aset Z.eqb l1 k v1) (aset Z.eqb l2 k v2).
  Proof.
    intros H Hv. induction H as [|[k1 w1] [k2 w2] ? ? [Hk Hw]]; cbn in *.
    - constructor; [split; auto|constructor].
    - subst k2. destruct (Z.eqb_spec k k1); constructor; cbn; auto.
  Qed.

  Lemma map_rel_adel l1 l2 k : map_rel l1 l2 -> map_rel (adel Z.eqb l1 k) (adel Z.eqb l2 k).
  Proof.
    intros H. induction H as [|[k1 w1] [k2 w2] ? ? [Hk Hw]]; cbn in *; [constructor|].
    subst k2. destruct (Z.eqb_spec k k1); [assumption|constructor; cbn; auto].
  Qed.

  Lemma map_rel_aget l1 l2 k : map_rel l1 l2 ->
    match aget Z.eqb l1 k, aget Z.eqb l2 k with
    | Some v1, Some v2 => R v1 v2
    | None, None => True
    | _, _ => False
    end.
  Proof.
    intros H. induction H as [|[k1 w1] [k2 w2] ? ? [Hk Hw]]; cbn in *; [exact I|].
    subst k2. destruct (Z.eqb_spec k k1); assumption.
  Qed.
End R.
