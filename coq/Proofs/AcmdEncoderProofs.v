(* Lemmas about Model/AcmdEncoder.v (agent Acmd; C10 part acu): a frame built by the encoders
   from in-domain arguments is a well-formed message for the framing model, its commands decode
   to the encoder's arguments. *)
From DS Require Import Base.Prelude Base.Bits Gen.AcmdTables Model.AcmdFrame.
From DS Require Import Model.AcmdEncoder Proofs.AcmdFrameProofs.

(* ------------------------------------------------------------------ slices of concatenations *)

Lemma slice_app_r a b (l q : list Z) : (length l <= a)%nat ->
  slice a b (l ++ q) = slice (a - length l) (b - length l) q.
Proof.
  intros H. unfold slice. rewrite skipn_app.
  rewrite skipn_all2 by lia. cbn [app]. f_equal. lia.
Qed.

Lemma slice_prefix (l q : list Z) n : n = length l -> slice 0 n (l ++ q) = l.
Proof. intros ->. unfold slice. cbn [skipn]. rewrite Nat.sub_0_r. apply firstn_app_exact. Qed.

Lemma slice_all (l : list Z) n : n = length l -> slice 0 n l = l.
Proof. intros ->. unfold slice. cbn [skipn]. rewrite Nat.sub_0_r. apply firstn_all. Qed.

Lemma enc_uint_some n v b : enc_uint n v = Some b ->
  b = le_enc n v /\ length b = n /\ 0 <= v < 256 ^ Z.of_nat n /\ le_dec b = v.
Proof.
  unfold enc_uint. destruct ((0 <=? v) && (v <? 256 ^ Z.of_nat n)) eqn:E; [|discriminate].
  intros [= <-]. assert (0 <= v < 256 ^ Z.of_nat n) by lia.
  repeat split; try lia; [apply le_enc_length|apply le_dec_enc_small; assumption].
Qed.

Lemma enc_uint_ok n v : 0 <= v < 256 ^ Z.of_nat n -> enc_uint n v = Some (le_enc n v).
Proof.
  intros H. unfold enc_uint.
  destruct ((0 <=? v) && (v <? 256 ^ Z.of_nat n)) eqn:E; [reflexivity|lia].
Qed.

Definition bits64 (z : Z) : Prop := 0 <= z < 2 ^ 64.

Lemma norm_bits z : bits64 z -> bits64 (norm_param z).
Proof. unfold norm_param, bits64. destruct ((z =? 0) || (z =? 2 ^ 63)); lia. Qed.

Lemma enc_real_dec z : bits64 z -> le_dec (enc_real z) = z /\ length (enc_real z) = 8%nat.
Proof.
  intros H. unfold enc_real. split; [|apply le_enc_length].
  apply le_dec_enc_small. unfold bits64 in H. change (256 ^ Z.of_nat 8) with (2 ^ 64). exact H.
Qed.

(* ------------------------------------------------------------------ one command *)

Definition esub (c : ecmd) : Z :=
  match c with EMode s _ _ _ | EParam s _ _ _ | ETrack s _ _ _ _ _ _ _ _ => s end.
Definition ecid (c : ecmd) : Z :=
  match c with EMode _ _ _ _ => 1 | EParam _ _ _ _ => 2 | ETrack _ _ _ _ _ _ _ _ _ => 4 end.

Definition u16 (v : Z) : Prop := 0 <= v < 65536.
Definition entry_ok (e : Z * Z * Z) : Prop :=
  let '(t, az, el) := e in - 2 ^ 31 <= t < 2 ^ 31 /\ bits64 az /\ bits64 el.

(* the documented argument domains; the subsystem must own the handler for the command kind *)
Definition in_domain (c : ecmd) : Prop :=
  match c with
  | EMode s mode p1 p2 => (s = 1 \/ s = 2) /\ u16 mode /\ bits64 p1 /\ bits64 p2
  | EParam s pid p1 p2 => (s = 1 \/ s = 2 \/ s = 5) /\ u16 pid /\ bits64 p1 /\ bits64 p2
  | ETrack s pid interp track load t0 raz rel entries =>
      s = 5 /\ u16 pid /\ u16 interp /\ u16 track /\ u16 load /\ bits64 t0 /\ bits64 raz /\ bits64 rel /\
      (1 <= length entries <= 50)%nat /\ Forall entry_ok entries
  end.

(* what the simulator decodes from the command string it hands to the handler *)
Definition dec26 (b : list Z) : Z * Z * Z * Z * Z * Z :=
  (le_dec (slice 0 2 b), le_dec (slice 2 4 b), le_dec (slice 4 8 b), le_dec (slice 8 10 b),
   le_dec (slice 10 18 b), le_dec (slice 18 26 b)).

Lemma enc_entries_length es seq : enc_entries es = Some seq -> length seq = (20 * length es)%nat.
Proof.
  revert seq. induction es as [|[[t az] el] es IH]; intros seq H; cbn in H.
  - injection H as <-. reflexivity.
  - unfold obind in H. destruct (enc_int4 t) as [bt|] eqn:Et; [|discriminate].
    destruct (enc_entries es) as [bs|] eqn:Es; [|discriminate]. injection H as <-.
    unfold enc_int4 in Et. destruct ((- 2 ^ 31 <=? t) && (t <? 2 ^ 31)); [|discriminate].
    injection Et as <-. unfold enc_real. rewrite !app_length, (IH bs eq_refl).
    cbn [length le_enc]. lia.
Qed.

Lemma enc_entries_ok es : Forall entry_ok es -> exists seq, enc_entries es = Some seq.
Proof.
  induction 1 as [|[[t az] el] es He _ IH]; [exists []; reflexivity|].
  destruct IH as [seq Hs]. destruct He as (Ht & _ & _). cbn [enc_entries enc_entry]. unfold obind, enc_int4.
  destruct ((- 2 ^ 31 <=? t) && (t <? 2 ^ 31)) eqn:E; [|lia]. rewrite Hs. eauto.
Qed.

Ltac enc_lens := repeat rewrite ?app_length, ?le_enc_length; unfold enc_real; rewrite ?le_enc_length.

(* a mode / parameter command: 26 bytes whose fields decode to the arguments *)
Lemma enc_cmd26 next c : (exists s k p1 p2, c = EMode s k p1 p2 \/ c = EParam s k p1 p2) ->
  in_domain c -> 0 <= next < 2 ^ 32 ->
  exists b, enc_cmd next c = Some b /\ length b = 26%nat /\
    dec26 b = match c with
              | EMode s k p1 p2 => (1, s, next, k, norm_param p1, norm_param p2)
              | EParam s k p1 p2 => (2, s, next, k, p1, p2)
              | _ => (0, 0, 0, 0, 0, 0)
              end.
Proof.
  intros (s & k & p1 & p2 & Hc) Hd Hn.
  assert (H16 : forall v, u16 v -> 0 <= v < 256 ^ Z.of_nat 2) by (unfold u16; intros; cbn; lia).
  assert (H32 : 0 <= next < 256 ^ Z.of_nat 4) by (change (256 ^ Z.of_nat 4) with (2 ^ 32); exact Hn).
  destruct Hc as [-> | ->]; cbn [in_domain] in Hd; destruct Hd as (Hs & Hk & Hp1 & Hp2);
    cbn [enc_cmd]; unfold obind;
    rewrite !enc_uint_ok by (try (apply H16; unfold u16; lia); try exact H32; try (apply H16, Hk));
    eexists; (split; [reflexivity|]); (split; [enc_lens; reflexivity|]); unfold dec26;
    repeat match goal with
    | |- context [slice ?a ?b (?l ++ ?q)] =>
        first [ rewrite (slice_prefix l q b) by (enc_lens; reflexivity)
              | rewrite (slice_app_r a b l q) by (enc_lens; lia); enc_lens; cbn [Nat.sub] ]
    end.
  all: try pose proof (norm_bits _ Hp1); try pose proof (norm_bits _ Hp2).
  all: repeat match goal with
    | |- context [le_dec (le_enc ?n ?v)] => rewrite (le_dec_enc_small n v) by (first [apply H16; unfold u16; lia | exact H32 | apply H16, Hk | (unfold bits64 in *; change (256 ^ Z.of_nat 8) with (2 ^ 64); assumption)])
    end.
  all: try reflexivity.
  all: rewrite slice_all by (rewrite le_enc_length; reflexivity).
  all: rewrite le_dec_enc_small by (unfold bits64 in *; change (256 ^ Z.of_nat 8) with (2 ^ 64); assumption).
  all: reflexivity.
Qed.

(* ------------------------------------------------------------------ Command.get *)

Definition frame_of (counter n : Z) (bodies : list (list Z)) : list Z :=
  start_flag ++ le_enc 4 (20 + Z.of_nat (length (concat bodies))) ++ le_enc 4 counter ++ le_enc 4 n
             ++ concat bodies ++ end_flag.

Lemma lastn_app_r {A} k (a r : list A) : (k <= length r)%nat -> lastn k (a ++ r) = lastn k r.
Proof.
  intros H. unfold lastn. rewrite app_length, skipn_app.
  rewrite skipn_all2 by lia. cbn [app]. f_equal. lia.
Qed.

Lemma int_le_enc4 n : 0 <= n < 2 ^ 31 -> int_le (le_enc 4 n) = n.
Proof.
  intros H. unfold int_le. cbn [le_enc]. cbn [length]. change (8 * Z.of_nat 4) with 32.
  change (n mod 256 :: n / 256 mod 256 :: n / 256 / 256 mod 256 :: [n / 256 / 256 / 256 mod 256])
    with (le_enc 4 n).
  rewrite le_dec_enc_small by (change (256 ^ Z.of_nat 4) with (2 ^ 32); lia).
  unfold to_signed. change (2 ^ (32 - 1)) with (2 ^ 31). destruct (Z.ltb_spec n (2 ^ 31)); lia.
Qed.

Lemma frame_wf prev counter bodies :
  Forall wf_cmd bodies -> fresh_subs [] bodies -> resolve bodies <> None ->
  0 <= counter < 2 ^ 32 -> Some counter <> prev -> Z.of_nat (length bodies) < 2 ^ 31 ->
  20 + Z.of_nat (length (concat bodies)) < 2 ^ 32 ->
  let m := frame_of counter (Z.of_nat (length bodies)) bodies in
  wf_msg prev m bodies /\ mcnt m = counter.
Proof.
  intros Hw Hf Hr Hc Hp Hn Hl. cbv zeta. unfold frame_of.
  set (B := concat bodies) in *.
  set (L := le_enc 4 (20 + Z.of_nat (length B))). set (C := le_enc 4 counter).
  set (N := le_enc 4 (Z.of_nat (length bodies))).
  assert (HS : length start_flag = 4%nat) by reflexivity.
  assert (HE : length end_flag = 4%nat) by reflexivity.
  assert (HL : length L = 4%nat) by apply le_enc_length.
  assert (HC : length C = 4%nat) by apply le_enc_length.
  assert (HN : length N = 4%nat) by apply le_enc_length.
  assert (Hlen : length (start_flag ++ L ++ C ++ N ++ B ++ end_flag) = (20 + length B)%nat).
  { rewrite !app_length, HS, HL, HC, HN, HE. lia. }
  assert (Hm : mcnt (start_flag ++ L ++ C ++ N ++ B ++ end_flag) = counter).
  { unfold mcnt. rewrite slice_app_r by lia. rewrite HS. cbn [Nat.sub].
    rewrite slice_app_r by lia. rewrite HL. cbn [Nat.sub].
    rewrite slice_prefix by (symmetry; exact HC). unfold C.
    apply le_dec_enc_small. change (256 ^ Z.of_nat 4) with (2 ^ 32). exact Hc. }
  split; [|exact Hm]. split; try assumption.
  - rewrite <- HS. apply firstn_app_exact.
  - rewrite Hlen. lia.
  - unfold decl. rewrite slice_app_r by lia. rewrite HS. cbn [Nat.sub].
    rewrite slice_prefix by (symmetry; exact HL). rewrite Hlen. unfold L.
    rewrite le_dec_enc_small by (change (256 ^ Z.of_nat 4) with (2 ^ 32); lia). lia.
  - rewrite !lastn_app_r by (rewrite ?app_length, ?HL, ?HC, ?HN, ?HE; lia).
    unfold lastn. rewrite HE. reflexivity.
  - rewrite slice_app_r by lia. rewrite HS. cbn [Nat.sub].
    rewrite slice_app_r by lia. rewrite HL. cbn [Nat.sub].
    rewrite slice_app_r by lia. rewrite HC. cbn [Nat.sub].
    rewrite slice_prefix by (symmetry; exact HN). unfold N. apply int_le_enc4. lia.
  - unfold commands_string. rewrite Hlen.
    rewrite slice_app_r by lia. rewrite HS.
    rewrite slice_app_r by lia. rewrite HL.
    rewrite slice_app_r by lia. rewrite HC.
    rewrite slice_app_r by lia. rewrite HN.
    replace (16 - 4 - 4 - 4 - 4)%nat with 0%nat by lia.
    replace (20 + length B - 4 - 4 - 4 - 4 - 4)%nat with (length B) by lia.
    apply slice_prefix. reflexivity.
  - rewrite Hm. exact Hp.
Qed.

(* ------------------------------------------------------------------ whole frames *)

(* mode and parameter commands in their domains *)
Definition dom26 (c : ecmd) : Prop :=
  in_domain c /\ match c with ETrack _ _ _ _ _ _ _ _ _ => False | _ => True end.

Definition want26 (next : Z) (c : ecmd) : Z * Z * Z * Z * Z * Z :=
  match c with
  | EMode s k p1 p2 => (1, s, next, k, norm_param p1, norm_param p2)
  | EParam s k p1 p2 => (2, s, next, k, p1, p2)
  | _ => (0, 0, 0, 0, 0, 0)
  end.

Lemma enc_cmd26' next c : dom26 c -> 0 <= next < 2 ^ 32 ->
  exists b, enc_cmd next c = Some b /\ length b = 26%nat /\ dec26 b = want26 next c.
Proof.
  intros [Hd Hk] Hn. apply enc_cmd26; try assumption.
  destruct c as [s k p1 p2|s k p1 p2|]; [| |contradiction]; exists s, k, p1, p2; auto.
Qed.

Lemma dec26_facts b c next : length b = 26%nat -> dec26 b = want26 next c -> dom26 c ->
  wf_cmd b /\ csub b = esub c /\ get_method b = Some (esub c, ecid c, b).
Proof.
  intros Hl Hd [Hdom Hk]. unfold dec26 in Hd.
  assert (Hid : uint_le (firstn 2 b) = Some (le_dec (slice 0 2 b))).
  { change (firstn 2 b) with (slice 0 2 b). apply uint_le_slice; lia. }
  assert (Hsub : uint_le (slice 2 4 b) = Some (le_dec (slice 2 4 b))) by (apply uint_le_slice; lia).
  destruct c as [s k p1 p2|s k p1 p2|]; [| |contradiction]; cbn [want26] in Hd;
    injection Hd as E1 E2 _ _ _ _; cbn [in_domain] in Hdom; destruct Hdom as (Hs & _);
    (split; [exists (le_dec (slice 0 2 b)); unfold cmd_id; split; [exact Hid|left; rewrite E1; consts; lia]|]);
    (split; [unfold csub; exact E2|]);
    unfold get_method; rewrite Hid, Hsub, E1, E2; cbn [esub ecid]; clear E1 E2 Hid Hsub;
    repeat match goal with H : _ \/ _ |- _ => destruct H as [H|H] end; subst s; reflexivity.
Qed.

Lemma Forall2_weaken {A B} (P Q : A -> B -> Prop) l1 l2 :
  (forall a b, P a b -> Q a b) -> Forall2 P l1 l2 -> Forall2 Q l1 l2.
Proof. intros H. induction 1; constructor; auto. Qed.

Lemma fresh_of_nodup subs cmds : NoDup (subs ++ map csub cmds) -> fresh_subs subs cmds.
Proof.
  revert subs. induction cmds as [|c cmds IH]; intros subs H; [exact I|].
  cbn [map fresh_subs] in *. split.
  - apply NoDup_remove_2 in H. intros Hin. apply H. apply in_or_app. left. exact Hin.
  - apply IH. rewrite <- app_assoc. exact H.
Qed.

(* the loop of Command.get over mode / parameter commands *)
Lemma enc_cmds26 cmds : forall next, Forall dom26 cmds -> 0 <= next -> next + Z.of_nat (length cmds) <= 2 ^ 32 ->
  exists bodies, enc_cmds next cmds = Some bodies /\ length bodies = length cmds /\
    Forall wf_cmd bodies /\ map csub bodies = map esub cmds /\
    resolve bodies = Some (map (fun p : ecmd * list Z => (esub (fst p), ecid (fst p), snd p)) (combine cmds bodies)) /\
    length (concat bodies) = (26 * length cmds)%nat /\
    Forall2 (fun c b => exists i, dec26 b = want26 (next + Z.of_nat i) c /\ (i < length cmds)%nat) cmds bodies.
Proof.
  induction cmds as [|c cmds IH]; intros next Hd Hn Hl.
  - exists []. cbn. repeat split; auto.
  - inversion Hd as [|? ? Hc Hd']; subst. cbn [length] in Hl.
    destruct (enc_cmd26' next c Hc) as (b & Eb & Lb & Db); [lia|].
    destruct (IH (next + 1) Hd') as (bs & Ebs & L1 & W & Sm & R & Lc & F); [lia|lia|].
    destruct (dec26_facts b c next Lb Db Hc) as (Wb & Sb & Mb).
    exists (b :: bs). cbn [enc_cmds]. unfold obind. rewrite Eb, Ebs.
    repeat split.
    + cbn [length]. lia.
    + constructor; assumption.
    + cbn [map]. rewrite Sb, Sm. reflexivity.
    + cbn [resolve combine map fst snd]. rewrite Mb, R. reflexivity.
    + cbn [concat length]. rewrite app_length, Lb, Lc. lia.
    + constructor.
      * exists 0%nat. split; [rewrite Z.add_0_r; exact Db|cbn; lia].
      * eapply Forall2_weaken; [|exact F]. intros c' b' (i & E & Hi). exists (S i). split; [|cbn [length]; lia].
        rewrite E. f_equal. lia.
Qed.

(* C10 for the ACU, frames of mode and parameter commands: the encoded frame exists, is consumed
   by an idle parser as one message (every byte True, nothing started before the last byte),
   starts exactly one command per encoder object on the intended subsystem and handler, in order,
   each command string decoding to the encoder's arguments (counter + 1 + i; doubles bit for bit,
   up to ModeCommand's documented replacement of a falsy parameter by 0.0), parser idle after. *)
Theorem encoded_frame_consumed st counter cmds :
  Forall dom26 cmds -> NoDup (map esub cmds) ->
  0 < counter -> counter + Z.of_nat (length cmds) < 2 ^ 32 ->
  fidle st -> Some counter <> f_cnt st ->
  exists m bodies,
    enc_frame counter cmds = Some m /\ length bodies = length cmds /\
    frun st m = (mkF [] 0 (Some counter) 0,
                 repeat (OTrue, None) (length m - 1) ++
                 [(OTrue, Some (map (fun p : ecmd * list Z => (esub (fst p), ecid (fst p), snd p))
                                    (combine cmds bodies)))]) /\
    Forall2 (fun c b => exists i, dec26 b = want26 (counter + 1 + Z.of_nat i) c /\ (i < length cmds)%nat)
            cmds bodies.
Proof.
  intros Hd Hnd Hc0 Hc Hidle Hprev.
  destruct (enc_cmds26 cmds (counter + 1) Hd) as (bodies & Eb & Lb & W & S & R & Lc & F); [lia|lia|].
  assert (Hn3 : (length cmds <= 3)%nat).
  { (* distinct subsystem ids drawn from {1, 2, 5} *)
    assert (Hin : forall x, In x (map esub cmds) -> In x [1; 2; 5]).
    { intros x Hx. apply in_map_iff in Hx. destruct Hx as (c & <- & Hc').
      rewrite Forall_forall in Hd. destruct (Hd c Hc') as [Hdom Hk].
      destruct c; cbn [in_domain esub] in *; try contradiction; destruct Hdom as (Hs & _); cbn; lia. }
    pose proof (NoDup_incl_length Hnd Hin) as Hle. rewrite map_length in Hle. cbn in Hle. exact Hle. }
  set (m := frame_of counter (Z.of_nat (length bodies)) bodies).
  assert (Hf : fresh_subs [] bodies) by (apply fresh_of_nodup; cbn [app]; rewrite S; exact Hnd).
  assert (H1 : resolve bodies <> None) by (rewrite R; discriminate).
  assert (H2 : 0 <= counter < 2 ^ 32) by lia.
  assert (H3 : Z.of_nat (length bodies) < 2 ^ 31) by lia.
  assert (H4 : 20 + Z.of_nat (length (concat bodies)) < 2 ^ 32) by (rewrite Lc; lia).
  destruct (frame_wf (f_cnt st) counter bodies W Hf H1 H2 Hprev H3 H4) as [Hwf Hm].
  exists m, bodies. split; [|split; [exact Lb|split; [|]]].
  - unfold enc_frame. destruct (Z.eqb_spec counter 0); [lia|]. unfold obind. rewrite Eb.
    rewrite !enc_uint_ok; [unfold m, frame_of; rewrite Lb; reflexivity| | |];
      change (256 ^ Z.of_nat 4) with (2 ^ 32); rewrite ?Lc; lia.
  - fold m in Hwf, Hm. rewrite <- Hm. apply (wf_executed st m bodies); assumption.
  - eapply Forall2_weaken; [|exact F]. intros c b (i & E & Hi). exists i. split; [exact E|exact Hi].
Qed.
