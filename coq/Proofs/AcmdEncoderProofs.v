(* Lemmas about Model/AcmdEncoder.v (agent Acmd; C10 part acu): a frame built by the encoders
   from in-domain arguments is a well-formed message for the framing model, its commands decode
   to the encoder's arguments. *)
From DS Require Import Base.Prelude Base.Bits Gen.AcmdTables Model.AcmdFrame.
From DS Require Import Model.AcmdEncoder Model.AcmdTrackWire Proofs.AcmdFrameProofs.

(* ------------------------------------------------------------------ slices of concatenations *)

Lemma slice_app_r a b (l q : list Z) : (length l <= a)%nat ->
  slice a b (l ++ q) = slice (a - length l) (b - length l) q.
Proof.
  intros H. unfold slice. rewrite skipn_app.
  rewrite skipn_all2 by lia. cbn [app]. f_equal. lia.
Qed.

Lemma slice_prefix (l q : list Z) n : n = length l -> slice 0 n (l ++ q) = l.
Proof. intros ->. unfold slice. cbn [skipn]. rewrite Nat.sub_0_r. apply firstn_app_exact. Qed.

Lemma slice_all (l : list Z) n : n = length l -> slice 0 n l = l.
Proof. intros ->. unfold slice. cbn [skipn]. rewrite Nat.sub_0_r. apply firstn_all. Qed.

Lemma enc_uint_some n v b : enc_uint n v = Some b ->
  b = le_enc n v /\ length b = n /\ 0 <= v < 256 ^ Z.of_nat n /\ le_dec b = v.
Proof.
  unfold enc_uint. destruct ((0 <=? v) && (v <? 256 ^ Z.of_nat n)) eqn:E; [|discriminate].
  intros [= <-]. assert (0 <= v < 256 ^ Z.of_nat n) by lia.
  repeat split; try lia; [apply le_enc_length|apply le_dec_enc_small; assumption].
Qed.

Lemma enc_uint_ok n v : 0 <= v < 256 ^ Z.of_nat n -> enc_uint n v = Some (le_enc n v).
Proof.
  intros H. unfold enc_uint.
  destruct ((0 <=? v) && (v <? 256 ^ Z.of_nat n)) eqn:E; [reflexivity|lia].
Qed.

Definition bits64 (z : Z) : Prop := 0 <= z < 2 ^ 64.

Lemma norm_bits z : bits64 z -> bits64 (norm_param z).
Proof. unfold norm_param, bits64. destruct ((z =? 0) || (z =? 2 ^ 63)); lia. Qed.

Lemma enc_real_dec z : bits64 z -> le_dec (enc_real z) = z /\ length (enc_real z) = 8%nat.
Proof.
  intros H. unfold enc_real. split; [|apply le_enc_length].
  apply le_dec_enc_small. unfold bits64 in H. change (256 ^ Z.of_nat 8) with (2 ^ 64). exact H.
Qed.

(* ------------------------------------------------------------------ one command *)

Definition esub (c : ecmd) : Z :=
  match c with EMode s _ _ _ | EParam s _ _ _ | ETrack s _ _ _ _ _ _ _ _ => s end.
Definition ecid (c : ecmd) : Z :=
  match c with EMode _ _ _ _ => 1 | EParam _ _ _ _ => 2 | ETrack _ _ _ _ _ _ _ _ _ => 4 end.

Definition u16 (v : Z) : Prop := 0 <= v < 65536.
Definition entry_ok (e : Z * Z * Z) : Prop :=
  let '(t, az, el) := e in - 2 ^ 31 <= t < 2 ^ 31 /\ bits64 az /\ bits64 el.

(* the documented argument domains; the subsystem must own the handler for the command kind *)
Definition in_domain (c : ecmd) : Prop :=
  match c with
  | EMode s mode p1 p2 => (s = 1 \/ s = 2) /\ u16 mode /\ bits64 p1 /\ bits64 p2
  | EParam s pid p1 p2 => (s = 1 \/ s = 2 \/ s = 5) /\ u16 pid /\ bits64 p1 /\ bits64 p2
  | ETrack s pid interp track load t0 raz rel entries =>
      s = 5 /\ u16 pid /\ u16 interp /\ u16 track /\ u16 load /\ bits64 t0 /\ bits64 raz /\ bits64 rel /\
      (1 <= length entries <= 50)%nat /\ Forall entry_ok entries
  end.

(* what the simulator decodes from the command string it hands to the handler *)
Definition dec26 (b : list Z) : Z * Z * Z * Z * Z * Z :=
  (le_dec (slice 0 2 b), le_dec (slice 2 4 b), le_dec (slice 4 8 b), le_dec (slice 8 10 b),
   le_dec (slice 10 18 b), le_dec (slice 18 26 b)).

Lemma enc_entries_length es seq : enc_entries es = Some seq -> length seq = (20 * length es)%nat.
Proof.
  revert seq. induction es as [|[[t az] el] es IH]; intros seq H; cbn in H.
  - injection H as <-. reflexivity.
  - unfold obind in H. destruct (enc_int4 t) as [bt|] eqn:Et; [|discriminate].
    destruct (enc_entries es) as [bs|] eqn:Es; [|discriminate]. injection H as <-.
    unfold enc_int4 in Et. destruct ((- 2 ^ 31 <=? t) && (t <? 2 ^ 31)); [|discriminate].
    injection Et as <-. unfold enc_real. rewrite !app_length, (IH bs eq_refl).
    cbn [length le_enc]. lia.
Qed.

Lemma enc_entries_ok es : Forall entry_ok es -> exists seq, enc_entries es = Some seq.
Proof.
  induction 1 as [|[[t az] el] es He _ IH]; [exists []; reflexivity|].
  destruct IH as [seq Hs]. destruct He as (Ht & _ & _). cbn [enc_entries enc_entry]. unfold obind, enc_int4.
  destruct ((- 2 ^ 31 <=? t) && (t <? 2 ^ 31)) eqn:E; [|lia]. rewrite Hs. eauto.
Qed.

Ltac enc_lens := repeat rewrite ?app_length, ?le_enc_length; unfold enc_real; rewrite ?le_enc_length.

(* a mode / parameter command: 26 bytes whose fields decode to the arguments *)
Lemma enc_cmd26 next c : (exists s k p1 p2, c = EMode s k p1 p2 \/ c = EParam s k p1 p2) ->
  in_domain c -> 0 <= next < 2 ^ 32 ->
  exists b, enc_cmd next c = Some b /\ length b = 26%nat /\
    dec26 b = match c with
              | EMode s k p1 p2 => (1, s, next, k, norm_param p1, norm_param p2)
              | EParam s k p1 p2 => (2, s, next, k, p1, p2)
              | _ => (0, 0, 0, 0, 0, 0)
              end.
Proof.
  intros (s & k & p1 & p2 & Hc) Hd Hn.
  assert (H16 : forall v, u16 v -> 0 <= v < 256 ^ Z.of_nat 2) by (unfold u16; intros; cbn; lia).
  assert (H32 : 0 <= next < 256 ^ Z.of_nat 4) by (change (256 ^ Z.of_nat 4) with (2 ^ 32); exact Hn).
  destruct Hc as [-> | ->]; cbn [in_domain] in Hd; destruct Hd as (Hs & Hk & Hp1 & Hp2);
    cbn [enc_cmd]; unfold obind;
    rewrite !enc_uint_ok by (try (apply H16; unfold u16; lia); try exact H32; try (apply H16, Hk));
    eexists; (split; [reflexivity|]); (split; [enc_lens; reflexivity|]); unfold dec26;
    repeat match goal with
    | |- context [slice ?a ?b (?l ++ ?q)] =>
        first [ rewrite (slice_prefix l q b) by (enc_lens; reflexivity)
              | rewrite (slice_app_r a b l q) by (enc_lens; lia); enc_lens; cbn [Nat.sub] ]
    end.
  all: try pose proof (norm_bits _ Hp1); try pose proof (norm_bits _ Hp2).
  all: repeat match goal with
    | |- context [le_dec (le_enc ?n ?v)] => rewrite (le_dec_enc_small n v) by (first [apply H16; unfold u16; lia | exact H32 | apply H16, Hk | (unfold bits64 in *; change (256 ^ Z.of_nat 8) with (2 ^ 64); assumption)])
    end.
  all: try reflexivity.
  all: rewrite slice_all by (rewrite le_enc_length; reflexivity).
  all: rewrite le_dec_enc_small by (unfold bits64 in *; change (256 ^ Z.of_nat 8) with (2 ^ 64); assumption).
  all: reflexivity.
Qed.

(* ------------------------------------------------------------------ Command.get *)

Definition frame_of (counter n : Z) (bodies : list (list Z)) : list Z :=
  start_flag ++ le_enc 4 (20 + Z.of_nat (length (concat bodies))) ++ le_enc 4 counter ++ le_enc 4 n
             ++ concat bodies ++ end_flag.

Lemma lastn_app_r {A} k (a r : list A) : (k <= length r)%nat -> lastn k (a ++ r) = lastn k r.
Proof.
  intros H. unfold lastn. rewrite app_length, skipn_app.
  rewrite skipn_all2 by lia. cbn [app]. f_equal. lia.
Qed.

Lemma int_le_enc4 n : 0 <= n < 2 ^ 31 -> int_le (le_enc 4 n) = n.
Proof.
  intros H. unfold int_le. cbn [le_enc]. cbn [length]. change (8 * Z.of_nat 4) with 32.
  change (n mod 256 :: n / 256 mod 256 :: n / 256 / 256 mod 256 :: [n / 256 / 256 / 256 mod 256])
    with (le_enc 4 n).
  rewrite le_dec_enc_small by (change (256 ^ Z.of_nat 4) with (2 ^ 32); lia).
  unfold to_signed. change (2 ^ (32 - 1)) with (2 ^ 31). destruct (Z.ltb_spec n (2 ^ 31)); lia.
Qed.

Lemma frame_wf prev counter bodies :
  Forall wf_cmd bodies -> fresh_subs [] bodies -> resolve bodies <> None ->
  0 <= counter < 2 ^ 32 -> Some counter <> prev -> Z.of_nat (length bodies) < 2 ^ 31 ->
  20 + Z.of_nat (length (concat bodies)) < 2 ^ 32 ->
  let m := frame_of counter (Z.of_nat (length bodies)) bodies in
  wf_msg prev m bodies /\ mcnt m = counter.
Proof.
  intros Hw Hf Hr Hc Hp Hn Hl. cbv zeta. unfold frame_of.
  set (B := concat bodies) in *.
  set (L := le_enc 4 (20 + Z.of_nat (length B))). set (C := le_enc 4 counter).
  set (N := le_enc 4 (Z.of_nat (length bodies))).
  assert (HS : length start_flag = 4%nat) by reflexivity.
  assert (HE : length end_flag = 4%nat) by reflexivity.
  assert (HL : length L = 4%nat) by apply le_enc_length.
  assert (HC : length C = 4%nat) by apply le_enc_length.
  assert (HN : length N = 4%nat) by apply le_enc_length.
  assert (Hlen : length (start_flag ++ L ++ C ++ N ++ B ++ end_flag) = (20 + length B)%nat).
  { rewrite !app_length, HS, HL, HC, HN, HE. lia. }
  assert (Hm : mcnt (start_flag ++ L ++ C ++ N ++ B ++ end_flag) = counter).
  { unfold mcnt. rewrite slice_app_r by lia. rewrite HS. cbn [Nat.sub].
    rewrite slice_app_r by lia. rewrite HL. cbn [Nat.sub].
    rewrite slice_prefix by (symmetry; exact HC). unfold C.
    apply le_dec_enc_small. change (256 ^ Z.of_nat 4) with (2 ^ 32). exact Hc. }
  split; [|exact Hm]. split; try assumption.
  - rewrite <- HS. apply firstn_app_exact.
  - rewrite Hlen. lia.
  - unfold decl. rewrite slice_app_r by lia. rewrite HS. cbn [Nat.sub].
    rewrite slice_prefix by (symmetry; exact HL). rewrite Hlen. unfold L.
    rewrite le_dec_enc_small by (change (256 ^ Z.of_nat 4) with (2 ^ 32); lia). lia.
  - rewrite !lastn_app_r by (rewrite ?app_length, ?HL, ?HC, ?HN, ?HE; lia).
    unfold lastn. rewrite HE. reflexivity.
  - rewrite slice_app_r by lia. rewrite HS. cbn [Nat.sub].
    rewrite slice_app_r by lia. rewrite HL. cbn [Nat.sub].
    rewrite slice_app_r by lia. rewrite HC. cbn [Nat.sub].
    rewrite slice_prefix by (symmetry; exact HN). unfold N. apply int_le_enc4. lia.
  - unfold commands_string. rewrite Hlen.
    rewrite slice_app_r by lia. rewrite HS.
    rewrite slice_app_r by lia. rewrite HL.
    rewrite slice_app_r by lia. rewrite HC.
    rewrite slice_app_r by lia. rewrite HN.
    replace (16 - 4 - 4 - 4 - 4)%nat with 0%nat by lia.
    replace (20 + length B - 4 - 4 - 4 - 4 - 4)%nat with (length B) by lia.
    apply slice_prefix. reflexivity.
  - rewrite Hm. exact Hp.
Qed.

(* ------------------------------------------------------------------ whole frames *)

(* mode and parameter commands in their domains *)
Definition dom26 (c : ecmd) : Prop :=
  in_domain c /\ match c with ETrack _ _ _ _ _ _ _ _ _ => False | _ => True end.

Definition want26 (next : Z) (c : ecmd) : Z * Z * Z * Z * Z * Z :=
  match c with
  | EMode s k p1 p2 => (1, s, next, k, norm_param p1, norm_param p2)
  | EParam s k p1 p2 => (2, s, next, k, p1, p2)
  | _ => (0, 0, 0, 0, 0, 0)
  end.

Lemma enc_cmd26' next c : dom26 c -> 0 <= next < 2 ^ 32 ->
  exists b, enc_cmd next c = Some b /\ length b = 26%nat /\ dec26 b = want26 next c.
Proof.
  intros [Hd Hk] Hn. apply enc_cmd26; try assumption.
  destruct c as [s k p1 p2|s k p1 p2|]; [| |contradiction]; exists s, k, p1, p2; auto.
Qed.

Lemma dec26_facts b c next : length b = 26%nat -> dec26 b = want26 next c -> dom26 c ->
  wf_cmd b /\ csub b = esub c /\ get_method b = Some (esub c, ecid c, b).
Proof.
  intros Hl Hd [Hdom Hk]. unfold dec26 in Hd.
  assert (Hid : uint_le (firstn 2 b) = Some (le_dec (slice 0 2 b))).
  { change (firstn 2 b) with (slice 0 2 b). apply uint_le_slice; lia. }
  assert (Hsub : uint_le (slice 2 4 b) = Some (le_dec (slice 2 4 b))) by (apply uint_le_slice; lia).
  destruct c as [s k p1 p2|s k p1 p2|]; [| |contradiction]; cbn [want26] in Hd;
    injection Hd as E1 E2 _ _ _ _; cbn [in_domain] in Hdom; destruct Hdom as (Hs & _);
    (split; [exists (le_dec (slice 0 2 b)); unfold cmd_id; split; [exact Hid|left; rewrite E1; consts; lia]|]);
    (split; [unfold csub; exact E2|]);
    unfold get_method; rewrite Hid, Hsub, E1, E2; cbn [esub ecid]; clear E1 E2 Hid Hsub;
    repeat match goal with H : _ \/ _ |- _ => destruct H as [H|H] end; subst s; reflexivity.
Qed.

Lemma Forall2_weaken {A B} (P Q : A -> B -> Prop) l1 l2 :
  (forall a b, P a b -> Q a b) -> Forall2 P l1 l2 -> Forall2 Q l1 l2.
Proof. intros H. induction 1; constructor; auto. Qed.

Lemma fresh_of_nodup subs cmds : NoDup (subs ++ map csub cmds) -> fresh_subs subs cmds.
Proof.
  revert subs. induction cmds as [|c cmds IH]; intros subs H; [exact I|].
  cbn [map fresh_subs] in *. split.
  - apply NoDup_remove_2 in H. intros Hin. apply H. apply in_or_app. left. exact Hin.
  - apply IH. rewrite <- app_assoc. exact H.
Qed.

(* the loop of Command.get over mode / parameter commands *)
Lemma enc_cmds26 cmds : forall next, Forall dom26 cmds -> 0 <= next -> next + Z.of_nat (length cmds) <= 2 ^ 32 ->
  exists bodies, enc_cmds next cmds = Some bodies /\ length bodies = length cmds /\
    Forall wf_cmd bodies /\ map csub bodies = map esub cmds /\
    resolve bodies = Some (map (fun p : ecmd * list Z => (esub (fst p), ecid (fst p), snd p)) (combine cmds bodies)) /\
    length (concat bodies) = (26 * length cmds)%nat /\
    Forall2 (fun c b => exists i, dec26 b = want26 (next + Z.of_nat i) c /\ (i < length cmds)%nat) cmds bodies.
Proof.
  induction cmds as [|c cmds IH]; intros next Hd Hn Hl.
  - exists []. cbn. repeat split; auto.
  - inversion Hd as [|? ? Hc Hd']; subst. cbn [length] in Hl.
    destruct (enc_cmd26' next c Hc) as (b & Eb & Lb & Db); [lia|].
    destruct (IH (next + 1) Hd') as (bs & Ebs & L1 & W & Sm & R & Lc & F); [lia|lia|].
    destruct (dec26_facts b c next Lb Db Hc) as (Wb & Sb & Mb).
    exists (b :: bs). cbn [enc_cmds]. unfold obind. rewrite Eb, Ebs.
    repeat split.
    + cbn [length]. lia.
    + constructor; assumption.
    + cbn [map]. rewrite Sb, Sm. reflexivity.
    + cbn [resolve combine map fst snd]. rewrite Mb, R. reflexivity.
    + cbn [concat length]. rewrite app_length, Lb, Lc. lia.
    + constructor.
      * exists 0%nat. split; [rewrite Z.add_0_r; exact Db|cbn; lia].
      * eapply Forall2_weaken; [|exact F]. intros c' b' (i & E & Hi). exists (S i). split; [|cbn [length]; lia].
        rewrite E. f_equal. lia.
Qed.

(* C10 for the ACU, frames of mode and parameter commands: the encoded frame exists, is consumed
   by an idle parser as one message (every byte True, nothing started before the last byte),
   starts exactly one command per encoder object on the intended subsystem and handler, in order,
   each command string decoding to the encoder's arguments (counter + 1 + i; doubles bit for bit,
   up to ModeCommand's documented replacement of a falsy parameter by 0.0), parser idle after. *)
Theorem encoded_frame_consumed st counter cmds :
  Forall dom26 cmds -> NoDup (map esub cmds) ->
  0 < counter -> counter + Z.of_nat (length cmds) < 2 ^ 32 ->
  fidle st -> Some counter <> f_cnt st ->
  exists m bodies,
    enc_frame counter cmds = Some m /\ length bodies = length cmds /\
    frun st m = (mkF [] 0 (Some counter) 0,
                 repeat (OTrue, None) (length m - 1) ++
                 [(OTrue, Some (map (fun p : ecmd * list Z => (esub (fst p), ecid (fst p), snd p))
                                    (combine cmds bodies)))]) /\
    Forall2 (fun c b => exists i, dec26 b = want26 (counter + 1 + Z.of_nat i) c /\ (i < length cmds)%nat)
            cmds bodies.
Proof.
  intros Hd Hnd Hc0 Hc Hidle Hprev.
  destruct (enc_cmds26 cmds (counter + 1) Hd) as (bodies & Eb & Lb & W & S & R & Lc & F); [lia|lia|].
  assert (Hn3 : (length cmds <= 3)%nat).
  { (* distinct subsystem ids drawn from {1, 2, 5} *)
    assert (Hin : forall x, In x (map esub cmds) -> In x [1; 2; 5]).
    { intros x Hx. apply in_map_iff in Hx. destruct Hx as (c & <- & Hc').
      rewrite Forall_forall in Hd. destruct (Hd c Hc') as [Hdom Hk].
      destruct c; cbn [in_domain esub] in *; try contradiction; destruct Hdom as (Hs & _); cbn; lia. }
    pose proof (NoDup_incl_length Hnd Hin) as Hle. rewrite map_length in Hle. cbn in Hle. exact Hle. }
  set (m := frame_of counter (Z.of_nat (length bodies)) bodies).
  assert (Hf : fresh_subs [] bodies) by (apply fresh_of_nodup; cbn [app]; rewrite S; exact Hnd).
  assert (H1 : resolve bodies <> None) by (rewrite R; discriminate).
  assert (H2 : 0 <= counter < 2 ^ 32) by lia.
  assert (H3 : Z.of_nat (length bodies) < 2 ^ 31) by lia.
  assert (H4 : 20 + Z.of_nat (length (concat bodies)) < 2 ^ 32) by (rewrite Lc; lia).
  destruct (frame_wf (f_cnt st) counter bodies W Hf H1 H2 Hprev H3 H4) as [Hwf Hm].
  exists m, bodies. split; [|split; [exact Lb|split; [|]]].
  - unfold enc_frame. destruct (Z.eqb_spec counter 0); [lia|]. unfold obind. rewrite Eb.
    rewrite !enc_uint_ok; [unfold m, frame_of; rewrite Lb; reflexivity| | |];
      change (256 ^ Z.of_nat 4) with (2 ^ 32); rewrite ?Lc; lia.
  - fold m in Hwf, Hm. rewrite <- Hm. apply (wf_executed st m bodies); assumption.
  - eapply Forall2_weaken; [|exact F]. intros c b (i & E & Hi). exists i. split; [exact E|exact Hi].
Qed.

(* ------------------------------------------------------------------ program-track commands *)

Lemma int_le_enc4_signed t : - 2 ^ 31 <= t < 2 ^ 31 -> int_le (le_enc 4 (t mod 2 ^ 32)) = t.
Proof.
  intros H. set (u := t mod 2 ^ 32). assert (Hu : 0 <= u < 2 ^ 32) by (unfold u; lia).
  unfold int_le. cbn [le_enc]. cbn [length]. change (8 * Z.of_nat 4) with 32.
  change (u mod 256 :: u / 256 mod 256 :: u / 256 / 256 mod 256 :: [u / 256 / 256 / 256 mod 256])
    with (le_enc 4 u).
  rewrite le_dec_enc_small by (change (256 ^ Z.of_nat 4) with (2 ^ 32); lia).
  unfold u. apply (to_of_signed 32 t); lia.
Qed.

Lemma skipn_app_len {A} (c rest : list A) n : n = length c -> skipn n (c ++ rest) = rest.
Proof. intros ->. apply skipn_app_exact. Qed.

(* the point sequence decodes to the points, whatever follows it *)
Lemma dec_enc_entries es : forall seq rest, Forall entry_ok es -> enc_entries es = Some seq ->
  dec_entries (length es) (seq ++ rest) = es.
Proof.
  induction es as [|[[t az] el] es IH]; intros seq rest Hok H; [reflexivity|].
  inversion Hok as [|? ? He Hok']; subst. destruct He as (Ht & Haz & Hel).
  cbn [enc_entries enc_entry] in H. unfold obind, enc_int4 in H.
  destruct ((- 2 ^ 31 <=? t) && (t <? 2 ^ 31)) eqn:E; [|lia].
  destruct (enc_entries es) as [bs|] eqn:Es; [|discriminate].
  assert (Hs : seq = (le_enc 4 (t mod 2 ^ 32) ++ enc_real az ++ enc_real el) ++ bs) by congruence.
  subst seq. clear H.
  cbn [length dec_entries].
  set (l4 := le_enc 4 (t mod 2 ^ 32)). set (a8 := enc_real az). set (e8 := enc_real el).
  assert (H4 : length l4 = 4%nat) by apply le_enc_length.
  assert (Ha : length a8 = 8%nat) by apply le_enc_length.
  assert (He : length e8 = 8%nat) by apply le_enc_length.
  replace (((l4 ++ a8 ++ e8) ++ bs) ++ rest) with (l4 ++ a8 ++ e8 ++ bs ++ rest)
    by (rewrite <- !app_assoc; reflexivity).
  f_equal; [f_equal; [f_equal|]|].
  - replace 4%nat with (length l4) by exact H4. rewrite firstn_app_exact. apply int_le_enc4_signed, Ht.
  - rewrite slice_app_r by lia. rewrite H4. cbn [Nat.sub].
    rewrite slice_prefix by (symmetry; exact Ha). apply (enc_real_dec az Haz).
  - rewrite slice_app_r by lia. rewrite H4. cbn [Nat.sub].
    rewrite slice_app_r by lia. rewrite Ha. cbn [Nat.sub].
    rewrite slice_prefix by (symmetry; exact He). apply (enc_real_dec el Hel).
  - replace (l4 ++ a8 ++ e8 ++ bs ++ rest) with ((l4 ++ a8 ++ e8) ++ bs ++ rest)
      by (rewrite <- !app_assoc; reflexivity).
    rewrite skipn_app_len by (rewrite !app_length, H4, Ha, He; reflexivity).
    apply IH; [assumption|reflexivity].
Qed.

(* a program-track command with 1..50 points: 42 + 20n bytes, a well-formed command for the
   pointing subsystem, whose slices give back every argument *)
Lemma enc_track_decodes next pid interp track load t0 raz rel entries :
  in_domain (ETrack 5 pid interp track load t0 raz rel entries) -> 0 <= next < 2 ^ 32 ->
  exists b, enc_cmd next (ETrack 5 pid interp track load t0 raz rel entries) = Some b /\
    length b = (42 + 20 * length entries)%nat /\
    dec_track b = mkTF next pid interp track load (Z.of_nat (length entries)) t0 raz rel entries /\
    wf_cmd b /\ csub b = 5 /\ get_method b = Some (5, 4, b).
Proof.
  intros Hd Hn. cbn [in_domain] in Hd.
  destruct Hd as (_ & Hpid & Hint & Htr & Hld & Ht0 & Hraz & Hrel & Hlen & Hent).
  assert (H16 : forall v, u16 v -> 0 <= v < 256 ^ Z.of_nat 2) by (unfold u16; intros; cbn; lia).
  assert (H32 : 0 <= next < 256 ^ Z.of_nat 4) by (change (256 ^ Z.of_nat 4) with (2 ^ 32); exact Hn).
  assert (Hnn : u16 (Z.of_nat (length entries))) by (unfold u16; lia).
  destruct (enc_entries_ok entries Hent) as [seq Hseq].
  pose proof (enc_entries_length entries seq Hseq) as Lseq.
  cbn [enc_cmd]. destruct entries as [|e0 es] eqn:Ee; [cbn in Hlen; lia|]. rewrite <- Ee in *.
  unfold obind. rewrite Hseq.
  rewrite !enc_uint_ok by (try (apply H16; unfold u16; lia); try exact H32; apply H16; assumption).
  set (b1 := le_enc 2 4). set (b2 := le_enc 2 5). set (b3 := le_enc 4 next). set (b4 := le_enc 2 pid).
  set (b5 := le_enc 2 interp). set (b6 := le_enc 2 track). set (b7 := le_enc 2 load).
  set (b8 := le_enc 2 (Z.of_nat (length entries))).
  set (r1 := enc_real t0). set (r2 := enc_real raz). set (r3 := enc_real rel).
  assert (L1 : length b1 = 2%nat) by apply le_enc_length. assert (L2 : length b2 = 2%nat) by apply le_enc_length.
  assert (L3 : length b3 = 4%nat) by apply le_enc_length. assert (L4 : length b4 = 2%nat) by apply le_enc_length.
  assert (L5 : length b5 = 2%nat) by apply le_enc_length. assert (L6 : length b6 = 2%nat) by apply le_enc_length.
  assert (L7 : length b7 = 2%nat) by apply le_enc_length. assert (L8 : length b8 = 2%nat) by apply le_enc_length.
  assert (R1 : length r1 = 8%nat) by apply le_enc_length. assert (R2 : length r2 = 8%nat) by apply le_enc_length.
  assert (R3 : length r3 = 8%nat) by apply le_enc_length.
  set (b := b1 ++ b2 ++ b3 ++ b4 ++ b5 ++ b6 ++ b7 ++ b8 ++ r1 ++ r2 ++ r3 ++ seq).
  assert (Lb : length b = (42 + 20 * length entries)%nat).
  { unfold b. rewrite !app_length, L1, L2, L3, L4, L5, L6, L7, L8, R1, R2, R3, Lseq. lia. }
  assert (S0 : slice 0 2 b = b1) by (unfold b; apply slice_prefix; symmetry; exact L1).
  assert (S2 : slice 2 4 b = b2).
  { unfold b. rewrite slice_app_r by lia. rewrite L1. apply slice_prefix. symmetry; exact L2. }
  assert (S4 : slice 4 8 b = b3).
  { unfold b. do 2 (rewrite slice_app_r by lia; rewrite ?L1, ?L2; cbn [Nat.sub]).
    apply slice_prefix. symmetry; exact L3. }
  assert (S8 : slice 8 10 b = b4).
  { unfold b. do 3 (rewrite slice_app_r by lia; rewrite ?L1, ?L2, ?L3; cbn [Nat.sub]).
    apply slice_prefix. symmetry; exact L4. }
  assert (S10 : slice 10 12 b = b5).
  { unfold b. do 4 (rewrite slice_app_r by lia; rewrite ?L1, ?L2, ?L3, ?L4; cbn [Nat.sub]).
    apply slice_prefix. symmetry; exact L5. }
  assert (S12 : slice 12 14 b = b6).
  { unfold b. do 5 (rewrite slice_app_r by lia; rewrite ?L1, ?L2, ?L3, ?L4, ?L5; cbn [Nat.sub]).
    apply slice_prefix. symmetry; exact L6. }
  assert (S14 : slice 14 16 b = b7).
  { unfold b. do 6 (rewrite slice_app_r by lia; rewrite ?L1, ?L2, ?L3, ?L4, ?L5, ?L6; cbn [Nat.sub]).
    apply slice_prefix. symmetry; exact L7. }
  assert (S16 : slice 16 18 b = b8).
  { unfold b. do 7 (rewrite slice_app_r by lia; rewrite ?L1, ?L2, ?L3, ?L4, ?L5, ?L6, ?L7; cbn [Nat.sub]).
    apply slice_prefix. symmetry; exact L8. }
  assert (S18 : slice 18 26 b = r1).
  { unfold b. do 8 (rewrite slice_app_r by lia; rewrite ?L1, ?L2, ?L3, ?L4, ?L5, ?L6, ?L7, ?L8; cbn [Nat.sub]).
    apply slice_prefix. symmetry; exact R1. }
  assert (S26 : slice 26 34 b = r2).
  { unfold b. do 8 (rewrite slice_app_r by lia; rewrite ?L1, ?L2, ?L3, ?L4, ?L5, ?L6, ?L7, ?L8; cbn [Nat.sub]).
    rewrite slice_app_r by lia. rewrite R1. cbn [Nat.sub]. apply slice_prefix. symmetry; exact R2. }
  assert (S34 : slice 34 42 b = r3).
  { unfold b. do 8 (rewrite slice_app_r by lia; rewrite ?L1, ?L2, ?L3, ?L4, ?L5, ?L6, ?L7, ?L8; cbn [Nat.sub]).
    rewrite slice_app_r by lia. rewrite R1. cbn [Nat.sub].
    rewrite slice_app_r by lia. rewrite R2. cbn [Nat.sub]. apply slice_prefix. symmetry; exact R3. }
  assert (S42 : skipn 42 b = seq).
  { unfold b.
    replace (b1 ++ b2 ++ b3 ++ b4 ++ b5 ++ b6 ++ b7 ++ b8 ++ r1 ++ r2 ++ r3 ++ seq)
      with ((b1 ++ b2 ++ b3 ++ b4 ++ b5 ++ b6 ++ b7 ++ b8 ++ r1 ++ r2 ++ r3) ++ seq)
      by (rewrite <- !app_assoc; reflexivity).
    apply skipn_app_len. rewrite !app_length, L1, L2, L3, L4, L5, L6, L7, L8, R1, R2, R3. reflexivity. }
  assert (D8 : le_dec b8 = Z.of_nat (length entries)) by (apply le_dec_enc_small, H16, Hnn).
  exists b. split; [reflexivity|]. split; [exact Lb|].
  assert (Hid : uint_le (firstn 2 b) = Some 4).
  { change (firstn 2 b) with (slice 0 2 b). rewrite S0. reflexivity. }
  assert (Hsub : uint_le (slice 2 4 b) = Some 5) by (rewrite S2; reflexivity).
  split; [|split; [|split]].
  - unfold dec_track. rewrite S4, S8, S10, S12, S14, S16, S18, S26, S34, S42, D8, Nat2Z.id.
    unfold b3, b4, b5, b6, b7, r1, r2, r3.
    rewrite !le_dec_enc_small by (first [exact H32 | apply H16; assumption]).
    rewrite (proj1 (enc_real_dec t0 Ht0)), (proj1 (enc_real_dec raz Hraz)), (proj1 (enc_real_dec rel Hrel)).
    f_equal. rewrite <- (app_nil_r seq). apply dec_enc_entries; assumption.
  - exists 4. unfold cmd_id. split; [exact Hid|]. right. split; [reflexivity|].
    exists (Z.of_nat (length entries)). rewrite S16. split; [|split].
    + rewrite uint_le_some by (intros E; assert (X : length b8 = 0%nat) by (rewrite E; reflexivity); lia).
      rewrite D8. reflexivity.
    + lia.
    + rewrite Lb. consts. lia.
  - unfold csub. rewrite S2. reflexivity.
  - unfold get_method. rewrite Hid, Hsub. reflexivity.
Qed.

(* ------------------------------------------------------------------ every in-domain frame *)

(* the command string decodes to the encoder's arguments (with the counter the loop assigned) *)
Definition decodes (next : Z) (c : ecmd) (b : list Z) : Prop :=
  match c with
  | ETrack s pid interp track load t0 raz rel entries =>
      dec_track b = mkTF next pid interp track load (Z.of_nat (length entries)) t0 raz rel entries
  | _ => dec26 b = want26 next c
  end.

Lemma enc_cmd_facts next c : in_domain c -> 0 <= next < 2 ^ 32 ->
  exists b, enc_cmd next c = Some b /\ wf_cmd b /\ csub b = esub c /\
            get_method b = Some (esub c, ecid c, b) /\ (length b <= 1042)%nat /\ decodes next c b.
Proof.
  intros Hd Hn. destruct c as [s k p1 p2|s k p1 p2|s pid interp track load t0 raz rel entries].
  - assert (Hd' : dom26 (EMode s k p1 p2)) by (split; [exact Hd|exact I]).
    destruct (enc_cmd26' next _ Hd' Hn) as (b & E & L & D).
    destruct (dec26_facts b _ next L D Hd') as (W & S & M).
    exists b. repeat split; try assumption. lia.
  - assert (Hd' : dom26 (EParam s k p1 p2)) by (split; [exact Hd|exact I]).
    destruct (enc_cmd26' next _ Hd' Hn) as (b & E & L & D).
    destruct (dec26_facts b _ next L D Hd') as (W & S & M).
    exists b. repeat split; try assumption. lia.
  - assert (Hs : s = 5) by (cbn [in_domain] in Hd; tauto). subst s.
    destruct (enc_track_decodes next pid interp track load t0 raz rel entries Hd Hn)
      as (b & E & L & D & W & S & M).
    assert (Hlen : (length entries <= 50)%nat) by (cbn [in_domain] in Hd; tauto).
    exists b. repeat split; try assumption. lia.
Qed.

Lemma enc_cmds_facts cmds : forall next, Forall in_domain cmds -> 0 <= next ->
  next + Z.of_nat (length cmds) <= 2 ^ 32 ->
  exists bodies, enc_cmds next cmds = Some bodies /\ length bodies = length cmds /\
    Forall wf_cmd bodies /\ map csub bodies = map esub cmds /\
    resolve bodies = Some (map (fun p : ecmd * list Z => (esub (fst p), ecid (fst p), snd p)) (combine cmds bodies)) /\
    (length (concat bodies) <= 1042 * length cmds)%nat /\
    Forall2 (fun c b => exists i, decodes (next + Z.of_nat i) c b /\ (i < length cmds)%nat) cmds bodies.
Proof.
  induction cmds as [|c cmds IH]; intros next Hd Hn Hl.
  - exists []. cbn. repeat split; auto.
  - inversion Hd as [|? ? Hc Hd']; subst. cbn [length] in Hl.
    destruct (enc_cmd_facts next c Hc) as (b & Eb & Wb & Sb & Mb & Lb & Db); [lia|].
    destruct (IH (next + 1) Hd') as (bs & Ebs & L1 & W & Sm & R & Lc & F); [lia|lia|].
    exists (b :: bs). cbn [enc_cmds]. unfold obind. rewrite Eb, Ebs.
    repeat split.
    + cbn [length]. lia.
    + constructor; assumption.
    + cbn [map]. rewrite Sb, Sm. reflexivity.
    + cbn [resolve combine map fst snd]. rewrite Mb, R. reflexivity.
    + cbn [concat length]. rewrite app_length. lia.
    + constructor.
      * exists 0%nat. split; [rewrite Z.add_0_r; exact Db|cbn; lia].
      * eapply Forall2_weaken; [|exact F]. intros c' b' (i & E & Hi). exists (S i). split; [|cbn [length]; lia].
        replace (next + Z.of_nat (S i)) with (next + 1 + Z.of_nat i) by lia. exact E.
Qed.

(* C10 for the ACU: every frame the shipped encoders build from in-domain arguments *)
Theorem encoded_frame_consumed_all st counter cmds :
  Forall in_domain cmds -> NoDup (map esub cmds) ->
  0 < counter -> counter + Z.of_nat (length cmds) < 2 ^ 32 ->
  fidle st -> Some counter <> f_cnt st ->
  exists m bodies,
    enc_frame counter cmds = Some m /\ length bodies = length cmds /\
    frun st m = (mkF [] 0 (Some counter) 0,
                 repeat (OTrue, None) (length m - 1) ++
                 [(OTrue, Some (map (fun p : ecmd * list Z => (esub (fst p), ecid (fst p), snd p))
                                    (combine cmds bodies)))]) /\
    Forall2 (fun c b => exists i, decodes (counter + 1 + Z.of_nat i) c b /\ (i < length cmds)%nat)
            cmds bodies.
Proof.
  intros Hd Hnd Hc0 Hc Hidle Hprev.
  destruct (enc_cmds_facts cmds (counter + 1) Hd) as (bodies & Eb & Lb & W & S & R & Lc & F); [lia|lia|].
  assert (Hn3 : (length cmds <= 3)%nat).
  { assert (Hin : forall x, In x (map esub cmds) -> In x [1; 2; 5]).
    { intros x Hx. apply in_map_iff in Hx. destruct Hx as (c & <- & Hc').
      rewrite Forall_forall in Hd. pose proof (Hd c Hc') as Hdom.
      destruct c; cbn [in_domain esub] in *; destruct Hdom as (Hs & _); cbn; lia. }
    pose proof (NoDup_incl_length Hnd Hin) as Hle. rewrite map_length in Hle. cbn in Hle. exact Hle. }
  set (m := frame_of counter (Z.of_nat (length bodies)) bodies).
  assert (Hf : fresh_subs [] bodies) by (apply fresh_of_nodup; cbn [app]; rewrite S; exact Hnd).
  assert (H1 : resolve bodies <> None) by (rewrite R; discriminate).
  assert (H2 : 0 <= counter < 2 ^ 32) by lia.
  assert (H3 : Z.of_nat (length bodies) < 2 ^ 31) by lia.
  assert (H4 : 20 + Z.of_nat (length (concat bodies)) < 2 ^ 32) by lia.
  destruct (frame_wf (f_cnt st) counter bodies W Hf H1 H2 Hprev H3 H4) as [Hwf Hm].
  exists m, bodies. split; [|split; [exact Lb|split; [|]]].
  - unfold enc_frame. destruct (Z.eqb_spec counter 0); [lia|]. unfold obind. rewrite Eb.
    rewrite !enc_uint_ok; [unfold m, frame_of; rewrite Lb; reflexivity| | |];
      change (256 ^ Z.of_nat 4) with (2 ^ 32); lia.
  - fold m in Hwf, Hm. rewrite <- Hm. apply (wf_executed st m bodies); assumption.
  - exact F.
Qed.
