(* Lemmas about the framing automaton of the active-surface line (Model/AslLine.v, fstep):
   reachable-state invariant, resynchronisation measure, rejection of impossible lengths,
   and the run of a well-formed frame from the idle state (part c03_as, used by C10/C11). *)
From DS Require Import Base.Prelude Base.Bits Model.Utils Model.AslLine.

(* ---------- header byte arithmetic (finite sweep over the 256 byte values) ---------- *)

Lemma hdr_fields b : byte b -> hdr_nbytes b = b / 32 /\ hdr_index b = b mod 32.
Proof.
  intros Hb.
  assert (H : ((hdr_nbytes b =? b / 32) && (hdr_index b =? b mod 32)) = true).
  { apply (byte_sweep (fun b => (hdr_nbytes b =? b / 32) && (hdr_index b =? b mod 32)));
      [vm_compute; reflexivity|exact Hb]. }
  apply andb_true_iff in H as [H1 H2]. split; apply Z.eqb_eq; assumption.
Qed.

Lemma hdr_nbytes_range b : 0 <= hdr_nbytes b <= 7.
Proof.
  unfold hdr_nbytes. pose proof (int2_range (firstn 3 (byte_bits b))) as H.
  assert (L : (length (firstn 3 (byte_bits b)) <= 3)%nat) by apply firstn_le_length.
  assert (2 ^ Z.of_nat (length (firstn 3 (byte_bits b))) <= 2 ^ 3) by (apply Z.pow_le_mono_r; lia).
  lia.
Qed.

Lemma hdr_compose n idx : 1 <= n <= 7 -> 0 <= idx <= 31 ->
  hdr_nbytes (n * 32 + idx) = n /\ hdr_index (n * 32 + idx) = idx /\ n * 32 + idx <> 0 /\
  byte (n * 32 + idx).
Proof.
  intros Hn Hi. assert (Hb : byte (n * 32 + idx)) by (unfold byte; lia).
  destruct (hdr_fields _ Hb) as [H1 H2]. rewrite H1, H2. repeat split; try lia; exact Hb.
Qed.

(* ---------- invariant of the reachable framing states ---------- *)

Definition fwf (f : fstate) : Prop :=
  match f_msg f with
  | [] => f = finit
  | [h] => is_header h = true /\ f_all f = false /\ f_exp f = 0
  | [h; a] => is_header h = true /\
              ((a = 0 /\ f_all f = true /\ f_exp f = 0) \/ (a <> 0 /\ f_all f = false /\ 1 <= f_exp f <= 7))
  | h :: _ :: _ :: _ =>
      is_header h = true /\ 0 <= f_exp f <= 7 /\ Z.of_nat (length (f_msg f)) + f_exp f <= 10
  end.

(* upper bound on the number of bytes before the parser is idle again *)
Definition togo (f : fstate) : Z :=
  match length (f_msg f) with
  | 0%nat => 0
  | 1%nat => 10
  | 2%nat => if f_all f then 9 else f_exp f + 1
  | _ => f_exp f + 1
  end.

Definition freach (f : fstate) : Prop := exists bs, f = fst (frun finit bs).

Lemma fwf_init : fwf finit.
Proof. reflexivity. Qed.

Lemma fwf_idle_init f : fwf f -> fidle f -> f = finit.
Proof. unfold fwf, fidle. intros H E. rewrite E in H. exact H. Qed.

Ltac fcases f :=
  let msg := fresh "msg" in let a := fresh "a" in let e := fresh "e" in
  destruct f as [msg a e];
  destruct msg as [|m0 [|m1 [|m2 msg]]].

Lemma fwf_step f b : fwf f -> fwf (fst (fstep f b)).
Proof.
  intros H. fcases f; unfold fwf in H; cbn [f_msg f_all f_exp] in H; unfold fstep;
    cbn [f_msg f_all f_exp length app].
  - injection H as -> ->. destruct (is_header b) eqn:Hh; cbn [fst]; [|reflexivity].
    unfold fwf; cbn. auto.
  - destruct H as (Hh & -> & ->).
    destruct (Z.eqb_spec b 0) as [->|Hb]; cbn [fst].
    + unfold fwf; cbn. auto.
    + pose proof (hdr_nbytes_range b) as Hr.
      destruct ((7 <? hdr_nbytes b) || (hdr_nbytes b <? 1)) eqn:Hc; cbn [fst]; [reflexivity|].
      unfold fwf; cbn [f_msg f_all f_exp]. split; [exact Hh|right]. repeat split; try lia; exact Hb.
  - destruct H as (Hh & [(-> & -> & ->)|(Hne & -> & He)]).
    + destruct ((7 <? b) || (b <? 1)) eqn:Hc; cbn [fst]; [reflexivity|].
      unfold fwf; cbn [f_msg f_all f_exp length]. split; [exact Hh|]. lia.
    + cbn [fst]. unfold fwf; cbn [f_msg f_all f_exp length]. split; [exact Hh|]. lia.
  - destruct H as (Hh & He & Hl). cbn [length] in Hl.
    destruct (Z.eqb_spec e 0) as [->|Hz]; cbn [fst]; [reflexivity|].
    unfold fwf; cbn [f_msg f_all f_exp length app]. split; [exact Hh|].
    rewrite app_length. cbn [length]. lia.
Qed.

Lemma togo_bound f : fwf f -> 0 <= togo f <= 10.
Proof.
  intros H. fcases f; unfold fwf in H; unfold togo; cbn [f_msg f_all f_exp length] in *.
  - lia.
  - lia.
  - destruct H as (_ & [(_ & -> & _)|(_ & -> & He)]); lia.
  - lia.
Qed.

(* never waits for more than 7 further parameter bytes *)
Lemma expected_le_7 f : fwf f -> 0 <= f_exp f <= 7.
Proof.
  intros H. fcases f; unfold fwf in H; cbn [f_msg f_all f_exp] in *.
  - injection H as _ ->. lia.
  - lia.
  - destruct H as (_ & [(_ & _ & ->)|(_ & _ & He)]); lia.
  - lia.
Qed.

(* the measure strictly decreases until the parser is idle *)
Lemma togo_step f b : fwf f -> f_msg f <> [] ->
  fidle (fst (fstep f b)) \/ togo (fst (fstep f b)) < togo f.
Proof.
  intros H Hne. fcases f; [cbn in Hne; congruence| | |]; clear Hne; unfold fwf in H; unfold fstep, togo, fidle;
    cbn [f_msg f_all f_exp length app] in *.
  - destruct H as (Hh & -> & ->).
    destruct (Z.eqb_spec b 0) as [->|Hb]; cbn [fst f_msg f_all f_exp length]; [right; lia|].
    pose proof (hdr_nbytes_range b) as Hr.
    destruct ((7 <? hdr_nbytes b) || (hdr_nbytes b <? 1)) eqn:Hc; cbn [fst f_msg f_all f_exp length];
      [left; reflexivity|right; lia].
  - destruct H as (Hh & [(-> & -> & ->)|(Hne & -> & He)]).
    + destruct ((7 <? b) || (b <? 1)) eqn:Hc; cbn [fst f_msg f_all f_exp length];
        [left; reflexivity|right; lia].
    + cbn [fst f_msg f_all f_exp length]. right. lia.
  - destruct H as (Hh & He & Hl).
    destruct (Z.eqb_spec e 0) as [->|Hz]; cbn [fst f_msg f_all f_exp length]; [left; reflexivity|].
    right. lia.
Qed.

(* in the idle state a byte that is not a header is discarded *)
Lemma idle_discards f b : fwf f -> fidle f -> is_header b = false -> fstep f b = (f, FFalse).
Proof.
  intros H Hi Hb. rewrite (fwf_idle_init f H Hi). unfold fstep. cbn. rewrite Hb. reflexivity.
Qed.

Lemma idle_accepts_header f b : fwf f -> fidle f -> is_header b = true ->
  fstep f b = (mkF [b] false 0, FTrue).
Proof.
  intros H Hi Hb. rewrite (fwf_idle_init f H Hi). unfold fstep. cbn. rewrite Hb. reflexivity.
Qed.

Lemma frun_app f bs1 bs2 :
  frun f (bs1 ++ bs2) =
  let (f1, e1) := frun f bs1 in let (f2, e2) := frun f1 bs2 in (f2, e1 ++ e2).
Proof.
  revert f; induction bs1 as [|b bs1 IH]; intros f; cbn [frun app].
  - destruct (frun f bs2); reflexivity.
  - destruct (fstep f b) as [f1 e]. rewrite IH. destruct (frun f1 bs1) as [f2 e2].
    destruct (frun f2 bs2). reflexivity.
Qed.

Lemma frun_fwf f bs : fwf f -> fwf (fst (frun f bs)).
Proof.
  revert f; induction bs as [|b bs IH]; intros f H; [exact H|].
  cbn [frun]. destruct (fstep f b) as [f1 e] eqn:E1. specialize (IH f1).
  destruct (frun f1 bs) as [f2 es]. cbn [fst] in *. apply IH.
  replace f1 with (fst (fstep f b)) by (rewrite E1; reflexivity). now apply fwf_step.
Qed.

Lemma freach_fwf f : freach f -> fwf f.
Proof. intros [bs ->]. apply frun_fwf, fwf_init. Qed.

(* Resynchronisation, form 1: bytes that cannot start a command.  From any reachable state,
   after [togo f] (<= 10) non-header bytes - in particular after any 11 of them, one maximum
   broadcast frame - the parser is idle. *)
Lemma resync_nonheader bs : forall f, fwf f ->
  Forall (fun b => is_header b = false) bs -> togo f <= Z.of_nat (length bs) ->
  fidle (fst (frun f bs)).
Proof.
  induction bs as [|b bs IH]; intros f H Hnh Hlen.
  - cbn [frun fst]. cbn [length] in Hlen. pose proof (togo_bound f H).
    fcases f; [reflexivity| | |]; unfold togo in *; cbn [f_msg f_all f_exp length] in *; unfold fwf in H;
      cbn [f_msg f_all f_exp] in H; try lia.
    destruct H as (_ & [(_ & -> & _)|(_ & -> & He)]); lia.
  - inversion Hnh as [|? ? Hb Hnh']; subst.
    cbn [frun]. destruct (fstep f b) as [f1 e] eqn:E1.
    assert (H1 : fwf f1) by (replace f1 with (fst (fstep f b)) by (rewrite E1; reflexivity); now apply fwf_step).
    specialize (IH f1 H1 Hnh'). destruct (frun f1 bs) as [f2 es]. cbn [fst] in *. apply IH.
    cbn [length] in Hlen.
    destruct (f_msg f) eqn:Em.
    + rewrite (idle_discards f b H Em Hb) in E1. injection E1 as <- _.
      unfold togo. rewrite Em. cbn. lia.
    + assert (Hne : f_msg f <> []) by (rewrite Em; discriminate).
      destruct (togo_step f b H Hne) as [Hi|Hd]; rewrite E1 in *; cbn [fst] in *.
      * unfold fidle in Hi. unfold togo. rewrite Hi. cbn. lia.
      * lia.
Qed.

(* Resynchronisation, form 2: arbitrary bytes.  From any reachable state the parser passes
   through the idle state within [togo f] <= 10 bytes (it may then start a new frame). *)
Lemma resync_any bs : forall f, fwf f -> togo f <= Z.of_nat (length bs) ->
  exists k, (Z.of_nat k <= togo f) /\ fidle (fst (frun f (firstn k bs))).
Proof.
  induction bs as [|b bs IH]; intros f H Hlen.
  - exists 0%nat. pose proof (togo_bound f H). cbn [length] in Hlen.
    split; [lia|]. cbn [firstn frun fst].
    fcases f; [reflexivity| | |]; unfold togo in *; cbn [f_msg f_all f_exp length] in *; unfold fwf in H;
      cbn [f_msg f_all f_exp] in H; try lia.
    destruct H as (_ & [(_ & -> & _)|(_ & -> & He)]); lia.
  - destruct (f_msg f) eqn:Em.
    + exists 0%nat. pose proof (togo_bound f H). split; [lia|]. cbn [firstn frun fst]. exact Em.
    + assert (Hne : f_msg f <> []) by (rewrite Em; discriminate).
      destruct (fstep f b) as [f1 e] eqn:E1.
      assert (H1 : fwf f1) by (replace f1 with (fst (fstep f b)) by (rewrite E1; reflexivity); now apply fwf_step).
      destruct (togo_step f b H Hne) as [Hi|Hd]; rewrite E1 in *; cbn [fst] in *.
      * exists 1%nat. split.
        { pose proof (togo_bound f H). unfold togo in *. rewrite Em in *.
          destruct l as [|? [|? ?]]; cbn [length] in *; try lia.
          - destruct (f_all f); [lia|]. unfold fwf in H. rewrite Em in H.
            destruct H as (_ & [(_ & Hf)|(_ & _ & He)]); [|lia].
            (* f_all f = true contradicts the branch *) lia.
          - unfold fwf in H. rewrite Em in H. lia. }
        cbn [firstn frun]. rewrite E1. cbn [fst]. exact Hi.
      * cbn [length] in Hlen. destruct (IH f1 H1) as (k & Hk & Hidle); [lia|].
        exists (S k). split; [lia|]. cbn [firstn frun]. rewrite E1.
        destruct (frun f1 (firstn k bs)) as [f2 es]. cbn [fst] in *. exact Hidle.
Qed.

(* ---------- impossible lengths are rejected at once ---------- *)

(* second byte 1..31: unicast header declaring 0 bytes *)
Lemma zero_nibble_rejected f b : length (f_msg f) = 1%nat -> 1 <= b <= 31 ->
  fstep f b = (finit, FBadLength 0).
Proof.
  intros Hl Hb. unfold fstep. rewrite Hl.
  destruct (Z.eqb_spec b 0) as [->|_]; [lia|].
  assert (Hy : byte b) by (unfold byte; lia).
  destruct (hdr_fields b Hy) as [-> _].
  replace (b / 32) with 0 by lia. reflexivity.
Qed.

(* third byte of a broadcast outside 1..7 *)
Lemma bad_bcast_length_rejected f b : length (f_msg f) = 2%nat -> f_all f = true ->
  (b < 1 \/ 7 < b) -> fstep f b = (finit, FBadLength b).
Proof.
  intros Hl Ha Hb. unfold fstep. rewrite Hl, Ha.
  replace ((7 <? b) || (b <? 1)) with true by lia. reflexivity.
Qed.

(* every frame handed to _parse has 4..11 bytes, starts with a header *)
Lemma frame_shape f b f' m : fwf f -> fstep f b = (f', FFrame m) ->
  f' = finit /\ m = f_msg f ++ [b] /\ (4 <= length m <= 11)%nat /\
  exists h t, m = h :: t /\ is_header h = true.
Proof.
  intros H E. fcases f; unfold fwf in H; unfold fstep in E; cbn [f_msg f_all f_exp length app] in *.
  - destruct (is_header b); discriminate.
  - destruct (b =? 0); [discriminate|].
    destruct ((7 <? hdr_nbytes b) || (hdr_nbytes b <? 1)); discriminate.
  - destruct a; [destruct ((7 <? b) || (b <? 1))|]; discriminate.
  - destruct H as (Hh & He & Hl).
    destruct (Z.eqb_spec e 0) as [->|Hz]; [|discriminate].
    injection E as <- <-. repeat split.
    + cbn [length]. rewrite app_length. cbn [length]. lia.
    + cbn [length] in *. rewrite app_length. cbn [length]. lia.
    + eexists _, _. split; [reflexivity|exact Hh].
Qed.

(* ---------- a well-formed frame run from the idle state ---------- *)

Lemma frun_count bs : forall m0 m1 m2 rest a c,
  frun (mkF (m0 :: m1 :: m2 :: rest) a (Z.of_nat (length bs))) (bs ++ [c]) =
  (finit, repeat FTrue (length bs) ++ [FFrame ((m0 :: m1 :: m2 :: rest) ++ bs ++ [c])]).
Proof.
  induction bs as [|b bs IH]; intros m0 m1 m2 rest a c.
  - cbn. reflexivity.
  - cbn [app frun]. unfold fstep at 1. cbn [f_msg f_all f_exp length].
    replace (Z.of_nat (S (length bs)) =? 0) with false by lia.
    replace (Z.of_nat (S (length bs)) - 1) with (Z.of_nat (length bs)) by lia.
    cbn [app]. rewrite IH. cbn [repeat app]. rewrite <- !app_assoc. reflexivity.
Qed.

Definition wf_req (q : request) : Prop :=
  match q with
  | QBcast start code ps => is_header start = true /\ (length ps <= 6)%nat
  | QUni start idx code ps => is_header start = true /\ 0 <= idx <= 31 /\ (length ps <= 6)%nat
  end.

Lemma frun_frame q : wf_req q ->
  frun finit (frame_of q) =
  (finit, repeat FTrue (length (frame_of q) - 1) ++ [FFrame (frame_of q)]).
Proof.
  destruct q as [start code ps|start idx code ps]; cbn [wf_req frame_of].
  - intros (Hs & Hl). unfold close.
    set (body := [start; 0; Z.of_nat (length ps) + 1; code] ++ ps).
    assert (Eb : body ++ [checksum body] = [start; 0; Z.of_nat (length ps) + 1] ++ (code :: ps) ++ [checksum body]).
    { unfold body. cbn [app]. reflexivity. }
    rewrite Eb. rewrite frun_app.
    assert (E3 : frun finit [start; 0; Z.of_nat (length ps) + 1] =
                 (mkF [start; 0; Z.of_nat (length ps) + 1] true (Z.of_nat (length (code :: ps))), [FTrue; FTrue; FTrue])).
    { cbn [frun]. unfold fstep. cbn [f_msg f_all f_exp length app finit]. rewrite Hs.
      cbn [f_msg f_all f_exp length app Z.eqb].
      replace ((7 <? Z.of_nat (length ps) + 1) || (Z.of_nat (length ps) + 1 <? 1)) with false by lia.
      cbn [length]. replace (Z.of_nat (S (length ps))) with (Z.of_nat (length ps) + 1) by lia. reflexivity. }
    rewrite E3. rewrite frun_count. cbn [app length]. rewrite app_length. cbn [length].
    replace (S (S (S (S (length ps + 1)))) - 1)%nat with (S (S (S (S (length ps))))) by lia.
    cbn [repeat app]. reflexivity.
  - intros (Hs & Hi & Hl). unfold close.
    set (h := (Z.of_nat (length ps) + 1) * 32 + idx).
    set (body := [start; h; code] ++ ps).
    destruct (hdr_compose (Z.of_nat (length ps) + 1) idx) as (Hn & _ & Hnz & _); [lia|lia|].
    fold h in Hn, Hnz.
    assert (Eb : body ++ [checksum body] = [start; h; code] ++ ps ++ [checksum body]).
    { unfold body. rewrite <- app_assoc. reflexivity. }
    rewrite Eb. rewrite frun_app.
    assert (E3 : frun finit [start; h; code] =
                 (mkF [start; h; code] false (Z.of_nat (length ps)), [FTrue; FTrue; FTrue])).
    { cbn [frun]. unfold fstep. cbn [f_msg f_all f_exp length app finit]. rewrite Hs.
      cbn [f_msg f_all f_exp length app].
      destruct (Z.eqb_spec h 0) as [E0|_]; [congruence|]. rewrite Hn.
      replace ((7 <? Z.of_nat (length ps) + 1) || (Z.of_nat (length ps) + 1 <? 1)) with false by lia.
      cbn [f_msg f_all f_exp length app].
      replace (Z.of_nat (length ps) + 1 - 1) with (Z.of_nat (length ps)) by lia. reflexivity. }
    rewrite E3. rewrite frun_count. cbn [app length]. rewrite app_length. cbn [length].
    replace (S (S (S (length ps + 1))) - 1)%nat with (S (S (S (length ps)))) by lia.
    cbn [repeat app]. reflexivity.
Qed.

(* ---------- the statements of part c03_as ---------- *)

Definition non_header (b : Z) : Prop := is_header b = false.

Theorem resync_nonheader_10 f bs : freach f -> Forall non_header bs -> (10 <= length bs)%nat ->
  fidle (fst (frun f bs)).
Proof.
  intros Hr Hn Hl. apply freach_fwf in Hr. apply resync_nonheader; [exact Hr|exact Hn|].
  pose proof (togo_bound f Hr). lia.
Qed.

Theorem resync_any_10 f bs : freach f -> (10 <= length bs)%nat ->
  exists k, (k <= 10)%nat /\ fidle (fst (frun f (firstn k bs))).
Proof.
  intros Hr Hl. apply freach_fwf in Hr. pose proof (togo_bound f Hr) as Hb.
  destruct (resync_any bs f Hr) as (k & Hk & Hi); [lia|]. exists k. split; [lia|exact Hi].
Qed.

Theorem expected_bounded f : freach f -> 0 <= f_exp f <= 7.
Proof. intros Hr. apply expected_le_7, freach_fwf, Hr. Qed.

Theorem buffer_bounded f : freach f -> (length (f_msg f) <= 10)%nat.
Proof.
  intros Hr. apply freach_fwf in Hr. fcases f; unfold fwf in Hr; cbn [f_msg f_all f_exp length] in *; try lia.
Qed.

(* from the third byte on, expected_bytes decreases by one per byte until the frame is handed
   to _parse and the parser is idle *)
Theorem expected_decreases f b : freach f -> (3 <= length (f_msg f))%nat ->
  (f_exp f = 0 /\ fstep f b = (finit, FFrame (f_msg f ++ [b]))) \/
  (0 < f_exp f /\ snd (fstep f b) = FTrue /\ f_exp (fst (fstep f b)) = f_exp f - 1 /\
   f_msg (fst (fstep f b)) = f_msg f ++ [b]).
Proof.
  intros Hr Hl. apply freach_fwf in Hr.
  fcases f; cbn [f_msg length] in Hl; try lia.
  unfold fwf in Hr. cbn [f_msg f_all f_exp length] in Hr. destruct Hr as (_ & He & _).
  unfold fstep. cbn [f_msg f_all f_exp length].
  destruct (Z.eqb_spec e 0) as [->|Hz]; [left; split; reflexivity|right].
  cbn [fst snd f_msg f_exp]. repeat split; lia.
Qed.

Theorem measure_decreases f b : freach f -> ~ fidle f ->
  fidle (fst (fstep f b)) \/ togo (fst (fstep f b)) < togo f.
Proof. intros Hr Hn. apply togo_step; [apply freach_fwf, Hr|exact Hn]. Qed.

Theorem measure_bounded f : freach f -> 0 <= togo f <= 10.
Proof. intros Hr. apply togo_bound, freach_fwf, Hr. Qed.

Theorem idle_discards_reach f b : freach f -> fidle f -> non_header b -> fstep f b = (f, FFalse).
Proof. intros Hr. apply idle_discards, freach_fwf, Hr. Qed.

Theorem fresh_after_idle f : freach f -> fidle f -> f = finit.
Proof. intros Hr. apply fwf_idle_init, freach_fwf, Hr. Qed.

Theorem freach_step f b : freach f -> freach (fst (fstep f b)).
Proof.
  intros [bs ->]. exists (bs ++ [b]). rewrite frun_app.
  destruct (frun finit bs) as [f1 e1]. cbn [frun fst]. destruct (fstep f1 b). reflexivity.
Qed.

Theorem freach_run f bs : freach f -> freach (fst (frun f bs)).
Proof.
  intros [bs0 ->]. exists (bs0 ++ bs). rewrite frun_app.
  destruct (frun finit bs0) as [f1 e1]. cbn [fst]. destruct (frun f1 bs). reflexivity.
Qed.

(* non-vacuity: reachable non-idle states *)
Example freach_ex1 : freach (mkF [252; 0; 7; 48; 1] true 5).
Proof. exists [252; 0; 7; 48; 1]. reflexivity. Qed.
Example freach_ex2 : freach (mkF [250; 225] false 7).
Proof. exists [250; 225]. reflexivity. Qed.

Theorem frame_shape_reach f b f' m : freach f -> fstep f b = (f', FFrame m) ->
  f' = finit /\ m = f_msg f ++ [b] /\ (4 <= length m <= 11)%nat /\
  exists h t, m = h :: t /\ is_header h = true.
Proof. intros H. apply frame_shape, freach_fwf, H. Qed.
