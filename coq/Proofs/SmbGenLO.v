(* Lemmas about the generic LO model (Model/SmbGenLO.v, fixed code). *)
From DS Require Import Base.Prelude Model.SmbCommon Model.SmbGenLO Proofs.SmbCommon.
From Coq Require Decimal DecimalPos.

(* ---------------------------------------------------------------- str.split() on clean tokens *)
Lemma clean_nospace tok : clean_token tok -> forall x, In x tok -> is_space x = false.
Proof. intros [_ H] x Hx. apply H. exact Hx. Qed.

Lemma split_ws_clean_cons tok c rest : clean_token tok -> is_space c = true ->
  split_ws (tok ++ c :: rest) = tok :: split_ws rest.
Proof.
  intros Ht Hc. unfold split_ws. rewrite split_by_app_sep; [| apply clean_nospace; exact Ht | exact Hc].
  cbn [filter]. destruct Ht as [Hne _]. destruct tok; [contradiction | reflexivity].
Qed.

Lemma split_ws_clean tok : clean_token tok -> split_ws tok = [tok].
Proof.
  intros Ht. unfold split_ws. rewrite split_by_nosep by (apply clean_nospace; exact Ht).
  cbn [filter]. destruct Ht as [Hne _]. destruct tok; [contradiction | reflexivity].
Qed.

Lemma clean_literal l : l <> [] -> forallb (fun x => negb (is_space x) && negb (x =? SEMI)) l = true ->
  clean_token l.
Proof.
  intros Hne H. split; [exact Hne|]. intros x Hx. rewrite forallb_forall in H. specialize (H x Hx).
  apply andb_true_iff in H as [H1 H2]. split; [destruct (is_space x); [discriminate | reflexivity]|].
  intros ->. discriminate.
Qed.

Lemma clean_nosemi_line a tok b : clean_token a -> clean_token tok -> clean_token b ->
  ~ In SEMI (a ++ [SP] ++ tok ++ [SP] ++ b).
Proof.
  intros [_ Ha] [_ Ht] [_ Hb] Hin.
  repeat (apply in_app_or in Hin as [Hin|Hin]);
    try (cbn in Hin; destruct Hin as [E|[]]; discriminate).
  - apply Ha in Hin. tauto.
  - apply Ht in Hin. tauto.
  - apply Hb in Hin. tauto.
Qed.

Lemma split_ws_three a tok b : clean_token a -> clean_token tok -> clean_token b ->
  split_ws (a ++ [SP] ++ tok ++ [SP] ++ b) = [a; tok; b].
Proof.
  intros Ha Ht Hb. change (a ++ [SP] ++ tok ++ [SP] ++ b) with (a ++ SP :: (tok ++ SP :: b)).
  rewrite (split_ws_clean_cons a SP) by (auto; reflexivity).
  rewrite (split_ws_clean_cons tok SP) by (auto; reflexivity). rewrite split_ws_clean by exact Hb. reflexivity.
Qed.

Lemma g_power_clean : clean_token G_POWER. Proof. apply clean_literal; [discriminate | reflexivity]. Qed.
Lemma g_freq_clean : clean_token G_FREQ. Proof. apply clean_literal; [discriminate | reflexivity]. Qed.
Lemma g_dbm_clean : clean_token G_DBM. Proof. apply clean_literal; [discriminate | reflexivity]. Qed.
Lemma g_mhz_clean : clean_token G_MHZ. Proof. apply clean_literal; [discriminate | reflexivity]. Qed.

Section WithOracle.
  Variable fl : list Z -> fres.

  (* ---------------------------------------------------------------- writes *)
  Lemma g_write_power_exec d tok : clean_token tok ->
    g_exec fl d (g_write_power tok) = (g_set_power d [tok; G_DBM], OTrue).
  Proof.
    intros Ht. unfold g_exec, g_write_power.
    rewrite nosemi_split by (apply clean_nosemi_line; auto using g_power_clean, g_dbm_clean).
    cbn [g_cmds]. rewrite split_ws_three by (auto using g_power_clean, g_dbm_clean).
    change (g_lookup G_POWER) with (Some GSetPower). reflexivity.
  Qed.

  Lemma g_write_power_accepted d tok v : clean_token tok -> py_int tok = Some v ->
    g_exec fl d (g_write_power tok) = (mkG v (fhz d) (frepr d), OTrue).
  Proof. intros Ht Hv. rewrite g_write_power_exec by exact Ht. cbn. rewrite Hv. reflexivity. Qed.

  Lemma g_write_power_refused d tok : clean_token tok -> py_int tok = None ->
    g_exec fl d (g_write_power tok) = (d, OTrue).
  Proof. intros Ht Hv. rewrite g_write_power_exec by exact Ht. cbn. rewrite Hv. reflexivity. Qed.

  Lemma g_write_freq_exec d tok : clean_token tok ->
    g_exec fl d (g_write_freq tok) =
      match g_set_freq fl d [tok; G_MHZ] with Some d' => (d', OTrue) | None => (d, ONoOracle) end.
  Proof.
    intros Ht. unfold g_exec, g_write_freq.
    rewrite nosemi_split by (apply clean_nosemi_line; auto using g_freq_clean, g_mhz_clean).
    cbn [g_cmds]. rewrite split_ws_three by (auto using g_freq_clean, g_mhz_clean).
    change (g_lookup G_FREQ) with (Some GSetFreq). cbv iota beta.
    destruct (g_set_freq fl d [tok; G_MHZ]); reflexivity.
  Qed.

  Lemma g_write_freq_accepted d tok hz rp : clean_token tok -> fl tok = FFin hz rp ->
    g_exec fl d (g_write_freq tok) = (mkG (power d) hz rp, OTrue).
  Proof. intros Ht Hv. rewrite g_write_freq_exec by exact Ht. cbn. rewrite Hv. reflexivity. Qed.

  Lemma g_write_freq_refused d tok : clean_token tok -> (fl tok = FErr \/ fl tok = FNonFinite) ->
    g_exec fl d (g_write_freq tok) = (d, OTrue).
  Proof. intros Ht [Hv|Hv]; rewrite g_write_freq_exec by exact Ht; cbn; rewrite Hv; reflexivity. Qed.

  (* ---------------------------------------------------------------- queries *)
  Definition g_answer (d : gdev) (q : list Z) : list Z :=
    if zlist_eqb q G_POWERQ then dec (power d) else if zlist_eqb q G_FREQQ then dec (fhz d) else G_STATUS.

  Lemma g_query d q : In q g_queries -> g_exec fl d q = (d, OReply (g_answer d q ++ [LF])).
  Proof.
    intros [<-|[<-|[<-|[]]]]; unfold g_exec.
    - change (split_on SEMI G_POWERQ) with [G_POWERQ]. cbn [g_cmds].
      change (split_ws G_POWERQ) with [G_POWERQ]. cbv iota beta. change (g_lookup G_POWERQ) with (Some GGetPower).
      rewrite !app_nil_l. cbn [nonempty]. rewrite join_semi_single. reflexivity.
    - change (split_on SEMI G_FREQQ) with [G_FREQQ]. cbn [g_cmds].
      change (split_ws G_FREQQ) with [G_FREQQ]. cbv iota beta. change (g_lookup G_FREQQ) with (Some GGetFreq).
      rewrite !app_nil_l. cbn [nonempty]. rewrite join_semi_single. reflexivity.
    - change (split_on SEMI G_ERRQ) with [G_ERRQ]. cbn [g_cmds].
      change (split_ws G_ERRQ) with [G_ERRQ]. cbv iota beta. change (g_lookup G_ERRQ) with (Some GStatus).
      rewrite !app_nil_l. cbn [nonempty]. rewrite join_semi_single. reflexivity.
  Qed.

  Lemma g_queries_no_lf q : In q g_queries -> no_lf q.
  Proof. intros [<-|[<-|[<-|[]]]]; vm_compute; intuition discriminate. Qed.

  (* the oracle being total, no outcome is ONoOracle and queries never consult it anyway *)

  (* ---------------------------------------------------------------- frame properties *)
  Lemma g_lookup_power a0 : g_lookup a0 = Some GSetPower -> zlist_eqb a0 G_POWER = true.
  Proof.
    unfold g_lookup. destruct (zlist_eqb a0 G_POWER); [reflexivity|].
    destruct (zlist_eqb a0 G_POWERQ); [discriminate|]. destruct (zlist_eqb a0 G_FREQ); [discriminate|].
    destruct (zlist_eqb a0 G_FREQQ); [discriminate|]. destruct (zlist_eqb a0 G_ERRQ); discriminate.
  Qed.

  Lemma g_lookup_freq a0 : g_lookup a0 = Some GSetFreq -> zlist_eqb a0 G_FREQ = true.
  Proof.
    unfold g_lookup. destruct (zlist_eqb a0 G_POWER); [discriminate|].
    destruct (zlist_eqb a0 G_POWERQ); [discriminate|]. destruct (zlist_eqb a0 G_FREQ); [reflexivity|].
    destruct (zlist_eqb a0 G_FREQQ); [discriminate|]. destruct (zlist_eqb a0 G_ERRQ); discriminate.
  Qed.

  Lemma g_set_freq_power d params d' : g_set_freq fl d params = Some d' -> power d' = power d.
  Proof.
    unfold g_set_freq. destruct params as [|p0 [|p1 [|? ?]]]; try congruence.
    destruct (zlist_eqb p1 G_MHZ); [|congruence]. destruct (fl p0); try congruence.
    intros E; injection E as <-. reflexivity.
  Qed.

  Lemma g_set_power_freq d params : fhz (g_set_power d params) = fhz d.
  Proof.
    unfold g_set_power. destruct params as [|p0 [|p1 [|? ?]]]; try reflexivity.
    destruct (zlist_eqb p1 G_DBM); [|reflexivity]. destruct (py_int p0); reflexivity.
  Qed.

  Lemma g_cmds_power_frame cmds : forall d items, existsb (g_first_token_is G_POWER) cmds = false ->
    power (fst (g_cmds fl d items cmds)) = power d.
  Proof.
    induction cmds as [|c r IH]; intros d items H; cbn [g_cmds]; [reflexivity|].
    cbn [existsb] in H. apply orb_false_iff in H as [Hc Hr]. unfold g_first_token_is in Hc.
    destruct (split_ws c) as [|a0 params]; [apply IH; exact Hr|].
    destruct (g_lookup a0) as [[| | | |]|] eqn:El; try (apply IH; exact Hr).
    - apply g_lookup_power in El. congruence.
    - destruct (g_set_freq fl d params) as [d'|] eqn:Ef; [|reflexivity].
      rewrite IH by exact Hr. eapply g_set_freq_power. exact Ef.
  Qed.

  Lemma g_cmds_freq_frame cmds : forall d items, existsb (g_first_token_is G_FREQ) cmds = false ->
    fhz (fst (g_cmds fl d items cmds)) = fhz d.
  Proof.
    induction cmds as [|c r IH]; intros d items H; cbn [g_cmds]; [reflexivity|].
    cbn [existsb] in H. apply orb_false_iff in H as [Hc Hr]. unfold g_first_token_is in Hc.
    destruct (split_ws c) as [|a0 params]; [apply IH; exact Hr|].
    destruct (g_lookup a0) as [[| | | |]|] eqn:El; try (apply IH; exact Hr).
    - rewrite IH by exact Hr. apply g_set_power_freq.
    - apply g_lookup_freq in El. congruence.
  Qed.

  Lemma g_lines_power_frame ls : forall d, Forall (fun l => g_line_mentions G_POWER l = false) ls ->
    power (fst (exec_lines (g_exec fl) d ls)) = power d.
  Proof.
    induction ls as [|l ls IH]; intros d H; cbn [exec_lines fst]; [reflexivity|].
    inversion H as [|? ? Hl Hls]; subst. rewrite IH by exact Hls. apply g_cmds_power_frame. exact Hl.
  Qed.

  Lemma g_lines_freq_frame ls : forall d, Forall (fun l => g_line_mentions G_FREQ l = false) ls ->
    fhz (fst (exec_lines (g_exec fl) d ls)) = fhz d.
  Proof.
    induction ls as [|l ls IH]; intros d H; cbn [exec_lines fst]; [reflexivity|].
    inversion H as [|? ? Hl Hls]; subst. rewrite IH by exact Hls. apply g_cmds_freq_frame. exact Hl.
  Qed.

  (* accepted write, any history of lines without a POWER (resp. FREQ) command, read-back *)
  Lemma g_power_readback d tok v ls : clean_token tok -> py_int tok = Some v ->
    Forall (fun l => g_line_mentions G_POWER l = false) ls ->
    let d2 := fst (exec_lines (g_exec fl) (fst (g_exec fl d (g_write_power tok))) ls) in
    g_exec fl d2 G_POWERQ = (d2, OReply (dec v ++ [LF])).
  Proof.
    intros Ht Hv Hls d2. rewrite g_query by (left; reflexivity). unfold g_answer. cbn [zlist_eqb].
    change (zlist_eqb G_POWERQ G_POWERQ) with true. cbv iota.
    subst d2. rewrite g_lines_power_frame by exact Hls. rewrite (g_write_power_accepted d tok v Ht Hv). reflexivity.
  Qed.

  Lemma g_freq_readback d tok hz rp ls : clean_token tok -> fl tok = FFin hz rp ->
    Forall (fun l => g_line_mentions G_FREQ l = false) ls ->
    let d2 := fst (exec_lines (g_exec fl) (fst (g_exec fl d (g_write_freq tok))) ls) in
    g_exec fl d2 G_FREQQ = (d2, OReply (dec hz ++ [LF])).
  Proof.
    intros Ht Hv Hls d2. rewrite g_query by (right; left; reflexivity). unfold g_answer.
    change (zlist_eqb G_FREQQ G_POWERQ) with false. change (zlist_eqb G_FREQQ G_FREQQ) with true. cbv iota.
    subst d2. rewrite g_lines_freq_frame by exact Hls. rewrite (g_write_freq_accepted d tok hz rp Ht Hv). reflexivity.
  Qed.

  (* ---------------------------------------------------------------- reply shape *)
  Lemma uint_digits_all u : forallb is_digit (uint_digits u) = true.
  Proof. induction u; cbn; auto. Qed.

  Lemma uint_digits_nonnil u : u <> Decimal.Nil -> uint_digits u <> [].
  Proof. destruct u; [congruence | discriminate ..]. Qed.

  Lemma dec_int_literal z : int_literalb (dec z) = true.
  Proof.
    unfold dec, Z.to_int. destruct z as [|p|p].
    - reflexivity.
    - pose proof (uint_digits_all (Pos.to_uint p)) as Ha.
      pose proof (uint_digits_nonnil _ (DecimalPos.Unsigned.to_uint_nonnil p)) as Hn.
      destruct (Pos.to_uint p); cbn in *; try congruence; exact Ha.
    - pose proof (uint_digits_all (Pos.to_uint p)) as Ha.
      pose proof (uint_digits_nonnil _ (DecimalPos.Unsigned.to_uint_nonnil p)) as Hn.
      cbn [int_literalb]. destruct (uint_digits (Pos.to_uint p)) as [|x xs]; [congruence | exact Ha].
  Qed.

  Lemma is_digit_props x : is_digit x = true -> x <> SEMI /\ byte x.
  Proof. unfold is_digit, SEMI, byte. lia. Qed.

  Lemma g_item_ok_shape i : g_item_okb i = true -> ~ In SEMI i /\ bytes i.
  Proof.
    unfold g_item_okb. intros H. apply orb_true_iff in H as [H|H].
    - assert (Hd : forall l, forallb is_digit l = true -> ~ In SEMI l /\ bytes l).
      { intros l Hl. rewrite forallb_forall in Hl. split.
        - intros Hin. apply Hl in Hin. discriminate.
        - apply Forall_forall. intros x Hx. apply is_digit_props. apply Hl. exact Hx. }
      unfold int_literalb in H. destruct i as [|x xs]; [discriminate|].
      destruct ((x =? 45) && nonempty xs) eqn:E; [|apply Hd; exact H].
      apply andb_true_iff in E as [E _]. apply Z.eqb_eq in E. subst x. destruct (Hd _ H) as [H1 H2].
      split; [intros [E|Hin]; [discriminate | exact (H1 Hin)] | constructor; [unfold byte; lia | exact H2]].
    - apply zlist_eqb_eq in H. subst i. split; [vm_compute; intuition discriminate | apply bytesb_spec; reflexivity].
  Qed.

  Lemma g_cmds_reply cmds : forall d items d' r,
    Forall (fun i => g_item_okb i = true) items ->
    g_cmds fl d items cmds = (d', OReply r) ->
    exists items', items' <> [] /\ r = join_semi items' ++ [LF] /\ Forall (fun i => g_item_okb i = true) items'.
  Proof.
    assert (Hdec : forall z, g_item_okb (dec z) = true).
    { intros z. unfold g_item_okb. rewrite dec_int_literal. reflexivity. }
    induction cmds as [|c rest IH]; intros d items d' r Hitems H; cbn [g_cmds] in H.
    - destruct items as [|i items]; [discriminate|]. cbn in H. injection H as _ <-.
      exists (i :: items). split; [discriminate | split; [reflexivity | exact Hitems]].
    - destruct (split_ws c) as [|a0 params]; [eapply IH; eauto|].
      destruct (g_lookup a0) as [[| | | |]|]; try (eapply IH; eauto; fail).
      + eapply IH; [|exact H]. apply Forall_app; split; [exact Hitems | repeat constructor; apply Hdec].
      + destruct (g_set_freq fl d params); [eapply IH; eauto | discriminate].
      + eapply IH; [|exact H]. apply Forall_app; split; [exact Hitems | repeat constructor; apply Hdec].
      + eapply IH; [|exact H]. apply Forall_app; split; [exact Hitems | repeat constructor].
  Qed.

  Lemma g_reply_wf d l d' r : g_exec fl d l = (d', OReply r) -> g_reply_wfb r = true.
  Proof.
    intros H. destruct (g_cmds_reply _ _ _ _ _ (Forall_nil _) H) as (items & Hne & -> & Hok).
    unfold g_reply_wfb. rewrite rev_app_distr. cbn [rev app]. rewrite Z.eqb_refl. cbn [andb]. rewrite rev_involutive.
    rewrite split_join_semi; [| exact Hne |].
    - apply forallb_forall. rewrite Forall_forall in Hok. exact Hok.
    - eapply Forall_impl; [|exact Hok]. intros i Hi. apply g_item_ok_shape. exact Hi.
  Qed.

  Lemma g_reply_wf_shape r : g_reply_wfb r = true -> bytes r /\ exists body, r = body ++ [LF].
  Proof.
    unfold g_reply_wfb. destruct (rev r) as [|x body] eqn:E; [discriminate|].
    intros H. apply andb_true_iff in H as [Hx H]. apply Z.eqb_eq in Hx. subst x. unfold LF in *.
    assert (Er : r = rev body ++ [10]).
    { rewrite <- (rev_involutive r), E. reflexivity. }
    split; [|exists (rev body); exact Er]. rewrite Er. apply Forall_app. split; [|repeat constructor; unfold byte; lia].
    rewrite forallb_forall in H. apply (split_by_bytes_inv (Z.eqb SEMI)).
    - intros y Ey. apply Z.eqb_eq in Ey. subst y. unfold SEMI, byte. lia.
    - apply Forall_forall. intros i Hi. apply g_item_ok_shape. apply H. exact Hi.
  Qed.

  (* ---------------------------------------------------------------- byte-level statements *)
  Lemma g_exec_never_no_oracle_query d q : In q g_queries -> snd (g_exec fl d q) <> ONoOracle.
  Proof. intros Hq. rewrite g_query by exact Hq. discriminate. Qed.

  Lemma g_answered s q : g_idle s = true -> In q g_queries ->
    g_run fl s (q ++ [LF]) = (s, line_outs q (OReply (g_answer (ldev s) q ++ [LF]))) /\
    g_reply_wfb (g_answer (ldev s) q ++ [LF]) = true.
  Proof.
    intros Hi Hq. split.
    - unfold g_run. rewrite lrun_line_idle by (auto using g_queries_no_lf).
      rewrite g_query by exact Hq. cbn [fst snd]. rewrite <- (lidle_msg s Hi). reflexivity.
    - apply (g_reply_wf (ldev s) q (ldev s)). apply g_query. exact Hq.
  Qed.

  Lemma g_answered_after_history s0 bs q : In q g_queries ->
    let s := fst (g_run fl s0 (bs ++ [LF])) in
    snd (g_run fl s (q ++ [LF])) = line_outs q (OReply (g_answer (ldev s) q ++ [LF])).
  Proof.
    intros Hq s. destruct (g_answered s q (lresync (g_exec fl) s0 bs) Hq) as [E _]. rewrite E. reflexivity.
  Qed.

  Lemma g_step_reply_wf s b s' r : g_step fl s b = (s', OReply r) -> g_reply_wfb r = true /\ b = LF.
  Proof.
    intros H. unfold g_step, lstep in H. destruct (b =? LF) eqn:E; [|discriminate].
    split; [|lia]. injection H as _ H.
    apply (g_reply_wf (ldev s) (lmsg s) (fst (g_exec fl (ldev s) (lmsg s)))).
    rewrite <- H. apply surjective_pairing.
  Qed.

  Lemma g_noise_discarded s l : g_idle s = true -> no_lf l ->
    Forall (fun c => match split_ws c with [] => True | a0 :: _ => g_lookup a0 = None end) (split_on SEMI l) ->
    g_run fl s (l ++ [LF]) = (s, line_outs l OTrue).
  Proof.
    intros Hi Hl H. apply lrun_discarded; auto. unfold g_exec.
    generalize (ldev s) as d. intros d. revert H. generalize (split_on SEMI l) as cmds.
    induction cmds as [|c r IH]; intros H; cbn [g_cmds]; [reflexivity|].
    inversion H as [|? ? Hc Hr]; subst. destruct (split_ws c) as [|a0 ps]; [apply IH; exact Hr|].
    rewrite Hc. apply IH. exact Hr.
  Qed.
End WithOracle.
