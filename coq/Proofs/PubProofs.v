(* C08 -- theorems about the publisher/clients system (fixed loop), proved from the invariant of
   Proofs/PubInv.v by induction over the reachability relation. *)
From DS Require Import Base.Prelude Model.PubModel Proofs.PubInv.

(* ------------------------------------------------------------------------------------------ *)
(* 1. the update thread never dies and never blocks *)

Lemma alive_reachable cf s : period cf <> 0 -> reachable cf s -> stat s = Running.
Proof. intros Hper R. apply i_stat. eapply inv_reachable; eauto. Qed.

(* ... stated on the step itself: from a reachable state the next publisher step neither raises
   nor finds a client queue full, whatever the capacity of the client queues *)
Lemma pub_step_safe cf s : period cf <> 0 -> reachable cf s ->
  stat (fst (pub_step cf s)) = Running /\
  (forall c, snd (pub_step cf s) <> EFull c) /\ snd (pub_step cf s) <> EIdle.
Proof.
  intros Hper R. pose proof (inv_reachable cf s Hper R) as I.
  split; [apply i_stat; apply inv_pub; assumption|].
  unfold pub_step. rewrite (i_stat s I).
  destruct (pc s) eqn:Hpc.
  - cbn. split; intros; discriminate.
  - destruct (unsubq s); cbn; split; intros; discriminate.
  - destruct (subq s) eqn:Hq.
    + destruct (inv_after_update cf s I Hpc Hq Hper) as (subs' & -> & _). cbn. split; intros; discriminate.
    + cbn. split; intros; discriminate.
  - destruct (i_todo s I) as [Hne _]; [rewrite Hpc; reflexivity|].
    unfold pub_publish. destruct (todo s) as [|c r]; [congruence|]. rewrite Hpc.
    destruct (mbox s c); cbn; split; intros; discriminate.
  - destruct (i_todo s I) as [Hne _]; [rewrite Hpc; reflexivity|].
    unfold pub_publish. destruct (todo s) as [|c r] eqn:Ht; [congruence|]. rewrite Hpc.
    rewrite (i_put s I Hpc c r Ht).
    replace (is_full cf []) with false
      by (unfold is_full; cbn; destruct (0 <? cap cf) eqn:E; cbn; [symmetry; apply Z.leb_gt; lia|reflexivity]).
    cbn. split; intros; discriminate.
Qed.

(* ------------------------------------------------------------------------------------------ *)
(* projections of the publisher step *)

Lemma after_update_proj cf s l :
  let s' := after_update cf s l in
  subq s' = subq s /\ unsubq s' = unsubq s /\ mbox s' = mbox s /\ phase_of s' = phase_of s /\
  got s' = got s /\ iter s' = iter s /\ subtick s' = subtick s /\
  (stat s' = Running -> pend s' = [] /\ subs s' = l /\ drainphase (pc s') = false).
Proof.
  unfold after_update, end_iter, die.
  destruct (period cf =? 0).
  - cbn. repeat split; auto; discriminate.
  - destruct (counter s mod period cf =? 0); [destruct l|]; cbn; repeat split; auto.
Qed.

(* the components a publisher step never touches *)
Lemma pub_step_frame cf s :
  let s' := fst (pub_step cf s) in
  phase_of s' = phase_of s /\ got s' = got s /\ subtick s' = subtick s.
Proof.
  unfold pub_step. destruct (stat s); cbn; auto.
  destruct (pc s) eqn:Hpc; cbn; auto.
  - destruct (unsubq s); cbn; auto.
  - destruct (subq s); cbn; auto.
    destruct (remove_all (pend s) (subs s)); cbn; auto.
    destruct (after_update_proj cf s l) as (_ & _ & _ & H1 & H2 & _ & H3 & _). auto.
  - unfold pub_publish. destruct (todo s) as [|c r]; cbn; auto. rewrite Hpc.
    destruct (mbox s c); cbn; auto.
  - unfold pub_publish. destruct (todo s) as [|c r]; cbn; auto. rewrite Hpc.
    destruct (is_full cf (mbox s c)); cbn; auto. destruct r; cbn; auto.
Qed.

(* pending unsubscriptions only move from the queue to the local list or disappear *)
Lemma pub_step_uns cf s x : Inv s -> period cf <> 0 ->
  In x (unsubq (fst (pub_step cf s)) ++ pend (fst (pub_step cf s))) -> In x (unsubq s ++ pend s).
Proof.
  intros I Hper. unfold pub_step. rewrite (i_stat s I).
  destruct (pc s) eqn:Hpc.
  - cbn. rewrite app_nil_r. intros H. apply in_or_app. left; exact H.
  - destruct (unsubq s) as [|y r]; cbn; [tauto|].
    rewrite !in_app_iff. cbn. tauto.
  - destruct (subq s) eqn:Hq; [|cbn; tauto].
    destruct (inv_after_update cf s I Hpc Hq Hper) as (subs' & -> & I'). cbn [fst].
    destruct (after_update_proj cf s subs') as (_ & -> & _ & _ & _ & _ & _ & H).
    destruct (H (i_stat _ I')) as (-> & _). rewrite app_nil_r. intros Hx. apply in_or_app. left; exact Hx.
  - unfold pub_publish. destruct (todo s) as [|c r]; [cbn; tauto|]. rewrite Hpc.
    destruct (mbox s c); cbn; tauto.
  - unfold pub_publish. destruct (todo s) as [|c r]; [cbn; tauto|]. rewrite Hpc.
    destruct (is_full cf (mbox s c)); [cbn; tauto|]. destruct r; cbn; rewrite ?app_nil_r; try tauto.
    intros H. apply in_or_app. left; exact H.
Qed.

(* a publisher step changes only the queue of the client it is serving, which is a subscriber *)
Lemma pub_step_mbox cf s x : Inv s -> period cf <> 0 -> ~ In x (subs s) ->
  mbox (fst (pub_step cf s)) x = mbox s x.
Proof.
  intros I Hper Hx. unfold pub_step. rewrite (i_stat s I).
  destruct (pc s) eqn:Hpc.
  - reflexivity.
  - destruct (unsubq s); reflexivity.
  - destruct (subq s) eqn:Hq; [|reflexivity].
    destruct (remove_all (pend s) (subs s)); [|reflexivity]. cbn [fst].
    destruct (after_update_proj cf s l) as (_ & _ & -> & _). reflexivity.
  - destruct (i_todo s I) as [Hne [pre Hpre]]; [rewrite Hpc; reflexivity|].
    unfold pub_publish. destruct (todo s) as [|c r]; [congruence|]. rewrite Hpc.
    assert (x <> c).
    { intros ->. apply Hx. rewrite Hpre. apply in_or_app. right. left. reflexivity. }
    destruct (mbox s c); cbn; [reflexivity|]. apply upd_other; assumption.
  - destruct (i_todo s I) as [Hne [pre Hpre]]; [rewrite Hpc; reflexivity|].
    unfold pub_publish. destruct (todo s) as [|c r]; [congruence|]. rewrite Hpc.
    assert (x <> c).
    { intros ->. apply Hx. rewrite Hpre. apply in_or_app. right. left. reflexivity. }
    destruct (is_full cf (mbox s c)); [reflexivity|].
    destruct r; cbn; apply upd_other; assumption.
Qed.

(* ------------------------------------------------------------------------------------------ *)
(* 2. take-up within two ticks *)

Definition InvT (s : state) : Prop :=
  forall c, In c (subq s) ->
    if drainphase (pc s) then iter s - 1 <= subtick s c <= iter s else subtick s c = iter s.

Lemma invT_init : InvT init.
Proof. intros c []. Qed.

Lemma invT_step cf s l s' : InvT s -> step cf s l = Some s' -> InvT s'.
Proof.
  intros T H. unfold step in H.
  destruct (step_ev cf s l) as [[s1 e]|] eqn:E; [|discriminate]. injection H as <-.
  destruct l; cbn [step_ev] in E.
  - cbn in E. destruct (phase_of s c); try discriminate. injection E as <- <-.
    intros x Hx. cbn in *. apply in_app_or in Hx.
    destruct (Z.eq_dec x c) as [->|Hne].
    + rewrite upd_same. destruct (drainphase (pc s)); lia.
    + rewrite upd_other by exact Hne. apply T. destruct Hx as [Hx|[Hx|[]]]; [exact Hx|congruence].
  - cbn in E. destruct (phase_of s c); try discriminate.
    destruct (mbox s c); injection E as <- <-; exact T.
  - cbn in E. destruct (phase_of s c); try discriminate. injection E as <- <-. exact T.
  - injection E as E. assert (Hs : s1 = fst (pub_step cf s)) by (rewrite E; reflexivity).
    subst s1. clear E. unfold pub_step. destruct (stat s); try exact T.
    destruct (pc s) eqn:Hpc.
    + intros x Hx. cbn in *. specialize (T x Hx). rewrite Hpc in T. cbn in T. lia.
    + destruct (unsubq s); intros x Hx; cbn in *; specialize (T x Hx); rewrite Hpc in T; exact T.
    + destruct (subq s) as [|y r] eqn:Hq.
      * intros x Hx. exfalso.
        destruct (remove_all (pend s) (subs s)); cbn [fst] in Hx.
        -- destruct (after_update_proj cf s l) as (Hs & _). rewrite Hs, Hq in Hx. exact Hx.
        -- cbn in Hx. rewrite Hq in Hx. exact Hx.
      * intros x Hx. cbn in *. assert (Hx' : In x (y :: r)) by (right; exact Hx).
        rewrite <- Hq in Hx'. specialize (T x Hx'). rewrite Hpc in T. exact T.
    + unfold pub_publish. destruct (todo s) as [|c r]; [exact T|]. rewrite Hpc.
      destruct (mbox s c); intros x Hx; cbn in *; specialize (T x Hx); rewrite Hpc in T; exact T.
    + unfold pub_publish. destruct (todo s) as [|c r]; [exact T|]. rewrite Hpc.
      destruct (is_full cf (mbox s c)); [exact T|].
      destruct r; intros x Hx; cbn in *; specialize (T x Hx); rewrite Hpc in T; exact T.
Qed.

Lemma invT_reachable cf s : reachable cf s -> InvT s.
Proof. intros R. induction R as [|s l s' _ IH Hs]; [exact invT_init|eapply invT_step; eauto]. Qed.

(* while a subscription is still waiting in subscribe_q, the publisher has passed the loop head
   at most once since it was posted *)
Lemma taken_up_two_ticks cf s c : reachable cf s -> In c (subq s) -> iter s <= subtick s c + 1.
Proof.
  intros R Hin. pose proof (invT_reachable cf s R c Hin) as H.
  destruct (drainphase (pc s)); lia.
Qed.

(* hence: from the second loop head after its subscription on, a client that has not disconnected
   is in the publisher's subscriber list *)
Lemma taken_up_subscribed cf s c : period cf <> 0 -> reachable cf s ->
  phase_of s c = CRun -> subtick s c + 2 <= iter s -> In c (subs s).
Proof.
  intros Hper R Hp Ht. pose proof (inv_reachable cf s Hper R) as I.
  pose proof (i_run s I c Hp) as H. apply in_app_or in H. destruct H as [H|H]; [|exact H].
  pose proof (taken_up_two_ticks cf s c R H). lia.
Qed.

(* the same for a client that has left meanwhile: its subscription does not stay in the queue *)
Lemma taken_up_not_waiting cf s c : reachable cf s -> subtick s c + 2 <= iter s -> ~ In c (subq s).
Proof. intros R Ht H. pose proof (taken_up_two_ticks cf s c R H). lia. Qed.

(* ------------------------------------------------------------------------------------------ *)
(* 3. no frame after the unsubscription has been processed *)

(* the client has called unsubscribe and the publisher has taken the request out of
   unsubscribe_q and applied it *)
Definition processed (s : state) (c : cid) : Prop :=
  phase_of s c = CDone /\ ~ In c (unsubq s ++ pend s).

Lemma processed_not_subscribed s c : Inv s -> processed s c -> ~ In c (subq s ++ subs s).
Proof. intros I [Hp Hn] Hin. apply Hn. apply (i_done s I c Hp Hin). Qed.

Lemma processed_step cf s l s' c : period cf <> 0 -> Inv s -> processed s c ->
  step cf s l = Some s' -> processed s' c /\ mbox s' c = mbox s c /\ got s' c = got s c.
Proof.
  intros Hper I P H. pose proof P as [Hp Hn]. unfold step in H.
  destruct (step_ev cf s l) as [[s1 e]|] eqn:E; [|discriminate]. injection H as <-.
  destruct l as [x|x|x|]; cbn [step_ev] in E.
  - cbn in E. destruct (phase_of s x) eqn:Hx; try discriminate. injection E as <- <-.
    assert (c <> x) by congruence. unfold processed. cbn. rewrite upd_other by assumption. auto.
  - cbn in E. destruct (phase_of s x) eqn:Hx; try discriminate.
    assert (c <> x) by congruence.
    destruct (mbox s x); injection E as <- <-; [auto|].
    unfold processed. cbn. rewrite !upd_other by assumption. auto.
  - cbn in E. destruct (phase_of s x) eqn:Hx; try discriminate. injection E as <- <-.
    assert (c <> x) by congruence. unfold processed. cbn. rewrite upd_other by assumption.
    repeat split; auto. rewrite <- app_assoc, in_app_iff. cbn. rewrite in_app_iff in Hn.
    intros [Hi|[Hi|Hi]]; try tauto. congruence.
  - injection E as E. assert (Hs : s1 = fst (pub_step cf s)) by (rewrite E; reflexivity).
    subst s1. clear E.
    destruct (pub_step_frame cf s) as (Hph & Hgot & _).
    pose proof (processed_not_subscribed s c I P) as Hns.
    split; [|split].
    + unfold processed. rewrite Hph. split; [exact Hp|].
      intros Hi. apply Hn. eapply pub_step_uns; eauto.
    + apply pub_step_mbox; auto. intros Hi. apply Hns. apply in_or_app. right; exact Hi.
    + rewrite Hgot. reflexivity.
Qed.

(* for ever: along any continuation, the queue of a processed client is never written again *)
Lemma no_frame_after_unsubscribe cf : period cf <> 0 -> forall ls s s' c,
  reachable cf s -> processed s c -> run cf s ls = Some s' ->
  processed s' c /\ mbox s' c = mbox s c /\ got s' c = got s c.
Proof.
  intros Hper ls. induction ls as [|l r IH]; intros s s' c R P H; cbn in H.
  - injection H as <-. auto.
  - destruct (step cf s l) as [s1|] eqn:E; [|discriminate].
    pose proof (inv_reachable cf s Hper R) as I.
    destruct (processed_step cf s l s1 c Hper I P E) as (P1 & Hm1 & Hg1).
    destruct (IH s1 s' c (reach_step cf s l s1 R E) P1 H) as (P' & Hm' & Hg').
    split; [exact P'|]. split; congruence.
Qed.

(* and every unsubscription is processed: after it has been taken from unsubscribe_q it is applied
   in the same iteration (the list of drained requests is empty at every loop head) *)
Lemma unsubscribe_applied cf s c : period cf <> 0 -> reachable cf s -> pc s = PTop ->
  phase_of s c = CDone -> ~ In c (unsubq s) -> processed s c.
Proof.
  intros Hper R Hpc Hp Hn. pose proof (inv_reachable cf s Hper R) as I.
  split; [exact Hp|]. rewrite (i_pend s I) by (rewrite Hpc; reflexivity).
  rewrite app_nil_r. exact Hn.
Qed.

(* ------------------------------------------------------------------------------------------ *)
(* witnesses *)

(* F08 on the pinned loop: A and B subscribe, B unsubscribes, then one iteration: the loop takes
   A, takes B's unsubscription, and `subscribers.remove(B)` raises *)
Definition f08_schedule : list label := [LSub 1; LSub 2; LUnsub 2; LPub; LPub; LPub].

Lemma pinned_loop_dies : option_map stat (run_pinned acu_cfg init f08_schedule) = Some Dead.
Proof. vm_compute. reflexivity. Qed.

Lemma fixed_loop_survives_f08 :
  option_map (fun s => (stat s, subs s, pc s)) (run acu_cfg init (f08_schedule ++ [LPub; LPub; LPub]))
  = Some (Running, [1], PClear).
Proof. vm_compute. reflexivity. Qed.

(* the program-order hypothesis on the clients is necessary: if an unsubscription could be posted
   before the subscription, the fixed loop would die as well *)
Lemma order_hypothesis_needed :
  option_map stat (run_unordered acu_cfg init [LUnsub 1; LPub; LPub; LPub; LPub]) = Some Dead.
Proof. vm_compute. reflexivity. Qed.

(* non-vacuity: a reachable state with a served subscriber, a waiting one and a leaving one *)
Definition ex_schedule : list label :=
  [LSub 1; LPub; LPub; LPub; LPub; LPub; LPub; LSub 2; LSub 3; LUnsub 3; LPub; LGet 1].

Lemma ex_reachable : exists s, run acu_cfg init ex_schedule = Some s /\ reachable acu_cfg s /\
  subs s = [1] /\ subq s = [2; 3] /\ unsubq s = [3] /\ got s 1 = [1] /\ phase_of s 3 = CDone.
Proof.
  destruct (run acu_cfg init ex_schedule) as [s|] eqn:E; [|vm_compute in E; discriminate].
  exists s. split; [reflexivity|]. split; [eapply reachable_run; [apply reach_init|exact E]|].
  vm_compute in E. injection E as <-. cbn. repeat split; reflexivity.
Qed.
