(* Tie of the hand-written tables of Model/AslLine.v / Model/AslEncoder.v to the tables generated
   from the source on every run (Gen/AslTables.v, written by props/asl_lib.py gen_tables). *)
From Coq Require Import String Ascii.
From DS Require Import Base.Prelude Model.AslLine Model.AslEncoder Gen.AslTables.

Definition zs (s : string) : list Z := map (fun a => Z.of_N (N_of_ascii a)) (list_ascii_of_string s).

(* System.functions: codes in source order, handler names *)
Definition golden_functions : list (Z * list Z) :=
  [ (1, zs "_soft_reset"); (2, zs "_soft_trigger"); (16, zs "_get_version"); (17, zs "_soft_stop");
    (18, zs "_get_position"); (19, zs "_get_status"); (20, zs "_get_driver_type");
    (32, zs "_set_min_frequency"); (33, zs "_set_max_frequency"); (34, zs "_set_slope_delayer");
    (35, zs "_set_reference_position"); (37, zs "_set_io_pins"); (38, zs "_set_resolution");
    (39, zs "_set_current_reduction"); (40, zs "_set_response_delay");
    (41, zs "_set_delayed_execution"); (48, zs "_set_absolute_position");
    (49, zs "_set_relative_position"); (50, zs "_rotate"); (53, zs "_set_velocity");
    (42, zs "_set_stop_io"); (43, zs "_set_positioning_io"); (44, zs "_set_home_io");
    (45, zs "_set_working_mode") ]%string.

Lemma functions_tie : gen_functions = golden_functions /\ map fst gen_functions = codes.
Proof. split; vm_compute; reflexivity. Qed.

Lemma constants_tie :
  gen_ack = 6 /\ gen_nak = 21 /\ gen_switchall = 0 /\ gen_max_usd_per_line = 32 /\
  is_header gen_start_fa = true /\ is_header gen_start_fc = true /\
  gen_start_fa = start_of false /\ gen_start_fc = start_of true.
Proof. repeat split; vm_compute; reflexivity. Qed.

(* command_library: public encoders in source order with the command byte given to _compose *)
Definition golden_encoders : list (list Z * Z) :=
  [ (zs "soft_reset", code_of ESoftReset); (zs "soft_trigger", code_of ESoftTrigger);
    (zs "get_version", code_of EGetVersion); (zs "soft_stop", code_of ESoftStop);
    (zs "get_position", code_of EGetPosition); (zs "get_status", code_of EGetStatus);
    (zs "get_driver_type", code_of EGetDriverType);
    (zs "set_min_frequency", code_of (ESetMinFrequency 0));
    (zs "set_max_frequency", code_of (ESetMaxFrequency 0));
    (zs "set_slope_multiplier", code_of (ESetSlopeMultiplier 0));
    (zs "set_reference_position", code_of (ESetReferencePosition 0));
    (zs "set_io_pins", code_of (ESetIoPins (BInt 0)));
    (zs "set_resolution", code_of (ESetResolution (BInt 0)));
    (zs "reduce_current", code_of (EReduceCurrent (BInt 0)));
    (zs "set_response_delay", code_of (ESetResponseDelay 0));
    (zs "toggle_delayed_execution", code_of (EToggleDelayedExecution (BInt 0)));
    (zs "set_absolute_position", code_of (ESetAbsolutePosition 0));
    (zs "set_relative_position", code_of (ESetRelativePosition 0));
    (zs "rotate", code_of (ERotate 0)); (zs "set_velocity", code_of (ESetVelocity 0));
    (zs "set_stop_io", code_of (ESetStopIo (BInt 0)));
    (zs "set_positioning_io", code_of (ESetPositioningIo (BInt 0)));
    (zs "set_home_io", code_of (ESetHomeIo (BInt 0)));
    (zs "set_working_mode", code_of (ESetWorkingMode (BInt 0))) ]%string.

Lemma encoders_tie : gen_encoders = golden_encoders.
Proof. vm_compute. reflexivity. Qed.
