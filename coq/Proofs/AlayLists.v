(* C16 (tag Alay) — list lemmas: slices, splices, point updates, bit strings of words. *)
From DS Require Import Base.Prelude Base.Bits Model.Utils Proofs.UtilsProofs Model.AlayModel.

Lemma Forall_firstn' {A} (P : A -> Prop) n l : Forall P l -> Forall P (firstn n l).
Proof.
  intros H. revert n. induction H as [|x l Hx _ IH]; intros [|n]; cbn; constructor; auto.
Qed.

Lemma Forall_skipn' {A} (P : A -> Prop) n l : Forall P l -> Forall P (skipn n l).
Proof.
  intros H. rewrite Forall_forall in *. intros x Hx. apply H.
  rewrite <- (firstn_skipn n l). apply in_or_app. right. exact Hx.
Qed.

Lemma slice_length o n (b : block) : (o + n <= length b)%nat -> length (slice o n b) = n.
Proof. intros H. unfold slice. rewrite firstn_length, skipn_length. lia. Qed.

Lemma slice_length_le o n (b : block) : (length (slice o n b) <= n)%nat.
Proof. unfold slice. rewrite firstn_length. lia. Qed.

Lemma slice_length_inv o n (b : block) : (0 < n)%nat -> length (slice o n b) = n -> (o + n <= length b)%nat.
Proof. unfold slice. rewrite firstn_length, skipn_length. lia. Qed.

Lemma slice_length_same o n (b b' : block) : length b' = length b -> length (slice o n b') = length (slice o n b).
Proof. intros H. unfold slice. rewrite !firstn_length, !skipn_length. lia. Qed.

Lemma splice_some o new (b b' : block) : splice o new b = Some b' ->
  (o + length new <= length b)%nat /\ b' = firstn o b ++ new ++ skipn (o + length new) b.
Proof.
  unfold splice. destruct (Nat.leb_spec (o + length new) (length b)) as [H|H]; [|discriminate].
  intros E. injection E as <-. split; [exact H|reflexivity].
Qed.

Lemma splice_length o new (b b' : block) : splice o new b = Some b' -> length b' = length b.
Proof.
  intros H. apply splice_some in H as [Hl ->].
  rewrite !app_length, firstn_length, skipn_length. lia.
Qed.

Lemma splice_bytes o new (b b' : block) : bytes b -> bytes new -> splice o new b = Some b' -> bytes b'.
Proof.
  intros Hb Hn H. apply splice_some in H as [_ ->]. unfold bytes in *.
  apply Forall_app. split; [apply Forall_firstn'; exact Hb|].
  apply Forall_app. split; [exact Hn|apply Forall_skipn'; exact Hb].
Qed.

(* reading back exactly what was written *)
Lemma slice_splice_same o new (b b' : block) : splice o new b = Some b' -> slice o (length new) b' = new.
Proof.
  intros H. apply splice_some in H as [Hl ->]. unfold slice.
  rewrite skipn_app. rewrite firstn_length. replace (Nat.min o (length b)) with o by lia.
  rewrite Nat.sub_diag. cbn [skipn]. rewrite skipn_all2 by (rewrite firstn_length; lia).
  cbn [app]. rewrite firstn_app, Nat.sub_diag. cbn [firstn]. rewrite app_nil_r. apply firstn_all.
Qed.

Lemma slice_app_l o n (l1 l2 : list Z) : (o + n <= length l1)%nat -> slice o n (l1 ++ l2) = slice o n l1.
Proof.
  intros H. unfold slice. rewrite skipn_app, firstn_app, skipn_length.
  replace (n - (length l1 - o))%nat with 0%nat by lia. cbn [firstn]. now rewrite app_nil_r.
Qed.

Lemma slice_app_r o n (l1 l2 : list Z) : (length l1 <= o)%nat -> slice o n (l1 ++ l2) = slice (o - length l1) n l2.
Proof.
  intros H. unfold slice. rewrite skipn_app. rewrite skipn_all2 by lia. reflexivity.
Qed.

(* a slice that does not meet the written range is unchanged *)
Lemma slice_splice_disjoint o new (b b' : block) o2 n2 :
  splice o new b = Some b' -> (o2 + n2 <= o \/ o + length new <= o2)%nat ->
  slice o2 n2 b' = slice o2 n2 b.
Proof.
  intros H Hd. apply splice_some in H as [Hl ->].
  destruct Hd as [Hd|Hd].
  - rewrite slice_app_l by (rewrite firstn_length; lia).
    rewrite <- (firstn_skipn o b) at 2.
    rewrite slice_app_l by (rewrite firstn_length; lia). reflexivity.
  - rewrite app_assoc.
    rewrite slice_app_r by (rewrite app_length, firstn_length; lia).
    rewrite app_length, firstn_length. replace (Nat.min o (length b)) with o by lia.
    rewrite <- (firstn_skipn (o + length new) b) at 2.
    rewrite slice_app_r by (rewrite firstn_length; lia).
    rewrite firstn_length. replace (Nat.min (o + length new) (length b)) with (o + length new)%nat by lia.
    reflexivity.
Qed.

(* ---------- point update ---------- *)
Lemma upd_length {A} k (x : A) l : length (upd k x l) = length l.
Proof. revert k; induction l as [|h t IH]; intros [|k]; cbn; try reflexivity. now rewrite IH. Qed.

Lemma nth_error_upd_same {A} k (x : A) l : (k < length l)%nat -> nth_error (upd k x l) k = Some x.
Proof.
  revert k; induction l as [|h t IH]; intros [|k] H; cbn in *; try lia; [reflexivity|].
  apply IH. lia.
Qed.

Lemma nth_error_upd_other {A} k j (x : A) l : k <> j -> nth_error (upd k x l) j = nth_error l j.
Proof.
  revert k j; induction l as [|h t IH]; intros [|k] [|j] H; cbn; try reflexivity; try congruence.
  apply IH. congruence.
Qed.

(* ---------- bit strings of byte words ---------- *)
Lemma bytes_to_binary_length l le : bytes l -> length (bytes_to_binary l le) = (8 * length l)%nat.
Proof.
  intros Hb. unfold bytes_to_binary.
  assert (H : forall m : list Z, Forall byte m ->
            length (concat (map (fun c => zfill 8 (bin c)) m)) = (8 * length m)%nat).
  { induction 1 as [|c m Hc _ IH]; [reflexivity|].
    cbn [map concat length]. rewrite app_length, IH.
    destruct (byte_bits c Hc) as [Hk _]. unfold chunk_ok in Hk. rewrite Hk. lia. }
  destruct le.
  - rewrite H by (apply Forall_rev; exact Hb). now rewrite rev_length.
  - apply H. exact Hb.
Qed.

Lemma slice_bytes o n (b : block) : bytes b -> bytes (slice o n b).
Proof. intros H. unfold slice, bytes in *. apply Forall_firstn', Forall_skipn', H. Qed.

Lemma binary_to_bytes_length s le k : length s = (8 * k)%nat -> length (binary_to_bytes s le) = k.
Proof.
  intros Hs.
  assert (E : bytes_to_binary (binary_to_bytes s le) le = s) by (eapply binary_bytes_roundtrip; exact Hs).
  pose proof (bytes_to_binary_length (binary_to_bytes s le) le (binary_to_bytes_bytes s le)) as Hl.
  rewrite E, Hs in Hl. lia.
Qed.

Lemma skipn_skipn' {A} (x y : nat) (l : list A) : skipn x (skipn y l) = skipn (x + y) l.
Proof.
  revert l; induction y as [|y IH]; intros l.
  - now rewrite Nat.add_0_r.
  - destruct l as [|h t]; [now rewrite !skipn_nil|].
    rewrite Nat.add_succ_r. cbn [skipn]. apply IH.
Qed.

Lemma slice_slice o1 n1 o2 n2 (b : block) : (o2 + n2 <= n1)%nat ->
  slice o2 n2 (slice o1 n1 b) = slice (o1 + o2) n2 b.
Proof.
  intros H. unfold slice. rewrite skipn_firstn_comm, firstn_firstn, skipn_skipn'.
  replace (Nat.min n2 (n1 - o2)) with n2 by lia. now rewrite (Nat.add_comm o2 o1).
Qed.
