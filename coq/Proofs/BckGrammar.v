(* Lemmas about the backend grammar: the hand-written recogniser of Model/BckModel.v (tied to Python's `re`
   by correspondence) against the declarative grammar of Spec/BckGrammarSpec.v, and well-formedness of
   Message.__str__. *)
From DS Require Import Base.Prelude Model.BckModel Spec.BckGrammarSpec.
From Coq Require Import String.

Arguments zs : simpl never.

(* ------------------------------------------------------------------------------------------ *)
(* character classes *)

Lemma is_alpha_spec c : is_alpha c = true <-> alpha c.
Proof. unfold is_alpha, alpha. lia. Qed.

Lemma is_namech_spec c : is_namech c = true <-> namech c.
Proof. unfold is_namech, namech, is_alpha, is_digit, alpha. lia. Qed.

Lemma not_crlf_spec c : not_crlf c = true <-> no_crlf_char c.
Proof. unfold not_crlf, is_crlf, no_crlf_char. lia. Qed.

Definition clean (l : list Z) : Prop := Forall (fun c => not_crlf c = true) l.
Definition cleanb (l : list Z) : bool := forallb not_crlf l.

Lemma cleanb_spec l : cleanb l = true <-> clean l.
Proof. unfold cleanb, clean. rewrite forallb_forall, Forall_forall. tauto. Qed.

Lemma clean_app a b : clean a -> clean b -> clean (a ++ b).
Proof. unfold clean. intros. apply Forall_app. split; assumption. Qed.

Lemma clean_cons c l : not_crlf c = true -> clean l -> clean (c :: l).
Proof. unfold clean. intros. constructor; assumption. Qed.

Lemma clean_arg_text a : clean a -> a <> [] -> arg_text a.
Proof.
  intros Hc Hn. split; [assumption|].
  unfold clean in Hc. rewrite Forall_forall in *. intros x Hx. apply not_crlf_spec. auto.
Qed.

(* ------------------------------------------------------------------------------------------ *)
(* takewhile / dropwhile *)

Definition stops (p : Z -> bool) (rest : list Z) : Prop :=
  match rest with [] => True | x :: _ => p x = false end.

Lemma span_app p l rest :
  Forall (fun c => p c = true) l -> stops p rest ->
  takewhile p (l ++ rest) = l /\ dropwhile p (l ++ rest) = rest.
Proof.
  intros Hl Hr. induction Hl as [|x l Hx Hl IH]; cbn.
  - destruct rest as [|y r]; cbn in *; [auto|]. rewrite Hr. auto.
  - rewrite Hx. destruct IH as [-> ->]. auto.
Qed.

Lemma takewhile_forall p l : Forall (fun c => p c = true) (takewhile p l).
Proof.
  induction l as [|x l IH]; cbn; [constructor|].
  destruct (p x) eqn:Hx; [constructor; assumption|constructor].
Qed.

Lemma split_comma_forall (P : Z -> Prop) l : Forall P l -> Forall (Forall P) (split_comma l).
Proof.
  induction 1 as [|x l Hx Hl IH]; cbn.
  - repeat constructor.
  - destruct (x =? 44).
    + constructor; [constructor|assumption].
    + destruct (split_comma l) as [|h t].
      * repeat constructor. assumption.
      * inversion IH; subst. constructor; [constructor; assumption|assumption].
Qed.

Lemma join_comma_clean args : Forall clean args -> clean (join_comma args).
Proof.
  induction 1 as [|a r Ha Hr IH]; cbn; [constructor|].
  destruct r as [|b r']; [assumption|].
  apply clean_app; [assumption|]. apply clean_cons; [reflexivity|assumption].
Qed.

(* ------------------------------------------------------------------------------------------ *)
(* the recogniser accepts every line of the declarative grammar, with the same name / code / arguments *)

Lemma zs_ok : zs "ok" = code_ok. Proof. reflexivity. Qed.
Lemma zs_fail : zs "fail" = code_fail. Proof. reflexivity. Qed.
Lemma zs_invalid : zs "invalid" = code_invalid. Proof. reflexivity. Qed.
Lemma zs_undefined : zs "undefined" = undefined_name. Proof. reflexivity. Qed.

Lemma parse_name_app n rest :
  name_wf n -> stops is_namech rest -> parse_name (n ++ rest) = Some (n, rest).
Proof.
  intros (c & r & -> & Hc & Hr) Hs. cbn.
  apply is_alpha_spec in Hc. rewrite Hc.
  assert (Hr' : Forall (fun x => is_namech x = true) r).
  { rewrite Forall_forall in *. intros x Hx. apply is_namech_spec. auto. }
  destruct (span_app is_namech r rest Hr' Hs) as [-> ->]. reflexivity.
Qed.

Lemma parse_optargs_crlf : parse_optargs [13; 10] = Some None.
Proof. reflexivity. Qed.

Lemma parse_optargs_nil : parse_optargs [] = Some None.
Proof. reflexivity. Qed.

Lemma parse_optargs_args a tail :
  arg_text a -> (tail = [] \/ tail = [13; 10]) -> parse_optargs (44 :: a ++ tail) = Some (Some a).
Proof.
  intros [Hne Ha] Ht. unfold parse_optargs.
  assert (Hnt : is_tail (44 :: a ++ tail) = false) by reflexivity.
  rewrite Hnt. cbn [Z.eqb]. change (44 =? 44) with true. cbn iota.
  assert (Ha' : Forall (fun c => not_crlf c = true) a).
  { rewrite Forall_forall in *. intros x Hx. apply not_crlf_spec. auto. }
  assert (Hs : stops not_crlf tail) by (destruct Ht as [-> | ->]; cbn; auto).
  destruct (span_app not_crlf a tail Ha' Hs) as [-> ->].
  destruct a as [|x a']; [congruence|].
  destruct Ht as [-> | ->]; reflexivity.
Qed.

Lemma parse_code_wf c rest oa :
  code_wf c -> parse_optargs rest = Some oa -> parse_code codes (c ++ rest) = Some (c, oa).
Proof.
  intros Hc Hr. unfold codes. rewrite zs_ok, zs_fail, zs_invalid.
  destruct Hc as [-> | [-> | ->]]; cbn; rewrite Hr; reflexivity.
Qed.

Theorem recogniser_accepts_reply r n c oa :
  reply_line r n c oa -> parse_message r = PMRep n c (args_of oa).
Proof.
  intros H. destruct H as [n c Hn Hc | n c a Hn Hc Ha].
  - cbn [app parse_message]. change (33 =? 33) with true. cbn iota.
    rewrite (parse_name_app n (44 :: c ++ [13; 10]) Hn) by reflexivity.
    change (44 =? 44) with true. cbn iota.
    rewrite (parse_code_wf c [13; 10] None Hc parse_optargs_crlf). reflexivity.
  - cbn [app parse_message]. change (33 =? 33) with true. cbn iota.
    rewrite (parse_name_app n (44 :: c ++ 44 :: a ++ [13; 10]) Hn) by reflexivity.
    change (44 =? 44) with true. cbn iota.
    rewrite (parse_code_wf c (44 :: a ++ [13; 10]) (Some a) Hc).
    + reflexivity.
    + apply parse_optargs_args; auto.
Qed.

Theorem recogniser_accepts_request l n oa :
  request_text l n oa -> parse_message l = PMReq n (args_of oa).
Proof.
  intros H. destruct H as [n Hn | n a Hn Ha].
  - cbn [app parse_message]. change (63 =? 33) with false. change (63 =? 63) with true. cbn iota.
    replace n with (n ++ []) at 1 by apply app_nil_r.
    rewrite (parse_name_app n [] Hn) by exact I.
    rewrite parse_optargs_nil. reflexivity.
  - cbn [app parse_message]. change (63 =? 33) with false. change (63 =? 63) with true. cbn iota.
    rewrite (parse_name_app n (44 :: a) Hn) by reflexivity.
    replace (44 :: a) with (44 :: a ++ []) by (rewrite app_nil_r; reflexivity).
    rewrite parse_optargs_args by auto. reflexivity.
Qed.

(* ------------------------------------------------------------------------------------------ *)
(* what the recogniser returns is well formed: names are names, argument tokens carry no CR / LF *)

Lemma parse_name_wf l n rest : parse_name l = Some (n, rest) -> name_wf n.
Proof.
  destruct l as [|c r]; cbn; [discriminate|].
  destruct (is_alpha c) eqn:Hc; [|discriminate].
  intros H. injection H as <- _. exists c, (takewhile is_namech r). repeat split.
  - apply is_alpha_spec. assumption.
  - pose proof (takewhile_forall is_namech r) as Hf. rewrite Forall_forall in *.
    intros x Hx. apply is_namech_spec. auto.
Qed.

Lemma parse_optargs_clean rest oa : parse_optargs rest = Some oa -> Forall clean (args_of oa).
Proof.
  unfold parse_optargs. destruct (is_tail rest).
  - intros H. injection H as <-. constructor.
  - destruct rest as [|c r]; [discriminate|].
    destruct (c =? 44); [|discriminate].
    destruct (takewhile not_crlf r) as [|x a] eqn:Ha; [discriminate|].
    destruct (is_tail (dropwhile not_crlf r)); [|discriminate].
    intros H. injection H as <-. cbn [args_of].
    apply split_comma_forall. rewrite <- Ha. apply takewhile_forall.
Qed.

Lemma parse_code_clean cs rest c oa :
  parse_code cs rest = Some (c, oa) -> In c cs /\ Forall clean (args_of oa).
Proof.
  induction cs as [|c0 cs IH]; cbn; [discriminate|].
  destruct (strip_prefix c0 rest) as [rest'|].
  - destruct (parse_optargs rest') as [oa'|] eqn:Ho.
    + intros H. injection H as <- <-. split; [left; reflexivity|].
      eapply parse_optargs_clean; eassumption.
    + intros H. apply IH in H. tauto.
  - intros H. apply IH in H. tauto.
Qed.

Theorem parse_message_request_wf l n args :
  parse_message l = PMReq n args -> name_wf n /\ Forall clean args.
Proof.
  unfold parse_message. destruct l as [|t body]; [discriminate|].
  destruct (t =? 33).
  - destruct (parse_name body) as [[name rest]|]; [|discriminate].
    destruct rest as [|c rest']; [discriminate|].
    destruct (c =? 44); [|discriminate].
    destruct (parse_code codes rest') as [[code oa]|]; discriminate.
  - destruct (t =? 63); [|discriminate].
    destruct (parse_name body) as [[name rest]|] eqn:Hn; [|discriminate].
    destruct (parse_optargs rest) as [oa|] eqn:Ho; [|discriminate].
    intros H. injection H as <- <-. split.
    + eapply parse_name_wf; eassumption.
    + eapply parse_optargs_clean; eassumption.
Qed.

Theorem parse_message_reply_wf l n c args :
  parse_message l = PMRep n c args -> name_wf n /\ code_wf c.
Proof.
  unfold parse_message. destruct l as [|t body]; [discriminate|].
  destruct (t =? 33).
  - destruct (parse_name body) as [[name rest]|] eqn:Hn; [|discriminate].
    destruct rest as [|x rest']; [discriminate|].
    destruct (x =? 44); [|discriminate].
    destruct (parse_code codes rest') as [[code oa]|] eqn:Hc; [|discriminate].
    intros H. injection H as <- <- _. split.
    + eapply parse_name_wf; eassumption.
    + apply parse_code_clean in Hc. destruct Hc as [Hin _]. unfold codes in Hin.
      rewrite zs_ok, zs_fail, zs_invalid in Hin. unfold code_wf. cbn in Hin.
      destruct Hin as [<- | [<- | [<- | []]]]; auto.
  - destruct (t =? 63); [|discriminate].
    destruct (parse_name body) as [[name rest]|]; [|discriminate].
    destruct (parse_optargs rest); discriminate.
Qed.

(* ------------------------------------------------------------------------------------------ *)
(* Message.__str__ of a reply is a reply line of the grammar *)

Definition optargs_of (args : list (list Z)) : option (list Z) :=
  match join_comma args with [] => None | a => Some a end.

Theorem reply_str_wf n c args :
  name_wf n -> code_wf c -> Forall clean args ->
  reply_line (reply_str n c args) n c (optargs_of args).
Proof.
  intros Hn Hc Ha. unfold reply_str, optargs_of.
  pose proof (join_comma_clean args Ha) as Hj.
  destruct (join_comma args) as [|x a] eqn:Hjoin.
  - cbn [app]. apply (ReplyNoArgs n c Hn Hc).
  - change (44 :: x :: a) with ([44] ++ (x :: a)).
    apply (ReplyArgs n c (x :: a) Hn Hc). apply clean_arg_text; [assumption|discriminate].
Qed.

(* strip('\r\n') removes every leading and trailing CR / LF and nothing else *)
Lemma dropwhile_clean_head p l : stops p l -> dropwhile p l = l.
Proof. destruct l as [|x r]; cbn; [reflexivity|]. intros ->. reflexivity. Qed.

Lemma strip_crlf_clean l : clean l -> strip_crlf l = l.
Proof.
  intros Hc. unfold strip_crlf.
  assert (H1 : dropwhile is_crlf l = l).
  { apply dropwhile_clean_head. destruct l as [|x r]; cbn; [exact I|].
    inversion Hc; subst. unfold not_crlf in *. destruct (is_crlf x); [discriminate|reflexivity]. }
  rewrite H1.
  assert (H2 : dropwhile is_crlf (rev l) = rev l).
  { apply dropwhile_clean_head. destruct (rev l) as [|x r] eqn:Hr; cbn; [exact I|].
    assert (Hin : In x l) by (apply in_rev; rewrite Hr; left; reflexivity).
    unfold clean in Hc. rewrite Forall_forall in Hc. specialize (Hc x Hin).
    unfold not_crlf in Hc. destruct (is_crlf x); [discriminate|reflexivity]. }
  rewrite H2. apply rev_involutive.
Qed.

Lemma strip_crlf_line l : clean l -> strip_crlf (l ++ [13; 10]) = l.
Proof.
  intros Hc. unfold strip_crlf.
  assert (H1 : dropwhile is_crlf (l ++ [13; 10]) = l ++ [13; 10] \/ l = []).
  { destruct l as [|x r]; [right; reflexivity|left]. cbn.
    inversion Hc; subst. unfold not_crlf in *. destruct (is_crlf x); [discriminate|reflexivity]. }
  destruct H1 as [H1 | ->]; [|reflexivity].
  rewrite H1. rewrite rev_app_distr. cbn [rev app dropwhile].
  change (is_crlf 10) with true. change (is_crlf 13) with true. cbn iota.
  fold (strip_crlf l).
  assert (H2 : dropwhile is_crlf (rev l) = rev l).
  { apply dropwhile_clean_head. destruct (rev l) as [|x r] eqn:Hr; cbn; [exact I|].
    assert (Hin : In x l) by (apply in_rev; rewrite Hr; left; reflexivity).
    unfold clean in Hc. rewrite Forall_forall in Hc. specialize (Hc x Hin).
    unfold not_crlf in Hc. destruct (is_crlf x); [discriminate|reflexivity]. }
  rewrite H2. apply rev_involutive.
Qed.

(* the first character of a stripped line is neither CR nor LF *)
Definition head_ok (l : list Z) : Prop :=
  match l with [] => True | c :: _ => not_crlf c = true end.

Lemma dropwhile_suffix p l : exists pre, l = pre ++ dropwhile p l.
Proof.
  induction l as [|x l [pre IH]]; cbn; [exists []; reflexivity|].
  destruct (p x); [exists (x :: pre); cbn; congruence|exists []; reflexivity].
Qed.

Lemma dropwhile_head p l : stops p (dropwhile p l).
Proof.
  induction l as [|x l IH]; cbn; [exact I|].
  destruct (p x) eqn:Hx; [assumption|cbn; assumption].
Qed.

Lemma strip_head_ok l : head_ok (strip_crlf l).
Proof.
  unfold strip_crlf. set (m := dropwhile is_crlf l).
  destruct (dropwhile_suffix is_crlf (rev m)) as [pre Hpre].
  assert (Hm : m = rev (dropwhile is_crlf (rev m)) ++ rev pre).
  { rewrite <- rev_app_distr, <- Hpre, rev_involutive. reflexivity. }
  pose proof (dropwhile_head is_crlf l) as Hh. fold m in Hh.
  destruct (rev (dropwhile is_crlf (rev m))) as [|c r] eqn:E; [exact I|].
  rewrite Hm in Hh. cbn in Hh. unfold head_ok, not_crlf. rewrite Hh. reflexivity.
Qed.
