(* W-band LO: C05 over interleaved histories (frame property) and the byte-level C04 theorem. *)
From DS Require Import Base.Prelude Model.SmbCommon Model.SmbWLO Proofs.SmbCommon Proofs.SmbWLO.

Lemma wreg_eqb_eq a b : wreg_eqb a b = true <-> a = b.
Proof. destruct a, b; cbn; split; intros H; try reflexivity; try discriminate. Qed.

Section Hist.
  Variable fl : list Z -> wfl.
  Variable cap : list Z -> option (list Z).

  (* ---------------------------------------------------------------- frame *)
  Lemma w_call0_frame d k d' ans r : w_call0 cap d k = Some (d', ans) -> wget d' r = wget d r.
  Proof.
    destruct k as [| |r0|r0| | | | |]; cbn [w_call0]; try (intros E; injection E as <- _; destruct r; reflexivity);
      try discriminate.
    destruct r0; try (intros E; injection E as <- _; reflexivity).
    - destruct (cap (wtext (wrh d))); cbn; [intros E; injection E as <- _; reflexivity | discriminate].
    - destruct (cap (wtext (wrv d))); cbn; [intros E; injection E as <- _; reflexivity | discriminate].
  Qed.

  Lemma w_cmds_frame r cmds : forall d items, existsb (w_cmd_writes r) cmds = false ->
    wget (fst (w_cmds fl cap d items cmds)) r = wget d r.
  Proof.
    induction cmds as [|c rest IH]; intros d items H; cbn [w_cmds]; [reflexivity|].
    cbn [existsb] in H. apply orb_false_iff in H as [Hc Hr]. unfold w_cmd_writes in Hc.
    destruct (split_on 61 c) as [|a0 [|a1 more]]; [apply IH; exact Hr | |].
    - destruct (w_lookup (removelast a0)) as [k|]; [|apply IH; exact Hr].
      destruct k; try reflexivity;
        match goal with
        | |- context [w_call0 cap d ?k] => destruct (w_call0 cap d k) as [[d' ans]|] eqn:Ec; [|reflexivity];
                                           rewrite IH by exact Hr; eapply w_call0_frame; exact Ec
        end.
    - destruct (w_lookup a0) as [k|]; [|apply IH; exact Hr].
      destruct k; try reflexivity.
      assert (Hne : r0 <> r).
      { intros ->. assert (E : wreg_eqb r r = true) by (apply wreg_eqb_eq; reflexivity). congruence. }
      destruct (fl a1); try reflexivity; rewrite IH by exact Hr; apply wget_wset_other; exact Hne.
  Qed.

  Lemma w_lines_frame r ls : forall d, Forall (fun l => w_line_writes r l = false) ls ->
    wget (fst (exec_lines (w_exec fl cap) d ls)) r = wget d r.
  Proof.
    induction ls as [|l ls IH]; intros d H; cbn [exec_lines fst]; [reflexivity|].
    inversion H as [|? ? Hl Hls]; subst. rewrite IH by exact Hls. apply w_cmds_frame. exact Hl.
  Qed.

  (* ---------------------------------------------------------------- the getters *)
  Lemma w_call0_get_render d r : w_call0 cap d (WGet r) = option_map (fun a => (d, a)) (w_render cap r (wget d r)).
  Proof. destruct r; cbn; try reflexivity; [destruct (cap (wtext (wrh d))) | destruct (cap (wtext (wrv d)))]; reflexivity. Qed.

  Lemma w_read_exec d r a : w_render cap r (wget d r) = Some a ->
    w_exec fl cap d (w_read r) = (d, OReply a).
  Proof.
    intros Ha. apply (w_single0 fl cap d (w_read r) (WGet r) d a).
    - destruct r; vm_compute; intuition discriminate.
    - destruct r; vm_compute; intuition discriminate.
    - destruct r; vm_compute; reflexivity.
    - intros r0. discriminate.
    - rewrite w_call0_get_render, Ha. reflexivity.
  Qed.

  Lemma w_read_no_lf r : no_lf (w_read r).
  Proof. destruct r; vm_compute; intuition discriminate. Qed.

  (* ---------------------------------------------------------------- C05 over histories *)
  Lemma w_write_value d r tok v : plain_token tok -> w_value fl tok = Some v ->
    w_exec fl cap d (w_write r tok) = (wset d r v, OReply (ACK ++ CRLF)).
  Proof.
    intros Ht Hv. rewrite w_write_exec by exact Ht. unfold w_value in Hv.
    destruct (fl tok); try discriminate; injection Hv as <-; reflexivity.
  Qed.

  Lemma w_readback d r tok v ls a : plain_token tok -> w_value fl tok = Some v ->
    Forall (fun l => w_line_writes r l = false) ls -> w_render cap r v = Some a ->
    let d2 := fst (exec_lines (w_exec fl cap) (fst (w_exec fl cap d (w_write r tok))) ls) in
    w_exec fl cap d2 (w_read r) = (d2, OReply a).
  Proof.
    intros Ht Hv Hls Ha d2. apply w_read_exec. subst d2.
    rewrite w_lines_frame by exact Hls. rewrite (w_write_value d r tok v Ht Hv). cbn [fst].
    rewrite wget_wset_same. exact Ha.
  Qed.

  Lemma w_write_no_lf r tok : ~ In LF tok -> no_lf (w_write r tok).
  Proof.
    intros Ht Hin. unfold w_write in Hin. apply in_app_or in Hin as [Hin|Hin].
    - revert Hin. destruct r; vm_compute; intuition discriminate.
    - cbn in Hin. destruct Hin as [E|Hin]; [discriminate | exact (Ht Hin)].
  Qed.

  Lemma w_readback_bytes s r tok v ls a : w_idle s = true -> plain_token tok -> ~ In LF tok ->
    w_value fl tok = Some v -> Forall no_lf ls -> Forall (fun l => w_line_writes r l = false) ls ->
    w_render cap r v = Some a ->
    exists s' mid,
      w_run fl cap s (lines_bytes (w_write r tok :: ls) ++ w_read r ++ [LF]) =
        (s', line_outs (w_write r tok) (OReply (ACK ++ CRLF)) ++ mid ++ line_outs (w_read r) (OReply a)).
  Proof.
    intros Hi Ht Hlf Hv Hls Hfr Ha. unfold w_run.
    rewrite lrun_history_then_line;
      [| exact Hi | constructor; [apply w_write_no_lf; exact Hlf | exact Hls] | apply w_read_no_lf].
    cbn [exec_lines fst snd].
    pose proof (w_readback (ldev s) r tok v ls a Ht Hv Hfr Ha) as Hrb. cbn zeta in Hrb. rewrite Hrb.
    cbn [fst snd]. unfold lines_outs. cbn [combine map concat fst snd].
    rewrite (w_write_value (ldev s) r tok v Ht Hv). cbn [snd].
    eexists. eexists. rewrite <- app_assoc. reflexivity.
  Qed.

  (* a line that is answered `True` (nothing recognised) leaves the device unchanged *)
  Lemma w_cmds_items_not_true cmds : forall d items, items <> [] -> snd (w_cmds fl cap d items cmds) <> OTrue.
  Proof.
    induction cmds as [|c rest IH]; intros d items H; cbn [w_cmds].
    - destruct items; [contradiction | cbn; discriminate].
    - destruct (split_on 61 c) as [|a0 [|a1 more]]; [apply IH; exact H | |].
      + destruct (w_lookup (removelast a0)) as [k|]; [|apply IH; exact H].
        destruct k; try (cbn; discriminate);
          match goal with
          | |- context [w_call0 cap d ?k] => destruct (w_call0 cap d k) as [[d' ans]|]; [|cbn; discriminate];
                                             apply IH; destruct items; discriminate
          end.
      + destruct (w_lookup a0) as [k|]; [|apply IH; exact H].
        destruct k; try (cbn; discriminate).
        destruct (fl a1); try (cbn; discriminate); apply IH; destruct items; discriminate.
  Qed.

  Lemma w_cmds_true cmds : forall d items d', w_cmds fl cap d items cmds = (d', OTrue) -> d' = d.
  Proof.
    induction cmds as [|c rest IH]; intros d items d' H; cbn [w_cmds] in H; [congruence|].
    destruct (split_on 61 c) as [|a0 [|a1 more]]; [eapply IH; exact H | |].
    - destruct (w_lookup (removelast a0)) as [k|]; [|eapply IH; exact H].
      destruct k; try discriminate;
        match type of H with
        | context [w_call0 cap d ?k] => destruct (w_call0 cap d k) as [[d1 ans]|]; [|discriminate];
            exfalso; eapply (w_cmds_items_not_true rest); [|rewrite H; reflexivity]; destruct items; discriminate
        end.
    - destruct (w_lookup a0) as [k|]; [|eapply IH; exact H].
      destruct k; try discriminate.
      destruct (fl a1); try discriminate;
        (exfalso; eapply (w_cmds_items_not_true rest); [|rewrite H; reflexivity]; destruct items; discriminate).
  Qed.

  Lemma w_silent_unchanged d l d' : w_exec fl cap d l = (d', OTrue) -> d' = d.
  Proof. apply w_cmds_true. Qed.
End Hist.

(* ================================================================ C04 at byte level *)
Definition text_ok (s : list Z) : Prop := forall x, In x s -> byte x /\ x <> LF /\ x <> SEMI.
Definition wdev_ok (d : wdev) : Prop := forall r, text_ok (wtext (wget d r)).
Definition item_ok (i : list Z) : Prop := exists body, i = body ++ CRLF /\ text_ok body.

Lemma text_ok_app a b : text_ok a -> text_ok b -> text_ok (a ++ b).
Proof. intros Ha Hb x Hx. apply in_app_or in Hx as [Hx|Hx]; auto. Qed.

Lemma text_ok_lit l : forallb (fun x => byteb x && negb (x =? LF) && negb (x =? SEMI)) l = true -> text_ok l.
Proof.
  intros H x Hx. rewrite forallb_forall in H. specialize (H x Hx).
  apply andb_true_iff in H as [H H3]. apply andb_true_iff in H as [H1 H2].
  apply byteb_spec in H1. repeat split; try exact (proj1 H1); try exact (proj2 H1);
    intros ->; discriminate.
Qed.

Lemma removelast_in {A} (l : list A) x : In x (removelast l) -> In x l.
Proof.
  induction l as [|a l IH]; [intros []|]. cbn. destruct l as [|b l]; [intros []|].
  intros [<-|H]; [left; reflexivity | right; apply IH; exact H].
Qed.

Lemma split_by_piece_nosep p s : forall piece x, In piece (split_by p s) -> In x piece -> p x = false.
Proof.
  induction s as [|a s IH]; intros piece x Hp Hx; cbn in Hp.
  - destruct Hp as [<-|[]]. destruct Hx.
  - destruct (p a) eqn:Ea.
    + destruct Hp as [<-|Hp]; [destruct Hx | eapply IH; eauto].
    + destruct (split_by p s) as [|h tl] eqn:Es.
      * destruct Hp as [<-|[]]. destruct Hx as [<-|[]]. exact Ea.
      * destruct Hp as [<-|Hp].
        -- destruct Hx as [<-|Hx]; [exact Ea | apply (IH h x); [left; reflexivity | exact Hx]].
        -- apply (IH piece x); [right; exact Hp | exact Hx].
Qed.

Lemma split_by_piece_in p s : forall piece x, In piece (split_by p s) -> In x piece -> In x s.
Proof.
  induction s as [|a s IH]; intros piece x Hp Hx; cbn in Hp.
  - destruct Hp as [<-|[]]. destruct Hx.
  - destruct (p a).
    + destruct Hp as [<-|Hp]; [destruct Hx | right; eapply IH; eauto].
    + destruct (split_by p s) as [|h tl] eqn:Es.
      * destruct Hp as [<-|[]]. destruct Hx as [<-|[]]. left; reflexivity.
      * destruct Hp as [<-|Hp].
        -- destruct Hx as [<-|Hx]; [left; reflexivity | right; apply (IH h x); [left; reflexivity | exact Hx]].
        -- right. apply (IH piece x); [right; exact Hp | exact Hx].
Qed.

Lemma ends_crlf_item body : (forall x, In x body -> x <> LF) -> ends_crlf (body ++ CRLF) = true.
Proof.
  induction body as [|x b IH]; intros H; [reflexivity|].
  cbn [app ends_crlf]. destruct (zlist_eqb (x :: b ++ CRLF) CRLF); [reflexivity|].
  assert (Hx : x <> LF) by (apply H; left; reflexivity).
  destruct (x =? LF) eqn:E; [apply Z.eqb_eq in E; contradiction|]. cbn [negb andb].
  apply IH. intros y Hy. apply H. right. exact Hy.
Qed.

Lemma item_ok_facts i : item_ok i -> ~ In SEMI i /\ bytes i /\ ends_crlf i = true.
Proof.
  intros (body & -> & Hb). repeat split.
  - intros Hin. apply in_app_or in Hin as [Hin|Hin]; [apply Hb in Hin; tauto | revert Hin; vm_compute; intuition discriminate].
  - unfold bytes. apply Forall_app. split; [apply Forall_forall; intros x Hx; apply Hb; exact Hx | apply bytesb_spec; reflexivity].
  - apply ends_crlf_item. intros x Hx. apply Hb. exact Hx.
Qed.

Lemma items_reply_wf items : items <> [] -> Forall item_ok items -> w_reply_wfb (join_semi items) = true.
Proof.
  intros Hne H. unfold w_reply_wfb.
  assert (Hs : split_on SEMI (join_semi items) = items).
  { apply split_join_semi; [exact Hne|]. eapply Forall_impl; [|exact H]. intros i Hi. apply item_ok_facts. exact Hi. }
  apply andb_true_iff. split.
  - rewrite Hs. apply forallb_forall. rewrite Forall_forall in H. intros i Hi. apply item_ok_facts. auto.
  - apply bytesb_spec. apply (split_by_bytes_inv (Z.eqb SEMI)).
    + intros x E. apply Z.eqb_eq in E. subst x. unfold SEMI, byte. lia.
    + fold (split_on SEMI (join_semi items)). rewrite Hs. eapply Forall_impl; [|exact H].
      intros i Hi. apply item_ok_facts. exact Hi.
Qed.

Section Replies.
  Variable fl : list Z -> wfl.
  Variable cap : list Z -> option (list Z).
  (* repr(float) is plain ASCII; capitalize() stays within latin-1 and adds no separator: the second
     hypothesis is exactly what the known finding wlo_ref_capitalize_non_latin1 violates *)
  Hypothesis fl_ok : forall tok rp, fl tok = WFloat rp -> text_ok rp.
  Hypothesis cap_ok : forall s c, cap s = Some c -> text_ok s -> text_ok c.

  Lemma w_call0_ok d k d' ans : wdev_ok d -> w_call0 cap d k = Some (d', ans) -> wdev_ok d' /\ item_ok ans.
  Proof.
    intros Hd. pose proof (Hd RFH) as H1. pose proof (Hd RFV) as H2. pose proof (Hd RAH) as H3.
    pose proof (Hd RAV) as H4. pose proof (Hd RRH) as H5. pose proof (Hd RRV) as H6. cbn [wget] in *.
    assert (Hl : forall l, forallb (fun x => byteb x && negb (x =? LF) && negb (x =? SEMI)) l = true -> text_ok l)
      by exact text_ok_lit.
    destruct k as [| |r0|r0| | | | |]; cbn [w_call0]; try discriminate.
    - intros E; injection E as <- <-. split; [intros r; destruct r; assumption|].
      exists ACK. split; [reflexivity | apply Hl; reflexivity].
    - intros E; injection E as <- <-. split; [intros r; destruct r; assumption|].
      exists ACK. split; [reflexivity | apply Hl; reflexivity].
    - destruct r0.
      + intros E; injection E as <- <-. split; [exact Hd|]. exists (wtext (wfh d) ++ W_MHZ).
        split; [rewrite <- app_assoc; reflexivity | apply text_ok_app; [exact H1 | apply Hl; reflexivity]].
      + intros E; injection E as <- <-. split; [exact Hd|]. exists (wtext (wfv d) ++ W_MHZ).
        split; [rewrite <- app_assoc; reflexivity | apply text_ok_app; [exact H2 | apply Hl; reflexivity]].
      + intros E; injection E as <- <-. split; [exact Hd|]. exists (wtext (wah d) ++ W_DB).
        split; [rewrite <- app_assoc; reflexivity | apply text_ok_app; [exact H3 | apply Hl; reflexivity]].
      + intros E; injection E as <- <-. split; [exact Hd|]. exists (wtext (wav d) ++ W_DB).
        split; [rewrite <- app_assoc; reflexivity | apply text_ok_app; [exact H4 | apply Hl; reflexivity]].
      + destruct (cap (wtext (wrh d))) as [c|] eqn:Ec; cbn; [|discriminate].
        intros E; injection E as <- <-. split; [exact Hd|]. exists (c ++ [46]).
        split; [rewrite <- app_assoc; reflexivity | apply text_ok_app; [eapply cap_ok; eauto | apply Hl; reflexivity]].
      + destruct (cap (wtext (wrv d))) as [c|] eqn:Ec; cbn; [|discriminate].
        intros E; injection E as <- <-. split; [exact Hd|]. exists (c ++ [46]).
        split; [rewrite <- app_assoc; reflexivity | apply text_ok_app; [eapply cap_ok; eauto | apply Hl; reflexivity]].
    - intros E; injection E as <- <-. split; [exact Hd|].
      exists (wtext (wfh d) ++ W_MHZ ++ [44] ++ wtext (wfv d) ++ W_MHZ).
      split; [rewrite <- !app_assoc; reflexivity|].
      repeat apply text_ok_app; auto; apply Hl; reflexivity.
    - intros E; injection E as <- <-. split; [exact Hd|].
      exists (wtext (wah d) ++ W_DB ++ [44] ++ wtext (wav d) ++ W_DB).
      split; [rewrite <- !app_assoc; reflexivity|].
      repeat apply text_ok_app; auto; apply Hl; reflexivity.
    - intros E; injection E as <- <-. split; [exact Hd|]. exists W_SYNTH. split; [reflexivity | apply Hl; reflexivity].
    - intros E; injection E as <- <-. split; [exact Hd|]. exists W_HKP. split; [reflexivity | apply Hl; reflexivity].
    - intros E; injection E as <- <-. split; [exact Hd|]. exists W_STATUS. split; [reflexivity | apply Hl; reflexivity].
  Qed.

  Lemma wset_ok d r v : wdev_ok d -> text_ok (wtext v) -> wdev_ok (wset d r v).
  Proof.
    intros Hd Hv r'. destruct r, r'; cbn; try exact Hv;
      first [exact (Hd RFH) | exact (Hd RFV) | exact (Hd RAH) | exact (Hd RAV) | exact (Hd RRH) | exact (Hd RRV)].
  Qed.

  Definition line_ok (l : list Z) : Prop := forall x, In x l -> byte x /\ x <> LF.

  Lemma w_cmds_ok cmds : forall d items, wdev_ok d -> Forall item_ok items ->
    (forall c, In c cmds -> text_ok c) ->
    wdev_ok (fst (w_cmds fl cap d items cmds)) /\
    forall r, snd (w_cmds fl cap d items cmds) = OReply r -> w_reply_wfb r = true.
  Proof.
    assert (Hack : item_ok (ACK ++ CRLF)).
    { exists ACK. split; [reflexivity | apply text_ok_lit; reflexivity]. }
    induction cmds as [|c rest IH]; intros d items Hd Hitems Hc; cbn [w_cmds].
    - split; [exact Hd|]. destruct items as [|i items]; [discriminate|]. cbn [nonempty snd].
      intros r E; injection E as <-. apply items_reply_wf; [discriminate | exact Hitems].
    - assert (Hrest : forall c', In c' rest -> text_ok c') by (intros c' H; apply Hc; right; exact H).
      assert (Hcc : text_ok c) by (apply Hc; left; reflexivity).
      destruct (split_on 61 c) as [|a0 [|a1 more]] eqn:Es; [apply IH; assumption | |].
      + destruct (w_lookup (removelast a0)) as [k|]; [|apply IH; assumption].
        destruct k; try (split; [exact Hd | discriminate]);
          match goal with
          | |- context [w_call0 cap d ?k] =>
              destruct (w_call0 cap d k) as [[d' ans]|] eqn:Ec; [|split; [exact Hd | discriminate]];
              destruct (w_call0_ok d k d' ans Hd Ec) as [Hd' Ha]; apply IH; auto;
              apply Forall_app; split; [exact Hitems | constructor; [exact Ha | constructor]]
          end.
      + destruct (w_lookup a0) as [k|]; [|apply IH; assumption].
        destruct k; try (split; [exact Hd | discriminate]).
        assert (Ha1 : text_ok a1).
        { intros x Hx. apply Hcc. eapply (split_by_piece_in (Z.eqb 61) c a1 x); [|exact Hx].
          unfold split_on in Es. rewrite Es. right. left. reflexivity. }
        destruct (fl a1) as [rp| |] eqn:Ef; [| |split; [exact Hd | discriminate]].
        * apply IH; auto; [apply wset_ok; [exact Hd | cbn; eapply fl_ok; eauto] |
                           apply Forall_app; split; [exact Hitems | constructor; [exact Hack | constructor]]].
        * apply IH; auto; [apply wset_ok; [exact Hd | cbn; intros x Hx; apply Ha1; apply removelast_in; exact Hx] |
                           apply Forall_app; split; [exact Hitems | constructor; [exact Hack | constructor]]].
  Qed.

  Lemma w_exec_ok d l : wdev_ok d -> line_ok l ->
    wdev_ok (fst (w_exec fl cap d l)) /\ forall r, snd (w_exec fl cap d l) = OReply r -> w_reply_wfb r = true.
  Proof.
    intros Hd Hl. unfold w_exec. apply w_cmds_ok; [exact Hd | constructor |].
    intros c Hc x Hx. destruct (Hl x (split_by_piece_in (Z.eqb SEMI) l c x Hc Hx)) as [H1 H2].
    repeat split; try exact (proj1 H1); try exact (proj2 H1); [exact H2|].
    intros ->. pose proof (split_by_piece_nosep (Z.eqb SEMI) l c SEMI Hc Hx) as E. discriminate.
  Qed.

  Lemma w_init_ok : wdev_ok w_init.
  Proof. intros r; destruct r; cbn; apply text_ok_lit; reflexivity. Qed.

  Definition w_sinv (s : w_state) : Prop := line_ok (lmsg s) /\ wdev_ok (ldev s).

  Lemma w_step_ok s b : w_sinv s -> byte b ->
    w_sinv (fst (w_step fl cap s b)) /\ forall r, snd (w_step fl cap s b) = OReply r -> w_reply_wfb r = true.
  Proof.
    intros [Hm Hd] Hb. unfold w_step, lstep. destruct (b =? LF) eqn:E; cbn [fst snd].
    - destruct (w_exec_ok (ldev s) (lmsg s) Hd Hm) as [H1 H2]. split; [split; [intros x []| exact H1] | exact H2].
    - split; [|discriminate]. split; [|exact Hd]. cbn [lmsg]. intros x Hx.
      apply in_app_or in Hx as [Hx|[<-|[]]]; [apply Hm; exact Hx|]. split; [exact Hb | intros ->; discriminate].
  Qed.

  Lemma w_run_ok bs : forall s, w_sinv s -> bytes bs ->
    forall r, In (OReply r) (snd (w_run fl cap s bs)) -> w_reply_wfb r = true.
  Proof.
    induction bs as [|b bs IH]; intros s Hs Hb r; cbn [w_run lrun snd]; [intros []|].
    inversion Hb as [|? ? Hb1 Hb2]; subst. destruct (w_step_ok s b Hs Hb1) as [H1 H2].
    intros [E|Hin]; [apply H2; exact E | eapply IH; eauto].
  Qed.

  Lemma w_replies_wf bs r : bytes bs -> In (OReply r) (snd (w_run fl cap w_start bs)) -> w_reply_wfb r = true.
  Proof. intros Hb. apply w_run_ok; [split; [intros x [] | apply w_init_ok] | exact Hb]. Qed.
End Replies.

Lemma w_reply_wf_shape r : w_reply_wfb r = true -> bytes r.
Proof. unfold w_reply_wfb. intros H. apply andb_true_iff in H as [_ H]. apply bytesb_spec. exact H. Qed.
