(* Lemmas about the solar attenuator model (Model/SmbSolar.v). *)
From DS Require Import Base.Prelude Model.SmbCommon Model.SmbSolar Proofs.SmbCommon.

(* device invariant: the mode is one of the four strings the code can store, home is 1 *)
Definition solar_inv (d : sdev) : Prop := In (mode d) solar_modes /\ home d = 1.

Lemma solar_init_inv : solar_inv solar_init.
Proof. split; [left; reflexivity | reflexivity]. Qed.

Lemma solar_apply_inv d k : solar_inv d -> solar_inv (fst (solar_apply d k)).
Proof.
  intros [Hm Hh]. destruct k; cbn; split; auto; unfold solar_modes; cbn; auto.
Qed.

Lemma solar_cmds_inv cmds : forall d items, solar_inv d -> solar_inv (fst (solar_cmds d items cmds)).
Proof.
  induction cmds as [|c r IH]; intros d items H; cbn [solar_cmds].
  - exact H.
  - destruct (cmd_name2 (split_ws c)) as [n|]; [|apply IH; exact H].
    destruct (solar_lookup n) as [k|]; [|exact H].
    apply IH. apply solar_apply_inv. exact H.
Qed.

Lemma solar_exec_inv d l : solar_inv d -> solar_inv (fst (solar_exec d l)).
Proof. apply solar_cmds_inv. Qed.

(* ---------------------------------------------------------------- silent lines *)
Lemma solar_cmds_items_not_true cmds : forall d items, items <> [] ->
  snd (solar_cmds d items cmds) <> OTrue.
Proof.
  induction cmds as [|c r IH]; intros d items H; cbn [solar_cmds].
  - destruct items; [contradiction | cbn; discriminate].
  - destruct (cmd_name2 (split_ws c)) as [n|]; [|apply IH; exact H].
    destruct (solar_lookup n) as [k|]; [|cbn; discriminate].
    apply IH. destruct items; discriminate.
Qed.

(* no reply and no exception: nothing was executed *)
Lemma solar_cmds_true cmds : forall d items d', solar_cmds d items cmds = (d', OTrue) -> d' = d.
Proof.
  induction cmds as [|c r IH]; intros d items d' H; cbn [solar_cmds] in H.
  - congruence.
  - destruct (cmd_name2 (split_ws c)) as [n|]; [|eapply IH; exact H].
    destruct (solar_lookup n) as [k|]; [|discriminate].
    exfalso. eapply (solar_cmds_items_not_true r); [|rewrite H; reflexivity].
    destruct items; discriminate.
Qed.

Lemma solar_silent_unchanged d l d' : solar_exec d l = (d', OTrue) -> d' = d.
Proof. apply solar_cmds_true. Qed.

(* a line none of whose ';'-pieces has two tokens is discarded without effect *)
Lemma solar_cmds_noise cmds : forall d items,
  Forall (fun c => cmd_name2 (split_ws c) = None) cmds ->
  solar_cmds d items cmds = (d, if nonempty items then OReply (join_semi items) else OTrue).
Proof.
  induction cmds as [|c r IH]; intros d items H; cbn [solar_cmds]; [reflexivity|].
  inversion H as [|? ? Hc Hr]; subst. rewrite Hc. apply IH. exact Hr.
Qed.

Lemma solar_noise_line d l :
  Forall (fun c => cmd_name2 (split_ws c) = None) (split_on SEMI l) -> solar_exec d l = (d, OTrue).
Proof. intros H. unfold solar_exec. rewrite solar_cmds_noise by exact H. reflexivity. Qed.

(* ---------------------------------------------------------------- single-command lines *)
Lemma solar_single d c n k : ~ In SEMI c -> cmd_name2 (split_ws c) = Some n -> solar_lookup n = Some k ->
  solar_exec d c = (fst (solar_apply d k), OReply (snd (solar_apply d k))).
Proof.
  intros Hs Hn Hk. unfold solar_exec. rewrite nosemi_split by exact Hs. cbn [solar_cmds].
  rewrite Hn, Hk. cbn [app nonempty]. rewrite join_semi_single. reflexivity.
Qed.

Lemma solar_single_refused d c d' o : ~ In SEMI c -> solar_exec d c = (d', o) -> is_reply o = false -> d' = d.
Proof.
  intros Hs H Ho. unfold solar_exec in H. rewrite nosemi_split in H by exact Hs. cbn [solar_cmds] in H.
  destruct (cmd_name2 (split_ws c)) as [n|]; [|congruence].
  destruct (solar_lookup n) as [k|]; [|congruence].
  cbn in H. injection H as <- <-. discriminate.
Qed.

(* ---------------------------------------------------------------- queries *)
Lemma solar_query d q : In q solar_queries -> solar_exec d q = (d, OReply (mode d ++ CRLF)).
Proof.
  intros [<-|[<-|[]]].
  - rewrite (solar_single d _ GET_MODE SGetMode); [reflexivity | | reflexivity | reflexivity].
    vm_compute. intuition discriminate.
  - rewrite (solar_single d _ GET_MODE SGetMode); [reflexivity | | reflexivity | reflexivity].
    vm_compute. intuition discriminate.
Qed.

Lemma solar_queries_no_lf q : In q solar_queries -> no_lf q.
Proof. intros [<-|[<-|[]]]; vm_compute; intuition discriminate. Qed.

(* ---------------------------------------------------------------- writes and the frame property *)
Lemma solar_write d w m : In (w, m) solar_mode_writes ->
  solar_exec d (w ++ [CR]) = (mkS m (home d), OReply (ACK ++ CRLF)).
Proof.
  intros [E|[E|[E|[]]]]; injection E as <- <-.
  - rewrite (solar_single d _ SET_ATTN SAttn); [reflexivity | | reflexivity | reflexivity].
    vm_compute. intuition discriminate.
  - rewrite (solar_single d _ SET_CAL SCal); [reflexivity | | reflexivity | reflexivity].
    vm_compute. intuition discriminate.
  - rewrite (solar_single d _ SET_PASS SPass); [reflexivity | | reflexivity | reflexivity].
    vm_compute. intuition discriminate.
Qed.

Lemma solar_cmds_mode_frame cmds : forall d items, existsb solar_cmd_writes_mode cmds = false ->
  mode (fst (solar_cmds d items cmds)) = mode d.
Proof.
  induction cmds as [|c r IH]; intros d items H; cbn [solar_cmds]; [reflexivity|].
  cbn [existsb] in H. apply orb_false_iff in H as [Hc Hr]. unfold solar_cmd_writes_mode in Hc.
  destruct (cmd_name2 (split_ws c)) as [n|]; [|apply IH; exact Hr].
  destruct (solar_lookup n) as [k|]; [|reflexivity].
  rewrite IH by exact Hr. destruct k; try discriminate; reflexivity.
Qed.

Lemma solar_exec_mode_frame d l : solar_line_writes_mode l = false -> mode (fst (solar_exec d l)) = mode d.
Proof. apply solar_cmds_mode_frame. Qed.

Lemma solar_lines_mode_frame ls : forall d, Forall (fun l => solar_line_writes_mode l = false) ls ->
  mode (fst (exec_lines solar_exec d ls)) = mode d.
Proof.
  induction ls as [|l ls IH]; intros d H; cbn [exec_lines fst]; [reflexivity|].
  inversion H as [|? ? Hl Hls]; subst. rewrite IH by exact Hls. apply solar_exec_mode_frame. exact Hl.
Qed.

(* acknowledged write, then any history of lines without a mode-writing command, then read back *)
Lemma solar_readback d w m ls : In (w, m) solar_mode_writes ->
  Forall (fun l => solar_line_writes_mode l = false) ls ->
  let d2 := fst (exec_lines solar_exec (fst (solar_exec d (w ++ [CR]))) ls) in
  solar_exec d2 (GET_MODE ++ [CR]) = (d2, OReply (m ++ CRLF)).
Proof.
  intros Hw Hls d2. rewrite solar_query by (left; reflexivity).
  subst d2. rewrite solar_lines_mode_frame by exact Hls. rewrite (solar_write d w m Hw). reflexivity.
Qed.

(* ---------------------------------------------------------------- reply shape *)
Lemma solar_apply_item_ok d k : solar_inv d -> solar_item_okb (snd (solar_apply d k)) = true.
Proof.
  intros [Hm _]. destruct k; cbn [solar_apply snd]; try reflexivity.
  unfold solar_modes in Hm. cbn in Hm.
  destruct Hm as [<-|[<-|[<-|[<-|[]]]]]; reflexivity.
Qed.

Lemma solar_item_ok_nosemi i : solar_item_okb i = true -> ~ In SEMI i.
Proof.
  unfold solar_item_okb. rewrite existsb_exists. intros (x & Hx & E). apply zlist_eqb_eq in E. subst x.
  cbn in Hx. destruct Hx as [<-|[<-|[<-|[<-|[<-|[]]]]]]; vm_compute; intuition discriminate.
Qed.

Lemma solar_cmds_reply cmds : forall d items d' r, solar_inv d ->
  Forall (fun i => solar_item_okb i = true) items ->
  solar_cmds d items cmds = (d', OReply r) ->
  exists items', items' <> [] /\ r = join_semi items' /\ Forall (fun i => solar_item_okb i = true) items'.
Proof.
  induction cmds as [|c rest IH]; intros d items d' r Hinv Hitems H; cbn [solar_cmds] in H.
  - destruct items as [|i items]; [discriminate|]. cbn in H. injection H as _ <-.
    exists (i :: items). split; [discriminate | split; [reflexivity | exact Hitems]].
  - destruct (cmd_name2 (split_ws c)) as [n|]; [|eapply IH; eauto].
    destruct (solar_lookup n) as [k|]; [|discriminate].
    eapply IH; [| |exact H].
    + apply solar_apply_inv; exact Hinv.
    + apply Forall_app. split; [exact Hitems|]. constructor; [|constructor].
      apply solar_apply_item_ok; exact Hinv.
Qed.

Lemma solar_reply_wf d l d' r : solar_inv d -> solar_exec d l = (d', OReply r) -> solar_reply_wfb r = true.
Proof.
  intros Hinv H. destruct (solar_cmds_reply _ _ _ _ _ Hinv (Forall_nil _) H) as (items & Hne & -> & Hok).
  unfold solar_reply_wfb. rewrite split_join_semi; [| exact Hne |].
  - apply forallb_forall. rewrite Forall_forall in Hok. exact Hok.
  - eapply Forall_impl; [|exact Hok]. intros i. apply solar_item_ok_nosemi.
Qed.

(* what the decoder guarantees: CR LF at the end, single-byte code points *)
Lemma solar_item_ok_shape i : solar_item_okb i = true -> bytes i /\ exists body, i = body ++ CRLF.
Proof.
  unfold solar_item_okb. rewrite existsb_exists. intros (x & Hx & E). apply zlist_eqb_eq in E. subst x.
  unfold solar_modes in Hx. cbn [map In] in Hx. destruct Hx as [<-|[<-|[<-|[<-|[<-|[]]]]]].
  all: split; [apply bytesb_spec; reflexivity | eexists; reflexivity].
Qed.

Lemma solar_reply_wf_shape r : solar_reply_wfb r = true ->
  bytes r /\ exists body, r = body ++ CRLF.
Proof.
  unfold solar_reply_wfb. intros H. rewrite forallb_forall in H. split.
  - apply (split_by_bytes_inv (Z.eqb SEMI)).
    + intros x E. apply Z.eqb_eq in E. subst x. unfold SEMI, byte. lia.
    + apply Forall_forall. intros i Hi. apply solar_item_ok_shape. apply H. exact Hi.
  - destruct (split_by_last_suffix (Z.eqb SEMI) r) as (pre & lst & E & front & Ef).
    destruct (solar_item_ok_shape lst) as [_ [body Hb]].
    + apply H. unfold split_on. rewrite E. apply in_or_app. right. left. reflexivity.
    + exists (front ++ body). rewrite Ef, Hb. apply app_assoc.
Qed.

(* ---------------------------------------------------------------- statements used by Properties *)
Lemma solar_noise_discarded s l : solar_idle s = true -> no_lf l ->
  Forall (fun c => cmd_name2 (split_ws c) = None) (split_on SEMI l) ->
  solar_run s (l ++ [LF]) = (s, line_outs l OTrue).
Proof. intros Hi Hl H. apply lrun_discarded; auto. apply solar_noise_line. exact H. Qed.

Lemma solar_reach_inv s : lreach solar_exec solar_start s -> solar_inv (ldev s).
Proof. apply (lreach_inv solar_exec solar_inv); [apply solar_exec_inv | apply solar_init_inv]. Qed.

Lemma solar_answered s q : solar_idle s = true -> In q solar_queries ->
  solar_run s (q ++ [LF]) = (s, line_outs q (OReply (mode (ldev s) ++ CRLF))).
Proof.
  intros Hi Hq. unfold solar_run. rewrite lrun_line_idle by (auto using solar_queries_no_lf).
  rewrite solar_query by exact Hq. cbn [fst snd]. rewrite <- (lidle_msg s Hi). reflexivity.
Qed.

Lemma solar_answered_wf s q : lreach solar_exec solar_start s -> In q solar_queries ->
  solar_reply_wfb (mode (ldev s) ++ CRLF) = true.
Proof.
  intros Hr Hq. apply (solar_reply_wf (ldev s) q (ldev s)).
  - apply solar_reach_inv; exact Hr.
  - apply solar_query; exact Hq.
Qed.

Lemma solar_step_reply_wf s b s' r : lreach solar_exec solar_start s ->
  solar_step s b = (s', OReply r) -> solar_reply_wfb r = true /\ b = LF.
Proof.
  intros Hr H. unfold solar_step, lstep in H. destruct (b =? LF) eqn:E; [|discriminate].
  split; [|lia]. injection H as _ H.
  apply (solar_reply_wf (ldev s) (lmsg s) (fst (solar_exec (ldev s) (lmsg s)))).
  - apply solar_reach_inv; exact Hr.
  - rewrite <- H. apply surjective_pairing.
Qed.

Lemma solar_readback_bytes s w m ls : solar_idle s = true -> In (w, m) solar_mode_writes ->
  Forall no_lf ls -> Forall (fun l => solar_line_writes_mode l = false) ls ->
  exists s' pre,
    solar_run s (lines_bytes ((w ++ [CR]) :: ls) ++ (GET_MODE ++ [CR]) ++ [LF]) =
      (s', pre ++ line_outs (GET_MODE ++ [CR]) (OReply (m ++ CRLF)))
    /\ nth 0 (skipn (length w + 1) pre) OFalse = OReply (ACK ++ CRLF).
Proof.
  intros Hi Hw Hls Hfr. unfold solar_run.
  assert (Hw_lf : no_lf (w ++ [CR])).
  { destruct Hw as [E|[E|[E|[]]]]; injection E as <- <-; vm_compute; intuition discriminate. }
  rewrite lrun_history_then_line; [| exact Hi | constructor; assumption | vm_compute; intuition discriminate].
  cbn [exec_lines fst snd].
  pose proof (solar_readback (ldev s) w m ls Hw Hfr) as Hrb. cbn zeta in Hrb. rewrite Hrb.
  cbn [fst snd]. eexists. eexists. split; [reflexivity|].
  unfold lines_outs. cbn [combine map concat fst snd]. rewrite (solar_write (ldev s) w m Hw). cbn [snd].
  unfold line_outs. rewrite <- app_assoc. rewrite app_length. cbn [length].
  rewrite skipn_app, skipn_all2 by (rewrite repeat_length; lia).
  rewrite repeat_length. replace (length w + 1 - (length w + 1))%nat with 0%nat by lia. reflexivity.
Qed.

Lemma solar_partial_line_refuted : exists d l d',
  solar_exec d l = (d', OException TypeError) /\ mode d' <> mode d.
Proof.
  exists solar_init, (SET_CAL ++ [SEMI] ++ [102; 111; 111; 32; 98; 97; 114; 13]), (mkS CALIBRATOR 1).
  split; [vm_compute; reflexivity | vm_compute; discriminate].
Qed.

Lemma solar_answered_after_history bs q : In q solar_queries ->
  let s := fst (solar_run solar_start (bs ++ [LF])) in
  snd (solar_run s (q ++ [LF])) = line_outs q (OReply (mode (ldev s) ++ CRLF)).
Proof.
  intros Hq s. rewrite (solar_answered s q (lresync solar_exec solar_start bs) Hq). reflexivity.
Qed.
