(* C05, receiver part: set/get pairs of a board -- frame size, address, port/data map, DIO bits of the
   Dewar and Switch boards.  Acknowledged writes read back until the next acknowledged write of the same
   quantity; refused writes change nothing but the inquiry record. *)
From DS Require Import Base.Prelude Gen.RcvTables Model.RcvModel Proofs.RcvAssoc Proofs.RcvProofs Proofs.RcvBoards Proofs.RcvFraming.

#[local] Arguments mem : simpl never.

(* ---- keys of the port map ---- *)
Lemma key_eqb_eq a b : key_eqb a b = true <-> a = b.
Proof.
  destruct a as [[a1 a2] a3], b as [[b1 b2] b3]. unfold key_eqb. rewrite !andb_true_iff, !Z.eqb_eq.
  split; [intros [[-> ->] ->]; reflexivity|intros H; injection H as -> -> ->; auto].
Qed.

Lemma kget_kset_eq {V} (l : list (key * V)) k v : aget key_eqb (aset key_eqb l k v) k = Some v.
Proof.
  assert (Hr : key_eqb k k = true) by (apply key_eqb_eq; reflexivity).
  induction l as [|[k' v'] r IH]; cbn; [rewrite Hr; reflexivity|].
  destruct (key_eqb k k') eqn:E; cbn; [rewrite E; reflexivity|rewrite E; exact IH].
Qed.

Lemma kget_kset_other {V} (l : list (key * V)) k k' v : k' <> k ->
  aget key_eqb (aset key_eqb l k v) k' = aget key_eqb l k'.
Proof.
  intros Hne. assert (Hf : key_eqb k' k = false).
  { destruct (key_eqb k' k) eqn:E; [apply key_eqb_eq in E; contradiction|reflexivity]. }
  induction l as [|[k2 v2] r IH]; cbn; [rewrite Hf; reflexivity|].
  destruct (key_eqb k k2) eqn:E; cbn.
  - apply key_eqb_eq in E. subst k2. rewrite Hf. reflexivity.
  - destruct (key_eqb k' k2); [reflexivity|exact IH].
Qed.

Definition key_of_params (p : list Z) : option key :=
  match p with dt :: pt :: pn :: _ => Some (dt, pt, pn) | _ => None end.

(* the inquiry record and the clock are excluded from "nothing changes": the protocol records refused
   commands too *)
Definition mask_last (b : board) : board :=
  let c := b_com b in
  mkBoard (mkCommon (c_addr c) (c_ports c) (c_frame c) (c_offset c) None 0 0 0) (b_kind b).

Definition is_write (k : cmdk) : bool :=
  match k with KSetAddr | KSetTime | KSetFrame | KSetPort | KSetData => true | _ => false end.

(* ---- DIO bits ---- *)
Definition alias (pn pn' : Z) : Prop :=
  (pn = PORT_NUMBER_11 /\ pn' = PORT_NUMBER_12) \/ (pn = PORT_NUMBER_12 /\ pn' = PORT_NUMBER_11).

Lemma alias_dec pn pn' : alias pn pn' \/ ~ alias pn pn'.
Proof.
  unfold alias. destruct (Z.eq_dec pn PORT_NUMBER_11), (Z.eq_dec pn' PORT_NUMBER_12),
    (Z.eq_dec pn PORT_NUMBER_12), (Z.eq_dec pn' PORT_NUMBER_11); tauto.
Qed.

Ltac in_cases H := repeat (destruct H as [H|H]; [subst|]); try contradiction.
Ltac eqb_chain :=
  repeat match goal with
  | |- context [?a =? ?b] =>
      match a with
      | _ => is_var a; destruct (Z.eqb_spec a b); [subst a|]
      end
  end.

Lemma dewar_set_get_same d pn x : In pn DEWAR_set_data_ports -> dewar_get (dewar_set d pn x) pn = x.
Proof. intros H. cbn in H. in_cases H; reflexivity. Qed.

Lemma dewar_set_get_other d pn pn' x : In pn DEWAR_set_data_ports -> pn' <> pn -> ~ alias pn pn' ->
  dewar_get (dewar_set d pn' x) pn = dewar_get d pn.
Proof.
  intros H Hne Hal. unfold alias in Hal. cbn in H.
  in_cases H; unfold dewar_set, dio_set_shared; eqb_chain; try reflexivity; try contradiction;
    exfalso; apply Hal; auto.
Qed.

Lemma switch_set_get_same d w pn x d' w' : In pn SWITCH_set_data_ports -> switch_set d w pn x = (d', w') ->
  switch_get d' w' pn = x.
Proof.
  intros H. cbn in H. in_cases H; unfold switch_set; cbn; intros E; try (injection E as <- <-; reflexivity).
  injection E as <- <-. destruct (x =? 1); [destruct (d_lo d =? 1)|]; reflexivity.
Qed.

Lemma switch_set_get_other d w pn pn' x d' w' : In pn SWITCH_set_data_ports -> pn' <> pn -> ~ alias pn pn' ->
  switch_set d w pn' x = (d', w') -> switch_get d' w' pn = switch_get d w pn.
Proof.
  intros H Hne Hal. unfold alias in Hal. cbn in H.
  in_cases H; unfold switch_set, dio_set_shared; eqb_chain; intros E; injection E as <- <-;
    try reflexivity; try contradiction; try (exfalso; apply Hal; auto; fail);
    try (destruct (d_lo d =? 1); reflexivity).
Qed.

Section R.
  Variable clk : nat -> Z.
  Variable mkdate : list Z -> option Z.
  Variable render : Z -> option (list Z).
  Notation exec := (exec clk mkdate render).

  Ltac unf := unfold RcvModel.exec, gen_get, get_data, set_data, fin, store, dio_value, get_extra.
  Ltac go := repeat (progress (unf; cbn [b_com b_kind e_board e_ans e_tick]; brk)).

  Definition acked (r : eres) : Prop := exists ex, e_ans r = Some (CMD_ACK, ex).

  (* ---- a refused write leaves every register unchanged ---- *)
  Lemma refused_write_unchanged keys b t k ext cid p code ex :
    is_write k = true -> e_ans (exec keys b t k ext cid p) = Some (code, ex) -> code <> CMD_ACK ->
    mask_last (e_board (exec keys b t k ext cid p)) = mask_last b.
  Proof.
    intros Hk. destruct b as [c kd]. destruct k; try discriminate; go; intros H Hne;
      try discriminate; injection H as <- <-; try reflexivity; exfalso; apply Hne; reflexivity.
  Qed.

  (* a query never changes a register either *)
  Lemma read_unchanged keys b t k ext cid p :
    is_write k = false -> k <> KReset -> mask_last (e_board (exec keys b t k ext cid p)) = mask_last b.
  Proof.
    intros Hk Hr. destruct b as [c kd]. destruct k; try discriminate; try contradiction; go; reflexivity.
  Qed.

  (* ---- frame size ---- *)
  Lemma frame_write keys b t ext cid f ex :
    e_ans (exec keys b t KSetFrame ext cid [f]) = Some (CMD_ACK, ex) ->
    c_frame (b_com (e_board (exec keys b t KSetFrame ext cid [f]))) = f /\ mem f FRAME_SIZE_ACCEPTED = true.
  Proof.
    unfold RcvModel.exec, fin. destruct (mem f FRAME_SIZE_ACCEPTED); cbn; [auto|discriminate].
  Qed.

  Lemma frame_keep keys b t k ext cid p :
    c_frame (b_com (e_board (exec keys b t k ext cid p))) = c_frame (b_com b) \/
    (k = KSetFrame /\ acked (exec keys b t k ext cid p)).
  Proof.
    destruct b as [c kd]. destruct k; go; try (left; reflexivity).
    right. split; [reflexivity|eexists; reflexivity].
  Qed.

  Lemma frame_read keys b t ext cid p :
    e_ans (exec keys b t KGetFrame ext cid p) = Some (CMD_ACK, [1; c_frame (b_com b)]).
  Proof. reflexivity. Qed.

  (* ---- address ---- *)
  Lemma addr_keep keys b t k ext cid p :
    addr_of (e_board (exec keys b t k ext cid p)) = addr_of b \/
    (k = KSetAddr /\ acked (exec keys b t k ext cid p)).
  Proof.
    destruct (cmdk_eq_dec_local k) as [->|Hk]; [|left; apply exec_addr_other; assumption].
    destruct (exec_setaddr clk mkdate render keys b t ext cid p) as [a Hp Ha Hn|a Hp Hor|Hl].
    - right. split; [reflexivity|eexists; reflexivity].
    - left. reflexivity.
    - left. reflexivity.
  Qed.

  Lemma addr_write keys b t ext cid a ex :
    e_ans (exec keys b t KSetAddr ext cid [a]) = Some (CMD_ACK, ex) ->
    addr_of (e_board (exec keys b t KSetAddr ext cid [a])) = a.
  Proof.
    destruct (exec_setaddr clk mkdate render keys b t ext cid [a]) as [a' Hp Ha Hn|a' Hp Hor|Hl]; cbn [e_ans e_board].
    - injection Hp as <-. reflexivity.
    - discriminate.
    - discriminate.
  Qed.

  (* ---- port / data map ---- *)
  Definition port_reg (b : board) (k : key) : option (list Z) := aget key_eqb (c_ports (b_com b)) k.

  Lemma ports_keep keys b t k ext cid p ky :
    ~ ((k = KSetPort \/ k = KSetData) /\ key_of_params p = Some ky /\ acked (exec keys b t k ext cid p)) ->
    port_reg (e_board (exec keys b t k ext cid p)) ky = port_reg b ky.
  Proof.
    destruct b as [c kd]. unfold port_reg, acked.
    destruct k; go; intros Hn; try reflexivity; cbn [c_ports set_ports set_last b_com];
      apply kget_kset_other; intros ->; apply Hn; (split; [auto|split; [reflexivity|eexists; reflexivity]]).
  Qed.

  Lemma set_port_write keys b t ext cid dt pt pn v ex :
    e_ans (exec keys b t KSetPort ext cid [dt; pt; pn; v]) = Some (CMD_ACK, ex) ->
    port_reg (e_board (exec keys b t KSetPort ext cid [dt; pt; pn; v])) (dt, pt, pn) = Some [v] /\
    check_key dt pt pn = None.
  Proof.
    destruct b as [c kd]. unfold port_reg, RcvModel.exec, fin, store. destruct (check_key dt pt pn) as [e|] eqn:E.
    - cbn. intros H. injection H as He _. exfalso.
      unfold check_key in E. repeat (destruct (negb _) in E; [injection E as <-; discriminate|]). discriminate.
    - cbn. intros _. split; [apply kget_kset_eq|reflexivity].
  Qed.

  Lemma get_port_read keys b t ext cid dt pt pn :
    check_key dt pt pn = None ->
    e_ans (exec keys b t KGetPort ext cid [dt; pt; pn]) =
    Some (CMD_ACK, with_data ([dt; pt; pn] ++ match port_reg b (dt, pt, pn) with Some v => v | None => [0] end)).
  Proof.
    intros Hc. destruct b as [c kd]. unfold RcvModel.exec, gen_get, fin, port_reg. rewrite Hc. cbn [e_ans b_com].
    unfold get_extra. change (CMD_ACK =? CMD_ACK) with true. reflexivity.
  Qed.

  (* set_data / get_data on the generic board *)
  Lemma set_data_write_slave keys c t ext cid dt pt pn v ex :
    v <> [] ->
    e_ans (exec keys (mkBoard c KSlave) t KSetData ext cid (dt :: pt :: pn :: v)) = Some (CMD_ACK, ex) ->
    port_reg (e_board (exec keys (mkBoard c KSlave) t KSetData ext cid (dt :: pt :: pn :: v))) (dt, pt, pn) = Some v.
  Proof.
    intros Hv. unfold port_reg, RcvModel.exec, set_data, fin, store. cbn [b_com b_kind].
    destruct (zlen (dt :: pt :: pn :: v) <? 4) eqn:El.
    - cbn. intros H. injection H as He _. discriminate.
    - destruct (check_key dt pt pn) as [e|] eqn:E.
      + cbn. intros H. injection H as He _. exfalso.
        unfold check_key in E. repeat (destruct (negb _) in E; [injection E as <-; discriminate|]). discriminate.
      + cbn. intros _. apply kget_kset_eq.
  Qed.

  Lemma get_data_read_slave keys c t ext cid dt pt pn :
    check_key dt pt pn = None ->
    e_ans (exec keys (mkBoard c KSlave) t KGetData ext cid [dt; pt; pn]) =
    Some (CMD_ACK, with_data ([dt; pt; pn] ++ match port_reg (mkBoard c KSlave) (dt, pt, pn) with
                                               | Some v => v | None => [0] end)).
  Proof.
    intros Hc. unfold RcvModel.exec, get_data, gen_get, fin, port_reg. cbn [b_kind b_com]. rewrite Hc. cbn [e_ans].
    unfold get_extra. change (CMD_ACK =? CMD_ACK) with true. reflexivity.
  Qed.

  (* ---- DIO bits of the Dewar board ---- *)
  Definition dio_params (pn x : Z) : list Z := [DATA_TYPE_B01; PORT_TYPE_DIO; pn; x].

  Lemma dewar_bit_write keys c d t ext cid pn x ex :
    In pn DEWAR_set_data_ports ->
    e_ans (exec keys (mkBoard c (KDewar d)) t KSetData ext cid (dio_params pn x)) = Some (CMD_ACK, ex) ->
    exists d', b_kind (e_board (exec keys (mkBoard c (KDewar d)) t KSetData ext cid (dio_params pn x))) = KDewar d' /\
               dewar_get d' pn = x /\ (x = 0 \/ x = 1).
  Proof.
    intros Hin. unfold RcvModel.exec, set_data, fin, dio_params. cbn [b_com b_kind].
    change (zlen [DATA_TYPE_B01; PORT_TYPE_DIO; pn; x] <? 4) with false. cbn iota.
    destruct (check_key DATA_TYPE_B01 PORT_TYPE_DIO pn) as [e|] eqn:E.
    - cbn. intros H. injection H as He _. exfalso.
      unfold check_key in E. repeat (destruct (negb _) in E; [injection E as <-; discriminate|]). discriminate.
    - rewrite !Z.eqb_refl. cbn [andb]. unfold dio_value.
      destruct ((x =? 0) || (x =? 1)) eqn:Ex; cbn [e_ans e_board b_kind]; [|discriminate].
      intros _. eexists. split; [reflexivity|]. split; [apply dewar_set_get_same; assumption|].
      apply orb_true_iff in Ex as [Ex|Ex]; apply Z.eqb_eq in Ex; auto.
  Qed.

  Lemma dio_value_inv v x : dio_value v = Some x -> v = [x].
  Proof.
    unfold dio_value. destruct v as [|y [|? ?]]; try discriminate.
    destruct ((y =? 0) || (y =? 1)); [intros H; injection H as ->; reflexivity|discriminate].
  Qed.

  Ltac unf2 := unfold RcvModel.exec, gen_get, get_data, set_data, fin, store, get_extra.
  Ltac go2 := repeat (progress (unf2; cbn [b_com b_kind e_board e_ans e_tick]; brk)).

  Definition dewar_bit (b : board) (pn : Z) : option Z :=
    match b_kind b with KDewar d => Some (dewar_get d pn) | _ => None end.

  Lemma dewar_bit_keep keys c d t k ext cid p pn :
    In pn DEWAR_set_data_ports ->
    ~ (k = KSetData /\ acked (exec keys (mkBoard c (KDewar d)) t k ext cid p) /\
       exists pn' x, p = dio_params pn' x /\ (pn' = pn \/ alias pn pn')) ->
    dewar_bit (e_board (exec keys (mkBoard c (KDewar d)) t k ext cid p)) pn = Some (dewar_get d pn).
  Proof.
    intros Hin. unfold dewar_bit, acked.
    destruct k; go2; intros Hn; try reflexivity. cbn [b_kind]. f_equal.
    match goal with H : dio_value ?v = Some ?x |- _ => apply dio_value_inv in H; subst v end.
    repeat match goal with H : (_ && _) = true |- _ => apply andb_true_iff in H as [? ?] end.
    repeat match goal with H : (_ =? _) = true |- _ => apply Z.eqb_eq in H end. subst.
    match goal with |- dewar_get (dewar_set d ?pn' ?x) pn = _ =>
      destruct (Z.eq_dec pn' pn) as [Heq|Hne];
      [|destruct (alias_dec pn pn') as [Hal|Hal]; [|apply dewar_set_get_other; assumption]] end.
    - exfalso. apply Hn. split; [reflexivity|]. split; [eexists; reflexivity|].
      do 2 eexists. split; [reflexivity|left; exact Heq].
    - exfalso. apply Hn. split; [reflexivity|]. split; [eexists; reflexivity|].
      do 2 eexists. split; [reflexivity|right; exact Hal].
  Qed.

  Lemma dewar_bit_read keys c d t ext cid pn :
    check_key DATA_TYPE_B01 PORT_TYPE_DIO pn = None ->
    e_ans (exec keys (mkBoard c (KDewar d)) t KGetData ext cid [DATA_TYPE_B01; PORT_TYPE_DIO; pn]) =
    Some (CMD_ACK, with_data [DATA_TYPE_B01; PORT_TYPE_DIO; pn; dewar_get d pn]).
  Proof.
    intros Hc. unfold RcvModel.exec, get_data, fin. cbn [b_kind b_com]. rewrite Hc.
    change ((PORT_TYPE_DIO =? PORT_TYPE_AD24) && (DATA_TYPE_B01 =? DATA_TYPE_F32)) with false.
    change ((PORT_TYPE_DIO =? PORT_TYPE_DIO) && (DATA_TYPE_B01 =? DATA_TYPE_B01)) with true. cbn [e_ans].
    unfold get_extra. change (CMD_ACK =? CMD_ACK) with true. reflexivity.
  Qed.

  (* ---- histories on one board ---- *)
  Inductive bcmd := BC (keys : list Z) (k : cmdk) (ext : bool) (cid : Z) (p : list Z).
  Definition bexec (bt : board * nat) (c : bcmd) : eres :=
    match c with BC keys k ext cid p => exec keys (fst bt) (snd bt) k ext cid p end.
  Definition bstep (bt : board * nat) (c : bcmd) : board * nat :=
    (e_board (bexec bt c), e_tick (bexec bt c)).
  Definition bsteps (bt : board * nat) (h : list bcmd) : board * nat := fold_left bstep h bt.

  (* no command of the history is an acknowledged write selected by W *)
  Fixpoint quiet (W : bcmd -> Prop) (bt : board * nat) (h : list bcmd) : Prop :=
    match h with
    | [] => True
    | c :: h' => ~ (W c /\ acked (bexec bt c)) /\ quiet W (bstep bt c) h'
    end.

  Lemma history_keeps {V} (reg : board -> V) (W : bcmd -> Prop) :
    (forall bt c, ~ (W c /\ acked (bexec bt c)) -> reg (fst (bstep bt c)) = reg (fst bt)) ->
    forall h bt, quiet W bt h -> reg (fst (bsteps bt h)) = reg (fst bt).
  Proof.
    intros Hk. induction h as [|c h IH]; intros bt Hq; [reflexivity|].
    destruct Hq as [Hc Hq]. cbn [bsteps fold_left]. fold (bsteps (bstep bt c) h). rewrite IH by assumption.
    apply Hk. assumption.
  Qed.

  Definition kind_of (c : bcmd) : cmdk := match c with BC _ k _ _ _ => k end.
  Definition params_of (c : bcmd) : list Z := match c with BC _ _ _ _ p => p end.

  (* frame size: read-back after any history without an acknowledged set_frame *)
  Theorem frame_readback keys b t ext cid f ex h keys' ext' cid' p' :
    e_ans (exec keys b t KSetFrame ext cid [f]) = Some (CMD_ACK, ex) ->
    let bt1 := (e_board (exec keys b t KSetFrame ext cid [f]), e_tick (exec keys b t KSetFrame ext cid [f])) in
    quiet (fun c => kind_of c = KSetFrame) bt1 h ->
    e_ans (bexec (bsteps bt1 h) (BC keys' KGetFrame ext' cid' p')) = Some (CMD_ACK, [1; f]).
  Proof.
    intros Hw bt1 Hq. cbn [bexec]. rewrite frame_read. f_equal. f_equal. f_equal. f_equal.
    assert (Hk : forall bt c, ~ (kind_of c = KSetFrame /\ acked (bexec bt c)) ->
                 c_frame (b_com (fst (bstep bt c))) = c_frame (b_com (fst bt))).
    { intros [b0 t0] [ks k e ci p] Hn. cbn [bstep bexec fst snd kind_of] in *.
      destruct (frame_keep ks b0 t0 k e ci p) as [H|[Hk Ha]]; [exact H|]. exfalso. apply Hn. split; assumption. }
    rewrite (history_keeps (fun b => c_frame (b_com b)) _ Hk h bt1 Hq).
    apply (frame_write _ _ _ _ _ _ _ Hw).
  Qed.

  (* address *)
  Theorem addr_readback keys b t ext cid a ex h keys' ext' cid' p' :
    e_ans (exec keys b t KSetAddr ext cid [a]) = Some (CMD_ACK, ex) ->
    let bt1 := (e_board (exec keys b t KSetAddr ext cid [a]), e_tick (exec keys b t KSetAddr ext cid [a])) in
    quiet (fun c => kind_of c = KSetAddr) bt1 h ->
    e_ans (bexec (bsteps bt1 h) (BC keys' KGetAddr ext' cid' p')) = Some (CMD_ACK, [1; a]).
  Proof.
    intros Hw bt1 Hq. cbn [bexec]. rewrite exec_getaddr. f_equal. f_equal. f_equal. f_equal.
    assert (Hk : forall bt c, ~ (kind_of c = KSetAddr /\ acked (bexec bt c)) ->
                 addr_of (fst (bstep bt c)) = addr_of (fst bt)).
    { intros [b0 t0] [ks k e ci p] Hn. cbn [bstep bexec fst snd kind_of] in *.
      destruct (addr_keep ks b0 t0 k e ci p) as [H|[Hk Ha]]; [exact H|]. exfalso. apply Hn. split; assumption. }
    rewrite (history_keeps addr_of _ Hk h bt1 Hq).
    apply (addr_write _ _ _ _ _ _ _ Hw).
  Qed.

  (* port map through set_port / get_port (every board type) *)
  Definition writes_key (ky : key) (c : bcmd) : Prop :=
    (kind_of c = KSetPort \/ kind_of c = KSetData) /\ key_of_params (params_of c) = Some ky.

  Theorem port_readback keys b t ext cid dt pt pn v ex h keys' ext' cid' :
    e_ans (exec keys b t KSetPort ext cid [dt; pt; pn; v]) = Some (CMD_ACK, ex) ->
    let r := exec keys b t KSetPort ext cid [dt; pt; pn; v] in
    quiet (writes_key (dt, pt, pn)) (e_board r, e_tick r) h ->
    e_ans (bexec (bsteps (e_board r, e_tick r) h) (BC keys' KGetPort ext' cid' [dt; pt; pn])) =
    Some (CMD_ACK, with_data [dt; pt; pn; v]).
  Proof.
    intros Hw r Hq. destruct (set_port_write _ _ _ _ _ _ _ _ _ _ Hw) as [Hreg Hc]. cbn [bexec].
    rewrite (get_port_read _ _ _ _ _ _ _ _ Hc).
    assert (Hk : forall bt c, ~ (writes_key (dt, pt, pn) c /\ acked (bexec bt c)) ->
                 port_reg (fst (bstep bt c)) (dt, pt, pn) = port_reg (fst bt) (dt, pt, pn)).
    { intros [b0 t0] [ks k e ci p] Hn. cbn [bstep bexec fst snd] in *. apply ports_keep.
      intros (Hk & Hky & Ha). apply Hn. split; [split; assumption|assumption]. }
    rewrite (history_keeps (fun b => port_reg b (dt, pt, pn)) _ Hk h _ Hq).
    cbn [fst]. unfold r. rewrite Hreg. reflexivity.
  Qed.

  (* DIO bits of the Dewar board *)
  Definition writes_bit (pn : Z) (c : bcmd) : Prop :=
    kind_of c = KSetData /\ exists pn' x, params_of c = dio_params pn' x /\ (pn' = pn \/ alias pn pn').

  Lemma dewar_stays keys c d t k ext cid p :
    exists c' d', e_board (exec keys (mkBoard c (KDewar d)) t k ext cid p) = mkBoard c' (KDewar d').
  Proof. destruct k; go; eexists; eexists; reflexivity. Qed.
  Lemma dewar_bit_keep_any keys b t k ext cid p pn :
    In pn DEWAR_set_data_ports ->
    ~ (k = KSetData /\ acked (exec keys b t k ext cid p) /\
       exists pn' x, p = dio_params pn' x /\ (pn' = pn \/ alias pn pn')) ->
    dewar_bit (e_board (exec keys b t k ext cid p)) pn = dewar_bit b pn.
  Proof.
    intros Hin Hn. destruct b as [c kd]. destruct kd as [|d|d w|l].
    - clear Hn. unfold dewar_bit. destruct k; go; reflexivity.
    - apply dewar_bit_keep; assumption.
    - clear Hn. unfold dewar_bit. destruct k; go; reflexivity.
    - clear Hn. unfold dewar_bit. destruct k; go; reflexivity.
  Qed.

  Lemma dewar_write_checked keys c d t ext cid pn x ex :
    e_ans (exec keys (mkBoard c (KDewar d)) t KSetData ext cid (dio_params pn x)) = Some (CMD_ACK, ex) ->
    check_key DATA_TYPE_B01 PORT_TYPE_DIO pn = None.
  Proof.
    unfold RcvModel.exec, set_data, fin, dio_params. cbn [b_com b_kind].
    change (zlen [DATA_TYPE_B01; PORT_TYPE_DIO; pn; x] <? 4) with false. cbn iota.
    destruct (check_key DATA_TYPE_B01 PORT_TYPE_DIO pn) as [e|] eqn:E; [|reflexivity].
    cbn. intros H. injection H as He _. exfalso.
    unfold check_key in E. repeat (destruct (negb _) in E; [injection E as <-; discriminate|]). discriminate.
  Qed.

  (* a DIO bit of the Dewar board written with acknowledgement reads back until the next acknowledged
     write of the same bit or of its alias (ports 11 and 12 share `calibration`) *)
  Theorem dewar_bit_readback keys c d t ext cid pn x ex h keys' ext' cid' :
    In pn DEWAR_set_data_ports ->
    e_ans (exec keys (mkBoard c (KDewar d)) t KSetData ext cid (dio_params pn x)) = Some (CMD_ACK, ex) ->
    let r := exec keys (mkBoard c (KDewar d)) t KSetData ext cid (dio_params pn x) in
    quiet (writes_bit pn) (e_board r, e_tick r) h ->
    e_ans (bexec (bsteps (e_board r, e_tick r) h)
                 (BC keys' KGetData ext' cid' [DATA_TYPE_B01; PORT_TYPE_DIO; pn])) =
    Some (CMD_ACK, with_data [DATA_TYPE_B01; PORT_TYPE_DIO; pn; x]).
  Proof.
    intros Hin Hw r Hq.
    assert (Hk : forall bt cm, ~ (writes_bit pn cm /\ acked (bexec bt cm)) ->
                 dewar_bit (fst (bstep bt cm)) pn = dewar_bit (fst bt) pn).
    { intros [b0 t0] [ks k e ci p] Hn. cbn [bstep bexec fst snd] in *. apply dewar_bit_keep_any; [assumption|].
      intros (Hk1 & Ha & Hex). apply Hn. split; [split; assumption|assumption]. }
    pose proof (history_keeps (fun b => dewar_bit b pn) _ Hk h _ Hq) as Hh. cbn [fst] in Hh.
    destruct (dewar_bit_write keys c d t ext cid pn x ex Hin Hw) as (d' & Hkd & Hget & _).
    fold r in Hkd. unfold dewar_bit at 2 in Hh. rewrite Hkd, Hget in Hh.
    destruct (bsteps (e_board r, e_tick r) h) as [bf tf] eqn:Ef. cbn [fst] in Hh. cbn [bexec fst snd].
    destruct bf as [cf kf]. unfold dewar_bit in Hh. cbn [b_kind] in Hh.
    destruct kf as [|df|df wf|lf]; try discriminate. injection Hh as Hx.
    rewrite (dewar_bit_read keys' cf df tf ext' cid' pn (dewar_write_checked _ _ _ _ _ _ _ _ _ Hw)).
    rewrite Hx. reflexivity.
  Qed.
  (* ---- DIO bits of the Switch board ---- *)
  Ltac brk3 :=
    repeat match goal with
    | |- context [match ?x with _ => _ end] =>
        match type of x with
        | bool => destruct x eqn:?
        | option _ => destruct x eqn:?
        | list _ => destruct x
        | kind => is_var x; destruct x
        | prod _ _ => destruct x eqn:?
        end
    end.
  Ltac go3 := repeat (progress (unf2; cbn [b_com b_kind e_board e_ans e_tick]; brk3)).

  Definition switch_bit (b : board) (pn : Z) : option Z :=
    match b_kind b with KSwitch d w => Some (switch_get d w pn) | _ => None end.

  Lemma switch_bit_write keys c d w t ext cid pn x ex :
    In pn SWITCH_set_data_ports ->
    e_ans (exec keys (mkBoard c (KSwitch d w)) t KSetData ext cid (dio_params pn x)) = Some (CMD_ACK, ex) ->
    switch_bit (e_board (exec keys (mkBoard c (KSwitch d w)) t KSetData ext cid (dio_params pn x))) pn = Some x /\
    check_key DATA_TYPE_B01 PORT_TYPE_DIO pn = None.
  Proof.
    intros Hin. unfold switch_bit, RcvModel.exec, set_data, fin, dio_params. cbn [b_com b_kind].
    change (zlen [DATA_TYPE_B01; PORT_TYPE_DIO; pn; x] <? 4) with false. cbn iota.
    destruct (check_key DATA_TYPE_B01 PORT_TYPE_DIO pn) as [e|] eqn:E.
    - cbn. intros H. injection H as He _. exfalso.
      unfold check_key in E. repeat (destruct (negb _) in E; [injection E as <-; discriminate|]). discriminate.
    - rewrite !Z.eqb_refl. cbn [andb]. unfold dio_value.
      destruct ((x =? 0) || (x =? 1)) eqn:Ex; [|cbn [e_ans]; discriminate].
      destruct (switch_set d w pn x) as [d' w'] eqn:Es. cbn [e_ans e_board b_kind]. intros _.
      split; [|reflexivity]. f_equal. eapply switch_set_get_same; eauto.
  Qed.

  Lemma switch_bit_keep keys c d w t k ext cid p pn :
    In pn SWITCH_set_data_ports ->
    ~ (k = KSetData /\ acked (exec keys (mkBoard c (KSwitch d w)) t k ext cid p) /\
       exists pn' x, p = dio_params pn' x /\ (pn' = pn \/ alias pn pn')) ->
    switch_bit (e_board (exec keys (mkBoard c (KSwitch d w)) t k ext cid p)) pn = Some (switch_get d w pn).
  Proof.
    intros Hin. unfold switch_bit, acked.
    destruct k; go3; intros Hn; try reflexivity. cbn [b_kind]. f_equal.
    match goal with H : dio_value ?v = Some ?x |- _ => apply dio_value_inv in H; subst v end.
    repeat match goal with H : (_ && _) = true |- _ => apply andb_true_iff in H as [? ?] end.
    repeat match goal with H : (_ =? _) = true |- _ => apply Z.eqb_eq in H end. subst.
    match goal with Hs : switch_set d w ?pn' ?x = _ |- _ =>
      destruct (Z.eq_dec pn' pn) as [Heq|Hne];
      [|destruct (alias_dec pn pn') as [Hal|Hal]; [|eapply switch_set_get_other; eassumption]] end.
    - exfalso. apply Hn. split; [reflexivity|]. split; [eexists; reflexivity|].
      do 2 eexists. split; [reflexivity|left; exact Heq].
    - exfalso. apply Hn. split; [reflexivity|]. split; [eexists; reflexivity|].
      do 2 eexists. split; [reflexivity|right; exact Hal].
  Qed.

  Lemma switch_bit_keep_any keys b t k ext cid p pn :
    In pn SWITCH_set_data_ports ->
    ~ (k = KSetData /\ acked (exec keys b t k ext cid p) /\
       exists pn' x, p = dio_params pn' x /\ (pn' = pn \/ alias pn pn')) ->
    switch_bit (e_board (exec keys b t k ext cid p)) pn = switch_bit b pn.
  Proof.
    intros Hin Hn. destruct b as [c kd]. destruct kd as [|d|d w|l].
    - clear Hn. unfold switch_bit. destruct k; go; reflexivity.
    - clear Hn. unfold switch_bit. destruct k; go; reflexivity.
    - apply switch_bit_keep; assumption.
    - clear Hn. unfold switch_bit. destruct k; go; reflexivity.
  Qed.

  Lemma switch_bit_read keys c d w t ext cid pn :
    check_key DATA_TYPE_B01 PORT_TYPE_DIO pn = None ->
    e_ans (exec keys (mkBoard c (KSwitch d w)) t KGetData ext cid [DATA_TYPE_B01; PORT_TYPE_DIO; pn]) =
    Some (CMD_ACK, with_data [DATA_TYPE_B01; PORT_TYPE_DIO; pn; switch_get d w pn]).
  Proof.
    intros Hc. unfold RcvModel.exec, get_data, fin. cbn [b_kind b_com]. rewrite Hc.
    change ((PORT_TYPE_DIO =? PORT_TYPE_AD24) && (DATA_TYPE_B01 =? DATA_TYPE_F32)) with false.
    change ((PORT_TYPE_DIO =? PORT_TYPE_DIO) && (DATA_TYPE_B01 =? DATA_TYPE_B01)) with true. cbn [e_ans].
    unfold get_extra. change (CMD_ACK =? CMD_ACK) with true. reflexivity.
  Qed.

  (* a writable DIO bit of the Switch board (ports 0,1,2,4,5,7,8,11,12,13,14) written with acknowledgement
     reads back until the next acknowledged write of the same bit or of its alias (11 / 12) *)
  Theorem switch_bit_readback keys c d w t ext cid pn x ex h keys' ext' cid' :
    In pn SWITCH_set_data_ports ->
    e_ans (exec keys (mkBoard c (KSwitch d w)) t KSetData ext cid (dio_params pn x)) = Some (CMD_ACK, ex) ->
    let r := exec keys (mkBoard c (KSwitch d w)) t KSetData ext cid (dio_params pn x) in
    quiet (writes_bit pn) (e_board r, e_tick r) h ->
    e_ans (bexec (bsteps (e_board r, e_tick r) h)
                 (BC keys' KGetData ext' cid' [DATA_TYPE_B01; PORT_TYPE_DIO; pn])) =
    Some (CMD_ACK, with_data [DATA_TYPE_B01; PORT_TYPE_DIO; pn; x]).
  Proof.
    intros Hin Hw r Hq.
    assert (Hk : forall bt cm, ~ (writes_bit pn cm /\ acked (bexec bt cm)) ->
                 switch_bit (fst (bstep bt cm)) pn = switch_bit (fst bt) pn).
    { intros [b0 t0] [ks k e ci p] Hn. cbn [bstep bexec fst snd] in *. apply switch_bit_keep_any; [assumption|].
      intros (Hk1 & Ha & Hex). apply Hn. split; [split; assumption|assumption]. }
    pose proof (history_keeps (fun b => switch_bit b pn) _ Hk h _ Hq) as Hh. cbn [fst] in Hh.
    destruct (switch_bit_write keys c d w t ext cid pn x ex Hin Hw) as (Hbit & Hck).
    fold r in Hbit. rewrite Hbit in Hh.
    destruct (bsteps (e_board r, e_tick r) h) as [bf tf] eqn:Ef. cbn [fst] in Hh. cbn [bexec fst snd].
    destruct bf as [cf kf]. unfold switch_bit in Hh. cbn [b_kind] in Hh.
    destruct kf as [|df|df wf|lf]; try discriminate. injection Hh as Hx.
    rewrite (switch_bit_read keys' cf df wf tf ext' cid' pn Hck). rewrite Hx. reflexivity.
  Qed.
End R.

(* ---- what does NOT hold on the code as it is (known findings, reproduced on the implementation) ---- *)
Definition rclk (n : nat) : Z := Z.of_nat n.
Definition rmk (_ : list Z) : option Z := Some 0.
Definition rrender (_ : Z) : option (list Z) := Some (zeros 8).
Definition rexec := exec rclk rmk rrender.

(* Dewar (and Switch) set_data acknowledges a write to a key that is not a writable DIO bit and ignores
   it: the read-back of the same key does not return the value *)
Example dewar_data_ack_ignored_refuted :
  let b := init_board 1 1 5 in
  let key := [DATA_TYPE_U08; PORT_TYPE_AD; PORT_NUMBER_00] in
  let w := rexec [5] b 0%nat KSetData false 0 (key ++ [7]) in
  e_ans w = Some (CMD_ACK, []) /\
  e_ans (rexec [5] (e_board w) (e_tick w) KGetData false 1 key) = Some (CMD_ACK, with_data (key ++ [0])).
Proof. vm_compute. split; reflexivity. Qed.

(* DIO ports 11 and 12 of the Dewar (and Switch) share one register: an acknowledged write of port 12
   changes the read-back of port 11 *)
Example dewar_alias_refuted :
  let b := init_board 1 1 5 in
  let w1 := rexec [5] b 0%nat KSetData false 0 (dio_params PORT_NUMBER_11 1) in
  let w2 := rexec [5] (e_board w1) (e_tick w1) KSetData false 1 (dio_params PORT_NUMBER_12 0) in
  e_ans w1 = Some (CMD_ACK, []) /\ e_ans w2 = Some (CMD_ACK, []) /\
  e_ans (rexec [5] (e_board w2) (e_tick w2) KGetData false 2 [DATA_TYPE_B01; PORT_TYPE_DIO; PORT_NUMBER_11]) =
  Some (CMD_ACK, with_data [DATA_TYPE_B01; PORT_TYPE_DIO; PORT_NUMBER_11; 0]).
Proof. vm_compute. repeat split; reflexivity. Qed.

(* LNA: the DIO writes that drive the amplifiers (ports 8, 9; U08 port 00-07) are write-only: get_data of
   the same key reads the generic port map *)
Example lna_write_only_refuted :
  let b := init_board 3 2 5 in
  let key := [DATA_TYPE_B01; PORT_TYPE_DIO; PORT_NUMBER_08] in
  let w := rexec [5] b 0%nat KSetData false 0 (key ++ [1]) in
  e_ans w = Some (CMD_ACK, []) /\
  e_ans (rexec [5] (e_board w) (e_tick w) KGetData false 1 key) = Some (CMD_ACK, with_data (key ++ [0])).
Proof. vm_compute. split; reflexivity. Qed.
