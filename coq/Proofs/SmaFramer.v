(* Framing lemmas shared by the bounded line framers (IFD, IFD_14, calmux): the framer component
   of a simulator state evolves independently of the device; a terminator always leads to the
   idle state; within max_msg_length bytes the framer passes through idle; idle discards
   non-headers. *)
From DS Require Import Base.Prelude Model.SmaCommon.

Lemma srun_app {D} (fs : list Z -> Z -> list Z * fevent) (ex : D -> list Z -> D * outcome)
      (s : sstate D) (a b : list Z) :
  srun fs ex s (a ++ b) =
  let (s1, o1) := srun fs ex s a in let (s2, o2) := srun fs ex s1 b in (s2, o1 ++ o2).
Proof.
  revert s. induction a as [|x a IH]; intros s; cbn [srun app].
  - destruct (srun fs ex s b) as [s2 o2]. reflexivity.
  - destruct (sstep fs ex s x) as [s1 o]. rewrite IH.
    destruct (srun fs ex s1 a) as [s2 o1]. destruct (srun fs ex s2 b) as [s3 o2]. reflexivity.
Qed.

Lemma srun_app_fst {D} fs (ex : D -> list Z -> D * outcome) s a b :
  fst (srun fs ex s (a ++ b)) = fst (srun fs ex (fst (srun fs ex s a)) b).
Proof.
  rewrite srun_app. destruct (srun fs ex s a) as [s1 o1]. cbn [fst].
  destruct (srun fs ex s1 b) as [s2 o2]. reflexivity.
Qed.

Lemma srun_app_snd {D} fs (ex : D -> list Z -> D * outcome) s a b :
  snd (srun fs ex s (a ++ b)) = snd (srun fs ex s a) ++ snd (srun fs ex (fst (srun fs ex s a)) b).
Proof.
  rewrite srun_app. destruct (srun fs ex s a) as [s1 o1]. cbn [fst snd].
  destruct (srun fs ex s1 b) as [s2 o2]. reflexivity.
Qed.

Lemma srun_length {D} fs (ex : D -> list Z -> D * outcome) s bs :
  length (snd (srun fs ex s bs)) = length bs.
Proof.
  revert s. induction bs as [|b r IH]; intros s; cbn [srun].
  - reflexivity.
  - destruct (sstep fs ex s b) as [s1 o]. specialize (IH s1).
    destruct (srun fs ex s1 r) as [s2 os]. cbn [snd length] in *. congruence.
Qed.

(* the buffer component follows the pure framer *)
Lemma sstep_buf {D} fs (ex : D -> list Z -> D * outcome) s b :
  buf (fst (sstep fs ex s b)) = fst (fs (buf s) b).
Proof.
  unfold sstep. destruct (fs (buf s) b) as [b1 [o|m]]; cbn [fst].
  - reflexivity.
  - destruct (ex (dev s) m) as [d' o]. reflexivity.
Qed.

Lemma srun_buf {D} fs (ex : D -> list Z -> D * outcome) s bs :
  buf (fst (srun fs ex s bs)) = fst (frun fs (buf s) bs).
Proof.
  revert s. induction bs as [|b r IH]; intros s; cbn [srun frun].
  - reflexivity.
  - pose proof (sstep_buf fs ex s b) as Hb.
    destruct (sstep fs ex s b) as [s1 o]. cbn [fst] in Hb.
    destruct (fs (buf s) b) as [b1 e]. cbn [fst] in Hb. subst b1.
    specialize (IH s1). destruct (srun fs ex s1 r) as [s2 os].
    destruct (frun fs (buf s1) r) as [b2 es]. exact IH.
Qed.

Lemma sidle_buf {D} (s : sstate D) : sidle s = true <-> buf s = [].
Proof. unfold sidle. destruct (buf s); split; intros H; congruence. Qed.

Section Bounded.
  #[local] Set Default Proof Using "All".
  Variable c : fcfg.
  Hypothesis Hmax : 2 <= maxlen c.
  Hypothesis Htail_not_hdr : forall b, is_tail c b = true -> is_hdr c b = false.

  Definition fbounded (buf0 : list Z) : Prop := Z.of_nat (length buf0) < maxlen c.

  (* shape of one framer step *)
  Lemma fstep_cases buf0 b :
    fbounded buf0 ->
    (fst (fstep c buf0 b) = [] \/
     (fst (fstep c buf0 b) = buf0 ++ [b] /\ snd (fstep c buf0 b) = EOut OTrue /\
      fbounded (buf0 ++ [b]))).
  Proof.
    intros Hb. unfold fstep, fbounded in *.
    rewrite app_length in *. cbn [length] in *.
    destruct (Z.of_nat (length buf0 + 1) =? 1) eqn:E1.
    - destruct (is_hdr c b); cbn [fst snd]; [right|left]; repeat split; auto. lia.
    - destruct ((Z.of_nat (length buf0 + 1) <? maxlen c) && negb (is_tail c b)) eqn:E2.
      + right. cbn [fst snd]. repeat split. lia.
      + destruct ((Z.of_nat (length buf0 + 1) =? maxlen c) && negb (is_tail c b)); left; reflexivity.
  Qed.

  Lemma fstep_bounded buf0 b : fbounded buf0 -> fbounded (fst (fstep c buf0 b)).
  Proof.
    intros Hb. destruct (fstep_cases buf0 b Hb) as [H|(H & _ & H2)]; rewrite H.
    - unfold fbounded. cbn. lia.
    - exact H2.
  Qed.

  (* a terminator always leaves the framer idle, whatever was buffered *)
  Lemma fstep_tail_idle buf0 b : is_tail c b = true -> fst (fstep c buf0 b) = [].
  Proof.
    intros Ht. unfold fstep. rewrite Ht, (Htail_not_hdr b Ht). cbn [negb].
    rewrite !andb_false_r.
    destruct (Z.of_nat (length (buf0 ++ [b])) =? 1); reflexivity.
  Qed.

  (* idle discards a byte that cannot start a command, and says False *)
  Lemma fstep_idle_discards b : is_hdr c b = false -> fstep c [] b = ([], EOut OFalse).
  Proof. intros Hh. unfold fstep. cbn. rewrite Hh. reflexivity. Qed.

  Lemma fstep_idle_header b : is_hdr c b = true -> fstep c [] b = ([b], EOut OTrue).
  Proof. intros Hh. unfold fstep. cbn. rewrite Hh. reflexivity. Qed.

  (* a non-terminator arriving when the buffer holds maxlen-1 characters: reset + ValueError *)
  Lemma fstep_overflow buf0 b :
    Z.of_nat (length buf0) = maxlen c - 1 -> is_tail c b = false ->
    fstep c buf0 b = ([], EOut OValueError).
  Proof.
    intros Hl Ht. unfold fstep. rewrite app_length. cbn [length]. rewrite Ht. cbn [negb].
    replace (Z.of_nat (length buf0 + 1)) with (maxlen c) by lia.
    replace (maxlen c =? 1) with false by lia.
    replace (maxlen c <? maxlen c) with false by lia.
    rewrite Z.eqb_refl. reflexivity.
  Qed.

  Lemma frun_bounded bs : forall buf0, fbounded buf0 -> fbounded (fst (frun (fstep c) buf0 bs)).
  Proof.
    induction bs as [|b r IH]; intros buf0 Hb; cbn [frun].
    - exact Hb.
    - pose proof (fstep_bounded buf0 b Hb) as H1.
      destruct (fstep c buf0 b) as [b1 e]. cbn [fst] in H1.
      specialize (IH b1 H1). destruct (frun (fstep c) b1 r) as [b2 es]. exact IH.
  Qed.

  (* never waits for ever: any maxlen bytes contain a non-empty prefix after which the framer
     is idle *)
  Lemma frun_visits_idle bs : forall buf0,
    fbounded buf0 -> maxlen c <= Z.of_nat (length bs) + Z.of_nat (length buf0) ->
    exists p q, bs = p ++ q /\ p <> [] /\ fst (frun (fstep c) buf0 p) = [].
  Proof.
    induction bs as [|b r IH]; intros buf0 Hb Hlen.
    - unfold fbounded in Hb. cbn [length] in Hlen. lia.
    - destruct (fstep_cases buf0 b Hb) as [H|(H & _ & H2)].
      + exists [b], r. repeat split; [discriminate|].
        cbn [frun]. destruct (fstep c buf0 b) as [b1 e]. exact H.
      + destruct (IH (buf0 ++ [b]) H2) as (p & q & Hr & Hp & Hrun).
        { rewrite app_length. cbn [length] in *. lia. }
        exists (b :: p), q. repeat split; [cbn; congruence|discriminate|].
        cbn [frun]. destruct (fstep c buf0 b) as [b1 e]. cbn [fst] in H. subst b1.
        destruct (frun (fstep c) (buf0 ++ [b]) p) as [b2 es]. exact Hrun.
  Qed.

  Section WithDevice.
    Context {D : Type}.
    Variable exec : D -> list Z -> D * outcome.
    Notation step := (sstep (fstep c) exec).
    Notation run := (srun (fstep c) exec).

    Definition sbounded (s : sstate D) : Prop := fbounded (buf s).

    Lemma sstep_bounded s b : sbounded s -> sbounded (fst (step s b)).
    Proof. unfold sbounded. rewrite sstep_buf. apply fstep_bounded. Qed.

    Lemma srun_bounded s bs : sbounded s -> sbounded (fst (run s bs)).
    Proof. unfold sbounded. rewrite srun_buf. apply frun_bounded. Qed.

    (* C03: after ANY byte history, a terminator puts the framer in the idle state *)
    Theorem resync_on_terminator s bs t :
      is_tail c t = true -> sidle (fst (run s (bs ++ [t]))) = true.
    Proof.
      intros Ht. apply sidle_buf. rewrite srun_app_fst.
      set (s1 := fst (run s bs)). cbn [srun].
      pose proof (sstep_buf (fstep c) exec s1 t) as Hb.
      destruct (step s1 t) as [s2 o]. cbn [fst] in *. rewrite Hb.
      apply fstep_tail_idle. exact Ht.
    Qed.

    (* C03: bounded length — whatever arrives, within max_msg_length bytes the framer is idle
       at least once (it never waits for a terminator for ever) *)
    Theorem resync_within_maxlen s bs :
      sbounded s -> maxlen c <= Z.of_nat (length bs) ->
      exists p q, bs = p ++ q /\ p <> [] /\ sidle (fst (run s p)) = true.
    Proof.
      intros Hb Hl. destruct (frun_visits_idle bs (buf s) Hb) as (p & q & H1 & H2 & H3); [lia|].
      exists p, q. repeat split; auto. apply sidle_buf. rewrite srun_buf. exact H3.
    Qed.

    (* C03: the overflowing byte itself raises ValueError and leaves the framer idle *)
    Theorem overflow_resets s b :
      Z.of_nat (length (buf s)) = maxlen c - 1 -> is_tail c b = false ->
      step s b = ({| buf := []; dev := dev s |}, OValueError).
    Proof. intros Hl Ht. unfold sstep. rewrite (fstep_overflow _ _ Hl Ht). reflexivity. Qed.

    (* C03: idle discards bytes that cannot start a command *)
    Theorem idle_discards s b :
      sidle s = true -> is_hdr c b = false -> step s b = (s, OFalse).
    Proof.
      intros Hi Hh. apply sidle_buf in Hi. unfold sstep. rewrite Hi, (fstep_idle_discards _ Hh).
      destruct s as [bf d]. cbn in *. subst. reflexivity.
    Qed.

    (* C03: after idle the framing behaviour is that of the initial state: the sequence of
       framer events (what is returned without executing, which lines are handed to _execute)
       depends on the bytes only *)
    Definition ftrace (s : sstate D) (bs : list Z) : list fevent := snd (frun (fstep c) (buf s) bs).

    Theorem fresh_after_idle s s0 bs :
      sidle s = true -> sidle s0 = true -> ftrace s bs = ftrace s0 bs.
    Proof.
      intros H H0. apply sidle_buf in H. apply sidle_buf in H0. unfold ftrace. congruence.
    Qed.

    (* ... and the whole behaviour is that of an idle state with the same device registers *)
    Theorem idle_state_is_fresh (s : sstate D) :
      sidle s = true -> s = Build_sstate [] (dev s).
    Proof. intros H. apply sidle_buf in H. destruct s as [bf d]. cbn in *. congruence. Qed.

    (* a complete well-formed line from idle: True for every byte but the last, which
       executes the body *)
    Definition line_ok (l : list Z) : Prop :=
      match l with
      | [] => False
      | h :: r => is_hdr c h = true /\ Forall (fun b => is_tail c b = false) r /\
                  Z.of_nat (length l) < maxlen c
      end.

    Lemma run_nontail_from s r :
      buf s <> [] ->
      Forall (fun b => is_tail c b = false) r ->
      Z.of_nat (length (buf s)) + Z.of_nat (length r) < maxlen c ->
      run s r = ({| buf := buf s ++ r; dev := dev s |}, repeat OTrue (length r)).
    Proof.
      revert s. induction r as [|b r IH]; intros s Hne Hf Hl.
      - cbn. rewrite app_nil_r. destruct s; reflexivity.
      - inversion Hf as [|? ? Hb Hr]; subst. cbn [srun].
        assert (Hstep : step s b = ({| buf := buf s ++ [b]; dev := dev s |}, OTrue)).
        { unfold sstep, fstep. rewrite app_length. cbn [length] in *.
          replace (Z.of_nat (length (buf s) + 1) =? 1) with false
            by (destruct (buf s); [congruence|cbn [length]; lia]).
          replace (Z.of_nat (length (buf s) + 1) <? maxlen c) with true by lia.
          rewrite Hb. reflexivity. }
        rewrite Hstep. rewrite IH; cbn [buf dev].
        + rewrite <- app_assoc. reflexivity.
        + destruct (buf s); discriminate.
        + exact Hr.
        + rewrite app_length. cbn [length] in *. lia.
    Qed.

    Theorem line_from_idle s l t :
      sidle s = true -> line_ok l -> is_tail c t = true ->
      run s (l ++ [t]) =
      let (d', o) := exec (dev s) (body c (l ++ [t])) in
      ({| buf := []; dev := d' |}, repeat OTrue (length l) ++ [o]).
    Proof.
      intros Hi Hl Ht. apply sidle_buf in Hi. destruct l as [|h r]; [contradiction|].
      destruct Hl as (Hh & Hr & Hlen).
      rewrite srun_app. cbn [srun app].
      assert (H1 : step s h = ({| buf := [h]; dev := dev s |}, OTrue)).
      { unfold sstep. rewrite Hi, (fstep_idle_header _ Hh). reflexivity. }
      rewrite H1. rewrite run_nontail_from; cbn [buf dev]; try discriminate; auto.
      2:{ cbn [length] in *. lia. }
      cbn [app srun]. unfold sstep at 1. cbn [buf dev].
      assert (H2 : fstep c (h :: r) t = ([], EExec (body c (h :: r ++ [t])))).
      { unfold fstep. rewrite Ht. cbn [negb]. rewrite !andb_false_r.
        cbn [app length]. rewrite app_length. cbn [length] in *.
        replace (Z.of_nat (S (length r + 1)) =? 1) with false by lia. reflexivity. }
      cbn [app] in H2. rewrite H2.
      destruct (exec (dev s) (body c (h :: r ++ [t]))) as [d' o].
      cbn [repeat app]. reflexivity.
    Qed.
  End WithDevice.
End Bounded.
