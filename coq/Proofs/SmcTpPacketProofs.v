(* Proofs about Model/SmcTpPacket.v (totalpower System._send_packet / _get_status binary) against the
   independent packet reader Spec/SmcTpPacketSpec.v. *)
From DS Require Import Base.Prelude Base.Bits Model.Utils Model.SmcFloat Model.SmcTpPacket
  Spec.SmcTpPacketSpec Proofs.UtilsProofs.

(* ---------- lists ---------- *)
Lemma firstn_app_len {A} (a b : list A) n : length a = n -> firstn n (a ++ b) = a.
Proof. intros <-. rewrite firstn_app, Nat.sub_diag, firstn_all. cbn. apply app_nil_r. Qed.
Lemma skipn_app_len {A} (a b : list A) n : length a = n -> skipn n (a ++ b) = b.
Proof. intros <-. rewrite skipn_app, Nat.sub_diag, skipn_all. reflexivity. Qed.
Lemma skipn_skipn {A} : forall (x y : nat) (l : list A), skipn x (skipn y l) = skipn (x + y) l.
Proof.
  intros x y. rewrite Nat.add_comm. induction y as [|y IH]; intros l; [reflexivity|].
  destruct l; cbn [skipn Nat.add]; [now rewrite skipn_nil|apply IH].
Qed.
Lemma bytes_app a b : bytes a -> bytes b -> bytes (a ++ b).
Proof. unfold bytes. intros. apply Forall_app. auto. Qed.

(* ---------- the codec as the packet reader sees it ---------- *)
Lemma int2_bytes_le l : bytes l -> int2 (bytes_to_binary l true) = le_val l.
Proof.
  unfold bytes_to_binary. induction 1 as [|b l Hb Hl IH]; [reflexivity|].
  cbn [rev le_val]. rewrite map_app, concat_app. cbn [map concat]. rewrite app_nil_r.
  rewrite int2_app. destruct (byte_bits b Hb) as [Hc _]. unfold chunk_ok in Hc. rewrite Hc, IH.
  rewrite int2_zfill, int2_bin by (unfold byte in Hb; lia). change (2 ^ Z.of_nat 8) with 256. lia.
Qed.

Lemma u2b v n : (0 < n)%nat -> 0 <= v < 2 ^ Z.of_nat (8 * n) ->
  exists l, uint_to_bytes v n true = Some l /\ length l = n /\ bytes l /\ le_val l = v.
Proof.
  intros Hn Hv. destruct (uint_to_bytes v n true) as [l|] eqn:E.
  - destruct (uint_bytes_roundtrip _ _ _ _ Hn E) as (A & B & C). exists l. repeat split; auto.
    destruct l as [|x l]; [cbn in B; lia|]. unfold bytes_to_uint in A.
    rewrite int2_bytes_le in A by exact C. congruence.
  - unfold uint_to_bytes in E.
    destruct ((v <? 0) || (2 ^ Z.of_nat (8 * n) - 1 <? v)) eqn:Hc; [lia|discriminate].
Qed.

Lemma u2b4 v : 0 <= v < 4294967296 ->
  exists l, uint_to_bytes v 4 true = Some l /\ length l = 4%nat /\ bytes l /\ le_val l = v.
Proof. intros H. apply u2b; [lia|]. replace (2 ^ Z.of_nat (8 * 4)) with 4294967296 by reflexivity. exact H. Qed.
Lemma u2b2 v : 0 <= v < 65536 ->
  exists l, uint_to_bytes v 2 true = Some l /\ length l = 2%nat /\ bytes l /\ le_val l = v.
Proof. intros H. apply u2b; [lia|]. replace (2 ^ Z.of_nat (8 * 2)) with 65536 by reflexivity. exact H. Qed.

Lemma u2b4_refused v : v < 0 \/ 4294967296 <= v -> uint_to_bytes v 4 true = None.
Proof. intros H. apply uint_out_of_range_refused. replace (2 ^ Z.of_nat (8 * 4)) with 4294967296 by reflexivity. exact H. Qed.
Lemma u2b2_refused v : v < 0 \/ 65536 <= v -> uint_to_bytes v 2 true = None.
Proof. intros H. apply uint_out_of_range_refused. replace (2 ^ Z.of_nat (8 * 2)) with 65536 by reflexivity. exact H. Qed.

(* ---------- _get_status ---------- *)
Definition bitz (z : Z) : Prop := z = 0 \/ z = 1.

Lemma get_status_val z c t : bitz z -> bitz c -> bitz t ->
  exists sb, get_status z c t = Some sb /\ length sb = 2%nat /\ bytes sb /\ le_val sb = status_word z c t.
Proof.
  intros [->| ->] [->| ->] [->| ->]; eexists; (split; [vm_compute; reflexivity|]);
    (split; [reflexivity|]); (split; [apply bytesb_spec; reflexivity|reflexivity]).
Qed.

Lemma status_word_fields z c t : bitz z -> bitz c -> bitz t ->
  sw_wellformed (status_word z c t) = true /\ sw_toggle (status_word z c t) = (t =? 1)
  /\ sw_cal (status_word z c t) = (c =? 1) /\ sw_zero (status_word z c t) = (z =? 1).
Proof. intros [->| ->] [->| ->] [->| ->]; vm_compute; auto. Qed.

(* ---------- the channel loop ---------- *)
Definition draw_ok (sp d : Z) : Prop := 0 <= d * sp < 4294967296.
Definition epoch_ok (e : Z) : Prop := 0 <= e < 4294967296.

Lemma samples_ok sp : forall k draws, (k <= length draws)%nat -> Forall (draw_ok sp) draws ->
  exists bs, samples k sp draws = inl (bs, skipn k draws) /\ length bs = (4 * k)%nat /\ bytes bs
             /\ words4 k bs = map (fun d => d * sp) (firstn k draws).
Proof.
  induction k as [|k IH]; intros draws Hl Hd.
  - exists []. cbn. repeat split; constructor.
  - destruct draws as [|d ds]; [cbn in Hl; lia|]. inversion Hd as [|? ? Hd1 Hd2]; subst.
    destruct (u2b4 (d * sp) Hd1) as (b & Eb & Lb & Bb & Vb).
    destruct (IH ds ltac:(cbn in Hl; lia) Hd2) as (bs & Es & Ls & Bs & Ws).
    exists (b ++ bs). cbn [samples]. rewrite Eb, Es. repeat split.
    + rewrite app_length. lia.
    + apply bytes_app; assumption.
    + cbn [words4]. rewrite (firstn_app_len b bs 4 Lb), (skipn_app_len b bs 4 Lb), Vb, Ws. reflexivity.
Qed.

Lemma own_draws_fit sp d : 1 <= sp <= 1000 -> 200 <= d <= 2000 -> draw_ok sp d.
Proof. unfold draw_ok. intros H1 H2. nia. Qed.

(* ---------- one record ---------- *)
Record guard (st : pstate) : Prop := {
  g_z : bitz (ps_zero st); g_c : bitz (ps_calon st); g_t : bitz (ps_toggle st);
  g_cnt : 0 <= ps_counter st < 65536 }.

Definition rec_next (st : pstate) : pstate :=
  set_counter (set_cal (cal_step st) (ps_caloff (cal_step st)) 0) (next_counter (ps_counter st)).

Lemma cal_step_same st : ps_sp (cal_step st) = ps_sp st /\ ps_counter (cal_step st) = ps_counter st
  /\ ps_calper (cal_step st) = ps_calper st /\ ps_toggle (cal_step st) = ps_toggle st
  /\ ps_zero (cal_step st) = ps_zero st /\ ps_channels (cal_step st) = ps_channels st.
Proof. unfold cal_step. destruct (ps_calper st =? 0); [auto 10|]. destruct (ps_caloff st =? ps_calper st); cbn; auto 10. Qed.

Lemma cal_step_calon st :
  ps_calon (cal_step st) = (if negb (ps_calper st =? 0) && (ps_caloff st =? ps_calper st) then 1 else ps_calon st)
  /\ ps_caloff (cal_step st) = (if ps_calper st =? 0 then ps_caloff st
                                else if negb (ps_calper st =? 0) && (ps_caloff st =? ps_calper st) then 0
                                else ps_caloff st + 1).
Proof. unfold cal_step. destruct (ps_calper st =? 0); [auto|]. destruct (ps_caloff st =? ps_calper st); cbn; auto. Qed.

Lemma next_counter_mod c : 0 <= c < 65536 -> next_counter c = (c + 1) mod 65536 /\ 0 <= next_counter c < 65536.
Proof. intros H. unfold next_counter. destruct (c + 1 =? 65536) eqn:E; lia. Qed.

Definition head_rec (st : pstate) (e : Z) (draws : list Z) : drec :=
  let mark := negb (ps_calper st =? 0) && (ps_caloff st =? ps_calper st) in
  {| r_epoch := e; r_counter := ps_counter st;
     r_status := status_word (ps_zero st) (if mark then 1 else ps_calon st) (ps_toggle st);
     r_samples := map (fun d => d * ps_sp st) (firstn (ps_channels st) draws) |}.

Lemma record_ok st e draws : guard st -> epoch_ok e -> (ps_channels st <= length draws)%nat ->
  Forall (draw_ok (ps_sp st)) draws ->
  exists b, record st (Some e) draws = inl (b, skipn (ps_channels st) draws, rec_next st)
            /\ length b = rec_size (ps_channels st) /\ bytes b
            /\ decode_record (ps_channels st) b = Some (head_rec st e draws).
Proof.
  intros [Gz Gc Gt Gn] He Hl Hd.
  destruct (cal_step_same st) as (S1 & S2 & S3 & S4 & S5 & S6). destruct (cal_step_calon st) as (C1 & C2).
  destruct (u2b4 e He) as (eb & Ee & Le & Be & Ve).
  destruct (u2b2 (ps_counter st) Gn) as (cb & Ec & Lc & Bc & Vc).
  assert (Gc' : bitz (ps_calon (cal_step st))).
  { rewrite C1. destruct (negb (ps_calper st =? 0) && (ps_caloff st =? ps_calper st)); [right; reflexivity|exact Gc]. }
  destruct (get_status_val (ps_zero (cal_step st)) (ps_calon (cal_step st)) (ps_toggle (cal_step st)))
    as (sb & Es & Ls & Bs & Vs); [rewrite S5; exact Gz|exact Gc'|rewrite S4; exact Gt|].
  destruct (samples_ok (ps_sp st) (ps_channels st) draws Hl Hd) as (smp & Em & Lm & Bm & Wm).
  exists (eb ++ cb ++ sb ++ smp). unfold record. rewrite Ee, Ec, Es.
  cbn [set_cal ps_channels ps_sp ps_counter]. rewrite S6, S1, Em, S2. unfold rec_next. repeat split.
  - rewrite !app_length, Le, Lc, Ls, Lm. unfold rec_size. lia.
  - repeat apply bytes_app; assumption.
  - unfold decode_record.
    assert (Lall : length (eb ++ cb ++ sb ++ smp) = rec_size (ps_channels st)).
    { rewrite !app_length, Le, Lc, Ls, Lm. unfold rec_size. lia. }
    rewrite Lall, Nat.eqb_refl.
    assert (Ball : bytesb (eb ++ cb ++ sb ++ smp) = true) by (apply bytesb_spec; repeat apply bytes_app; assumption).
    rewrite Ball. cbn [andb]. unfold head_rec. f_equal.
    rewrite (firstn_app_len eb _ 4 Le), (skipn_app_len eb _ 4 Le), (firstn_app_len cb _ 2 Lc).
    replace (skipn 6 (eb ++ cb ++ sb ++ smp)) with (sb ++ smp)
      by (rewrite (app_assoc eb cb); symmetry; apply skipn_app_len; rewrite app_length; lia).
    replace (skipn 8 (eb ++ cb ++ sb ++ smp)) with smp
      by (rewrite (app_assoc eb cb), (app_assoc (eb ++ cb) sb); symmetry; apply skipn_app_len; rewrite !app_length; lia).
    rewrite (firstn_app_len sb _ 2 Ls), Ve, Vc, Vs, Wm, S5, S4, C1. reflexivity.
Qed.

(* ---------- the record loop ---------- *)
Lemma rec_next_fields st : guard st ->
  guard (rec_next st) /\ ps_sp (rec_next st) = ps_sp st /\ ps_calper (rec_next st) = ps_calper st
  /\ ps_zero (rec_next st) = ps_zero st /\ ps_toggle (rec_next st) = ps_toggle st
  /\ ps_channels (rec_next st) = ps_channels st /\ ps_calon (rec_next st) = 0
  /\ ps_counter (rec_next st) = (ps_counter st + 1) mod 65536
  /\ ps_caloff (rec_next st) = ps_caloff (cal_step st).
Proof.
  intros [Gz Gc Gt Gn]. destruct (cal_step_same st) as (S1 & S2 & S3 & S4 & S5 & S6).
  destruct (next_counter_mod _ Gn) as [N1 N2].
  unfold rec_next.
  split; [constructor; cbn [set_counter set_cal ps_sp ps_counter ps_calper ps_caloff ps_calon ps_toggle ps_zero ps_channels];
          rewrite ?S5, ?S4; [exact Gz|left; reflexivity|exact Gt|exact N2]|].
  cbn [set_counter set_cal ps_sp ps_counter ps_calper ps_caloff ps_calon ps_toggle ps_zero ps_channels].
  rewrite N1. repeat split; assumption.
Qed.

Definition spec_of (st : pstate) (es draws : list Z) : list drec :=
  spec_recs (ps_sp st) (ps_calper st) (ps_zero st) (ps_toggle st) (ps_channels st)
            (ps_counter st) (ps_caloff st) (ps_calon st) es draws.

Lemma records_ok : forall es st draws, guard st -> Forall epoch_ok es ->
  (length es * ps_channels st <= length draws)%nat -> Forall (draw_ok (ps_sp st)) draws ->
  exists pk st', records st (map Some es) draws = inl (pk, skipn (length es * ps_channels st) draws, st')
    /\ length pk = (length es * rec_size (ps_channels st))%nat
    /\ decode_packet (ps_channels st) (length es) pk = Some (spec_of st es draws)
    /\ guard st' /\ ps_sp st' = ps_sp st /\ ps_calper st' = ps_calper st /\ ps_zero st' = ps_zero st
    /\ ps_toggle st' = ps_toggle st /\ ps_channels st' = ps_channels st
    /\ ps_counter st' = (ps_counter st + Z.of_nat (length es)) mod 65536.
Proof.
  induction es as [|e es IH]; intros st draws G He Hl Hd.
  - exists [], st. cbn. repeat split; try apply G; try reflexivity.
    destruct G as [_ _ _ Gn]. rewrite Z.add_0_r, Z.mod_small by lia. reflexivity.
  - inversion He as [|? ? He1 He2]; subst.
    assert (Hl1 : (ps_channels st <= length draws)%nat) by (cbn [length] in Hl; rewrite Nat.mul_succ_l in Hl; lia).
    destruct (record_ok st e draws G He1 Hl1 Hd) as (b & Eb & Lb & Bb & Db).
    destruct (rec_next_fields st G) as (G1 & P1 & P2 & P3 & P4 & P5 & P6 & P7 & P8).
    destruct (IH (rec_next st) (skipn (ps_channels st) draws) G1 He2) as (pk & st' & Er & Lp & Dp & G' & Q1 & Q2 & Q3 & Q4 & Q5 & Q6).
    { rewrite P5, skipn_length. cbn [length] in Hl. rewrite Nat.mul_succ_l in Hl. lia. }
    { rewrite P1. apply Forall_forall. intros x Hx. eapply Forall_forall in Hd; [exact Hd|].
      rewrite <- (firstn_skipn (ps_channels st) draws). apply in_or_app. right. exact Hx. }
    exists (b ++ pk), st'. cbn [map records length]. rewrite Eb, Er.
    split; [f_equal; f_equal; rewrite P5, skipn_skipn, Nat.mul_succ_l; reflexivity|].
    split; [rewrite app_length, Lb, Lp, P5, Nat.mul_succ_l; lia|].
    split.
    { cbn [decode_packet]. rewrite (firstn_app_len b pk _ Lb), (skipn_app_len b pk _ Lb), Db.
      rewrite P5 in Dp. rewrite Dp. f_equal. unfold spec_of. cbn [spec_recs]. f_equal.
      rewrite P1, P2, P3, P4, P5, P6, P7, P8. destruct (cal_step_calon st) as (_ & C2). rewrite C2. reflexivity. }
    split; [exact G'|].
    repeat split; try congruence.
    rewrite Q6, P7. rewrite Nat2Z.inj_succ. rewrite Zplus_mod_idemp_l. f_equal. lia.
Qed.

(* ---------- number of records: int(1000 / sample_period), swept over the periods that give any ---------- *)
Definition sp_range : list Z := map Z.of_nat (seq 1 1000).

Lemma n_records_sweep : forallb (fun sp => match n_records sp with
                                           | Some n => Nat.eqb n (Z.to_nat (1000 / sp))
                                           | None => false end) sp_range = true.
Proof. vm_compute. reflexivity. Qed.

Lemma n_records_val sp : 1 <= sp <= 1000 -> n_records sp = Some (Z.to_nat (1000 / sp)).
Proof.
  intros H. pose proof n_records_sweep as S. rewrite forallb_forall in S.
  specialize (S sp). destruct (n_records sp) as [n|].
  - f_equal. apply Nat.eqb_eq. apply S. unfold sp_range. apply in_map_iff. exists (Z.to_nat sp).
    split; [lia|]. apply in_seq. lia.
  - assert (false = true); [|discriminate]. apply S. unfold sp_range. apply in_map_iff. exists (Z.to_nat sp).
    split; [lia|]. apply in_seq. lia.
Qed.

(* ---------- one whole packet ---------- *)
Lemma epochs_length : forall n ts step, length (epochs n ts step) = n.
Proof. induction n as [|n IH]; intros ts step; cbn [epochs length]; [reflexivity|]. now rewrite IH. Qed.

Theorem packet_decodes st clock draws es :
  guard st -> 1 <= ps_sp st <= 1000 ->
  packet_epochs (ps_sp st) clock (Z.to_nat (1000 / ps_sp st)) = map Some es -> Forall epoch_ok es ->
  (Z.to_nat (1000 / ps_sp st) * ps_channels st <= length draws)%nat -> Forall (draw_ok (ps_sp st)) draws ->
  exists pk st', build_packet st clock draws = POk pk st'
    /\ length pk = (Z.to_nat (1000 / ps_sp st) * rec_size (ps_channels st))%nat
    /\ decode_packet (ps_channels st) (Z.to_nat (1000 / ps_sp st)) pk = Some (spec_of st es draws)
    /\ guard st' /\ ps_toggle st' = flip (ps_toggle st)
    /\ ps_counter st' = (ps_counter st + 1000 / ps_sp st) mod 65536
    /\ ps_sp st' = ps_sp st /\ ps_calper st' = ps_calper st /\ ps_zero st' = ps_zero st
    /\ ps_channels st' = ps_channels st.
Proof.
  intros G Hsp Hes He Hl Hd.
  assert (Len : length es = Z.to_nat (1000 / ps_sp st)).
  { apply (f_equal (@length (option Z))) in Hes. rewrite map_length in Hes. rewrite <- Hes.
    unfold packet_epochs. apply epochs_length. }
  destruct (records_ok es st draws G He) as (pk & st' & Er & Lp & Dp & G' & Q1 & Q2 & Q3 & Q4 & Q5 & Q6);
    [rewrite Len; exact Hl|exact Hd|].
  exists pk, (set_toggle st' (flip (ps_toggle st'))).
  unfold build_packet. replace (ps_sp st =? 0) with false by lia.
  replace (sp_limit <? Z.abs (ps_sp st)) with false by (unfold sp_limit; change (2 ^ 53) with 9007199254740992; lia).
  rewrite (n_records_val _ Hsp), Hes. unfold packet_core. rewrite Er.
  rewrite Len in Lp, Dp, Q6. destruct G' as [Gz Gc Gt Gn].
  split; [reflexivity|]. split; [exact Lp|]. split; [exact Dp|].
  split.
  { constructor; cbn [set_toggle ps_zero ps_calon ps_toggle ps_counter]; try assumption.
    unfold flip. destruct (ps_toggle st' =? 0); [right|left]; reflexivity. }
  cbn [set_toggle ps_zero ps_calon ps_toggle ps_counter ps_sp ps_calper ps_channels].
  split; [rewrite Q4; reflexivity|].
  split; [rewrite Q6; f_equal; f_equal; apply Z2Nat.id; apply Z.div_pos; lia|].
  repeat split; congruence.
Qed.

(* ---------- closed forms of the expected records ---------- *)
Lemma spec_nth_counter sp per z t ch : forall es c k con draws i r, 0 <= c < 65536 ->
  nth_error (spec_recs sp per z t ch c k con es draws) i = Some r ->
  r_counter r = (c + Z.of_nat i) mod 65536 /\ 0 <= r_counter r < 65536.
Proof.
  induction es as [|e es IH]; intros c k con draws i r Hc H; [destruct i; discriminate|].
  destruct i as [|i]; cbn [spec_recs nth_error] in H.
  - injection H as <-. cbn. rewrite Z.add_0_r, Z.mod_small by lia. lia.
  - apply IH in H; [|lia]. destruct H as [H1 H2]. split; [|exact H2]. rewrite H1, Zplus_mod_idemp_l. f_equal. lia.
Qed.

Lemma spec_nth_samples sp per z t ch : forall es c k con draws i r,
  nth_error (spec_recs sp per z t ch c k con es draws) i = Some r ->
  r_samples r = map (fun d => d * sp) (firstn ch (skipn (i * ch) draws)) /\ r_epoch r = nth i es 0.
Proof.
  induction es as [|e es IH]; intros c k con draws i r H; [destruct i; discriminate|].
  destruct i as [|i]; cbn [spec_recs nth_error] in H.
  - injection H as <-. cbn. auto.
  - apply IH in H. destruct H as [H1 H2]. split; [|exact H2]. rewrite H1, skipn_skipn. do 3 f_equal. rewrite Nat.mul_succ_l. lia.
Qed.

Lemma spec_nth_status sp per z t ch : forall es c k con draws i r, bitz z -> bitz t -> bitz con ->
  nth_error (spec_recs sp per z t ch c k con es draws) i = Some r ->
  sw_wellformed (r_status r) = true /\ sw_toggle (r_status r) = (t =? 1) /\ sw_zero (r_status r) = (z =? 1).
Proof.
  induction es as [|e es IH]; intros c k con draws i r Hz Ht Hcon H; [destruct i; discriminate|].
  destruct i as [|i]; cbn [spec_recs nth_error] in H.
  - injection H as <-. cbn [r_status].
    assert (Hc : bitz (if negb (per =? 0) && (k =? per) then 1 else con))
      by (destruct (negb (per =? 0) && (k =? per)); [right; reflexivity|exact Hcon]).
    destruct (status_word_fields z _ t Hz Hc Ht) as (A & B & _ & D). auto.
  - eapply IH; [exact Hz|exact Ht| |exact H]. left; reflexivity.
Qed.

(* the calibration mark: with calOnPeriod = per > 0 and 0 <= k <= per samples since the last mark,
   record i carries the mark exactly when (k + i) mod (per + 1) = per; a calOn left pending by `N 1`
   additionally marks record 0 *)
Lemma spec_nth_cal_pos sp per z t ch : forall es c k con draws i r, bitz z -> bitz t -> bitz con ->
  0 < per -> 0 <= k <= per ->
  nth_error (spec_recs sp per z t ch c k con es draws) i = Some r ->
  sw_cal (r_status r) = ((k + Z.of_nat i) mod (per + 1) =? per) || ((Z.of_nat i =? 0) && (con =? 1)).
Proof.
  induction es as [|e es IH]; intros c k con draws i r Hz Ht Hcon Hp Hk H; [destruct i; discriminate|].
  destruct i as [|i]; cbn [spec_recs nth_error] in H.
  - injection H as <-. cbn [r_status].
    replace (per =? 0) with false by lia. cbn [negb andb].
    assert (Hc : bitz (if k =? per then 1 else con)) by (destruct (k =? per); [right; reflexivity|exact Hcon]).
    destruct (status_word_fields z _ t Hz Hc Ht) as (_ & _ & C & _). rewrite C.
    change (Z.of_nat 0) with 0. rewrite Z.add_0_r, Z.mod_small by lia. cbn [Z.eqb andb].
    destruct (k =? per); [reflexivity|]. cbn [orb]. reflexivity.
  - replace (per =? 0) with false in H by lia. cbn [negb andb] in H.
    apply IH in H; try assumption; try (left; reflexivity).
    + rewrite H. replace (Z.of_nat (S i) =? 0) with false by lia. change (0 =? 1) with false.
      rewrite andb_false_r. cbn [andb]. rewrite !orb_false_r.
      destruct (k =? per) eqn:Ek.
      * assert (k = per) by lia. subst k. rewrite Z.add_0_l.
        replace (per + Z.of_nat (S i)) with (Z.of_nat i + 1 * (per + 1)) by lia.
        rewrite Z_mod_plus_full. reflexivity.
      * f_equal. f_equal. lia.
    + destruct (k =? per) eqn:Ek; lia.
Qed.

(* calOnPeriod <= 0: never a mark (except a pending calOn on record 0) *)
Lemma spec_nth_cal_off sp per z t ch : forall es c k con draws i r, bitz z -> bitz t -> bitz con ->
  per <= 0 -> 0 <= k ->
  nth_error (spec_recs sp per z t ch c k con es draws) i = Some r ->
  sw_cal (r_status r) = (Z.of_nat i =? 0) && (con =? 1).
Proof.
  induction es as [|e es IH]; intros c k con draws i r Hz Ht Hcon Hp Hk H; [destruct i; discriminate|].
  assert (Hm : negb (per =? 0) && (k =? per) = false) by lia.
  destruct i as [|i]; cbn [spec_recs nth_error] in H; rewrite Hm in H.
  - injection H as <-. cbn [r_status].
    destruct (status_word_fields z con t Hz Hcon Ht) as (_ & _ & C & _). rewrite C. reflexivity.
  - apply IH in H; try assumption; try (left; reflexivity).
    + rewrite H. replace (Z.of_nat (S i) =? 0) with false by lia. destruct (Z.of_nat i =? 0); reflexivity.
    + destruct (per =? 0); lia.
Qed.

(* ---------- invariants that need no guard: any state, clock, draws, outcome ---------- *)
Definition cnt_ok (st : pstate) : Prop := 0 <= ps_counter st < 65536.

Lemma record_cnt st e draws : cnt_ok st ->
  match record st e draws with
  | inl (_, _, st') => cnt_ok st' /\ ps_toggle st' = ps_toggle st
  | inr (_, st') => cnt_ok st' /\ ps_toggle st' = ps_toggle st
  end.
Proof.
  intros H. unfold cnt_ok in *. destruct (cal_step_same st) as (S1 & S2 & S3 & S4 & S5 & S6).
  unfold record. destruct e as [e|]; [|auto].
  destruct (uint_to_bytes e 4 true); [|auto].
  destruct (uint_to_bytes (ps_counter st) 2 true); [|auto].
  destruct (get_status _ _ _); [|cbn; rewrite S2, S4; auto].
  destruct (samples _ _ _) as [[smp rest]|err]; cbn; rewrite ?S2, ?S4; [|auto].
  split; [|reflexivity]. unfold next_counter. destruct (ps_counter st + 1 =? 65536) eqn:E; lia.
Qed.

Lemma records_cnt : forall es st draws, cnt_ok st ->
  match records st es draws with
  | inl (_, _, st') => cnt_ok st' /\ ps_toggle st' = ps_toggle st
  | inr (_, st') => cnt_ok st' /\ ps_toggle st' = ps_toggle st
  end.
Proof.
  induction es as [|e es IH]; intros st draws H; cbn [records]; [auto|].
  pose proof (record_cnt st e draws H) as R. destruct (record st e draws) as [[[b rest] st1]|[err st1]]; [|exact R].
  destruct R as [R1 R2]. pose proof (IH st1 rest R1) as R'.
  destruct (records st1 es rest) as [[[bs rest'] st2]|[err st2]]; destruct R' as [R3 R4]; split; congruence.
Qed.

Lemma build_packet_inv st clock draws : cnt_ok st ->
  match build_packet st clock draws with
  | POk _ st' => cnt_ok st' /\ ps_toggle st' = flip (ps_toggle st)
  | PErr _ st' => cnt_ok st' /\ ps_toggle st' = ps_toggle st
  end.
Proof.
  intros H. unfold build_packet. destruct (ps_sp st =? 0); [auto|].
  destruct (sp_limit <? Z.abs (ps_sp st)); [auto|]. destruct (n_records (ps_sp st)) as [n|]; [|auto].
  unfold packet_core. pose proof (records_cnt (packet_epochs (ps_sp st) clock n) st draws H) as R.
  destruct (records st _ draws) as [[[pk rest] st1]|[err st1]]; [|exact R].
  destruct R as [R1 R2]. cbn. unfold cnt_ok in *. cbn. rewrite R2. auto.
Qed.

Definition res_state (r : presult) : pstate := match r with POk _ s => s | PErr _ s => s end.

(* over any history of packets (any clocks, any draws, any parameters): the counter never leaves 0..65535 *)
Theorem run_packets_counter : forall ins st, cnt_ok st ->
  Forall (fun r => cnt_ok (res_state r)) (fst (run_packets st ins)) /\ cnt_ok (snd (run_packets st ins)).
Proof.
  induction ins as [|i ins IH]; intros st H; cbn [run_packets]; [split; [constructor|exact H]|].
  pose proof (build_packet_inv st (pi_clock i) (pi_draws i) H) as B.
  destruct (build_packet st (pi_clock i) (pi_draws i)) as [pk st1|e st1]; destruct B as [B1 B2].
  - specialize (IH st1 B1). destruct (run_packets st1 ins) as [rs stf]. cbn in *. destruct IH as [I1 I2].
    split; [constructor; [exact B1|exact I1]|exact I2].
  - cbn. split; [constructor; [exact B1|constructor]|exact B1].
Qed.

(* the toggle of consecutive successfully built packets alternates *)
Fixpoint toggles_alternate (t : Z) (rs : list presult) : Prop :=
  match rs with
  | [] => True
  | POk _ s :: rs' => ps_toggle s = flip t /\ toggles_alternate (ps_toggle s) rs'
  | PErr _ s :: rs' => ps_toggle s = t /\ toggles_alternate t rs'
  end.

Theorem run_packets_toggle : forall ins st, cnt_ok st -> toggles_alternate (ps_toggle st) (fst (run_packets st ins)).
Proof.
  induction ins as [|i ins IH]; intros st H; cbn [run_packets]; [exact I|].
  pose proof (build_packet_inv st (pi_clock i) (pi_draws i) H) as B.
  destruct (build_packet st (pi_clock i) (pi_draws i)) as [pk st1|e st1]; destruct B as [B1 B2].
  - specialize (IH st1 B1). destruct (run_packets st1 ins) as [rs stf]. cbn in *. split; [exact B2|exact IH].
  - cbn. auto.
Qed.

(* ---------- what the code refuses ---------- *)
Lemma refuses_zero_period st clock draws : ps_sp st = 0 -> build_packet st clock draws = PErr EZeroDivision st.
Proof. intros H. unfold build_packet. rewrite H. reflexivity. Qed.

(* an epoch second outside the 4-byte field (time.time() before 1970 or from 2106-02-07 on) *)
Lemma refuses_epoch st e es draws : e < 0 \/ 4294967296 <= e ->
  packet_core st (Some e :: es) draws = PErr EValueError st.
Proof. intros H. unfold packet_core. cbn [records]. unfold record. rewrite (u2b4_refused e H). reflexivity. Qed.

(* a counter outside 0..65535 (not reachable, see run_packets_counter) *)
Lemma refuses_counter st e es draws : epoch_ok e -> ps_counter st < 0 \/ 65536 <= ps_counter st ->
  packet_core st (Some e :: es) draws = PErr EValueError st.
Proof.
  intros He H. unfold packet_core. cbn [records]. unfold record.
  destruct (u2b4 e He) as (eb & Ee & _). rewrite Ee, (u2b2_refused _ H). reflexivity.
Qed.

(* a sample randint * sample_period outside the 4-byte field: first channel of the first record *)
Lemma refuses_sample st e es d draws : guard st -> epoch_ok e -> (0 < ps_channels st)%nat ->
  d * ps_sp st < 0 \/ 4294967296 <= d * ps_sp st ->
  exists st', packet_core st (Some e :: es) (d :: draws) = PErr EValueError st'
              /\ ps_counter st' = ps_counter st /\ ps_toggle st' = ps_toggle st /\ ps_calon st' = 0.
Proof.
  intros [Gz Gc Gt Gn] He Hch H.
  destruct (cal_step_same st) as (S1 & S2 & S3 & S4 & S5 & S6). destruct (cal_step_calon st) as (C1 & C2).
  destruct (u2b4 e He) as (eb & Ee & _). destruct (u2b2 (ps_counter st) Gn) as (cb & Ec & _).
  assert (Gc' : bitz (ps_calon (cal_step st))).
  { rewrite C1. destruct (negb (ps_calper st =? 0) && (ps_caloff st =? ps_calper st)); [right; reflexivity|exact Gc]. }
  destruct (get_status_val (ps_zero (cal_step st)) (ps_calon (cal_step st)) (ps_toggle (cal_step st)))
    as (sb & Es & _); [rewrite S5; exact Gz|exact Gc'|rewrite S4; exact Gt|].
  eexists. unfold packet_core. cbn [records]. unfold record. rewrite Ee, Ec, Es.
  cbn [set_cal ps_channels ps_sp]. rewrite S6, S1.
  destruct (ps_channels st) as [|k]; [lia|]. cbn [samples]. rewrite (u2b4_refused _ H).
  split; [reflexivity|]. cbn. auto.
Qed.
