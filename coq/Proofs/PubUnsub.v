(* C08 -- every posted unsubscription is processed before the second loop head after it: the
   liveness half of "a client whose unsubscription has been processed never receives another
   frame". *)
From DS Require Import Base.Prelude Model.PubModel Proofs.PubInv Proofs.PubProofs Proofs.PubBound.

Definition pending_unsub (s : state) (c : cid) : Prop := In c (unsubq s ++ pend s).

(* where a still-pending request may be, relative to the tick i0 in which it was seen pending *)
Definition J (i0 : Z) (c : cid) (s : state) : Prop :=
  ~ pending_unsub s c \/ iter s = i0 \/
  (iter s = i0 + 1 /\ (pc s = PDrainU \/ (pc s = PDrainS /\ ~ In c (unsubq s)))).

Lemma pub_drainU cf s : stat s = Running -> pc s = PDrainU ->
  pc (fst (pub_step cf s)) = PDrainU \/
  (pc (fst (pub_step cf s)) = PDrainS /\ unsubq (fst (pub_step cf s)) = []).
Proof.
  intros Hs Hpc. unfold pub_step. rewrite Hs, Hpc.
  destruct (unsubq s); cbn; [right; split; reflexivity|left; reflexivity].
Qed.

Lemma pub_drainS cf s : Inv s -> period cf <> 0 -> pc s = PDrainS ->
  unsubq (fst (pub_step cf s)) = unsubq s /\
  (pc (fst (pub_step cf s)) = PDrainS \/ pend (fst (pub_step cf s)) = []).
Proof.
  intros I Hper Hpc. pose proof (inv_pub cf s I Hper) as I'. revert I'.
  unfold pub_step. rewrite (i_stat s I), Hpc.
  destruct (subq s) eqn:Hq; [|cbn; intros _; split; [reflexivity|left; reflexivity]].
  destruct (inv_after_update cf s I Hpc Hq Hper) as (subs' & -> & _). cbn [fst]. intros I'.
  destruct (after_update_proj cf s subs') as (_ & Hu & _ & _ & _ & _ & _ & H).
  split; [exact Hu|]. right. apply (H (i_stat _ I')).
Qed.

Lemma J_step cf s l s' i0 c : period cf <> 0 -> Inv s -> phase_of s c = CDone ->
  J i0 c s -> step cf s l = Some s' -> J i0 c s'.
Proof.
  intros Hper I Hp HJ H. unfold step in H.
  destruct (step_ev cf s l) as [[s1 e]|] eqn:E; [|discriminate]. injection H as <-.
  destruct l as [x|x|x|]; cbn [step_ev] in E.
  - cbn in E. destruct (phase_of s x); try discriminate. injection E as <- <-. exact HJ.
  - cbn in E. destruct (phase_of s x); try discriminate.
    destruct (mbox s x); injection E as <- <-; exact HJ.
  - cbn in E. destruct (phase_of s x) eqn:Hx; try discriminate. injection E as <- <-.
    assert (Hne : c <> x) by congruence.
    unfold J, pending_unsub in *. cbn.
    destruct HJ as [HJ|[HJ|[HJ1 [HJ2|[HJ2 HJ3]]]]].
    + left. rewrite <- app_assoc, in_app_iff. cbn. rewrite in_app_iff in HJ.
      intros [Hi|[Hi|Hi]]; try tauto. congruence.
    + right; left; exact HJ.
    + right; right. split; [exact HJ1|left; exact HJ2].
    + right; right. split; [exact HJ1|right]. split; [exact HJ2|].
      rewrite in_app_iff. cbn. intros [Hi|[Hi|[]]]; [tauto|congruence].
  - injection E as E. assert (Hs : s1 = fst (pub_step cf s)) by (rewrite E; reflexivity).
    subst s1. clear E. unfold J, pending_unsub in *.
    destruct HJ as [HJ|[HJ|[HJ1 [HJ2|[HJ2 HJ3]]]]].
    + left. intros Hi. apply HJ. eapply pub_step_uns; eauto.
    + destruct (pc s) eqn:Hpc.
      * right; right. rewrite (pub_top cf s (i_stat s I) Hpc). split; [lia|left].
        unfold pub_step. rewrite (i_stat s I), Hpc. reflexivity.
      * right; left. destruct (pub_work cf s I Hper) as [_ ->]; [congruence|exact HJ].
      * right; left. destruct (pub_work cf s I Hper) as [_ ->]; [congruence|exact HJ].
      * right; left. destruct (pub_work cf s I Hper) as [_ ->]; [congruence|exact HJ].
      * right; left. destruct (pub_work cf s I Hper) as [_ ->]; [congruence|exact HJ].
    + right; right. destruct (pub_work cf s I Hper) as [_ ->]; [congruence|].
      split; [exact HJ1|]. destruct (pub_drainU cf s (i_stat s I) HJ2) as [Hd|[Hd1 Hd2]].
      * left; exact Hd.
      * right. split; [exact Hd1|]. rewrite Hd2. intros [].
    + destruct (pub_drainS cf s I Hper HJ2) as [Hu [Hd|Hd]].
      * right; right. destruct (pub_work cf s I Hper) as [_ ->]; [congruence|].
        split; [exact HJ1|right]. split; [exact Hd|]. rewrite Hu. exact HJ3.
      * left. rewrite Hu, Hd, app_nil_r. exact HJ3.
Qed.

Lemma phase_done_step cf s l s' c : phase_of s c = CDone -> step cf s l = Some s' ->
  phase_of s' c = CDone.
Proof.
  intros Hp H. unfold step in H.
  destruct (step_ev cf s l) as [[s1 e]|] eqn:E; [|discriminate]. injection H as <-.
  destruct l as [x|x|x|]; cbn [step_ev] in E.
  - cbn in E. destruct (phase_of s x) eqn:Hx; try discriminate. injection E as <- <-.
    cbn. rewrite upd_other by congruence. exact Hp.
  - cbn in E. destruct (phase_of s x); try discriminate.
    destruct (mbox s x); injection E as <- <-; exact Hp.
  - cbn in E. destruct (phase_of s x) eqn:Hx; try discriminate. injection E as <- <-.
    cbn. rewrite upd_other by congruence. exact Hp.
  - injection E as E. assert (Hs : s1 = fst (pub_step cf s)) by (rewrite E; reflexivity).
    subst s1. destruct (pub_step_frame cf s) as (-> & _). exact Hp.
Qed.

Lemma J_run cf : period cf <> 0 -> forall ls s s' i0 c, Inv s -> phase_of s c = CDone ->
  J i0 c s -> run cf s ls = Some s' -> J i0 c s' /\ phase_of s' c = CDone.
Proof.
  intros Hper ls. induction ls as [|l r IH]; intros s s' i0 c I Hp HJ H; cbn in H.
  - injection H as <-. split; assumption.
  - destruct (step cf s l) as [s1|] eqn:E; [|discriminate].
    apply (IH s1 s' i0 c); [eapply inv_step; eauto|eapply phase_done_step; eauto|
                             eapply J_step; eauto|exact H].
Qed.

(* A client that has called unsubscribe (from state s on) is processed in every later state in
   which the publisher has passed the loop head twice. *)
Lemma unsubscribe_processed_two_ticks cf : period cf <> 0 -> forall ls s s' c,
  reachable cf s -> phase_of s c = CDone -> run cf s ls = Some s' -> iter s + 2 <= iter s' ->
  processed s' c.
Proof.
  intros Hper ls s s' c R Hp H Hit. pose proof (inv_reachable cf s Hper R) as I.
  assert (HJ : J (iter s) c s) by (right; left; reflexivity).
  destruct (J_run cf Hper ls s s' (iter s) c I Hp HJ H) as [HJ' Hp'].
  split; [exact Hp'|]. unfold J, pending_unsub in HJ'.
  destruct HJ' as [HJ'|[HJ'|[HJ' _]]]; [exact HJ'|lia|lia].
Qed.
