(* Minor-servo PLC (tag Msv): obligations on the GENERATED tables (re-opened on every run).
   The hand-written model is a function of Gen/MsvTables.v; the hypotheses of the theorems about
   a configuration are discharged here for the configuration of the shipped simulator. *)
From DS Require Import Base.Prelude Model.MsvTypes Model.MsvModel Model.MsvFloat Gen.MsvTables.
From DS Require Import Proofs.MsvProofs Proofs.MsvKin.
From Coq Require Import Reals Lra.
From Flocq Require Import Core.Zaux Core.Raux Core.Defs Core.Float_prop Core.Generic_fmt Core.FLT IEEE754.BinarySingleNaN.

(* the framing model hard-codes CR LF *)
Lemma gen_tail : g_tail = [13; 10].
Proof. reflexivity. Qed.

(* the seven command names of System.commands are the handlers the model dispatches *)
Lemma gen_commands_dispatched : forall T (ops : numops T) orc cf,
  forallb (fun kv => match dispatch ops orc cf (snd kv) with Some _ => true | None => false end)
          g_commands = true.
Proof. intros. vm_compute. reflexivity. Qed.

Lemma gen_replies_distinct : forall T (f : Z -> T) tk, replies_distinct (gen_cfg f tk) = true.
Proof. intros. reflexivity. Qed.

(* ---- boolean versions of the well-formedness conditions ------------------------------------- *)
Section Checks.
Context {T : Type} (ops : numops T).

Definition accepted_b (sc : sconf T) (j : nat) (v : T) : bool :=
  nfinite ops v &&
  match nth_error (sc_min sc) j, nth_error (sc_max sc) j with
  | Some lo, Some hi => negb (nlt ops v lo) && negb (nlt ops hi v)
  | _, _ => false
  end.

Lemma accepted_b_spec sc j v : accepted_b sc j v = true -> accepted_on ops sc j v.
Proof.
  unfold accepted_b, accepted_on. intros H. apply andb_true_iff in H as [H1 H2]. split; [exact H1|].
  destruct (nth_error (sc_min sc) j) as [lo|]; [|discriminate].
  destruct (nth_error (sc_max sc) j) as [hi|]; [|discriminate].
  apply andb_true_iff in H2 as [H2 H3]. exists lo, hi. repeat split; auto.
  - destruct (nlt ops v lo); [discriminate|reflexivity].
  - destruct (nlt ops hi v); [discriminate|reflexivity].
Qed.

Fixpoint row_ok_from (sc : sconf T) (i : nat) (row : list (option T)) : bool :=
  match row with
  | [] => true
  | None :: r => row_ok_from sc (S i) r
  | Some x :: r => accepted_b sc i x && row_ok_from sc (S i) r
  end.

Lemma row_ok_from_spec sc : forall row i, row_ok_from sc i row = true ->
  forall k x, nth_error row k = Some (Some x) -> accepted_on ops sc (i + k) x.
Proof.
  induction row as [|c row IH]; intros i H [|k] x Hk; cbn in Hk; try discriminate.
  - injection Hk as ->. cbn in H. apply andb_true_iff in H as [H _]. rewrite Nat.add_0_r.
    apply accepted_b_spec. exact H.
  - replace (i + S k)%nat with (S i + k)%nat by lia. eapply IH; [|exact Hk].
    destruct c; cbn in H; [apply andb_true_iff in H as [_ H]|]; exact H.
Qed.

Lemma row_ok_b_spec sc row : row_ok_from sc 0 row = true -> row_ok ops sc row.
Proof. intros H k x Hk. apply (row_ok_from_spec sc row 0 H k x Hk). Qed.

Fixpoint rows_ok_b (scs : list (sconf T)) (rows : list (list (option T))) : bool :=
  match scs, rows with
  | [], [] => true
  | sc :: scs', row :: rows' =>
      row_ok_from sc 0 row && (length row =? sc_dof sc)%nat && rows_ok_b scs' rows'
  | _, _ => false
  end.

Lemma rows_ok_b_spec : forall scs rows, rows_ok_b scs rows = true ->
  forall j sc row, nth_error scs j = Some sc -> nth_error rows j = Some row ->
    row_ok ops sc row /\ length row = sc_dof sc.
Proof.
  induction scs as [|sc0 scs IH]; intros [|row0 rows] H [|j] sc row E1 E2; cbn in *; try discriminate.
  - injection E1 as <-. injection E2 as <-. apply andb_true_iff in H as [H _].
    apply andb_true_iff in H as [H1 H2]. split; [apply row_ok_b_spec; exact H1|apply Nat.eqb_eq; exact H2].
  - apply andb_true_iff in H as [_ H]. eapply IH; eauto.
Qed.

Definition table_ok_b (cf : cfg T) : bool :=
  forallb (fun r => rows_ok_b (c_servos cf) (tr_rows r)) (c_table cf).

Lemma table_ok_b_spec cf : table_ok_b cf = true ->
  forall name r j sc row, find_row name (c_table cf) = Some r ->
    nth_error (c_servos cf) j = Some sc -> nth_error (tr_rows r) j = Some row ->
    row_ok ops sc row /\ length row = sc_dof sc.
Proof.
  intros H name r j sc row Hr E1 E2. apply find_row_in in Hr.
  unfold table_ok_b in H. rewrite forallb_forall in H. specialize (H r Hr).
  eapply rows_ok_b_spec; eauto.
Qed.
End Checks.

(* every tabulated cell of setup.csv is finite and inside the limits of its axis (binary64) *)
Lemma gen_table_ok : forall tk, table_ok_b fops (fcfg tk) = true.
Proof. intros. vm_compute. reflexivity. Qed.

(* ---- the real-number configuration read off the same bit patterns ------------------------------- *)
Definition r_of_bits (z : Z) : R := B2R (f_of_bits z).
Definition rcfg (tk : Z) : cfg R := gen_cfg r_of_bits tk.

Definition f_le (a b : F) : bool :=
  is_finite a && is_finite b &&
  match Bcompare a b with Some Lt | Some Eq => true | _ => false end.

Lemma f_le_spec a b : f_le a b = true -> (B2R a <= B2R b)%R.
Proof.
  unfold f_le. intros H. apply andb_true_iff in H as [H H3]. apply andb_true_iff in H as [H1 H2].
  rewrite (Bcompare_correct _ _ a b H1 H2) in H3.
  destruct (Rcompare (B2R a) (B2R b)) eqn:E; try discriminate.
  - apply Rcompare_Eq_inv in E. lra.
  - apply Rcompare_Lt_inv in E. lra.
Qed.

Fixpoint within_b (los his vs : list Z) : bool :=
  match los, his, vs with
  | lo :: l', hi :: h', v :: v' =>
      f_le (f_of_bits lo) (f_of_bits v) && f_le (f_of_bits v) (f_of_bits hi) && within_b l' h' v'
  | [], [], [] => true
  | _, _, _ => false
  end.

Lemma within_b_spec : forall los his vs, within_b los his vs = true ->
  within (map r_of_bits los) (map r_of_bits his) (map r_of_bits vs).
Proof.
  induction los as [|lo l IH]; intros [|hi h] [|v vs] H; cbn in *; try discriminate; auto.
  apply andb_true_iff in H as [H H3]. apply andb_true_iff in H as [H1 H2].
  apply f_le_spec in H1, H2. unfold r_of_bits. split; [lra|]. apply IH. exact H3.
Qed.

Definition srow_ok_b (r : srow) : bool :=
  (length (sr_delta r) =? sr_dof r)%nat &&
  forallb (fun z => f_le f_zero (f_of_bits z)) (sr_delta r) &&
  within_b (sr_min r) (sr_max r) (sr_min r) &&
  within_b (sr_min r) (sr_max r) (repeat 0%Z (sr_dof r)).

Lemma r_of_bits_0 : r_of_bits 0 = 0%R.
Proof. reflexivity. Qed.

Lemma map_repeat {A B} (f : A -> B) x n : map f (repeat x n) = repeat (f x) n.
Proof. induction n; cbn; congruence. Qed.

Lemma srow_ok_spec r : srow_ok_b r = true ->
  wf_sconf (mk_sconf (sr_name r) (sr_dof r) (sr_pt r) (map r_of_bits (sr_min r))
                     (map r_of_bits (sr_max r)) (map r_of_bits (sr_delta r))
                     (layout_of (sr_name r) g_layouts)).
Proof.
  unfold srow_ok_b, wf_sconf. cbn [sc_delta sc_dof sc_min sc_max]. intros H.
  apply andb_true_iff in H as [H H4]. apply andb_true_iff in H as [H H3]. apply andb_true_iff in H as [H1 H2].
  split; [rewrite map_length; apply Nat.eqb_eq; exact H1|]. split.
  - apply Forall_forall. intros x Hx. apply in_map_iff in Hx as (z & <- & Hz).
    rewrite forallb_forall in H2. specialize (H2 z Hz). apply f_le_spec in H2.
    unfold r_of_bits. cbn in H2. exact H2.
  - split; [apply within_b_spec; exact H3|].
    apply within_b_spec in H4. rewrite map_repeat, r_of_bits_0 in H4. exact H4.
Qed.

Lemma gen_srows_ok : forallb srow_ok_b g_servos = true.
Proof. vm_compute. reflexivity. Qed.

Lemma gen_wf tk : Forall wf_sconf (c_servos (rcfg tk)).
Proof.
  unfold rcfg, gen_cfg. cbn [c_servos]. apply Forall_forall. intros sc Hsc.
  apply in_map_iff in Hsc as (r & <- & Hr).
  apply srow_ok_spec. pose proof gen_srows_ok as H. rewrite forallb_forall in H. auto.
Qed.

Lemma gen_rows_dof tk : Forall (fun r => rows_dof (c_servos (rcfg tk)) (tr_rows r)) (c_table (rcfg tk)).
Proof.
  unfold rows_dof, rcfg, gen_cfg. cbn [c_servos c_table].
  generalize r_of_bits. intros f. unfold g_table, g_servos. cbn [map].
  repeat (constructor; try reflexivity).
Qed.

(* ---- arithmetic laws of the time checks of _programTrack ---------------------------------------- *)
(* law 1 (pt_law): start + 0 * gap is not in the past when start is not.  Binary64: 0 * 0.2 = +0 and
   x + (+0) compares like x. *)
Lemma f_gap0 : f_mul (f_ofZ 0) (f_of_bits g_pt_timegap_bits) = f_zero.
Proof. vm_compute. reflexivity. Qed.

Lemma f_add_zero_cmp (t0 now : F) : Bcompare (f_add t0 f_zero) now = Bcompare t0 now.
Proof.
  destruct t0 as [s|s| |s m e Hb]; try reflexivity.
  destruct s; destruct now as [s'|s'| |s' m' e' Hb']; reflexivity.
Qed.

Lemma f_pt_law tk : pt_law fops (fcfg tk).
Proof.
  unfold pt_law. intros t0 now H. cbn [nadd nmul nofZ nlt fops c_gap fcfg gen_cfg] in *.
  rewrite f_gap0. unfold f_lt in *. rewrite f_add_zero_cmp. exact H.
Qed.

Lemma r_pt_law tk : pt_law rops (rcfg tk).
Proof.
  unfold pt_law. intros t0 now H. cbn [nadd nmul nofZ nlt rops] in *. apply r_lt_false in H.
  unfold r_lt. destruct (Rlt_dec _ _) as [L|L]; [|reflexivity]. cbn in L. lra.
Qed.

(* law 5: a time that is not before `now` is not before `now - 5` (the bisect of _programTrack never
   drops the point just appended).  Binary64: monotonicity of rounding (Flocq). *)
Definition five : F := f_ofZ 5.

Lemma five_finite : is_finite five = true.
Proof. vm_compute. reflexivity. Qed.

Lemma five_sign : Bsign five = false.
Proof. vm_compute. reflexivity. Qed.

Lemma five_nonneg : (0 <= B2R five)%R.
Proof.
  pose proof five_finite as Hf. pose proof five_sign as Hs.
  destruct five as [s|s| |s m e Hb]; try discriminate.
  - cbn. lra.
  - cbn in Hs. subst s. cbn [B2R]. apply F2R_ge_0. cbn. lia.
Qed.

Lemma f_lt_nan_r (p : F) : f_lt p B754_nan = false.
Proof. unfold f_lt. destruct p; reflexivity. Qed.

Lemma f_law5_aux : forall p now : F, f_lt p now = false -> f_lt p (f_sub now five) = false.
Proof.
  intros p now H.
  destruct (is_finite now) eqn:Hfin.
  - pose proof (Bminus_correct 53 1024 prec_ok emax_ok mode_NE now five Hfin five_finite) as C.
    fold (f_sub now five) in C.
    destruct (Rlt_bool _ _) in C.
    + destruct C as (Hr & Hfd & _).
      assert (Hle : (B2R (f_sub now five) <= B2R now)%R).
      { rewrite Hr. rewrite <- (round_generic radix2 (SpecFloat.fexp 53 1024) (round_mode mode_NE) (B2R now)) at 2;
          [|apply generic_format_B2R].
        apply round_le; [apply (fexp_correct 53 1024 prec_ok)|apply valid_rnd_round_mode|].
        pose proof five_nonneg. lra. }
      unfold f_lt in *.
      destruct p as [s|[|]| |s m e Hb].
      * rewrite Bcompare_correct in H |- *; auto.
        destruct (Rcompare (B2R (B754_zero s)) (B2R now)) eqn:E; try discriminate;
          destruct (Rcompare (B2R (B754_zero s)) (B2R (f_sub now five))) eqn:E'; try reflexivity;
          apply Rcompare_Lt_inv in E'; [apply Rcompare_Eq_inv in E|apply Rcompare_Gt_inv in E]; lra.
      * destruct now; try discriminate; cbn in H; discriminate.
      * destruct (f_sub now five); try discriminate; reflexivity.
      * destruct (f_sub now five); reflexivity.
      * rewrite Bcompare_correct in H |- *; auto.
        destruct (Rcompare (B2R (B754_finite s m e Hb)) (B2R now)) eqn:E; try discriminate;
          destruct (Rcompare (B2R (B754_finite s m e Hb)) (B2R (f_sub now five))) eqn:E'; try reflexivity;
          apply Rcompare_Lt_inv in E'; [apply Rcompare_Eq_inv in E|apply Rcompare_Gt_inv in E]; lra.
    + destruct C as (Hov & Hs). rewrite five_sign in Hs. cbn in Hs. rewrite Hs in Hov.
      assert (Hd : f_sub now five = B754_infinity true).
      { destruct (f_sub now five) as [s|s| |s m e Hb]; cbn in Hov; try discriminate.
        injection Hov as ->. reflexivity. }
      rewrite Hd. unfold f_lt. destruct p as [s|[|]| |s m e Hb]; reflexivity.
  - destruct now as [s|s| |s m e Hb]; try discriminate.
    + assert (Hd : f_sub (B754_infinity s) five = B754_infinity s).
      { unfold f_sub, five. pose proof five_finite as Hf. unfold five in Hf.
        destruct (f_ofZ 5) as [s'|s'| |s' m' e' Hb']; try discriminate; reflexivity. }
      rewrite Hd. exact H.
    + assert (Hd : f_sub B754_nan five = B754_nan) by (unfold f_sub; destruct five; reflexivity).
      rewrite Hd. apply f_lt_nan_r.
Qed.

Lemma f_law5 : forall p now : F, nlt fops p now = false -> nlt fops p (nsub fops now (nofZ fops 5)) = false.
Proof. exact f_law5_aux. Qed.

Lemma r_law5 : forall p now : R, nlt rops p now = false -> nlt rops p (nsub rops now (nofZ rops 5)) = false.
Proof.
  intros p now H. cbn [nlt nsub nofZ rops] in *. apply r_lt_false in H.
  unfold r_lt. destruct (Rlt_dec _ _) as [L|L]; [|reflexivity]. lra.
Qed.
