(* C07 — totalpower: once the stop flag is set (which system_stop does), the timer chains end.
   Every further firing removes a chain timer (weight 2) and creates at most one waiter (weight 1),
   or removes a waiter; no firing re-arms.  So at most [wt] firings are possible at all: the chains
   cannot go on for ever, whatever the interleaving of the remaining timers. *)
From Coq Require Import String.
From DS Require Import Base.Prelude Model.LdgLedger Model.LdgInst Proofs.LdgLedger.
Open Scope string_scope.
Open Scope Z_scope.
Open Scope list_scope.

Definition tp_w (x : act) : nat := match s_attr (a_site x) with Some _ => 2%nat | None => 1%nat end.
Fixpoint wt (live : list act) : nat :=
  match live with [] => 0%nat | x :: xs => (tp_w x + wt xs)%nat end.
Definition site_w (s : site) : nat :=
  if s_started s then match s_attr s with Some _ => 2%nat | None => 1%nat end else 0%nat.
Definition created_w (p : sop) : nat := match p with SCreate s _ _ => site_w s | _ => 0%nat end.
Fixpoint body_w (b : list sop) : nat :=
  match b with [] => 0%nat | p :: ps => (created_w p + body_w ps)%nat end.

Lemma wt_filter_le p live : (wt (filter p live) <= wt live)%nat.
Proof. induction live as [|x xs IH]; cbn; [lia|]. destruct (p x); cbn; lia. Qed.

Lemma wt_filter_filter_le q r live : (wt (filter q (filter r live)) <= wt (filter q live))%nat.
Proof.
  induction live as [|x xs IH]; cbn; [lia|].
  destruct (r x); cbn; destruct (q x); cbn; lia.
Qed.

Lemma wt_remove_id id f live : In f live -> a_id f = id ->
  (wt (filter (fun a => negb (a_id a =? id)%Z) live) + tp_w f <= wt live)%nat.
Proof.
  intros Hin Hid. induction live as [|x xs IH]; [destruct Hin|].
  cbn. destruct Hin as [-> | Hin].
  - rewrite Hid, Z.eqb_refl. cbn. pose proof (wt_filter_le (fun a => negb (a_id a =? id)%Z) xs). lia.
  - specialize (IH Hin). destruct (a_id x =? id); cbn; lia.
Qed.

Lemma exec_sop_wt T bt firing l p l' q : exec_sop T bt firing l p = Some l' ->
  (wt (filter q (l_live l')) <= wt (filter q (l_live l)) + created_w p)%nat.
Proof.
  intros H. destruct p as [s o c | o a | cl o c]; cbn in H.
  - destruct (existsb (site_eqb s) (t_sites T) && guard_permits bt firing l s o c); [|discriminate].
    injection H as <-. unfold do_create. cbn [l_live created_w]. unfold site_w.
    assert (Hl1 : (wt (filter q (l_live (match s_attr s with
                                          | Some a => if c then do_kill o a l else l
                                          | None => l end))) <= wt (filter q (l_live l)))%nat).
    { destruct (s_attr s); [destruct c|]; cbn; try lia. apply wt_filter_filter_le. }
    destruct (s_started s); [|lia].
    cbn [filter]. destruct (q _); [|lia].
    cbn [wt]. unfold tp_w at 1. cbn [a_site]. destruct (s_attr s); lia.
  - injection H as <-. cbn. pose proof (wt_filter_filter_le q
      (fun a0 => negb (zmem (a_id a0) (occupants (l_slots l) (o, a)))) (l_live l)). unfold kill_ids. lia.
  - destruct (existsb (clear_eqb cl) (t_clears T) && clear_permits cl c); [|discriminate].
    injection H as <-. unfold do_clear. cbn. destruct c; cbn; [|lia].
    pose proof (wt_filter_filter_le q
      (fun a0 => negb (zmem (a_id a0) (occupants (l_slots l) (o, c_attr cl)))) (l_live l)).
    unfold kill_ids. lia.
Qed.

Lemma exec_body_wt T bt firing body q : forall l l', exec_body T bt firing l body = Some l' ->
  (wt (filter q (l_live l')) <= wt (filter q (l_live l)) + body_w body)%nat.
Proof.
  induction body as [|p ps IH]; intros l l' H; cbn in H.
  - injection H as <-. cbn. lia.
  - destruct (exec_sop T bt firing l p) as [l1|] eqn:E; [|discriminate].
    pose proof (exec_sop_wt T bt firing l p l1 q E). specialize (IH l1 l' H). cbn. lia.
Qed.

Lemma fire_wt T l id body l' f :
  find (fun a => a_id a =? id) (l_live l) = Some f ->
  exec_op T l (OFire id body) = Some l' ->
  (wt (l_live l') + tp_w f <= wt (l_live l) + body_w body)%nat.
Proof.
  intros Hf H. cbn in H. rewrite Hf in H.
  destruct (exec_body T false (Some f) l body) as [l1|] eqn:E; [|discriminate].
  injection H as <-. cbn.
  pose proof (exec_body_wt T false (Some f) body (fun a => negb (a_id a =? id)%Z) l l1 E).
  apply find_some in Hf as [Hin Hid]. apply Z.eqb_eq in Hid.
  pose proof (wt_remove_id id f (l_live l) Hin Hid). lia.
Qed.

Lemma find_site_attr T fn a s : find_site T fn a = Some s -> s_attr s = a.
Proof.
  unfold find_site. intros H. apply find_some in H as [_ H]. apply andb_true_iff in H as [_ H].
  apply ostr_eqb_eq in H. exact H.
Qed.

Lemma tp_waiter_w T l w : tp_waiter T l = Some w -> (body_w w <= 1)%nat.
Proof.
  unfold tp_waiter. destruct (occ_alive l (0, "data_timer")).
  - destruct (find_site T "_stop" None) as [s|] eqn:E; [|discriminate].
    intros H. injection H as <-. cbn. unfold site_w. rewrite (find_site_attr _ _ _ _ E).
    destruct (s_started s); lia.
  - intros H. injection H as <-. cbn. lia.
Qed.

Lemma body_w_app a b : body_w (a ++ b) = (body_w a + body_w b)%nat.
Proof. induction a as [|p ps IH]; cbn; [reflexivity | rewrite IH; lia]. Qed.

Definition tp_is_fire (e : tp_ev) : bool := match e with TpFire _ _ => true | _ => false end.

(* the chain cannot re-arm: the stop flag is set, or the socket is closed (then the next sendall
   fails and _send_packet sets the flag itself) *)
Definition tp_quiet (c : tp_ctrl) : bool := tp_stop c || negb (tp_sock c).

Lemma tp_fire_step T c l id inj st' :
  tp_quiet c = true -> istep tp_op T (c, l) (TpFire id inj) = Some st' ->
  tp_quiet (fst st') = true /\ (1 + wt (l_live (snd st')) <= wt (l_live l))%nat.
Proof.
  intros Hs H. unfold istep in H. cbn [fst snd] in H.
  destruct (tp_op T c l (TpFire id inj)) as [[c' o]|] eqn:Eo; [|discriminate].
  destruct (exec_op T l o) as [l'|] eqn:Ex; [|discriminate]. injection H as <-. cbn [fst snd].
  cbn in Eo.
  destruct (find (fun a => a_id a =? id) (l_live l)) as [f|] eqn:Hf; [|discriminate].
  destruct (s_attr (a_site f)) as [a|] eqn:Ha.
  - (* _send_packet *)
    destruct (tp_spz c).
    + injection Eo as <- <-. split; [exact Hs|].
      pose proof (fire_wt T l id [] l' f Hf Ex) as Hw. unfold tp_w in Hw. rewrite Ha in Hw. cbn in Hw. lia.
    + destruct (if inj || negb (tp_sock c) then tp_waiter T l else Some []) as [w|] eqn:Ew; [|discriminate].
      assert (Hstp : tp_stop c || (inj || negb (tp_sock c)) = true).
      { unfold tp_quiet in Hs. destruct (tp_stop c), inj, (tp_sock c); cbn in *; congruence. }
      rewrite Hstp in Eo. injection Eo as <- <-. split; [reflexivity|].
      pose proof (fire_wt T l id _ l' f Hf Ex) as Hw. unfold tp_w in Hw. rewrite Ha in Hw.
      rewrite body_w_app in Hw. cbn in Hw.
      assert (body_w w <= 1)%nat.
      { destruct (inj || negb (tp_sock c)); [eapply tp_waiter_w; exact Ew|].
        injection Ew as <-. cbn. lia. }
      lia.
  - (* the waiter *)
    destruct (find_clear T "_stop._wait_for_timer" "data_timer") as [cl|]; [|discriminate].
    injection Eo as <- <-. split; [exact Hs|].
    pose proof (fire_wt T l id _ l' f Hf Ex) as Hw. unfold tp_w in Hw. rewrite Ha in Hw. cbn in Hw. lia.
Qed.

Theorem tp_stopped_chains_end T evs : forall c l st,
  tp_quiet c = true -> forallb tp_is_fire evs = true -> iruns tp_op T (c, l) evs = Some st ->
  tp_quiet (fst st) = true /\ (List.length evs + wt (l_live (snd st)) <= wt (l_live l))%nat.
Proof.
  induction evs as [|e es IH]; intros c l st Hs Hf H; cbn in H.
  - injection H as <-. cbn. split; [exact Hs | lia].
  - cbn in Hf. apply andb_true_iff in Hf as [He Hes].
    destruct e; try discriminate.
    destruct (istep tp_op T (c, l) (TpFire id inject)) as [[c1 l1]|] eqn:E; [|discriminate].
    destruct (tp_fire_step T c l id inject (c1, l1) Hs E) as [Hs1 Hw]. cbn [fst snd] in *.
    destruct (IH c1 l1 st Hs1 Hes H) as [Hs2 Hw2]. split; [exact Hs2|]. cbn. lia.
Qed.

(* system_stop leaves the instance quiet when it sets the stop flag or closes the data socket *)
Lemma tp_sysstop_quiet T c l st :
  t_flag T || has AClose (stop_acts T "data_socket") = true ->
  istep tp_op T (c, l) TpSysStop = Some st -> tp_quiet (fst st) = true.
Proof.
  intros Hfl H. unfold istep in H. cbn in H. injection H as <-. unfold tp_quiet. cbn.
  destruct (t_flag T), (has AClose (stop_acts T "data_socket")), (tp_stop c), (tp_sock c);
    cbn in *; congruence.
Qed.
