(* Bit strings (Python '0'/'1' strings) and base-256 digit lists, with the arithmetic
   facts every codec proof needs.  Models of: bin(x)[2:], str.zfill, s[-n:], int(s, 2),
   int.from_bytes / int.to_bytes. *)
From DS Require Import Base.Prelude.

Definition b2z (b : bool) : Z := if b then 1 else 0.

(* int(s, 2) for a string of '0'/'1' (most significant first) *)
Definition int2 (l : list bool) : Z := fold_left (fun acc b => 2 * acc + b2z b) l 0.

(* bin(z)[2:] for z >= 0 *)
Fixpoint pos_bits (p : positive) : list bool :=   (* least significant first *)
  match p with
  | xH => [true]
  | xO q => false :: pos_bits q
  | xI q => true :: pos_bits q
  end.
Definition bin (z : Z) : list bool :=
  match z with
  | Z0 => [false]
  | Zpos p => rev (pos_bits p)
  | Zneg _ => []          (* never used: every call site passes a non-negative value *)
  end.

Definition zfill (n : nat) (l : list bool) : list bool := repeat false (n - length l) ++ l.

Lemma fold_int2_acc l a :
  fold_left (fun acc b => 2 * acc + b2z b) l a = a * 2 ^ Z.of_nat (length l) + int2 l.
Proof.
  unfold int2. revert a. induction l as [|b l IH]; intros a.
  - cbn. lia.
  - cbn [fold_left length]. rewrite IH. rewrite (IH (2 * 0 + b2z b)).
    rewrite Nat2Z.inj_succ, Z.pow_succ_r by lia. ring.
Qed.

Lemma int2_app l1 l2 : int2 (l1 ++ l2) = int2 l1 * 2 ^ Z.of_nat (length l2) + int2 l2.
Proof. unfold int2 at 1. rewrite fold_left_app. rewrite fold_int2_acc. reflexivity. Qed.

Lemma int2_range l : 0 <= int2 l < 2 ^ Z.of_nat (length l).
Proof.
  induction l as [|b l IH] using rev_ind.
  - cbn. lia.
  - rewrite int2_app, app_length. cbn [length]. replace (int2 [b]) with (b2z b) by (destruct b; reflexivity).
    replace (Z.of_nat (length l + 1)) with (Z.succ (Z.of_nat (length l))) by lia.
    rewrite Z.pow_succ_r by lia. change (2 ^ Z.of_nat 1) with 2. destruct b; cbn [b2z]; lia.
Qed.

Lemma int2_repeat_false k : int2 (repeat false k) = 0.
Proof.
  induction k as [|k IH]; [reflexivity|].
  change (repeat false (S k)) with ([false] ++ repeat false k).
  rewrite int2_app, IH. reflexivity.
Qed.

Lemma int2_zfill n l : int2 (zfill n l) = int2 l.
Proof. unfold zfill. rewrite int2_app, int2_repeat_false. lia. Qed.

Lemma zfill_length n l : length (zfill n l) = Nat.max n (length l).
Proof. unfold zfill. rewrite app_length, repeat_length. lia. Qed.

Lemma int2_pos_bits p : int2 (rev (pos_bits p)) = Zpos p.
Proof.
  induction p as [q IH|q IH|]; cbn [pos_bits rev].
  - rewrite int2_app, IH. cbn. lia.
  - rewrite int2_app, IH. cbn. lia.
  - reflexivity.
Qed.

Lemma int2_bin z : 0 <= z -> int2 (bin z) = z.
Proof. destruct z as [|p|p]; intros H; [reflexivity|apply int2_pos_bits|lia]. Qed.

Lemma int2_lastn k l : (k <= length l)%nat -> int2 (lastn k l) = int2 l mod 2 ^ Z.of_nat k.
Proof.
  intros Hk. unfold lastn.
  remember (skipn (length l - k) l) as s eqn:Hs.
  assert (Hl : length s = k) by (subst s; rewrite skipn_length; lia).
  assert (E : int2 l = int2 (firstn (length l - k) l) * 2 ^ Z.of_nat k + int2 s).
  { rewrite <- (firstn_skipn (length l - k) l) at 1. rewrite int2_app, <- Hs, Hl. reflexivity. }
  rewrite E. pose proof (int2_range s) as Hr. rewrite Hl in Hr.
  assert (0 < 2 ^ Z.of_nat k) by (apply Z.pow_pos_nonneg; lia).
  rewrite Z.add_comm, Z.mod_add by lia. rewrite Z.mod_small by lia. reflexivity.
Qed.

(* ---------- base-256 digits ---------- *)

(* int.from_bytes(l, 'little', signed=False) *)
Fixpoint le_dec (l : list Z) : Z :=
  match l with
  | [] => 0
  | b :: l' => b + 256 * le_dec l'
  end.
(* v.to_bytes(n, 'little') for 0 <= v < 256^n; in general the n low digits of v *)
Fixpoint le_enc (n : nat) (v : Z) : list Z :=
  match n with
  | O => []
  | S n' => v mod 256 :: le_enc n' (v / 256)
  end.
Definition be_dec (l : list Z) : Z := le_dec (rev l).
Definition be_enc (n : nat) (v : Z) : list Z := rev (le_enc n v).

Lemma le_enc_length n v : length (le_enc n v) = n.
Proof. revert v; induction n as [|n IH]; intros v; cbn; [reflexivity|now rewrite IH]. Qed.

Lemma le_enc_bytes n v : bytes (le_enc n v).
Proof.
  revert v; induction n as [|n IH]; intros v; cbn; constructor; [unfold byte; lia|apply IH].
Qed.

Lemma le_dec_range l : bytes l -> 0 <= le_dec l < 256 ^ Z.of_nat (length l).
Proof.
  induction 1 as [|b l Hb _ IH]; cbn [le_dec length]; [cbn; lia|].
  rewrite Nat2Z.inj_succ, Z.pow_succ_r by lia. unfold byte in Hb. lia.
Qed.

Lemma le_dec_enc n v : le_dec (le_enc n v) = v mod 256 ^ Z.of_nat n.
Proof.
  revert v; induction n as [|n IH]; intros v.
  - cbn. now rewrite Z.mod_1_r.
  - cbn [le_enc le_dec]. rewrite IH, Nat2Z.inj_succ, Z.pow_succ_r by lia.
    assert (0 < 256 ^ Z.of_nat n) by (apply Z.pow_pos_nonneg; lia).
    rewrite (Z.rem_mul_r v 256 (256 ^ Z.of_nat n)) by lia. reflexivity.
Qed.

Lemma le_enc_dec l : bytes l -> le_enc (length l) (le_dec l) = l.
Proof.
  induction 1 as [|b l Hb _ IH]; [reflexivity|].
  cbn [length le_dec le_enc]. unfold byte in Hb.
  replace ((b + 256 * le_dec l) mod 256) with b by lia.
  replace ((b + 256 * le_dec l) / 256) with (le_dec l) by lia.
  now rewrite IH.
Qed.

Lemma le_dec_enc_small n v : 0 <= v < 256 ^ Z.of_nat n -> le_dec (le_enc n v) = v.
Proof. intros H. rewrite le_dec_enc. apply Z.mod_small; exact H. Qed.

Lemma be_enc_length n v : length (be_enc n v) = n.
Proof. unfold be_enc. now rewrite rev_length, le_enc_length. Qed.

Lemma be_dec_enc_small n v : 0 <= v < 256 ^ Z.of_nat n -> be_dec (be_enc n v) = v.
Proof. intros H. unfold be_dec, be_enc. rewrite rev_involutive. now apply le_dec_enc_small. Qed.

Lemma bytes_rev l : bytes l -> bytes (rev l).
Proof. unfold bytes. intros H. apply Forall_rev. exact H. Qed.

Lemma be_enc_dec l : bytes l -> be_enc (length l) (be_dec l) = l.
Proof.
  intros H. unfold be_enc, be_dec. rewrite <- (rev_length l).
  rewrite le_enc_dec by (now apply bytes_rev). apply rev_involutive.
Qed.

(* two's complement on w bits *)
Definition to_signed (w : Z) (u : Z) : Z := if u <? 2 ^ (w - 1) then u else u - 2 ^ w.
Definition of_signed (w : Z) (v : Z) : Z := v mod 2 ^ w.

Lemma to_of_signed w v : 0 < w -> - 2 ^ (w - 1) <= v < 2 ^ (w - 1) -> to_signed w (of_signed w v) = v.
Proof.
  intros Hw Hv. unfold to_signed, of_signed.
  assert (Hp : 2 ^ w = 2 * 2 ^ (w - 1)).
  { replace w with (Z.succ (w - 1)) at 1 by lia. rewrite Z.pow_succ_r by lia. reflexivity. }
  assert (0 < 2 ^ (w - 1)) by (apply Z.pow_pos_nonneg; lia).
  destruct (Z.ltb_spec (v mod 2 ^ w) (2 ^ (w - 1))) as [Hlt|Hge].
  - destruct (Z.le_gt_cases 0 v) as [Hn|Hn].
    + rewrite Z.mod_small by lia. reflexivity.
    + exfalso. replace (v mod 2 ^ w) with (v + 2 ^ w) in Hlt; [lia|].
      apply Z.mod_unique with (-1); lia.
  - destruct (Z.le_gt_cases 0 v) as [Hn|Hn].
    + rewrite Z.mod_small in Hge by lia. lia.
    + replace (v mod 2 ^ w) with (v + 2 ^ w); [lia|].
      apply Z.mod_unique with (-1); lia.
Qed.

Lemma of_to_signed w u : 0 < w -> 0 <= u < 2 ^ w -> of_signed w (to_signed w u) = u.
Proof.
  intros Hw Hu. unfold to_signed, of_signed.
  assert (0 < 2 ^ w) by (apply Z.pow_pos_nonneg; lia).
  destruct (Z.ltb_spec u (2 ^ (w - 1))).
  - apply Z.mod_small. lia.
  - symmetry. apply Z.mod_unique with (-1); lia.
Qed.

Lemma to_signed_range w u : 0 < w -> 0 <= u < 2 ^ w -> - 2 ^ (w - 1) <= to_signed w u < 2 ^ (w - 1).
Proof.
  intros Hw Hu. unfold to_signed.
  assert (Hp : 2 ^ w = 2 * 2 ^ (w - 1)).
  { replace w with (Z.succ (w - 1)) at 1 by lia. rewrite Z.pow_succ_r by lia. reflexivity. }
  destruct (Z.ltb_spec u (2 ^ (w - 1))); lia.
Qed.

Lemma pow256 n : 256 ^ Z.of_nat n = 2 ^ (8 * Z.of_nat n).
Proof. change 256 with (2 ^ 8). rewrite <- Z.pow_mul_r by lia. reflexivity. Qed.

(* ---------- finite sweeps over the byte domain ---------- *)
Definition all_bytes : list Z := map Z.of_nat (seq 0 256).

Lemma all_bytes_in b : byte b -> In b all_bytes.
Proof.
  intros Hb. unfold all_bytes. apply in_map_iff. exists (Z.to_nat b). split.
  - unfold byte in Hb. lia.
  - apply in_seq. unfold byte in Hb. lia.
Qed.

Lemma byte_sweep (P : Z -> bool) : forallb P all_bytes = true -> forall b, byte b -> P b = true.
Proof. intros H b Hb. rewrite forallb_forall in H. apply H, all_bytes_in, Hb. Qed.

(* ---------- canonical bit strings ---------- *)
Lemma int2_cons x l : int2 (x :: l) = b2z x * 2 ^ Z.of_nat (length l) + int2 l.
Proof. change (x :: l) with ([x] ++ l). rewrite int2_app. destruct x; reflexivity. Qed.

Lemma int2_inj a : forall b, length a = length b -> int2 a = int2 b -> a = b.
Proof.
  induction a as [|x a IH]; intros [|y b] Hl He; try discriminate; [reflexivity|].
  cbn [length] in Hl. injection Hl as Hl.
  rewrite !int2_cons in He. rewrite <- Hl in He.
  pose proof (int2_range a) as Ha. pose proof (int2_range b) as Hb. rewrite <- Hl in Hb.
  assert (0 < 2 ^ Z.of_nat (length a)) by (apply Z.pow_pos_nonneg; lia).
  assert (x = y) as -> by (destruct x, y; cbn [b2z] in He; try reflexivity; nia).
  f_equal. apply IH; [exact Hl|lia].
Qed.

Lemma pos_bits_lower p : 2 ^ (Z.of_nat (length (pos_bits p)) - 1) <= Zpos p.
Proof.
  induction p as [q IH|q IH|]; cbn [pos_bits length]; [| |cbn; lia].
  - assert (0 < length (pos_bits q))%nat by (destruct q; cbn; lia).
    replace (Z.of_nat (S (length (pos_bits q))) - 1) with (Z.succ (Z.of_nat (length (pos_bits q)) - 1)) by lia.
    rewrite Z.pow_succ_r by lia. lia.
  - assert (0 < length (pos_bits q))%nat by (destruct q; cbn; lia).
    replace (Z.of_nat (S (length (pos_bits q))) - 1) with (Z.succ (Z.of_nat (length (pos_bits q)) - 1)) by lia.
    rewrite Z.pow_succ_r by lia. lia.
Qed.

Lemma bin_length v n : (0 < n)%nat -> 0 <= v < 2 ^ Z.of_nat n -> (length (bin v) <= n)%nat.
Proof.
  intros Hn Hv. destruct v as [|p|p]; [cbn; lia| |lia].
  cbn [bin]. rewrite rev_length.
  pose proof (pos_bits_lower p) as Hp.
  destruct (Nat.le_gt_cases (length (pos_bits p)) n) as [Hle|Hgt]; [exact Hle|exfalso].
  assert (2 ^ Z.of_nat n <= 2 ^ (Z.of_nat (length (pos_bits p)) - 1)) by (apply Z.pow_le_mono_r; lia).
  lia.
Qed.

Lemma zfill_bin_int2 s : s <> [] -> zfill (length s) (bin (int2 s)) = s.
Proof.
  intros Hs. pose proof (int2_range s) as Hr.
  assert (Hn : (0 < length s)%nat) by (destruct s; [congruence|cbn; lia]).
  pose proof (bin_length (int2 s) (length s) Hn Hr) as Hb.
  apply int2_inj.
  - rewrite zfill_length. lia.
  - rewrite int2_zfill. apply int2_bin. lia.
Qed.

Lemma zfill_bin_small v n : (0 < n)%nat -> 0 <= v < 2 ^ Z.of_nat n ->
  length (zfill n (bin v)) = n /\ int2 (zfill n (bin v)) = v.
Proof.
  intros Hn Hv. split.
  - rewrite zfill_length. pose proof (bin_length v n Hn Hv). lia.
  - rewrite int2_zfill. apply int2_bin. lia.
Qed.

Lemma int2_repeat_true n : int2 (repeat true n) = 2 ^ Z.of_nat n - 1.
Proof.
  induction n as [|n IH]; [reflexivity|].
  cbn [repeat]. rewrite int2_cons, IH, repeat_length. cbn [b2z].
  rewrite Nat2Z.inj_succ, Z.pow_succ_r by lia. lia.
Qed.

Lemma land_pow2_zero v k : 0 <= k -> 0 <= v < 2 ^ (k + 1) ->
  (Z.land v (Z.shiftl 1 k) =? 0) = (v <? 2 ^ k).
Proof.
  intros Hk Hv. rewrite Z.shiftl_1_l.
  assert (Hp : 2 ^ (k + 1) = 2 * 2 ^ k) by (rewrite Z.pow_add_r by lia; lia).
  assert (0 < 2 ^ k) by (apply Z.pow_pos_nonneg; lia).
  destruct (Z.ltb_spec v (2 ^ k)) as [Hlt|Hge].
  - apply Z.eqb_eq. apply Z.bits_inj'. intros m Hm.
    rewrite Z.land_spec, Z.bits_0, Z.pow2_bits_eqb by lia.
    destruct (Z.eqb_spec k m) as [<-|Hne]; [|apply andb_false_r].
    rewrite andb_true_r.
    destruct (Z.eq_dec v 0) as [->|Hnz]; [apply Z.bits_0|].
    apply Z.bits_above_log2; [lia|]. apply Z.log2_lt_pow2; lia.
  - apply Z.eqb_neq. intros E.
    assert (Ht : Z.testbit (Z.land v (2 ^ k)) k = false) by (rewrite E; apply Z.bits_0).
    rewrite Z.land_spec, Z.pow2_bits_true, andb_true_r in Ht by lia.
    pose proof (Z.testbit_spec' v k Hk) as Hs. rewrite Ht in Hs.
    replace (v / 2 ^ k) with 1 in Hs by nia. cbn in Hs. discriminate.
Qed.
