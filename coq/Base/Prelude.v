(* Common imports and the lia configuration used by every file of the development.
   Stdlib only. *)
From Coq Require Export ZArith List Bool Lia ZifyBool.
Export ListNotations.
#[global] Open Scope Z_scope.

Ltac Zify.zify_post_hook ::= Z.to_euclidean_division_equations.

(* Python values are modelled as: int -> Z, bytes / latin-1 str -> list Z (each 0..255),
   bit string ('0'/'1' characters) -> list bool. *)
Definition byte (b : Z) : Prop := 0 <= b < 256.
Definition byteb (b : Z) : bool := (0 <=? b) && (b <? 256).
Definition bytes (l : list Z) : Prop := Forall byte l.
Definition bytesb (l : list Z) : bool := forallb byteb l.

Lemma byteb_spec b : byteb b = true <-> byte b.
Proof. unfold byteb, byte. lia. Qed.

Lemma bytesb_spec l : bytesb l = true <-> bytes l.
Proof.
  unfold bytesb, bytes. rewrite forallb_forall, Forall_forall.
  split; intros H x Hx; apply byteb_spec; auto.
Qed.

(* Python slicing helpers on lists *)
Definition lastn {A} (n : nat) (l : list A) : list A := skipn (length l - n) l.

Lemma lastn_length {A} n (l : list A) : (n <= length l)%nat -> length (lastn n l) = n.
Proof. intros H. unfold lastn. rewrite skipn_length. lia. Qed.

Lemma lastn_app_exact {A} (l1 l2 : list A) : lastn (length l2) (l1 ++ l2) = l2.
Proof.
  unfold lastn. rewrite app_length.
  replace (length l1 + length l2 - length l2)%nat with (length l1 + 0)%nat by lia.
  rewrite skipn_app. rewrite Nat.add_0_r, skipn_all.
  replace (length l1 - length l1)%nat with 0%nat by lia. reflexivity.
Qed.

(* generic equality on lists of Z, used by the correspondence files *)
Fixpoint list_eqb {A} (eqb : A -> A -> bool) (l1 l2 : list A) : bool :=
  match l1, l2 with
  | [], [] => true
  | x :: xs, y :: ys => eqb x y && list_eqb eqb xs ys
  | _, _ => false
  end.

Definition zlist_eqb := list_eqb Z.eqb.

Lemma zlist_eqb_eq l1 l2 : zlist_eqb l1 l2 = true <-> l1 = l2.
Proof.
  unfold zlist_eqb. revert l2; induction l1 as [|x xs IH]; intros [|y ys]; cbn; split; intros H;
    try reflexivity; try discriminate.
  - apply andb_true_iff in H as [H1 H2]. apply Z.eqb_eq in H1. apply IH in H2. congruence.
  - injection H as -> ->. rewrite Z.eqb_refl. cbn. apply IH. reflexivity.
Qed.

Definition option_eqb {A} (eqb : A -> A -> bool) (a b : option A) : bool :=
  match a, b with
  | Some x, Some y => eqb x y
  | None, None => true
  | _, _ => false
  end.

(* mismatch reporting for correspondence files: returns the indices of failing cases *)
Fixpoint mism_from {A} (ok : A -> bool) (i : nat) (cs : list A) : list nat :=
  match cs with
  | [] => []
  | c :: cs' => if ok c then mism_from ok (S i) cs' else i :: mism_from ok (S i) cs'
  end.
Definition mism {A} (ok : A -> bool) (cs : list A) : list nat := mism_from ok 0 cs.
