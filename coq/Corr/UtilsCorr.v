(* Correspondence cases for utils.py: inputs and the implementation's outputs; [ok] runs the
   model and compares. *)
From DS Require Import Base.Prelude Base.Bits Model.Utils Model.UtilsFloat Model.UtilsF32 Model.UtilsStr.
From Flocq Require Import IEEE754.Binary IEEE754.Bits.

Inductive ucase :=
| CChecksum (msg : list Z) (out : Z)
| CBinCompl (s mask : list bool) (out : list bool)
| CTwosToInt (s : list bool) (out : option Z)
| CIntToTwos (v : Z) (n : nat) (out : option (list bool))
| CBinToBytes (s : list bool) (le : bool) (out : list Z)
| CBytesToBin (l : list Z) (le : bool) (out : list bool)
| CBytesToInt (l : list Z) (le : bool) (out : Z)
| CBytesToUint (l : list Z) (le : bool) (out : option Z)
| CIntToBytes (v : Z) (n : nat) (le : bool) (out : option (list Z))
| CUintToBytes (v : Z) (n : nat) (le : bool) (out : option (list Z))
| CSign (z out : Z)
| CRealToBytes64 (bits : Z) (le : bool) (out : list Z)      (* the double is given by its bits *)
| CRealToBinary64 (bits : Z) (out : list bool)
| CBytesToReal64 (l : list Z) (le : bool) (outbits : option Z)
| CRealToBytes32 (bits64 : Z) (le : bool) (out : option (list Z))
| CBytesToReal32 (l : list Z) (le : bool) (outbits64 : option Z)
(* str variants: a str is its list of code points (possibly above 255) *)
| CStringToInt (s : list Z) (le : bool) (out : option Z)
| CStringToUint (s : list Z) (le : bool) (out : option Z)
| CStringToBinary (s : list Z) (le : bool) (out : option (list bool))
| CBinaryToString (s : list bool) (le : bool) (out : list Z)
| CIntToString (v : Z) (n : nat) (le : bool) (out : option (list Z))
| CUintToString (v : Z) (n : nat) (le : bool) (out : option (list Z))
| CDayUs (h mi s us out : Z)
| CDayMs (h mi s us out : Z).

Definition blist_eqb := list_eqb Bool.eqb.

Definition ok (c : ucase) : bool :=
  match c with
  | CChecksum m o => checksum m =? o
  | CBinCompl s m o => blist_eqb (binary_complement s m) o
  | CTwosToInt s o => option_eqb Z.eqb (twos_to_int s) o
  | CIntToTwos v n o => option_eqb blist_eqb (int_to_twos v n) o
  | CBinToBytes s le o => zlist_eqb (binary_to_bytes s le) o
  | CBytesToBin l le o => blist_eqb (bytes_to_binary l le) o
  | CBytesToInt l le o => bytes_to_int l le =? o
  | CBytesToUint l le o => option_eqb Z.eqb (bytes_to_uint l le) o
  | CIntToBytes v n le o => option_eqb zlist_eqb (int_to_bytes v n le) o
  | CUintToBytes v n le o => option_eqb zlist_eqb (uint_to_bytes v n le) o
  | CSign z o => sign z =? o
  | CRealToBytes64 b le o => zlist_eqb (real_to_bytes64 (b64_of_bits b) le) o
  | CRealToBinary64 b o => blist_eqb (real_to_binary64 (b64_of_bits b)) o
  | CBytesToReal64 l le o =>
      option_eqb Z.eqb (option_map bits_of_b64 (bytes_to_real64 l le)) o
  | CRealToBytes32 b le o => option_eqb zlist_eqb (real_to_bytes32 b le) o
  | CBytesToReal32 l le o => option_eqb Z.eqb (bytes_to_real32 l le) o
  | CStringToInt s le o => option_eqb Z.eqb (string_to_int s le) o
  | CStringToUint s le o => option_eqb Z.eqb (string_to_uint s le) o
  | CStringToBinary s le o => option_eqb blist_eqb (string_to_binary s le) o
  | CBinaryToString s le o => zlist_eqb (binary_to_string s le) o
  | CIntToString v n le o => option_eqb zlist_eqb (int_to_string v n le) o
  | CUintToString v n le o => option_eqb zlist_eqb (uint_to_string v n le) o
  | CDayUs h mi s us o => day_microseconds h mi s us =? o
  | CDayMs h mi s us o => day_milliseconds h mi s us =? o
  end.
