(* Correspondence cases for weather_station.System: initial sensor table (read from the real
   instance), oracle table for the value tokens, the operations (thread id, byte), the non-True
   outcomes, the final buffer map restricted to the thread ids of the case (sorted, absent threads
   omitted) and the rows of the final sensor table that differ from the initial one. *)
From DS Require Import Base.Prelude Model.SmbCommon Model.SmbWeather.

Inductive ws_case :=
| WsCase (cfg : list sensor) (tab : list (list Z * list Z)) (tids : list Z) (ops : list (Z * Z))
         (obs : list (Z * outcome)) (fbufs : list (Z * list Z)) (fsens : list sensor).

Definition sensor_eqb (a b : sensor) : bool :=
  zlist_eqb (sid a) (sid b) && zlist_eqb (sval a) (sval b) && zlist_eqb (sdate a) (sdate b)
  && zlist_eqb (sinfo a) (sinfo b).

Definition buf_eqb (a b : Z * list Z) : bool := (fst a =? fst b) && zlist_eqb (snd a) (snd b).

Definition bufs_view (tids : list Z) (m : list (Z * list Z)) : list (Z * list Z) :=
  flat_map (fun t => match buf_get t m with Some v => [(t, v)] | None => [] end) tids.

(* the sensors whose row differs from the initial table (same order) *)
Fixpoint changed_sensors (cfg now : list sensor) : list sensor :=
  match cfg, now with
  | c :: cr, n :: nr => if sensor_eqb c n then changed_sensors cr nr else n :: changed_sensors cr nr
  | _, _ => now
  end.

Definition ws_ok (c : ws_case) : bool :=
  match c with
  | WsCase cfg tab tids ops obs fbufs fsens =>
      let r := ws_run (fmt_of_table tab) (ws_init cfg) ops in
      list_eqb obs_eqb (notable (snd r)) obs
      && list_eqb buf_eqb (bufs_view tids (bufs (fst r))) fbufs
      && list_eqb sensor_eqb (changed_sensors cfg (sensors (fst r))) fsens
      && (length (sensors (fst r)) =? length cfg)%nat
      && forallb (fun p => existsb (Z.eqb (fst p)) tids) (bufs (fst r))
  end.

Definition ws_show (c : ws_case) :=
  match c with
  | WsCase cfg tab _ ops _ _ _ => let r := ws_run (fmt_of_table tab) (ws_init cfg) ops in (notable (snd r), bufs (fst r))
  end.

Definition ws_ok_wf (c : ws_case) : bool :=
  ws_ok c &&
  match c with
  | WsCase _ _ _ _ obs _ _ =>
      forallb (fun p => match snd p with OReply r => ws_reply_wfb r | _ => true end) obs
  end.
