(* Correspondence cases for the settable ACU quantities (agent Acmd; C05 part acu): parameter
   commands to AZ / EL / PS on a fresh System, each sent as a one-command message through
   System.parse; the model is Model/AcmdAxis.v [parameter_command] for the axes and
   Model/AcmdParam.v for the pointing subsystem. *)
From DS Require Import Base.Prelude Base.Bits Gen.AcmdTables Model.AcmdFrame Model.AcmdAxis.
From DS Require Import Model.AcmdParam.
From Flocq Require Import Core IEEE754.BinarySingleNaN.

Inductive pop :=
(* the harness writes axis_state of AZ (0) / EL (1) through the class's setter *)
| PPoke (which state : Z)
(* one parameter command (26 bytes) to subsystem sub (1 AZ | 2 EL | 5 PS);
   mjd_ok: mjd_to_date(parameter_2) does not raise (Python oracle, used by id 50 source 3);
   tout: 0 done | 2 died;
   obs, axes: [parameter_command_counter; parameter_command; parameter_command_answer; p_Offset]
   obs, PS:   [counter; command; answer; actPtTimeOffset; timeSource; bits of actTimeOffset] *)
| PCmd (sub : Z) (cmd : list Z) (mjd_ok : bool) (t : Z) (obs : list Z).

(* now_bits: day_percentage of the frozen clock, as the bits of the double *)
Inductive pcase := PCase (now_bits : Z) (ops : list pop).

Definition f64_eqb (x y : f64) : bool :=
  match x, y with
  | B754_zero a, B754_zero b => Bool.eqb a b
  | B754_infinity a, B754_infinity b => Bool.eqb a b
  | B754_nan, B754_nan => true
  | B754_finite s m e _, B754_finite s' m' e' _ => Bool.eqb s s' && (Z.pos m =? Z.pos m') && (e =? e')
  | _, _ => false
  end.

Definition tcode5 (t : tout) : Z := match t with TDone => 0 | TParked => 1 | TDied => 2 | TSkipped => 3 end.

Definition obs_axis5 (ax : axis) : list Z :=
  [par_counter ax; par_id ax; par_answer ax; p_Offset (mo ax)].

Definition ps_obs_ok (p : p5state) (obs : list Z) : bool :=
  match obs with
  | [c; i; a; o; s; b] =>
      (q_counter p =? c) && (q_id p =? i) && (q_answer p =? a) && (q_pt_offset p =? o)
      && (q_time_source p =? s) && f64_eqb (q_time_off p) (of_bits b)
  | _ => false
  end.

Definition set_state (ax : axis) (v : Z) : axis := with_mo ax (set_motion_state (mo ax) v (traj (mo ax))).

Fixpoint pops_ok (now : f64) (az el : axis) (ps : p5state) (ops : list pop) : bool :=
  match ops with
  | [] => true
  | PPoke which v :: r =>
      if which =? 0 then pops_ok now (set_state az v) el ps r else pops_ok now az (set_state el v) ps r
  | PCmd sub cmd mjd_ok t obs :: r =>
      if sub =? 1 then
        let '(az', t') := parameter_command az cmd in
        (tcode5 t' =? t) && zlist_eqb (obs_axis5 az') obs && pops_ok now az' el ps r
      else if sub =? 2 then
        let '(el', t') := parameter_command el cmd in
        (tcode5 t' =? t) && zlist_eqb (obs_axis5 el') obs && pops_ok now az el' ps r
      else
        let '(ps', t') := p5_parameter_command mjd_ok now ps cmd in
        (tcode5 t' =? t) && ps_obs_ok ps' obs && pops_ok now az el ps' r
  end.

Definition pok (c : pcase) : bool :=
  match c with
  | PCase now_bits ops => pops_ok (of_bits now_bits) (axis_init cfg_AZ) (axis_init cfg_EL) p5_init ops
  end.
