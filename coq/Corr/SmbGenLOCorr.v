(* Correspondence cases for lo.System(system_type='generic_LO'): byte stream, oracle table for the
   frequency tokens of the stream, non-True outcomes, final snapshot (msg, power, repr(frequency)). *)
From DS Require Import Base.Prelude Model.SmbCommon Model.SmbGenLO.

Inductive g_case :=
| GCase (tab : list (list Z * fres)) (bs : list Z) (obs : list (Z * outcome))
        (fmsg : list Z) (fpower : Z) (ffreq : list Z).

Definition g_ok (c : g_case) : bool :=
  match c with
  | GCase tab bs obs fmsg fpower ffreq =>
      let r := g_run (fl_of_table tab) g_start bs in
      list_eqb obs_eqb (notable (snd r)) obs
      && zlist_eqb (lmsg (fst r)) fmsg
      && (power (ldev (fst r)) =? fpower)
      && zlist_eqb (frepr (ldev (fst r))) ffreq
  end.

Definition g_show (c : g_case) :=
  match c with
  | GCase tab bs _ _ _ _ => let r := g_run (fl_of_table tab) g_start bs in (notable (snd r), fst r)
  end.

Definition g_ok_wf (c : g_case) : bool :=
  g_ok c &&
  match c with
  | GCase _ _ obs _ _ _ =>
      forallb (fun p => match snd p with OReply r => g_reply_wfb r | _ => true end) obs
  end.
