(* C16 (tag Alay) — correspondence cases: inputs together with what the real status classes did;
   [ok] runs Model/AlayModel.v on the *generated* tables and compares.  Published frames are
   decoded with the *Golden* table (Model/AlayGolden.v). *)
From Coq Require Import String.
From DS Require Import Base.Prelude Base.Bits Model.Utils Model.AlayModel Model.AlayPs Model.AlayGolden Gen.AlayLayout.

Inductive tbl_id := TGs | TAxis | TMotor | TPs | TFs.
Inductive env_id := EDefault | EAz | EEl | ECw.

Definition table_of (t : tbl_id) : list field :=
  match t with
  | TGs => AlayLayout.gs_table | TAxis => AlayLayout.axis_table | TMotor => AlayLayout.motor_table
  | TPs => AlayLayout.ps_table | TFs => AlayLayout.fs_table
  end.
Definition golden_of (t : tbl_id) : list field :=
  match t with
  | TGs => AlayGolden.gs_table | TAxis => AlayGolden.axis_table | TMotor => AlayGolden.motor_table
  | TPs => AlayGolden.ps_table | TFs => AlayGolden.fs_table
  end.
Definition env_of (e : env_id) : axis_env :=
  match e with
  | EDefault => AlayLayout.env_default | EAz => AlayLayout.env_AZ | EEl => AlayLayout.env_EL
  | ECw => AlayLayout.env_CW
  end.

(* one assignment `obj.name = v`: [after] is None when the setter raised (block unchanged, checked by
   the harness), else the raw block after the assignment; [got] is what the getter then returned *)
Record op := { op_name : string; op_val : value; op_after : option (list Z); op_got : option value }.

Inductive alay_case :=
| CSeq (t : tbl_id) (e : env_id) (init : list Z) (ops : list op)
| CUpdMaster (e : env_id) (init : list Z) (after : option (list Z))
| CUpdSlave (e : env_id) (master_state : Z) (init : list Z) (after : option (list Z))
| CFrame (blocks : list (list Z)) (ms : Z) (frame : list Z)
| CDecode (frame : list Z) (items : list (nat * tbl_id * string * value))
| CModeRec (mode_id : Z) (observed : Z)
| CSys (inits : list (list Z)) (ops : list (nat * (string * value))) (finals : list (list Z))
(* PointingStatus.update_status on a real System: inputs, pointing block before, after (None: raised) *)
| CPsUpd (i : ps_input) (init : list Z) (after : option (list Z))
| CF64ofZ (z : Z) (out : option Z)
| CF32ofF64 (x : Z) (out : option Z)
| CF64ofF32 (x : Z) (out : Z).

Definition value_eqb (a b : value) : bool :=
  match a, b with
  | VBool x, VBool y => Bool.eqb x y
  | VInt x, VInt y => x =? y
  | VReal x, VReal y => x =? y
  | VBools x, VBools y => list_eqb Bool.eqb x y
  | VPair a1 a2, VPair b1 b2 => (a1 =? b1) && (a2 =? b2)
  | VBytes x, VBytes y => zlist_eqb x y
  | VOther, VOther => true
  | _, _ => false
  end.

Fixpoint run_ops (t : list field) (e : axis_env) (b : list Z) (ops : list op) : bool :=
  match ops with
  | [] => true
  | o :: rest =>
      match setn t e (op_name o) (op_val o) b, op_after o with
      | None, None => run_ops t e b rest
      | Some b', Some raw =>
          zlist_eqb b' raw &&
          option_eqb value_eqb (getn t (op_name o) b') (op_got o) &&
          run_ops t e b' rest
      | _, _ => false
      end
  end.

Definition block_sizes : list nat :=
  [AlayGolden.gs_size; AlayGolden.axis_size; AlayGolden.axis_size; AlayGolden.axis_size]
  ++ repeat AlayGolden.motor_size 13 ++ [AlayGolden.ps_size; AlayGolden.fs_size].

(* the 18 blocks of a System in frame order, with the generated motor counts *)
Definition sys_descs : list (list field * axis_env) :=
  [(AlayLayout.gs_table, AlayLayout.env_default); (AlayLayout.axis_table, AlayLayout.env_AZ);
   (AlayLayout.axis_table, AlayLayout.env_EL); (AlayLayout.axis_table, AlayLayout.env_CW)]
  ++ repeat (AlayLayout.motor_table, AlayLayout.env_default)
            (n_motors AlayLayout.env_AZ + n_motors AlayLayout.env_EL + n_motors AlayLayout.env_CW)
  ++ [(AlayLayout.ps_table, AlayLayout.env_default); (AlayLayout.fs_table, AlayLayout.env_default)].

Definition ok (c : alay_case) : bool :=
  match c with
  | CSeq t e init ops => run_ops (table_of t) (env_of e) init ops
  | CUpdMaster e init after =>
      option_eqb zlist_eqb (update_status_master AlayLayout.axis_table (env_of e) init) after
  | CUpdSlave e ms init after =>
      option_eqb zlist_eqb (update_status_slave AlayLayout.axis_table (env_of e) ms init) after
  | CFrame blocks ms fr =>
      option_eqb zlist_eqb
        (bind (frame_init AlayLayout.frame_size AlayLayout.start_flag AlayLayout.end_flag AlayLayout.length_field)
              (fun f0 => frame_update f0 ms blocks))
        (Some fr)
  | CDecode fr items =>
      forallb (fun it : nat * tbl_id * string * value =>
        let '(k, t, name, expect) := it in
        match nth_error (offsets 12 block_sizes) k, nth_error block_sizes k with
        | Some o, Some n => option_eqb value_eqb (getn (golden_of t) name (slice o n fr)) (Some expect)
        | _, _ => false
        end) items
  | CModeRec m obs => received_mode AlayLayout.mode_codes m =? obs
  | CSys inits ops finals => list_eqb zlist_eqb (sys_run sys_descs ops inits) finals
  | CPsUpd i init after =>
      option_eqb zlist_eqb (ps_update AlayLayout.ps_table AlayLayout.env_default i init) after
  | CF64ofZ z out => option_eqb Z.eqb (f64_of_Z z) out
  (* both renderings of the casts (UtilsF32 integer model used by the accessors, SpecFloat) against
     struct.pack / struct.unpack *)
  | CF32ofF64 x out => option_eqb Z.eqb (f32_of_f64 x) out && option_eqb Z.eqb (f32_of_f64_spec x) out
  | CF64ofF32 x out => (f64_of_f32 x =? out) && (f64_of_f32_spec x =? out)
  end.
