(* Correspondence cases for lo.System(system_type='w_LO'): oracle tables (float / capitalize), byte
   stream, non-True outcomes, final snapshot (msg, w_USB_devs, the six registers: WF = float given by its repr, WS = str). *)
From DS Require Import Base.Prelude Model.SmbCommon Model.SmbWLO.

Inductive w_case :=
| WCase (ftab : list (list Z * wfl)) (ctab : list (list Z * list Z)) (bs : list Z)
        (obs : list (Z * outcome)) (fmsg : list Z) (fusb : Z) (regs : list wval).

Definition wval_eqb (v p : wval) : bool :=
  match v, p with
  | WF r, WF t => zlist_eqb r t
  | WS s, WS t => zlist_eqb s t
  | _, _ => false
  end.

Definition w_ok (c : w_case) : bool :=
  match c with
  | WCase ftab ctab bs obs fmsg fusb regs =>
      let r := w_run (wfl_of_table ftab) (cap_of_table ctab) w_start bs in
      let d := ldev (fst r) in
      list_eqb obs_eqb (notable (snd r)) obs
      && zlist_eqb (lmsg (fst r)) fmsg
      && (usb d =? fusb)
      && list_eqb wval_eqb (map (wget d) [RFH; RFV; RAH; RAV; RRH; RRV]) regs
  end.

Definition w_show (c : w_case) :=
  match c with
  | WCase ftab ctab bs _ _ _ _ =>
      let r := w_run (wfl_of_table ftab) (cap_of_table ctab) w_start bs in (notable (snd r), fst r)
  end.

(* C04 suite: the implementation's replies through the decoder; replies of the known-finding class
   (capitalize() producing a code point >= 256) are reported by the oracle, not here *)
Definition w_ok_wf (c : w_case) : bool :=
  w_ok c &&
  match c with
  | WCase _ _ _ obs _ _ _ =>
      forallb (fun p => match snd p with
                        | OReply r => negb (bytesb r) || w_reply_wfb r
                        | _ => true end) obs
  end.
