(* Correspondence cases for simulators/receiver: a case is a System configuration, the oracle graphs
   recorded while the implementation ran (clock readings, datetime() results, _datetime_to_time
   results) and a list of segments; a segment is a list of bytes with the outcome of parse() on
   each, followed by the state snapshot taken after the segment.  [ok] runs the model and
   compares every outcome and every snapshot. *)
From DS Require Import Base.Prelude Gen.RcvTables Model.RcvModel.

Fixpoint lookup_l (g : list (list Z * option Z)) (k : list Z) : option Z :=
  match g with
  | [] => None
  | (k', v) :: r => if zlist_eqb k k' then v else lookup_l r k
  end.
Fixpoint lookup_z (g : list (Z * option (list Z))) (k : Z) : option (list Z) :=
  match g with
  | [] => None
  | (k', v) :: r => if k =? k' then v else lookup_z r k
  end.

Definition dump_ports (ps : list (key * list Z)) : list Z :=
  flat_map (fun kv => let '((a, b, c), v) := kv in a :: b :: c :: zlen v :: v) ps.

Definition dump_dio (d : dio_st) : list Z :=
  [d_lo d; d_vs d; d_vp d; d_vpf d; d_vv d; d_ch d; d_cal d; d_sd d; d_vlbi d; d_remote d; d_is_sd d; d_is_vlbi d].

Definition dump_kind (k : kind) : list Z :=
  match k with
  | KSlave => [0]
  | KDewar d => 1 :: dump_dio d
  | KSwitch d w => 2 :: dump_dio d ++ [w_out1 w; w_out2 w; w_a w; w_b w; w_c w; w_d w]
  | KLna l => [3; l_feeds l; l_ad l; l_en l; l_lon l; l_ron l]
  end.

Definition dump_board (kb : Z * board) : list Z :=
  let '(a, b) := kb in
  let c := b_com b in
  [a; c_addr c; c_frame c; c_offset c] ++
  (match c_date c with None => [0; 0] | Some d => [1; d] end) ++
  [c_cmd c; c_cid c; c_ans c; zlen (c_ports c)] ++ dump_ports (c_ports c) ++ dump_kind (b_kind b).

Definition dump_sys (s : sys) : list Z :=
  Z.of_nat (s_tick s) :: zlen (s_msg s) :: s_msg s ++ zlen (s_slaves s) :: flat_map dump_board (s_slaves s).

(* observed outcome of parse on one byte: tag 0 False, 1 True, 2 reply r, 3 exception *)
Definition out_ok (o : outcome) (tag : Z) (r : list Z) : bool :=
  match o with
  | OFalse => tag =? 0
  | OTrue => tag =? 1
  | OReply x => (tag =? 2) && zlist_eqb x r
  | OExc => tag =? 3
  end.

Inductive rcase :=
  RC (tag feeds : Z) (addrs : list Z) (clkl : list Z) (dates : list (list Z * option Z))
     (rend : list (Z * option (list Z)))
     (segs : list (list (Z * Z * list Z) * list Z)).

Section Run.
  Variable clk : nat -> Z.
  Variable mkdate : list Z -> option Z.
  Variable render : Z -> option (list Z).

  Fixpoint run_seg (s : sys) (bs : list (Z * Z * list Z)) : sys * bool :=
    match bs with
    | [] => (s, true)
    | (b, tag, r) :: rest =>
        let '(s1, o) := parse clk mkdate render s b in
        if out_ok o tag r then run_seg s1 rest else (s1, false)
    end.

  Fixpoint run_segs (s : sys) (segs : list (list (Z * Z * list Z) * list Z)) : bool :=
    match segs with
    | [] => true
    | (bs, snap) :: rest =>
        let '(s1, good) := run_seg s bs in
        good && zlist_eqb (dump_sys s1) snap && run_segs s1 rest
    end.
End Run.

Definition ok (c : rcase) : bool :=
  match c with
  | RC tag feeds addrs clkl dates rend segs =>
      run_segs (fun n => nth n clkl 0) (lookup_l dates) (lookup_z rend) (init_sys tag feeds addrs) segs
  end.

(* what the model computes, for the replay file of a mismatching case *)
Section Show.
  Variable clk : nat -> Z.
  Variable mkdate : list Z -> option Z.
  Variable render : Z -> option (list Z).
  Fixpoint show_segs (s : sys) (segs : list (list (Z * Z * list Z) * list Z))
    : list (list outcome * list Z) :=
    match segs with
    | [] => []
    | (bs, _) :: rest =>
        let '(s1, os) := run clk mkdate render s (map (fun x => fst (fst x)) bs) in
        (os, dump_sys s1) :: show_segs s1 rest
    end.
End Show.
Definition show (c : rcase) :=
  match c with
  | RC tag feeds addrs clkl dates rend segs =>
      show_segs (fun n => nth n clkl 0) (lookup_l dates) (lookup_z rend) (init_sys tag feeds addrs) segs
  end.
