(* Correspondence cases for update_status on the extended axis state and for the slave axis
   (agent Acmd; C14). *)
From DS Require Import Base.Prelude Base.Bits Gen.AcmdTables Model.AcmdFrame.
From DS Require Import Model.AcmdAxis Model.AcmdReset Model.AcmdStatus Corr.AcmdCorr Corr.AcmdResetCorr.

Inductive scase :=
(* MasterAxisStatus.update_status on AZ (which = 0) / EL (1): snapshots before and after *)
| STick (which : Z) (pre post : list Z)
(* SlaveAxisStatus.update_status of the cable wrap: the master's axis_state and
   b16(CW.brakes_open) afterwards *)
| SCw (master_state brakes : Z).

Definition srun (c : scase) : option (list Z) :=
  match c with
  | STick which pre post =>
      match xaxis_of_obs pre with
      | Some x =>
          if zlist_eqb (obs_xaxis x) pre then
            match xtick (if which =? 0 then cfg_AZ else cfg_EL) x with
            | Some x' => Some (obs_xaxis x')
            | None => None
            end
          else None
      | None => None
      end
  | SCw st br => Some [cw_brakes st]
  end.

Definition sok (c : scase) : bool :=
  match c, srun c with
  | STick _ _ post, Some l => zlist_eqb l post
  | SCw _ br, Some l => zlist_eqb l [br]
  | _, None => false
  end.
