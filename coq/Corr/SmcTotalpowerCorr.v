(* Correspondence cases for simulators/totalpower: a byte history on one System instance with the
   implementation's per-byte outcome and final register snapshot; [ok] runs Model.SmcTotalpower. *)
From DS Require Import Base.Prelude Model.SmcBase Model.SmcTotalpower.

Record tp_snap := {
  sn_boards : list (list Z * list Z * Z * Z);    (* _input, _previous_input, _attenuation, _filter *)
  sn_ints : list Z;      (* calOn externalNoise sample_period calOnPeriod zeroPeriod data_port *)
  sn_addr : list Z;
  sn_flags : list bool   (* data_configured pause stop (data_timer is not None) *)
}.

Inductive tp_case :=
| TPCase (channels : nat)
         (ints : list (list Z * option Z))     (* graph of int() on the tokens of the case *)
         (tms : list (Z * Z * Z))              (* results of _get_time, in call order *)
         (rnds : list Z)                       (* results of randint, in call order *)
         (bytes : list Z)
         (outs : list outcome)                 (* observed, one per byte *)
         (final : tp_snap)
(* framing only (C03): the class of each outcome, True or not *)
| TPFrame (bytes : list Z) (is_true : list bool).

Definition env_of (ints : list (list Z * option Z)) (tms : list (Z * Z * Z)) (rnds : list Z) : env :=
  {| py_int := conv_of_tbl ints;
     tm := fun k => nth k tms (-99, -99, -99);
     rnd := fun k => nth k rnds (-99) |}.

Definition snap_of (d : dev) : tp_snap :=
  {| sn_boards := map (fun b => (src_name (b_in b), src_name (b_prev b), b_att b, b_flt b)) (boards d);
     sn_ints := [calOn d; extNoise d; sample_period d; calOnPeriod d; zeroPeriod d; data_port d];
     sn_addr := data_address d;
     sn_flags := [configured d; paused d; stopped d; timer_set d] |}.

Definition board_eqb (a b : list Z * list Z * Z * Z) : bool :=
  let '(a1, a2, a3, a4) := a in let '(b1, b2, b3, b4) := b in
  zlist_eqb a1 b1 && zlist_eqb a2 b2 && (a3 =? b3) && (a4 =? b4).

Definition snap_eqb (a b : tp_snap) : bool :=
  list_eqb board_eqb (sn_boards a) (sn_boards b) && zlist_eqb (sn_ints a) (sn_ints b)
  && zlist_eqb (sn_addr a) (sn_addr b) && list_eqb Bool.eqb (sn_flags a) (sn_flags b).

(* framing-only automaton: the buffer is reset exactly on a tail byte *)
Definition frame_true (b : Z) : bool := negb (is_tail b).

Definition ok (c : tp_case) : bool :=
  match c with
  | TPCase ch ints tms rnds bytes outs final =>
      let e := env_of ints tms rnds in
      let (s, os) := run (step e) (init ch) bytes in
      list_eqb outcome_eqb os outs && snap_eqb (snap_of (dv s)) final
      && (ntm (dv s) =? length tms)%nat && (nrnd (dv s) =? length rnds)%nat
  | TPFrame bytes tr =>
      let e := env_of [] [] [] in
      let (s, os) := run (step e) (init 1) bytes in
      list_eqb Bool.eqb (map (fun o => match o with OTrue => true | _ => false end) os) tr
  end.

(* first difference, for the replay file: index, model outcome, observed outcome *)
Fixpoint first_diff (i : nat) (ms os : list outcome) : option (nat * option outcome * option outcome) :=
  match ms, os with
  | [], [] => None
  | m :: ms', o :: os' => if outcome_eqb m o then first_diff (S i) ms' os' else Some (i, Some m, Some o)
  | m :: _, [] => Some (i, Some m, None)
  | [], o :: _ => Some (i, None, Some o)
  end.

Definition show (c : tp_case) :=
  match c with
  | TPCase ch ints tms rnds bytes outs final =>
      let e := env_of ints tms rnds in
      let (s, os) := run (step e) (init ch) bytes in
      (first_diff 0 os outs,
       if snap_eqb (snap_of (dv s)) final then None else Some (snap_of (dv s)), ntm (dv s), nrnd (dv s))
  | TPFrame bytes tr =>
      let (s, os) := run (step (env_of [] [] [])) (init 1) bytes in (first_diff 0 os [], None, O, O)
  end.
