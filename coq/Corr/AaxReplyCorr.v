(* Correspondence cases for the ACU axis reply triples (C04 part acu): like Corr/AaxCorr.v with
   refused / unknown mode commands and parameter commands as events and the received / parameter
   triples in the observation. *)
From DS Require Import Base.Prelude Model.AaxModel Model.AaxReply.

Definition aaxr_case : Type := (cfg * Z * list Z * list (list revent * list Z))%type.

Definition rstart (c : cfg) (p0 : Z) : rsys := rstep c (rinit c p0) RUpdate.

Fixpoint rok_from (c : cfg) (st : rsys) (h : list (list revent * list Z)) : bool :=
  match h with
  | [] => true
  | (es, o) :: rest =>
      let st' := rrun c st es in
      zlist_eqb (robs st') o && rok_from c st' rest
  end.

Definition rok (k : aaxr_case) : bool :=
  let '(c, p0, o0, h) := k in
  zlist_eqb (robs (rstart c p0)) o0 && rok_from c (rstart c p0) h.

Fixpoint rtrace_from (c : cfg) (st : rsys) (h : list (list revent * list Z)) : list (list Z) :=
  match h with
  | [] => []
  | (es, _) :: rest => let st' := rrun c st es in robs st' :: rtrace_from c st' rest
  end.
Definition rshow (k : aaxr_case) : list (list Z) :=
  let '(c, p0, _, h) := k in robs (rstart c p0) :: rtrace_from c (rstart c p0) h.
