(* Correspondence cases for simulators/server.py handlers: the scripted environment the real
   handler ran against, and everything it was observed to do; [ok] runs the model of the fixed
   code in the same environment and compares. *)
From DS Require Import Base.Prelude Model.SrvHandler.

(* scripted device: the outcomes of the successive system.parse calls ... *)
Definition cenv := list outcome.
Definition c_sparse (e : cenv) (b : Z) : outcome * cenv :=
  match e with
  | o :: r => (o, r)
  | [] => (ORet (VBool false), [])
  end.

(* ... and a table of custom operations: name, strict (takes no parameter: TypeError when
   called with some), result.  A name that is not in the table does not exist. *)
Definition optab := list (list Z * bool * sysres).
Fixpoint lookup (tab : optab) (name : list Z) : option (bool * sysres) :=
  match tab with
  | [] => None
  | (n, strict, r) :: rest => if zlist_eqb n name then Some (strict, r) else lookup rest name
  end.
Definition c_scall (tab : optab) (e : cenv) (name : list Z) (params : list (list Z))
  : sysres * cenv :=
  (match lookup tab name with
   | None => RAttrErr
   | Some (strict, r) =>
       if strict && negb (match params with [] => true | _ => false end) then RExc else r
   end, e).

(* the sendto calls (numbered from 0 over the connection) that raise IOError *)
Definition c_sendok (fails : list nat) (k : nat) : bool := negb (existsb (Nat.eqb k) fails).

(* observed events.  OCall name None: the attribute lookup was observed but no operation body
   ran (missing attribute, not callable, wrong arity).  ODies code: 1 ValueError,
   2 UnicodeEncodeError, 3 IOError, 0 anything else.  OBad: something the model has no
   counterpart for (e.g. wrong destination address). *)
Inductive obs :=
| OParse (b : Z) | OSend (p : list Z) | OSendFail (p : list Z)
| OCall (name : list Z) (params : option (list (list Z)))
| OStop | OSub | OUnsub | ODies (code : Z) | OBad.

Definition exn_code (x : exn) : Z :=
  match x with EValueError => 1 | EUnicodeEncode => 2 | EIOError => 3 end.

Definition act_obs_eqb (a : action) (o : obs) : bool :=
  match a, o with
  | Parse b, OParse b' => b =? b'
  | Send p, OSend p' => zlist_eqb p p'
  | SendFail p, OSendFail p' => zlist_eqb p p'
  | Call n ps, OCall n' (Some ps') => zlist_eqb n n' && list_eqb zlist_eqb ps ps'
  | Call n ps, OCall n' None => zlist_eqb n n'
  | Stop, OStop => true
  | Subscribe, OSub => true
  | Unsubscribe, OUnsub => true
  | Dies x, ODies c => exn_code x =? c
  | _, _ => false
  end.

Fixpoint trace_eqb (a : list action) (o : list obs) : bool :=
  match a, o with
  | [], [] => true
  | x :: a', y :: o' => act_obs_eqb x y && trace_eqb a' o'
  | _, _ => false
  end.

Definition flow_died (f : flow) : bool := match f with Died => true | _ => false end.

Inductive scase :=
| CListenTcp (greet : option (list Z)) (outs : cenv) (tab : optab) (fails : list nat)
             (evs : list (option (list Z)))
             (observed : list obs) (final_cm : list Z) (died : bool)
| CListenUdp (outs : cenv) (tab : optab) (fails : list nat) (msg : list Z)
             (observed : list obs) (final_cm : list Z) (died : bool)
| CSend (first : option (list Z)) (tab : optab) (fails : list nat)
        (rs : list recv_ev) (qs : list queue_ev)
        (observed : list obs) (died : bool).

Definition run (c : scase) : list action * hst cenv * flow :=
  match c with
  | CListenTcp greet outs tab fails evs _ _ _ =>
      listen_tcp fixed cenv c_sparse (c_scall tab) (c_sendok fails) greet outs evs
  | CListenUdp outs tab fails msg _ _ _ =>
      listen_udp fixed cenv c_sparse (c_scall tab) (c_sendok fails) outs msg
  | CSend first tab fails rs qs _ _ =>
      send_handle fixed cenv (c_scall tab) (c_sendok fails) first [] rs qs
  end.

Definition ok (c : scase) : bool :=
  let r := run c in
  match c with
  | CListenTcp _ _ _ _ _ observed final_cm died
  | CListenUdp _ _ _ _ observed final_cm died =>
      trace_eqb (actions_of r) observed && zlist_eqb (cmsg (state_of r)) final_cm
      && Bool.eqb (flow_died (flow_of r)) died
  | CSend _ _ _ _ _ observed died =>
      trace_eqb (actions_of r) observed && Bool.eqb (flow_died (flow_of r)) died
  end.

(* what the model does on a case (put into the replay of a mismatch) *)
Definition show (c : scase) := (actions_of (run c), cmsg (state_of (run c)), flow_of (run c)).
