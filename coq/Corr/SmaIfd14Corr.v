(* Correspondence cases for IFD_14_channels: byte history on a fresh System(), per-byte outcomes,
   final self.msg, str(x * att_step) per channel, switched. *)
From DS Require Import Base.Prelude Model.SmaCommon Model.SmaIfd14.

Record i14_case := {
  jc_bytes : list Z;
  jc_outs : list outcome;
  jc_msg : list Z;
  jc_chans : list (list Z);
  jc_switched : bool
}.

Definition ok (c : i14_case) : bool :=
  let (s, outs) := i14_run i14_init (jc_bytes c) in
  list_eqb outcome_eqb outs (jc_outs c)
  && zlist_eqb (buf s) (jc_msg c)
  && list_eqb zlist_eqb (map render_quarter (chans (dev s))) (jc_chans c)
  && Bool.eqb (switched (dev s)) (jc_switched c).

Definition show (c : i14_case) :=
  let (s, outs) := i14_run i14_init (jc_bytes c) in (outs, buf s, switched (dev s)).
