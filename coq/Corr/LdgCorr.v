(* C07 correspondence: a case is one history on one real System instance (events with the
   observations made on the implementation after each event); [ok] replays it on the ledger
   instance over the generated table and compares every observation. *)
From Coq Require Import String.
From DS Require Import Base.Prelude Model.LdgLedger Model.LdgInst Gen.LdgLedger.
Open Scope string_scope.
Open Scope Z_scope.
Open Scope list_scope.

Record obs := mkObs {
  o_alive : option (list Z);            (* ids of the live objects, ascending (None: not observed) *)
  o_blocking : option (list Z);         (* those that are non-daemon threads/timers *)
  o_slots : list ((Z * string) * list Z);   (* attribute -> id of the object it refers to ([] = none) *)
  o_reply : option (list Z) }.          (* return value of system_stop, on stop events *)

Definition check_obs (T : table) (l : ledger) (o : obs) : bool :=
  match o_alive o with Some a => zlist_eqb (alive_ids l) a | None => true end &&
  match o_blocking o with Some a => zlist_eqb (blocking_ids l) a | None => true end &&
  forallb (fun p => zlist_eqb (slot_of l (fst p)) (snd p)) (o_slots o) &&
  match o_reply o with Some r => option_eqb zlist_eqb (stop_reply T) (Some r) | None => true end.

Section Run.
  Context {C E : Type}.
  Variable opf : table -> C -> ledger -> E -> option (C * op).

  Fixpoint check_run (T : table) (st : C * ledger) (steps : list (E * obs)) : bool :=
    match steps with
    | [] => true
    | (e, o) :: r =>
        match istep opf T st e with
        | Some st' => check_obs T (snd st') o && check_run T st' r
        | None => false
        end
    end.

  Definition check_from (T : table) (init : option (list sop)) (c0 : C) (o0 : obs) (steps : list (E * obs)) : bool :=
    match init with
    | Some body =>
        match boot T body with
        | Some l0 => check_obs T l0 o0 && check_run T (c0, l0) steps
        | None => false
        end
    | None => false
    end.

  (* for the replay file: the model's alive / blocking ids after every step *)
  Fixpoint trace_run (T : table) (st : C * ledger) (evs : list E) : list (option (list Z * list Z)) :=
    match evs with
    | [] => []
    | e :: r =>
        match istep opf T st e with
        | Some st' => Some (alive_ids (snd st'), blocking_ids (snd st')) :: trace_run T st' r
        | None => [None]
        end
    end.
  Definition trace_from (T : table) (init : option (list sop)) (c0 : C) (steps : list (E * obs)) :=
    match init with
    | Some body => match boot T body with
                   | Some l0 => Some (alive_ids l0, blocking_ids l0) :: trace_run T (c0, l0) (map fst steps)
                   | None => [None]
                   end
    | None => [None]
    end.
End Run.

Inductive lcase :=
| LTp (o0 : obs) (steps : list (tp_ev * obs))
| LMs (o0 : obs) (steps : list (ms_ev * obs))
| LMv (rest_api : bool) (o0 : obs) (steps : list (mv_ev * obs))
| LAcu (o0 : obs) (steps : list (acu_ev * obs))
| LAs (o0 : obs) (steps : list (plain_ev * obs))
| LPlain (name : string) (o0 : obs) (steps : list (plain_ev * obs)).

Definition table_of (name : string) : option table :=
  match find (fun p => String.eqb name (fst p)) tables with
  | Some p => Some (snd p)
  | None => None
  end.

Definition ok (c : lcase) : bool :=
  match c with
  | LTp o0 steps => check_from tp_op tbl_totalpower (Some tp_boot) tp_init_ctrl o0 steps
  | LMs o0 steps => check_from ms_op tbl_mscu (Some ms_boot) tt o0 steps
  | LMv rest o0 steps =>
      check_from mv_op tbl_minor_servos (mv_boot tbl_minor_servos rest) (mkMv 1 []) o0 steps
  | LAcu o0 steps => check_from acu_op tbl_acu (acu_boot tbl_acu) tt o0 steps
  | LAs o0 steps => check_from plain_op tbl_active_surface (as_boot tbl_active_surface) tt o0 steps
  | LPlain name o0 steps =>
      match table_of name with
      | Some T => check_from plain_op T (Some []) tt o0 steps
      | None => false
      end
  end.

Definition show (c : lcase) :=
  match c with
  | LTp o0 steps => trace_from tp_op tbl_totalpower (Some tp_boot) tp_init_ctrl steps
  | LMs o0 steps => trace_from ms_op tbl_mscu (Some ms_boot) tt steps
  | LMv rest o0 steps => trace_from mv_op tbl_minor_servos (mv_boot tbl_minor_servos rest) (mkMv 1 []) steps
  | LAcu o0 steps => trace_from acu_op tbl_acu (acu_boot tbl_acu) tt steps
  | LAs o0 steps => trace_from plain_op tbl_active_surface (as_boot tbl_active_surface) tt steps
  | LPlain name o0 steps =>
      match table_of name with
      | Some T => trace_from plain_op T (Some []) tt steps
      | None => [None]
      end
  end.
