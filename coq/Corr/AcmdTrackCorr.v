(* Correspondence cases for encoder-built program-track commands decoded by the real
   PointingStatus (agent Acmd, C10 part acu).  Encoder side: Model/AcmdEncoder.v; wire slicing:
   Model/AcmdTrackWire.v; acceptance and table update: Atrk's Model/AtrkModel.v [load] (C17).
   A case is a sequence of loads on a fresh System. *)
From DS Require Import Base.Prelude Base.Bits Model.AcmdFrame Model.AcmdEncoder.
From DS Require Import Model.AcmdTrackWire.
From DS Require Import Model.AtrkModel.

Inductive tkload :=
(* counter: the command counter the encoder used for this command;
   c: the encoder arguments; bytes: the command string the real handler received;
   start / room: mjd_to_date(start time) + offset as microseconds since 0001-01-01 (None: the
     conversion raises) and the microseconds left to datetime.max (Python oracles, as in C17);
   uds: per entry, int(round(1000000 * x)) for azimuth and elevation when the code's
     representability test holds (Python oracle);
   observed afterwards on the real PointingStatus: answer, counter, parameter id, ptTableLength,
   start_time token, the stored table (relative time, azimuth bits, elevation bits), and the
   stored maximum rates as bits (None when no load has been accepted yet) *)
| TkLoad (counter : Z) (c : ecmd) (bytes : list Z) (start : option Z) (room : Z)
         (uds : list (option Z * option Z))
         (o_ans o_cnt o_cmd o_len : Z) (o_start : option Z) (o_table : list (Z * Z * Z))
         (o_rates : option (Z * Z)).

Definition tkcase := list tkload.

Definition triple_eqb (a b : Z * Z * Z) : bool :=
  let '(x1, y1, z1) := a in let '(x2, y2, z2) := b in (x1 =? x2) && (y1 =? y2) && (z1 =? z2).

Definition args_match (c : ecmd) (counter : Z) (f : track_fields) : bool :=
  match c with
  | ETrack sub pid interp track load t0 raz rel entries =>
      (tf_counter f =? counter) && (tf_pid f =? pid) && (tf_interp f =? interp)
      && (tf_track f =? track) && (tf_load f =? load) && (tf_n f =? Z.of_nat (length entries))
      && (tf_t0 f =? t0) && (tf_raz f =? raz) && (tf_rel f =? rel)
      && list_eqb triple_eqb (tf_entries f) entries
  | _ => false
  end.

Fixpoint mk_entries (es : list (Z * Z * Z)) (uds : list (option Z * option Z)) : list entry :=
  match es, uds with
  | (t, a, e) :: es', (ua, ue) :: uds' =>
      {| e_t := t; e_az := {| c_bits := a; c_ud := ua |}; e_el := {| c_bits := e; c_ud := ue |} |}
      :: mk_entries es' uds'
  | _, _ => []
  end.

Definition load_ok (st : pstate) (rates : option (Z * Z)) (l : tkload) : pstate * option (Z * Z) * bool :=
  match l with
  | TkLoad counter c bytes start room uds o_ans o_cnt o_cmd o_len o_start o_table o_rates =>
      let f := dec_track bytes in
      let h := {| h_cnt := tf_counter f; h_param := tf_pid f; h_interp := tf_interp f;
                  h_track := tf_track f; h_mode := tf_load f; h_start := start; h_room := room |} in
      let st' := load st h (mk_entries (tf_entries f) uds) in
      let rates' := if ans st' =? 1 then Some (tf_raz f, tf_rel f) else rates in
      (st', rates',
       option_eqb zlist_eqb (enc_cmd counter c) (Some bytes)      (* model encoder = real bytes *)
       && args_match c counter f                                   (* the slices give back the arguments *)
       && (Nat.eqb (length uds) (length (tf_entries f)))
       && (ans st' =? o_ans) && (cnt st' =? o_cnt) && (cmd st' =? o_cmd) && (pt_len st' =? o_len)
       && option_eqb Z.eqb (AtrkModel.start st') o_start
       && list_eqb triple_eqb (map (fun p => (p_t p, p_azb p, p_elb p)) (tbl st')) o_table
       && option_eqb (fun a b : Z * Z => (fst a =? fst b) && (snd a =? snd b)) rates' o_rates)
  end.

Fixpoint loads_ok (st : pstate) (rates : option (Z * Z)) (ls : list tkload) : bool :=
  match ls with
  | [] => true
  | l :: ls' => let '(st', r', b) := load_ok st rates l in b && loads_ok st' r' ls'
  end.

Definition tkok (c : tkcase) : bool := loads_ok (init 0 0) None c.
