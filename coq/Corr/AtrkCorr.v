(* C17 correspondence: a case is a history of load commands and status refreshes executed on the
   real PointingStatus, with the observables recorded after every operation; [ok] replays the
   history on Model/AtrkModel.v and compares every observation. *)
From DS Require Import Base.Prelude Model.AtrkModel.
From Coq Require Import QArith_base.
#[local] Close Scope Q_scope.
#[local] Open Scope Z_scope.

(* a table row as observed: relative time, identity of the azimuth double, of the elevation double
   (the harness numbers the distinct bit patterns of a history 1, 2, ...: the model uses them as
   tokens only) *)
Definition row := (Z * Z * Z)%type.

Inductive obs :=
  Obs (tb : list row) (tk : option (list row)) (st : option Z) (lc : option (Z * Z))
      (state len act end_ interp_ cnt_ cmd_ ans_ : Z) (id : option Z)
      (azb elb : Z) (azn eln : option Z).

Inductive op :=
| OLoad (h : header) (es : list entry) (raised : bool) (o : obs)
| OTick (x : Q) (sv0 sve : sval) (raised : bool) (o : obs).

Record tcase := { c_lim : limits; c_az0 : Z; c_el0 : Z; c_ops : list op }.

Definition row_of (p : point) : row := (p_t p, p_azb p, p_elb p).

Definition row_eqb (a b : row) : bool :=
  let '(t1, a1, e1) := a in let '(t2, a2, e2) := b in (t1 =? t2) && (a1 =? a2) && (e1 =? e2).

Definition pair_eqb (a b : Z * Z) : bool := (fst a =? fst b) && (snd a =? snd b).

Definition obs_of (s : pstate) : obs :=
  Obs (map row_of (tbl s)) (option_map (map row_of) (tck s)) (start s) (lastc s)
      (pt_state s) (pt_len s) (pt_act s) (pt_end s) (interp s) (cnt s) (cmd s) (ans s)
      (pt_id s) (az_bahn s) (el_bahn s) (az_next s) (el_next s).

(* [cmp_tk]: compare the spline's source table (after loads; a refresh never replaces the spline
   objects, which the harness checks by identity) *)
Definition obs_eqb (cmp_tk : bool) (a b : obs) : bool :=
  match a, b with
  | Obs tb1 tk1 st1 lc1 s1 l1 a1 e1 i1 c1 m1 n1 id1 ab1 eb1 an1 en1,
    Obs tb2 tk2 st2 lc2 s2 l2 a2 e2 i2 c2 m2 n2 id2 ab2 eb2 an2 en2 =>
      list_eqb row_eqb tb1 tb2 && (negb cmp_tk || option_eqb (list_eqb row_eqb) tk1 tk2)
      && option_eqb Z.eqb st1 st2 && option_eqb pair_eqb lc1 lc2
      && (s1 =? s2) && (l1 =? l2) && (a1 =? a2) && (e1 =? e2) && (i1 =? i2)
      && (c1 =? c2) && (m1 =? m2) && (n1 =? n2) && option_eqb Z.eqb id1 id2
      && (ab1 =? ab2) && (eb1 =? eb2) && option_eqb Z.eqb an1 an2 && option_eqb Z.eqb en1 en2
  end.

(* replay: a raised operation ends the history (the harness stops there) *)
Fixpoint run (lim : limits) (s : pstate) (ops : list op) : bool :=
  match ops with
  | [] => true
  | OLoad h es raised o :: r =>
      let s' := load s h es in
      negb raised && obs_eqb true (obs_of s') o && run lim s' r
  | OTick x sv0 sve raised o :: r =>
      match advance lim sv0 sve s x with
      | None => raised
      | Some s' => negb raised && obs_eqb false (obs_of s') o && run lim s' r
      end
  end.

Definition ok (c : tcase) : bool := run (c_lim c) (init (c_az0 c) (c_el0 c)) (c_ops c).

(* for the replay file: the model's observations along the history *)
Fixpoint trace (lim : limits) (s : pstate) (ops : list op) : list (option obs) :=
  match ops with
  | [] => []
  | OLoad h es _ _ :: r => let s' := load s h es in Some (obs_of s') :: trace lim s' r
  | OTick x sv0 sve _ _ :: r =>
      match advance lim sv0 sve s x with
      | None => [None]
      | Some s' => Some (obs_of s') :: trace lim s' r
      end
  end.
Definition show (c : tcase) := trace (c_lim c) (init (c_az0 c) (c_el0 c)) (c_ops c).

(* short constructors for the generated case files *)
Definition mkE (t ab : Z) (au : option Z) (eb : Z) (eu : option Z) : entry :=
  {| e_t := t; e_az := {| c_bits := ab; c_ud := au |}; e_el := {| c_bits := eb; c_ud := eu |} |}.
Definition mkH (c p i k m : Z) (s : option Z) (room : Z) : header :=
  {| h_cnt := c; h_param := p; h_interp := i; h_track := k; h_mode := m; h_start := s;
     h_room := room |}.
Definition mkS (a e : Z) (f : bool) : sval := {| s_az := a; s_el := e; s_fits := f |}.
Definition mkL (a b c d : Z) : limits := {| az_lo := a; az_hi := b; el_lo := c; el_hi := d |}.
Definition mkC (l : limits) (a e : Z) (ops : list op) : tcase :=
  {| c_lim := l; c_az0 := a; c_el0 := e; c_ops := ops |}.
Definition mkQ (n : Z) (d : positive) : Q := Qmake n d.
