(* Correspondence cases for utils.mjd / utils.mjd_to_date on primitive floats. *)
From Coq Require Import ZArith List Bool Uint63 PrimFloat.
From DS Require Import Base.Prelude Model.UtilsMjd.

Inductive mcase :=
| CMjd (y mo d h mi s us : Z) (out : float)
| CMjdToDate (ipart : Z) (frac : float) (y mo d h mi s us : Z).

(* floats are compared through (mantissa, exponent): bit-exact on finite values *)
Definition feq (a b : float) : bool :=
  let (ma, ea) := frshiftexp a in let (mb, eb) := frshiftexp b in
  (Uint63.eqb (normfr_mantissa ma) (normfr_mantissa mb)) && (Uint63.eqb ea eb).

Definition okm (c : mcase) : bool :=
  match c with
  | CMjd y mo d h mi s us out => feq (mjd y mo d h mi s us) out
  | CMjdToDate ip fr y mo d h mi s us =>
      match civil_of ip fr with
      | (y', mo', d', h', mi', s', us') =>
          (y' =? y) && (mo' =? mo) && (d' =? d) && (h' =? h) && (mi' =? mi) && (s' =? s) && (us' =? us)
      end
  end.
