(* C06 correspondence: what the dynamic two-instance runs of the real classes observed, compared
   with what the generated table permits.  One case = one simulator type and configuration with a
   seeded command history on instance A. *)
From DS Require Import Base.Prelude Model.ShrHeap Gen.ShrSharing.
From Coq Require Import String.
Open Scope string_scope.
Open Scope list_scope.

Inductive shr_case :=
| CRun (classes : list cid)              (* classes of the live instances of the device (System first) *)
       (changed : list skey)             (* shared objects whose deep snapshot changed while A was driven *)
       (b_changed c_differs : bool)      (* B's catalogue replies changed / late C differs from the pristine baseline *)
       (aliases : list (cid * (attr * skey))). (* (class, attribute, shared key): an instance of the device
                                            reaches, through this attribute, a mutable object of the shared object *)

Definition T := ShrSharing.gen_table.
Definition Wt := Eval vm_compute in (wild T).
Definition tab := Eval vm_compute in (owned_tab T Wt).
Definition Ot := lookup_tab tab.
Definition bad_classes := Eval vm_compute in (offending T).

(* shared objects the table says instances of class k may change *)
Definition may_change (k : cid) : list skey :=
  match find_class T k with
  | None => []
  | Some ci =>
      c_smut ci ++ c_srebind ci
      ++ map snd (filter (fun p => mem (fst p) (Ot k) && negb (mem (fst p) (c_shadowed ci))) (c_cattrs ci))
      ++ map snd (filter (fun p => mem (fst p) (Ot k)) (c_alias_shared ci))
  end.

(* exposed: shared objects the table already reports as changeable by some class of the device *)
Definition alias_permitted (exposed : list skey) (x : cid * (attr * skey)) : bool :=
  let '(k, (a, key)) := x in
  match find_class T k with
  | None => false
  | Some ci =>
      negb (mem a (Ot k))                       (* the attribute is never mutated in place: sharing is harmless *)
      || mem key exposed                        (* or the table already reports the object as exposed *)
  end.

Definition ok (c : shr_case) : bool :=
  match c with
  | CRun classes changed b cdiff aliases =>
      forallb (fun k => mem k (map c_name T)) classes
      && subset changed (flat_map may_change classes)
      && (negb (b || cdiff) || existsb (fun k => mem k bad_classes) classes)
      && forallb (alias_permitted (flat_map may_change classes)) aliases
  end.
