(* Correspondence cases for calmux: a byte history fed to a fresh System(), the outcome of every
   parse(byte) call and the final attribute snapshot, as observed on the implementation. *)
From DS Require Import Base.Prelude Model.SmaCommon Model.SmaCalmux.

Record cm_case := {
  cc_bytes : list Z;
  cc_outs : list outcome;
  cc_msg : list Z;          (* final self.msg *)
  cc_cur : Z;
  cc_pol : list Z;
  cc_calon : list Z
}.

Definition ok (c : cm_case) : bool :=
  let (s, outs) := cm_run cm_init (cc_bytes c) in
  list_eqb outcome_eqb outs (cc_outs c)
  && zlist_eqb (buf s) (cc_msg c)
  && (cur (dev s) =? cc_cur c)
  && zlist_eqb (pol (dev s)) (cc_pol c)
  && zlist_eqb (calon (dev s)) (cc_calon c).

Definition show (c : cm_case) := cm_run cm_init (cc_bytes c).
