(* Correspondence cases for simulators/mscu: a history of bytes, clock changes and setpos_NAK
   switches on one System instance, with the implementation's outcome per event and the final
   histories / cabinet states; [ok] runs Model.SmcMscu (the code with fixes/22 applied). *)
From DS Require Import Base.Prelude Model.SmcBase Model.SmcMscu.

Inductive ms_case :=
| MSCase (t0 : Z)
         (ints : list (list Z * option Z)) (ints16 : list (list Z * option Z))
         (floats : list (list Z * option Z))       (* float(tok) as bits *)
         (reprs : list (Z * list Z))               (* repr(float) *)
         (evs : list ev)
         (outs : list outcome)                     (* OTrue for the non-byte events *)
         (final : list (list (Z * list pval) * Z)).  (* per servo: history, cab_state *)

Definition env_of ints ints16 floats reprs : env :=
  {| py_int := conv_of_tbl ints; py_int16 := conv_of_tbl ints16; py_float := conv_of_tbl floats;
     py_repr := fun b => assoc_z b reprs |}.

Definition entry_eqb (a b : Z * list pval) : bool := (fst a =? fst b) && list_eqb pval_eqb (snd a) (snd b).
Definition servo_eqb (a b : list (Z * list pval) * Z) : bool :=
  list_eqb entry_eqb (fst a) (fst b) && (snd a =? snd b).

Definition the_fix22 : bool := true.

Definition ok (c : ms_case) : bool :=
  match c with
  | MSCase t0 ints ints16 floats reprs evs outs final =>
      let (s, os) := run (step the_fix22 (env_of ints ints16 floats reprs)) (init t0) evs in
      list_eqb outcome_eqb os outs
      && list_eqb servo_eqb (map (fun sv => (hist sv, cab sv)) (servos (dv s))) final
  end.

Fixpoint first_diff (i : nat) (ms os : list outcome) : option (nat * option outcome * option outcome) :=
  match ms, os with
  | [], [] => None
  | m :: ms', o :: os' => if outcome_eqb m o then first_diff (S i) ms' os' else Some (i, Some m, Some o)
  | m :: _, [] => Some (i, Some m, None)
  | [], o :: _ => Some (i, None, Some o)
  end.

Definition show (c : ms_case) :=
  match c with
  | MSCase t0 ints ints16 floats reprs evs outs final =>
      let (s, os) := run (step the_fix22 (env_of ints ints16 floats reprs)) (init t0) evs in
      (first_diff 0 os outs,
       if list_eqb servo_eqb (map (fun sv => (hist sv, cab sv)) (servos (dv s))) final then None
       else Some (map (fun sv => (hist sv, cab sv)) (servos (dv s))))
  end.
