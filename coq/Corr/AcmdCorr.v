(* Correspondence cases for the ACU command path (agent Acmd; C14, c03_acu, c10_acu).
   A case is a history on a fresh `System`: a list of operations, each carrying the inputs and
   what the real classes were observed to do; [ok] folds the model and compares everything. *)
From DS Require Import Base.Prelude Base.Bits Gen.AcmdTables Model.AcmdFrame.
From DS Require Import Model.AcmdAxis Model.AcmdEncoder.

Inductive aop :=
(* feed bytes one at a time to System.parse.
   outs: per byte 0 False | 1 True | 2 ValueError | 3 other exception;
   threads: every command thread started, in order: subsystem id, command id, the command string
            given to the handler, and how the thread ended (0 done | 1 parked | 2 died | 3 skipped);
   az / el / ps: snapshots afterwards; buflen = len(system.msg); cnt = system.cmd_counter or -1 *)
| OpFeed (bs outs : list Z) (threads : list (Z * Z * list Z * Z)) (az el ps : list Z) (buflen cnt : Z)
(* the harness writes one attribute through the class's own setter:
   which 0 AZ | 1 EL; field 0 axis_state | 1 p_Ist | 2 p_Offset *)
| OpPoke (which field value : Z) (az el : list Z)
(* update_status() on both axes *)
| OpTick (az el : list Z).

Definition acase := list aop.

Definition b2Z (b : bool) : Z := if b then 1 else 0.

Definition obs_axis (ax : axis) : list Z :=
  let m := mo ax in
  [axis_state m; traj m; p_Soll m; p_Ist m; v_Soll m; v_Ist m; p_Offset m; brakes m;
   b2Z (stowed m); b2Z (stowPosOk m); pin_in m; pin_out m; b2Z (pins_extracted m);
   match cmc m with Some c => c | None => -1 end; b2Z (pt_active m);
   rx_counter ax; rx_mode ax; rx_answer ax; ex_counter ax; ex_mode ax; ex_answer ax;
   par_counter ax; par_id ax; par_answer ax].

Definition obs_ps (p : pstate) : list Z := [ps_counter p; ps_id p; ps_answer p; ps_pt_offset p].

Definition ocode (o : outcome) : Z :=
  match o with OFalse => 0 | OTrue => 1 | OValueError => 2 | OModelError => 99 end.
Definition tcode (t : tout) : Z :=
  match t with TDone => 0 | TParked => 1 | TDied => 2 | TSkipped => 3 end.

Fixpoint feed (s : sys) (bs : list Z) : sys * list Z * list (Z * Z * list Z * Z) :=
  match bs with
  | [] => (s, [], [])
  | b :: bs' =>
    let '(s1, o, d, ts) := sys_step s b in
    let th := match d with
              | None => []
              | Some ds => map (fun p : dispatch * tout =>
                                  let '(sub, cid, cmd) := fst p in (sub, cid, cmd, tcode (snd p)))
                               (combine ds ts)
              end in
    let '(s2, os, ths) := feed s1 bs' in
    (s2, ocode o :: os, th ++ ths)
  end.

Definition thread_eqb (a b : Z * Z * list Z * Z) : bool :=
  let '(s1, c1, l1, t1) := a in let '(s2, c2, l2, t2) := b in
  (s1 =? s2) && (c1 =? c2) && zlist_eqb l1 l2 && (t1 =? t2).

Definition poke_axis (cfg : acfg) (ax : axis) (field v : Z) : axis :=
  let m := mo ax in
  if field =? 0 then with_mo ax (set_motion_state m v (traj m))
  else if field =? 1 then with_mo ax (set_pos m (p_Soll m) (clamp_pos cfg v))
  else with_mo ax (set_offset m v).

Definition op_ok (s : sys) (o : aop) : sys * bool :=
  match o with
  | OpFeed bs outs threads az el ps buflen cnt =>
      let '(s1, os, ths) := feed s bs in
      (s1, zlist_eqb os outs && list_eqb thread_eqb ths threads
           && zlist_eqb (obs_axis (s_az s1)) az && zlist_eqb (obs_axis (s_el s1)) el
           && zlist_eqb (obs_ps (s_ps s1)) ps
           && (Z.of_nat (length (f_msg (s_fr s1))) =? buflen)
           && (match f_cnt (s_fr s1) with Some c => c | None => -1 end =? cnt))
  | OpPoke which field v az el =>
      let s1 := if which =? 0
                then mkSys (s_fr s) (poke_axis cfg_AZ (s_az s) field v) (s_el s) (s_ps s)
                else mkSys (s_fr s) (s_az s) (poke_axis cfg_EL (s_el s) field v) (s_ps s) in
      (s1, zlist_eqb (obs_axis (s_az s1)) az && zlist_eqb (obs_axis (s_el s1)) el)
  | OpTick az el =>
      let s1 := mkSys (s_fr s) (tick cfg_AZ (s_az s)) (tick cfg_EL (s_el s)) (s_ps s) in
      (s1, zlist_eqb (obs_axis (s_az s1)) az && zlist_eqb (obs_axis (s_el s1)) el)
  end.

Fixpoint ops_ok (s : sys) (ops : list aop) : bool :=
  match ops with
  | [] => true
  | o :: ops' => let '(s1, b) := op_ok s o in b && ops_ok s1 ops'
  end.

Definition ok (c : acase) : bool := ops_ok sys_init c.

(* diagnostics: what the model observes after the whole history *)
Fixpoint run_ops (s : sys) (ops : list aop) : sys :=
  match ops with
  | [] => s
  | o :: ops' => run_ops (fst (op_ok s o)) ops'
  end.
Definition show (c : acase) :=
  let s := run_ops sys_init c in
  (obs_axis (s_az s), obs_axis (s_el s), obs_ps (s_ps s), Z.of_nat (length (f_msg (s_fr s))),
   match c with
   | [OpFeed bs _ _ _ _ _ _ _] => let '(_, os, ths) := feed sys_init bs in (os, ths)
   | _ => ([], [])
   end).

(* ---------------------------------------------------------------- encoder cases (c10_acu) *)

Inductive ecase :=
(* Command(...).get() with the message counter preset: the commands given to the encoder and
   the bytes the real encoder produced (None: it raised) *)
| EFrame (counter : Z) (cmds : list ecmd) (out : option (list Z)).

Definition eok (c : ecase) : bool :=
  match c with
  | EFrame counter cmds out => option_eqb zlist_eqb (enc_frame counter cmds) out
  end.
