(* Correspondence cases for the backend simulators (C19 and the backend parts): a case carries the
   inputs, the oracle graph computed by the Python builtins for the tokens / instants of the case, and
   everything the implementation answered and showed; [ok] runs Model/BckModel.v and compares. *)
From DS Require Import Base.Prelude Model.BckModel.
From Coq Require Import String.

(* snapshot of the implementation after an event *)
Inductive snap :=
| Sn (flags : list bool)      (* acquiring, _waiting_for_start_time, _waiting_for_stop_time, ready,
                                 _running_setup, _running_target_sweep, _running_vna_sweep, failure *)
     (cf fn : list Z)         (* configuration_string, _filename *)
     (ig il : Z)              (* integration, interleave *)
     (live : list (Z * Z)).   (* live virtual timers in creation order: (kind code, due) *)

Inductive cev :=
| XBytes (bs : list Z) (outs : list (Z * list Z)) (sn : snap)   (* outs: (index of the byte, reply) *)
| XAdvance (t : Z) (fired : list (Z * bool)) (sn : snap)
| XStop (ack : list Z) (sn : snap)
| XSetFailure (f : bool) (sn : snap).

(* result of grammar.parse_message on a raw string *)
Inductive pmres :=
| RErr (msg : list Z)                                     (* str(GrammarException) *)
| RMsg (ty name code : list Z) (args : list (list Z)).

Inductive bcase :=
| BHist (v : Z) (t0 : Z)
        (toks : list (list Z * (option Z * fres * tsres)))  (* int(tok), float(tok), float(tok)/ACS *)
        (times : list (Z * list Z))                          (* rendering of the clock at each instant *)
        (tpi1 tpi2 : list Z)
        (evs : list cev)
| BParse (s : list Z) (r : pmres).

Definition variant_of (v : Z) : variant :=
  if v =? 1 then VSardara else if v =? 2 then VMistral else VGeneric.

Definition kind_code (k : tkind) : Z :=
  match k with KStart => 0 | KStop => 1 | KSetup => 2 | KTarget => 3 | KVna => 4 end.

Fixpoint zassoc {B} (k : Z) (l : list (Z * B)) : option B :=
  match l with
  | [] => None
  | (k', v) :: r => if k =? k' then Some v else zassoc k r
  end.

(* a token / instant the harness did not supply gets the error value of the oracle, which cannot agree
   with an implementation that used the value *)
Definition oracle_of toks (times : list (Z * list Z)) tpi1 tpi2 : oracle :=
  mkOracle
    (fun tok => match assoc tok toks with Some (i, _, _) => i | None => None end)
    (fun tok => match assoc tok toks with Some (_, f, _) => f | None => FErr end)
    (fun tok => match assoc tok toks with Some (_, _, t) => t | None => TsErr end)
    (fun t => match zassoc t times with Some r => r | None => [] end)
    tpi1 tpi2.

Definition blist_eqb := list_eqb Bool.eqb.
Definition zz_eqb (a b : Z * Z) : bool := (fst a =? fst b) && (snd a =? snd b).

Definition snap_of (s : st) : snap :=
  Sn [acq s; wstart s; wstop s; ready s; rsetup s; rtarget s; rvna s; failure s]
     (conf s) (fname s) (integ s) (interleave s)
     (map (fun tm => (kind_code (t_kind tm), t_due tm)) (timers s)).

Definition snap_eqb (a b : snap) : bool :=
  match a, b with
  | Sn f1 c1 n1 i1 l1 t1, Sn f2 c2 n2 i2 l2 t2 =>
    blist_eqb f1 f2 && zlist_eqb c1 c2 && zlist_eqb n1 n2 && (i1 =? i2) && (l1 =? l2) &&
    list_eqb zz_eqb t1 t2
  end.

(* feed bytes, collecting (index, reply); None if an observation is neither True nor a reply *)
Fixpoint feed_bytes (o : oracle) (v : variant) (s : st) (i : Z) (bs : list Z)
  : option (st * list (Z * list Z)) :=
  match bs with
  | [] => Some (s, [])
  | b :: r =>
    match feed o v s b with
    | (s1, OTrue) => feed_bytes o v s1 (i + 1) r
    | (s1, OReply x) => match feed_bytes o v s1 (i + 1) r with
                        | Some (s2, xs) => Some (s2, (i, x) :: xs)
                        | None => None
                        end
    | _ => None
    end
  end.

Definition out_eqb (a b : Z * list Z) : bool := (fst a =? fst b) && zlist_eqb (snd a) (snd b).
Definition fired_eqb (a : tkind * bool) (b : Z * bool) : bool :=
  (kind_code (fst a) =? fst b) && Bool.eqb (snd a) (snd b).

Fixpoint list_eqb2 {A B} (eqb : A -> B -> bool) (l1 : list A) (l2 : list B) : bool :=
  match l1, l2 with
  | [], [] => true
  | x :: xs, y :: ys => eqb x y && list_eqb2 eqb xs ys
  | _, _ => false
  end.

Fixpoint run_cevs (o : oracle) (v : variant) (s : st) (evs : list cev) : bool :=
  match evs with
  | [] => true
  | XBytes bs outs sn :: r =>
    match feed_bytes o v s 0 bs with
    | Some (s1, xs) => list_eqb out_eqb xs outs && snap_eqb (snap_of s1) sn && run_cevs o v s1 r
    | None => false
    end
  | XAdvance t fired sn :: r =>
    match step o v s (EAdvance t) with
    | (s1, OFired fs) => list_eqb2 fired_eqb fs fired && snap_eqb (snap_of s1) sn && run_cevs o v s1 r
    | _ => false
    end
  | XStop ack sn :: r =>
    match step o v s ESysStop with
    | (s1, OAck a) => zlist_eqb a ack && snap_eqb (snap_of s1) sn && run_cevs o v s1 r
    | _ => false
    end
  | XSetFailure f sn :: r =>
    let (s1, _) := step o v s (ESetFailure f) in
    snap_eqb (snap_of s1) sn && run_cevs o v s1 r
  end.

Definition pm_eqb (m : pm) (r : pmres) : bool :=
  match m, r with
  | PMEmpty, RErr e => zlist_eqb e (zs "empty message is not valid")
  | PMBadType c, RErr e => zlist_eqb e (quote (zs "invalid message type ") [c])
  | PMSyntax, RErr e => zlist_eqb e (zs "invalid syntax")
  | PMReq n a, RMsg ty n' c' a' =>
    zlist_eqb ty [63] && zlist_eqb n n' && zlist_eqb c' [] && list_eqb zlist_eqb a a'
  | PMRep n c a, RMsg ty n' c' a' =>
    zlist_eqb ty [33] && zlist_eqb n n' && zlist_eqb c c' && list_eqb zlist_eqb a a'
  | _, _ => false
  end.

Definition ok (c : bcase) : bool :=
  match c with
  | BHist v t0 toks times tpi1 tpi2 evs =>
    run_cevs (oracle_of toks times tpi1 tpi2) (variant_of v) (init t0) evs
  | BParse s r => pm_eqb (parse_message s) r
  end.

(* what the model answers, for the replay file of a mismatch *)
Fixpoint show_cevs (o : oracle) (v : variant) (s : st) (evs : list cev) : list (obs * snap) :=
  match evs with
  | [] => []
  | XBytes bs _ _ :: r =>
    match feed_bytes o v s 0 bs with
    | Some (s1, xs) => map (fun x => (OReply (snd x), snap_of s1)) xs ++ [(OTrue, snap_of s1)]
                       ++ show_cevs o v s1 r
    | None => []
    end
  | XAdvance t _ _ :: r => let (s1, x) := step o v s (EAdvance t) in (x, snap_of s1) :: show_cevs o v s1 r
  | XStop _ _ :: r => let (s1, x) := step o v s ESysStop in (x, snap_of s1) :: show_cevs o v s1 r
  | XSetFailure f _ :: r =>
    let (s1, x) := step o v s (ESetFailure f) in (x, snap_of s1) :: show_cevs o v s1 r
  end.

Inductive shown := ShHist (l : list (obs * snap)) | ShParse (m : pm).
Definition show (c : bcase) : shown :=
  match c with
  | BHist v t0 toks times tpi1 tpi2 evs =>
    ShHist (show_cevs (oracle_of toks times tpi1 tpi2) (variant_of v) (init t0) evs)
  | BParse s _ => ShParse (parse_message s)
  end.
