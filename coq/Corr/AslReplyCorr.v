(* Every reply the real System produced in the suites, pushed through the independent decoder
   (part c04_as): the request frame and the reply it caused. *)
From DS Require Import Base.Prelude Spec.AslReplySpec.

Inductive rcase := RCase (request reply : list Z).

(* request = complete frame: start byte, (len<<5 | idx), command code, ... (only a unicast is ever
   answered).  Besides decoding and echoing, a data reply must have the payload width of the
   command it answers: version 1, position 4, status 3, driver type 1. *)
Definition payload_ok (code : Z) (d : dreply) : bool :=
  match d with
  | DAck | DNakR => true
  | DData _ _ p =>
      match code with
      | 16 | 20 => (length p =? 1)%nat
      | 18 => (length p =? 4)%nat
      | 19 => (length p =? 3)%nat
      | _ => false
      end
  end.

Definition ok_reply (c : rcase) : bool :=
  match c with
  | RCase (start :: hdr :: code :: _) reply =>
      match usd_decode reply with
      | Some d => echoesb start (hdr mod 32) d && payload_ok code d && negb (hdr =? 0)
      | None => false
      end
  | _ => false
  end.

Definition show_reply (c : rcase) := match c with RCase _ reply => usd_decode reply end.
