(* Every reply the real System produced in the suites, pushed through the independent decoder
   (part c04_as): the request frame and the reply it caused. *)
From DS Require Import Base.Prelude Spec.AslReplySpec.

Inductive rcase := RCase (request reply : list Z).

(* request = complete frame: start byte, then (len<<5 | idx) for a unicast *)
Definition ok_reply (c : rcase) : bool :=
  match c with
  | RCase (start :: hdr :: _) reply =>
      match usd_decode reply with
      | Some d => echoesb start (hdr mod 32) d
      | None => false
      end
  | _ => false
  end.

Definition show_reply (c : rcase) := match c with RCase _ reply => usd_decode reply end.
