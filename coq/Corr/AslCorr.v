(* Correspondence cases for the active-surface line (C11, c03_as, c10_as, c04_as):
   inputs and the implementation's observations; [ok_*] run the models and compare.
   The real USD objects are spied on; in the model each unit is a SCRIPTED unit that replays the
   return values / delay_multiplier observed on the real unit and logs the calls it receives. *)
From DS Require Import Base.Prelude Base.Bits Model.Utils Model.AslLine.

Definition arg_eqb (a b : arg) : bool :=
  match a, b with
  | AInt x, AInt y => x =? y
  | ANone, ANone => true
  | AList x, AList y => zlist_eqb x y
  | _, _ => false
  end.
Definition ucall_eqb (a b : ucall) : bool :=
  (c_code a =? c_code b) && list_eqb arg_eqb (c_args a) (c_args b).
Definition outcome_eqb (a b : outcome) : bool :=
  match a, b with
  | OFalse, OFalse | OTrue, OTrue | OValueError, OValueError | OException, OException => true
  | OReply x, OReply y => zlist_eqb x y
  | _, _ => false
  end.

(* scripted unit *)
Record sunit := mkS { s_script : list (uret * Z); s_log : list ucall; s_dm : Z; s_bad : bool }.
Definition ssem (u : sunit) (c : ucall) : sunit * uret :=
  match s_script u with
  | (r, dm) :: rest => (mkS rest (c :: s_log u) dm (s_bad u), r)
  | [] => (mkS [] (c :: s_log u) (s_dm u) true, RNone)      (* more calls than observed *)
  end.
Definition sdelay (u : sunit) : Z := s_dm u.

(* one observed invocation on a real unit: the call, its return value, delay_multiplier after *)
Definition obs := (ucall * uret * Z)%type.

Record lcase := mkCase {
  k_min : Z;
  k_units : list (Z * list obs);      (* per unit: initial delay_multiplier, observed invocations *)
  k_bytes : list Z;                   (* fed to System.parse one by one *)
  k_out : list outcome;               (* classification of every parse call *)
  k_fin : list Z * bool * Z           (* final msg, msg_to_all, expected_bytes *)
}.

Definition unit_of (x : Z * list obs) : sunit :=
  mkS (map (fun o : obs => (snd (fst o), snd o)) (snd x)) [] (fst x) false.
Definition unit_ok (x : Z * list obs) (u : sunit) : bool :=
  negb (s_bad u) && match s_script u with [] => true | _ => false end
  && list_eqb ucall_eqb (rev (s_log u)) (map (fun o : obs => fst (fst o)) (snd x)).
Fixpoint all2 {A B} (f : A -> B -> bool) (l1 : list A) (l2 : list B) : bool :=
  match l1, l2 with
  | [], [] => true
  | x :: xs, y :: ys => f x y && all2 f xs ys
  | _, _ => false
  end.

Definition run_case (c : lcase) : line * list outcome :=
  lrun ssem sdelay (mkL (k_min c) (map unit_of (k_units c)) finit) (k_bytes c).

Definition ok_line (c : lcase) : bool :=
  let (l, os) := run_case c in
  list_eqb outcome_eqb os (k_out c)
  && all2 unit_ok (k_units c) (l_drv l)
  && (let f := l_f l in
      match k_fin c with
      | (m, a, e) => zlist_eqb (f_msg f) m && Bool.eqb (f_all f) a && (f_exp f =? e)
      end).

(* what the model computes, for the replay of a mismatch *)
Definition show_line (c : lcase) :=
  let (l, os) := run_case c in (os, map (fun u => rev (s_log u)) (l_drv l), l_f l).
