(* Correspondence cases for simulators/dbesm: a byte history on one System instance (initial random
   registers read back from the instance) with the implementation's per-byte outcome and the final
   state of every board; [ok] runs Model.SmcDbesm (the code with fixes/24 applied). *)
From DS Require Import Base.Prelude Model.SmcBase Model.SmcDbesm.

Inductive db_case :=
| DBCase (bs : list board) (modes : list (list Z))
         (ints : list (list Z * option Z))        (* graph of int() on the tokens of the case *)
         (floats : list (list Z * option fres))   (* graph of float(), abstracted *)
         (bytes : list Z)
         (outs : list outcome)
         (final : list board) (final_modes : list (list Z)).

Definition env_of (ints : list (list Z * option Z)) (floats : list (list Z * option fres)) : env :=
  {| py_int := conv_of_tbl ints; py_float := conv_of_tbl floats |}.

Definition board_eqb (a b : board) : bool :=
  (b_status a =? b_status b) && zlist_eqb (b_cfg a) (b_cfg b) && zlist_eqb (b_reg a) (b_reg b)
  && list_eqb hval_eqb (b_att a) (b_att b) && list_eqb cval_eqb (b_amp a) (b_amp b)
  && list_eqb cval_eqb (b_eq a) (b_eq b) && list_eqb cval_eqb (b_bpf a) (b_bpf b)
  && zlist_eqb (b_v5 a) (b_v5 b) && zlist_eqb (b_v3 a) (b_v3 b) && zlist_eqb (b_t0 a) (b_t0 b)
  && zlist_eqb (b_firm a) (b_firm b).

Definition the_fix24 : bool := true.

Definition ok (c : db_case) : bool :=
  match c with
  | DBCase bs modes ints floats bytes outs final fmodes =>
      let (s, os) := run (step the_fix24 (env_of ints floats)) (init bs modes) bytes in
      list_eqb outcome_eqb os outs && list_eqb board_eqb (boards (dv s)) final
      && list_eqb zlist_eqb (obs_mode (dv s)) fmodes
  end.

Fixpoint first_diff (i : nat) (ms os : list outcome) : option (nat * option outcome * option outcome) :=
  match ms, os with
  | [], [] => None
  | m :: ms', o :: os' => if outcome_eqb m o then first_diff (S i) ms' os' else Some (i, Some m, Some o)
  | m :: _, [] => Some (i, Some m, None)
  | [], o :: _ => Some (i, None, Some o)
  end.

Definition show (c : db_case) :=
  match c with
  | DBCase bs modes ints floats bytes outs final fmodes =>
      let (s, os) := run (step the_fix24 (env_of ints floats)) (init bs modes) bytes in
      (first_diff 0 os outs,
       if list_eqb board_eqb (boards (dv s)) final then None else Some (boards (dv s)),
       obs_mode (dv s))
  end.
