(* Byte-level correspondence for the active-surface line with real USDs: the line model of C03/C11
   (Model/AslLine.v: System.parse framing, _parse, handlers) instantiated with the USD model through
   [usd_sem] (Proofs/UsdLineLink.v), run on a byte history; compared with the outcome of every call of
   the real System.parse and the final snapshots of all units.  No time steps (framing does not
   depend on time). *)
From DS Require Import Base.Prelude Base.Bits Model.Utils Model.UsdModel Spec.UsdSpec.
From DS Require Import Model.AslLine Proofs.UsdLineLink.

Definition aout_eqb (a b : AslLine.outcome) : bool :=
  match a, b with
  | OFalse, OFalse | OTrue, OTrue | OValueError, OValueError | OException, OException
  | OBadRet, OBadRet => true
  | OReply x, OReply y => zlist_eqb x y
  | _, _ => false
  end.

(* min_usd_index, the unit indexes (min, min+1, ...), the bytes, the outcome of each parse(byte),
   the final snapshots *)
Definition bytes_case := (Z * list Z * list Z * list AslLine.outcome * list usd)%type.

Definition bok (c : bytes_case) : bool :=
  let '(min, idxs, bs, outs, snaps) := c in
  let '(l, os) := AslLine.lrun usd_sem usd_delay (mkL min (map usd_init idxs) finit) bs in
  list_eqb aout_eqb os outs && list_eqb usd_eqb (l_drv l) snaps.

Definition bshow (c : bytes_case) :=
  let '(min, idxs, bs, outs, snaps) := c in
  let '(l, os) := AslLine.lrun usd_sem usd_delay (mkL min (map usd_init idxs) finit) bs in
  (os, l_drv l).

(* messages one after the other on the same line: per message its bytes, the outcome of each
   parse(byte) and the snapshots of ALL units after it *)
Definition chunk := (list Z * list AslLine.outcome * list usd)%type.
Definition chunk_case := (Z * list Z * list chunk)%type.

Fixpoint chunks_ok (l : AslLine.line) (cs : list chunk) : bool :=
  match cs with
  | [] => true
  | (bs, outs, snaps) :: cs' =>
      let '(l1, os) := AslLine.lrun usd_sem usd_delay l bs in
      list_eqb aout_eqb os outs && list_eqb usd_eqb (l_drv l1) snaps && chunks_ok l1 cs'
  end.

Definition cok (c : chunk_case) : bool :=
  let '(min, idxs, cs) := c in chunks_ok (mkL min (map usd_init idxs) finit) cs.

Fixpoint chunks_first_diff (i : nat) (l : AslLine.line) (cs : list chunk) :=
  match cs with
  | [] => None
  | (bs, outs, snaps) :: cs' =>
      let '(l1, os) := AslLine.lrun usd_sem usd_delay l bs in
      if list_eqb aout_eqb os outs && list_eqb usd_eqb (l_drv l1) snaps
      then chunks_first_diff (S i) l1 cs' else Some (i, os, l_drv l1)
  end.
Definition cshow (c : chunk_case) :=
  let '(min, idxs, cs) := c in chunks_first_diff 0 (mkL min (map usd_init idxs) finit) cs.
