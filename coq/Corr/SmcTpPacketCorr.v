(* correspondence of Model/SmcTpPacket.v with the real totalpower.System._send_packet:
   a case = channels, initial attributes, and a history of invocations; every invocation carries the
   attribute values set before it (what `S` / `N` commands may change between packets), the clock
   reading, the recorded randint draws, the fake socket's behaviour, the stop / pause flags, and what
   the implementation did: the bytes given to sendall (or the exception class), the attributes after. *)
From DS Require Import Base.Prelude Base.Bits Model.Utils Model.SmcFloat Model.SmcTpPacket.

Inductive pobs :=
| OSent (packet : list Z) (stop : bool) (act : Z)     (* act: 0 timer restarted, 1 paused, 2 stopped *)
| ORaised (kind : Z).                                 (* 0 ZeroDivisionError, 1 ValueError, 2 OverflowError/ValueError of int(float) *)

Record pstep := PStep {
  s_sp : Z; s_calon : Z;                   (* attributes assigned before the call *)
  s_clock : Z; s_draws : list Z;
  s_fail : bool; s_stop : bool; s_pause : bool;
  s_obs : pobs;
  s_after : list Z                         (* sample_counter, cal_off_samples, calOn, toggle after the call *)
}.

Record tpp_case := PCase {
  c_channels : nat;
  c_init : list Z;                         (* counter, calOnPeriod, cal_off_samples, toggle, zero *)
  c_steps : list pstep
}.

Definition act_code (a : action) : Z := match a with ARestart => 0 | APaused => 1 | AStopped => 2 end.
Definition err_code (e : perr) : Z :=
  match e with EZeroDivision => 0 | EValueError => 1 | ENonFinite => 2 | EDraws => 100 | EOutside => 101 end.

Definition snap_of (st : pstate) : list Z := [ps_counter st; ps_caloff st; ps_calon st; ps_toggle st].

Definition zl_eqb (a b : list Z) : bool := if list_eq_dec Z.eq_dec a b then true else false.

Definition with_pre (st : pstate) (sp calon : Z) : pstate :=
  {| ps_sp := sp; ps_counter := ps_counter st; ps_calper := ps_calper st; ps_caloff := ps_caloff st;
     ps_calon := calon; ps_toggle := ps_toggle st; ps_zero := ps_zero st; ps_channels := ps_channels st |}.

Definition step_ok (st : pstate) (s : pstep) : bool * pstate :=
  let st0 := with_pre st (s_sp s) (s_calon s) in
  match send_packet st0 (s_clock s) (s_draws s) (s_fail s) (s_stop s) (s_pause s), s_obs s with
  | FSent pk st1 stop a, OSent pk' stop' a' =>
      (zl_eqb pk pk' && Bool.eqb stop stop' && (act_code a =? a') && zl_eqb (snap_of st1) (s_after s), st1)
  | FRaised e st1, ORaised k => ((err_code e =? k) && zl_eqb (snap_of st1) (s_after s), st1)
  | FSent _ st1 _ _, _ => (false, st1)
  | FRaised _ st1, _ => (false, st1)
  end.

Fixpoint steps_ok (st : pstate) (l : list pstep) : bool :=
  match l with
  | [] => true
  | s :: l' => let '(b, st1) := step_ok st s in b && steps_ok st1 l'
  end.

Definition init_state (ch : nat) (i : list Z) : option pstate :=
  match i with
  | [counter; calper; caloff; toggle; zero] =>
      Some {| ps_sp := 1000; ps_counter := counter; ps_calper := calper; ps_caloff := caloff; ps_calon := 0;
              ps_toggle := toggle; ps_zero := zero; ps_channels := ch |}
  | _ => None
  end.

Definition ok (c : tpp_case) : bool :=
  match init_state (c_channels c) (c_init c) with
  | Some st => steps_ok st (c_steps c)
  | None => false
  end.

(* what the model computes, for the replay file of a mismatching case *)
Fixpoint show_steps (st : pstate) (l : list pstep) : list (Z * list Z * list Z) :=
  match l with
  | [] => []
  | s :: l' =>
      let st0 := with_pre st (s_sp s) (s_calon s) in
      match send_packet st0 (s_clock s) (s_draws s) (s_fail s) (s_stop s) (s_pause s) with
      | FSent pk st1 _ a => (act_code a, firstn 40 pk, snap_of st1) :: show_steps st1 l'
      | FRaised e st1 => (- 1 - err_code e, [], snap_of st1) :: show_steps st1 l'
      end
  end.
Definition show (c : tpp_case) :=
  match init_state (c_channels c) (c_init c) with
  | Some st => show_steps st (c_steps c)
  | None => []
  end.
