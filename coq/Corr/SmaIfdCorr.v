(* Correspondence cases for IFD: float() oracle table of the case, a byte history fed to a fresh
   System(), the outcome of every parse(byte) call, the final self.msg and, per board,
   ', '.join(str(x) for x in status) as observed on the implementation. *)
From DS Require Import Base.Prelude Model.SmaCommon Model.SmaIfd.

Record ifd_case := {
  ic_env : env;
  ic_bytes : list Z;
  ic_outs : list outcome;
  ic_msg : list Z;
  ic_boards : list (list Z)
}.

Definition ok (c : ifd_case) : bool :=
  let (s, outs) := ifd_run (ic_env c) ifd_init (ic_bytes c) in
  list_eqb outcome_eqb outs (ic_outs c)
  && zlist_eqb (buf s) (ic_msg c)
  && list_eqb zlist_eqb (map board_str (dev s)) (ic_boards c).

Definition show (c : ifd_case) :=
  let (s, outs) := ifd_run (ic_env c) ifd_init (ic_bytes c) in (outs, buf s, map board_str (dev s)).

(* constructor for oracle entries written by the harness *)
Definition F (i : option Z) (neg gt : bool) (x2 : Z) (s : list Z) : option fl :=
  Some {| fl_int := i; fl_neg := neg; fl_gt := gt; fl_x2 := x2; fl_str := s |}.
