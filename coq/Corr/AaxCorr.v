(* Correspondence cases for the ACU axis kinematics (C15): a case is a configuration, a start
   position and a history; each history entry is a short list of model events (an accepted
   command is [ECmd; ETick id 0]: the command thread runs its handler up to the first sleep, which
   includes the first loop iteration with elapsed time 0) together with the observation the real
   MasterAxisStatus object showed after it; [ok] folds the model's [step] and compares every
   observation.  The first observation is taken after the update_status call System.__init__
   performs. *)
From DS Require Import Base.Prelude Model.AaxModel.

Definition aax_case : Type := (cfg * Z * list Z * list (list event * list Z))%type.

Definition start (c : cfg) (p0 : Z) : sys := step c (init c p0) EUpdate.

Fixpoint ok_from (c : cfg) (st : sys) (h : list (list event * list Z)) : bool :=
  match h with
  | [] => true
  | (es, o) :: rest =>
      let st' := run c st es in
      zlist_eqb (obs st') o && ok_from c st' rest
  end.

Definition ok (k : aax_case) : bool :=
  let '(c, p0, o0, h) := k in
  zlist_eqb (obs (start c p0)) o0 && ok_from c (start c p0) h.

(* the model's observations, for the replay file of a mismatching case *)
Fixpoint trace_from (c : cfg) (st : sys) (h : list (list event * list Z)) : list (list Z) :=
  match h with
  | [] => []
  | (es, _) :: rest => let st' := run c st es in obs st' :: trace_from c st' rest
  end.
Definition show (k : aax_case) : list (list Z) :=
  let '(c, p0, _, h) := k in obs (start c p0) :: trace_from c (start c p0) h.
